(* Statistics (tree_stats, validate) and construction (llfree_new) of the upper allocator. *)
From Coq Require Import List NArith Bool Lia Permutation PeanoNat.
From LLF Require Import Base Row Bitfield Lower Spec Upper UpperInvDef LowerFacts AbsLemmas UpperPrims UpperPutProofs.

(* ---------- finite sums ---------- *)
Definition sumN (l : list N) : N := fold_right N.add 0 l.
Definition sum_seq (n : nat) (f : nat -> N) : N := sumN (map f (seq 0 n)).

Lemma sumN_app a b : sumN (a ++ b) = sumN a + sumN b.
Proof. unfold sumN. induction a; cbn [fold_right app]; lia. Qed.
Lemma sumN_map_add {A} (f h : A -> N) l : sumN (map (fun x => f x + h x) l) = sumN (map f l) + sumN (map h l).
Proof. unfold sumN. induction l; cbn [fold_right map]; lia. Qed.
Lemma sumN_map_ext {A} (f h : A -> N) l : (forall x, In x l -> f x = h x) -> sumN (map f l) = sumN (map h l).
Proof. unfold sumN. induction l; cbn [fold_right map]; intros H; auto. rewrite (H a) by (left; auto). rewrite IHl; auto. intros; apply H; right; auto. Qed.
Lemma sumN_map_le {A} (f h : A -> N) l : (forall x, In x l -> f x <= h x) -> sumN (map f l) <= sumN (map h l).
Proof. unfold sumN. induction l; cbn [fold_right map]; intros H; [lia|]. pose proof (H a (or_introl eq_refl)). assert (fold_right N.add 0 (map f l) <= fold_right N.add 0 (map h l)) by (apply IHl; intros; apply H; right; auto). lia. Qed.
Lemma sumN_map_sub {A} (f h : A -> N) l : (forall x, In x l -> h x <= f x) ->
  sumN (map (fun x => f x - h x) l) = sumN (map f l) - sumN (map h l).
Proof.
  intros H. assert (Q : sumN (map (fun x => f x - h x) l) + sumN (map h l) = sumN (map f l)).
  { rewrite <- sumN_map_add. apply sumN_map_ext. intros x Hx. specialize (H x Hx). lia. }
  lia.
Qed.
Lemma sumN_map_zero {A} (f : A -> N) l : (forall x, In x l -> f x = 0) -> sumN (map f l) = 0.
Proof. unfold sumN. induction l; cbn [fold_right map]; intros H; auto. rewrite (H a) by (left; auto). rewrite IHl; auto. intros; apply H; right; auto. Qed.
Lemma sumN_map_const {A} (c : N) (l : list A) : sumN (map (fun _ => c) l) = N.of_nat (length l) * c.
Proof. unfold sumN. induction l; cbn [fold_right map length]; [lia|]. rewrite IHl. lia. Qed.

Lemma sumN_delta_seq_gen : forall n s (a : nat) v,
  sumN (map (fun k => if Nat.eqb a k then v else 0) (seq s n)) = if (Nat.leb s a && Nat.ltb a (s + n))%bool then v else 0.
Proof.
  induction n as [|n IH]; intros s a v; cbn [seq map sumN fold_right].
  - destruct (Nat.leb_spec s a), (Nat.ltb_spec a (s + 0)); cbn; auto; lia.
  - fold (sumN (map (fun k => if Nat.eqb a k then v else 0) (seq (S s) n))). rewrite IH.
    destruct (Nat.eqb_spec a s).
    + subst. destruct (Nat.leb_spec (S s) s); try lia. cbn [andb].
      destruct (Nat.leb_spec s s), (Nat.ltb_spec s (s + S n)); cbn; lia.
    + destruct (Nat.leb_spec (S s) a), (Nat.ltb_spec a (S s + n)), (Nat.leb_spec s a), (Nat.ltb_spec a (s + S n)); cbn; lia.
Qed.
Lemma sumN_delta_seq n (a : nat) v : (a < n)%nat ->
  sum_seq n (fun k => if Nat.eqb a k then v else 0) = v.
Proof.
  intros H. unfold sum_seq. rewrite sumN_delta_seq_gen.
  destruct (Nat.leb_spec 0 a), (Nat.ltb_spec a (0 + n)); cbn; lia.
Qed.

(* sum over a list as a sum over its indices *)
Lemma sumN_by_index {A} (f : A -> N) (l : list A) :
  sumN (map f l) = sum_seq (length l) (fun k => match nth_error l k with Some x => f x | None => 0 end).
Proof.
  unfold sum_seq. induction l as [|a l IH]; cbn [length seq map sumN fold_right]; auto.
  fold (sumN (map f l)). rewrite IH. f_equal. rewrite <- seq_shift, map_map. reflexivity.
Qed.

(* ---------- per-class statistics lists ---------- *)
Definition tot_free (cls : list class_stats) : N := sumN (map cs_free cls).
Definition tot_alloc (cls : list class_stats) : N := sumN (map cs_alloc cls).
Definition cal (cls : list class_stats) (k : nat) : N :=
  match nth_error cls k with Some x => cs_alloc x | None => 0 end.

Lemma tot_alloc_cal cls : tot_alloc cls = sum_seq (length cls) (cal cls).
Proof. unfold tot_alloc. rewrite sumN_by_index. reflexivity. Qed.

Lemma cal_upd cls c x y k : nth_error cls c = Some x ->
  cal (upd cls c y) k = if Nat.eqb c k then cs_alloc y else cal cls k.
Proof.
  intros H. unfold cal. destruct (Nat.eqb_spec c k).
  - subst. rewrite nth_error_upd_same; auto. apply nth_error_Some. congruence.
  - rewrite nth_error_upd_other; auto.
Qed.
Lemma tot_upd (f : class_stats -> N) cls c x y : nth_error cls c = Some x ->
  sumN (map f (upd cls c y)) + f x = sumN (map f cls) + f y.
Proof.
  intros H. destruct (nth_error_split _ _ H) as (l1 & l2 & -> & <-).
  rewrite upd_app_mid, !map_app, !sumN_app. cbn [map sumN fold_right]. lia.
Qed.

Lemma add_class_spec cls c f a : (nn c < length cls)%nat ->
  length (add_class cls c f a) = length cls /\
  tot_free (add_class cls c f a) = tot_free cls + f /\
  tot_alloc (add_class cls c f a) = tot_alloc cls + a /\
  forall k, cal (add_class cls c f a) k = cal cls k + (if Nat.eqb (nn c) k then a else 0).
Proof.
  intros H. unfold add_class. destruct (nth_error cls (nn c)) as [x|] eqn:E.
  2:{ apply nth_error_None in E. lia. }
  splits.
  - apply upd_length.
  - unfold tot_free. pose proof (tot_upd cs_free cls (nn c) x {| cs_free := cs_free x + f; cs_alloc := cs_alloc x + a |} E) as Q.
    cbn [cs_free] in Q. lia.
  - unfold tot_alloc. pose proof (tot_upd cs_alloc cls (nn c) x {| cs_free := cs_free x + f; cs_alloc := cs_alloc x + a |} E) as Q.
    cbn [cs_alloc] in Q. lia.
  - intros k. rewrite (cal_upd _ _ _ _ _ E). cbn [cs_alloc]. destruct (Nat.eqb_spec (nn c) k); [|lia].
    subst. unfold cal. rewrite E. reflexivity.
Qed.

Lemma sub_alloc_spec cls c f :
  length (sub_alloc cls c f) = length cls /\
  tot_free (sub_alloc cls c f) = tot_free cls /\
  forall k, cal (sub_alloc cls c f) k = cal cls k - (if Nat.eqb (nn c) k then f else 0).
Proof.
  unfold sub_alloc. destruct (nth_error cls (nn c)) as [x|] eqn:E.
  - splits.
    + apply upd_length.
    + unfold tot_free. pose proof (tot_upd cs_free cls (nn c) x {| cs_free := cs_free x; cs_alloc := cs_alloc x - f |} E) as Q.
      cbn [cs_free] in Q. lia.
    + intros k. rewrite (cal_upd _ _ _ _ _ E). cbn [cs_alloc]. destruct (Nat.eqb_spec (nn c) k); [|lia].
      subst. unfold cal. rewrite E. reflexivity.
  - splits; auto. intros k. destruct (Nat.eqb_spec (nn c) k); [|lia]. subst. unfold cal. rewrite E. reflexivity.
Qed.

Definition comb_classes (A B : list class_stats) : list class_stats :=
  map (fun p => {| cs_free := cs_free (fst p) + cs_free (snd p);
                   cs_alloc := cs_alloc (fst p) + cs_alloc (snd p) |}) (combine A B).

Lemma comb_classes_spec : forall A B, length A = length B ->
  length (comb_classes A B) = length A /\
  tot_free (comb_classes A B) = tot_free A + tot_free B /\
  tot_alloc (comb_classes A B) = tot_alloc A + tot_alloc B /\
  forall k, cal (comb_classes A B) k = cal A k + cal B k.
Proof.
  unfold comb_classes, tot_free, tot_alloc.
  induction A as [|a A IH]; intros [|b B] H; try discriminate; cbn [combine map length sumN fold_right].
  - splits; auto. intros k. unfold cal. destruct k; reflexivity.
  - injection H as H. destruct (IH B H) as (I1 & I2 & I3 & I4). unfold sumN in *. cbn [fst snd cs_free cs_alloc].
    splits; try lia.
    intros [|k]; [reflexivity|]. apply (I4 k).
Qed.

Section Stats.
  Variable g : geom.
  Variable policy : N -> N -> N -> pol.
  Hypothesis WF : wf_geom g.
  Hypothesis LF : lower_facts g.
  Notation TF := (TF g).

  (* ----- Trees::stats ----- *)
  Definition tstep (s : tree_stats) (t : tree) : tree_stats :=
    {| ts_free := ts_free s + t_free t; ts_trees := ts_trees s + t_free t / TF;
       ts_classes := add_class (ts_classes s) (t_class t) (t_free t) (TF - t_free t) |}.

  Lemma trees_fold : forall l s,
    (forall t, In t l -> (nn (t_class t) < 8)%nat) -> length (ts_classes s) = 8%nat ->
    let s' := fold_left tstep l s in
    length (ts_classes s') = 8%nat /\
    ts_free s' = ts_free s + sumN (map t_free l) /\
    tot_free (ts_classes s') = tot_free (ts_classes s) + sumN (map t_free l) /\
    tot_alloc (ts_classes s') = tot_alloc (ts_classes s) + sumN (map (fun t => TF - t_free t) l) /\
    forall k, cal (ts_classes s') k = cal (ts_classes s) k +
                sumN (map (fun t => if Nat.eqb (nn (t_class t)) k then TF - t_free t else 0) l).
  Proof.
    induction l as [|t l IH]; intros s Hc Hl; cbn [fold_left map sumN fold_right].
    - cbv zeta. splits; auto; try lia; intros; lia.
    - assert (Ht : (nn (t_class t) < length (ts_classes s))%nat) by (rewrite Hl; apply Hc; left; auto).
      destruct (add_class_spec (ts_classes s) (t_class t) (t_free t) (TF - t_free t) Ht) as (A1 & A2 & A3 & A4).
      destruct (IH (tstep s t)) as (I1 & I2 & I3 & I4 & I5).
      { intros; apply Hc; right; auto. }
      { cbn [tstep ts_classes]. congruence. }
      cbv zeta. cbn [tstep ts_classes ts_free] in *. unfold sumN in *. splits; auto; try lia.
      intros k. rewrite I5, A4. lia.
  Qed.

  (* ----- Locals::stats ----- *)
  Definition lstep (s : tree_stats) (cs : N * slot) : tree_stats :=
    let '(c, sl) := cs in
    if s_pres sl then
      {| ts_free := ts_free s + s_free sl; ts_trees := ts_trees s + s_free sl / TF;
         ts_classes := add_class (ts_classes s) c (s_free sl) 0 |}
    else s.
  Definition wpres (cs : N * slot) : N := if s_pres (snd cs) then s_free (snd cs) else 0.

  Lemma locals_fold : forall L s,
    (forall c sl, In (c, sl) L -> (nn c < 8)%nat) -> length (ts_classes s) = 8%nat ->
    let s' := fold_left lstep L s in
    length (ts_classes s') = 8%nat /\
    ts_free s' = ts_free s + sumN (map wpres L) /\
    tot_free (ts_classes s') = tot_free (ts_classes s) + sumN (map wpres L) /\
    tot_alloc (ts_classes s') = tot_alloc (ts_classes s) /\
    forall k, cal (ts_classes s') k = cal (ts_classes s) k.
  Proof.
    induction L as [|(c, sl) L IH]; intros s Hc Hl; cbn [fold_left map sumN fold_right].
    - cbv zeta. splits; auto; lia.
    - assert (Ht : (nn c < length (ts_classes s))%nat) by (rewrite Hl; eapply Hc; left; eauto).
      destruct (add_class_spec (ts_classes s) c (s_free sl) 0 Ht) as (A1 & A2 & A3 & A4).
      destruct (IH (lstep s (c, sl))) as (I1 & I2 & I3 & I4 & I5).
      { intros; eapply Hc; right; eauto. }
      { cbn [lstep]. destruct (s_pres sl); cbn [ts_classes]; congruence. }
      cbv zeta. unfold wpres at 1 3. cbn [snd]. unfold sumN in *.
      cbn [lstep] in *. destruct (s_pres sl); cbn [ts_classes ts_free] in *; splits; auto; try lia.
      intros k. rewrite I5, A4. destruct (Nat.eqb (nn c) k); lia.
  Qed.

  Lemma sum_free_sumN l : sum_free l = sumN (map (fun cs => s_free (snd cs)) l).
  Proof. unfold sum_free, sumN. induction l; cbn [fold_right map]; auto. rewrite IHl. reflexivity. Qed.

  Lemma wpres_present L : sumN (map wpres L) = sum_free (filter (fun cs => s_pres (snd cs)) L).
  Proof.
    rewrite sum_free_sumN. unfold sumN, wpres. induction L as [|a L IH]; cbn [map filter fold_right]; auto.
    destruct (s_pres (snd a)); cbn [map fold_right]; lia.
  Qed.

  (* ----- the D8 correction pass ----- *)
  Definition fstep (u : upper) (acc : res (list class_stats)) (cs : N * slot) : res (list class_stats) :=
    let '(c, sl) := cs in
    match acc with
    | Ok cl =>
        if s_pres sl then
          match tree_at u (row_tree g (s_row sl)) with
          | Some t => Ok (sub_alloc cl (t_class t) (s_free sl))
          | None => Panic (SIndex 48)
          end
        else Ok cl
    | other => other
    end.
  Definition Sk (u : upper) (k : nat) (cs : N * slot) : N :=
    if s_pres (snd cs) then
      match tree_at u (row_tree g (s_row (snd cs))) with
      | Some t => if Nat.eqb (nn (t_class t)) k then s_free (snd cs) else 0
      | None => 0
      end
    else 0.

  Lemma fixed_fold u : forall L cl,
    (forall c sl, In (c, sl) L -> s_pres sl = true -> tree_at u (row_tree g (s_row sl)) <> None) ->
    exists cl', fold_left (fstep u) L (Ok cl) = Ok cl' /\ length cl' = length cl /\
                tot_free cl' = tot_free cl /\
                forall k, cal cl' k = cal cl k - sumN (map (Sk u k) L).
  Proof.
    induction L as [|(c, sl) L IH]; intros cl H; cbn [fold_left map sumN fold_right].
    - exists cl. splits; auto; intros; lia.
    - cbn [fstep]. unfold Sk at 1. cbn [snd].
      destruct (s_pres sl) eqn:P.
      + destruct (tree_at u (row_tree g (s_row sl))) as [t|] eqn:Et.
        2:{ exfalso. eapply H; eauto. left; reflexivity. }
        destruct (sub_alloc_spec cl (t_class t) (s_free sl)) as (A1 & A2 & A3).
        destruct (IH (sub_alloc cl (t_class t) (s_free sl))) as (cl' & I1 & I2 & I3 & I4).
        { intros; eapply H; eauto. right; eauto. }
        exists cl'. splits; auto; try congruence.
        intros k. rewrite I4, A3. fold (sumN (map (Sk u k) L)). lia.
      + destruct (IH cl) as (cl' & I1 & I2 & I3 & I4).
        { intros; eapply H; eauto. right; eauto. }
        exists cl'. splits; auto; intros k; rewrite I4; fold (sumN (map (Sk u k) L)); lia.
  Qed.

  Lemma llfree_tree_stats_eq u :
    llfree_tree_stats g u =
    match fold_left (fstep u) (all_slots u)
            (Ok (comb_classes (ts_classes (trees_stats g u)) (ts_classes (locals_stats g u)))) with
    | Ok cl => Ok {| ts_free := ts_free (trees_stats g u) + ts_free (locals_stats g u);
                     ts_trees := ts_trees (trees_stats g u) + ts_trees (locals_stats g u);
                     ts_classes := cl |}
    | Err e => Err e
    | Panic s => Panic s
    end.
  Proof. reflexivity. Qed.
  Definition stats0_ : tree_stats := {| ts_free := 0; ts_trees := 0; ts_classes := repeat class_stats0 8 |}.
  Lemma trees_stats_eq u : trees_stats g u = fold_left tstep (trees u) stats0_.
  Proof. reflexivity. Qed.
  Lemma locals_stats_eq u : locals_stats g u = fold_left lstep (all_slots u) stats0_.
  Proof. reflexivity. Qed.

  (* ----- regrouping a sum over slots by the tree they hold ----- *)
  Lemma regroup (w : N * slot -> N) (tr : N * slot -> N) n : forall L,
    (forall x, In x L -> tr x < N.of_nat n) ->
    sumN (map w L) = sum_seq n (fun i => sumN (map w (filter (fun x => tr x =? N.of_nat i) L))).
  Proof.
    induction L as [|a L IH]; intros H.
    - cbn [map filter sumN fold_right]. unfold sum_seq. symmetry. apply sumN_map_zero. auto.
    - cbn [map sumN fold_right]. fold (sumN (map w L)). rewrite IH by (intros; apply H; right; auto).
      unfold sum_seq.
      rewrite (sumN_map_ext (fun i => sumN (map w (filter (fun x => tr x =? N.of_nat i) (a :: L))))
                (fun i => (if Nat.eqb (nn (tr a)) i then w a else 0) +
                          sumN (map w (filter (fun x => tr x =? N.of_nat i) L)))).
      + rewrite sumN_map_add. f_equal. symmetry. apply sumN_delta_seq.
        specialize (H a (or_introl eq_refl)). unfold nn. lia.
      + intros i _. cbn [filter]. destruct (N.eqb_spec (tr a) (N.of_nat i)), (Nat.eqb_spec (nn (tr a)) i);
          unfold nn in *; cbn [map]; unfold sumN; cbn [fold_right]; try lia.
  Qed.

  Lemma sumN_filter {A} (f : A -> N) (p : A -> bool) L :
    (forall x, In x L -> p x = false -> f x = 0) -> sumN (map f L) = sumN (map f (filter p L)).
  Proof.
    unfold sumN. induction L as [|a L IH]; intros H; cbn [map filter fold_right]; auto.
    rewrite IH by (intros; apply H; auto; right; auto).
    destruct (p a) eqn:E; cbn [map fold_right]; auto. rewrite (H a); auto. left; auto.
  Qed.
End Stats.

Section StatsThm.
  Variable g : geom.
  Variable policy : N -> N -> N -> pol.
  Hypothesis WF : wf_geom g.
  Hypothesis LF : lower_facts g.
  Notation TF := (TF g).

  (* required from the lower allocator: the global counter is the sum of the per-tree counters *)
  Definition LS_sum_P : Prop :=
    forall l, LowerInv g l ->
      free_frames (lower_stats g l) = sum_seq (nn (ntab g (frames l))) (fun i => tree_free g l (N.of_nat i)).

  Lemma cal_repeat0 m k : cal (repeat class_stats0 m) k = 0.
  Proof. unfold cal. revert k. induction m; intros [|k]; cbn; auto. Qed.

  Section WithInv.
    Variable x : ustate.
    Hypothesis HI : UpperInv g policy x.
    Local Notation u := (us x).
    Local Notation n := (length (trees (us x))).

    Lemma HI0 : UpperInvC g policy (fun _ => 0) [] x.
    Proof. apply UpperInv_C0. exact HI. Qed.

    Lemma st_ntrees : ntrees u = N.of_nat n.
    Proof. reflexivity. Qed.

    Lemma st_tree i t : nth_error (trees u) i = Some t ->
      (nn (t_class t) < 8)%nat /\
      (length (slots_of g u (N.of_nat i)) = if t_res t then 1 else 0)%nat /\
      t_free t + sum_free (slots_of g u (N.of_nat i)) + nth i (off x) 0 = tree_free g (low u) (N.of_nat i) /\
      tree_free g (low u) (N.of_nat i) <= TF.
    Proof.
      intros Hi. destruct HI as (H1 & H2 & H3 & H4 & H5 & H6 & H7).
      destruct (H6 i t Hi) as (A & B & C & D). splits; auto.
      - destruct (class_slots (us x) (t_class t)) as [l|] eqn:E; [|congruence].
        pose proof (class_slots_lt _ _ _ H4 E). unfold nn. lia.
      - destruct (t_res t); auto.
      - apply (UIC_tree_free_le g policy WF LF _ _ x _ HI0). unfold ntrees.
        assert (i < length (trees (us x)))%nat by (apply nth_error_Some; congruence). lia.
    Qed.

    Lemma st_slot_class c sl : In (c, sl) (all_slots u) -> (nn c < 8)%nat.
    Proof.
      intros Hin. destruct HI as (H1 & H2 & H3 & H4 & _). apply in_all_slots in Hin; auto.
      destruct Hin as (j & Hj). destruct (slot_at_inv _ _ _ _ Hj) as (l & E & _).
      pose proof (class_slots_lt _ _ _ H4 E). unfold nn. lia.
    Qed.

    Lemma st_slot_tree c sl : In (c, sl) (all_slots u) -> s_pres sl = true ->
      row_tree g (s_row sl) < N.of_nat n /\
      exists t, tree_at u (row_tree g (s_row sl)) = Some t /\ (nn (t_class t) < 8)%nat.
    Proof.
      intros Hin P. destruct HI as (H1 & H2 & H3 & H4 & H5 & H6 & H7).
      assert (Hp : In (c, sl) (present_slots (us x))) by (apply in_present; auto).
      destruct (H7 c sl Hp) as (B1 & _). split; [exact B1|].
      destruct (tree_at_some _ _ B1) as (t & Ht). exists t. split; auto.
      eapply st_tree. exact Ht.
    Qed.

    Definition Fa : N := sumN (map t_free (trees u)).
    Definition Fb : N := sum_free (present_slots u).

    Lemma Sk_sum : forall L, (forall c sl, In (c, sl) L -> In (c, sl) (all_slots u)) ->
      sum_seq 8 (fun k => sumN (map (Sk g u k) L)) = sumN (map (wpres) L).
    Proof.
      induction L as [|(c, sl) L IH]; intros H.
      - reflexivity.
      - assert (Q : sumN (map (fun k => Sk g u k (c, sl)) (seq 0 8)) = wpres (c, sl)).
        { unfold Sk, wpres. cbn [snd]. destruct (s_pres sl) eqn:P.
          - destruct (st_slot_tree c sl (H c sl (or_introl eq_refl)) P) as (_ & t & Ht & Hc). rewrite Ht.
            apply (sumN_delta_seq 8 (nn (t_class t)) (s_free sl) Hc).
          - apply sumN_map_zero. auto. }
        specialize (IH (fun c0 sl0 Hin => H c0 sl0 (or_intror Hin))). unfold sum_seq in *.
        rewrite (sumN_map_ext (fun k => sumN (map (Sk g u k) ((c, sl) :: L)))
                   (fun k => Sk g u k (c, sl) + sumN (map (Sk g u k) L))) by (intros; reflexivity).
        rewrite sumN_map_add, Q, IH. reflexivity.
    Qed.

    Definition Ck (k : nat) : N :=
      sumN (map (fun t => if Nat.eqb (nn (t_class t)) k then TF - t_free t else 0) (trees u)).

    Lemma Sk_le k : sumN (map (Sk g u k) (all_slots u)) <= Ck k.
    Proof.
      rewrite (sumN_filter (Sk g u k) (fun cs => s_pres (snd cs))).
      2:{ intros (c, sl) _ P. unfold Sk. cbn [snd] in *. rewrite P. reflexivity. }
      fold (present_slots u).
      rewrite (regroup (Sk g u k) (fun cs => row_tree g (s_row (snd cs))) n).
      2:{ intros (c, sl) Hin. apply in_present in Hin. destruct Hin as (Hin & P). cbn [snd].
          apply (st_slot_tree c sl Hin P). }
      unfold Ck. rewrite sumN_by_index. unfold sum_seq. apply sumN_map_le.
      intros i Hi. apply in_seq in Hi.
      destruct (nth_error (trees u) i) as [t|] eqn:Et.
      2:{ apply nth_error_None in Et.  lia. }
      fold (slots_of g u (N.of_nat i)).
      destruct (st_tree i t Et) as (T1 & T2 & T3 & T4).
      rewrite (sumN_map_ext (Sk g u k) (fun cs => if Nat.eqb (nn (t_class t)) k then s_free (snd cs) else 0)).
      2:{ intros (c, sl) Hin. apply in_slots_of in Hin. destruct Hin as (_ & P & R). unfold Sk. cbn [snd].
          rewrite P, R. unfold tree_at, nn. rewrite Nat2N.id. rewrite Et. reflexivity. }
      destruct (Nat.eqb (nn (t_class t)) k).
      - rewrite <- sum_free_sumN. lia.
      - rewrite sumN_map_zero; auto. lia.
    Qed.

    Lemma Fb_regroup : Fb = sum_seq n (fun i => sum_free (slots_of g u (N.of_nat i))).
    Proof.
      unfold Fb. rewrite sum_free_sumN.
      rewrite (regroup (fun cs => s_free (snd cs)) (fun cs => row_tree g (s_row (snd cs))) n).
      2:{ intros (c, sl) Hin. apply in_present in Hin. destruct Hin as (Hin & P). cbn [snd].
          apply (st_slot_tree c sl Hin P). }
      unfold sum_seq. apply sumN_map_ext. intros i _. rewrite <- sum_free_sumN. reflexivity.
    Qed.

    (* C04 / C14 *)
    Theorem tree_stats_correct :
      exists ts, llfree_tree_stats g u = Ok ts /\
        ts_free ts = Fa + Fb /\
        length (ts_classes ts) = 8%nat /\
        sumN (map cs_free (ts_classes ts)) = ts_free ts /\
        sumN (map (fun c => cs_free c + cs_alloc c) (ts_classes ts)) = ntrees u * TF.
    Proof.
      assert (HT : forall t, In t (trees u) -> (nn (t_class t) < 8)%nat).
      { intros t Hin. apply In_nth_error in Hin. destruct Hin as (i & Hi). eapply st_tree; eauto. }
      destruct (trees_fold g (trees u) stats0_ HT eq_refl) as (A1 & A2 & A3 & A4 & A5).
      cbv zeta in A1, A2, A3, A4, A5. rewrite <- trees_stats_eq in *.
      destruct (locals_fold g (all_slots u) stats0_ st_slot_class eq_refl) as (B1 & B2 & B3 & B4 & B5).
      cbv zeta in B1, B2, B3, B4, B5. rewrite <- locals_stats_eq in *.
      rewrite wpres_present in B2, B3. fold (present_slots u) in B2, B3. fold Fb in B2, B3.
      fold Fa in A2, A3.
      change (ts_free stats0_) with 0 in *. change (tot_free (ts_classes stats0_)) with 0 in *.
      change (tot_alloc (ts_classes stats0_)) with 0 in *.
      set (A := ts_classes (trees_stats g u)) in *. set (B := ts_classes (locals_stats g u)) in *.
      destruct (comb_classes_spec A B) as (C1 & C2 & C3 & C4); [congruence|].
      destruct (fixed_fold g u (all_slots u) (comb_classes A B)) as (cl' & D1 & D2 & D3 & D4).
      { intros c sl Hin P. destruct (st_slot_tree c sl Hin P) as (_ & t & Ht & _). congruence. }
      rewrite llfree_tree_stats_eq. fold A B. rewrite D1. eexists. split; [reflexivity|].
      cbn [ts_free ts_classes].
      assert (L8 : length cl' = 8%nat) by congruence.
      assert (TFREE : tot_free cl' = Fa + Fb) by (rewrite D3, C2; lia).
      splits; auto; try lia.
      { unfold tot_free in TFREE. lia. }
      rewrite sumN_map_add. fold (tot_free cl') (tot_alloc cl'). rewrite TFREE.
      (* alloc part *)
      assert (CA : forall k, cal (comb_classes A B) k = Ck k).
      { intros k. rewrite C4, A5, B5. change (ts_classes stats0_) with (repeat class_stats0 8).
        rewrite !cal_repeat0. unfold Ck. lia. }
      assert (TA : tot_alloc cl' = sum_seq 8 Ck - Fb).
      { rewrite tot_alloc_cal, L8. unfold sum_seq.
        rewrite (sumN_map_ext (cal cl') (fun k => Ck k - sumN (map (Sk g u k) (all_slots u)))).
        2:{ intros k _. rewrite D4, CA. reflexivity. }
        rewrite sumN_map_sub by (intros; apply Sk_le).
        f_equal. change (sumN (map (fun k => sumN (map (Sk g u k) (all_slots u))) (seq 0 8)))
                   with (sum_seq 8 (fun k => sumN (map (Sk g u k) (all_slots u)))).
        rewrite Sk_sum by auto. rewrite wpres_present. reflexivity. }
      assert (LE : Fb <= sum_seq 8 Ck).
      { unfold Fb, present_slots. rewrite <- wpres_present. rewrite <- Sk_sum by auto. unfold sum_seq.
        apply sumN_map_le. intros; apply Sk_le. }
      assert (SC : sum_seq 8 Ck = tot_alloc (comb_classes A B)).
      { rewrite tot_alloc_cal, C1, A1. unfold sum_seq. apply sumN_map_ext. intros; symmetry; apply CA. }
      rewrite C3, A4, B4 in SC.
      assert (NT : sumN (map (fun t => TF - t_free t) (trees u)) + Fa = ntrees u * TF).
      { unfold Fa. rewrite <- sumN_map_add.
        rewrite (sumN_map_ext _ (fun _ => TF)).
        - rewrite sumN_map_const. reflexivity.
        - intros t Hin. apply In_nth_error in Hin. destruct Hin as (i & Hi).
          destruct (st_tree i t Hi) as (_ & _ & T3 & T4). lia. }
      lia.
    Qed.

    Lemma st_off i : (i < n)%nat -> exists o, nth_error (off x) i = Some o /\ nth i (off x) 0 = o.
    Proof.
      intros Hi. destruct HI as (_ & _ & H3 & _).
      destruct (nth_error (off x) i) as [o|] eqn:E.
      - exists o. split; auto. apply nth_error_nth. exact E.
      - apply nth_error_None in E. lia.
    Qed.

    Hypothesis LS_sum : LS_sum_P.

    (* C04: the fast counters and the hidden amounts add up to the lower allocator's count *)
    Theorem tree_stats_free_sum : Fa + Fb + sumN (off x) = free_frames (lower_stats g (low u)).
    Proof.
      pose proof HI as (H1 & H2 & H3 & _).
      rewrite (LS_sum _ H1), <- H2.
      unfold Fa. rewrite sumN_by_index, Fb_regroup.
      rewrite <- (map_id (off x)) at 1. rewrite sumN_by_index, H3.
      unfold sum_seq. rewrite <- !sumN_map_add. apply sumN_map_ext.
      intros i Hi. apply in_seq in Hi.
      destruct (nth_error (trees u) i) as [t|] eqn:Et.
      2:{ apply nth_error_None in Et. lia. }
      destruct (st_tree i t Et) as (_ & _ & T3 & _).
      destruct (st_off i) as (o & E1 & E2); [lia|]. rewrite E1. unfold id. lia.
    Qed.

    Corollary llfree_tree_stats_free ts :
      llfree_tree_stats g u = Ok ts ->
      ts_free ts + sumN (off x) = free_frames (lower_stats g (low u)).
    Proof.
      intros E. destruct tree_stats_correct as (ts' & E' & F & _). rewrite E in E'. inversion E'; subst ts'.
      rewrite F. apply tree_stats_free_sum.
    Qed.

    Lemma in_combine_seq_inv {A} (l : list A) : forall s i t,
      In (i, t) (combine (seq s (length l)) l) -> (s <= i)%nat /\ nth_error l (i - s) = Some t.
    Proof.
      induction l as [|a l IH]; intros s i t H; cbn in H; [destruct H|].
      destruct H as [H|H].
      - inversion H; subst. split; [lia|]. rewrite Nat.sub_diag. reflexivity.
      - destruct (IH _ _ _ H) as (Q1 & Q2). split; [lia|].
        replace (i - s)%nat with (S (i - S s)) by lia. exact Q2.
    Qed.

    Lemma length_filter_sum {A} (p : A -> bool) l :
      N.of_nat (length (filter p l)) = sumN (map (fun a => if p a then 1 else 0) l).
    Proof.
      unfold sumN. induction l as [|a l IH]; cbn [filter map fold_right length]; auto.
      destruct (p a); cbn [length]; lia.
    Qed.

    (* validate() passes on every state without offline trees *)
    Theorem llfree_validate_ok :
      Forall (fun o => o = 0) (off x) -> llfree_validate g u = Ok tt.
    Proof.
      intros Hoff.
      assert (Hnth : forall i, nth i (off x) 0 = 0).
      { intros i. destruct (nth_in_or_default i (off x) 0) as [Hin|E]; auto.
        rewrite Forall_forall in Hoff. apply Hoff. exact Hin. }
      assert (Hsum : sumN (off x) = 0).
      { rewrite <- (map_id (off x)). apply sumN_map_zero. rewrite Forall_forall in Hoff. exact Hoff. }
      destruct tree_stats_correct as (ts & E & F & _).
      pose proof (llfree_tree_stats_free ts E) as FS. rewrite Hsum in FS.
      unfold llfree_validate. rewrite E. unfold llfree_stats.
      replace (ts_free ts =? free_frames (lower_stats g (low u))) with true by (symmetry; apply N.eqb_eq; lia).
      cbn [negb].
      (* unreserved trees *)
      replace (forallb _ (combine (seq 0 n) (trees u))) with true.
      2:{ symmetry. apply forallb_forall. intros (i, t) Hin.
          destruct (in_combine_seq_inv _ _ _ _ Hin) as (_ & Hi). rewrite Nat.sub_0_r in Hi.
          destruct (st_tree i t Hi) as (_ & T2 & T3 & _).
          destruct (t_res t); auto. cbn [orb]. apply N.eqb_eq.
          apply length_zero_iff_nil in T2. rewrite T2, Hnth in T3. cbn [sum_free fold_right] in T3. lia. }
      cbn [negb]. fold (present_slots u).
      (* every reservation *)
      replace (forallb _ (present_slots u)) with true.
      2:{ symmetry. apply forallb_forall. intros (c, sl) Hin. cbn [snd].
          apply in_present in Hin. destruct Hin as (Hin & P).
          destruct (st_slot_tree c sl Hin P) as (B1 & t & Ht & _). rewrite Ht.
          assert (Hi : nth_error (trees u) (nn (row_tree g (s_row sl))) = Some t) by exact Ht.
          destruct (st_tree _ t Hi) as (_ & T2 & T3 & _).
          unfold nn in T2, T3. rewrite N2Nat.id in T2, T3. fold (nn (row_tree g (s_row sl))) in T3.
          assert (Hs : In (c, sl) (slots_of g u (row_tree g (s_row sl)))) by (apply in_slots_of; auto).
          destruct (slots_of g u (row_tree g (s_row sl))) as [|a [|b l]] eqn:Es; [destruct Hs| |].
          - destruct Hs as [->|[]]. destruct (t_res t); [|discriminate]. cbn [andb].
            apply N.eqb_eq. rewrite Hnth in T3. cbn [sum_free fold_right snd] in T3. lia.
          - destruct (t_res t); discriminate. }
      cbn [negb].
      (* count *)
      replace (N.of_nat (length (filter t_res (trees u))) =? N.of_nat (length (present_slots u))) with true; auto.
      symmetry. apply N.eqb_eq.
      rewrite length_filter_sum, sumN_by_index.
      rewrite <- (N.mul_1_r (N.of_nat (length (present_slots u)))), <- sumN_map_const.
      rewrite (regroup (fun _ => 1) (fun cs => row_tree g (s_row (snd cs))) n).
      2:{ intros (c, sl) Hin. apply in_present in Hin. destruct Hin as (Hin & P). cbn [snd].
          apply (st_slot_tree c sl Hin P). }
      unfold sum_seq. apply sumN_map_ext. intros i Hi. apply in_seq in Hi.
      destruct (nth_error (trees u) i) as [t|] eqn:Et.
      2:{ apply nth_error_None in Et. lia. }
      destruct (st_tree i t Et) as (_ & T2 & _).
      fold (slots_of g u (N.of_nat i)). rewrite sumN_map_const, T2. destruct (t_res t); reflexivity.
    Qed.
  End WithInv.
End StatsThm.

(* ---------- construction ---------- *)
Fixpoint lgo (cl : list (N * N)) (buf : list slot) (acc : list (option (list slot)))
  : res (list (option (list slot))) :=
  match cl with
  | [] => Ok acc
  | (c, n) :: r =>
      if 8 <=? c then Panic (SIndex 49)
      else lgo r (skipn (nn n) buf) (upd acc (nn c) (Some (firstn (nn n) buf)))
  end.
Lemma locals_new_lgo classing buf : locals_new classing buf = lgo classing buf (repeat None 8).
Proof. reflexivity. Qed.

Definition notpres (s : slot) : Prop := s_pres s = false.

Lemma Forall_firstn' {A} (P : A -> Prop) n : forall l, Forall P l -> Forall P (firstn n l).
Proof. induction n; intros [|a l] H; cbn; auto. inversion H; subst. constructor; auto. Qed.
Lemma Forall_skipn' {A} (P : A -> Prop) n : forall l, Forall P l -> Forall P (skipn n l).
Proof. induction n; intros [|a l] H; cbn; auto. inversion H; subst. auto. Qed.

Lemma lgo_spec : forall cl buf acc,
  (forall c k, In (c, k) cl -> c < 8) -> length acc = 8%nat ->
  (forall c l, nth_error acc c = Some (Some l) -> Forall notpres l) -> Forall notpres buf ->
  exists ls, lgo cl buf acc = Ok ls /\ length ls = 8%nat /\
    (forall c l, nth_error ls c = Some (Some l) -> Forall notpres l) /\
    (forall c, (exists l, nth_error acc (nn c) = Some (Some l)) \/ (exists k, In (c, k) cl) ->
               exists l, nth_error ls (nn c) = Some (Some l)).
Proof.
  induction cl as [|(c0, k0) cl IH]; intros buf acc Hc Hl Hacc Hbuf; cbn [lgo].
  - exists acc. splits; auto. intros c [H|(k & [])]; auto.
  - assert (C8 : c0 < 8) by (eapply Hc; left; reflexivity).
    apply N.leb_gt in C8. rewrite C8. apply N.leb_gt in C8.
    destruct (IH (skipn (nn k0) buf) (upd acc (nn c0) (Some (firstn (nn k0) buf)))) as (ls & E & L & F & G).
    + intros c k Hin. eapply Hc. right. eauto.
    + rewrite upd_length. auto.
    + intros c l Hn. destruct (Nat.eq_dec c (nn c0)) as [->|Nc].
      * rewrite nth_error_upd_same in Hn by (unfold nn; lia). inversion Hn; subst. apply Forall_firstn'. auto.
      * rewrite nth_error_upd_other in Hn by auto. eapply Hacc; eauto.
    + apply Forall_skipn'. auto.
    + exists ls. splits; auto. intros c H. apply G.
      destruct (N.eq_dec c c0) as [->|Nc].
      * left. rewrite nth_error_upd_same by (unfold nn; lia). eauto.
      * destruct H as [(l & H)|(k & [H|H])].
        -- left. rewrite nth_error_upd_other by (unfold nn; lia). eauto.
        -- inversion H; congruence.
        -- right. eauto.
Qed.

Lemma nth_error_seq' : forall n s i, (i < n)%nat -> nth_error (seq s n) i = Some (s + i)%nat.
Proof.
  induction n; intros s i H; [lia|]. destruct i; cbn; [f_equal; lia|].
  rewrite IHn by lia. f_equal. lia.
Qed.

Lemma frames_recover_one g l h : frames (recover_one g l h) = frames l.
Proof.
  unfold recover_one. destruct (nth_error (ents l) h); auto. destruct (nth_error (bfs l) h); auto.
  destruct (e_huge n); [destruct (_ =? _)|destruct (_ =? _)]; reflexivity.
Qed.
Lemma frames_recover_fold g : forall L l, frames (fold_left (recover_one g) L l) = frames l.
Proof. induction L as [|h L IH]; intros l; cbn [fold_left]; auto. rewrite IH. apply frames_recover_one. Qed.
Lemma frames_lower_new g fr i buf : frames (lower_new g fr i buf) = fr.
Proof.
  destruct i; cbn [lower_new]; try reflexivity.
  unfold lower_recover. rewrite frames_recover_fold. reflexivity.
Qed.

Section New.
  Variable g : geom.
  Variable policy : N -> N -> N -> pol.
  Hypothesis WF : wf_geom g.
  Hypothesis LF : lower_facts g.
  Notation TF := (TF g).

  Definition tree_init (l : lower) (d : N) (i : nat) : tree :=
    {| t_free := tree_free g l (N.of_nat i); t_res := false; t_class := d |}.

  Lemma trees_new_spec l d : LowerInv g l ->
    trees_new g l d = Ok (map (tree_init l d) (seq 0 (nn (ntab g (frames l))))).
  Proof.
    intros HL. unfold trees_new.
    assert (G : forall L, (forall i, In i L -> N.of_nat i < ntab g (frames l)) ->
      fold_right (fun i acc =>
        match acc with
        | Ok ts =>
            match lower_stats_at g l (N.of_nat i * TF) (tord g) with
            | Ok s => if TF <? free_frames s then Panic STreeFree
                      else Ok ({| t_free := free_frames s; t_res := false; t_class := d |} :: ts)
            | Err e => Err e
            | Panic s => Panic s
            end
        | other => other
        end) (Ok []) L = Ok (map (tree_init l d) L)).
    { induction L as [|i L IH]; intros H; cbn [fold_right map]; auto.
      rewrite IH by (intros; apply H; right; auto).
      assert (Hi : N.of_nat i < ntab g (frames l)) by (apply H; left; auto).
      destruct (lf_stats_at_tree g LF l _ HL Hi) as (s & E1 & E2). rewrite E1, E2.
      destruct (lf_tree_free g LF l _ HL Hi) as (_ & Hle). apply N.ltb_ge in Hle. rewrite Hle. reflexivity. }
    apply G. intros i Hi. apply in_seq in Hi. unfold nn in Hi. lia.
  Qed.

  Theorem llfree_new_correct fr i classing d lbuf tbuf sbuf :
    i <> INone ->
    LowerInv g (lower_new g fr i lbuf) ->
    Forall notpres sbuf ->
    (forall c k, In (c, k) classing -> c < 8) ->
    (exists k, In (d, k) classing) ->
    exists u, llfree_new g fr i classing d lbuf tbuf sbuf = Ok u /\
              UpperInv g policy (ustate_new u) /\
              low u = lower_new g fr i lbuf /\ dflt u = d /\
              (forall t, tree_at u t <> None -> tree_at u t =
                 Some {| t_free := tree_free g (low u) t; t_res := false; t_class := d |}) /\
              present_slots u = [].
  Proof.
    intros Hi HL Hbuf Hcl Hd. set (l := lower_new g fr i lbuf) in *.
    destruct (lgo_spec classing sbuf (repeat None 8) Hcl eq_refl) as (ls & E & L8 & F & G); auto.
    { intros c l0 Hn. exfalso. assert (In (Some l0) (repeat None 8)) by (eapply nth_error_In; eauto).
      apply repeat_spec in H. discriminate. }
    unfold llfree_new. fold l. rewrite locals_new_lgo, E, (trees_new_spec l d HL).
    set (u := {| low := l; trees := map (tree_init l d) (seq 0 (nn (ntab g (frames l)))); locals := ls; dflt := d |}).
    assert (RES : (match i with INone => Ok {| low := l; trees := firstn (nn (ntab g fr)) tbuf; locals := ls; dflt := d |}
                            | _ => Ok u end) = Ok u) by (destruct i; congruence).
    exists u. split; [destruct i; try congruence; reflexivity|].
    assert (HP : present_slots u = []).
    { unfold present_slots. apply filter_nil. intros (c, s) Hin. cbn [snd].
      apply in_all_slots in Hin; [|exact L8]. destruct Hin as (j & Hj).
      destruct (slot_at_inv _ _ _ _ Hj) as (l0 & E0 & N0). unfold class_slots in E0. cbn [locals u] in E0.
      destruct (nth_error ls (nn c)) as [[l1|]|] eqn:En; try discriminate. inversion E0; subst l1.
      specialize (F _ _ En). rewrite Forall_forall in F. apply F. eapply nth_error_In; eauto. }
    assert (HD : class_slots u d <> None).
    { destruct (G d (or_intror Hd)) as (l0 & E0). unfold class_slots. cbn [locals u]. rewrite E0. discriminate. }
    assert (HT : forall k t, nth_error (trees u) k = Some t -> t = tree_init l d k /\ (k < nn (ntab g (frames l)))%nat).
    { intros k t Hk. cbn [trees u] in Hk. rewrite nth_error_map in Hk.
      destruct (nth_error (seq 0 (nn (ntab g (frames l)))) k) as [k'|] eqn:Ek; [|discriminate].
      assert (Hlt : (k < nn (ntab g (frames l)))%nat).
      { rewrite <- (seq_length (nn (ntab g (frames l))) 0). apply nth_error_Some. congruence. }
      rewrite nth_error_seq' in Ek by auto. inversion Ek; subst k'. inversion Hk. auto. }
    splits; auto.
    - unfold UpperInv, ustate_new. cbn [us off]. cbv zeta. splits; auto.
      + cbn [trees u]. rewrite map_length, seq_length. reflexivity.
      + apply repeat_length.
      + intros k t Hk. destruct (HT k t Hk) as (-> & Hlt).
        unfold tree_ok. cbv zeta. unfold slots_of. rewrite HP. cbn [filter length sum_free fold_right tree_init t_res t_free t_class].
        splits; auto; try (intros c s []).
        rewrite nth_repeat. cbn [low u]. lia.
      + intros c s Hin. rewrite HP in Hin. destruct Hin.
    - intros t Ht. unfold tree_at in *. destruct (nth_error (trees u) (nn t)) as [t0|] eqn:Et; [|congruence].
      destruct (HT _ _ Et) as (-> & _). unfold tree_init, nn. rewrite N2Nat.id. reflexivity.
  Qed.
End New.

(* ---------- non-vacuity ---------- *)
Example tree_stats_nonvacuous :
  UpperInv g0 pol0 ex3 /\ present_slots (us ex3) <> [] /\
  (exists ts, llfree_tree_stats g0 (us ex3) = Ok ts /\ ts_free ts = 4087 /\
              sumN (map (fun c => cs_free c + cs_alloc c) (ts_classes ts)) = 3 * 2048) /\
  free_frames (lower_stats g0 (low (us ex3))) =
    sum_seq (nn (ntab g0 (frames (low (us ex3))))) (fun i => tree_free g0 (low (us ex3)) (N.of_nat i)) /\
  Forall (fun o => o = 0) (off ex3) /\ llfree_validate g0 (us ex3) = Ok tt.
Proof.
  split; [exact ex3_inv|]. split; [vm_compute; discriminate|]. split.
  - eexists. split; [vm_compute; reflexivity|]. vm_compute. auto.
  - split; [vm_compute; reflexivity|]. split; [|vm_compute; reflexivity].
    vm_compute. repeat constructor.
Qed.

(* a state with an offline tree: the hidden amount enters the sum *)
Example tree_stats_offline_nonvacuous :
  UpperInv g0 pol0 ex4 /\ sumN (off ex4) = 1528 /\
  (exists ts, llfree_tree_stats g0 (us ex4) = Ok ts /\
              ts_free ts + sumN (off ex4) = free_frames (lower_stats g0 (low (us ex4)))).
Proof.
  split; [exact ex4_inv|]. split; [vm_compute; reflexivity|].
  eexists. split; [vm_compute; reflexivity|]. vm_compute. reflexivity.
Qed.

Example llfree_new_nonvacuous :
  LowerInv g0 (lower_new g0 4608 IFreeAll lower0) /\
  LowerInv g0 (lower_new g0 4608 IAllocAll lower0) /\
  Forall notpres (repeat slot_none 3) /\
  (forall c k, In (c, k) [(0, 2); (1, 1)] -> c < 8) /\ (exists k, In (0, k) [(0, 2); (1, 1)]) /\
  (exists u, llfree_new g0 4608 IFreeAll [(0, 2); (1, 1)] 0 lower0 [] (repeat slot_none 3) = Ok u /\
             upper_invb g0 pol0 (ustate_new u) = true).
Proof.
  split; [apply lower_invb_sound; vm_compute; reflexivity|].
  split; [apply lower_invb_sound; vm_compute; reflexivity|].
  split; [repeat constructor|]. split.
  - intros c k [H|[H|[]]]; inversion H; subst; reflexivity.
  - split; [exists 2; left; reflexivity|]. eexists. split; [vm_compute; reflexivity|]. vm_compute. reflexivity.
Qed.
