(* C10 / C11: completeness of `llfree_get` on the sequential upper-allocator model. *)
From LLF Require Import Base BitLemmas Row Bitfield Lower Spec AbsLemmas Sorted Upper UpperInvDef LowerFacts
  UpperGetLoops UpperGetProofs.
From Coq Require Import ZifyN ZifyBool.

(* ---------------------------------------------------------------------------------------------- *)
(* a tree with a positive number of free frames (ownership state) has an allocatable frame *)
Lemma clear_bit_or_all_set a f n :
  (exists i, f <= i < f + n /\ N.testbit a i = false) \/
  (forall i, f <= i < f + n -> N.testbit a i = true).
Proof.
  induction n as [|n IH] using N.peano_ind.
  - right. intros i Hi. lia.
  - destruct IH as [(i & Hi & Hb)|Hall].
    + left. exists i. split; [lia|exact Hb].
    + destruct (N.testbit a (f + n)) eqn:E.
      * right. intros i Hi. destruct (N.eq_dec i (f + n)) as [->|Hne]; [exact E|]. apply Hall. lia.
      * left. exists (f + n). split; [lia|exact E].
Qed.

Section FreeFrame.
  Variable g : geom.
  Notation TF := (TF g).

  Lemma free_frame_exists s t :
    1 <= spec_tree_free g s t -> exists f, f / TF = t /\ spec_get_enabled s f 0 = true.
  Proof.
    unfold spec_tree_free. set (lo := t * TF). set (hi := N.min (o_frames s) (lo + TF)).
    intros H.
    destruct (clear_bit_or_all_set (o_alloc s) lo (hi - lo)) as [(i & Hi & Hb)|Hall].
    - exists i. pose proof (TF_pos g) as Htf.
      assert (Hhi : lo < hi) by lia.
      split.
      + symmetry. apply N.div_unique with (r := i - lo); subst lo hi; lia.
      + apply spec_get_enabled_spec. rewrite pow2_0. split; [apply N.mod_1_r|].
        split; [subst hi; lia|]. intros j Hj. assert (j = i) by lia. subst. exact Hb.
    - apply land_blk_full in Hall. rewrite Hall, popcount_blk in H. lia.
  Qed.
End FreeFrame.
