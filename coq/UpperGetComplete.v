(* C10: completeness of `llfree_get` on the sequential upper-allocator model, right after a drain (no
   slot holds a reservation), under `pol_never_invalid`:
   (a) `get_base_complete`: a base-order (order 0) get returns Err EMemory only if every tree counter is
       zero (`get_base_complete_free`: hence, by U3, every free frame of the lower allocator is hidden by
       an offline operation);
   (b) `get_at_complete`: a targeted get returns Ok exactly when the block is free in the ownership state
       and the counter of its tree covers it.
   Ingredients: failing accesses leave counters / reserved flags / locals unchanged (`*_err_stable`);
   a base-order lower attempt paid by a credit cannot fail (`attempt_succeeds`, through `lf_tree_free`,
   `lf_get`'s completeness clause and `free_frame_exists`); the full alternating walk visits every tree
   and a rated candidate is tried (`search_best_complete` of UpperGetLoops.v). *)
From LLF Require Import Base BitLemmas Row Bitfield Lower Spec AbsLemmas Sorted Upper UpperInvDef LowerFacts
  UpperPrims UpperGetLoops UpperGetProofs.
From Coq Require Import ZifyN ZifyBool PeanoNat.

Local Strategy 900 [locals_steal_any locals_demote_any search_best].
Local Strategy 1000 [steal_any_loop demote_any_loop steal_slots demote_slots
  get_local sb_loop sb_try search_loop lower_get_opt lower_get lower_get_at lget_low
  trees_put trees_sync trees_steal trees_reserve_or_steal trees_unreserve
  locals_get locals_put locals_swap locals_set_start].
Local Strategy 500 [steal_global reserve_or_steal steal_local demote_local].
Local Strategy 400 [search_and_reserve].
Local Strategy 300 [get_at].

(* ---------------------------------------------------------------------------------------------- *)
(* failing accesses leave the locals, and the counter and reserved flag of every tree, as they were
   (the class of the accessed tree may change) *)
Section Stable.
  Variable g : geom.
  Variable policy : N -> N -> N -> pol.

  Definition tkey (t : tree) : N * bool := (t_free t, t_res t).
  Definition tstable (u u1 : upper) : Prop :=
    locals u1 = locals u /\ forall i, option_map tkey (tree_at u1 i) = option_map tkey (tree_at u i).

  Lemma tstable_refl u : tstable u u.
  Proof. split; auto. Qed.
  Lemma tstable_trans u1 u2 u3 : tstable u1 u2 -> tstable u2 u3 -> tstable u1 u3.
  Proof. intros (A & B) (C & D). split; [congruence|]. intros i. rewrite D. apply B. Qed.

  Lemma set_tree_tstable u i t t' :
    tree_at u i = Some t -> tkey t' = tkey t -> tstable u (set_tree u i t').
  Proof.
    intros Ht Hk. split; [reflexivity|]. intros j. destruct (N.eq_dec j i) as [->|Hne].
    - rewrite (tree_at_set_tree_same _ _ _ _ Ht), Ht. cbn [option_map]. congruence.
    - rewrite tree_at_set_tree_other by exact Hne. reflexivity.
  Qed.

  Lemma with_low_tstable u l : tstable u (with_low u l).
  Proof. split; reflexivity. Qed.

  Lemma tree_at_with_low u l i : tree_at (with_low u l) i = tree_at u i.
  Proof. reflexivity. Qed.

  Lemma tree_put_key d t n t' : tree_put g policy d t n = Ok t' -> tkey t' = (t_free t + n, t_res t).
  Proof. unfold tree_put. destruct (TF g <? t_free t + n); [discriminate|]. intros H; inv H. reflexivity. Qed.

  Lemma tree_put_no_err d t n e : tree_put g policy d t n <> Err e.
  Proof. unfold tree_put. destruct (TF g <? t_free t + n); discriminate. Qed.

  (* put after a steal of the same amount *)
  Lemma trees_put_back u0 u i t t' n r u' :
    tree_at u0 i = Some t -> tstable u0 (set_tree u0 i t) ->
    tree_at u i = Some t' -> tstable (set_tree u0 i t') u ->
    t_free t' + n = t_free t -> t_res t' = t_res t ->
    trees_put g policy u i n = (r, u') -> (exists s, r = Panic s) \/ (r = Ok tt /\ tstable u0 u').
  Proof.
    intros Ht _ Ht' Hst Hf Hr. unfold trees_put. rewrite Ht'.
    destruct (tree_put g policy (dflt u) t' n) as [t''|e|s] eqn:Ep.
    - intros H; inv H. right. split; auto. apply tree_put_key in Ep.
      destruct Hst as (A & B). split; [cbn [locals set_tree with_trees]; exact A|].
      intros j. destruct (N.eq_dec j i) as [->|Hne].
      + rewrite (tree_at_set_tree_same _ _ _ _ Ht'), Ht. cbn [option_map]. rewrite Ep. unfold tkey.
        f_equal. f_equal; [lia|exact Hr].
      + rewrite tree_at_set_tree_other by exact Hne. rewrite B. rewrite tree_at_set_tree_other by exact Hne.
        reflexivity.
    - exfalso. eapply tree_put_no_err; eauto.
    - intros H; inv H. eauto.
  Qed.

  Lemma lget_low_tstable u row k fr r u' : lget_low g u row k fr = (r, u') -> tstable u u'.
  Proof. unfold lget_low. destruct (lower_get_opt g (low u) row k fr). intros H; inv H. apply with_low_tstable. Qed.

  Lemma lget_low_tree_at u row k fr r u' i : lget_low g u row k fr = (r, u') -> tree_at u' i = tree_at u i.
  Proof. unfold lget_low. destruct (lower_get_opt g (low u) row k fr). intros H; inv H. reflexivity. Qed.

  Lemma steal_global_err_stable u i c k fr e u' :
    steal_global g policy u i c k fr = (Err e, u') -> tstable u u'.
  Proof.
    unfold steal_global, lift, trees_steal.
    destruct (tree_at u i) as [t|] eqn:Ht; [|discriminate].
    destruct (tree_steal policy t c (pow2 k)) as [t'|] eqn:Es.
    2:{ intros H; inv H. apply tstable_refl. }
    assert (Hk : t_free t' + pow2 k = t_free t /\ t_res t' = t_res t).
    { unfold tree_steal in Es. destruct ((pow2 k <=? t_free t) && negb (t_res t)) eqn:Ec; [|discriminate].
      apply andb_true_iff in Ec. destruct Ec as (Ec & _). apply N.leb_le in Ec.
      destruct (policy c (t_class t) (pow2 k)); inv Es; cbn [t_free t_res]; split; auto; lia. }
    destruct Hk as (Hf & Hr).
    destruct (lget_low g (set_tree u i t') (tree_row g i) k fr) as [[f|e2|s] u2] eqn:Eg; try discriminate.
    destruct (trees_put g policy u2 i (pow2 k)) as [rp u3] eqn:Ep.
    assert (Ht2 : tree_at u2 i = Some t').
    { rewrite (lget_low_tree_at _ _ _ _ _ _ i Eg). eapply tree_at_set_tree_same; eauto. }
    assert (A1 : tstable u (set_tree u i t)) by (apply set_tree_tstable with (t := t); auto).
    assert (A2 : tstable (set_tree u i t') u2) by (eapply lget_low_tstable; eauto).
    destruct (trees_put_back u u2 i t t' (pow2 k) rp u3 Ht A1 Ht2 A2 Hf Hr Ep) as [(s & ->)|(-> & Hs)].
    - discriminate.
    - intros H; inv H. exact Hs.
  Qed.

  Lemma locals_swap_no_err u c j t n e u' : locals_swap g u c j t n <> (Err e, u').
  Proof.
    unfold locals_swap. destruct (class_slots u c); [|discriminate].
    destruct (nth_error l (nn j)); discriminate.
  Qed.

  Lemma trees_unreserve_no_err u i n c e u' : trees_unreserve g policy u i n c <> (Err e, u').
  Proof.
    unfold trees_unreserve. destruct (tree_at u i) as [t|]; [|discriminate].
    unfold tree_unreserve_add. destruct (t_res t); [|discriminate].
    destruct (policy c (t_class t) n); try discriminate.
    - destruct (tree_put g policy (dflt u) _ n) eqn:E; try discriminate.
      exfalso. eapply tree_put_no_err; eauto.
    - destruct (tree_put g policy (dflt u) _ n) eqn:E; try discriminate.
      exfalso. eapply tree_put_no_err; eauto.
  Qed.

  Lemma reserve_or_steal_err_stable u i k c l e u' :
    reserve_or_steal g policy u i k c l = (Err e, u') -> tstable u u'.
  Proof.
    unfold reserve_or_steal. unfold lift at 1. unfold trees_reserve_or_steal.
    destruct (tree_at u i) as [t|] eqn:Ht; [|discriminate].
    destruct (tree_reserve_or_steal policy t (pow2 k) c) as [t'|] eqn:Es.
    2:{ intros H; inv H. apply tstable_refl. }
    unfold tree_reserve_or_steal in Es.
    destruct ((pow2 k <=? t_free t) && negb (t_res t)) eqn:Ec; [|discriminate].
    apply andb_true_iff in Ec. destruct Ec as (Ec & Er). apply N.leb_le in Ec. apply negb_true_iff in Er.
    assert (Hres : forall t', t' = {| t_free := 0; t_res := true; t_class := c |} ->
      match lget_low g (set_tree u i t') (tree_row g i) k None with
      | (Ok f, u2) =>
          if t_res t'
          then match class_locals u2 (t_class t') with
               | Some len =>
                   if 0 <? len
                   then lift (locals_swap g u2 (t_class t') (l mod len) (f / TF g) (t_free t - pow2 k))
                          (fun old u3 => match old with
                                         | Some rv => lift (trees_unreserve g policy u3 (row_tree g (rv_row rv)) (rv_free rv) (t_class t'))
                                                        (fun _ u4 => (Ok (f, t_class t'), u4))
                                         | None => (Ok (f, t_class t'), u3) end)
                   else (Ok (f, t_class t'), u2)
               | None => (Ok (f, t_class t'), u2)
               end
          else (Ok (f, t_class t'), u2)
      | (Err e0, u2) =>
          if t_res t'
          then lift (trees_unreserve g policy u2 i (t_free t) (t_class t')) (fun _ u3 => (Err e0, u3))
          else lift (trees_put g policy u2 i (pow2 k)) (fun _ u3 => (Err e0, u3))
      | (Panic s, u2) => (Panic s, u2)
      end = (Err e, u') -> tstable u u').
    { intros t0 ->. cbn [t_res t_class].
      destruct (lget_low g (set_tree u i _) (tree_row g i) k None) as [[f|e2|s] u2] eqn:Eg; try discriminate.
      - destruct (class_locals u2 c) as [len|]; [|discriminate].
        destruct (0 <? len); [|discriminate]. unfold lift at 1.
        destruct (locals_swap g u2 c (l mod len) (f / TF g) (t_free t - pow2 k)) as [[old|e3|s3] u3] eqn:Esw.
        + destruct old as [rv|]; [|discriminate]. unfold lift.
          destruct (trees_unreserve g policy u3 (row_tree g (rv_row rv)) (rv_free rv) c) as [[[]|e4|s4] u4] eqn:Eu;
            try discriminate.
          exfalso. eapply trees_unreserve_no_err; eauto.
        + exfalso. eapply locals_swap_no_err; eauto.
        + discriminate.
      - unfold lift.
        destruct (trees_unreserve g policy u2 i (t_free t) c) as [ru u3] eqn:Eu.
        assert (Ht2 : tree_at u2 i = Some {| t_free := 0; t_res := true; t_class := c |}).
        { rewrite (lget_low_tree_at _ _ _ _ _ _ i Eg). eapply tree_at_set_tree_same; eauto. }
        pose proof (lget_low_tstable _ _ _ _ _ _ Eg) as (Hloc2 & Hst2).
        unfold trees_unreserve in Eu. rewrite Ht2 in Eu. unfold tree_unreserve_add in Eu. cbn [t_res t_class t_free] in Eu.
        assert (Hput : forall cls rr uu,
          match tree_put g policy (dflt u2) {| t_free := 0; t_res := false; t_class := cls |} (t_free t) with
          | Ok t'0 => (Ok tt, set_tree u2 i t'0) | Err e0 => (Err e0, u2) | Panic s => (Panic s, u2) end = (rr, uu) ->
          (exists s, rr = Panic s) \/ (rr = Ok tt /\ tstable u uu)).
        { intros cls rr uu Hp.
          destruct (tree_put g policy (dflt u2) {| t_free := 0; t_res := false; t_class := cls |} (t_free t))
            as [t2|e5|s5] eqn:Ep.
          - inv Hp. right. split; auto. apply tree_put_key in Ep. cbn [t_free t_res] in Ep.
            split; [cbn [locals set_tree with_trees]; exact Hloc2|].
            intros j. destruct (N.eq_dec j i) as [->|Hne].
            + rewrite (tree_at_set_tree_same _ _ _ _ Ht2), Ht. cbn [option_map]. rewrite Ep. unfold tkey.
              rewrite Er. f_equal.
            + rewrite tree_at_set_tree_other by exact Hne. rewrite Hst2.
              rewrite tree_at_set_tree_other by exact Hne. reflexivity.
          - exfalso. eapply tree_put_no_err; eauto.
          - inv Hp. eauto. }
        assert (Hfin : (exists s, ru = Panic s) \/ (ru = Ok tt /\ tstable u u3)).
        { destruct (policy c c (t_free t)); try (inv Eu; eauto; fail); eapply Hput; eauto. }
        destruct Hfin as [(s & ->)|(-> & Hs)]; intros Hr; inv Hr. exact Hs. }
    destruct (policy c (t_class t) (pow2 k)) eqn:Ep; inv Es; cbn [t_res t_class t_free].
    - apply (Hres _ eq_refl).
    - apply (Hres _ eq_refl).
    - rewrite Er.
      destruct (lget_low g (set_tree u i _) (tree_row g i) k None) as [[f|e2|s] u2] eqn:Eg; try discriminate.
      unfold lift.
      destruct (trees_put g policy u2 i (pow2 k)) as [rp u3] eqn:Epp.
      set (t' := {| t_free := t_free t - pow2 k; t_res := false; t_class := t_class t |}) in *.
      assert (Ht2 : tree_at u2 i = Some t').
      { rewrite (lget_low_tree_at _ _ _ _ _ _ i Eg). eapply tree_at_set_tree_same; eauto. }
      assert (A1 : tstable u (set_tree u i t)) by (apply set_tree_tstable with (t := t); auto).
      assert (A2 : tstable (set_tree u i t') u2) by (eapply lget_low_tstable; eauto).
      assert (A3 : t_free t' + pow2 k = t_free t) by (subst t'; cbn [t_free]; lia).
      assert (A4 : t_res t' = t_res t) by (subst t'; cbn [t_res]; auto).
      destruct (trees_put_back u u2 i t t' (pow2 k) rp u3 Ht A1 Ht2 A2 A3 A4 Epp) as [(s & ->)|(-> & Hs)].
      + discriminate.
      + intros H; inv H. exact Hs.
  Qed.
End Stable.

(* ---------------------------------------------------------------------------------------------- *)
(* a tree with a positive number of free frames (ownership state) has an allocatable frame *)
Lemma clear_bit_or_all_set a f n :
  (exists i, f <= i < f + n /\ N.testbit a i = false) \/
  (forall i, f <= i < f + n -> N.testbit a i = true).
Proof.
  induction n as [|n IH] using N.peano_ind.
  - right. intros i Hi. lia.
  - destruct IH as [(i & Hi & Hb)|Hall].
    + left. exists i. split; [lia|exact Hb].
    + destruct (N.testbit a (f + n)) eqn:E.
      * right. intros i Hi. destruct (N.eq_dec i (f + n)) as [->|Hne]; [exact E|]. apply Hall. lia.
      * left. exists (f + n). split; [lia|exact E].
Qed.

Lemma free_frame_exists g s t :
  1 <= spec_tree_free g s t -> exists f, f / TF g = t /\ spec_get_enabled s f 0 = true.
Proof.
  unfold spec_tree_free. set (lo := t * TF g). set (hi := N.min (o_frames s) (lo + TF g)).
  intros H.
  destruct (clear_bit_or_all_set (o_alloc s) lo (hi - lo)) as [(i & Hi & Hb)|Hall].
  - exists i. pose proof (AbsLemmas.TF_pos g) as Htf.
    assert (Hhi : lo < hi) by lia.
    split.
    + symmetry. apply N.div_unique with (r := i - lo); subst lo hi; lia.
    + apply spec_get_enabled_spec. rewrite pow2_0. split; [apply N.mod_1_r|].
      split; [subst hi; lia|]. intros j Hj. assert (j = i) by lia. subst. exact Hb.
  - apply land_blk_full in Hall. rewrite Hall, popcount_blk in H. lia.
Qed.

Section Complete10.
  Variable g : geom.
  Variable policy : N -> N -> N -> pol.
  Hypothesis WF : wf_geom g.
  Hypothesis LF : lower_facts g.
  Hypothesis PR : pol_refl_match policy.
  Hypothesis PT : pol_demote_trans policy.
  Hypothesis PN : pol_never_invalid policy.
  Notation TF := (TF g).
  Notation UIC := (UpperInvC g policy).
  Notation Inv := (UpperInv g policy).

  (* a base-order lower attempt that was paid for with a credit cannot fail: the credit is a free frame *)
  Lemma attempt_succeeds ih x1 T row r u2 :
    UIC (crd T 1) ih x1 -> T < ntrees (us x1) -> row_tree g row = T ->
    lget_low g (us x1) row 0 None = (r, u2) -> exists f, r = Ok f.
  Proof.
    intros H HT Hrow Hg.
    destruct (tree_at_some _ _ HT) as (tr & Htr).
    pose proof (UIC_tree g policy WF LF _ _ _ _ _ H Htr) as Hok.
    apply (tree_okC_nn g policy WF LF) in Hok. destruct Hok as (_ & B & _).
    unfold crd, delta in B. rewrite N.eqb_refl in B.
    pose proof (UIC_lower g policy WF LF _ _ _ H) as HL.
    pose proof (UIC_ntrees g policy WF LF _ _ _ H) as Hnt.
    assert (HTn : T < ntab g (frames (low (us x1)))) by (rewrite <- Hnt; exact HT).
    destruct (lf_tree_free g LF _ _ HL HTn) as (Etf & _).
    assert (Hpre : row_tree g row < ntab g (frames (low (us x1)))) by (rewrite Hrow; exact HTn).
    pose proof (lget_low_spec g LF _ _ 0%nat None _ _ HL (Nat.le_0_l _) Hpre Hg) as (_ & Hs).
    destruct r as [f|e|s]; [eauto| |destruct Hs].
    exfalso. destruct Hs as (_ & _ & Hno).
    destruct (free_frame_exists g (abs g (low (us x1))) T) as (f & Hf & He); [rewrite <- Etf; lia|].
    rewrite Hno in He; [discriminate|]. rewrite Hrow. exact Hf.
  Qed.

  Lemma tree_steal_some t class free :
    free <= t_free t -> t_res t = false -> exists t', tree_steal policy t class free = Some t'.
  Proof.
    intros Hf Hr. unfold tree_steal. apply N.leb_le in Hf. rewrite Hf, Hr. cbn [negb andb].
    pose proof (PN class (t_class t) free) as Hp. destruct (policy class (t_class t) free); eauto. discriminate.
  Qed.

  Lemma tree_reserve_or_steal_some t class free :
    free <= t_free t -> t_res t = false -> exists t', tree_reserve_or_steal policy t free class = Some t'.
  Proof.
    intros Hf Hr. unfold tree_reserve_or_steal. apply N.leb_le in Hf. rewrite Hf, Hr. cbn [negb andb].
    pose proof (PN class (t_class t) free) as Hp. destruct (policy class (t_class t) free); eauto. discriminate.
  Qed.

  (* a direct steal of a base frame from an unreserved tree with a non-zero counter succeeds *)
  Lemma steal_global_succeeds x i class t r u' :
    Inv x -> class_slots (us x) class <> None ->
    tree_at (us x) i = Some t -> t_res t = false -> 1 <= t_free t ->
    steal_global g policy (us x) i class 0 None = (r, u') -> exists f c, r = Ok (f, c).
  Proof.
    intros HI Hc Ht Hr Hf. pose proof (tree_at_lt _ _ _ Ht) as Hi.
    unfold steal_global. unfold lift at 1.
    destruct (trees_steal policy (us x) i class (pow2 0)) as [ro u1] eqn:Es.
    pose proof HI as HC. apply Inv_UIC in HC.
    destruct (trees_steal_C g policy WF LF _ _ _ _ _ _ _ _ HC Hi Hc Es) as [(-> & ->)|Hs].
    { exfalso. unfold trees_steal in Es. rewrite Ht in Es.
      destruct (tree_steal_some t class (pow2 0)) as (t' & Et'); auto. rewrite Et' in Es. discriminate. }
    destruct Hs as (t0 & t' & _ & _ & _ & _ & _ & _ & _ & -> & Hu1 & Hcr).
    specialize (Hcr (crd i (pow2 0)) (fun j => eq_refl)).
    destruct (lget_low g u1 (tree_row g i) 0 None) as [r2 u2] eqn:Eg.
    assert (Hi1 : i < ntrees (us (mk x u1))) by (cbn [us mk]; subst u1; rewrite ntrees_set_tree; exact Hi).
    destruct (attempt_succeeds [] (mk x u1) i (tree_row g i) r2 u2 Hcr Hi1 (row_tree_tree_row g WF i) Eg) as (f & ->).
    intros H; inv H. eauto.
  Qed.

  (* ... and so does reserve_or_steal *)
  Lemma reserve_or_steal_succeeds x i class local len t r u' :
    Inv x -> class_locals (us x) class = Some len -> 0 < len ->
    tree_at (us x) i = Some t -> t_res t = false -> 1 <= t_free t ->
    reserve_or_steal g policy (us x) i 0 class local = (r, u') -> exists f c, r = Ok (f, c).
  Proof.
    intros HI Hcl Hlen Ht Hr Hf Hros. pose proof (tree_at_lt _ _ _ Ht) as Hi.
    pose proof (reserve_or_steal_G g policy WF LF PR x i 0%nat class local len r u' HI Hi Hcl Hlen (Nat.le_0_l _) Hros)
      as Hpost.
    destruct r as [[f c]|e|s]; [eauto| |destruct Hpost]. exfalso.
    assert (Hc : class_slots (us x) class <> None).
    { intros E. unfold class_locals in Hcl. rewrite E in Hcl. discriminate. }
    revert Hros. unfold reserve_or_steal. unfold lift at 1.
    destruct (trees_reserve_or_steal policy (us x) i class (pow2 0)) as [ro u1] eqn:Es.
    pose proof HI as HC. apply Inv_UIC in HC.
    destruct (trees_reserve_or_steal_C g policy WF LF _ _ _ _ _ _ _ _ PR HC Hi Hc Es) as [(-> & ->)|Hs].
    { exfalso. unfold trees_reserve_or_steal in Es. rewrite Ht in Es.
      destruct (tree_reserve_or_steal_some t class (pow2 0)) as (t' & Et'); auto. rewrite Et' in Es. discriminate. }
    destruct Hs as (t0 & Ht0 & Hres & Hle & [(Hkeep & -> & Hu1 & Hih)|(Hst & -> & Hu1 & Hcr)]).
    - assert (Hih2 : UIC (crd i (pow2 0)) [(i, class, t_free t0 - pow2 0)] (mk x u1)).
      { eapply UIC_ih_credit; [exact Hih|]. intros j. unfold crd, cr0, delta. destruct (j =? i); lia. }
      assert (Hi1 : i < ntrees (us (mk x u1))) by (cbn [us mk]; subst u1; rewrite ntrees_set_tree; exact Hi).
      destruct (lget_low g u1 (tree_row g i) 0 None) as [r2 u2] eqn:Eg.
      destruct (attempt_succeeds _ (mk x u1) i (tree_row g i) r2 u2 Hih2 Hi1 (row_tree_tree_row g WF i) Eg) as (f & ->).
      cbv beta iota.
      destruct (class_locals u2 class) as [len2|]; [|discriminate].
      destruct (0 <? len2); [|discriminate]. unfold lift at 1.
      destruct (locals_swap g u2 class (local mod len2) (f / TF) (t_free t0 - pow2 0)) as [[old|e3|s3] u3] eqn:Esw.
      + destruct old as [rv|]; [|discriminate]. unfold lift.
        destruct (trees_unreserve g policy u3 (row_tree g (rv_row rv)) (rv_free rv) class) as [[[]|e4|s4] u4] eqn:Eu;
          try discriminate.
        exfalso. eapply trees_unreserve_no_err; eauto.
      + exfalso. eapply locals_swap_no_err; eauto.
      + discriminate.
    - specialize (Hcr (crd i (pow2 0)) (fun j => eq_refl)).
      assert (Hi1 : i < ntrees (us (mk x u1))) by (cbn [us mk]; subst u1; rewrite ntrees_set_tree; exact Hi).
      destruct (lget_low g u1 (tree_row g i) 0 None) as [r2 u2] eqn:Eg.
      destruct (attempt_succeeds [] (mk x u1) i (tree_row g i) r2 u2 Hcr Hi1 (row_tree_tree_row g WF i) Eg) as (f & ->).
      cbv beta iota. discriminate.
  Qed.

  (* ----- the searches, from states reached by failing attempts ----- *)
  Definition Ist (x : ustate) (u1 : upper) : Prop :=
    GP g policy x 0 None (Err EMemory) u1 /\ tstable (us x) u1.
  Definition Good (x : ustate) (i : N) : Prop :=
    exists t, tree_at (us x) i = Some t /\ t_res t = false /\ 1 <= t_free t.

  Lemma Ist_refl x : Inv x -> Ist x (us x).
  Proof. intros H. split; [apply GP_refl; exact H|apply tstable_refl]. Qed.

  Lemma Ist_ntrees x u1 : Ist x u1 -> ntrees u1 = ntrees (us x).
  Proof. intros (H & _). destruct (GP_err_inv g policy _ _ _ _ H) as (_ & _ & Fr). apply frame_ntrees. exact Fr. Qed.

  Lemma Ist_tree x u1 i t1 : Ist x u1 -> tree_at u1 i = Some t1 ->
    exists t, tree_at (us x) i = Some t /\ t_res t = t_res t1 /\ t_free t = t_free t1.
  Proof.
    intros (_ & _ & Hst) H1. specialize (Hst i). rewrite H1 in Hst. cbn [option_map] in Hst.
    destruct (tree_at (us x) i) as [t|]; [|discriminate]. inv Hst. unfold tkey in H0. inv H0. eauto.
  Qed.
  Lemma Ist_tree' x u1 i t : Ist x u1 -> tree_at (us x) i = Some t ->
    exists t1, tree_at u1 i = Some t1 /\ t_res t1 = t_res t /\ t_free t1 = t_free t.
  Proof.
    intros (_ & _ & Hst) H1. specialize (Hst i). rewrite H1 in Hst. cbn [option_map] in Hst.
    destruct (tree_at u1 i) as [t1|]; [|discriminate]. inv Hst. unfold tkey in H0. inv H0. eauto.
  Qed.

  Section OneSearch.
    Variable x : ustate.
    Variable acc : upper -> N -> res (N * N) * upper.
    Variable rate : N -> N -> pol.
    Hypothesis A1 : forall u1 i r u2, GP g policy x 0 None (Err EMemory) u1 -> i < ntrees (us x) ->
                                      acc u1 i = (r, u2) -> GP g policy (mk x u1) 0 None r u2.
    Hypothesis A2 : forall u1 i e u2, acc u1 i = (Err e, u2) -> tstable u1 u2.
    Hypothesis A3 : forall u1 i t r u2, Ist x u1 -> tree_at u1 i = Some t -> t_res t = false -> 1 <= t_free t ->
                                        acc u1 i = (r, u2) -> exists f c, r = Ok (f, c).
    Hypothesis R : forall c f, rate c f <> PInvalid <-> 1 <= f.

    Lemma Ist_step u1 i u2 : Ist x u1 -> i < ntrees (us x) -> acc u1 i = (Err EMemory, u2) -> Ist x u2.
    Proof.
      intros (H1 & H2) Hi Ha. split.
      - eapply GP_chain; [exact H1|]. eapply A1; eauto.
      - eapply tstable_trans; [exact H2|]. eapply A2; eauto.
    Qed.

    Lemma search_Ist cap u1 start offset len u2 :
      Ist x u1 -> (ntrees (us x) = 0 -> len <= offset) ->
      search_best g acc rate cap u1 start offset len = (Err EMemory, u2) -> Ist x u2.
    Proof.
      intros HI Hz Hs.
      pose proof (search_best_inv g acc (ntrees (us x)) (Ist x) (fun _ _ => True)) as L.
      specialize (L (Ist_ntrees x)).
      assert (Hacc : forall u i r u', Ist x u -> i < ntrees (us x) -> acc u i = (r, u') ->
                                      outcome (Ist x) (fun _ _ => True) r u').
      { intros u i r u' HIu Hi Ha. unfold outcome. destruct r as [a|[]|s]; auto. eapply Ist_step; eauto. }
      exact (L Hacc rate cap u1 start offset len _ _ HI Hz Hs).
    Qed.

    Lemma full_search_complete cap u1 start u2 :
      (0 < cap)%nat -> Ist x u1 -> start + 2 * ntrees (us x) < W64 ->
      search_best g acc rate cap u1 start 0 (ntrees u1) = (Err EMemory, u2) ->
      forall t, t < ntrees (us x) -> ~ Good x t.
    Proof.
      intros Hcap HI Hb Hs.
      eapply (search_best_complete g acc rate (ntrees (us x)) (Ist x) (Good x)); eauto.
      - apply Ist_ntrees.
      - intros u i u' HIu Hi Ha. eapply Ist_step; eauto.
      - intros u i t HIu Ht Hr Hrt. destruct (Ist_tree _ _ _ _ HIu Ht) as (t0 & Ht0 & E1 & E2).
        exists t0. splits; auto; [congruence|]. rewrite E2. apply R in Hrt. exact Hrt.
      - intros u i t HIu (t0 & Ht0 & Hr0 & Hf0) Ht. destruct (Ist_tree _ _ _ _ HIu Ht) as (t0' & Ht0' & E1 & E2).
        rewrite Ht0 in Ht0'. inv Ht0'. split; [congruence|]. apply R. lia.
      - intros u i u' HIu (t0 & Ht0 & Hr0 & Hf0) Ha.
        destruct (Ist_tree' _ _ _ _ HIu Ht0) as (t1 & Ht1 & E1 & E2).
        destruct (A3 u i t1 (Err EMemory) u' HIu Ht1) as (f & c & Hx); [congruence|lia|exact Ha|]. discriminate.
    Qed.
  End OneSearch.

  (* ----- the two instances ----- *)
  Lemma rate_req_R class c f : rate_req policy class (pow2 0) c f <> PInvalid <-> 1 <= f.
  Proof.
    unfold rate_req. change (pow2 0) with 1. destruct (N.ltb_spec f 1).
    - split; [congruence|lia].
    - split; [auto|]. intros _ E. pose proof (PN class c f) as Hp. rewrite E in Hp. discriminate.
  Qed.

  Lemma rate2_R class c f :
    match rate_req policy class (pow2 0) c f with
    | PMatch _ => PMatch 255
    | PDemote => if f =? TF then PMatch 255 else PDemote
    | p => p
    end <> PInvalid <-> 1 <= f.
  Proof.
    rewrite <- (rate_req_R class c f).
    destruct (rate_req policy class (pow2 0) c f); try destruct (f =? TF); split; congruence.
  Qed.

  Lemma Ist_inv x u1 : Ist x u1 -> Inv (mk x u1) /\ low u1 = low (us x) /\ frame_rel (us x) u1.
  Proof. intros (H & _). apply (GP_err_inv g policy _ _ _ _ H). Qed.

  Lemma no_slots_unreserved x i t :
    Inv x -> present_slots (us x) = [] -> tree_at (us x) i = Some t -> t_res t = false.
  Proof.
    intros HI Hp Ht. apply Inv_UIC in HI.
    pose proof (UIC_tree g policy WF LF _ _ _ _ _ HI Ht) as Hok.
    apply (tree_okC_nn g policy WF LF) in Hok. destruct Hok as (A & _).
    unfold slots_of in A. rewrite Hp in A. cbn in A. destruct (t_res t); [discriminate|reflexivity].
  Qed.

  Lemma get_local_no_slot x k class local frame fuel :
    Inv x -> idx_ok (us x) class local -> present_slots (us x) = [] ->
    get_local g policy (S fuel) (us x) k class local frame true = (GErr EMemory None, us x).
  Proof.
    intros HI Hidx Hp. cbn [get_local].
    destruct (locals_get g (us x) class local (option_map (fun f => f / TF) frame) (pow2 k)) as [lr u1] eqn:El.
    pose proof HI as HC. apply Inv_UIC in HC.
    pose proof (locals_get_C g policy WF LF _ _ _ _ _ _ _ _ _ HC Hidx El) as Hl.
    pose proof (UIC_len8 g policy WF LF _ _ _ HC) as L8.
    destruct lr as [row|rv| |s].
    - exfalso. destruct Hl as (s & Hat & Hps & _).
      pose proof (slot_at_present _ _ _ _ L8 Hat Hps) as Hin. rewrite Hp in Hin. destruct Hin.
    - exfalso. destruct Hl as (_ & s & Hat & Hps & _).
      pose proof (slot_at_present _ _ _ _ L8 Hat Hps) as Hin. rewrite Hp in Hin. destruct Hin.
    - destruct Hl as (-> & _). reflexivity.
    - destruct Hl.
  Qed.

  Lemma req_ok_class u rq fr : req_ok g u rq fr -> class_slots u (r_class rq) <> None.
  Proof. intros (A & _). exact A. Qed.

  Section Instances.
    Variable x : ustate.
    Variable class : N.
    Variable local : option N.
    Let rq := {| r_order := 0; r_class := class; r_local := local |}.
    Hypothesis HI : Inv x.
    Hypothesis Hok : req_ok g (us x) rq None.

    Lemma sg_A1 u1 i r u2 : GP g policy x 0 None (Err EMemory) u1 -> i < ntrees (us x) ->
      steal_global g policy u1 i class 0 None = (r, u2) -> GP g policy (mk x u1) 0 None r u2.
    Proof. intros H1 Hi Ha. exact (steal_global_GP g policy WF LF x rq u1 i r u2 Hok H1 Hi Ha). Qed.

    Lemma sg_A3 u1 i t r u2 : Ist x u1 -> tree_at u1 i = Some t -> t_res t = false -> 1 <= t_free t ->
      steal_global g policy u1 i class 0 None = (r, u2) -> exists f c, r = Ok (f, c).
    Proof.
      intros HIu Ht Hr Hf Ha. destruct (Ist_inv _ _ HIu) as (A & B & C).
      eapply (steal_global_succeeds (mk x u1)); cbn [us mk]; eauto.
      apply (frame_class_slots (us x) u1 class C). exact (req_ok_class _ _ _ Hok).
    Qed.

    Lemma steal_search_complete u1 start u2 :
      Ist x u1 -> start + 2 * ntrees (us x) < W64 ->
      search_best g (fun u i => steal_global g policy u i class 0 None) (rate_req policy class (pow2 0)) 8
                  u1 start 0 (ntrees u1) = (Err EMemory, u2) ->
      forall t, t < ntrees (us x) -> ~ Good x t.
    Proof.
      apply (full_search_complete x (fun u i => steal_global g policy u i class 0 None)); try lia.
      - exact sg_A1.
      - intros u i e u' Ha. eapply steal_global_err_stable; eauto.
      - exact sg_A3.
      - apply rate_req_R.
    Qed.

    Variable lc len : N.
    Hypothesis Hcl : class_locals (us x) class = Some len.
    Hypothesis Hlen : 0 < len.

    Lemma rs_A1 u1 i r u2 : GP g policy x 0 None (Err EMemory) u1 -> i < ntrees (us x) ->
      reserve_or_steal g policy u1 i 0 class lc = (r, u2) -> GP g policy (mk x u1) 0 None r u2.
    Proof. intros H1 Hi Ha. exact (reserve_or_steal_GP g policy WF LF PR x rq lc len u1 i r u2 Hok Hcl Hlen H1 Hi Ha). Qed.

    Lemma rs_A3 u1 i t r u2 : Ist x u1 -> tree_at u1 i = Some t -> t_res t = false -> 1 <= t_free t ->
      reserve_or_steal g policy u1 i 0 class lc = (r, u2) -> exists f c, r = Ok (f, c).
    Proof.
      intros HIu Ht Hr Hf Ha. destruct (Ist_inv _ _ HIu) as (A & B & C).
      eapply (reserve_or_steal_succeeds (mk x u1)); cbn [us mk]; eauto.
      rewrite (frame_class_locals _ _ _ C). exact Hcl.
    Qed.

    Lemma reserve_search_complete start u2 :
      ntrees (us x) <> 0 -> start + 2 * ntrees (us x) < W64 ->
      search_and_reserve g policy (us x) 0 class lc start = (Err EMemory, u2) ->
      forall t, t < ntrees (us x) -> ~ Good x t.
    Proof.
      intros Hn Hb. unfold search_and_reserve.
      set (acc := fun u i => reserve_or_steal g policy u i 0 class lc).
      set (st := align_down start (next_pow2 (2 * N.max (ntrees (us x) / 16) 4))).
      assert (Hst : st <= start).
      { subst st. unfold align_down. rewrite N.mul_comm. apply N.mul_div_le. unfold next_pow2.
        destruct (_ <=? 1); [discriminate|]. apply N.pow_nonzero. discriminate. }
      match goal with |- match ?first with _ => _ end = _ -> _ => destruct first as [r1 u1] eqn:E1 end.
      assert (H1 : r1 = Err EMemory -> Ist x u1).
      { intros ->. destruct (Nat.ltb 0 (hord g)).
        - eapply (search_Ist x acc); [exact rs_A1| |apply Ist_refl; exact HI| |exact E1].
          + intros u i e u' Ha. eapply reserve_or_steal_err_stable; eauto.
          + intros; contradiction.
        - inv E1. apply Ist_refl. exact HI. }
      destruct r1 as [a|e|s]; try discriminate. destruct e; try discriminate.
      specialize (H1 eq_refl). intros H2.
      eapply (full_search_complete x acc); [exact rs_A1| |exact rs_A3| | |exact H1| |exact H2].
      - intros u i e u' Ha. eapply reserve_or_steal_err_stable; eauto.
      - intros c f. apply rate2_R.
      - lia.
      - lia.
    Qed.
  End Instances.

  (* ----- C10 (a): a base-order get right after a drain fails only if every tree counter is zero ----- *)
  Ltac err_inv H E :=
    match type of H with
    | (let (_, _) := ?s in _) = _ => destruct s as [[?|[]|?] ?u1] eqn:E; try discriminate
    end.

  Theorem get_base_complete x rq x' :
    Inv x -> valid_local (us x) rq -> present_slots (us x) = [] -> r_order rq = 0%nat ->
    3 * ntrees (us x) < W64 ->
    ghost_lift (fun u => llfree_get g policy u None rq) x = (Err EMemory, x') ->
    forall i t, tree_at (us x) i = Some t -> t_free t = 0.
  Proof.
    intros HI Hv Hp Hord Hsz Hg i t Ht.
    destruct rq as [k class local]. cbn [r_order] in Hord. subst k.
    set (rq := {| r_order := 0; r_class := class; r_local := local |}) in *.
    destruct (N.eq_dec (t_free t) 0) as [|Hne]; [assumption|exfalso].
    assert (HG : Good x i).
    { exists t. splits; auto; [eapply no_slots_unreserved; eauto|lia]. }
    pose proof (tree_at_lt _ _ _ Ht) as Hi.
    destruct (ghost_lift_get g policy _ _ _ _ _ Hg) as (u' & Hget & _). clear Hg.
    unfold llfree_get in Hget.
    destruct (check_cases g (us x) 0 rq) as [Ec|Ec]; rewrite Ec in Hget; [|discriminate].
    destruct (check_ok g _ _ _ Ec) as (Hk & Hfr & Hal & Hcls).
    assert (Hok : req_ok g (us x) rq None).
    { unfold req_ok. splits; auto. intros f1 Hf1. discriminate. }
    cbv zeta in Hget. cbn [r_class r_order r_local rq] in Hget.
    set (len := match class_locals (us x) class with Some n => n | None => 0 end) in *.
    set (start0 := (if len =? 0 then 0 else ntrees (us x) / len) * match local with Some i => i | None => 0 end) in *.
    assert (Hstart : start0 <= ntrees (us x)).
    { subst start0. destruct local as [lc|]; [|lia].
      assert (Hlc : lc < len).
      { specialize (Hv lc eq_refl). unfold idx_ok in Hv. cbn [r_class] in Hv. subst len. unfold class_locals.
        destruct (class_slots (us x) class) as [l|] eqn:El; [|exfalso; apply Hcls; exact El]. cbn. apply Hv. exact El. }
      destruct (N.eqb_spec len 0); [lia|].
      pose proof (N.mul_div_le (ntrees (us x)) len). nia. }
    assert (Hsb : forall oom,
      match search_best g (fun u i => steal_global g policy u i class 0 None)
              (rate_req policy class (pow2 0)) 8 (us x) start0 0 (ntrees (us x)) with
      | (Err EMemory, u1) => oom u1
      | other => other
      end = (Err EMemory, u') -> False).
    { intros oom H. err_inv H Es.
      eapply (steal_search_complete x class local Hok (us x) start0 u1); eauto.
      - apply Ist_refl; exact HI.
      - lia. }
    destruct local as [lc|]; [|eapply Hsb; exact Hget].
    destruct ((0 <? len) && (len <? ntrees (us x))) eqn:Econd; [|eapply Hsb; exact Hget].
    apply andb_true_iff in Econd. destruct Econd as (Hl0 & Hln). apply N.ltb_lt in Hl0, Hln.
    assert (Hcl : class_locals (us x) class = Some len).
    { subst len. destruct (class_locals (us x) class); [reflexivity|lia]. }
    rewrite (get_local_no_slot x 0 class lc None 1 HI (Hv lc eq_refl) Hp) in Hget.
    err_inv Hget Hsr. rename u1 into u2.
    assert (Hn0 : ntrees (us x) <> 0) by lia.
    assert (Hb0 : start0 + 2 * ntrees (us x) < W64) by lia.
    exact (reserve_search_complete x class (Some lc) HI Hok lc len Hcl Hl0 start0 u2 Hn0 Hb0 Hsr i Hi HG).
  Qed.

  (* ... hence, by U3, the lower allocator has no free frame outside what offline operations hide *)
  Corollary get_base_complete_free x rq x' :
    Inv x -> valid_local (us x) rq -> present_slots (us x) = [] -> r_order rq = 0%nat ->
    3 * ntrees (us x) < W64 ->
    ghost_lift (fun u => llfree_get g policy u None rq) x = (Err EMemory, x') ->
    forall i, i < ntrees (us x) -> tree_free g (low (us x)) i = nth (nn i) (off x) 0.
  Proof.
    intros HI Hv Hp Hord Hsz Hg i Hi.
    destruct (tree_at_some _ _ Hi) as (t & Ht).
    pose proof (get_base_complete x rq x' HI Hv Hp Hord Hsz Hg i t Ht) as H0.
    apply Inv_UIC in HI.
    pose proof (UIC_tree g policy WF LF _ _ _ _ _ HI Ht) as Hok.
    apply (tree_okC_nn g policy WF LF) in Hok. destruct Hok as (_ & B & _).
    unfold slots_of in B. rewrite Hp in B. cbn in B. unfold cr0 in B. lia.
  Qed.

  (* ----- C10 (b): a targeted get right after a drain succeeds exactly when the block is free and the
     counter of its tree covers it ----- *)
  Lemma steal_global_at_succeeds x f class k t r u' :
    Inv x -> class_slots (us x) class <> None -> (k <= tord g)%nat ->
    aligned f k = true -> f + pow2 k <= frames (low (us x)) ->
    tree_at (us x) (f / TF) = Some t -> t_res t = false -> pow2 k <= t_free t ->
    spec_get_enabled (abs g (low (us x))) f k = true ->
    steal_global g policy (us x) (f / TF) class k (Some f) = (r, u') -> exists c, r = Ok (f, c).
  Proof.
    intros HI Hc Hk Hal Hfr Ht Hr Hf Hen. pose proof (tree_at_lt _ _ _ Ht) as Hi.
    unfold steal_global. unfold lift at 1.
    destruct (trees_steal policy (us x) (f / TF) class (pow2 k)) as [ro u1] eqn:Es.
    pose proof HI as HC. apply Inv_UIC in HC.
    destruct (trees_steal_C g policy WF LF _ _ _ _ _ _ _ _ HC Hi Hc Es) as [(-> & ->)|Hs].
    { exfalso. unfold trees_steal in Es. rewrite Ht in Es.
      destruct (tree_steal_some t class (pow2 k)) as (t' & Et'); auto. rewrite Et' in Es. discriminate. }
    destruct Hs as (t0 & t' & _ & _ & _ & _ & _ & _ & _ & -> & Hu1 & Hcr).
    specialize (Hcr (crd (f / TF) (pow2 k)) (fun j => eq_refl)).
    assert (Hl1 : low u1 = low (us x)) by (subst u1; reflexivity).
    destruct (lget_low g u1 (tree_row g (f / TF)) k (Some f)) as [r2 u2] eqn:Eg.
    pose proof (UIC_lower g policy WF LF _ _ _ Hcr) as HL. cbn [us mk] in HL.
    assert (Hpre : aligned f k = true /\ f + pow2 k <= frames (low u1)) by (rewrite Hl1; auto).
    pose proof (lget_low_spec g LF _ _ _ (Some f) _ _ HL Hk Hpre Eg) as (_ & Hsp).
    destruct r2 as [f1|e|s]; [| |destruct Hsp].
    - destruct Hsp as (-> & _). intros H; inv H. eauto.
    - exfalso. destruct Hsp as (_ & _ & Hno). rewrite Hl1, Hen in Hno. discriminate.
  Qed.

  Theorem get_at_complete x f rq t :
    Inv x -> valid_local (us x) rq -> present_slots (us x) = [] ->
    check g (us x) f rq = Ok tt -> tree_at (us x) (f / TF) = Some t ->
    ((exists c x', ghost_lift (fun u => llfree_get g policy u (Some f) rq) x = (Ok (f, c), x')) <->
     (pow2 (r_order rq) <= t_free t /\ spec_get_enabled (abs g (low (us x))) f (r_order rq) = true)).
  Proof.
    intros HI Hv Hp Ec Ht. split.
    - intros (c & x' & Hg).
      pose proof (llfree_get_spec g policy WF LF PR PT _ _ _ _ _ HI Hv Hg) as (He & _).
      pose proof (llfree_get_visible g policy WF LF PR PT _ _ _ _ _ _ HI Hv Hg) as Hvis.
      split; [|exact He].
      pose proof HI as HC. apply Inv_UIC in HC.
      pose proof (UIC_tree g policy WF LF _ _ _ _ _ HC Ht) as Hok.
      apply (tree_okC_nn g policy WF LF) in Hok. destruct Hok as (_ & B & _).
      unfold slots_of in B. rewrite Hp in B. cbn in B. unfold cr0 in B. lia.
    - intros (Hf & Hen).
      destruct (check_ok g _ _ _ Ec) as (Hk & Hfr & Hal & Hcls).
      pose proof (no_slots_unreserved _ _ _ HI Hp Ht) as Hr.
      unfold ghost_lift.
      destruct (llfree_get g policy (us x) (Some f) rq) as [r u'] eqn:Hget.
      unfold llfree_get in Hget. rewrite Ec in Hget. unfold get_at in Hget.
      assert (Hafter : forall r u',
        match steal_global g policy (us x) (f / TF) (r_class rq) (r_order rq) (Some f) with
        | (Err EMemory, u2) =>
            match steal_local g policy u2 rq (Some f) with
            | (Err EMemory, u3) => demote_local g policy u3 rq (Some f)
            | other => other
            end
        | other => other
        end = (r, u') -> exists c, r = Ok (f, c)).
      { intros r1 u1 H.
        destruct (steal_global g policy (us x) (f / TF) (r_class rq) (r_order rq) (Some f)) as [r2 u2] eqn:E2.
        destruct (steal_global_at_succeeds x f _ _ t r2 u2 HI Hcls Hk Hal Hfr Ht Hr Hf Hen E2) as (c & ->).
        inv H. eauto. }
      destruct (r_local rq) as [local|] eqn:Eloc.
      + rewrite (get_local_no_slot x (r_order rq) (r_class rq) local (Some f) 1 HI (Hv local Eloc) Hp) in Hget.
        destruct (Hafter _ _ Hget) as (c & ->). eauto.
      + destruct (Hafter _ _ Hget) as (c & ->). eauto.
  Qed.

  (* the size hypothesis of `get_base_complete` holds on every 64-bit machine *)
  Lemma ntrees_small x : Inv x -> frames (low (us x)) < W64 -> 3 * ntrees (us x) < W64.
  Proof.
    intros HI Hfr. apply Inv_UIC in HI. rewrite (UIC_ntrees g policy WF LF _ _ _ HI).
    set (n := ntab g (frames (low (us x)))).
    destruct (N.eq_dec n 0) as [->|Hn]; [reflexivity|].
    assert (Hlt : n - 1 < n) by lia.
    apply (ntab_lt g) in Hlt. destruct (TF_64 g WF) as (q & Eq & Hq).
    change W64 with 18446744073709551616 in *. nia.
  Qed.
End Complete10.

(* ============================================================================================== *)
Module CompleteExamples.
  Import GetExamples.
  (* both whole trees allocated, the partial third tree taken offline: no slot present, every counter
     zero, a base-order get fails with Err EMemory although the lower allocator still has 904 free
     frames (all hidden by the offline operation) *)
  Definition x2off := snd (ghost_change g x2 {| m_id := Some 2; m_class := None; m_free := 0 |}
                                         {| c_class := None; c_op := Some OpOffline |}).
  Example ex_base_complete :
    upper_invb g pol x2off = true /\ present_slots (us x2off) = [] /\
    (exists x3, get x2off None (rq 0 1 None) = (Err EMemory, x3)) /\
    (exists x3, get x2off None (rq 0 0 (Some 1)) = (Err EMemory, x3)) /\
    map t_free (trees (us x2off)) = [0; 0; 0] /\
    map (fun i => tree_free g (low (us x2off)) i) [0; 1; 2] = off x2off /\ off x2off = [0; 0; 904] /\
    (3 * ntrees (us x2off) <? W64) = true.
  Proof.
    split; [vm_compute; reflexivity|]. split; [vm_compute; reflexivity|].
    split; [eexists; vm_compute; reflexivity|]. split; [eexists; vm_compute; reflexivity|].
    repeat split; vm_compute; reflexivity.
  Qed.
  (* the same state before the offline operation: the counter of tree 2 is not zero and the get succeeds *)
  Example ex_base_ok :
    present_slots (us x2) = [] /\ map t_free (trees (us x2)) = [0; 0; 904] /\
    exists f c x3, get x2 None (rq 0 1 None) = (Ok (f, c), x3) /\ f / TF g = 2.
  Proof.
    split; [vm_compute; reflexivity|]. split; [vm_compute; reflexivity|].
    eexists _, _, _. split; vm_compute; reflexivity.
  Qed.
  (* targeted: free block and sufficient counter: Ok; free block but hidden counter: Err EMemory *)
  Example ex_at_complete :
    present_slots (us x0) = [] /\ check g (us x0) 100 (rq 2 1 None) = Ok tt /\
    option_map t_free (tree_at (us x0) (100 / TF g)) = Some 2048 /\
    spec_get_enabled (abs g (low (us x0))) 100 2 = true /\
    (exists c x1, get x0 (Some 100) (rq 2 1 None) = (Ok (100, c), x1)) /\
    present_slots (us xoff) = [] /\ check g (us xoff) 2048 (rq 0 1 None) = Ok tt /\
    option_map t_free (tree_at (us xoff) (2048 / TF g)) = Some 0 /\
    spec_get_enabled (abs g (low (us xoff))) 2048 0 = true /\
    (exists x1, get xoff (Some 2048) (rq 0 1 None) = (Err EMemory, x1)).
  Proof.
    repeat match goal with |- _ /\ _ => split end;
      try (vm_compute; reflexivity); try (eexists _, _; vm_compute; reflexivity);
      try (eexists; vm_compute; reflexivity).
  Qed.
End CompleteExamples.

(* ============================================================================================== *)
(* C11: one class with one slot *)
Section Complete11.
  Variable g : geom.
  Variable policy : N -> N -> N -> pol.
  Hypothesis WF : wf_geom g.
  Hypothesis LF : lower_facts g.
  Hypothesis PR : pol_refl_match policy.
  Hypothesis PT : pol_demote_trans policy.
  Hypothesis PN : pol_never_invalid policy.
  Notation TF := (TF g).
  Notation UIC := (UpperInvC g policy).
  Notation Inv := (UpperInv g policy).

  Lemma slot_held_reserved x c j s :
    Inv x -> slot_at (us x) c j = Some s -> s_pres s = true ->
    exists tr, tree_at (us x) (row_tree g (s_row s)) = Some tr /\ t_res tr = true.
  Proof.
    intros HI Hat Hp. apply Inv_UIC in HI.
    destruct (UIC_slot g policy WF LF _ _ _ _ _ _ HI Hat Hp) as (HT & _).
    destruct (tree_at_some _ _ HT) as (tr & Htr). exists tr. split; [exact Htr|].
    pose proof (UIC_tree g policy WF LF _ _ _ _ _ HI Htr) as Hok.
    apply (tree_okC_nn g policy WF LF) in Hok. destruct Hok as (A & _).
    assert (Hin : In (c, s) (slots_of g (us x) (row_tree g (s_row s)))).
    { apply in_slots_of. splits; auto. apply in_all_slots; [eapply UIC_len8; eauto|eauto]. }
    destruct (slots_of g (us x) (row_tree g (s_row s))); [destruct Hin|].
    cbn [length] in A. destruct (t_res tr); [reflexivity|lia].
  Qed.

  (* base-order get_local without sync fails only on an absent or empty slot, leaving the state alone *)
  Lemma get_local_nosync_base x c l fuel e t u' :
    Inv x -> idx_ok (us x) c l ->
    get_local g policy (S fuel) (us x) 0 c l None false = (GErr e t, u') ->
    u' = us x /\
    forall s, slot_at (us x) c l = Some s -> s_pres s = true -> s_free s = 0.
  Proof.
    intros HI Hidx Hg. cbn [get_local] in Hg.
    pose proof HI as HC. apply Inv_UIC in HC.
    destruct (locals_get g (us x) c l (option_map (fun f => f / TF) None) (pow2 0)) as [lr u1] eqn:El.
    pose proof (locals_get_C g policy WF LF _ _ _ _ _ _ _ _ _ HC Hidx El) as Hl.
    destruct lr as [row|rv| |s]; [| | |destruct Hl].
    - exfalso. destruct Hl as (s & Hat & Hp & Hrow & Hn & Htree & Hlt & Hfrm & Hu1 & Hcr).
      specialize (Hcr (crd (row_tree g row) (pow2 0)) (fun j => eq_refl)).
      destruct (lget_low g u1 row 0 None) as [r2 u2] eqn:Eg.
      assert (HT1 : row_tree g row < ntrees (us (mk x u1))) by (cbn [us mk]; subst u1; rewrite ntrees_set_slot; exact Hlt).
      destruct (attempt_succeeds g policy WF LF [] (mk x u1) _ row r2 u2 Hcr HT1 eq_refl Eg) as (f & ->).
      destruct (negb (row =? f / 64)); [|discriminate].
      destruct (locals_set_start g u2 c l (f / 64)) as [[[]|?|?] ?]; discriminate.
    - destruct Hl as (-> & s & Hat & Hp & -> & Hwhy). cbn [andb] in Hg. inv Hg. split; [reflexivity|].
      intros s' Hat' _. rewrite Hat in Hat'. inv Hat'.
      destruct Hwhy as [(t1 & Et1 & _)|Hlt]; [discriminate|]. change (pow2 0) with 1 in Hlt. lia.
    - destruct Hl as (-> & Hwhy). inv Hg. split; [reflexivity|].
      intros s Hat Hp. destruct Hwhy as [Hn|(s' & Hat' & Hp')].
      + unfold slot_at in Hat. rewrite Hn in Hat. discriminate.
      + rewrite Hat in Hat'. inv Hat'. congruence.
  Qed.

  (* ... and with the sync retry: only if moreover the counter of the slot's tree is zero *)
  Lemma get_local_base x c l e t u' :
    Inv x -> idx_ok (us x) c l -> class_slots (us x) c <> None ->
    get_local g policy 2 (us x) 0 c l None true = (GErr e t, u') ->
    u' = us x /\
    forall s, slot_at (us x) c l = Some s -> s_pres s = true ->
      s_free s = 0 /\ exists tr, tree_at (us x) (row_tree g (s_row s)) = Some tr /\ t_free tr = 0.
  Proof.
    intros HI Hidx Hcls Hg. cbn [get_local] in Hg.
    pose proof HI as HC. apply Inv_UIC in HC.
    destruct (locals_get g (us x) c l (option_map (fun f => f / TF) None) (pow2 0)) as [lr u1] eqn:El.
    pose proof (locals_get_frame g _ _ _ _ _ _ _ El) as Fr1.
    pose proof (locals_get_C g policy WF LF _ _ _ _ _ _ _ _ _ HC Hidx El) as Hl.
    destruct lr as [row|rv| |s]; [| | |destruct Hl].
    - exfalso. destruct Hl as (s & Hat & Hp & Hrow & Hn & Htree & Hlt & Hfrm & Hu1 & Hcr).
      specialize (Hcr (crd (row_tree g row) (pow2 0)) (fun j => eq_refl)).
      destruct (lget_low g u1 row 0 None) as [r2 u2] eqn:Eg.
      assert (HT1 : row_tree g row < ntrees (us (mk x u1))) by (cbn [us mk]; subst u1; rewrite ntrees_set_slot; exact Hlt).
      destruct (attempt_succeeds g policy WF LF [] (mk x u1) _ row r2 u2 Hcr HT1 eq_refl Eg) as (f & ->).
      destruct (negb (row =? f / 64)); [|discriminate].
      destruct (locals_set_start g u2 c l (f / 64)) as [[[]|?|?] ?]; discriminate.
    - destruct Hl as (-> & s & Hat & Hp & -> & Hwhy).
      assert (Hs0 : s_free s = 0).
      { destruct Hwhy as [(t1 & Et1 & _)|Hlt]; [discriminate|]. change (pow2 0) with 1 in Hlt. lia. }
      destruct (slot_held_reserved x c l s HI Hat Hp) as (tr & Htr & Hres).
      cbn [slot_resv rv_row rv_free andb] in Hg. rewrite Hs0 in Hg.
      replace (pow2 0 <? 0) with false in Hg by reflexivity.
      set (T := row_tree g (s_row s)) in *.
      pose proof (tree_at_lt _ _ _ Htr) as HT.
      destruct (trees_sync (us x) T (pow2 0 - 0)) as [rs u2] eqn:Esy.
      pose proof (trees_sync_frame _ _ _ _ _ Esy) as Fr2.
      destruct (trees_sync_C g policy WF LF _ _ _ _ _ _ _ HC HT Esy) as [(-> & ->)|Hsy].
      + inv Hg. split; [reflexivity|]. intros s' Hat' _. rewrite Hat in Hat'. inv Hat'. split; [exact Hs0|].
        exists tr. split; [exact Htr|].
        unfold trees_sync in Esy. rewrite Htr in Esy. unfold tree_sync_steal in Esy. rewrite Hres in Esy.
        cbn [andb] in Esy. destruct (N.leb_spec (pow2 0 - 0) (t_free tr)) as [Hle|Hgt]; [discriminate|].
        change (pow2 0 - 0) with 1 in Hgt. lia.
      + exfalso. destruct Hsy as (tr' & Htr' & _ & Hmin & -> & Hu2 & Hcr).
        assert (tr' = tr) by congruence. subst tr'. rename tr into tr'. change (pow2 0 - 0) with 1 in Hmin.
        specialize (Hcr (crd T (t_free tr')) (fun j => eq_refl)).
        destruct (locals_put g u2 c l T (t_free tr')) as [rp u3] eqn:Epu.
        pose proof (locals_put_frame g _ _ _ _ _ _ _ Epu) as Fr3.
        assert (Hidx2 : idx_ok (us (mk x u2)) c l) by (cbn [us mk]; eapply frame_idx_ok; eauto).
        assert (Hc2 : t_free tr' <= crd T (t_free tr') T) by (unfold crd, delta; rewrite N.eqb_refl; lia).
        assert (Hat2 : slot_at u2 c l = Some s) by (subst u2; exact Hat).
        destruct (locals_put_C g policy WF LF _ _ _ _ _ _ _ _ _ Hcr Hidx2 Hc2 Epu) as [(-> & Hu3 & Hwhy2)|(-> & Hput)].
        * cbn [us mk] in Hwhy2. destruct Hwhy2 as [Hn|(s2 & Hat2' & Hbad)].
          -- apply Hcls. subst u2. exact Hn.
          -- rewrite Hat2 in Hat2'. inv Hat2'. destruct Hbad as [Hb|Hb]; [congruence|apply Hb; reflexivity].
        * destruct Hput as (s3 & Hat3 & Hp3 & Hrt3 & Hu3 & Hcr3).
          cbn [us mk] in Hat3, Hu3. assert (s3 = s) by congruence. subst s3. rename s into s3.
          assert (Hc3 : forall j, cr0 j + delta j T (t_free tr') = crd T (t_free tr') j)
            by (intros j; unfold crd, cr0; lia).
          specialize (Hcr3 cr0 Hc3). apply Inv_UIC in Hcr3.
          assert (Hidx3 : idx_ok (us (mk x u3)) c l).
          { cbn [us mk]. eapply frame_idx_ok; [|exact Hidx]. eapply frame_trans; eauto. }
          destruct (get_local_nosync_base (mk x u3) c l 0 e t u' Hcr3 Hidx3 Hg) as (_ & Hz).
          cbn [us mk] in Hz.
          specialize (Hz {| s_pres := true; s_row := s_row s3; s_free := s_free s3 + t_free tr' |}).
          cbn [s_pres s_free] in Hz. rewrite Hu3 in Hz.
          rewrite slot_at_set_slot_same in Hz by congruence.
          specialize (Hz eq_refl eq_refl). lia.
    - destruct Hl as (-> & Hwhy). inv Hg. split; [reflexivity|].
      intros s Hat Hp. exfalso. destruct Hwhy as [Hn|(s' & Hat' & Hp')].
      + unfold slot_at in Hat. rewrite Hn in Hat. discriminate.
      + rewrite Hat in Hat'. inv Hat'. congruence.
  Qed.

  Lemma sum_free_zero l : (forall cs, In cs l -> s_free (snd cs) = 0) -> sum_free l = 0.
  Proof.
    unfold sum_free. induction l as [|a l IH]; intros H; cbn [fold_right]; [reflexivity|].
    rewrite (H a (or_introl eq_refl)), IH; [reflexivity|]. intros cs Hcs. apply H. right. exact Hcs.
  Qed.

  Ltac err_inv H E :=
    match type of H with
    | (let (_, _) := ?s in _) = _ => destruct s as [[?|[]|?] ?u1] eqn:E; try discriminate
    end.

  (* C11: a single class with a single slot, more trees than slots; a base-order request through
     the slot fails only if no visible frame is free: every tree's free frames are all hidden *)
  Theorem get_single_slot_complete x c x' :
    Inv x -> (forall c', class_slots (us x) c' <> None -> c' = c) -> class_locals (us x) c = Some 1 ->
    1 < ntrees (us x) -> 3 * ntrees (us x) < W64 ->
    ghost_lift (fun u => llfree_get g policy u None {| r_order := 0; r_class := c; r_local := Some 0 |}) x
      = (Err EMemory, x') ->
    forall i, i < ntrees (us x) -> tree_free g (low (us x)) i = nth (nn i) (off x) 0.
  Proof.
    intros HI Honly Hcl Hnt Hsz Hg.
    set (rq := {| r_order := 0; r_class := c; r_local := Some 0 |}) in *.
    assert (Hcls : class_slots (us x) c <> None).
    { intros E. unfold class_locals in Hcl. rewrite E in Hcl. discriminate. }
    assert (Hidx : idx_ok (us x) c 0).
    { intros l El. unfold class_locals in Hcl. rewrite El in Hcl. cbn in Hcl. inv Hcl. lia. }
    assert (Hv : valid_local (us x) rq).
    { intros lc Hlc. cbn [r_local rq] in Hlc. inv Hlc. exact Hidx. }
    destruct (ghost_lift_get g policy _ _ _ _ _ Hg) as (u' & Hget & _). clear Hg.
    unfold llfree_get in Hget.
    destruct (check_cases g (us x) 0 rq) as [Ec|Ec]; rewrite Ec in Hget; [|discriminate].
    destruct (check_ok g _ _ _ Ec) as (Hk & Hfr & Hal & _).
    assert (Hok : req_ok g (us x) rq None).
    { unfold req_ok. splits; auto. intros f1 Hf1. discriminate. }
    cbv zeta in Hget. cbn [r_class r_order r_local rq] in Hget. rewrite Hcl in Hget.
    replace ((0 <? 1) && (1 <? ntrees (us x))) with true in Hget
      by (symmetry; apply andb_true_iff; split; [reflexivity|apply N.ltb_lt; exact Hnt]).
    destruct (get_local g policy 2 (us x) 0 c 0 None true) as [rl u1] eqn:El.
    pose proof (get_local_G g policy WF LF x 0%nat c 0 None rl u1 HI Hidx (Nat.le_0_l _)) as Hpost.
    destruct rl as [f1 c1|e t|s]; try discriminate.
    assert (Hal0 : frame_al (us x) 0 None) by (intros f1 Hf1; discriminate).
    specialize (Hpost Hal0 El). cbn [glr_post] in Hpost. destruct Hpost as (_ & Htlt).
    destruct (get_local_base x c 0 e t u1 HI Hidx Hcls El) as (-> & Hslot).
    destruct e; try discriminate.
    err_inv Hget Hsr.
    match type of Hsr with _ = (_, ?u) => rename u into u2 end.
    set (start := match t with Some s => s | None => (if 1 =? 0 then 0 else ntrees (us x) / 1) * 0 end) in *.
    assert (Hstart : start <= ntrees (us x)).
    { subst start. destruct t as [t0|]; [specialize (Htlt t0 eq_refl); lia|lia]. }
    assert (Hn0 : ntrees (us x) <> 0) by lia.
    assert (Hb0 : start + 2 * ntrees (us x) < W64) by lia.
    assert (Hl1 : 0 < 1) by lia.
    pose proof (reserve_search_complete g policy WF LF PR PN x c (Some 0) HI Hok 0 1 Hcl Hl1 start u2 Hn0 Hb0 Hsr)
      as Hng.
    (* every slot is the slot (c, 0) *)
    pose proof HI as HC. apply Inv_UIC in HC.
    pose proof (UIC_len8 g policy WF LF _ _ _ HC) as L8.
    assert (Hall : forall c' s, In (c', s) (all_slots (us x)) -> slot_at (us x) c 0 = Some s).
    { intros c' s Hin. apply (in_all_slots _ _ _ L8) in Hin. destruct Hin as (j & Hat).
      pose proof Hat as Hat0. unfold slot_at in Hat. destruct (class_slots (us x) c') as [l|] eqn:El'; [|discriminate].
      assert (c' = c) by (apply Honly; congruence). subst c'.
      unfold class_locals in Hcl. rewrite El' in Hcl. cbn in Hcl. inv Hcl.
      assert (Hj : (nn j < length l)%nat) by (apply nth_error_Some; congruence).
      assert (j = 0) by (unfold nn in Hj; lia). subst j. exact Hat0. }
    intros i Hi. destruct (tree_at_some _ _ Hi) as (tr & Htr).
    pose proof (UIC_tree g policy WF LF _ _ _ _ _ HC Htr) as Hokt.
    apply (tree_okC_nn g policy WF LF) in Hokt. destruct Hokt as (A & B & _).
    cbn [ih_of filter length ih_sum fold_right] in A, B. unfold cr0 in B.
    assert (Hsum : sum_free (slots_of g (us x) i) = 0).
    { apply sum_free_zero. intros [c' s] Hin. cbn [snd]. apply in_slots_of in Hin. destruct Hin as (Hin & Hp & _).
      destruct (Hslot s (Hall _ _ Hin) Hp) as (Hz & _). exact Hz. }
    assert (Hfree : t_free tr = 0).
    { destruct (t_res tr) eqn:Hres.
      - destruct (slots_of g (us x) i) as [|[c' s] rest] eqn:Esl; [cbn in A; lia|].
        assert (Hin : In (c', s) (slots_of g (us x) i)) by (rewrite Esl; left; reflexivity).
        apply in_slots_of in Hin. destruct Hin as (Hin & Hp & Hrt).
        destruct (Hslot s (Hall _ _ Hin) Hp) as (_ & tr' & Htr' & Hz). rewrite Hrt in Htr'. congruence.
      - destruct (N.eq_dec (t_free tr) 0) as [|Hne]; [assumption|exfalso].
        apply (Hng i Hi). exists tr. splits; auto. lia. }
    lia.
  Qed.
End Complete11.

Module SingleSlotExamples.
  Import GetExamples.
  (* one class, one slot, 3 trees: reserve tree through the slot, allocate the second tree whole, hide the
     partial third tree, then use up the reservation: the next base-order get fails, and indeed no
     visible frame is free *)
  Definition v0 := match llfree_new g 5000 IFreeAll [(0,1)] 0 lower0 [] [slot_none] with
                   | Ok u => ustate_new u
                   | _ => x0
                   end.
  Definition getv x o l := snd (ghost_lift (fun u => llfree_get g pol u None (rq o 0 l)) x).
  Definition v1 := getv (getv v0 0 (Some 0)) 11 None.
  Definition v2 := snd (ghost_change g v1 {| m_id := Some 2; m_class := None; m_free := 0 |}
                                      {| c_class := None; c_op := Some OpOffline |}).
  Definition v3 := fold_left (fun x o => getv x o (Some 0)) [10; 9; 8; 7; 6; 5; 4; 3; 2; 1; 0]%nat v2.
  Example ex_single_slot :
    upper_invb g pol v3 = true /\ class_locals (us v3) 0 = Some 1 /\ (1 <? ntrees (us v3)) = true /\
    length (present_slots (us v3)) = 1%nat /\
    (exists x', ghost_lift (fun u => llfree_get g pol u None (rq 0 0 (Some 0))) v3 = (Err EMemory, x')) /\
    map (fun i => tree_free g (low (us v3)) i) [0; 1; 2] = off v3 /\ off v3 = [0; 0; 904].
  Proof.
    split; [vm_compute; reflexivity|]. split; [vm_compute; reflexivity|]. split; [vm_compute; reflexivity|].
    split; [vm_compute; reflexivity|]. split; [eexists; vm_compute; reflexivity|].
    split; vm_compute; reflexivity.
  Qed.
End SingleSlotExamples.
