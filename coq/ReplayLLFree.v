(* C20 over the MODELLED REAL ALLOCATOR: the replay loop of eval/src/bin/replay.rs (Replay.v, with the repair of
   D11) running on the sequential model of llfree-rs (Upper.v) instead of the abstract interval allocator.

   `lstep` / `lrun` / `lreplay` : the loop.  State = (upper, table, orphans, counters).  An event carries, besides
       (alloc, pfn, order), the class and the slot index of the request that the real binary builds from the
       event's core / gfp flags through its classing (`request(order, gfp, core, pid)`): the SAME request is used for
       the get of an allocation event and the put of a free event, as in replay.rs.  Allocation events call
       `llfree_get g policy u None rq` (`.unwrap()`: an Err or a panic ends the run = None), free events call
       `llfree_put g policy u (F + (pfn - a)) rq`.  The table bookkeeping is Replay.v's `tab_step`, unchanged.
   `Rel ls A`   : the simulation relation between a state of this loop and a state of the abstract loop of
       Replay.v with the same table / orphans / counters and allocator state A (a list of intervals):
       UpperInv of the allocator, unchanged configuration shape, ReplayProofs.Inv of the abstract state,
       allocd A x = bit x of o_alloc (abs g (low u)) for every x, popcount o_alloc = alen A, and
       `whole_tracked`: every huge frame of a tracked block of order >= hord is allocated whole (o_whole) - what
       makes a free of a part of order >= hord of it enabled.
   `lstep_sim`  : every step of this loop is a step of the abstract loop under an oracle satisfying `choose_ok`
       (for an allocation: `pick`, the oracle that names the block llfree_get returned), and Rel is preserved.
       The oracle is chosen per step: a fixed `choose : astate -> nat -> option N` cannot name the real
       allocator's choice, which depends on reservations that the ownership state does not determine.
   Theorems (restated in Properties/C20.v under the names C20_llfree_...): `llfree_frees_traced_block`, `llfree_free_never_fails`,
       `llfree_unknown_free`, `llfree_reachable`, `llfree_final_count`, `llfree_final_count_new` (from the state
       built by `llfree_new ... IFreeAll`), `llfree_step_simulated`, `llfree_run_simulated` (whole runs, `run_with`: one oracle per event); example `llfree_replay_example`. *)
From LLF Require Import Base BitLemmas Row Bitfield Lower Spec Upper UpperInvDef AbsLemmas LowerInitProofs
  LowerFactsProofs UpperPrims UpperPutProofs UpperGetProofs Policies PolicyFacts Handoff GlueProofs GlueHistory.
From LLF Require Import Replay ReplayProofs.
Require Import ZifyBool PeanoNat.

(* ====================================================================================== *)
(* 1. the loop over the llfree model                                                       *)
(* ====================================================================================== *)
Record levent := mkLev { le_ev : event; le_class : N; le_local : option N }.
Definition le_req (le : levent) : request :=
  {| r_order := e_order (le_ev le); r_class := le_class le; r_local := le_local le |}.

Record lstate := mkL {
  l_u : upper;                       (* the allocator *)
  l_tab : table;                     (* present entries of `allocated` *)
  l_orph : list block;               (* ghost: blocks whose present entry was overwritten *)
  l_failed : N;                      (* "Free failed" log lines *)
  l_unknown : N;                     (* free_unkown *)
  l_reallocs : N }.                  (* reallocs *)

Definition linit (u : upper) : lstate := mkL u [] [] 0 0 0.

Section LReplay.
  Variable g : geom.
  Variable policy : N -> N -> N -> pol.
  Variable max_pfn : N.              (* length of `allocated` = frames of the allocator *)

  (* one loop iteration; None = the real loop panics (`.unwrap()` of a failed get, index out of bounds) *)
  Definition lstep (s : lstate) (le : levent) : option (lstate * obs) :=
    let e := le_ev le in
    if e_alloc e then
      match llfree_get g policy (l_u s) None (le_req le) with
      | (Ok (f, _), u') =>
          match tab_step max_pfn (l_tab s, l_orph s) e f with
          | Some (T', orph', TAlloc re) =>
              Some (mkL u' T' orph' (l_failed s) (l_unknown s) (l_reallocs s + if re then 1 else 0),
                    OAlloc f (e_order e))
          | _ => None
          end
      | _ => None
      end
    else
      match tab_step max_pfn (l_tab s, l_orph s) e 0 with
      | Some (T', orph', TUnknown) =>
          Some (mkL (l_u s) T' orph' (l_failed s) (l_unknown s + 1) (l_reallocs s), OUnknown)
      | Some (T', orph', TFree a F K) =>
          let f := F + (e_pfn e - a) in
          match llfree_put g policy (l_u s) f (le_req le) with
          | (Ok _, u') => Some (mkL u' T' orph' (l_failed s) (l_unknown s) (l_reallocs s), OPut f (e_order e) true)
          | (Err _, u') => Some (mkL u' T' orph' (l_failed s + 1) (l_unknown s) (l_reallocs s), OPut f (e_order e) false)
          | (Panic _, _) => None
          end
      | _ => None
      end.

  Fixpoint lrun (s : lstate) (evs : list levent) : option lstate :=
    match evs with
    | [] => Some s
    | e :: r => match lstep s e with Some (s', _) => lrun s' r | None => None end
    end.

  (* the calls made to the allocator, in order *)
  Fixpoint lrun_log (s : lstate) (evs : list levent) : option (list obs) :=
    match evs with
    | [] => Some []
    | e :: r =>
        match lstep s e with
        | Some (s', o) => match lrun_log s' r with Some l => Some (o :: l) | None => None end
        | None => None
        end
    end.

  Definition lreplay (u : upper) (evs : list levent) : option lstate := lrun (linit u) evs.

  (* `stats.free_frames` (the exact count), failed frees, free_unkown, reallocs *)
  Definition lresult (s : lstate) : N * N * N * N :=
    (Lower.free_frames (llfree_stats g (l_u s)), l_failed s, l_unknown s, l_reallocs s).
End LReplay.

(* ====================================================================================== *)
(* 2. helpers                                                                              *)
(* ====================================================================================== *)
(* the oracle naming one block: returns f for order k0 when f is aligned, in range and overlaps no interval *)
Definition pick (max_pfn f : N) (k0 : nat) (st : astate) (k : nat) : option N :=
  if Nat.eqb k k0 && (f mod 2 ^ N.of_nat k0 =? 0) && (f + 2 ^ N.of_nat k0 <=? max_pfn)
     && negb (existsb (overlap f (f + 2 ^ N.of_nat k0)) st)
  then Some f else None.

Lemma pick_ok max_pfn f k0 : choose_ok max_pfn (pick max_pfn f k0).
Proof.
  intros st k f' H. unfold pick in H.
  destruct (Nat.eqb k k0) eqn:E1; [|discriminate]. apply Nat.eqb_eq in E1. subst k0. cbn [andb] in H.
  destruct (f mod 2 ^ N.of_nat k =? 0) eqn:E2; [|discriminate]. cbn [andb] in H.
  destruct (f + 2 ^ N.of_nat k <=? max_pfn) eqn:E3; [|discriminate]. cbn [andb] in H.
  destruct (existsb (overlap f (f + 2 ^ N.of_nat k)) st) eqn:E4; [discriminate|]. injection H as <-.
  split; [lia|]. split; [lia|]. intros x Hx.
  destruct (allocd st x) eqn:A; [|reflexivity]. exfalso.
  unfold allocd in A. apply existsb_exists in A. destruct A as (i & Hin & Hi).
  assert (existsb (overlap f (f + 2 ^ N.of_nat k)) st = true); [|congruence].
  apply existsb_exists. exists i. split; [assumption|]. unfold overlap, inI in *. lia.
Qed.

Lemma pick_some max_pfn f k st :
  f mod 2 ^ N.of_nat k = 0 -> f + 2 ^ N.of_nat k <= max_pfn -> Forall ne st ->
  (forall x, f <= x < f + 2 ^ N.of_nat k -> allocd st x = false) -> pick max_pfn f k st k = Some f.
Proof.
  intros H1 H2 Hne Hfree. unfold pick. rewrite Nat.eqb_refl.
  replace (f mod 2 ^ N.of_nat k =? 0) with true by lia.
  replace (f + 2 ^ N.of_nat k <=? max_pfn) with true by lia. cbn [andb].
  destruct (existsb (overlap f (f + 2 ^ N.of_nat k)) st) eqn:E; [|reflexivity]. exfalso.
  apply existsb_exists in E. destruct E as (i & Hin & Hi).
  rewrite Forall_forall in Hne. specialize (Hne i Hin). unfold ne in Hne.
  pose proof (ReplayProofs.pow2_pos k) as Hp.
  assert (A : allocd st (N.max (fst i) f) = true).
  { unfold allocd. apply existsb_exists. exists i. split; [assumption|]. unfold inI, overlap in *. lia. }
  rewrite Hfree in A; [discriminate|]. unfold overlap in Hi. lia.
Qed.

(* a block aligned to H whose size is a multiple of H consists of whole H-frames *)
Lemma blk_huge_in H F S x : 0 < H -> F mod H = 0 -> S mod H = 0 -> F <= x < F + S ->
  F <= (x / H) * H /\ (x / H) * H + H <= F + S.
Proof.
  intros HH HF HS Hx.
  apply N.div_exact in HF; [|lia]. apply N.div_exact in HS; [|lia].
  set (c := F / H) in *. set (m := S / H) in *.
  assert (L : c <= x / H) by (apply N.div_le_lower_bound; lia).
  assert (U : x / H < c + m) by (apply N.div_lt_upper_bound; lia).
  nia.
Qed.

Lemma huge_range_in H c m h : c <= h < c + m -> c * H <= h * H /\ h * H + H <= c * H + m * H.
Proof. intros Hh. nia. Qed.
Lemma huge_range_of H c m y : 0 < H -> c * H <= y * H -> y * H + H <= c * H + m * H -> c <= y < c + m.
Proof. intros HH H1 H2. nia. Qed.

Lemma div_mul_bounds x H : 0 < H -> (x / H) * H <= x < (x / H) * H + H.
Proof. intros HH. pose proof (N.div_mod x H ltac:(lia)). pose proof (N.mod_lt x H ltac:(lia)). lia. Qed.

(* whether q is one of the part keys a + j*sz, j < n *)
Lemma part_key_dec a sz n q : 0 < sz ->
  (exists j, j < n /\ q = a + j * sz) \/ (forall j, j < n -> q <> a + j * sz).
Proof.
  intros Hs.
  assert (G : forall j, q = a + j * sz -> a <= q /\ (q - a) mod sz = 0 /\ (q - a) / sz = j).
  { intros j ->. replace (a + j * sz - a) with (j * sz) by lia.
    rewrite N.mod_mul, N.div_mul by lia. repeat split; lia. }
  destruct (N.le_gt_cases a q) as [Ha|Ha]; [|right; intros j _ E; apply G in E; lia].
  destruct (N.eq_dec ((q - a) mod sz) 0) as [Hm|Hm]; [|right; intros j _ E; apply G in E; lia].
  destruct (N.lt_ge_cases ((q - a) / sz) n) as [Hn|Hn]; [|right; intros j Hj E; apply G in E; lia].
  left. exists ((q - a) / sz). split; [assumption|].
  pose proof (N.div_mod (q - a) sz ltac:(lia)). lia.
Qed.

(* a frame of a tracked block is allocated *)
Lemma tracked_allocd max_pfn s q b y :
  Inv max_pfn s -> tget (r_tab s) q = Some b -> inb y b = true -> allocd (r_alloc s) y = true.
Proof.
  intros HI Hg Hy. apply icnt_allocd. rewrite <- (I_own _ _ HI y). unfold M. cbn [fst snd].
  pose proof (msum_tget (pt y) _ _ _ Hg) as L. unfold pt at 1 in L. rewrite Hy in L. cbn [b2n] in L. lia.
Qed.

(* removing a subset: popcount *)
Lemma popcount_ldiff_blk a f n : (forall i, f <= i < f + n -> N.testbit a i = true) ->
  popcount a = popcount (N.ldiff a (blk f n)) + n.
Proof.
  intros H.
  assert (E : a = N.lor (N.ldiff a (blk f n)) (blk f n)).
  { apply N.bits_inj. intros i. rewrite N.lor_spec, N.ldiff_spec, blk_testbit.
    destruct ((f <=? i) && (i <? f + n)) eqn:B; cbn [negb].
    - rewrite H by lia. reflexivity.
    - rewrite andb_true_r, orb_false_r. reflexivity. }
  assert (D : N.land (N.ldiff a (blk f n)) (blk f n) = 0).
  { apply N.bits_inj. intros i. rewrite N.land_spec, N.ldiff_spec, N.bits_0.
    destruct (N.testbit (blk f n) i); cbn [negb]; [rewrite andb_false_r|rewrite andb_false_r]; reflexivity. }
  rewrite E at 1. rewrite (popcount_lor_disjoint _ _ D), popcount_blk. reflexivity.
Qed.

(* the repaired abstract loop of Replay.v with one oracle per event (`step` is Replay.step, unchanged) *)
Fixpoint run_with (max_pfn : N) (chs : list (astate -> nat -> option N)) (s : rstate) (evs : list event)
  : option rstate :=
  match evs, chs with
  | [], _ => Some s
  | e :: r, ch :: chs' =>
      match step max_pfn ch true s e with Some (s', _) => run_with max_pfn chs' s' r | None => None end
  | _ :: _, [] => None
  end.

(* with the same oracle for every event it is Replay.run *)
Lemma run_with_repeat max_pfn ch : forall evs s,
  run_with max_pfn (repeat ch (length evs)) s evs = run max_pfn ch true s evs.
Proof.
  induction evs as [|e evs IH]; intros s; cbn [length repeat run_with run]; [reflexivity|].
  destruct (step max_pfn ch true s e) as [[s' o]|]; [apply IH|reflexivity].
Qed.

(* ====================================================================================== *)
(* 3. the simulation                                                                       *)
(* ====================================================================================== *)
Section Bridge.
  Variable g : geom.
  Variable policy : N -> N -> N -> pol.
  Variable max_pfn : N.
  Hypothesis WF : wf_geom g.
  Hypothesis PR : pol_refl_match policy.
  Hypothesis PT : pol_demote_trans policy.
  Variable u0 : upper.               (* the allocator before the first event *)
  Variable off0 : list N.            (* its ghost (all zero for `ustate_new u0`) *)
  Hypothesis Hfr : frames (low u0) = max_pfn.
  Hypothesis H64 : max_pfn < W64.

  Notation HF := (HF g).
  Notation lstep := (lstep g policy max_pfn).
  Notation lrun := (lrun g policy max_pfn).
  Notation oa u := (o_alloc (abs g (low u))).
  Notation ow u := (o_whole (abs g (low u))).
  Notation gx u := {| us := u; off := off0 |}.

  (* an event as a kernel trace has it (ev_ok), of an order the allocator accepts, with a valid request:
     the class is configured and the slot index, if any, is below the class's slot count *)
  Definition lev_ok (le : levent) : Prop :=
    ev_ok max_pfn (le_ev le) /\ (e_order (le_ev le) <= tord g)%nat /\
    class_slots u0 (le_class le) <> None /\ valid_req u0 (le_req le).

  (* every huge frame of a tracked block of order >= hord is allocated whole *)
  Definition whole_tracked (u : upper) (T : table) : Prop :=
    forall p F K, tget T p = Some (F, K) -> (hord g <= K)%nat ->
      forall x, F <= x < F + 2 ^ N.of_nat K -> N.testbit (ow u) (x / HF) = true.

  (* the abstract replay state with allocator state A and the bookkeeping of ls *)
  Definition absst (ls : lstate) (A : astate) : rstate :=
    mkR A (l_tab ls) (l_orph ls) (l_failed ls) (l_unknown ls) (l_reallocs ls).

  Record Rel (ls : lstate) (A : astate) : Prop := mkRel {
    R_inv : UpperInv g policy (gx (l_u ls));
    R_shape : full_shape (l_u ls) = full_shape u0;
    R_abs : Inv max_pfn (absst ls A);
    R_link : forall x, allocd A x = N.testbit (oa (l_u ls)) x;
    R_pop : popcount (oa (l_u ls)) = alen A;
    R_whole : whole_tracked (l_u ls) (l_tab ls) }.

  (* ----- validity of a request at a later state ----- *)
  Lemma shape_frames u : full_shape u = full_shape u0 -> frames (low u) = max_pfn.
  Proof. unfold full_shape. intros H. rewrite <- Hfr. congruence. Qed.

  Lemma valid_at u le : full_shape u = full_shape u0 -> lev_ok le ->
    valid_req u (le_req le) /\ class_slots u (le_class le) <> None.
  Proof.
    intros S (_ & _ & Hc & Hv). split.
    - unfold valid_req in *. destruct (r_local (le_req le)); [|exact I]. eapply idx_ok_shape; eauto.
    - rewrite class_slots_of_len in *. rewrite (class_len_of_shape u0 u _ S). exact Hc.
  Qed.

  Lemma check_ok u f rq :
    (r_order rq <= tord g)%nat -> f + pow2 (r_order rq) <= frames (low u) -> frames (low u) < W64 ->
    f mod pow2 (r_order rq) = 0 -> class_slots u (r_class rq) <> None -> check g u f rq = Ok tt.
  Proof.
    intros H1 H2 H3 H4 H5. unfold check.
    replace (Nat.leb (r_order rq) (tord g)) with true by (symmetry; apply Nat.leb_le; exact H1). cbn [negb].
    replace ((f + pow2 (r_order rq) <? W64) && (f + pow2 (r_order rq) <=? frames (low u))) with true by lia.
    cbn [negb]. replace (f mod pow2 (r_order rq) =? 0) with true by lia. cbn [negb].
    unfold class_locals. destruct (class_slots u (r_class rq)); [reflexivity|contradiction].
  Qed.

  Lemma lift_get u rq r u' : llfree_get g policy u None rq = (r, u') ->
    ghost_lift (fun u => llfree_get g policy u None rq) (gx u) = (r, gx u').
  Proof. intros E. unfold ghost_lift. cbn [us off]. rewrite E. reflexivity. Qed.
  Lemma lift_put u f rq r u' : llfree_put g policy u f rq = (r, u') ->
    ghost_lift (fun u => llfree_put g policy u f rq) (gx u) = (r, gx u').
  Proof. intros E. unfold ghost_lift. cbn [us off]. rewrite E. reflexivity. Qed.

  Lemma get_shape u rq r u' : llfree_get g policy u None rq = (r, u') -> full_shape u' = full_shape u.
  Proof.
    intros E. pose proof (gstep_shape g policy (gx u) (OGet None rq)) as S. cbn [gstep] in S.
    rewrite (lift_get _ _ _ _ E) in S. exact S.
  Qed.
  Lemma put_shape u f rq r u' : llfree_put g policy u f rq = (r, u') -> full_shape u' = full_shape u.
  Proof.
    intros E. pose proof (gstep_shape g policy (gx u) (Handoff.OPut f rq)) as S. cbn [gstep] in S.
    rewrite (lift_put _ _ _ _ _ E) in S. exact S.
  Qed.

  Lemma HF_is : HF = 2 ^ N.of_nat (hord g).
  Proof. reflexivity. Qed.

  Lemma mod_HF F K : (hord g <= K)%nat -> F mod 2 ^ N.of_nat K = 0 -> F mod HF = 0.
  Proof. intros H E. rewrite HF_is. eapply mod_pow2_le; eauto. Qed.
  Lemma pow_mod_HF K : (hord g <= K)%nat -> 2 ^ N.of_nat K mod HF = 0.
  Proof. intros H. apply (pow2_mod (hord g) K H). Qed.
  Lemma pow_split_HF K : (hord g <= K)%nat -> 2 ^ N.of_nat K = pow2 (K - hord g) * HF.
  Proof. intros H. apply (AbsLemmas.pow2_split (hord g) K H). Qed.

  (* ----- the initial state ----- *)
  Lemma Rel_init : UpperInv g policy (gx u0) -> oa u0 = 0 -> Rel (linit u0) [].
  Proof.
    intros HI H0. constructor; cbn [linit l_u l_tab l_orph].
    - exact HI.
    - reflexivity.
    - exact (Inv_init max_pfn).
    - intros x. rewrite H0, N.bits_0. reflexivity.
    - rewrite H0. reflexivity.
    - intros p F K H. discriminate.
  Qed.

  (* ----- allocation events ----- *)
  Lemma lstep_alloc ls A le ls' o : Rel ls A -> lev_ok le -> e_alloc (le_ev le) = true ->
    lstep ls le = Some (ls', o) ->
    exists f c,
      let k := e_order (le_ev le) in
      llfree_get g policy (l_u ls) None (le_req le) = (Ok (f, c), l_u ls') /\
      o = OAlloc f k /\
      step max_pfn (pick max_pfn f k) true (absst ls A) (le_ev le) = Some (absst ls' ((f, f + 2 ^ N.of_nat k) :: A), o) /\
      Rel ls' ((f, f + 2 ^ N.of_nat k) :: A) /\
      spec_get_enabled (abs g (low (l_u ls))) f k = true /\
      abs g (low (l_u ls')) = spec_get g (abs g (low (l_u ls))) f k.
  Proof.
    intros HR Hev Ha Hs. destruct HR as [HI HS HA HL HP HW].
    destruct (valid_at _ _ HS Hev) as (Hv & Hc). pose proof (shape_frames _ HS) as Hf.
    pose proof Hev as (Hev1 & Hord & _).
    unfold ReplayLLFree.lstep in Hs. cbv zeta in Hs. rewrite Ha in Hs.
    destruct (llfree_get g policy (l_u ls) None (le_req le)) as [r u'] eqn:G.
    destruct r as [[f c]|e|st]; try discriminate.
    destruct (tab_step max_pfn (l_tab ls, l_orph ls) (le_ev le) f) as [[[T' orph'] [re| |a0 F0 K0]]|] eqn:TS; try discriminate.
    injection Hs as <- <-. cbn [l_u].
    destruct (get_step g policy WF PR PT _ _ _ _ _ HI Hv (lift_get _ _ _ _ G)) as (_ & HI' & GS).
    unfold get_step_ok in GS. cbn [us off le_req r_order] in GS. destruct GS as (_ & En & Eabs & _).
    set (k := e_order (le_ev le)) in *.
    pose proof En as En'. apply spec_get_enabled_spec in En'. cbn [abs o_frames] in En'. rewrite Hf in En'.
    unfold pow2 in En'. destruct En' as (Eal & Ern & Efree).
    assert (PS : pick max_pfn f k A k = Some f).
    { apply pick_some; [exact Eal|exact Ern|exact (I_ne _ _ HA)|]. intros x Hx. rewrite HL. apply Efree. exact Hx. }
    assert (ST : step max_pfn (pick max_pfn f k) true (absst ls A) (le_ev le) =
                 Some (absst (mkL u' T' orph' (l_failed ls) (l_unknown ls) (l_reallocs ls + (if re then 1 else 0)))
                             ((f, f + 2 ^ N.of_nat k) :: A), OAlloc f k)).
    { unfold step. rewrite Ha. unfold aget. cbn [absst r_alloc r_tab r_orph r_failed r_unknown r_reallocs].
      fold k. rewrite PS, TS. reflexivity. }
    exists f, c. cbv zeta. split; [reflexivity|]. split; [reflexivity|]. split; [exact ST|].
    destruct (step_alloc max_pfn _ (pick_ok max_pfn f k) true _ _ _ _ HA Hev1 Ha ST)
      as (HA' & f' & Eo & _ & _ & Tg & To & _).
    injection Eo as Eo. subst f'.
    cbn [absst r_tab l_tab] in Tg, To. fold k in Tg.
    split; [|split; [exact En|exact Eabs]].
    constructor; cbn [l_u l_tab l_orph].
    - exact HI'.
    - rewrite (get_shape _ _ _ _ G). exact HS.
    - exact HA'.
    - intros x. rewrite Eabs, spec_get_alloc_testbit, <- HL. cbn [allocd existsb]. unfold inI. cbn [fst snd].
      unfold pow2. fold (allocd A x). apply orb_comm.
    - rewrite Eabs. cbn [spec_get o_alloc].
      rewrite popcount_lor_disjoint, popcount_blk.
      + cbn [alen fold_right fst snd]. fold (alen A). rewrite HP. unfold pow2. lia.
      + apply land_blk_zero. intros i Hi. apply Efree. unfold pow2 in Hi. exact Hi.
    - intros p F K Hg HK x Hx. rewrite Eabs, spec_get_whole_testbit.
      destruct (N.eq_dec p (e_pfn (le_ev le))) as [->|Hp].
      + rewrite Tg in Hg. injection Hg as <- <-. apply orb_true_iff. right.
        replace (Nat.leb (hord g) k) with true by (symmetry; apply Nat.leb_le; exact HK). cbn [andb].
        pose proof (blk_huge_in HF f (2 ^ N.of_nat k) x (HF_pos g) (mod_HF f k HK Eal) (pow_mod_HF k HK) Hx) as (B1 & B2).
        rewrite (pow_split_HF k HK) in B2.
        pose proof (aligned_mul f HF (HF_nz g) (mod_HF f k HK Eal)) as Ef.
        rewrite Ef in B1 at 1. rewrite Ef in B2 at 1.
        pose proof (huge_range_of HF (f / HF) (pow2 (k - hord g)) (x / HF) (HF_pos g) B1 B2) as Hr.
        clear - Hr. lia.
      + rewrite (To p Hp) in Hg. rewrite (HW p F K Hg HK x Hx). reflexivity.
  Qed.

  (* ----- free events inside a tracked allocation ----- *)
  Lemma lstep_free ls A le a F K : Rel ls A -> lev_ok le -> e_alloc (le_ev le) = false ->
    find_alloc max_pfn (look (l_tab ls)) (e_pfn (le_ev le)) (e_order (le_ev le)) = Some (Some a) ->
    tget (l_tab ls) a = Some (F, K) ->
    let e := le_ev le in let k := e_order e in let sz := 2 ^ N.of_nat k in let f := F + (e_pfn e - a) in
    exists u' T' orph' A',
      let ls' := mkL u' T' orph' (l_failed ls) (l_unknown ls) (l_reallocs ls) in
      llfree_put g policy (l_u ls) f (le_req le) = (Ok tt, u') /\
      lstep ls le = Some (ls', OPut f k true) /\
      step max_pfn (first_fit max_pfn) true (absst ls A) e = Some (absst ls' A', OPut f k true) /\
      Rel ls' A' /\
      spec_put_enabled g (abs g (low (l_u ls))) f k = true /\
      abs g (low u') = spec_put g (abs g (low (l_u ls))) f k /\
      (k <= K)%nat /\ a <= e_pfn e /\ e_pfn e + sz <= a + 2 ^ N.of_nat K /\
      f mod sz = 0 /\ f + sz <= F + 2 ^ N.of_nat K /\
      alen A' + sz = alen A /\
      tget T' (e_pfn e) = None /\
      (forall j, j < 2 ^ N.of_nat (K - k) -> a + j * sz <> e_pfn e -> tget T' (a + j * sz) = Some (F + j * sz, k)) /\
      (forall q, (forall j, j < 2 ^ N.of_nat (K - k) -> q <> a + j * sz) -> tget T' q = tget (l_tab ls) q).
  Proof.
    intros HR Hev Ha Hfa Hg e k sz f. destruct HR as [HI HS HA HL HP HW].
    destruct (valid_at _ _ HS Hev) as (Hv & Hc). pose proof (shape_frames _ HS) as Hf.
    pose proof Hev as (Hev1 & Hord & _).
    destruct (step_free max_pfn (first_fit max_pfn) (absst ls A) e a F K HA Hev1 Ha Hfa Hg)
      as (s' & Hs & HA' & H1 & H2 & H3 & H4 & H5 & H6 & H7 & H8 & H9 & H10 & H11 & _ & _).
    fold e k sz f in Hs, H1, H2, H3, H4, H5, H6, H7, H8, H9, H10, H11.
    cbn [absst r_alloc r_tab] in H6, H7, H8, H10, H11.
    destruct (I_twf _ _ HA a (F, K) Hg) as (WF1 & WF2 & _). unfold bsize in WF1, WF2. cbn [fst snd] in WF1, WF2.
    (* shape of s' *)
    pose proof Hs as Hs0. unfold step in Hs0. fold e in Ha. rewrite Ha in Hs0.
    cbn [absst r_alloc r_tab r_orph r_failed r_unknown r_reallocs] in Hs0.
    destruct (tab_step max_pfn (l_tab ls, l_orph ls) e 0) as [[[T' orph'] [re| |a0 F0 K0]]|] eqn:TS; try discriminate.
    cbv zeta in Hs0. fold k in Hs0.
    destruct (aput max_pfn A (F0 + (e_pfn e - a0)) k) as [st'|] eqn:AP; [|discriminate].
    injection Hs0 as Es Ef. subst s'. cbn [r_alloc r_tab] in H7, H8, H9, H10, H11.
    (* the put *)
    assert (Hpos : 0 < sz) by apply ReplayProofs.pow2_pos.
    destruct (llfree_put g policy (l_u ls) f (le_req le)) as [r u'] eqn:P.
    assert (CK : check g (l_u ls) f (le_req le) = Ok tt).
    { apply check_ok; cbn [le_req r_order r_class]; fold e k; unfold pow2; fold sz; try assumption; lia. }
    destruct (put_step g policy WF _ _ _ _ _ HI Hv (lift_put _ _ _ _ _ P)) as (_ & HI' & PSO).
    unfold put_step_ok in PSO. cbn [us off] in PSO. rewrite CK in PSO. cbn [le_req r_order] in PSO. fold e k in PSO.
    destruct PSO as (_ & Hiff & Habs & _).
    assert (EN : spec_put_enabled g (abs g (low (l_u ls))) f k = true).
    { unfold spec_put_enabled. apply andb_true_intro. split.
      - apply all_alloc_spec. intros i Hi. rewrite <- HL. apply H6. unfold pow2 in Hi. exact Hi.
      - destruct (Nat.leb (hord g) k) eqn:HK; [|reflexivity]. apply Nat.leb_le in HK.
        apply all_whole_spec. intros h Hh.
        pose proof (aligned_mul f HF (HF_nz g) (mod_HF f k HK H4)) as Ef'.
        pose proof (pow_split_HF k HK) as Esz. fold sz in Esz. pose proof (HF_pos g) as HHp.
        rewrite <- (N.div_mul h HF (HF_nz g)).
        assert (HKK : (hord g <= K)%nat) by (clear - HK H1; lia).
        apply (HW a F K Hg HKK).
        pose proof (huge_range_in HF _ _ _ Hh) as (R1 & R2).
        assert (F <= f) by (clear; unfold f; lia).
        clear - R1 R2 Ef' Esz HHp H5 H. lia. }
    apply Hiff in EN as Er. subst r. specialize (Habs eq_refl).
    exists u', T', orph', st'. cbv zeta.
    split; [reflexivity|].
    split.
    { unfold ReplayLLFree.lstep. cbv zeta. fold e. rewrite Ha, TS. fold k. rewrite Ef, P. reflexivity. }
    split; [exact Hs|].
    assert (Eal : forall x, allocd st' x = allocd A x && negb ((f <=? x) && (x <? f + sz))).
    { intros x. rewrite H7. apply allocd_aremove. }
    split.
    { constructor; cbn [l_u l_tab l_orph].
      - exact HI'.
      - rewrite (put_shape _ _ _ _ _ P). exact HS.
      - exact HA'.
      - intros x. rewrite Habs, spec_put_alloc_testbit, <- HL, Eal. unfold pow2. reflexivity.
      - rewrite Habs. cbn [spec_put o_alloc].
        pose proof (popcount_ldiff_blk (oa (l_u ls)) f (pow2 k)) as PC.
        rewrite PC in HP by (intros i Hi; rewrite <- HL; apply H6; unfold pow2 in Hi; exact Hi).
        unfold pow2 in HP |- *. clear - HP H8. subst sz. lia.
      - intros q F1 K1 Hg1 HK1 x Hx. rewrite Habs, spec_put_whole_testbit.
        destruct (I_twf _ _ HA' q (F1, K1)) as (W1 & _); [cbn [absst r_tab l_tab]; exact Hg1|].
        unfold bsize in W1. cbn [fst snd] in W1.
        pose proof (blk_huge_in HF F1 (2 ^ N.of_nat K1) x (HF_pos g) (mod_HF F1 K1 HK1 W1) (pow_mod_HF K1 HK1) Hx) as (B1 & B2).
        pose proof (HF_pos g) as HHp.
        (* the bit was set before *)
        assert (Wold : N.testbit (ow (l_u ls)) (x / HF) = true).
        { destruct (part_key_dec a sz (2 ^ N.of_nat (K - k)) q Hpos) as [(j & Hj & ->)|Hno].
          - destruct (N.eq_dec (a + j * sz) (e_pfn e)) as [Eq|Nq]; [rewrite Eq, H9 in Hg1; discriminate|].
            rewrite (H10 j Hj Nq) in Hg1. injection Hg1 as <- <-.
            assert (HKK : (hord g <= K)%nat) by (clear - HK1 H1; lia).
            apply (HW a F K Hg HKK).
            pose proof (part_le j _ sz Hj) as PL. unfold sz in PL at 3. rewrite <- (ReplayProofs.pow2_split k K H1) in PL.
            fold sz in Hx. clear - Hx PL. lia.
          - rewrite (H11 q Hno) in Hg1. exact (HW q F1 K1 Hg1 HK1 x Hx). }
        rewrite Wold. cbn [andb]. apply negb_true_iff.
        (* a frame y of the freed block inside the tracked block would still be allocated *)
        assert (No : forall y, f <= y < f + sz -> F1 <= y < F1 + 2 ^ N.of_nat K1 -> False).
        { intros y Hy1 Hy2.
          assert (T : allocd st' y = true).
          { apply (tracked_allocd max_pfn _ q (F1, K1) y HA'); [cbn [absst r_tab l_tab]; exact Hg1|].
            unfold inb, bsize. cbn [fst snd]. lia. }
          rewrite Eal in T. lia. }
        destruct (Nat.leb (hord g) k) eqn:HK.
        + apply Nat.leb_le in HK.
          destruct ((f / HF <=? x / HF) && (x / HF <? f / HF + pow2 (k - hord g))) eqn:In; [|reflexivity]. exfalso.
          pose proof (aligned_mul f HF (HF_nz g) (mod_HF f k HK H4)) as Ef'.
          pose proof (pow_split_HF k HK) as Esz. fold sz in Esz.
          pose proof (huge_range_in HF (f / HF) (pow2 (k - hord g)) (x / HF) ltac:(clear - In; lia)) as (R1 & R2).
          apply (No (x / HF * HF)); [clear - R1 R2 Ef' Esz HHp; lia|clear - B1 B2 HHp; lia].
        + destruct (x / HF =? f / HF) eqn:In; [|reflexivity]. exfalso.
          assert (Eh : x / HF = f / HF) by (clear - In; lia).
          pose proof (div_mul_bounds f HF HHp) as Bf. rewrite <- Eh in Bf.
          apply (No f); [clear - Hpos; lia|clear - Bf B1 B2; lia]. }
    split; [exact EN|]. split; [exact Habs|].
    repeat split; assumption.
  Qed.

  (* ----- free events of unknown blocks ----- *)
  Lemma lstep_unknown ls le : e_alloc (le_ev le) = false ->
    find_alloc max_pfn (look (l_tab ls)) (e_pfn (le_ev le)) (e_order (le_ev le)) = Some None ->
    lstep ls le = Some (mkL (l_u ls) (l_tab ls) (l_orph ls) (l_failed ls) (l_unknown ls + 1) (l_reallocs ls), OUnknown).
  Proof.
    intros Ha Hf. unfold ReplayLLFree.lstep, tab_step. cbv zeta. rewrite Ha. cbn [fst snd]. rewrite Hf. reflexivity.
  Qed.

  (* ----- every step is a step of the abstract loop, under an oracle satisfying choose_ok ----- *)
  Lemma lstep_sim ls A le ls' o : Rel ls A -> lev_ok le -> lstep ls le = Some (ls', o) ->
    exists ch A', choose_ok max_pfn ch /\
      step max_pfn ch true (absst ls A) (le_ev le) = Some (absst ls' A', o) /\ Rel ls' A'.
  Proof.
    intros HR Hev Hs. destruct (e_alloc (le_ev le)) eqn:Ha.
    - destruct (lstep_alloc ls A le ls' o HR Hev Ha Hs) as (f & c & H). cbv zeta in H.
      destruct H as (_ & _ & ST & HR' & _).
      exists (pick max_pfn f (e_order (le_ev le))), ((f, f + 2 ^ N.of_nat (e_order (le_ev le))) :: A).
      split; [apply pick_ok|]. split; assumption.
    - pose proof Hev as (Hev1 & _).
      destruct (free_cases max_pfn (absst ls A) (le_ev le) (R_abs _ _ HR) Hev1) as [Hf|(a & F & K & Hf & Hg)];
        cbn [absst r_tab] in *.
      + rewrite (lstep_unknown ls le Ha Hf) in Hs. injection Hs as <- <-.
        exists (first_fit max_pfn), A. split; [apply first_fit_ok|].
        pose proof (step_unknown max_pfn (first_fit max_pfn) true (absst ls A) (le_ev le) Ha Hf) as SU.
        split; [exact SU|].
        destruct HR as [HI HS HA HL HP HW]. constructor; cbn [l_u l_tab l_orph]; try assumption.
        exact (step_Inv max_pfn _ (first_fit_ok max_pfn) _ _ _ _ HA Hev1 SU).
      + destruct (lstep_free ls A le a F K HR Hev Ha Hf Hg) as (u' & T' & orph' & A' & H). cbv zeta in H.
        destruct H as (_ & Hs' & ST & HR' & _). rewrite Hs' in Hs. injection Hs as <- <-.
        exists (first_fit max_pfn), A'. split; [apply first_fit_ok|]. split; assumption.
  Qed.

  (* ----- runs: Rel and the simulation with the trace specification ----- *)
  Lemma lrun_sim : forall evs ls A t ls', Rel ls A -> Sim (absst ls A) t -> Forall lev_ok evs ->
    lrun ls evs = Some ls' ->
    exists A' t', Rel ls' A' /\ spec_run max_pfn t (map le_ev evs) = Some t' /\ Sim (absst ls' A') t'.
  Proof.
    induction evs as [|le evs IH]; intros ls A t ls' HR HSim Hev; cbn [ReplayLLFree.lrun map spec_run].
    - intros H. injection H as <-. eauto.
    - inversion Hev as [|? ? Hle Hr]; subst.
      destruct (lstep ls le) as [[ls1 o]|] eqn:E; [|discriminate]. intros Hrun.
      destruct (lstep_sim ls A le ls1 o HR Hle E) as (ch & A1 & _ & ST & HR1).
      destruct (step_sim _ _ _ _ _ _ _ _ HSim ST) as (t1 & E1 & HS1). rewrite E1.
      exact (IH ls1 A1 t1 ls' HR1 HS1 Hr Hrun).
  Qed.

  Lemma lrun_sim_with : forall evs ls A ls', Rel ls A -> Forall lev_ok evs -> lrun ls evs = Some ls' ->
    exists chs A', Forall (choose_ok max_pfn) chs /\ length chs = length evs /\
      run_with max_pfn chs (absst ls A) (map le_ev evs) = Some (absst ls' A') /\ Rel ls' A'.
  Proof.
    induction evs as [|le evs IH]; intros ls A ls' HR Hev; cbn [ReplayLLFree.lrun map].
    - intros H. injection H as <-. exists [], A. splits; auto.
    - inversion Hev as [|? ? Hle Hr]; subst.
      destruct (lstep ls le) as [[ls1 o]|] eqn:E; [|discriminate]. intros Hrun.
      destruct (lstep_sim ls A le ls1 o HR Hle E) as (ch & A1 & Hch & ST & HR1).
      destruct (IH ls1 A1 ls' HR1 Hr Hrun) as (chs & A' & H1 & H2 & H3 & H4).
      exists (ch :: chs), A'. cbn [run_with length]. rewrite ST. splits; auto.
  Qed.

  Lemma Sim_init : Sim (absst (linit u0) []) (mkS [] [] 0 0).
  Proof. constructor; reflexivity. Qed.

  (* ==================================================================================== *)
  (* 4. the theorems                                                                       *)
  (* ==================================================================================== *)
  Hypothesis HI0 : UpperInv g policy (gx u0).
  Hypothesis Hempty : oa u0 = 0.        (* nothing allocated before the first event *)

  Notation lreplay := (lreplay g policy max_pfn).
  Notation stats_free u := (Lower.free_frames (llfree_stats g u)).

  Lemma reach_Rel pre ls : Forall lev_ok pre -> lreplay u0 pre = Some ls ->
    exists A t, Rel ls A /\ trace_spec max_pfn (map le_ev pre) = Some t /\ Sim (absst ls A) t.
  Proof. intros Hpre Hrun. exact (lrun_sim pre _ [] _ ls (Rel_init HI0 Hempty) Sim_init Hpre Hrun). Qed.

  Lemma stats_alen ls A : Rel ls A -> stats_free (l_u ls) = max_pfn - alen A /\ alen A <= max_pfn.
  Proof.
    intros [HI HS HA HL HP HW].
    destruct (stats_step g policy WF _ HI) as (E & _). cbn [us] in E. rewrite E.
    unfold exact_free. cbn [abs o_frames]. rewrite (shape_frames _ HS). fold (oa (l_u ls)). rewrite HP.
    split; [reflexivity|]. destruct HA as [_ _ Hc Hne Hr _ _ _]. exact (alen_le_max max_pfn A Hc Hne Hr).
  Qed.

  (* what holds at every reachable state: the allocator invariant, and the allocated frames are exactly the
     disjoint union of the tracked and the orphaned blocks *)
  Theorem llfree_reachable pre ls : Forall lev_ok pre -> lreplay u0 pre = Some ls ->
    UpperInv g policy (gx (l_u ls)) /\ frames (low (l_u ls)) = max_pfn /\ l_failed ls = 0 /\
    (forall x, N.testbit (oa (l_u ls)) x = true <->
               exists b, In b (map snd (l_tab ls) ++ l_orph ls) /\ inb x b = true) /\
    (forall x, (length (filter (inb x) (map snd (l_tab ls) ++ l_orph ls)) <= 1)%nat) /\
    stats_free (l_u ls) + (tsum (l_tab ls) + bsum (l_orph ls)) = max_pfn.
  Proof.
    intros Hpre Hrun. destruct (reach_Rel pre ls Hpre Hrun) as (A & t & HR & _ & _).
    destruct (stats_alen ls A HR) as (Est & Hle).
    destruct HR as [HI HS HA HL HP HW]. destruct HA as [Hu Hw Hc Hne Hr Hown Hlen Hf].
    cbn [absst r_alloc r_tab r_orph r_failed] in *.
    split; [exact HI|]. split; [exact (shape_frames _ HS)|]. split; [exact Hf|].
    assert (Hown' : forall x, msum (pt x) (map snd (l_tab ls) ++ l_orph ls) = icnt x A).
    { intros x. rewrite <- Hown. unfold M. cbn [fst snd]. apply msum_app. }
    split; [|split].
    - intros x. rewrite <- HL, icnt_allocd, <- Hown'. apply pt_exists.
    - intros x. specialize (Hown' x). specialize (Hc x). rewrite pt_filter in Hown'. lia.
    - unfold held in Hlen. cbn [absst r_tab r_orph] in Hlen. lia.
  Qed.

  (* Every free event (pfn, k) found inside a tracked allocation a |-> (F, K), at any reachable state: the loop
     calls llfree_put(F + (pfn - a), k) - the traced part -, the REAL allocator model returns Ok, its ownership
     state changes by exactly spec_put (those 2^k frames, all allocated before, become free, every other frame is
     unchanged), the exact free count grows by 2^k, the named part is no longer tracked and every other part j of
     the allocation is tracked as (F + j*2^k, k). *)
  Theorem llfree_frees_traced_block pre ls le : Forall lev_ok pre -> lreplay u0 pre = Some ls ->
    lev_ok le -> e_alloc (le_ev le) = false ->
    forall a F K, find_alloc max_pfn (look (l_tab ls)) (e_pfn (le_ev le)) (e_order (le_ev le)) = Some (Some a) ->
      tget (l_tab ls) a = Some (F, K) ->
      let e := le_ev le in let k := e_order e in let sz := 2 ^ N.of_nat k in let f := F + (e_pfn e - a) in
      exists u' ls',
        llfree_put g policy (l_u ls) f (le_req le) = (Ok tt, u') /\
        lstep ls le = Some (ls', OPut f k true) /\ l_u ls' = u' /\
        (k <= K)%nat /\ a <= e_pfn e /\ e_pfn e + sz <= a + 2 ^ N.of_nat K /\
        spec_put_enabled g (abs g (low (l_u ls))) f k = true /\
        abs g (low u') = spec_put g (abs g (low (l_u ls))) f k /\
        (forall x, f <= x < f + sz -> N.testbit (oa (l_u ls)) x = true) /\
        (forall x, N.testbit (oa u') x = N.testbit (oa (l_u ls)) x && negb ((f <=? x) && (x <? f + sz))) /\
        stats_free u' = stats_free (l_u ls) + sz /\
        UpperInv g policy (gx u') /\
        tget (l_tab ls') (e_pfn e) = None /\
        (forall j, j < 2 ^ N.of_nat (K - k) -> a + j * sz <> e_pfn e ->
                   tget (l_tab ls') (a + j * sz) = Some (F + j * sz, k)) /\
        (forall q, (forall j, j < 2 ^ N.of_nat (K - k) -> q <> a + j * sz) -> tget (l_tab ls') q = tget (l_tab ls) q) /\
        l_failed ls' = 0 /\ l_unknown ls' = l_unknown ls /\ l_reallocs ls' = l_reallocs ls.
  Proof.
    intros Hpre Hrun Hev Ha a F K Hf Hg e k sz f.
    destruct (reach_Rel pre ls Hpre Hrun) as (A & t & HR & _ & _).
    destruct (lstep_free ls A le a F K HR Hev Ha Hf Hg) as (u' & T' & orph' & A' & H). cbv zeta in H.
    fold e k sz f in H.
    destruct H as (P & Hs & _ & HR' & EN & Habs & H1 & H2 & H3 & H4 & H5 & H6 & H7 & H8 & H9).
    exists u', (mkL u' T' orph' (l_failed ls) (l_unknown ls) (l_reallocs ls)). cbn [l_u l_tab l_failed l_unknown l_reallocs].
    destruct (stats_alen _ _ HR) as (S1 & L1). destruct (stats_alen _ _ HR') as (S2 & L2). cbn [l_u] in S2.
    splits; try assumption; try reflexivity.
    - intros x Hx. unfold spec_put_enabled in EN. apply andb_prop in EN. destruct EN as (EN & _).
      rewrite all_alloc_spec in EN. apply EN. unfold pow2. exact Hx.
    - intros x. rewrite Habs, spec_put_alloc_testbit. reflexivity.
    - lia.
    - exact (R_inv _ _ HR').
    - pose proof (I_failed _ _ (R_abs _ _ HR')) as Hfl. exact Hfl.
  Qed.

  (* A free event never panics and never fails: it is an unknown free (which only increments free_unkown and
     leaves the allocator alone) or a successful put. *)
  Theorem llfree_free_never_fails pre ls le : Forall lev_ok pre -> lreplay u0 pre = Some ls ->
    lev_ok le -> e_alloc (le_ev le) = false ->
    exists ls' o, lstep ls le = Some (ls', o) /\ l_failed ls' = 0 /\
      (o = OUnknown \/ exists f, o = OPut f (e_order (le_ev le)) true).
  Proof.
    intros Hpre Hrun Hev Ha. destruct (reach_Rel pre ls Hpre Hrun) as (A & t & HR & _ & _).
    pose proof Hev as (Hev1 & _).
    destruct (free_cases max_pfn (absst ls A) (le_ev le) (R_abs _ _ HR) Hev1) as [Hf|(a & F & K & Hf & Hg)];
      cbn [absst r_tab] in *.
    - rewrite (lstep_unknown ls le Ha Hf). eexists _, _. split; [reflexivity|]. cbn [l_failed].
      split; [exact (I_failed _ _ (R_abs _ _ HR))|left; reflexivity].
    - destruct (lstep_free ls A le a F K HR Hev Ha Hf Hg) as (u' & T' & orph' & A' & H). cbv zeta in H.
      destruct H as (_ & Hs & _ & HR' & _). rewrite Hs. eexists _, _. split; [reflexivity|].
      split; [exact (I_failed _ _ (R_abs _ _ HR'))|right; eauto].
  Qed.

  Theorem llfree_unknown_free ls le : e_alloc (le_ev le) = false ->
    find_alloc max_pfn (look (l_tab ls)) (e_pfn (le_ev le)) (e_order (le_ev le)) = Some None ->
    exists ls', lstep ls le = Some (ls', OUnknown) /\
      l_u ls' = l_u ls /\ l_tab ls' = l_tab ls /\ l_orph ls' = l_orph ls /\
      l_failed ls' = l_failed ls /\ l_unknown ls' = l_unknown ls + 1 /\ l_reallocs ls' = l_reallocs ls.
  Proof. intros Ha Hf. rewrite (lstep_unknown ls le Ha Hf). eexists. split; [reflexivity|]. cbn. repeat split. Qed.

  (* At the end of any trace: `stats().free_frames` of the real allocator model is max_pfn minus what the trace
     holds - the tracked blocks plus the orphaned blocks, both functions of the trace alone (trace_spec) -, no
     free failed, the counters agree. *)
  Theorem llfree_final_count evs ls : Forall lev_ok evs -> lreplay u0 evs = Some ls ->
    exists t, trace_spec max_pfn (map le_ev evs) = Some t /\
      let tracked := tsum (s_tab t) in let orphaned := bsum (s_orph t) in
      trace_held max_pfn (map le_ev evs) = Some (tracked + orphaned) /\
      tracked + orphaned <= max_pfn /\
      stats_free (l_u ls) = max_pfn - (tracked + orphaned) /\
      exact_free (abs g (low (l_u ls))) = max_pfn - (tracked + orphaned) /\
      l_failed ls = 0 /\ l_unknown ls = s_unknown t /\ l_reallocs ls = s_reallocs t /\
      tsum (l_tab ls) = tracked /\ bsum (l_orph ls) = orphaned /\
      UpperInv g policy (gx (l_u ls)).
  Proof.
    intros Hev Hrun. destruct (reach_Rel evs ls Hev Hrun) as (A & t & HR & Ht & HSim).
    exists t. split; [exact Ht|]. intros tracked orphaned.
    destruct (stats_alen ls A HR) as (Est & Hle).
    pose proof (stats_step g policy WF _ (R_inv _ _ HR)) as (Eex & _). cbn [us] in Eex.
    destruct HSim as [S1 S2 S3 S4]. cbn [absst r_tab r_orph r_unknown r_reallocs] in *.
    pose proof (R_inv _ _ HR) as HI.
    destruct (R_abs _ _ HR) as [_ _ _ _ _ _ Hlen Hf]. unfold held in Hlen. cbn [absst r_alloc r_tab r_orph r_failed] in *.
    assert (E1 : tsum (l_tab ls) = tracked) by (apply msum_proj; assumption).
    assert (E2 : bsum (l_orph ls) = orphaned) by (apply bsum_osim; assumption).
    rewrite E1, E2 in Hlen.
    splits; try assumption.
    - unfold trace_held. rewrite Ht. reflexivity.
    - lia.
    - lia.
    - rewrite <- Eex. lia.
  Qed.

  (* the simulation, stated for reachable states *)
  Theorem llfree_step_simulated pre ls le ls' o : Forall lev_ok pre -> lreplay u0 pre = Some ls ->
    lev_ok le -> lstep ls le = Some (ls', o) ->
    exists A A' ch, choose_ok max_pfn ch /\
      step max_pfn ch true (absst ls A) (le_ev le) = Some (absst ls' A', o) /\
      Inv max_pfn (absst ls A) /\ Inv max_pfn (absst ls' A') /\
      (forall x, allocd A x = N.testbit (oa (l_u ls)) x) /\
      (forall x, allocd A' x = N.testbit (oa (l_u ls')) x).
  Proof.
    intros Hpre Hrun Hev Hs. destruct (reach_Rel pre ls Hpre Hrun) as (A & t & HR & _ & _).
    destruct (lstep_sim ls A le ls' o HR Hev Hs) as (ch & A' & Hch & ST & HR').
    exists A, A', ch. splits; auto; try apply R_abs; try apply R_link; assumption.
  Qed.

  (* the simulation of a whole run: the abstract loop, given for each event an oracle satisfying choose_ok,
     reaches the state with the same table / orphans / counters whose allocated set is the real model's *)
  Theorem llfree_run_simulated evs ls : Forall lev_ok evs -> lreplay u0 evs = Some ls ->
    exists chs A, Forall (choose_ok max_pfn) chs /\ length chs = length evs /\
      run_with max_pfn chs init (map le_ev evs) = Some (absst ls A) /\
      Inv max_pfn (absst ls A) /\
      (forall x, allocd A x = N.testbit (oa (l_u ls)) x) /\
      Replay.free_frames max_pfn A = stats_free (l_u ls).
  Proof.
    intros Hev Hrun.
    destruct (lrun_sim_with evs _ [] ls (Rel_init HI0 Hempty) Hev Hrun) as (chs & A & H1 & H2 & H3 & HR).
    exists chs, A. destruct (stats_alen ls A HR) as (Est & _).
    splits; auto; try apply R_abs; try apply R_link; try assumption.
  Qed.
End Bridge.

(* ====================================================================================== *)
(* 5. from the state built by LLFree::new(max_pfn, Init::FreeAll, classing)                 *)
(* ====================================================================================== *)
(* `llfree_new` in mode FreeAll (replay.rs line 99) yields a state satisfying the hypotheses of section 4:
   any classing with ids < 8 and a configured default class, a local buffer without reservations *)
Theorem llfree_new_start g policy : wf_geom g ->
  forall fr classing d lbuf tbuf sbuf,
    Forall (fun s => s_pres s = false) sbuf ->
    (forall c k, In (c, k) classing -> c < 8) ->
    (exists k, In (d, k) classing) ->
    exists u0, llfree_new g fr IFreeAll classing d lbuf tbuf sbuf = Ok u0 /\
      UpperInv g policy (ustate_new u0) /\ frames (low u0) = fr /\ o_alloc (abs g (low u0)) = 0.
Proof.
  intros WF fr classing d lbuf tbuf sbuf Hb Hc Hd.
  destruct (init_inv g WF policy fr IFreeAll classing d lbuf tbuf sbuf I Hb Hc Hd) as (u & E & HI & Hl & Hf & _).
  exists u. splits; auto. rewrite Hl. cbn [lower_new]. apply (free_all_alloc g WF).
Qed.

Theorem llfree_final_count_new g policy :
  wf_geom g -> pol_refl_match policy -> pol_demote_trans policy ->
  forall max_pfn classing d lbuf tbuf sbuf,
    max_pfn < W64 ->
    Forall (fun s => s_pres s = false) sbuf ->
    (forall c k, In (c, k) classing -> c < 8) ->
    (exists k, In (d, k) classing) ->
    exists u0, llfree_new g max_pfn IFreeAll classing d lbuf tbuf sbuf = Ok u0 /\
      forall evs ls, Forall (lev_ok g max_pfn u0) evs -> lreplay g policy max_pfn u0 evs = Some ls ->
        exists t, trace_spec max_pfn (map le_ev evs) = Some t /\
          let tracked := tsum (s_tab t) in let orphaned := bsum (s_orph t) in
          trace_held max_pfn (map le_ev evs) = Some (tracked + orphaned) /\
          tracked + orphaned <= max_pfn /\
          Lower.free_frames (llfree_stats g (l_u ls)) = max_pfn - (tracked + orphaned) /\
          exact_free (abs g (low (l_u ls))) = max_pfn - (tracked + orphaned) /\
          l_failed ls = 0 /\ l_unknown ls = s_unknown t /\ l_reallocs ls = s_reallocs t /\
          tsum (l_tab ls) = tracked /\ bsum (l_orph ls) = orphaned /\
          UpperInv g policy {| us := l_u ls; off := repeat 0 (length (trees u0)) |}.
Proof.
  intros WF PR PT max_pfn classing d lbuf tbuf sbuf H64 Hb Hc Hd.
  destruct (llfree_new_start g policy WF max_pfn classing d lbuf tbuf sbuf Hb Hc Hd) as (u0 & E & HI & Hf & H0).
  exists u0. split; [exact E|]. intros evs ls Hev Hrun.
  exact (llfree_final_count g policy max_pfn WF PR PT u0 _ Hf H64 HI H0 evs ls Hev Hrun).
Qed.

(* ====================================================================================== *)
(* 6. non-vacuity                                                                          *)
(* ====================================================================================== *)
(* the hypothesis on events, as a boolean *)
Definition lev_okb (g : geom) (max_pfn : N) (u0 : upper) (le : levent) : bool :=
  ev_okb max_pfn (le_ev le) && Nat.leb (e_order (le_ev le)) (tord g) &&
  match class_slots u0 (le_class le) with
  | None => false
  | Some l => match le_local le with Some j => j <? N.of_nat (length l) | None => true end
  end.

Lemma lev_okb_ok g max_pfn u0 le : lev_okb g max_pfn u0 le = true -> lev_ok g max_pfn u0 le.
Proof.
  unfold lev_okb, lev_ok. intros H. apply andb_prop in H. destruct H as (H & H3).
  apply andb_prop in H. destruct H as (H1 & H2).
  split; [apply ev_okb_ok; exact H1|]. split; [apply Nat.leb_le; exact H2|].
  destruct (class_slots u0 (le_class le)) as [l|] eqn:E; [|discriminate].
  split; [discriminate|]. unfold valid_req, idx_ok. cbn [le_req r_local r_class].
  destruct (le_local le) as [j|]; [|exact I]. intros l' E'. rewrite E in E'. injection E' as <-. lia.
Qed.

(* geometry 7/1 (huge frame = 128 frames, tree = 256 frames), 1024 frames, classes 0 and 1 with one slot each,
   the Simple policy.  The trace allocates a whole tree (order 8 > hord), frees its upper huge frame (a part of
   order hord: the covered huge frame must be allocated whole), then 64 frames inside the remaining huge frame
   (a part of order < hord: splits the huge frame); an order-0 block is allocated at pfn 0 and re-allocated at
   order 2 (the first block is orphaned), the upper half of it is freed; the last free names an unknown block.
   The trace still holds 64 + 2 tracked and 1 orphaned frames. *)
Definition ex_g : geom := {| hord := 7; tlog := 1 |}.
Definition ex_pol := pol_simple 256.
Definition ex_u0 : upper :=
  match llfree_new ex_g 1024 IFreeAll [(0, 1); (1, 1)] 1 (free_all ex_g 1024) [] (repeat slot_none 2) with
  | Ok u => u
  | _ => {| low := free_all ex_g 0; trees := []; locals := []; dflt := 0 |}
  end.
Definition ex_trace : list levent :=
  [mkLev (mkEv true 256 8) 1 (Some 0); mkLev (mkEv false 384 7) 1 (Some 0); mkLev (mkEv false 320 6) 0 None;
   mkLev (mkEv true 0 0) 0 (Some 0); mkLev (mkEv true 0 2) 0 (Some 0); mkLev (mkEv false 2 1) 1 None;
   mkLev (mkEv false 900 0) 1 None].

Example llfree_replay_example :
  wf_geom ex_g /\ pol_refl_match ex_pol /\ pol_demote_trans ex_pol /\
  llfree_new ex_g 1024 IFreeAll [(0, 1); (1, 1)] 1 (free_all ex_g 1024) [] (repeat slot_none 2) = Ok ex_u0 /\
  Forall (lev_ok ex_g 1024 ex_u0) ex_trace /\
  lrun_log ex_g ex_pol 1024 (linit ex_u0) ex_trace =
    Some [OAlloc 0 8; OPut 128 7 true; OPut 64 6 true; OAlloc 768 0; OAlloc 772 2; OPut 774 1 true; OUnknown] /\
  option_map (lresult ex_g) (lreplay ex_g ex_pol 1024 ex_u0 ex_trace) = Some (957, 0, 1, 1) /\
  trace_held 1024 (map le_ev ex_trace) = Some 67.
Proof.
  split; [unfold wf_geom, ex_g; cbn; lia|].
  split; [apply pol_simple_facts|]. split; [apply pol_simple_facts|].
  split; [vm_compute; reflexivity|].
  split; [repeat (apply Forall_cons; [apply lev_okb_ok; vm_compute; reflexivity|]); apply Forall_nil|].
  split; [vm_compute; reflexivity|]. split; vm_compute; reflexivity.
Qed.

(* the hypotheses on the policy hold for the built-in policies (Simple, Movable, Zeroed, ZeroSlot) *)
Theorem builtin_policy_hyps p TFv : builtin_policy p TFv -> pol_refl_match p /\ pol_demote_trans p.
Proof. intros H. destruct (builtin_facts _ _ H) as (A & _ & B & _). split; assumption. Qed.
