(* Generic lemmas for SoloRun.v (a call run alone on the small-step machine M1 is the big-step function):
   list updates, the all-or-nothing multi-CAS (`cas_all` / `toggle_rows`) as a block fill, the narrow-lane
   bit identities of `Bitfield::toggle`, powers of two and index arithmetic; then the solo-run machinery:
   `solo_fuel`, the states `st l P H t x`, the step closure `runs`, and the generic all-or-nothing multi-CAS
   loop with rollback (`mc_run`).  Stdlib only. *)
From Coq Require Import PeanoNat ZArith ZifyN ZifyBool.
From LLF Require Import Base BitLemmas Row RowProofs Bitfield Lower Spec LowerMachine.

(* ---------- lists ---------- *)
Lemma sr_list_ext {A} (l1 l2 : list A) : (forall j, nth_error l1 j = nth_error l2 j) -> l1 = l2.
Proof.
  revert l2; induction l1 as [|a r IH]; destruct l2 as [|b r2]; intros H; auto.
  - specialize (H O); discriminate.
  - specialize (H O); discriminate.
  - f_equal. { specialize (H O). cbn in H. congruence. }
    apply IH. intros j. apply (H (S j)).
Qed.

Lemma sr_nth_upd {A} (l : list A) i j x :
  nth_error (upd l i x) j = if Nat.eqb i j then (if Nat.ltb i (length l) then Some x else None) else nth_error l j.
Proof.
  destruct (Nat.eqb_spec i j) as [<-|Hne].
  - destruct (Nat.ltb_spec i (length l)).
    + apply nth_error_upd_same; assumption.
    + rewrite upd_oob by assumption. apply nth_error_None. assumption.
  - apply nth_error_upd_other; assumption.
Qed.

Lemma sr_some_lt {A} (l : list A) i x : nth_error l i = Some x -> (i < length l)%nat.
Proof. intros H. apply nth_error_Some. congruence. Qed.

Lemma sr_upd_upd {A} (l : list A) i x y : upd (upd l i x) i y = upd l i y.
Proof. revert i; induction l; destruct i; cbn [upd]; auto. f_equal; auto. Qed.

Lemma sr_upd_same {A} (l : list A) i x : nth_error l i = Some x -> upd l i x = l.
Proof. revert i; induction l; destruct i; cbn [upd nth_error]; intros H; try discriminate; [congruence|f_equal; auto]. Qed.

Lemma sr_upd_restore {A} (l : list A) i x y : nth_error l i = Some x -> upd (upd l i y) i x = l.
Proof. intros H. rewrite sr_upd_upd. apply sr_upd_same, H. Qed.

Lemma sr_Forall_nth {A} (P : A -> Prop) l t x : Forall P l -> nth_error l t = Some x -> P x.
Proof. intros H; revert t; induction H; destruct t; cbn [nth_error]; intros E; try discriminate;
  [inversion E; subst; auto|eauto]. Qed.

Lemma sr_Forall_upd {A} (P : A -> Prop) l t x : Forall P l -> P x -> Forall P (upd l t x).
Proof. intros H; revert t; induction H; destruct t; cbn [upd]; intros; constructor; auto. Qed.

(* ---------- the multi-CAS as a block fill ---------- *)
Fixpoint fill (es : list N) (a n : nat) (v : N) : list N :=
  match n with O => es | S n' => fill (upd es a v) (S a) n' v end.

Lemma fill_length es a n v : length (fill es a n v) = length es.
Proof. revert es a; induction n; intros; cbn [fill]; auto. rewrite IHn. apply upd_length. Qed.

Lemma fill_nth es a n v i :
  nth_error (fill es a n v) i =
  if (Nat.leb a i && Nat.ltb i (a + n) && Nat.ltb i (length es))%bool then Some v else nth_error es i.
Proof.
  revert es a; induction n; intros es a; cbn [fill].
  - destruct (Nat.leb_spec a i), (Nat.ltb_spec i (a + 0)); cbn [andb]; auto; lia.
  - rewrite IHn, upd_length, sr_nth_upd.
    destruct (Nat.eqb_spec a i) as [<-|Hne].
    + destruct (Nat.ltb_spec a (length es)).
      * destruct (Nat.leb_spec (S a) a), (Nat.leb_spec a a), (Nat.ltb_spec a (a + S n)); cbn [andb]; auto; lia.
      * rewrite !Bool.andb_false_r. symmetry. apply nth_error_None. lia.
    + destruct (Nat.leb_spec (S a) i), (Nat.leb_spec a i), (Nat.ltb_spec i (S a + n)), (Nat.ltb_spec i (a + S n));
        cbn [andb]; auto; lia.
Qed.

Lemma fill_in es a n v i : (a <= i < a + n)%nat -> (i < length es)%nat -> nth_error (fill es a n v) i = Some v.
Proof.
  intros H1 H2. rewrite fill_nth.
  destruct (Nat.leb_spec a i), (Nat.ltb_spec i (a + n)), (Nat.ltb_spec i (length es)); cbn [andb]; auto; lia.
Qed.
Lemma fill_out es a n v i : (i < a \/ a + n <= i)%nat -> nth_error (fill es a n v) i = nth_error es i.
Proof.
  intros H. rewrite fill_nth.
  destruct (Nat.leb_spec a i), (Nat.ltb_spec i (a + n)); cbn [andb]; auto; lia.
Qed.

(* one more entry at the top *)
Lemma fill_snoc es a n v : upd (fill es a n v) (a + n) v = fill es a (S n) v.
Proof.
  apply sr_list_ext. intros j. rewrite sr_nth_upd, !fill_nth, fill_length.
  destruct (Nat.eqb_spec (a + n) j) as [<-|Hne].
  - destruct (Nat.ltb_spec (a + n) (length es)), (Nat.leb_spec a (a + n)), (Nat.ltb_spec (a + n) (a + S n));
      cbn [andb]; auto; try lia.
    symmetry. apply nth_error_None. lia.
  - destruct (Nat.leb_spec a j), (Nat.ltb_spec j (a + n)), (Nat.ltb_spec j (a + S n)); cbn [andb]; auto; lia.
Qed.

(* undoing the top entry of a filled block whose original entries were `cur` *)
Lemma fill_unsnoc es a n new cur :
  nth_error es (a + n) = Some cur -> upd (fill es a (S n) new) (a + n) cur = fill es a n new.
Proof.
  intros Hc. apply sr_list_ext. intros j. rewrite sr_nth_upd, !fill_nth, fill_length.
  pose proof (sr_some_lt _ _ _ Hc).
  destruct (Nat.eqb_spec (a + n) j) as [<-|Hne].
  - destruct (Nat.ltb_spec (a + n) (length es)); try lia.
    destruct (Nat.ltb_spec (a + n) (a + n)); try lia. rewrite Bool.andb_false_r. cbn [andb]. auto.
  - destruct (Nat.leb_spec a j), (Nat.ltb_spec j (a + n)), (Nat.ltb_spec j (a + S n)); cbn [andb]; auto; lia.
Qed.

Lemma fill_0 es a v : fill es a 0 v = es. Proof. reflexivity. Qed.

(* a block of entries all equal to v *)
Definition blk_is (es : list N) (a n : nat) (v : N) : Prop := forall i, (a <= i < a + n)%nat -> nth_error es i = Some v.

Lemma cas_all_fill es a n cur new :
  blk_is es a n cur -> cas_all es a n cur new = Some (fill es a n new).
Proof.
  revert es a; induction n; intros es a H; cbn [cas_all fill]; auto.
  rewrite (H a) by lia. rewrite N.eqb_refl. apply IHn.
  intros i Hi. rewrite nth_error_upd_other by lia. apply H. lia.
Qed.

(* cas_all fails at the first entry that differs *)
Lemma cas_all_fail es a n cur new q e :
  blk_is es a q cur -> (q < n)%nat -> nth_error es (a + q) = Some e -> e <> cur -> cas_all es a n cur new = None.
Proof.
  revert es a q; induction n; intros es a q H Hq He Hne; [lia|]. cbn [cas_all].
  destruct q.
  - rewrite Nat.add_0_r in He. rewrite He. destruct (N.eqb_spec e cur); congruence.
  - rewrite (H a) by lia. rewrite N.eqb_refl. apply (IHn _ _ q).
    + intros i Hi. rewrite nth_error_upd_other by lia. apply H. lia.
    + lia.
    + rewrite nth_error_upd_other by lia. rewrite <- He. f_equal. lia.
    + exact Hne.
Qed.

(* toggle_rows is cas_all on rows *)
Lemma toggle_rows_cas rows r n expected :
  toggle_rows rows r n expected =
  cas_all rows r n (if expected then MAX64 else 0) (if expected then 0 else MAX64).
Proof. revert rows r; induction n; intros; cbn [toggle_rows cas_all]; auto.
  destruct (nth_error rows r); auto. destruct (_ =? _); auto. Qed.

(* forallb over a block *)
Lemma sr_nth_skipn {A} (l : list A) a i : nth_error (skipn a l) i = nth_error l (a + i).
Proof. revert l; induction a; intros l; [reflexivity|]. destruct l; cbn [skipn]; [destruct i; reflexivity|]. apply IHa. Qed.

Lemma forallb_firstn (f : N -> bool) l n : (n <= length l)%nat ->
  forallb f (firstn n l) = true <-> (forall i, (i < n)%nat -> exists v, nth_error l i = Some v /\ f v = true).
Proof.
  revert l; induction n; intros l Hl.
  - cbn [firstn forallb]. split; auto. intros _ i Hi. lia.
  - destruct l as [|x r]; [cbn [length] in Hl; lia|]. cbn [length] in Hl.
    cbn [firstn forallb]. rewrite Bool.andb_true_iff, (IHn r) by lia. split.
    + intros (Hf & Hr) i Hi. destruct i; [cbn [nth_error]; eauto|]. apply Hr. lia.
    + intros H. split.
      * destruct (H O) as (v & Hv & Hfv); [lia|]. cbn [nth_error] in Hv. congruence.
      * intros i Hi. apply (H (S i)). lia.
Qed.

Lemma forallb_block (f : N -> bool) rows a n : (a + n <= length rows)%nat ->
  forallb f (firstn n (skipn a rows)) = true <-> (forall i, (a <= i < a + n)%nat -> exists v, nth_error rows i = Some v /\ f v = true).
Proof.
  intros Hl. rewrite forallb_firstn by (rewrite skipn_length; lia). split.
  - intros H i Hi. destruct (H (i - a)%nat) as (v & Hv & Hf); [lia|]. rewrite sr_nth_skipn in Hv.
    replace (a + (i - a))%nat with i in Hv by lia. eauto.
  - intros H i Hi. rewrite sr_nth_skipn. apply H. lia.
Qed.

(* ---------- narrow-lane identities of Bitfield::toggle ---------- *)
Lemma lane_shift_back cur a off :
  N.land cur (N.shiftl a off) = N.shiftl (N.land (N.shiftr cur off) a) off.
Proof.
  apply N.bits_inj. intros i. rewrite N.land_spec.
  destruct (N.lt_ge_cases i off) as [Hlt|Hge].
  - rewrite !N.shiftl_spec_low by assumption. apply Bool.andb_false_r.
  - rewrite !N.shiftl_spec_high' by assumption. rewrite N.land_spec, N.shiftr_spec'. f_equal. f_equal. lia.
Qed.

Lemma shiftl_inj x y off : N.shiftl x off = N.shiftl y off -> x = y.
Proof. intros H. pose proof (N.shiftr_shiftl_l x off off (N.le_refl _)) as Hx.
  pose proof (N.shiftr_shiftl_l y off off (N.le_refl _)) as Hy.
  rewrite N.sub_diag, N.shiftl_0_r in Hx, Hy. congruence. Qed.

Lemma shiftl_eq_0 x off : N.shiftl x off = 0 -> x = 0.
Proof. intros H. apply (shiftl_inj x 0 off). rewrite N.shiftl_0_l. exact H. Qed.

Lemma lane_test_zero cur w off :
  (N.land (N.shiftr cur off) (ones w) =? 0) = (N.land cur (mask64 w off) =? 0).
Proof.
  unfold mask64. rewrite lane_shift_back.
  destruct (N.eqb_spec (N.land (N.shiftr cur off) (ones w)) 0) as [->|Hn].
  - rewrite N.shiftl_0_l. reflexivity.
  - symmetry. apply N.eqb_neq. intros H. apply Hn. eapply shiftl_eq_0, H.
Qed.

Lemma lane_test_ones cur w off :
  (N.land (N.shiftr cur off) (ones w) =? ones w) = (N.land cur (mask64 w off) =? mask64 w off).
Proof.
  unfold mask64. rewrite lane_shift_back.
  destruct (N.eqb_spec (N.land (N.shiftr cur off) (ones w)) (ones w)) as [->|Hn].
  - symmetry. apply N.eqb_refl.
  - symmetry. apply N.eqb_neq. intros H. apply Hn. eapply shiftl_inj, H.
Qed.

Lemma lxor_set cur m : N.land cur m = 0 -> N.lxor cur m = N.lor cur m.
Proof. apply N.lxor_lor. Qed.

Lemma lxor_clear cur m : cur < W64 -> N.land cur m = m -> N.lxor cur m = N.land cur (not64 m).
Proof.
  intros Hc Hm. apply N.bits_inj. intros i. unfold not64. rewrite N.lxor_spec, N.land_spec, N.lxor_spec.
  assert (Hi : N.testbit m i = true -> N.testbit cur i = true).
  { intros H. rewrite <- Hm, N.land_spec in H. apply Bool.andb_true_iff in H. tauto. }
  destruct (N.lt_ge_cases i 64) as [Hlt|Hge].
  - rewrite MAX64_ones, N.ones_spec_low by assumption.
    destruct (N.testbit m i), (N.testbit cur i); auto. discriminate Hi; auto.
  - rewrite W64_pow in Hc. rewrite (testbit_high cur 64 i) in * by assumption.
    destruct (N.testbit m i); auto. discriminate Hi; auto.
Qed.

(* ---------- powers of two, geometry ---------- *)
Lemma sr_pow2_pos k : 0 < pow2 k.
Proof. unfold pow2. apply N.neq_0_lt_0, N.pow_nonzero. discriminate. Qed.
Lemma sr_pow2_add a b : pow2 (a + b) = pow2 a * pow2 b.
Proof. unfold pow2. rewrite Nat2N.inj_add, N.pow_add_r. reflexivity. Qed.
Lemma sr_pow2_split a b : (a <= b)%nat -> pow2 b = pow2 (b - a) * pow2 a.
Proof. intros H. rewrite <- sr_pow2_add. f_equal. lia. Qed.
Lemma sr_pow2_le a b : (a <= b)%nat -> pow2 a <= pow2 b.
Proof. intros H. unfold pow2. apply N.pow_le_mono_r; lia. Qed.
Lemma sr_pow2_nat k : pow2 k = N.of_nat (Nat.pow 2 k).
Proof. unfold pow2. rewrite Nat2N.inj_pow. reflexivity. Qed.
Lemma sr_pow2_6 : pow2 6 = 64. Proof. reflexivity. Qed.

Section Geom.
  Variable g : geom.
  Hypothesis wf : wf_geom g.
  Notation HF := (HF g).
  Notation TF := (TF g).
  Notation THUGE := (THUGE g).
  Notation ROWS := (ROWS g).

  Lemma sr_HF_pow2 : HF = pow2 (hord g). Proof. reflexivity. Qed.
  Lemma sr_THUGE_pow2 : THUGE = pow2 (tlog g). Proof. reflexivity. Qed.
  Lemma sr_TF_pow2 : TF = pow2 (tord g).
  Proof. unfold Bitfield.TF, tord. rewrite Nat.add_comm, sr_pow2_add. reflexivity. Qed.
  Lemma sr_ROWS_pow2 : ROWS = pow2 (hord g - 6).
  Proof. destruct wf as (H6 & _). unfold Bitfield.ROWS. rewrite sr_HF_pow2, (sr_pow2_split 6 (hord g)) by lia.
    rewrite sr_pow2_6, N.div_mul by discriminate. reflexivity. Qed.
  Lemma sr_HF_64 : HF = ROWS * 64.
  Proof. destruct wf as (H6 & _). rewrite sr_ROWS_pow2, sr_HF_pow2, (sr_pow2_split 6 (hord g)) by lia. reflexivity. Qed.
  Lemma sr_ROWS_nat : ROWS = N.of_nat (rows_nat g).
  Proof. rewrite sr_ROWS_pow2. unfold rows_nat. apply sr_pow2_nat. Qed.
  Lemma sr_THUGE_nat : THUGE = N.of_nat (thuge_nat g).
  Proof. unfold thuge_nat. apply sr_pow2_nat. Qed.
  Lemma sr_HF_pos : 0 < HF. Proof. apply sr_pow2_pos. Qed.
  Lemma sr_THUGE_pos : 0 < THUGE. Proof. apply sr_pow2_pos. Qed.
  Lemma sr_ROWS_pos : 0 < ROWS. Proof. rewrite sr_ROWS_pow2. apply sr_pow2_pos. Qed.
  Lemma sr_TF_pos : 0 < TF. Proof. rewrite sr_TF_pow2. apply sr_pow2_pos. Qed.
End Geom.

(* ---------- index arithmetic ---------- *)
Lemma sr_div_ceil_lt f a b : 0 < b -> f < a -> f / b < div_ceil a b.
Proof.
  intros Hb Hf. unfold div_ceil.
  apply N.div_lt_upper_bound; [lia|].
  pose proof (N.div_mod (a + b - 1) b ltac:(lia)) as E.
  pose proof (N.mod_lt (a + b - 1) b ltac:(lia)). lia.
Qed.

(* x and R multiples of n, x < R: the block [x, x+n) lies below R *)
Lemma sr_mult_block x R n : n <> 0 -> x mod n = 0 -> R mod n = 0 -> x < R -> x + n <= R.
Proof.
  intros Hn Hx HR Hlt.
  apply N.div_exact in Hx; [|assumption]. apply N.div_exact in HR; [|assumption].
  assert (x / n < R / n) by nia. nia.
Qed.

Lemma sr_mod_mod_div x R n : n <> 0 -> R mod n = 0 -> R <> 0 -> x mod n = 0 -> (x mod R) mod n = 0.
Proof.
  intros Hn HR HR0 Hx.
  apply N.div_exact in HR; [|assumption].
  remember (R / n) as k eqn:Ek. clear Ek. subst R.
  rewrite BitLemmas.mod_mod_mul; auto. intros ->. lia.
Qed.

(* ====== state, runs, the generic multi-CAS loop ====== *)


Fixpoint solo_fuel (g : geom) (n : nat) (s : mstate) (t : nat) (c : call) : mstate :=
  match n with
  | O => s
  | S n' => let s' := fst (mstep g s t c) in
            match nth_error (ms_pool s') t with
            | Some (TRun _ _) => solo_fuel g n' s' t c
            | _ => s'
            end
  end.

Definition mk (l : lower) (P : list thr) (H : list (N * nat)) : mstate :=
  {| ms_frames := frames l; ms_ents := ents l; ms_bfs := bfs l; ms_pool := P; ms_held := H |}.

(* the state with memory l in which thread t is x *)
Definition st (l : lower) (P : list thr) (H : list (N * nat)) (t : nat) (x : thr) : mstate :=
  mk l (upd P t x) H.

Definition fin (c : call) (l : lower) (P : list thr) (H : list (N * nat)) (t : nat) (r : res N) : mstate :=
  st l P (match c, r with
          | CGet _ o, Ok f => (f, o) :: H
          | CGetAt _ o, Ok f => (f, o) :: H
          | _, _ => H
          end) t (TIdle (Some r)).

  (* ----- N / nat index conversions ----- *)
Lemma nn_add_nat x q : nn (x + N.of_nat q) = (nn x + q)%nat. Proof. unfold nn. lia. Qed.
Lemma ltb_succ_nat q n : (N.of_nat q + 1 <? n) = Nat.ltb (S q) (nn n).
Proof. unfold nn. destruct (N.ltb_spec (N.of_nat q + 1) n), (Nat.ltb_spec (S q) (N.to_nat n)); auto; lia. Qed.
Lemma of_nat_S_eqb q : (N.of_nat (S q) =? 0) = false. Proof. apply N.eqb_neq. lia. Qed.
Lemma of_nat_S_pred q : N.of_nat (S q) - 1 = N.of_nat q. Proof. lia. Qed.
Lemma of_nat_S_add q : N.of_nat q + 1 = N.of_nat (S q). Proof. lia. Qed.


Section Solo.
  Variable g : geom.
  Hypothesis wf : wf_geom g.
  Variable P : list thr.
  Variable t : nat.
  Hypothesis Ht : (t < length P)%nat.
  Variable c0 : call.

  Lemma pool_st l H x : nth_error (ms_pool (st l P H t x)) t = Some x.
  Proof. cbn [st mk ms_pool]. apply nth_error_upd_same, Ht. Qed.
  Lemma goto_st l H x c p : goto (st l P H t x) t c p = st l P H t (TRun c p).
  Proof. unfold goto, set_thr, st, mk. cbn [ms_frames ms_ents ms_bfs ms_pool ms_held]. rewrite sr_upd_upd. reflexivity. Qed.
  Lemma crash_st l H x c y : crash (st l P H t x) t c y = st l P H t (TPanic y c).
  Proof. unfold crash, set_thr, st, mk. cbn [ms_frames ms_ents ms_bfs ms_pool ms_held]. rewrite sr_upd_upd. reflexivity. Qed.
  Lemma finish_st l H x c r : finish (st l P H t x) t c r = fin c l P H t r.
  Proof. unfold finish, fin, set_held, set_thr, st, mk. cbn [ms_frames ms_ents ms_bfs ms_pool ms_held]. rewrite sr_upd_upd.
    destruct c, r; reflexivity. Qed.
  Lemma rd_ent_st l H x h : rd_ent (st l P H t x) h = ent l h.
  Proof. reflexivity. Qed.
  Lemma wr_ent_st l H x h v : wr_ent (st l P H t x) h v = st (set_ent l h v) P H t x.
  Proof. reflexivity. Qed.
  Definition row (l : lower) (h r : N) : option N :=
    match bf l h with Some rows => nth_error rows (nn r) | None => None end.
  Lemma rd_row_st l H x h r : rd_row (st l P H t x) h r = row l h r.
  Proof. reflexivity. Qed.
  Lemma wr_row_st l H x h r v rows : bf l h = Some rows ->
    wr_row (st l P H t x) h r v = st (set_bf l h (upd rows (nn r) v)) P H t x.
  Proof. intros E. unfold wr_row, st, mk. cbn [ms_bfs]. unfold bf in E. rewrite E. reflexivity. Qed.


  Definition with_ents (l : lower) (es : list N) : lower := {| frames := frames l; bfs := bfs l; ents := es |}.
  Lemma with_ents_id l : with_ents l (ents l) = l. Proof. destruct l; reflexivity. Qed.
  Lemma set_bf_id l h rows : bf l h = Some rows -> set_bf l h rows = l.
  Proof. intros E. destruct l as [f b e]. unfold set_bf, bf in *. cbn [frames Lower.bfs ents] in *. rewrite sr_upd_same; auto. Qed.
  Lemma bf_set_bf l h rows rows' : bf l h = Some rows -> bf (set_bf l h rows') h = Some rows'.
  Proof. intros E. unfold bf, set_bf in *. cbn [Lower.bfs]. apply nth_error_upd_same. eapply sr_some_lt, E. Qed.
  Lemma set_bf_set_bf l h a b : set_bf (set_bf l h a) h b = set_bf l h b.
  Proof. unfold set_bf. cbn [frames Lower.bfs ents]. rewrite sr_upd_upd. reflexivity. Qed.

  (* ----- runs ----- *)
  Inductive runs : mstate -> mstate -> Prop :=
  | runs_refl s : runs s s
  | runs_step s c p s' : nth_error (ms_pool s) t = Some (TRun c p) -> runs (fst (mstep g s t c0)) s' -> runs s s'.

  Lemma runs_trans a b c : runs a b -> runs b c -> runs a c.
  Proof. induction 1; auto. intros. eapply runs_step; eauto. Qed.
  Lemma runs_step1 s c p s1 s' : nth_error (ms_pool s) t = Some (TRun c p) -> fst (mstep g s t c0) = s1 -> runs s1 s' -> runs s s'.
  Proof. intros. subst. eapply runs_step; eauto. Qed.

  Definition Post (c : call) (H : list (N * nat)) (rl : res N * lower) (s' : mstate) : Prop :=
    match fst rl with
    | Panic x => ms_pool s' = upd P t (TPanic x c)
    | r => s' = fin c (snd rl) P H t r
    end.
  Definition Runs (c : call) (H : list (N * nat)) (s : mstate) (rl : res N * lower) : Prop :=
    exists s', runs s s' /\ Post c H rl s'.

  Lemma Runs_runs c H s s1 rl : runs s s1 -> Runs c H s1 rl -> Runs c H s rl.
  Proof. intros R (s' & R' & Q). exists s'. split; auto. eapply runs_trans; eauto. Qed.
  Lemma Runs_step c H s c' p s1 rl : nth_error (ms_pool s) t = Some (TRun c' p) -> fst (mstep g s t c0) = s1 ->
    Runs c H s1 rl -> Runs c H s rl.
  Proof. intros E1 E2 (s' & R' & Q). exists s'. split; auto. eapply runs_step1; eauto. Qed.
  Lemma Runs_ok c H l f : Runs c H (fin c l P H t (Ok f)) (Ok f, l).
  Proof. eexists. split; [apply runs_refl|]. reflexivity. Qed.
  Lemma Runs_err c H l e : Runs c H (fin c l P H t (Err e)) (Err e, l).
  Proof. eexists. split; [apply runs_refl|]. reflexivity. Qed.
  Lemma Runs_panic c H l l' x : Runs c H (st l P H t (TPanic x c)) (Panic x, l').
  Proof. eexists. split; [apply runs_refl|]. reflexivity. Qed.

  (* ----- the generic all-or-nothing multi-CAS loop with rollback ----- *)
  Section MultiCas.
    Variables (a n : nat) (cur new : N).
    Variables (F U : nat -> list N -> mstate) (Sx Fl : list N -> mstate).
    Hypothesis F_run : forall q es, exists c p, nth_error (ms_pool (F q es)) t = Some (TRun c p).
    Hypothesis U_run : forall q es, exists c p, nth_error (ms_pool (U q es)) t = Some (TRun c p).
    Hypothesis F_step : forall q es e, (q < n)%nat -> nth_error es (a + q) = Some e ->
      fst (mstep g (F q es) t c0) =
      if e =? cur then (if Nat.ltb (S q) n then F (S q) (upd es (a + q) new) else Sx (upd es (a + q) new))
      else match q with O => Fl es | S q' => U q' es end.
    Hypothesis U_step : forall q es, nth_error es (a + q) = Some new ->
      fst (mstep g (U q es) t c0) =
      match q with O => Fl (upd es (a + q) cur) | S q' => U q' (upd es (a + q) cur) end.

    Lemma mc_undo es : forall q, (a + S q <= length es)%nat -> blk_is es a (S q) cur ->
      runs (U q (fill es a (S q) new)) (Fl es).
    Proof.
      induction q; intros Hl Hb.
      - destruct (U_run O (fill es a 1 new)) as (c & p & E).
        eapply runs_step1; [exact E| |apply runs_refl].
        rewrite U_step by (apply fill_in; lia). rewrite (fill_unsnoc es a 0) by (apply Hb; lia). reflexivity.
      - destruct (U_run (S q) (fill es a (S (S q)) new)) as (c & p & E).
        eapply runs_step1; [exact E| |apply IHq].
        + rewrite U_step by (apply fill_in; lia). rewrite (fill_unsnoc es a (S q)) by (apply Hb; lia). reflexivity.
        + lia.
        + intros i Hi. apply Hb. lia.
    Qed.

    Lemma mc_fwd es : (a + n <= length es)%nat -> forall m q, (q + S m = n)%nat -> blk_is es a q cur ->
      runs (F q (fill es a q new))
           (match cas_all es a n cur new with Some es' => Sx es' | None => Fl es end).
    Proof.
      intros Hl. induction m; intros q Hq Hb.
      - destruct (F_run q (fill es a q new)) as (c & p & E).
        destruct (nth_error es (a + q)) as [e|] eqn:He; [|apply nth_error_None in He; lia].
        eapply runs_step1; [exact E|rewrite (F_step q _ e) by (try rewrite fill_out by lia; auto; lia); reflexivity|].
        destruct (N.eqb_spec e cur) as [->|Hne].
        + destruct (Nat.ltb_spec (S q) n); [lia|]. rewrite fill_snoc.
          rewrite cas_all_fill. { replace n with (S q) by lia. apply runs_refl. }
          intros i Hi. destruct (Nat.eq_dec i (a + q)) as [->|]; auto. apply Hb. lia.
        + rewrite (cas_all_fail es a n cur new q e) by (auto; lia).
          destruct q; [apply runs_refl|]. apply mc_undo; auto. lia.
      - destruct (F_run q (fill es a q new)) as (c & p & E).
        destruct (nth_error es (a + q)) as [e|] eqn:He; [|apply nth_error_None in He; lia].
        eapply runs_step1; [exact E|rewrite (F_step q _ e) by (try rewrite fill_out by lia; auto; lia); reflexivity|].
        destruct (N.eqb_spec e cur) as [->|Hne].
        + destruct (Nat.ltb_spec (S q) n); [|lia]. rewrite fill_snoc. apply IHm; [lia|].
          intros i Hi. destruct (Nat.eq_dec i (a + q)) as [->|]; auto. apply Hb. lia.
        + rewrite (cas_all_fail es a n cur new q e) by (auto; lia).
          destruct q; [apply runs_refl|]. apply mc_undo; auto. lia.
    Qed.

    Lemma mc_run es : (a + n <= length es)%nat -> (0 < n)%nat ->
      runs (F O es) (match cas_all es a n cur new with Some es' => Sx es' | None => Fl es end).
    Proof.
      intros Hl Hn. destruct n as [|m] eqn:En; [lia|]. rewrite <- En in *.
      apply (mc_fwd es Hl m O); [lia|]. intros i Hi. lia.
    Qed.
  End MultiCas.
End Solo.
