(* Testing the invariant `inv_b` along pseudo-random schedules by vm_compute.  Nothing depends on this file; it
   documents how every clause was tested before being proved (longer campaigns, ~8000 steps over geometries
   hord = 6, 8, 9 with free_all and reserve_all boots, were run during development: no violation). *)
From LLF Require Import Base BitLemmas Row RowProofs Bitfield Lower Spec LowerMachine ConcBase ConcInvDef.

Definition lcg (x : N) : N := (x * 6364136223846793005 + 1442695040888963407) mod 18446744073709551616.

Section Gen.
  Variable g : geom.
  Variable nthreads : N.
  Variable orders : list nat.     (* orders to draw from *)

  Definition pick {A} (l : list A) (d : A) (x : N) : A := nth (nn (x mod N.of_nat (length l))) l d.

  (* a call derived from the random word x and the current state *)
  Definition gen_call (s : mstate) (x : N) : call :=
    let kind := (x / 1024) mod 4 in
    let k := pick orders 0%nat (x / 65536) in
    let y := x / 16777216 in
    if kind =? 0 then CGet ((y mod (ms_frames s)) / 64) k
    else if kind =? 1 then CGetAt (((y mod (ms_frames s)) / pow2 k) * pow2 k) k
    else
      (* put: a held block, or an aligned sub-block of it *)
      match ms_held s with
      | [] => CGet 0 k
      | b :: _ =>
          let b := pick (ms_held s) b y in
          if (x / 4096) mod 2 =? 0 then CPut (fst b) (snd b)
          else let k' := Nat.min k (snd b) in
               CPut (fst b + ((y / 4096) mod pow2 (snd b - k')) * pow2 k') k'
      end.

  (* run n steps; check the invariant every `every` steps; return the schedule prefix up to the first failure *)
  Fixpoint fuzz (n : nat) (every : nat) (cnt : nat) (x : N) (s : mstate) (acc : list (nat * call))
    : option (list (nat * call)) * mstate :=
    match n with
    | O => (if inv_b g s then None else Some (rev acc), s)
    | S n' =>
        let t := nn ((x / 8) mod nthreads) in
        let c := gen_call s x in
        let s' := fst (mstep g s t c) in
        let chk := match cnt with O => inv_b g s' | _ => true end in
        if chk then fuzz n' every (match cnt with O => every | S c' => c' end) (lcg x) s' ((t, c) :: acc)
        else (Some (rev ((t, c) :: acc)), s')
    end.
End Gen.

Definition tag (x : thr) : N :=
  match x with
  | TIdle _ => 0
  | TPanic SExceedingRetries _ => 1
  | TPanic _ _ => 2
  | TRun c p =>
      let cx := match c with CGet _ _ => 0 | CGetAt _ _ => 100 | CPut _ _ => 200 end in
      let tx x := match x with XGetAt => 0 | XPut => 1 | XSplit _ => 2 end in
      cx + match p with
      | G1L _ => 3 | G1C _ _ => 4 | G2L _ _ => 5 | G2C _ _ _ => 6 | G2R _ _ _ => 7 | G2W _ _ _ => 8 | G2U _ _ _ => 9
      | G3L _ => 10 | G3C _ _ => 11 | HC _ _ => 12 | HU _ _ => 13 | A1L => 14 | A1C _ => 15 | A3L => 16 | A3C _ => 17
      | TL x => 20 + tx x | TC x _ => 24 + tx x | TN x => 28 + tx x | TW x _ => 32 + tx x | TU x _ => 36 + tx x
      | P1 => 40 | PP2 _ => 41 | PP3 _ => 42 | PS2L => 43 | PS2C _ => 44
      end
  end.
Fixpoint insert_tag (x : N) (l : list N) : list N :=
  match l with [] => [x] | y :: r => if x =? y then l else if x <? y then x :: l else y :: insert_tag x r end.
(* tags of all thread states visited along a schedule *)
Fixpoint cover_tags (g : geom) (sch : list (nat * call)) (s : mstate) (acc : list N) : list N :=
  match sch with
  | [] => acc
  | (t, c) :: r => let s' := fst (mstep g s t c) in
                   cover_tags g r s' (fold_right insert_tag acc (map tag (ms_pool s')))
  end.

Definition g8 : geom := {| hord := 8; tlog := 1 |}.
Definition summary (s : mstate) := (ms_ents s, ms_pool s, length (ms_held s)).

(* free_all, partial last bitfield *)
Definition t1 := fuzz g8 3 [0;1;2;3;5;6;7;8;9]%nat 200 0 0 12345 (boot (free_all g8 700) [] 3) [].
Time Eval vm_compute in (fst t1, summary (snd t1)).

(* the same generator, returning the schedule (to measure coverage) *)
Fixpoint gen_sched (g : geom) (nthreads : N) (orders : list nat) (n : nat) (x : N) (s : mstate) : list (nat * call) :=
  match n with
  | O => []
  | S n' => let t := nn ((x / 8) mod nthreads) in
            let c := gen_call orders s x in
            (t, c) :: gen_sched g nthreads orders n' (lcg x) (fst (mstep g s t c))
  end.
Definition ords := [0;1;2;3;5;6;7;8;9]%nat.
Definition b1 := boot (free_all g8 700) [] 3.
Time Eval vm_compute in cover_tags g8 (gen_sched g8 3 ords 200 12345 b1) b1 [].
Definition b2 := boot (reserve_all g8 600) (alloc_all_held g8 600) 3.
Time Eval vm_compute in inv_b g8 b2.
Definition t2 := fuzz g8 3 ords 200 1 1 777 b2 [].
Time Eval vm_compute in (fst t2, summary (snd t2)).
(* split protocol: only huge blocks held initially, 4 threads *)
Definition b3 := boot (reserve_all g8 1024) (alloc_all_held g8 1024) 4.
Definition t3 := fuzz g8 4 [0;3;6;7;8]%nat 300 0 0 4242 b3 [].
Time Eval vm_compute in (fst t3, summary (snd t3)).
Time Eval vm_compute in cover_tags g8 (gen_sched g8 4 [0;3;6;7;8]%nat 300 4242 b3) b3 [].
(* huge and multi-row orders only *)
Definition b4 := boot (free_all g8 1024) [] 4.
Definition t4 := fuzz g8 4 [7;8;9;7;8]%nat 300 0 0 99 b4 [].
Time Eval vm_compute in (fst t4, summary (snd t4)).
Time Eval vm_compute in cover_tags g8 (gen_sched g8 4 [7;8;9;7;8]%nat 300 99 b4) b4 [].
