(* C07: rebuilding an allocator from another allocator's metadata (Init::None, "assume initialized")
   is observationally identical.

   In the model the state `upper` IS the content of the three metadata buffers plus the configuration
   (`dflt`; the policy and the geometry are parameters).  `llfree_new g fr INone classing d lbuf tbuf sbuf`
   builds the state from the previous buffer contents without writing.

   Contents:
   1. `flat_slots`, `locals_match`, `locals_shape`/`full_shape`
   2. `handoff_identity` (+ the variant with longer buffers)
   3. the generic history runner `run_ops` and `handoff_run_ops` (Properties/C07.v: C07_handoff)
   4. the hypotheses are preserved by every operation (`*_shape` lemmas, one per primitive / loop / call;
      `run_ops_shape`, `run_ops_locals_match`, `run_ops_trees_len`) and produced by construction
      (`llfree_new_locals_match(_gen)`, `llfree_new_trees_len`); together: `handoff_after_history`
   5. a non-vacuity example (module Example). *)
From Coq Require Import List NArith PeanoNat Bool Lia.
From LLF Require Import Base Row Bitfield Lower Upper.

(* ====================================================================================== *)
(* 1. definitions                                                                          *)
(* ====================================================================================== *)

(* content of the local buffer of state u: the slots of the classes in classing order *)
Definition flat_slots (classing : list (N * N)) (u : upper) : list slot :=
  flat_map (fun cn => match class_slots u (fst cn) with Some l => l | None => [] end) classing.

(* the locals of u are exactly what `Locals::new` builds for this classing *)
Definition locals_match (classing : list (N * N)) (u : upper) : Prop :=
  NoDup (map fst classing) /\
  (forall c n, In (c, n) classing -> c < 8 /\ exists l, class_slots u c = Some l /\ length l = nn n) /\
  (forall c, ~ In c (map fst classing) -> class_slots u c = None) /\
  length (locals u) = 8%nat.

(* number of slots of each class id (None = class not configured) *)
Definition locals_shape (u : upper) : list (option nat) :=
  map (option_map (@length slot)) (locals u).

(* everything about the sizes of the three buffers, and the configuration stored in the state *)
Definition full_shape (u : upper) : list (option nat) * nat * N * N :=
  (locals_shape u, length (trees u), frames (low u), dflt u).

Definition total_slots (classing : list (N * N)) : nat :=
  fold_right (fun cn a => (nn (snd cn) + a)%nat) O classing.

(* `locals_new` with the local fixpoint named *)
Fixpoint locals_go (cl : list (N * N)) (buf : list slot) (acc : list (option (list slot)))
  : res (list (option (list slot))) :=
  match cl with
  | [] => Ok acc
  | (c, n) :: r =>
      if 8 <=? c then Panic (SIndex 49)
      else locals_go r (skipn (nn n) buf) (upd acc (nn c) (Some (firstn (nn n) buf)))
  end.

Lemma locals_new_go cl buf : locals_new cl buf = locals_go cl buf (repeat None 8).
Proof. reflexivity. Qed.

(* ---------- small list facts ---------- *)
Lemma nth_error_ext_eq {A} (l l' : list A) : (forall k, nth_error l k = nth_error l' k) -> l = l'.
Proof.
  revert l'. induction l as [|a l IH]; intros [|b l'] H; auto.
  - specialize (H O). discriminate.
  - specialize (H O). discriminate.
  - pose proof (H O) as H0. cbn in H0. inversion H0; subst. f_equal. apply IH. intros k. apply (H (S k)).
Qed.

Lemma upd_same_eq {A} (l : list A) i x : nth_error l i = Some x -> upd l i x = l.
Proof. revert i. induction l; destruct i; cbn; intros H; try discriminate; [inversion H; auto | f_equal; auto]. Qed.

Lemma map_upd {A B} (f : A -> B) (l : list A) i x : map f (upd l i x) = upd (map f l) i (f x).
Proof. revert i. induction l; destruct i; cbn; auto. f_equal; auto. Qed.

Lemma nn_inj a b : nn a = nn b -> a = b.
Proof. unfold nn. lia. Qed.

Lemma class_slots_nth u c l : class_slots u c = Some l -> nth_error (locals u) (nn c) = Some (Some l).
Proof. unfold class_slots. destruct (nth_error (locals u) (nn c)) as [[?|]|]; congruence. Qed.

Lemma class_slots_none_nth u c :
  length (locals u) = 8%nat -> c < 8 -> class_slots u c = None -> nth_error (locals u) (nn c) = Some None.
Proof.
  unfold class_slots. intros L C H. destruct (nth_error (locals u) (nn c)) as [[?|]|] eqn:E; try congruence.
  apply nth_error_None in E. unfold nn in *. lia.
Qed.

(* ====================================================================================== *)
(* 2. handoff identity                                                                     *)
(* ====================================================================================== *)

Lemma go_handoff u : forall cl junk acc,
  NoDup (map fst cl) ->
  (forall c n, In (c, n) cl -> c < 8 /\ exists l, class_slots u c = Some l /\ length l = nn n) ->
  length acc = 8%nat ->
  exists acc', locals_go cl (flat_slots cl u ++ junk) acc = Ok acc' /\ length acc' = 8%nat /\
    (forall c, In c (map fst cl) -> nth_error acc' (nn c) = nth_error (locals u) (nn c)) /\
    (forall k, ~ In k (map (fun cn => nn (fst cn)) cl) -> nth_error acc' k = nth_error acc k).
Proof.
  induction cl as [|[c n] r IH]; intros junk acc ND HC L.
  - exists acc. cbn. repeat split; auto. intros c [].
  - cbn [locals_go]. destruct (HC c n (or_introl eq_refl)) as (C8 & l & Hl & Ll).
    destruct (N.leb_spec 8 c); [lia|].
    cbn [flat_slots flat_map fst]. rewrite Hl. rewrite <- app_assoc.
    rewrite <- Ll. rewrite firstn_app, firstn_all, Nat.sub_diag, firstn_O, app_nil_r.
    rewrite skipn_app, skipn_all, Nat.sub_diag, skipn_O. cbn [app].
    inversion ND as [|? ? Hnin ND']; subst.
    destruct (IH junk (upd acc (nn c) (Some l)) ND') as (acc' & E & L' & Hin & Hout).
    { intros c' n' H'. apply HC. right; auto. }
    { rewrite upd_length; auto. }
    exists acc'. fold (flat_slots r u). split; [exact E|]. split; [exact L'|]. split.
    + cbn [map fst In]. intros c' [<-|H'].
      * rewrite Hout.
        -- rewrite nth_error_upd_same by (rewrite L; unfold nn; lia). symmetry. apply class_slots_nth; auto.
        -- intros Q. apply Hnin. apply in_map_iff in Q. destruct Q as ([c2 n2] & Q1 & Q2). cbn in Q1.
           apply nn_inj in Q1. subst. apply in_map_iff. exists (c, n2). auto.
      * apply Hin; auto.
    + intros k Hk. rewrite Hout.
      * apply nth_error_upd_other. intros Q. apply Hk. left. cbn. auto.
      * intros Q. apply Hk. right. auto.
Qed.

Lemma locals_new_handoff classing u junk :
  locals_match classing u -> locals_new classing (flat_slots classing u ++ junk) = Ok (locals u).
Proof.
  intros (ND & HC & HN & L). rewrite locals_new_go.
  destruct (go_handoff u classing junk (repeat None 8) ND HC (repeat_length _ _)) as (acc' & E & L' & Hin & Hout).
  rewrite E. f_equal. apply nth_error_ext_eq. intros k.
  destruct (Nat.lt_ge_cases k 8) as [K|K].
  - destruct (in_dec N.eq_dec (N.of_nat k) (map fst classing)) as [I|I].
    + specialize (Hin _ I). unfold nn in Hin. rewrite Nat2N.id in Hin. exact Hin.
    + rewrite Hout.
      * specialize (HN _ I). apply class_slots_none_nth in HN; auto; try lia.
        unfold nn in HN. rewrite Nat2N.id in HN. rewrite HN.
        do 8 (destruct k as [|k]; [reflexivity|]). lia.
      * intros Q. apply I. apply in_map_iff in Q. destruct Q as ([c n] & Q1 & Q2). cbn in Q1. subst k.
        unfold nn. rewrite N2Nat.id. apply in_map_iff. exists (c, n). auto.
  - transitivity (@None (option (list slot))); [|symmetry]; apply nth_error_None; lia.
Qed.

Section Handoff.
  Variable g : geom.

  (* the buffers may be longer than needed *)
  Theorem handoff_identity_junk classing u tjunk sjunk :
    locals_match classing u -> length (trees u) = nn (ntab g (frames (low u))) ->
    llfree_new g (frames (low u)) INone classing (dflt u) (low u)
               (trees u ++ tjunk) (flat_slots classing u ++ sjunk) = Ok u.
  Proof.
    intros M T. unfold llfree_new. rewrite (locals_new_handoff _ _ _ M).
    rewrite <- T. rewrite firstn_app, firstn_all, Nat.sub_diag, firstn_O, app_nil_r.
    destruct u as [[fr b e] ts ls d]. reflexivity.
  Qed.

  Theorem handoff_identity classing u :
    locals_match classing u -> length (trees u) = nn (ntab g (frames (low u))) ->
    llfree_new g (frames (low u)) INone classing (dflt u) (low u) (trees u) (flat_slots classing u) = Ok u.
  Proof.
    intros M T. pose proof (handoff_identity_junk classing u [] [] M T) as H.
    rewrite !app_nil_r in H. exact H.
  Qed.

  (* ==================================================================================== *)
  (* 3. generic history runner                                                             *)
  (* ==================================================================================== *)
  Variable policy : N -> N -> N -> pol.

  Inductive op :=
  | OGet (f : option N) (r : request)
  | OPut (f : N) (r : request)
  | ODrain
  | OChange (m : tree_match) (c : tree_change)
  | OStats
  | OTreeStats
  | OStatsAt (f : N) (k : nat).

  Inductive out :=
  | RGet (r : res (N * N))            (* frame, class *)
  | RPut (r : res unit)
  | RDrain (r : res unit)
  | RChange (r : res unit)
  | RStats (s : stats)
  | RTreeStats (r : res tree_stats)
  | RStatsAt (r : res stats).

  Definition is_panic {A} (r : res A) : bool := match r with Panic _ => true | _ => false end.

  (* output, new state, did the call panic *)
  Definition step_op (u : upper) (o : op) : out * upper * bool :=
    match o with
    | OGet f r => let '(x, u') := llfree_get g policy u f r in (RGet x, u', is_panic x)
    | OPut f r => let '(x, u') := llfree_put g policy u f r in (RPut x, u', is_panic x)
    | ODrain => let '(x, u') := llfree_drain g policy u in (RDrain x, u', is_panic x)
    | OChange m c => let '(x, u') := llfree_change_tree g u m c in (RChange x, u', is_panic x)
    | OStats => (RStats (llfree_stats g u), u, false)
    | OTreeStats => let x := llfree_tree_stats g u in (RTreeStats x, u, is_panic x)
    | OStatsAt f k => let x := llfree_stats_at g u f k in (RStatsAt x, u, is_panic x)
    end.

  (* run a history; stop at the first panic, recording it *)
  Fixpoint run_ops (u : upper) (ops : list op) : list out * upper :=
    match ops with
    | [] => ([], u)
    | o :: r =>
        let '(x, u', p) := step_op u o in
        if p then ([x], u')
        else let '(xs, u'') := run_ops u' r in (x :: xs, u'')
    end.

  (* C07: an allocator built in assume-initialized mode over (copies of) the three metadata buffers of u
     answers every call sequence - allocation, free, drain, tree changes and all statistics - with the same
     outputs and ends in the same state as u itself. *)
  Theorem handoff_run_ops : forall u ops classing,
    locals_match classing u -> length (trees u) = nn (ntab g (frames (low u))) ->
    forall tjunk sjunk u',
      llfree_new g (frames (low u)) INone classing (dflt u) (low u)
                 (trees u ++ tjunk) (flat_slots classing u ++ sjunk) = Ok u' ->
      run_ops u' ops = run_ops u ops.
  Proof.
    intros u ops classing M T tj sj u' H. rewrite (handoff_identity_junk classing u tj sj M T) in H.
    inversion H; subst. reflexivity.
  Qed.
End Handoff.

(* ====================================================================================== *)
(* 4. the hypotheses are preserved by every operation: no operation changes the number of  *)
(*    slots of a class, which classes are configured, the number of tree entries, the      *)
(*    number of managed frames or the default class (`full_shape`)                         *)
(* ====================================================================================== *)
Ltac inv H := inversion H; subst; clear H.
(* destruct the innermost match scrutinee of H, repeatedly *)
Ltac brk H :=
  repeat (cbv beta iota zeta in H;
          match type of H with
          | context [match ?x with _ => _ end] =>
              lazymatch x with
              | context [match _ with _ => _ end] => fail
              | _ => destruct x eqn:?
              end
          end);
  cbv beta iota zeta in H.

Section LowerFrames.
  Variable g : geom.

  Lemma get_huge_loop_fr : forall n l ts co hn k r l',
    get_huge_loop g l ts co hn k n = (r, l') -> frames l' = frames l.
  Proof.
    induction n; cbn [get_huge_loop]; intros l ts co hn k r l' H.
    - inv H; auto.
    - brk H. + inv H; auto. + eapply IHn; eauto.
  Qed.

  Lemma get_small_loop_fr : forall n l ts co st o j r l',
    get_small_loop g l ts co st o j n = (r, l') -> frames l' = frames l.
  Proof.
    induction n; cbn [get_small_loop]; intros l ts co st o j r l' H.
    - inv H; auto.
    - brk H; try (inv H; reflexivity); eapply IHn; eauto.
  Qed.

  Lemma lower_get_fr l st o r l' : lower_get g l st o = (r, l') -> frames l' = frames l.
  Proof.
    unfold lower_get. intros H. brk H; try (inv H; reflexivity).
    - eapply get_huge_loop_fr; eauto.
    - eapply get_small_loop_fr; eauto.
  Qed.

  Lemma lower_get_at_fr l f o r l' : lower_get_at g l f o = (r, l') -> frames l' = frames l.
  Proof. unfold lower_get_at. intros H. brk H; inv H; reflexivity. Qed.

  Lemma lower_get_opt_fr l st o f r l' : lower_get_opt g l st o f = (r, l') -> frames l' = frames l.
  Proof.
    unfold lower_get_opt. intros H. destruct f.
    - destruct (lower_get_at g l n o) as [x l1] eqn:E. apply lower_get_at_fr in E. destruct x; inv H; auto.
    - eapply lower_get_fr; eauto.
  Qed.

  Lemma put_small_fr l f o r l' : put_small g l f o = (r, l') -> frames l' = frames l.
  Proof. unfold put_small. intros H. brk H; inv H; reflexivity. Qed.

  Lemma partial_put_huge_fr l f o r l' : partial_put_huge g l f o = (r, l') -> frames l' = frames l.
  Proof.
    unfold partial_put_huge. intros H. brk H; try (inv H; reflexivity).
    apply put_small_fr in H. exact H.
  Qed.

  Lemma lower_put_fr l f o r l' : lower_put g l f o = (r, l') -> frames l' = frames l.
  Proof.
    unfold lower_put. intros H. brk H; try (inv H; reflexivity).
    - eapply partial_put_huge_fr; eauto.
    - eapply put_small_fr; eauto.
  Qed.
End LowerFrames.

Section Shape.
  Variable g : geom.
  Variable policy : N -> N -> N -> pol.

  Lemma shape_with_low u l : frames l = frames (low u) -> full_shape (with_low u l) = full_shape u.
  Proof. unfold full_shape, locals_shape. cbn [with_low low trees locals dflt]. intros ->. reflexivity. Qed.

  Lemma shape_set_tree u i t : full_shape (set_tree u i t) = full_shape u.
  Proof. unfold full_shape, locals_shape, set_tree. cbn [with_trees low trees locals dflt]. rewrite upd_length. reflexivity. Qed.

  Lemma shape_set_slot u c j s : full_shape (set_slot u c j s) = full_shape u.
  Proof.
    unfold set_slot. destruct (class_slots u c) eqn:E; auto.
    unfold full_shape, locals_shape. cbn [with_locals low trees locals dflt]. f_equal. f_equal. f_equal.
    rewrite map_upd. apply upd_same_eq. rewrite nth_error_map, (class_slots_nth _ _ _ E).
    cbn [option_map]. rewrite upd_length. reflexivity.
  Qed.

  Lemma lget_low_shape u row o f r u' : lget_low g u row o f = (r, u') -> full_shape u' = full_shape u.
  Proof.
    unfold lget_low. intros H. destruct (lower_get_opt g (low u) row o f) as [x l] eqn:E. inv H.
    apply shape_with_low. eapply lower_get_opt_fr; eauto.
  Qed.

  Ltac tshape H := intros H; brk H; inv H; rewrite ?shape_set_tree, ?shape_set_slot; reflexivity.

  Lemma trees_put_shape u i f r u' : trees_put g policy u i f = (r, u') -> full_shape u' = full_shape u.
  Proof. unfold trees_put. tshape H. Qed.
  Lemma trees_sync_shape u i m r u' : trees_sync u i m = (r, u') -> full_shape u' = full_shape u.
  Proof. unfold trees_sync. tshape H. Qed.
  Lemma trees_steal_shape u i c f r u' : trees_steal policy u i c f = (r, u') -> full_shape u' = full_shape u.
  Proof. unfold trees_steal. tshape H. Qed.
  Lemma trees_reserve_or_steal_shape u i c f r u' :
    trees_reserve_or_steal policy u i c f = (r, u') -> full_shape u' = full_shape u.
  Proof. unfold trees_reserve_or_steal. tshape H. Qed.
  Lemma trees_unreserve_shape u i f c r u' : trees_unreserve g policy u i f c = (r, u') -> full_shape u' = full_shape u.
  Proof. unfold trees_unreserve. tshape H. Qed.
  Lemma trees_change_at_shape u i c f ch r u' : trees_change_at g u i c f ch = (r, u') -> full_shape u' = full_shape u.
  Proof. unfold trees_change_at. tshape H. Qed.

  Lemma locals_get_shape u c l t f r u' : locals_get g u c l t f = (r, u') -> full_shape u' = full_shape u.
  Proof. unfold locals_get. tshape H. Qed.
  Lemma locals_put_shape u c l t f r u' : locals_put g u c l t f = (r, u') -> full_shape u' = full_shape u.
  Proof. unfold locals_put. tshape H. Qed.
  Lemma locals_swap_shape u c l t f r u' : locals_swap g u c l t f = (r, u') -> full_shape u' = full_shape u.
  Proof. unfold locals_swap. tshape H. Qed.
  Lemma locals_set_start_shape u c l row r u' : locals_set_start g u c l row = (r, u') -> full_shape u' = full_shape u.
  Proof. unfold locals_set_start. tshape H. Qed.

  (* ----- generic loops: an access that preserves the shape ----- *)
  Section Loops.
    Context {A : Type}.
    Variable access : upper -> N -> res A * upper.
    Hypothesis Hacc : forall u i r u', access u i = (r, u') -> full_shape u' = full_shape u.

    Lemma sb_try_shape : forall cands u r u', sb_try access u cands = (r, u') -> full_shape u' = full_shape u.
    Proof.
      induction cands as [|[k i] cs IH]; cbn [sb_try]; intros u r u' H.
      - inv H; auto.
      - destruct (access u i) as [x u1] eqn:E. apply Hacc in E.
        brk H; try (inv H; congruence); apply IH in H; congruence.
    Qed.

    Lemma sb_loop_shape rate cap : forall n u start i best r u',
      sb_loop g access rate cap u start i n best = (r, u') -> full_shape u' = full_shape u.
    Proof.
      induction n; cbn [sb_loop]; intros u start i best r u' H.
      - eapply sb_try_shape; eauto.
      - destruct (tree_at u (walk_idx start (ntrees u) i)) as [t|]; [|inv H; auto].
        destruct (t_res t); [eapply IHn; eauto|].
        destruct (access u (walk_idx start (ntrees u) i)) as [x u1] eqn:E. apply Hacc in E.
        brk H; try (inv H; congruence); try (apply IHn in H; congruence).
    Qed.

    Lemma search_best_shape rate cap u start off len r u' :
      search_best g access rate cap u start off len = (r, u') -> full_shape u' = full_shape u.
    Proof.
      unfold search_best. intros H. destruct (_ && _); [inv H; auto|]. eapply sb_loop_shape; eauto.
    Qed.

    Lemma search_loop_shape : forall n u start i r u',
      search_loop access u start i n = (r, u') -> full_shape u' = full_shape u.
    Proof.
      induction n; cbn [search_loop]; intros u start i r u' H.
      - inv H; auto.
      - destruct (access u (walk_idx start (ntrees u) i)) as [x u1] eqn:E. apply Hacc in E.
        brk H; try (inv H; congruence); apply IHn in H; congruence.
    Qed.
  End Loops.

  Lemma trees_change_shape u m ch r u' : trees_change g u m ch = (r, u') -> full_shape u' = full_shape u.
  Proof.
    unfold trees_change. intros H. destruct (m_id m).
    - eapply trees_change_at_shape; eauto.
    - destruct (ntrees u =? 0); [inv H; auto|].
      eapply (search_loop_shape (fun u i => trees_change_at g u i (m_class m) (m_free m) ch)); eauto.
      intros; eapply trees_change_at_shape; eauto.
  Qed.

  Lemma llfree_change_tree_shape u m ch r u' : llfree_change_tree g u m ch = (r, u') -> full_shape u' = full_shape u.
  Proof. apply trees_change_shape. Qed.

  Ltac fwd :=
    repeat match goal with
    | H : lget_low _ _ _ _ _ = (_, _) |- _ => apply lget_low_shape in H
    | H : trees_put _ _ _ _ _ = (_, _) |- _ => apply trees_put_shape in H
    | H : trees_sync _ _ _ = (_, _) |- _ => apply trees_sync_shape in H
    | H : trees_steal _ _ _ _ _ = (_, _) |- _ => apply trees_steal_shape in H
    | H : trees_reserve_or_steal _ _ _ _ _ = (_, _) |- _ => apply trees_reserve_or_steal_shape in H
    | H : trees_unreserve _ _ _ _ _ _ = (_, _) |- _ => apply trees_unreserve_shape in H
    | H : locals_get _ _ _ _ _ _ = (_, _) |- _ => apply locals_get_shape in H
    | H : locals_put _ _ _ _ _ _ = (_, _) |- _ => apply locals_put_shape in H
    | H : locals_swap _ _ _ _ _ _ = (_, _) |- _ => apply locals_swap_shape in H
    | H : locals_set_start _ _ _ _ _ = (_, _) |- _ => apply locals_set_start_shape in H
    | H : (_, _) = (_, _) |- _ => inv H
    | H : Some (_, _) = Some (_, _) |- _ => inv H
    end.
  Ltac done := fwd; rewrite ?shape_set_slot in *; congruence.

  Lemma steal_slots_shape : forall n u tc idx len t f j x u',
    steal_slots g u tc idx len t f j n = Some (x, u') -> full_shape u' = full_shape u.
  Proof.
    induction n; cbn [steal_slots]; intros u tc idx len t f j x u' H; [discriminate|].
    brk H; try (apply IHn in H); done.
  Qed.

  Lemma steal_any_loop_shape : forall n u c idx t f i r u',
    steal_any_loop g policy u c idx t f i n = (r, u') -> full_shape u' = full_shape u.
  Proof.
    induction n; cbn [steal_any_loop]; intros u c idx t f i r u' H; [inv H; auto|].
    brk H; try (apply IHn in H);
      repeat match goal with E : steal_slots _ _ _ _ _ _ _ _ _ = Some _ |- _ => apply steal_slots_shape in E end;
      done.
  Qed.

  Lemma locals_steal_any_shape u c idx t f r u' :
    locals_steal_any g policy u c idx t f = (r, u') -> full_shape u' = full_shape u.
  Proof. apply steal_any_loop_shape. Qed.

  Lemma demote_slots_shape : forall n u c tc lc len t f j x u',
    demote_slots g u c tc lc len t f j n = Some (x, u') -> full_shape u' = full_shape u.
  Proof.
    induction n; cbn [demote_slots]; intros u c tc lc len t f j x u' H; [discriminate|].
    brk H; try (apply IHn in H); try discriminate; done.
  Qed.

  Lemma demote_any_loop_shape : forall n u c lc t f i r u',
    demote_any_loop g policy u c lc t f i n = (r, u') -> full_shape u' = full_shape u.
  Proof.
    induction n; cbn [demote_any_loop]; intros u c lc t f i r u' H; [inv H; auto|].
    brk H; try (apply IHn in H);
      repeat match goal with E : demote_slots _ _ _ _ _ _ _ _ _ _ = Some _ |- _ => apply demote_slots_shape in E end;
      done.
  Qed.

  Lemma locals_demote_any_shape u c lc t f r u' :
    locals_demote_any g policy u c lc t f = (r, u') -> full_shape u' = full_shape u.
  Proof.
    unfold locals_demote_any. intros H. destruct (class_slots u c); [|inv H; auto].
    eapply demote_any_loop_shape; eauto.
  Qed.

  Lemma get_local_shape : forall fuel u o c l fr sync r u',
    get_local g policy fuel u o c l fr sync = (r, u') -> full_shape u' = full_shape u.
  Proof.
    induction fuel; cbn [get_local]; intros u o c l fr sync r u' H; [inv H; auto|].
    brk H; try (apply IHfuel in H); done.
  Qed.

  Lemma steal_global_shape u i c o fr r u' :
    steal_global g policy u i c o fr = (r, u') -> full_shape u' = full_shape u.
  Proof. unfold steal_global, lift. intros H. brk H; done. Qed.

  Lemma reserve_or_steal_shape u i o c l r u' :
    reserve_or_steal g policy u i o c l = (r, u') -> full_shape u' = full_shape u.
  Proof. unfold reserve_or_steal, lift. intros H. brk H; done. Qed.

  Ltac fwd2 :=
    repeat match goal with
    | H : locals_steal_any _ _ _ _ _ _ _ = (_, _) |- _ => apply locals_steal_any_shape in H
    | H : locals_demote_any _ _ _ _ _ _ _ = (_, _) |- _ => apply locals_demote_any_shape in H
    | H : get_local _ _ _ _ _ _ _ _ _ = (_, _) |- _ => apply get_local_shape in H
    | H : steal_global _ _ _ _ _ _ _ = (_, _) |- _ => apply steal_global_shape in H
    | H : reserve_or_steal _ _ _ _ _ _ _ = (_, _) |- _ => apply reserve_or_steal_shape in H
    end.

  Lemma steal_local_shape u rq fr r u' :
    steal_local g policy u rq fr = (r, u') -> full_shape u' = full_shape u.
  Proof. unfold steal_local, lift. intros H. brk H; fwd2; done. Qed.

  Lemma demote_local_shape u rq fr r u' :
    demote_local g policy u rq fr = (r, u') -> full_shape u' = full_shape u.
  Proof. unfold demote_local, lift. intros H. brk H; fwd2; done. Qed.

  Lemma search_and_reserve_shape u o c l st r u' :
    search_and_reserve g policy u o c l st = (r, u') -> full_shape u' = full_shape u.
  Proof.
    unfold search_and_reserve. intros H.
    assert (A : forall u i r u', reserve_or_steal g policy u i o c l = (r, u') -> full_shape u' = full_shape u)
      by (intros; eapply reserve_or_steal_shape; eauto).
    match type of H with (match ?first with _ => _ end) = _ => destruct first as [x u1] eqn:E end.
    assert (E1 : full_shape u1 = full_shape u).
    { destruct (Nat.ltb o (hord g)); [|inv E; auto].
      apply (search_best_shape _ A) in E. exact E. }
    clear E.
    destruct x as [a|e|s]; [inv H; auto| |inv H; auto].
    destruct e; try (inv H; auto; fail).
    apply (search_best_shape _ A) in H. congruence.
  Qed.

  Ltac fwd3 :=
    repeat match goal with
    | H : steal_local _ _ _ _ _ = (_, _) |- _ => apply steal_local_shape in H
    | H : demote_local _ _ _ _ _ = (_, _) |- _ => apply demote_local_shape in H
    | H : search_and_reserve _ _ _ _ _ _ _ = (_, _) |- _ => apply search_and_reserve_shape in H
    end.

  Lemma get_at_shape u f rq r u' : get_at g policy u f rq = (r, u') -> full_shape u' = full_shape u.
  Proof. unfold get_at, of_glr. intros H. brk H; fwd2; fwd3; done. Qed.

  Lemma llfree_get_shape u f rq r u' : llfree_get g policy u f rq = (r, u') -> full_shape u' = full_shape u.
  Proof.
    unfold llfree_get. intros H.
    assert (A : forall u i r u', steal_global g policy u i (r_class rq) (r_order rq) None = (r, u') ->
                                 full_shape u' = full_shape u)
      by (intros; eapply steal_global_shape; eauto).
    destruct (check g u _ rq); try (inv H; auto; fail).
    destruct f as [f|]; [eapply get_at_shape; eauto|].
    brk H; fwd2; fwd3;
      repeat match goal with
             | E : search_best _ _ _ _ _ _ _ _ = (_, _) |- _ => apply (search_best_shape _ A) in E
             end; done.
  Qed.

  Lemma llfree_put_shape u f rq r u' : llfree_put g policy u f rq = (r, u') -> full_shape u' = full_shape u.
  Proof.
    unfold llfree_put. intros H.
    destruct (check g u f rq); try (inv H; auto; fail).
    destruct (lower_put g (low u) f (r_order rq)) as [rl l] eqn:E. apply lower_put_fr in E.
    pose proof (shape_with_low u l E) as W.
    brk H; done.
  Qed.

  Lemma drain_slots_shape : forall n u c j r u',
    drain_slots g policy u c j n = (r, u') -> full_shape u' = full_shape u.
  Proof.
    induction n; cbn [drain_slots]; intros u c j r u' H; [inv H; auto|].
    unfold lift in H. brk H; try (apply IHn in H); done.
  Qed.

  Lemma drain_classes_shape : forall n u c r u',
    drain_classes g policy u c n = (r, u') -> full_shape u' = full_shape u.
  Proof.
    induction n; cbn [drain_classes]; intros u c r u' H; [inv H; auto|].
    unfold lift in H.
    match type of H with context [drain_slots g policy u c 0 ?len] =>
      destruct (drain_slots g policy u c 0 len) as [x u1] eqn:E end.
    apply drain_slots_shape in E.
    destruct x; try (inv H; auto; fail). apply IHn in H. congruence.
  Qed.

  Lemma llfree_drain_shape u r u' : llfree_drain g policy u = (r, u') -> full_shape u' = full_shape u.
  Proof. apply drain_classes_shape. Qed.

  (* ----- the history runner ----- *)
  Lemma step_op_shape u o x u' p : step_op g policy u o = (x, u', p) -> full_shape u' = full_shape u.
  Proof.
    destruct o; cbn [step_op]; intros H.
    - destruct (llfree_get g policy u f r) eqn:E. inv H. eapply llfree_get_shape; eauto.
    - destruct (llfree_put g policy u f r) eqn:E. inv H. eapply llfree_put_shape; eauto.
    - destruct (llfree_drain g policy u) eqn:E. inv H. eapply llfree_drain_shape; eauto.
    - destruct (llfree_change_tree g u m c) eqn:E. inv H. eapply llfree_change_tree_shape; eauto.
    - inv H; auto.
    - inv H; auto.
    - inv H; auto.
  Qed.

  Theorem run_ops_shape : forall ops u, full_shape (snd (run_ops g policy u ops)) = full_shape u.
  Proof.
    induction ops as [|o ops IH]; intros u; cbn [run_ops]; auto.
    destruct (step_op g policy u o) as [[x u1] p] eqn:E. apply step_op_shape in E.
    destruct p; cbn [snd]; auto.
    specialize (IH u1). destruct (run_ops g policy u1 ops) as [xs u2]. cbn [snd] in *. congruence.
  Qed.
End Shape.

(* ====================================================================================== *)
(* the hypotheses of the handoff theorem are functions of the shape                        *)
(* ====================================================================================== *)
Definition class_len (u : upper) (c : N) : option nat := option_map (@length slot) (class_slots u c).

Lemma class_len_shape u c :
  class_len u c = match nth_error (locals_shape u) (nn c) with Some (Some n) => Some n | _ => None end.
Proof.
  unfold class_len, class_slots, locals_shape. rewrite nth_error_map.
  destruct (nth_error (locals u) (nn c)) as [[l|]|]; reflexivity.
Qed.

Lemma locals_match_shape cl u u' : locals_shape u = locals_shape u' -> locals_match cl u -> locals_match cl u'.
Proof.
  intros S (ND & HC & HN & L).
  assert (CL : forall c, class_len u' c = class_len u c) by (intros; rewrite !class_len_shape, S; auto).
  split; [exact ND|]. split; [|split].
  - intros c n Hin. destruct (HC c n Hin) as (C8 & l & Hl & Ll). split; auto.
    specialize (CL c). unfold class_len in CL. rewrite Hl in CL.
    destruct (class_slots u' c) as [l'|]; cbn in CL; inv CL. exists l'. split; auto. congruence.
  - intros c Hc. specialize (HN c Hc). specialize (CL c). unfold class_len in CL. rewrite HN in CL.
    destruct (class_slots u' c); cbn in CL; congruence.
  - assert (length (locals_shape u') = length (locals_shape u)) by congruence.
    unfold locals_shape in H. rewrite !map_length in H. congruence.
Qed.

(* ====================================================================================== *)
(* the hypotheses hold for every constructed allocator                                     *)
(* ====================================================================================== *)
Lemma go_match : forall cl buf acc acc',
  NoDup (map fst cl) -> length acc = 8%nat -> (total_slots cl <= length buf)%nat ->
  locals_go cl buf acc = Ok acc' ->
  length acc' = 8%nat /\
  (forall c n, In (c, n) cl -> c < 8 /\ exists l, nth_error acc' (nn c) = Some (Some l) /\ length l = nn n) /\
  (forall k, ~ In k (map (fun cn => nn (fst cn)) cl) -> nth_error acc' k = nth_error acc k).
Proof.
  induction cl as [|[c n] r IH]; intros buf acc acc' ND L T H.
  - cbn in H. inv H. split; [auto|]. split; [intros ? ? []|auto].
  - cbn [locals_go] in H. destruct (N.leb_spec 8 c) as [|C8]; [discriminate|].
    unfold total_slots in T. cbn [fold_right snd] in T. fold (total_slots r) in T.
    inversion ND as [|? ? Hnin ND']; subst.
    apply IH in H; auto; [| rewrite upd_length; auto | rewrite skipn_length; lia].
    destruct H as (L' & Hin & Hout). split; auto.
    assert (NI : ~ In (nn c) (map (fun cn => nn (fst cn)) r)).
    { intros Q. apply Hnin. apply in_map_iff in Q. destruct Q as ([c2 n2] & Q1 & Q2). cbn in Q1.
      apply nn_inj in Q1. subst. apply in_map_iff. exists (c, n2). auto. }
    split.
    + intros c' n' [Q|Q].
      * inv Q. split; auto. exists (firstn (nn n') buf). split.
        -- rewrite Hout by exact NI. apply nth_error_upd_same. rewrite L. unfold nn. lia.
        -- apply firstn_length_le. lia.
      * apply Hin; auto.
    + intros k Hk. rewrite Hout.
      * apply nth_error_upd_other. intros Q. apply Hk. left. cbn. auto.
      * intros Q. apply Hk. right. auto.
Qed.

Lemma locals_go_ok : forall cl buf acc, (forall c n, In (c, n) cl -> c < 8) -> exists ls, locals_go cl buf acc = Ok ls.
Proof.
  induction cl as [|[c n] r IH]; intros buf acc H; cbn [locals_go]; eauto.
  destruct (N.leb_spec 8 c) as [C|C]; [specialize (H c n (or_introl eq_refl)); lia|].
  apply IH. intros c' n' Q. eapply H. right; eauto.
Qed.

Lemma fold_left_inv {A B} (f : A -> B -> A) (P : A -> Prop) :
  (forall a b, P a -> P (f a b)) -> forall l a, P a -> P (fold_left f l a).
Proof. intros Hf. induction l; cbn; auto. Qed.

Section New.
  Variable g : geom.

  Lemma llfree_new_locals u fr i classing d lbuf tbuf sbuf :
    llfree_new g fr i classing d lbuf tbuf sbuf = Ok u ->
    locals_go classing sbuf (repeat None 8) = Ok (locals u) /\ dflt u = d /\ low u = lower_new g fr i lbuf.
  Proof.
    unfold llfree_new. rewrite locals_new_go. intros H.
    destruct (locals_go classing sbuf (repeat None 8)) as [ls| |]; try discriminate.
    destruct i; try (destruct (trees_new g _ d); try discriminate); inv H; auto.
  Qed.

  (* any mode, any sufficiently long local buffer *)
  Theorem llfree_new_locals_match_gen fr i classing d lbuf tbuf sbuf u :
    NoDup (map fst classing) -> (total_slots classing <= length sbuf)%nat ->
    llfree_new g fr i classing d lbuf tbuf sbuf = Ok u -> locals_match classing u.
  Proof.
    intros ND T H. apply llfree_new_locals in H. destruct H as (E & _).
    apply go_match in E; auto using repeat_length. destruct E as (L & Hin & Hout).
    split; [exact ND|]. split; [|split; [|exact L]].
    - intros c n Q. destruct (Hin c n Q) as (C8 & l & Hl & Ll). split; auto. exists l. split; auto.
      unfold class_slots. rewrite Hl. reflexivity.
    - intros c Hc. unfold class_slots. rewrite Hout.
      + destruct (nth_error (repeat None 8) (nn c)) as [[l|]|] eqn:Q; auto.
        apply nth_error_In, repeat_spec in Q. discriminate.
      + intros Q. apply Hc. apply in_map_iff in Q. destruct Q as ([c2 n2] & Q1 & Q2). cbn in Q1.
        apply nn_inj in Q1. subst. apply in_map_iff. exists (c, n2). auto.
  Qed.

  (* the fresh allocator: FreeAll over a zeroed local buffer of exactly the required size *)
  Theorem llfree_new_locals_match fr classing d lbuf tbuf u :
    NoDup (map fst classing) ->
    llfree_new g fr IFreeAll classing d lbuf tbuf (repeat slot_none (total_slots classing)) = Ok u ->
    locals_match classing u.
  Proof. intros ND. apply llfree_new_locals_match_gen; auto. rewrite repeat_length. lia. Qed.

  (* the local part of construction cannot fail when the class ids are < 8 *)
  Lemma locals_new_ok classing sbuf : (forall c n, In (c, n) classing -> c < 8) -> exists ls, locals_new classing sbuf = Ok ls.
  Proof. intros H. rewrite locals_new_go. apply locals_go_ok; auto. Qed.

  Lemma lower_new_frames fr i buf : frames (lower_new g fr i buf) = fr.
  Proof.
    destruct i; cbn [lower_new]; try reflexivity.
    unfold lower_recover. cbn [ents].
    apply (fold_left_inv (recover_one g) (fun l => frames l = fr)); [|reflexivity].
    intros l h <-. unfold recover_one.
    destruct (nth_error (ents l) h), (nth_error (bfs l) h); auto.
    destruct (e_huge n); [destruct (_ =? _)|destruct (_ =? _)]; reflexivity.
  Qed.

  Lemma trees_new_length l d ts : trees_new g l d = Ok ts -> length ts = nn (ntab g (frames l)).
  Proof.
    unfold trees_new. rewrite <- (seq_length (nn (ntab g (frames l))) 0) at 2.
    generalize (seq 0 (nn (ntab g (frames l)))). intros xs. revert ts.
    induction xs as [|x xs IH]; cbn [fold_right]; intros ts H.
    - inv H. reflexivity.
    - destruct (fold_right _ _ xs) as [ts'| |]; try discriminate.
      destruct (lower_stats_at g l _ (tord g)); try discriminate.
      destruct (_ <? _); inv H. cbn [length]. f_equal. apply IH. reflexivity.
  Qed.

  Theorem llfree_new_trees_len fr i classing d lbuf tbuf sbuf u :
    (i = INone -> (nn (ntab g fr) <= length tbuf)%nat) ->
    llfree_new g fr i classing d lbuf tbuf sbuf = Ok u ->
    frames (low u) = fr /\ length (trees u) = nn (ntab g (frames (low u))).
  Proof.
    intros HT H. pose proof (llfree_new_locals _ _ _ _ _ _ _ _ H) as (_ & _ & HL).
    assert (F : frames (low u) = fr) by (rewrite HL; apply lower_new_frames).
    split; auto. rewrite F. unfold llfree_new in H.
    destruct (locals_new classing sbuf); try discriminate.
    destruct i.
    4:{ inv H. cbn [trees]. apply firstn_length_le. auto. }
    all: destruct (trees_new g _ d) as [ts| |] eqn:E; try discriminate; inv H; cbn [trees];
      apply trees_new_length in E; rewrite lower_new_frames in E; exact E.
  Qed.
End New.

(* ====================================================================================== *)
(* the handoff hypotheses along every history                                              *)
(* ====================================================================================== *)
Section Closure.
  Variable g : geom.
  Variable policy : N -> N -> N -> pol.

  Theorem run_ops_locals_shape u ops : locals_shape (snd (run_ops g policy u ops)) = locals_shape u.
  Proof. pose proof (run_ops_shape g policy ops u) as H. unfold full_shape in H. congruence. Qed.

  Theorem run_ops_locals_match classing u ops :
    locals_match classing u -> locals_match classing (snd (run_ops g policy u ops)).
  Proof. apply locals_match_shape. symmetry. apply run_ops_locals_shape. Qed.

  Theorem run_ops_trees_len u ops :
    length (trees u) = nn (ntab g (frames (low u))) ->
    let u' := snd (run_ops g policy u ops) in
    frames (low u') = frames (low u) /\ length (trees u') = nn (ntab g (frames (low u'))).
  Proof.
    intros T u'. pose proof (run_ops_shape g policy ops u) as H. fold u' in H. unfold full_shape in H.
    inversion H as [[H1 H2 H3 H4]]. rewrite H2, H3. auto.
  Qed.

  (* Constructed in any mode, used for any history: the state can be handed over, and the receiver IS the
     state of the donor (hence behaves identically, C07_handoff). *)
  Theorem handoff_after_history fr i classing d lbuf tbuf sbuf u0 ops :
    NoDup (map fst classing) -> (total_slots classing <= length sbuf)%nat ->
    (i = INone -> (nn (ntab g fr) <= length tbuf)%nat) ->
    llfree_new g fr i classing d lbuf tbuf sbuf = Ok u0 ->
    let u := snd (run_ops g policy u0 ops) in
    forall tjunk sjunk,
      llfree_new g fr INone classing d (low u) (trees u ++ tjunk) (flat_slots classing u ++ sjunk) = Ok u.
  Proof.
    intros ND T HT H u tj sj.
    pose proof (llfree_new_locals_match_gen g _ _ _ _ _ _ _ _ ND T H) as M.
    pose proof (llfree_new_trees_len g _ _ _ _ _ _ _ _ HT H) as (F & L).
    pose proof (llfree_new_locals g _ _ _ _ _ _ _ _ H) as (_ & D & _).
    pose proof (run_ops_locals_match classing u0 ops M) as M'.
    pose proof (run_ops_trees_len u0 ops L) as (F' & L'). fold u in M', F', L'.
    (* dflt is never written *)
    assert (D' : dflt u = dflt u0).
    { pose proof (run_ops_shape g policy ops u0) as S. fold u in S. unfold full_shape in S. congruence. }
    pose proof (handoff_identity_junk g classing u tj sj M' L') as X.
    rewrite F', F, D', D in X. exact X.
  Qed.
End Closure.

(* ====================================================================================== *)
(* 5. non-vacuity                                                                          *)
(* ====================================================================================== *)
Module Example.
  Definition ex_g := {| hord := 9; tlog := 2 |}.                   (* HF = 512, TF = 2048 *)
  Definition ex_policy (r t f : N) : pol := if t <? r then PSteal else if r <? t then PDemote else PMatch 1.
  Definition ex_classing : list (N * N) := [(0, 2); (1, 2)].
  Definition ex_lower0 : lower := {| frames := 0; bfs := []; ents := [] |}.
  (* fresh allocator: 5000 frames (3 trees, the last one partial), default class 1 *)
  Definition ex_new : res upper :=
    llfree_new ex_g 5000 IFreeAll ex_classing 1 ex_lower0 [] (repeat slot_none (total_slots ex_classing)).
  Definition rq o c l := {| r_order := o; r_class := c; r_local := l |}.
  (* history of the donor before the handoff *)
  Definition ex_ops1 : list op :=
    [OGet None (rq 0 0 (Some 0)); OGet None (rq 0 1 (Some 1)); OGet None (rq 9 1 (Some 0));
     OGet (Some 4100) (rq 2 0 None); OGet None (rq 3 0 (Some 1)); OPut 4096 (rq 0 1 (Some 1));
     OPut 4096 (rq 0 1 None); OStats].
  (* history run on both allocators after the handoff *)
  Definition ex_ops2 : list op :=
    [OGet None (rq 0 1 (Some 0)); OPut 2048 (rq 0 0 (Some 0)); OPut 0 (rq 9 1 None);
     OGet None (rq 11 0 (Some 0)); OGet None (rq 5 0 None); OTreeStats; ODrain;
     OChange {| m_id := Some 1; m_class := None; m_free := 0 |} {| c_class := Some 1; c_op := None |};
     OGet None (rq 10 1 (Some 1)); OStats; OStatsAt 2048 11; OTreeStats; OGet None (rq 0 5 None)].
  (* the receiver's buffers are longer than needed *)
  Definition ex_junk_t : list tree := [{| t_free := 77; t_res := true; t_class := 3 |}].
  Definition ex_junk_s : list slot := [{| s_pres := true; s_row := 9; s_free := 5 |}].

  (* outputs of the donor's history, then the runs of receiver and donor over ex_ops2 *)
  Definition ex_run : option (list out * (list out * upper) * (list out * upper)) :=
    match ex_new with
    | Ok u0 =>
        let '(o1, u) := run_ops ex_g ex_policy u0 ex_ops1 in
        match llfree_new ex_g 5000 INone ex_classing 1 (low u)
                         (trees u ++ ex_junk_t) (flat_slots ex_classing u ++ ex_junk_s) with
        | Ok u' => Some (o1, run_ops ex_g ex_policy u' ex_ops2, run_ops ex_g ex_policy u ex_ops2)
        | _ => None
        end
    | _ => None
    end.

  Definition cs f a := {| cs_free := f; cs_alloc := a |}.
  Definition ex_out1 : list out :=
    [RGet (Ok (2048, 0)); RGet (Ok (4096, 1)); RGet (Ok (0, 1)); RGet (Ok (4100, 0)); RGet (Ok (4104, 0));
     RPut (Ok tt); RPut (Err EMemory);
     RStats {| free_frames := 4475; free_huge := 6; free_trees := 0 |}].
  Definition ex_out2 : list out :=
    [RGet (Ok (512, 1)); RPut (Ok tt); RPut (Ok tt); RGet (Ok (2048, 0)); RGet (Ok (4128, 0));
     RTreeStats (Ok {| ts_free := 2907; ts_trees := 0;
                       ts_classes := [cs 860 3236; cs 2047 1; cs 0 0; cs 0 0; cs 0 0; cs 0 0; cs 0 0; cs 0 0] |});
     RDrain (Ok tt); RChange (Ok tt); RGet (Ok (1024, 1));
     RStats {| free_frames := 1883; free_huge := 1; free_trees := 0 |};
     RStatsAt (Ok {| free_frames := 0; free_huge := 0; free_trees := 0 |});
     RTreeStats (Ok {| ts_free := 1883; ts_trees := 0;
                       ts_classes := [cs 860 1188; cs 1023 3073; cs 0 0; cs 0 0; cs 0 0; cs 0 0; cs 0 0; cs 0 0] |});
     RGet (Err EArgument)].

  (* both allocators produce the same (explicitly given) outputs and end in the same state *)
  Example ex_handoff : exists uf, ex_run = Some (ex_out1, (ex_out2, uf), (ex_out2, uf)).
  Proof. eexists. vm_compute. reflexivity. Qed.

  (* the hypotheses of the theorems hold for the donor at the moment of the handoff, by the general lemmas *)
  Example ex_hypotheses : exists u0, ex_new = Ok u0 /\
    let u := snd (run_ops ex_g ex_policy u0 ex_ops1) in
    locals_match ex_classing u /\ length (trees u) = nn (ntab ex_g (frames (low u))).
  Proof.
    destruct ex_new as [u0|e|s] eqn:E; [|vm_compute in E; discriminate..].
    exists u0. split; [reflexivity|]. cbv zeta.
    assert (ND : NoDup (map fst ex_classing)).
    { cbn. repeat constructor; cbn; intuition discriminate. }
    split.
    - apply run_ops_locals_match. eapply llfree_new_locals_match; [exact ND|exact E].
    - eapply llfree_new_trees_len in E; [|discriminate]. destruct E as (F & L).
      apply (run_ops_trees_len ex_g ex_policy u0 ex_ops1 L).
  Qed.
End Example.
