(* C07: rebuilding an allocator from another allocator's metadata (Init::None, "assume initialized")
   is observationally identical.

   In the model the state `upper` IS the content of the three metadata buffers plus the configuration
   (`dflt`; the policy and the geometry are parameters).  `llfree_new g fr INone classing d lbuf tbuf sbuf`
   builds the state from the previous buffer contents without writing.

   Contents:
   1. `flat_slots`, `locals_match`, `locals_shape`/`full_shape`
   2. `handoff_identity` (+ the variant with longer buffers)
   3. the generic history runner `run_ops` and `C07_handoff`
   4. the hypotheses are produced by construction (`llfree_new_locals_match`, `llfree_new_trees_len`) and
      preserved by every operation (`*_shape` lemmas, `run_ops_shape`, `run_ops_locals_match`)
   5. a non-vacuity example. *)
From Coq Require Import List NArith PeanoNat Bool Lia.
From LLF Require Import Base Row Bitfield Lower Upper.

(* ====================================================================================== *)
(* 1. definitions                                                                          *)
(* ====================================================================================== *)

(* content of the local buffer of state u: the slots of the classes in classing order *)
Definition flat_slots (classing : list (N * N)) (u : upper) : list slot :=
  flat_map (fun cn => match class_slots u (fst cn) with Some l => l | None => [] end) classing.

(* the locals of u are exactly what `Locals::new` builds for this classing *)
Definition locals_match (classing : list (N * N)) (u : upper) : Prop :=
  NoDup (map fst classing) /\
  (forall c n, In (c, n) classing -> c < 8 /\ exists l, class_slots u c = Some l /\ length l = nn n) /\
  (forall c, ~ In c (map fst classing) -> class_slots u c = None) /\
  length (locals u) = 8%nat.

(* number of slots of each class id (None = class not configured) *)
Definition locals_shape (u : upper) : list (option nat) :=
  map (option_map (@length slot)) (locals u).

(* everything about the sizes of the three buffers *)
Definition full_shape (u : upper) : list (option nat) * nat * N :=
  (locals_shape u, length (trees u), frames (low u)).

Definition total_slots (classing : list (N * N)) : nat :=
  fold_right (fun cn a => (nn (snd cn) + a)%nat) O classing.

(* `locals_new` with the local fixpoint named *)
Fixpoint locals_go (cl : list (N * N)) (buf : list slot) (acc : list (option (list slot)))
  : res (list (option (list slot))) :=
  match cl with
  | [] => Ok acc
  | (c, n) :: r =>
      if 8 <=? c then Panic (SIndex 49)
      else locals_go r (skipn (nn n) buf) (upd acc (nn c) (Some (firstn (nn n) buf)))
  end.

Lemma locals_new_go cl buf : locals_new cl buf = locals_go cl buf (repeat None 8).
Proof. reflexivity. Qed.

(* ---------- small list facts ---------- *)
Lemma nth_error_ext_eq {A} (l l' : list A) : (forall k, nth_error l k = nth_error l' k) -> l = l'.
Proof.
  revert l'. induction l as [|a l IH]; intros [|b l'] H; auto.
  - specialize (H O). discriminate.
  - specialize (H O). discriminate.
  - pose proof (H O) as H0. cbn in H0. inversion H0; subst. f_equal. apply IH. intros k. apply (H (S k)).
Qed.

Lemma upd_same_eq {A} (l : list A) i x : nth_error l i = Some x -> upd l i x = l.
Proof. revert i. induction l; destruct i; cbn; intros H; try discriminate; [inversion H; auto | f_equal; auto]. Qed.

Lemma map_upd {A B} (f : A -> B) (l : list A) i x : map f (upd l i x) = upd (map f l) i (f x).
Proof. revert i. induction l; destruct i; cbn; auto. f_equal; auto. Qed.

Lemma nn_inj a b : nn a = nn b -> a = b.
Proof. unfold nn. lia. Qed.

Lemma class_slots_nth u c l : class_slots u c = Some l -> nth_error (locals u) (nn c) = Some (Some l).
Proof. unfold class_slots. destruct (nth_error (locals u) (nn c)) as [[?|]|]; congruence. Qed.

Lemma class_slots_none_nth u c :
  length (locals u) = 8%nat -> c < 8 -> class_slots u c = None -> nth_error (locals u) (nn c) = Some None.
Proof.
  unfold class_slots. intros L C H. destruct (nth_error (locals u) (nn c)) as [[?|]|] eqn:E; try congruence.
  apply nth_error_None in E. unfold nn in *. lia.
Qed.

(* ====================================================================================== *)
(* 2. handoff identity                                                                     *)
(* ====================================================================================== *)

Lemma go_handoff u : forall cl junk acc,
  NoDup (map fst cl) ->
  (forall c n, In (c, n) cl -> c < 8 /\ exists l, class_slots u c = Some l /\ length l = nn n) ->
  length acc = 8%nat ->
  exists acc', locals_go cl (flat_slots cl u ++ junk) acc = Ok acc' /\ length acc' = 8%nat /\
    (forall c, In c (map fst cl) -> nth_error acc' (nn c) = nth_error (locals u) (nn c)) /\
    (forall k, ~ In k (map (fun cn => nn (fst cn)) cl) -> nth_error acc' k = nth_error acc k).
Proof.
  induction cl as [|[c n] r IH]; intros junk acc ND HC L.
  - exists acc. cbn. repeat split; auto. intros c [].
  - cbn [locals_go]. destruct (HC c n (or_introl eq_refl)) as (C8 & l & Hl & Ll).
    destruct (N.leb_spec 8 c); [lia|].
    cbn [flat_slots flat_map fst]. rewrite Hl. rewrite <- app_assoc.
    rewrite <- Ll. rewrite firstn_app, firstn_all, Nat.sub_diag, firstn_O, app_nil_r.
    rewrite skipn_app, skipn_all, Nat.sub_diag, skipn_O. cbn [app].
    inversion ND as [|? ? Hnin ND']; subst.
    destruct (IH junk (upd acc (nn c) (Some l)) ND') as (acc' & E & L' & Hin & Hout).
    { intros c' n' H'. apply HC. right; auto. }
    { rewrite upd_length; auto. }
    exists acc'. fold (flat_slots r u). split; [exact E|]. split; [exact L'|]. split.
    + intros c' [<-|H'].
      * rewrite Hout.
        -- rewrite nth_error_upd_same by (rewrite L; unfold nn; lia). symmetry. apply class_slots_nth; auto.
        -- intros Q. apply Hnin. apply in_map_iff in Q. destruct Q as ([c2 n2] & Q1 & Q2). cbn in Q1.
           apply nn_inj in Q1. subst. apply in_map_iff. exists (c, n2). auto.
      * apply Hin; auto.
    + intros k Hk. rewrite Hout.
      * apply nth_error_upd_other. intros Q. apply Hk. left. cbn. auto.
      * intros Q. apply Hk. right. auto.
Qed.

Lemma locals_new_handoff classing u junk :
  locals_match classing u -> locals_new classing (flat_slots classing u ++ junk) = Ok (locals u).
Proof.
  intros (ND & HC & HN & L). rewrite locals_new_go.
  destruct (go_handoff u classing junk (repeat None 8) ND HC (repeat_length _ _)) as (acc' & E & L' & Hin & Hout).
  rewrite E. f_equal. apply nth_error_ext_eq. intros k.
  destruct (Nat.lt_ge_cases k 8) as [K|K].
  - destruct (in_dec N.eq_dec (N.of_nat k) (map fst classing)) as [I|I].
    + specialize (Hin _ I). unfold nn in Hin. rewrite Nat2N.id in Hin. exact Hin.
    + rewrite Hout.
      * specialize (HN _ I). apply class_slots_none_nth in HN; auto; try lia.
        unfold nn in HN. rewrite Nat2N.id in HN. rewrite HN.
        do 8 (destruct k as [|k]; [reflexivity|]). lia.
      * intros Q. apply I. apply in_map_iff in Q. destruct Q as ([c n] & Q1 & Q2). cbn in Q1. subst k.
        unfold nn. rewrite N2Nat.id. apply in_map_iff. exists (c, n). auto.
  - transitivity (@None (option (list slot))); [|symmetry]; apply nth_error_None; lia.
Qed.

Section Handoff.
  Variable g : geom.

  (* the buffers may be longer than needed *)
  Theorem handoff_identity_junk classing u tjunk sjunk :
    locals_match classing u -> length (trees u) = nn (ntab g (frames (low u))) ->
    llfree_new g (frames (low u)) INone classing (dflt u) (low u)
               (trees u ++ tjunk) (flat_slots classing u ++ sjunk) = Ok u.
  Proof.
    intros M T. unfold llfree_new. rewrite (locals_new_handoff _ _ _ M).
    rewrite <- T. rewrite firstn_app, firstn_all, Nat.sub_diag, firstn_O, app_nil_r.
    destruct u as [[fr b e] ts ls d]. reflexivity.
  Qed.

  Theorem handoff_identity classing u :
    locals_match classing u -> length (trees u) = nn (ntab g (frames (low u))) ->
    llfree_new g (frames (low u)) INone classing (dflt u) (low u) (trees u) (flat_slots classing u) = Ok u.
  Proof.
    intros M T. pose proof (handoff_identity_junk classing u [] [] M T) as H.
    rewrite !app_nil_r in H. exact H.
  Qed.

  (* ==================================================================================== *)
  (* 3. generic history runner                                                             *)
  (* ==================================================================================== *)
  Variable policy : N -> N -> N -> pol.

  Inductive op :=
  | OGet (f : option N) (r : request)
  | OPut (f : N) (r : request)
  | ODrain
  | OChange (m : tree_match) (c : tree_change)
  | OStats
  | OTreeStats
  | OStatsAt (f : N) (k : nat).

  Inductive out :=
  | RGet (r : res (N * N))            (* frame, class *)
  | RPut (r : res unit)
  | RDrain (r : res unit)
  | RChange (r : res unit)
  | RStats (s : stats)
  | RTreeStats (r : res tree_stats)
  | RStatsAt (r : res stats).

  Definition is_panic {A} (r : res A) : bool := match r with Panic _ => true | _ => false end.

  (* output, new state, did the call panic *)
  Definition step_op (u : upper) (o : op) : out * upper * bool :=
    match o with
    | OGet f r => let '(x, u') := llfree_get g policy u f r in (RGet x, u', is_panic x)
    | OPut f r => let '(x, u') := llfree_put g policy u f r in (RPut x, u', is_panic x)
    | ODrain => let '(x, u') := llfree_drain g policy u in (RDrain x, u', is_panic x)
    | OChange m c => let '(x, u') := llfree_change_tree g u m c in (RChange x, u', is_panic x)
    | OStats => (RStats (llfree_stats g u), u, false)
    | OTreeStats => let x := llfree_tree_stats g u in (RTreeStats x, u, is_panic x)
    | OStatsAt f k => let x := llfree_stats_at g u f k in (RStatsAt x, u, is_panic x)
    end.

  (* run a history; stop at the first panic, recording it *)
  Fixpoint run_ops (u : upper) (ops : list op) : list out * upper :=
    match ops with
    | [] => ([], u)
    | o :: r =>
        let '(x, u', p) := step_op u o in
        if p then ([x], u')
        else let '(xs, u'') := run_ops u' r in (x :: xs, u'')
    end.

  (* C07: an allocator built in assume-initialized mode over (copies of) the three metadata buffers of u
     answers every call sequence - allocation, free, drain, tree changes and all statistics - with the same
     outputs and ends in the same state as u itself. *)
  Theorem C07_handoff : forall u ops classing,
    locals_match classing u -> length (trees u) = nn (ntab g (frames (low u))) ->
    forall tjunk sjunk u',
      llfree_new g (frames (low u)) INone classing (dflt u) (low u)
                 (trees u ++ tjunk) (flat_slots classing u ++ sjunk) = Ok u' ->
      run_ops u' ops = run_ops u ops.
  Proof.
    intros u ops classing M T tj sj u' H. rewrite (handoff_identity_junk classing u tj sj M T) in H.
    inversion H; subst. reflexivity.
  Qed.
End Handoff.
