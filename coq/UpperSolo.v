(* A call run ALONE on the small-step machine M2 (UpperMachine.v) computes the big-step function of the
   sequential model (Upper.v): same result, same final memory, other threads untouched, ghost held list updated
   as `ufinish` does; on `Panic x` the thread stops in `UPanic x c` (same site; the memory is not claimed).
   This file: the call kinds put, drain, change_tree, and the glue from the thread-level simulation
   (UpperSoloLemmas.v) to the fuel-bounded solo run of `ustep` (`usolo_of_sim`).  get is in UpperSoloGet.v.
     usolo_put    : Shape g (low u)                       (one lower call, SoloRun.v)
     usolo_drain  : no hypothesis
     usolo_change : TreesFit g u  (ntrees * THUGE <= |ents|: the huge-entry table covers every tree entry)
   Method: continuation-passing simulation.  For every function F of the code with entry action `enter_F u args k`:
   if the thread is about to process that action with return-chain depth d (`At d u (enter_F ..) cf`), then running
   alone it reaches (`Reach`) the configuration that delivers F's big-step result to the continuation k
   (`At d' u' (ARet v k)`), or the panic state.  One lemma per primitive (UpperSoloLemmas.v) and per control construct. *)
From Coq Require Import PeanoNat ZifyBool.
From LLF Require Import Base BitLemmas Row RowProofs Bitfield Lower Spec Sorted Upper LowerMachine
  UpperInvDef LowerFacts LowerFactsProofs UpperPrims SoloRunLemmas SoloRun Progress UpperMachine UpperSoloLemmas.

Local Strategy 1000 [settle].

Section Calls.
  Variable g : geom.
  Variable policy : N -> N -> N -> pol.
  Hypothesis WF : wf_geom g.
  Notation TF := (TF g).
  Notation At := (At g policy).
  Notation Reach := (Reach g policy).

  (* one step of a return chain *)
  Ltac ret_step H :=
    apply At_ret in H; [cbn [UpperMachine.resume] in H | unfold SETTLE; lia].
  Ltac crashed := apply Reach_here; eexists; eassumption.
  (* apply the solo lemma of the primitive that H is about to run *)
  Ltac use_tu H Q :=
    let c1 := fresh "c" in let R1 := fresh "R" in
    destruct (tu_sim g policy _ _ _ _ _ _ H) as (c1 & R1 & Q);
    apply (Reach_trans _ _ _ _ _ R1); clear R1 H;
    unfold fetch_of in Q; cbn [needs_fetch tf_apply tf_site] in Q.
  Ltac use_su H Q :=
    let c1 := fresh "c" in let R1 := fresh "R" in
    destruct (su_sim g policy _ _ _ _ _ _ _ H) as (c1 & R1 & Q);
    apply (Reach_trans _ _ _ _ _ R1); clear R1 H; cbn [sf_apply] in Q.
  Ltac use_sw H Q :=
    let c1 := fresh "c" in let R1 := fresh "R" in
    destruct (sw_sim g policy _ _ _ _ _ _ _ H) as (c1 & R1 & Q);
    apply (Reach_trans _ _ _ _ _ R1); clear R1 H.

  (* ----- check ----- *)
  Lemma check_ok u fr r x : check g u fr r = Ok x ->
    Nat.leb (r_order r) (tord g) = true /\ fr + pow2 (r_order r) <= frames (low u) /\ fr mod pow2 (r_order r) = 0 /\
    class_locals u (r_class r) <> None.
  Proof.
    unfold check.
    destruct (Nat.leb (r_order r) (tord g)); cbn [negb]; [|discriminate].
    destruct ((fr + pow2 (r_order r) <? W64) && (fr + pow2 (r_order r) <=? frames (low u))) eqn:E1; cbn [negb]; [|discriminate].
    destruct (fr mod pow2 (r_order r) =? 0) eqn:E2; cbn [negb]; [|discriminate].
    destruct (class_locals u (r_class r)); [|discriminate].
    intros _. apply andb_true_iff in E1. destruct E1 as [_ E1]. apply N.leb_le in E1. apply N.eqb_eq in E2.
    repeat split; try assumption. discriminate.
  Qed.
  Lemma check_no_panic u fr r x : check g u fr r <> Panic x.
  Proof.
    unfold check. repeat match goal with |- (if ?x then _ else _) <> _ => destruct x end; try discriminate.
    all: destruct (class_locals u (r_class r)); discriminate.
  Qed.

  Lemma tree_put_no_err d t free e : tree_put g policy d t free <> Err e.
  Proof. unfold tree_put. destruct (TF <? t_free t + free); discriminate. Qed.
  Lemma slot_put_no_err s tree free e : slot_put g s tree free <> Some (Err e).
  Proof.
    unfold slot_put. destruct (s_pres s && (row_tree g (s_row s) =? tree)); [|discriminate].
    destruct (s_free s + free <=? TF); discriminate.
  Qed.

  (* the outcome of a whole call *)
  Definition unit_res (x : res unit * upper) : res (N * N) * upper :=
    match x with (Ok _, u') => (Ok (0, 0), u') | (Err e, u') => (Err e, u') | (Panic s, u') => (Panic s, u') end.
  Definition Final (x : res (N * N) * upper) (c' : CF) : Prop :=
    match x with
    | (Panic s, _) => Crashed s c'
    | (r, u') => c' = (u', SDone r)
    end.

  (* ----- Trees::put, then return r0 (frame KRetR) ----- *)
  Lemma tput_ret_sim u i free r0 k d cf : res_ok r0 = true -> At d u (enter_tput u i free (KRetR r0 :: k)) cf ->
    Reach cf (fun c' =>
      match trees_put g policy u i free with
      | (Ok _, u') => At 1 u' (ARet (VR r0) k) c'
      | (Panic s, _) => Crashed s c'
      | (Err _, _) => False
      end).
  Proof.
    intros Hr HA. unfold enter_tput in HA. use_tu HA Q. unfold trees_put.
    destruct (tree_at u i) as [t|]; [|crashed].
    destruct (tree_put g policy (dflt u) t free) as [t'|e|s] eqn:E.
    - ret_step Q. apply Reach_here. destruct r0; [exact Q | exact Q | discriminate Hr].
    - exfalso. eapply tree_put_no_err; exact E.
    - crashed.
  Qed.

  (* ----- put ----- *)
  Lemma put_sim u frame r cf : Shape g (low u) -> At 0 u (enter_put g u frame r []) cf ->
    Reach cf (Final (unit_res (llfree_put g policy u frame r))).
  Proof.
    intros Sh HA. unfold enter_put in HA. unfold llfree_put.
    destruct (check g u frame r) as [x|e|s] eqn:Ec.
    3: { exfalso. eapply check_no_panic; exact Ec. }
    2: { apply Reach_here. apply At_done in HA. exact HA. }
    destruct (check_ok _ _ _ _ Ec) as (Ho & Hr & Ha & Hc).
    destruct (low_sim g policy WF u (CPut frame (r_order r)) [KPut1 frame r] 0 cf Sh) as (c1 & R1 & Q1); [|exact HA|].
    { unfold call_ok. cbn [c_order mk ms_frames]. rewrite Ho. cbn [andb].
      apply andb_true_iff. split; [apply N.eqb_eq; exact Ha | apply N.leb_le; exact Hr]. }
    apply (Reach_trans _ _ _ _ _ R1). clear R1 HA. cbn [big] in Q1.
    destruct (lower_put g (low u) frame (r_order r)) as [[y|e|s] l']; cbn [fst snd low_out Lands] in Q1.
    3: { apply Reach_here. exact Q1. }
    2: { ret_step Q1. apply Reach_here. apply At_done in Q1. exact Q1. }
    (* the lower put succeeded *)
    ret_step Q1. set (u1 := with_low u l') in *.
    assert (HT : forall cf, At 1 u1 (enter_tput u1 (frame / TF) (pow2 (r_order r)) [KRetR (Ok (0, 0))]) cf ->
                 Reach cf (Final (unit_res (trees_put g policy u1 (frame / TF) (pow2 (r_order r)))))).
    { intros cf' H. eapply Reach_weaken; [apply (tput_ret_sim _ _ _ (Ok (0, 0)) _ _ _ eq_refl H)|].
      intros c'. cbv beta. destruct (trees_put g policy u1 (frame / TF) (pow2 (r_order r))) as [[z|e|s] u2]; cbn [unit_res Final].
      - intros H2. apply At_done in H2. exact H2.
      - intros [].
      - intros H2. exact H2. }
    destruct (r_local r) as [local|]; [|apply HT; exact Q1].
    unfold locals_put. unfold class_locals in Q1.
    destruct (class_slots u1 (r_class r)) as [l|] eqn:Ecs; cbn [option_map] in Q1; [|apply HT; exact Q1].
    destruct (nth_error l (nn local)) as [s|] eqn:En.
    2: { replace (local <? N.of_nat (length l)) with false in Q1
           by (symmetry; apply N.ltb_ge; apply nth_error_None in En; unfold nn in En; lia).
         apply At_panic in Q1. apply Reach_here. eexists. exact Q1. }
    replace (local <? N.of_nat (length l)) with true in Q1
      by (symmetry; apply N.ltb_lt; pose proof (sr_some_lt _ _ _ En); unfold nn in *; lia).
    use_su Q1 Q2. unfold slot_at in Q2. rewrite Ecs, En in Q2.
    destruct (slot_put g s (frame / TF) (pow2 (r_order r))) as [[s'|e2|x2]|] eqn:Esp.
    - ret_step Q2. apply Reach_here. apply At_done in Q2. exact Q2.
    - exfalso. eapply slot_put_no_err; exact Esp.
    - crashed.
    - ret_step Q2. apply HT. exact Q2.
  Qed.

  (* ----- drain ----- *)
  Definition slots_len (u : upper) (c : N) : nat := match class_slots u c with Some l => length l | None => O end.

  Lemma class_locals_len u c : class_locals u c = option_map (fun l => N.of_nat (length l)) (class_slots u c).
  Proof. reflexivity. Qed.

  Lemma drain_scan_fuel u n : forall c j, 8 <= c + N.of_nat n -> drain_scan u c j n = drain_scan u c j (S n).
  Proof.
    induction n as [|n IH]; intros c j H.
    - cbn [drain_scan]. replace (8 <=? c) with true by (symmetry; apply N.leb_le; lia). reflexivity.
    - remember (S n) as m. cbn [drain_scan]. subst m. cbn [drain_scan].
      destruct (8 <=? c); [reflexivity|].
      assert (E : drain_scan u (c + 1) 0 n = drain_scan u (c + 1) 0 (S n)) by (apply IH; lia).
      cbn [drain_scan] in E. rewrite E. reflexivity.
  Qed.

  Lemma dr_next_end u c j k : 8 <= c -> dr_next u c j k = ARet (VR (Ok (0, 0))) k.
  Proof. intros H. unfold dr_next. cbn [drain_scan]. replace (8 <=? c) with true by (symmetry; apply N.leb_le; lia). reflexivity. Qed.
  Lemma dr_next_hit u c j k : c < 8 -> (nn j < slots_len u c)%nat ->
    dr_next u c j k = ADo (PSW c j slot_none) (KDr1 c j :: k).
  Proof.
    intros Hc Hj. unfold dr_next. cbn [drain_scan]. replace (8 <=? c) with false by (symmetry; apply N.leb_gt; lia).
    rewrite class_locals_len. unfold slots_len in Hj. destruct (class_slots u c) as [l|]; cbn [option_map]; [|lia].
    replace (j <? N.of_nat (length l)) with true by (symmetry; apply N.ltb_lt; unfold nn in Hj; lia). reflexivity.
  Qed.
  Lemma dr_next_skip u c j k : c < 8 -> (slots_len u c <= nn j)%nat -> dr_next u c j k = dr_next u (c + 1) 0 k.
  Proof.
    intros Hc Hj. unfold dr_next.
    assert (E : drain_scan u c j 9 = drain_scan u (c + 1) 0 8).
    { cbn [drain_scan]. replace (8 <=? c) with false by (symmetry; apply N.leb_gt; lia).
      rewrite class_locals_len. unfold slots_len in Hj. destruct (class_slots u c) as [l|]; cbn [option_map]; [|reflexivity].
      replace (j <? N.of_nat (length l)) with false by (symmetry; apply N.ltb_ge; unfold nn in Hj; lia). reflexivity. }
    rewrite E. rewrite (drain_scan_fuel u 8) by lia. reflexivity.
  Qed.

  Lemma slots_len_set_slot u c j s c' : slots_len (set_slot u c j s) c' = slots_len u c'.
  Proof.
    unfold slots_len. destruct (N.eq_dec c' c) as [->|Hne].
    - destruct (class_slots u c) as [l|] eqn:E.
      + rewrite (class_slots_set_slot_same u c j s l E). apply upd_length.
      + unfold set_slot. rewrite E, E. reflexivity.
    - rewrite class_slots_set_slot_other by exact Hne. reflexivity.
  Qed.

  (* what a drain delivers to k *)
  Definition DrPost (d : nat) (k : list kframe) (x : res unit * upper) (c' : CF) : Prop :=
    match x with
    | (Ok _, u') => At (Nat.max d 1) u' (ARet (VR (Ok (0, 0))) k) c'
    | (Panic s, _) => Crashed s c'
    | (Err _, _) => False
    end.

  Lemma drain_slots_sim k c n : c < 8 -> c + 1 + N.of_nat n = 8 ->
    (forall u d cf, (d <= 40)%nat -> At d u (dr_next u (c + 1) 0 k) cf -> Reach cf (DrPost d k (drain_classes g policy u (c + 1) n))) ->
    forall m u j d cf, slots_len u c = (nn j + m)%nat -> (d <= 40)%nat -> At d u (dr_next u c j k) cf ->
      Reach cf (DrPost d k (lift (drain_slots g policy u c j m) (fun _ u1 => drain_classes g policy u1 (c + 1) n))).
  Proof.
    intros Hc Hn Hout. induction m as [|m IH]; intros u j d cf Hl Hd HA.
    - cbn [drain_slots lift]. rewrite dr_next_skip in HA by lia. apply Hout; assumption.
    - rewrite dr_next_hit in HA by lia. use_sw HA Q.
      cbn [drain_slots]. unfold slots_len in Hl. unfold slot_at in Q.
      destruct (class_slots u c) as [l|] eqn:Ecs; [|lia].
      destruct (nth_error l (nn j)) as [s|] eqn:En.
      2: { apply nth_error_None in En. lia. }
      ret_step Q. set (u1 := set_slot u c j slot_none) in *.
      assert (Hl1 : slots_len u1 c = (nn (j + 1) + m)%nat).
      { unfold u1. rewrite slots_len_set_slot. unfold slots_len. rewrite Ecs. unfold nn in *. lia. }
      destruct (s_pres s).
      + use_tu Q Q2. unfold trees_unreserve.
        destruct (tree_at u1 (row_tree g (s_row s))) as [t|] eqn:Et; cbn [lift]; [|crashed].
        destruct (tree_unreserve_add g policy (dflt u1) t (s_free s) c) as [[t'|e|x]|] eqn:Eu; cbn [lift].
        * ret_step Q2. eapply Reach_weaken; [apply (IH (set_tree u1 (row_tree g (s_row s)) t') (j + 1) 1%nat c1); [|lia|exact Q2]|].
          { rewrite <- Hl1. reflexivity. }
          intros c'. unfold DrPost. destruct (lift _ _) as [[y|e|x] u']; try (intros H; exact H).
          intros H. eapply At_mono; [exact H | lia].
        * exfalso. unfold tree_unreserve_add in Eu. destruct (t_res t); [|discriminate].
          injection Eu as Eu. destruct (policy c (t_class t) (s_free s)); try discriminate Eu;
            eapply tree_put_no_err; exact Eu.
        * crashed.
        * ret_step Q2. apply At_panic in Q2. apply Reach_here. eexists. exact Q2.
      + eapply Reach_weaken; [apply (IH u1 (j + 1) 1%nat _ Hl1); [lia|exact Q]|].
        intros c'. unfold DrPost. destruct (lift _ _) as [[y|e|x] u']; try (intros H; exact H).
        intros H. eapply At_mono; [exact H | lia].
  Qed.

  Lemma drain_classes_sim k n : forall c u d cf, c + N.of_nat n = 8 -> (d <= 40)%nat -> At d u (dr_next u c 0 k) cf ->
    Reach cf (DrPost d k (drain_classes g policy u c n)).
  Proof.
    induction n as [|n IH]; intros c u d cf Hc Hd HA.
    - cbn [drain_classes DrPost]. rewrite dr_next_end in HA by lia. apply Reach_here.
      eapply At_mono; [exact HA | lia].
    - cbn [drain_classes].
      apply (drain_slots_sim k c n ltac:(lia) ltac:(lia)); [| |exact Hd|exact HA].
      + intros u' d' cf' Hd' HA'. apply IH; [lia | exact Hd' | exact HA'].
      + unfold slots_len. destruct (class_slots u c); cbn; lia.
  Qed.

  Lemma drain_sim u cf : At 0 u (dr_next u 0 0 []) cf -> Reach cf (Final (unit_res (llfree_drain g policy u))).
  Proof.
    intros HA. unfold llfree_drain.
    eapply Reach_weaken; [apply (drain_classes_sim [] 8 0 u 0%nat cf); [reflexivity | lia | exact HA]|].
    intros c'. unfold DrPost. destruct (drain_classes g policy u 0 8) as [[y|e|x] u']; cbn [unit_res Final].
    - intros H. apply At_done in H. exact H.
    - intros [].
    - intros H. exact H.
  Qed.

  (* ----- change_tree ----- *)
  (* the huge-entry table covers every tree entry *)
  Definition TreesFit (u : upper) : Prop := ntrees u * THUGE g <= N.of_nat (length (ents (low u))).

  Lemma skipn_nth {A} (l : list A) k x : nth_error l k = Some x -> skipn k l = x :: skipn (S k) l.
  Proof. revert k; induction l as [|a l IH]; intros [|k] H; try discriminate; cbn in *; [congruence | apply IH; exact H]. Qed.

  Lemma ptf_loop_sum u i n : forall j a, (nn j + S n = thuge_nat g)%nat ->
    (nn (i * THUGE g) + thuge_nat g <= length (ents (low u)))%nat ->
    ptf_loop g u i j a (S n) =
      Some (a + fold_right (fun e acc => e_free e + acc) 0 (firstn (S n) (skipn (nn (i * THUGE g + j)) (ents (low u))))).
  Proof.
    pose proof (sr_THUGE_nat g) as HT.
    induction n as [|n IH]; intros j a Hj Hlen.
    - cbn [ptf_loop]. destruct (nth_error (ents (low u)) (nn (i * THUGE g + j))) as [e|] eqn:Ee.
      2: { apply nth_error_None in Ee. unfold nn in *. lia. }
      replace (j + 1 <? THUGE g) with false by (symmetry; apply N.ltb_ge; unfold nn in *; lia).
      rewrite (skipn_nth _ _ _ Ee). cbn [firstn fold_right]. f_equal. lia.
    - remember (S n) as m. cbn [ptf_loop]. destruct (nth_error (ents (low u)) (nn (i * THUGE g + j))) as [e|] eqn:Ee.
      2: { apply nth_error_None in Ee. unfold nn in *. lia. }
      replace (j + 1 <? THUGE g) with true by (symmetry; apply N.ltb_lt; unfold nn in *; lia).
      subst m. rewrite IH by (unfold nn in *; lia).
      rewrite (skipn_nth _ _ _ Ee). cbn [firstn fold_right].
      replace (nn (i * THUGE g + (j + 1))) with (S (nn (i * THUGE g + j))) by (unfold nn; lia).
      f_equal. lia.
  Qed.

  Lemma stats_at_tree u i : TreesFit u -> i < ntrees u ->
    exists s, lower_stats_at g (low u) (i * TF) (tord g) = Ok s /\
              ptf_loop g u i 0 0 (thuge_nat g) = Some (free_frames s).
  Proof.
    intros Hfit Hi. unfold TreesFit in Hfit. pose proof (sr_THUGE_nat g) as HT. pose proof (sr_THUGE_pos g) as HTp.
    pose proof (sr_TF_pos g) as HTF. destruct WF as (W6 & _).
    assert (Hlen : (nn (i * THUGE g) + thuge_nat g <= length (ents (low u)))%nat).
    { unfold nn. assert ((i + 1) * THUGE g <= ntrees u * THUGE g) by (apply N.mul_le_mono_r; lia). lia. }
    unfold lower_stats_at. rewrite N.div_mul by lia.
    replace (has_tree g (low u) i) with true.
    2: { symmetry. unfold has_tree. apply N.leb_le.
         assert ((i + 1) * THUGE g <= ntrees u * THUGE g) by (apply N.mul_le_mono_r; lia). lia. }
    cbn [negb].
    replace (Nat.eqb (tord g) 0) with false by (symmetry; apply Nat.eqb_neq; unfold tord; lia).
    destruct (thuge_nat g) as [|n] eqn:En; [lia|].
    pose proof (ptf_loop_sum u i n 0 0) as Hs. rewrite En in Hs.
    rewrite N.add_0_r in Hs. rewrite Hs by (unfold nn in *; lia). clear Hs.
    destruct (Nat.eqb (tord g) (hord g)) eqn:Eh.
    - (* TREE_HUGE = 1 *)
      apply Nat.eqb_eq in Eh. unfold tord in Eh.
      assert (Htl : tlog g = 0%nat) by lia.
      assert (HT1 : THUGE g = 1) by (unfold THUGE; rewrite Htl; reflexivity).
      assert (n = 0%nat) by lia. subst n.
      replace (i * TF / HF g) with i.
      2: { unfold Bitfield.TF. rewrite HT1. rewrite N.mul_1_l. symmetry. apply N.div_mul. pose proof (sr_HF_pos g). lia. }
      unfold ent. rewrite HT1, N.mul_1_r in *.
      destruct (nth_error (ents (low u)) (nn i)) as [e|] eqn:Ee.
      2: { apply nth_error_None in Ee. unfold nn in *. lia. }
      eexists. split; [reflexivity|]. cbn [free_frames]. rewrite (skipn_nth _ _ _ Ee). cbn [firstn fold_right]. f_equal; lia.
    - rewrite Nat.eqb_refl. eexists. split; [reflexivity|]. cbn [free_frames]. f_equal; lia.
  Qed.

  Lemma apply_change_fetch t class free ch f1 f2 : needs_fetch (FChange class free ch) t = false ->
    tree_apply_change t class free ch f1 = tree_apply_change t class free ch f2.
  Proof.
    cbn [needs_fetch]. unfold change_cond, tree_apply_change. intros H.
    destruct (negb (t_res t) && match class with Some k => k =? t_class t | None => true end && (free <=? t_free t)); [|reflexivity].
    cbn [andb] in H. destruct (c_op ch) as [[|]|]; try reflexivity. rewrite H. reflexivity.
  Qed.

  Lemma change_at_sim u i mclass mfree ch k d cf : TreesFit u -> (d <= 40)%nat ->
    At d u (enter_access u (AcChange mclass mfree ch) i k) cf ->
    Reach cf (fun c' =>
      match trees_change_at g u i mclass mfree ch with
      | (Ok _, u') => At 1 u' (ARet (VR (Ok (0, 0))) k) c'
      | (Err EMemory, u') => At 1 u' (ARet (VR (Err EMemory)) k) c'
      | (Err e, u') => At (Nat.max d 1) u' (ARet (VR (Err e)) k) c'
      | (Panic s, _) => Crashed s c'
      end).
  Proof.
    intros Hfit Hd HA. cbn [enter_access] in HA. unfold trees_change_at.
    destruct (tree_at u i) as [t|] eqn:Et.
    2: { replace (tree_ok u i) with false in HA.
         - apply Reach_here. eapply At_mono; [exact HA | lia].
         - symmetry. apply Bool.not_true_iff_false. intros H. apply tree_ok_at in H. congruence. }
    assert (Hok : tree_ok u i = true) by (apply tree_ok_at; rewrite Et; discriminate).
    rewrite Hok in HA.
    assert (Hi : i < ntrees u) by (unfold tree_ok in Hok; apply N.ltb_lt in Hok; exact Hok).
    destruct (stats_at_tree u i Hfit Hi) as (st & Est & Eptf). rewrite Est.
    assert (HT := fun H => tu_sim g policy u i (FChange mclass mfree ch) (KCh :: k) d cf H).
    unfold enter_tu in HT. rewrite Hok in HT. destruct (HT HA) as (c1 & R1 & Q1). clear HT.
    apply (Reach_trans _ _ _ _ _ R1). clear R1 HA. rewrite Et in Q1. unfold fetch_of in Q1.
    assert (Hfin : forall fetch, tree_apply_change t mclass mfree ch fetch = tree_apply_change t mclass mfree ch (free_frames st) ->
              match tf_apply g policy (dflt u) (FChange mclass mfree ch) t fetch with
              | Some (Ok new) => At 0 (set_tree u i new) (ARet (VT true t new) (KCh :: k)) c1
              | Some (Err _) => c1 = (u, SCrash (SArith 96))
              | Some (Panic s) => c1 = (u, SCrash s)
              | None => At 0 u (ARet (VT false t t) (KCh :: k)) c1
              end ->
              Reach c1 (fun c' =>
                match match tree_apply_change t mclass mfree ch (free_frames st) with
                      | Some t' => (Ok tt, set_tree u i t')
                      | None => (Err EMemory, u)
                      end with
                | (Ok _, u') => At 1 u' (ARet (VR (Ok (0, 0))) k) c'
                | (Err EMemory, u') => At 1 u' (ARet (VR (Err EMemory)) k) c'
                | (Err e, u') => At (Nat.max d 1) u' (ARet (VR (Err e)) k) c'
                | (Panic s, _) => Crashed s c'
                end)).
    { intros fetch Heq Q. cbn [tf_apply] in Q. rewrite Heq in Q.
      destruct (tree_apply_change t mclass mfree ch (free_frames st)) as [t'|]; cbn [option_map] in Q.
      - ret_step Q. apply Reach_here. exact Q.
      - ret_step Q. apply Reach_here. exact Q. }
    destruct (needs_fetch (FChange mclass mfree ch) t) eqn:Enf.
    - rewrite Eptf in Q1. apply (Hfin (free_frames st)); [reflexivity | exact Q1].
    - apply (Hfin 0); [apply apply_change_fetch; exact Enf | exact Q1].
  Qed.

  Definition SePost (d : nat) (k : list kframe) (x : res unit * upper) (c' : CF) : Prop :=
    match x with
    | (Ok _, u') => At (Nat.max d 2 + 1) u' (ARet (VR (Ok (0, 0))) k) c'
    | (Err e, u') => At (Nat.max d 2 + 1) u' (ARet (VR (Err e)) k) c'
    | (Panic s, _) => Crashed s c'
    end.

  Lemma trees_change_at_fit u i mclass mfree ch : TreesFit u ->
    TreesFit (snd (trees_change_at g u i mclass mfree ch)) /\ ntrees (snd (trees_change_at g u i mclass mfree ch)) = ntrees u.
  Proof.
    intros Hfit. unfold trees_change_at. destruct (tree_at u i) as [t|]; [|split; [exact Hfit | reflexivity]].
    assert (E : forall t', TreesFit (set_tree u i t') /\ ntrees (set_tree u i t') = ntrees u).
    { intros t'. unfold TreesFit, ntrees, set_tree, with_trees. cbn [trees low]. rewrite upd_length. split; [exact Hfit | reflexivity]. }
    destruct (lower_stats_at g (low u) (i * TF) (tord g)) as [s| |];
      repeat match goal with
      | |- context [match c_op ch with _ => _ end] => destruct (c_op ch) as [[|]|]
      | |- context [match tree_apply_change ?a ?b ?c ?d ?e with _ => _ end] => destruct (tree_apply_change a b c d e)
      end; cbn [snd]; try apply E; split; try exact Hfit; reflexivity.
  Qed.

  Lemma change_search_sim mclass mfree ch k n : forall u i d cf, TreesFit u -> (d <= 40)%nat ->
    At d u (se_next u (AcChange mclass mfree ch) i n k) cf ->
    Reach cf (SePost d k (search_loop (fun u i => trees_change_at g u i mclass mfree ch) u 0 i n)).
  Proof.
    induction n as [|n IH]; intros u i d cf Hfit Hd HA.
    - cbn [se_next] in HA. cbn [search_loop SePost]. apply Reach_here. eapply At_mono; [exact HA | lia].
    - cbn [se_next] in HA. cbn [search_loop].
      apply (Reach_bind _ _ _ _ _ (change_at_sim _ _ _ _ _ _ _ _ Hfit Hd HA)). intros c1 Q1.
      destruct (trees_change_at_fit u (walk_idx 0 (ntrees u) i) mclass mfree ch Hfit) as [Hfit' _].
      destruct (trees_change_at g u (walk_idx 0 (ntrees u) i) mclass mfree ch) as [[y|[| |]|x] u']; cbn [snd] in Hfit'.
      + ret_step Q1. apply Reach_here. cbn [SePost]. eapply At_mono; [exact Q1 | lia].
      + ret_step Q1. eapply Reach_weaken; [apply (IH u' (i + 1) 2%nat c1 Hfit'); [|exact Q1]; lia|].
        intros c'. unfold SePost. destruct (search_loop _ u' 0 (i + 1) n) as [[y|e|x] u2]; try (intros H; exact H);
          intros H; (eapply At_mono; [exact H | lia]).
      + ret_step Q1. apply Reach_here. cbn [SePost]. eapply At_mono; [exact Q1 | lia].
      + ret_step Q1. apply Reach_here. cbn [SePost]. eapply At_mono; [exact Q1 | lia].
      + apply Reach_here. exact Q1.
  Qed.

  Lemma change_sim u m ch cf : TreesFit u -> At 0 u (enter_change u m ch []) cf ->
    Reach cf (Final (unit_res (llfree_change_tree g u m ch))).
  Proof.
    intros Hfit HA. unfold enter_change in HA. unfold llfree_change_tree, trees_change.
    destruct (m_id m) as [i|].
    - eapply Reach_weaken; [apply (change_at_sim _ _ _ _ _ _ _ _ Hfit (Nat.le_0_l _) HA)|].
      intros c'. destruct (trees_change_at g u i (m_class m) (m_free m) ch) as [[y|[| |]|x] u']; cbn [unit_res Final];
        intros H; try exact H; apply At_done in H; exact H.
    - destruct (ntrees u =? 0).
      + apply Reach_here. apply At_done in HA. exact HA.
      + eapply Reach_weaken; [apply (change_search_sim _ _ _ _ _ _ _ _ _ Hfit (Nat.le_0_l _) HA)|].
        intros c'. unfold SePost. destruct (search_loop _ u 0 0 (length (trees u))) as [[y|e|x] u']; cbn [unit_res Final];
          intros H; try exact H; apply At_done in H; exact H.
  Qed.

  (* ----- from the simulation of a call to the solo run of `ustep` ----- *)
  Definition take_held (c : ucall) (H H' : list (N * nat)) : Prop :=
    match c with UPut f r => client_take H f (r_order r) = Some H' | _ => H' = H end.

  Definition solo_result (u : upper) (P : list uthr) (H' : list (N * nat)) (t : nat) (c : ucall) (s' : m2state) : Prop :=
    match ubig g policy u c with
    | (Panic x, _) => m2_pool s' = upd P t (UPanic x c)
    | (r, u') => s' = ufinish {| m2_up := u'; m2_pool := P; m2_held := H' |} t c r
    end.

  Lemma usolo_of_sim u P H H' t last c : nth_error P t = Some (UIdle last) -> take_held c H H' ->
    (forall cf, At 0 u (enter_call g u c) cf -> Reach cf (Final (ubig g policy u c))) ->
    exists fuel, solo_result u P H' t c (usolo_fuel g policy fuel {| m2_up := u; m2_pool := P; m2_held := H |} t c).
  Proof.
    intros Hth Hh Hsim. pose proof (sr_some_lt _ _ _ Hth) as Ht.
    set (x0 := settle g policy SETTLE u (enter_call g u c)).
    assert (E1 : fst (ustep g policy {| m2_up := u; m2_pool := P; m2_held := H |} t c) = ust P t c u H' x0).
    { unfold ustep. cbn [m2_pool m2_up m2_held]. rewrite Hth. unfold ust.
      destruct c as [fr rq|fr rq| |m ch]; cbn [take_held] in Hh; try (subst H'; reflexivity).
      rewrite Hh. reflexivity. }
    destruct (Hsim (u, x0) (At_0 g policy u _)) as (cf' & R & Hfit).
    assert (Hfin : is_final (snd cf') = true).
    { unfold Final in Hfit. destruct (ubig g policy u c) as [[r|e|x] u']; [subst cf'; reflexivity | subst cf'; reflexivity |].
      destruct Hfit as (u'' & ->). reflexivity. }
    assert (Hres : forall s', s' = ust P t c (fst cf') H' (snd cf') -> solo_result u P H' t c s').
    { intros s' ->. unfold solo_result. unfold Final in Hfit.
      destruct (ubig g policy u c) as [[r|e|x] u']; [subst cf'; reflexivity | subst cf'; reflexivity |].
      destruct Hfit as (u'' & ->). reflexivity. }
    destruct (is_final x0) eqn:Ef.
    - pose proof (sruns_final g policy (u, x0) cf' R Ef) as ->.
      exists 1%nat. apply Hres. cbn [usolo_fuel]. rewrite E1, (ust_thread P t c Ht). cbn [fst snd].
      destruct x0; [discriminate Ef | reflexivity | reflexivity].
    - destruct (sruns_fuel g policy P t c Ht H' (u, x0) cf' R Hfin Ef) as (n & Hn). cbn [fst snd] in Hn.
      exists (S n). apply Hres. cbn [usolo_fuel]. rewrite E1, (ust_thread P t c Ht).
      destruct x0; [exact Hn | discriminate Ef | discriminate Ef].
  Qed.

  Theorem usolo_put u P H H' t last frame r : Shape g (low u) -> nth_error P t = Some (UIdle last) ->
    client_take H frame (r_order r) = Some H' ->
    exists fuel, solo_result u P H' t (UPut frame r)
                   (usolo_fuel g policy fuel {| m2_up := u; m2_pool := P; m2_held := H |} t (UPut frame r)).
  Proof.
    intros Sh Hth Hh. eapply usolo_of_sim; [exact Hth | exact Hh |].
    intros cf HA. cbn [enter_call] in HA. pose proof (put_sim u frame r cf Sh HA) as HR.
    cbn [ubig]. unfold unit_res in HR. destruct (llfree_put g policy u frame r) as [[x|e|s] u']; exact HR.
  Qed.

  Theorem usolo_drain u P H t last : nth_error P t = Some (UIdle last) ->
    exists fuel, solo_result u P H t UDrain (usolo_fuel g policy fuel {| m2_up := u; m2_pool := P; m2_held := H |} t UDrain).
  Proof.
    intros Hth. eapply usolo_of_sim; [exact Hth | reflexivity |].
    intros cf HA. cbn [enter_call] in HA. pose proof (drain_sim u cf HA) as HR.
    cbn [ubig]. unfold unit_res in HR. destruct (llfree_drain g policy u) as [[x|e|s] u']; exact HR.
  Qed.

  Theorem usolo_change u P H t last m ch : TreesFit u -> nth_error P t = Some (UIdle last) ->
    exists fuel, solo_result u P H t (UChange m ch)
                   (usolo_fuel g policy fuel {| m2_up := u; m2_pool := P; m2_held := H |} t (UChange m ch)).
  Proof.
    intros Hfit Hth. eapply usolo_of_sim; [exact Hth | reflexivity |].
    intros cf HA. cbn [enter_call] in HA. pose proof (change_sim u m ch cf Hfit HA) as HR.
    cbn [ubig]. unfold unit_res in HR. destruct (llfree_change_tree g u m ch) as [[x|e|s] u']; exact HR.
  Qed.
End Calls.
