(* C18: executable form of "the indices and the lane of an access are in range" (definitions only; the Prop forms,
   their equivalence and the theorems that every access of every reachable state of the machines M1 / M2 satisfies
   them are in AccessBounds.v).  The correspondence drivers evaluate these on the accesses the compiled code performs
   (ORACLE [C18]). *)
From LLF Require Import Base Row Bitfield Lower.

(* a lane of w bits at bit offset off of a 64-bit row: aligned, inside the row, w = 8, 16, 32 or 64 *)
Definition lane_okb (off w : N) : bool :=
  (off + w <=? 64) && (off mod w =? 0) && ((w =? 8) || (w =? 16) || (w =? 32) || (w =? 64)).
(* row r of bitfield h *)
Definition row_idx_okb (g : geom) (fr h r off w : N) : bool := (h <? nbf g fr) && (r <? ROWS g) && lane_okb off w.
(* huge entry h (table index) *)
Definition ent_idx_okb (g : geom) (fr h off w : N) : bool := (h <? ntab g fr * THUGE g) && (off =? 0) && (w =? 16).
(* tree entry i *)
Definition tree_idx_okb (g : geom) (fr i off w : N) : bool := (i <? ntab g fr) && (off =? 0) && (w =? 32).
(* slot idx of a class with `len` slots (None: the class is not configured) *)
Definition slot_idx_okb (len : option N) (idx off w : N) : bool :=
  match len with Some n => (idx <? n) && (off =? 0) && (w =? 64) | None => false end.
