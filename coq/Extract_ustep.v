(* Extraction for driver `ustep`: machine M2 of the whole allocator (UpperMachine.v, which embeds M1),
   the construction of its boot state (Upper.v `llfree_new`), the policies (Policies.v) and the
   specifications the oracles evaluate on the implementation's own dumps (Spec.v `lower_invb`,
   UpperInvDef.v `upper_invb`, Crash.v / UpperCrash.v `touched_b`, `in_hand`).  ExtrOcamlBasic only; N, positive, nat stay Coq's inductives. *)
From LLF Require Import AccessBoundsDef Base Row Bitfield Lower Spec Sorted Upper UpperInvDef Policies LowerMachine UpperMachine
  ConcInvDef Crash UpperConcInvDef UpperCrash.
Require Import ExtrOcamlBasic.
Extraction Language OCaml.
Set Extraction KeepSingleton.
Extraction "model.ml"
  ustep uboot uheld_ok upanicked llfree_new alloc_all_held pol_select
  enc_tree dec_tree enc_slot dec_slot
  lower_invb upper_invb ustate_new tree_free class_slots
  (* crash points (C05 on M2, UpperCrash.v): the M1 view of an M2 state, blocks in the hands of in-flight gets,
     frames touched by in-flight lower calls; recovery and the ownership specification *)
  m1_of in_hand touched_b covered_b lower_recover abs spec_put_enabled exact_free free_huge_count
  (* C18: the index / lane predicate evaluated on the accesses of the compiled code *)
  row_idx_okb ent_idx_okb tree_idx_okb slot_idx_okb
  popcount.
