(* Preservation of the invariant: compare_exchange_all over huge entries (HC, HU) for get, get_at and put
   at orders >= HUGE_ORDER. *)
From Coq Require Import PeanoNat.
From LLF Require Import Base BitLemmas Row RowProofs Bitfield Lower Spec LowerMachine
  ConcBase ConcInvDef ConcInvGeom ConcInvStep ConcInvTac ConcInvAt.

Section Huge.
  Variable g : geom.
  Hypothesis wf : wf_geom g.
  Notation HF := (HF g).
  Notation THUGE := (THUGE g).
  Notation ROWS := (ROWS g).

  (* ----- an entry owned at entry level is released: MARK -> HF ----- *)
  Lemma inv_ent_release s t x0 x' h cur :
    Inv g s -> nth_error (ms_pool s) t = Some x0 -> rd_ent s h = Some cur ->
    hfr g h x0 = 1 ->
    (forall r i, r < ROWS -> i < 64 -> fr g h r i x' = 0) -> hfr g h x' = 0 ->
    (forall r, tr g h r x' = tr g h r x0) -> pend g h x' = pend g h x0 -> trcount g h x' = trcount g h x0 ->
    (forall h', h' <> h -> gsame g s x0 x' h') ->
    isBad x' = 0 -> local_b g (ms_frames s) x' = true ->
    cur = MARK /\ Inv g (mk_ent s h HF t x' (ms_held s)).
  Proof.
    intros I Ht Hrd Hhf Hfr' Hhf' Htr Hp Htc Hs Hb Hl.
    pose proof (entv_rd s h cur Hrd) as Ec. pose proof (ROWS_pos g wf) as PR. pose proof (HF_lt_MARK g wf) as HM.
    assert (Hcur : cur = MARK).
    { destruct (N.eq_dec cur MARK) as [?|Hne]; [assumption|]. exfalso.
      pose proof (I_F g s I h ltac:(rewrite Ec; exact Hne)). pose proof (sumf_ge (hfr g h) _ _ _ Ht). lia. }
    split; [exact Hcur|]. rewrite Hcur in *. clear Hcur.
    assert (Hh : h < nbf g (ms_frames s)) by (apply (ent_nz_lt g s h I); rewrite Ec; unfold MARK; lia).
    pose proof (local_of' g s t _ I Ht) as L0.
    assert (Hfr0 : forall r i, r < ROWS -> i < 64 -> fr g h r i x0 = 1).
    { intros r i Hr Hi. pose proof (hfr_le_fr g wf (ms_frames s) x0 h r i L0 Hr Hi). unfold fr in *. lia. }
    destruct (K2 g wf s h I Hh Ec) as [Kp Kz].
    apply (inv_ent g s t x0 x' h MARK HF (ms_held s) I Ht Hrd); try assumption; [| |apply I].
    - intros h' Hne. apply gsame_H, Hs, Hne.
    - constructor; intros; rewrite ?(mk_ent_entv _ _ _ _ _ _ _ _ Hrd), ?N.eqb_refl, ?mk_ent_bit, ?mk_ent_zeros in *;
        try (exfalso; lia); try lia.
      + cbn [ms_held mk_ent set_held]. rewrite Ec, (Hfr0 r i), (Hfr' r i), Htr by assumption.
        unfold isMark. destruct (N.eqb_spec HF MARK); [lia|]. rewrite N.eqb_refl. cbn [b2n]. lia.
      + cbn [ms_held mk_ent set_held]. rewrite Hhf', Hhf.
        pose proof (I_B g s I h Hh Ec 0 0 PR ltac:(lia)) as B.
        pose proof (sumf_ge (fr g h 0 0) _ _ _ Ht) as Gf. rewrite (Hfr0 0 0 PR ltac:(lia)) in Gf.
        pose proof (hugec_le_heldc g wf (ms_frames s) (ms_held s) h 0 0 (I_H g s I) PR ltac:(lia)).
        pose proof (hfr_others g wf s t x0 h 0 0 I Ht PR ltac:(lia)) as Ho. rewrite (Hfr0 0 0 PR ltac:(lia)), Hhf in Ho.
        pose proof (sumf_ge (hfr g h) _ _ _ Ht). lia.
  Qed.

  (* a completely free entry lies inside the managed range *)
  Lemma ent_full_in_range s h : Inv g s -> rd_ent s h = Some HF -> (h + 1) * HF <= ms_frames s.
  Proof.
    intros I Hrd. pose proof (entv_rd s h HF Hrd) as Ec. pose proof (ROWS_pos g wf) as PR. pose proof (HF_lt_MARK g wf) as HM.
    pose proof (HF_pos g) as HP.
    assert (Hh : h < nbf g (ms_frames s)) by (apply (ent_nz_lt g s h I); rewrite Ec; lia).
    assert (Hne : entv s h <> MARK) by (rewrite Ec; lia).
    pose proof (K1 g wf s h I Hh Hne) as K. rewrite Ec in K.
    assert (K1o : goor g s h = 0) by lia.
    pose proof (gsum_zero g _ K1o (ROWS - 1) 63 ltac:(lia) ltac:(lia)) as O. cbv beta in O. unfold oor, fidx in O.
    pose proof (HF_64 g wf). destruct (N.leb_spec (ms_frames s) (h * HF + (ROWS - 1) * 64 + 63)); [cbn in O; lia|]. nia.
  Qed.

  (* ----- a completely free entry is claimed: HF -> MARK ----- *)
  Lemma inv_ent_claim s t x0 x' h held' :
    Inv g s -> nth_error (ms_pool s) t = Some x0 -> rd_ent s h = Some HF ->
    (forall r i, r < ROWS -> i < 64 ->
       heldc (fidx g h r i) held' + fr g h r i x' = heldc (fidx g h r i) (ms_held s) + fr g h r i x0 + 1) ->
    (forall r, tr g h r x' = 0) -> pend g h x' = 0 -> trcount g h x' = 0 -> needsC g h x' = 0 ->
    (forall h', h' <> h -> gsameH g s held' x0 x' h') ->
    isBad x' = 0 -> local_b g (ms_frames s) x' = true ->
    Forall (fun b => blk_ok (ms_frames s) b = true) held' ->
    (h + 1) * HF <= ms_frames s /\ Inv g (mk_ent s h MARK t x' held').
  Proof.
    intros I Ht Hrd Hfr Htr Hp Htc Hnd Hs Hb Hl Hhe.
    pose proof (entv_rd s h HF Hrd) as Ec. pose proof (ROWS_pos g wf) as PR. pose proof (HF_lt_MARK g wf) as HM.
    pose proof (HF_pos g) as HP.
    assert (Hh : h < nbf g (ms_frames s)) by (apply (ent_nz_lt g s h I); rewrite Ec; lia).
    assert (Hne : entv s h <> MARK) by (rewrite Ec; lia).
    pose proof (K1 g wf s h I Hh Hne) as K. rewrite Ec in K.
    assert (K1p : sumf (pend g h) (ms_pool s) = 0) by lia.
    assert (K1h : gheld g s h = 0) by lia.
    assert (K1f : sumf (gfr g h) (ms_pool s) = 0) by lia.
    assert (K1o : goor g s h = 0) by lia.
    assert (Hq : forall x, In x (ms_pool s) ->
              trcount g h x = 0 /\ (forall r, tr g h r x = 0) /\ needsC g h x = 0 /\ hfr g h x = 0).
    { intros x Hx. apply (quiet_thread g wf h x).
      - apply (local_gwf g wf (ms_frames s)). exact (proj1 (Forall_forall _ _) (I_L g s I) x Hx).
      - pose proof (sumf_zero _ _ K1p x Hx). pose proof (sumf_zero _ _ K1f x Hx). lia. }
    assert (Hheld0 : forall r i, r < ROWS -> i < 64 -> heldc (fidx g h r i) (ms_held s) = 0).
    { intros r i Hr Hi. exact (gsum_zero g _ K1h r i Hr Hi). }
    assert (Hfrs0 : forall r i, r < ROWS -> i < 64 -> sumf (fr g h r i) (ms_pool s) = 0).
    { intros r i Hr Hi. apply sumf_all_zero. intros x Hx. pose proof (sumf_zero _ _ K1f x Hx) as G0.
      exact (gsum_zero g _ G0 r i Hr Hi). }
    assert (Hin : (h + 1) * HF <= ms_frames s).
    { pose proof (gsum_zero g _ K1o (ROWS - 1) 63 ltac:(lia) ltac:(lia)) as O. cbv beta in O. unfold oor, fidx in O.
      pose proof (HF_64 g wf). destruct (N.leb_spec (ms_frames s) (h * HF + (ROWS - 1) * 64 + 63)); [cbn in O; lia|]. nia. }
    split; [exact Hin|].
    apply (inv_ent g s t x0 x' h HF MARK held' I Ht Hrd); try assumption.
    constructor; intros; rewrite ?(mk_ent_entv _ _ _ _ _ _ _ _ Hrd), ?N.eqb_refl, ?mk_ent_bit, ?mk_ent_zeros in *;
      try (exfalso; lia); try lia.
    - cbn [ms_held mk_ent set_held]. rewrite Ec. specialize (Hfr r i H0 H1). rewrite Htr.
      pose proof (sumf_ge (tr g h r) _ _ _ Ht) as Gt.
      assert (tr g h r x0 = 0) by (apply (Hq x0); eapply nth_error_In; exact Ht).
      unfold isMark. destruct (N.eqb_spec HF MARK); [lia|]. rewrite N.eqb_refl. cbn [b2n]. lia.
    - cbn [ms_held mk_ent set_held]. specialize (Hfr r i H1 H2). rewrite (Hheld0 r i) in Hfr by assumption.
      pose proof (Hfrs0 r i H1 H2). lia.
    - rewrite Hnd. assert (needsC g h x0 = 0) by (apply (Hq x0); eapply nth_error_In; exact Ht).
      assert (sumf (needsC g h) (ms_pool s) = 0) by (apply sumf_all_zero; intros x Hx; apply (Hq x Hx)). lia.
  Qed.

  (* ----- threads whose ghost is entry-level ownership of the entries [a, a + cnt) ----- *)
  Record ent_own (x : thr) (a cnt : N) : Prop := {
    EO_fr : forall h r i, r < ROWS -> i < 64 -> fr g h r i x = b2n (inb a cnt h);
    EO_hfr : forall h, hfr g h x = b2n (inb a cnt h);
    EO_tr : forall h r, tr g h r x = 0;
    EO_pend : forall h, pend g h x = 0;
    EO_trc : forall h, trcount g h x = 0;
    EO_nd : forall h, needsC g h x = 0
  }.
  Lemma ent_own_ghuge x a cnt : ghost_of g x = ghuge (a * HF) (cnt * HF) -> ent_own x a cnt.
  Proof.
    intros E. pose proof (HF_pos g) as HP.
    constructor; intros; unfold fr, tr, pend, trcount, needsC, hfr; rewrite E; cbn [g_h own_lo own_n tr_lo tr_n p_n nd hu ghuge andb].
    - unfold fidx. rewrite <- N.add_assoc. rewrite (inb_ents g a cnt h (r * 64 + i)); [reflexivity|]. apply (rowbit_lt g wf); assumption.
    - replace (h * HF) with (h * HF + 0) by lia. rewrite (inb_ents g a cnt h 0) by lia. reflexivity.
    - unfold inb. lia.
    - destruct (h =? 0); reflexivity.
    - destruct (h =? 0); reflexivity.
    - lia.
  Qed.
  Lemma ent_own_idle l a : ent_own (TIdle l) a 0.
  Proof. constructor; intros; gsimp; unfold inb; try lia; destr_if; lia. Qed.

  Lemma gsame_ent_own s x0 x' a cnt a' cnt' h : ent_own x0 a cnt -> ent_own x' a' cnt' ->
    inb a' cnt' h = inb a cnt h -> gsame g s x0 x' h.
  Proof.
    intros [F0 H0 T0 P0 C0 N0] [F1 H1 T1 P1 C1 N1] E.
    constructor; intros; rewrite ?F0, ?F1, ?H0, ?H1, ?T0, ?T1, ?P0, ?P1, ?C0, ?C1, ?N0, ?N1 by assumption; rewrite ?E; lia.
  Qed.

  (* a held block of huge order in entry coordinates *)
  Lemma cover_huge_blk a k h r i : (hord g <= k)%nat -> r < ROWS -> i < 64 ->
    cover (a * HF, k) (fidx g h r i) = inb a (pow2 (k - hord g)) h.
  Proof.
    intros Hk Hr Hi. unfold cover, fidx. cbn [fst snd]. rewrite (pow2_split (hord g) k Hk), <- HF_pow2, <- N.add_assoc.
    apply (inb_ents g). apply (rowbit_lt g wf); assumption.
  Qed.
  Lemma hugeb_huge_blk a k h : (hord g <= k)%nat -> hugeb g h (a * HF, k) = b2n (inb a (pow2 (k - hord g)) h).
  Proof.
    intros Hk. unfold hugeb, cover. cbn [fst snd]. destruct (Nat.leb_spec (hord g) k); [|lia]. cbn [andb].
    rewrite (pow2_split (hord g) k Hk), <- HF_pow2. replace (h * HF) with (h * HF + 0) by lia.
    pose proof (HF_pos g). rewrite (inb_ents g a _ h 0) by lia. reflexivity.
  Qed.

  (* ----- the ghost at HC / HU in entry coordinates ----- *)
  Lemma own_put_HC fm c gi q : cwf g fm c = true -> (hord g <= c_order c)%nat -> is_put c = true ->
    ent_own (TRun c (HC gi q)) (c_huge g c + q) (c_hnum g c - q).
  Proof.
    intros Hc Hk Hp. apply ent_own_ghuge. cbn [ghost_of gpc]. rewrite Hp.
    destruct (huge_call_aligned g fm c Hc Hk (is_put_not_get c Hp)) as [E1 E2].
    rewrite E1, E2, N.mul_sub_distr_r, N.mul_add_distr_r. reflexivity.
  Qed.
  Lemma own_get_HC c gi q : is_put c = false -> ent_own (TRun c (HC gi q)) (group_h g c gi) q.
  Proof. intros Hp. apply ent_own_ghuge. cbn [ghost_of gpc]. rewrite Hp. reflexivity. Qed.
  Lemma own_get_HU c gi q : is_put c = false -> ent_own (TRun c (HU gi q)) (group_h g c gi) (q + 1).
  Proof. intros Hp. apply ent_own_ghuge. cbn [ghost_of gpc]. rewrite Hp. reflexivity. Qed.

  Definition next_group_thr (c : call) (gi : N) : thr :=
    if gi + 1 <? group_cnt g c then TRun c (HC (gi + 1) 0) else TIdle (Some (Err EMemory)).
  Lemma next_group_eq s t c gi : next_group g s t c gi = set_thr s t (next_group_thr c gi).
  Proof. unfold next_group, next_group_thr. destruct (gi + 1 <? group_cnt g c); [reflexivity|apply finish_err']. Qed.
  Lemma next_group_own c gi : is_put c = false -> exists a, ent_own (next_group_thr c gi) a 0.
  Proof.
    intros Hp. unfold next_group_thr. destruct (gi + 1 <? group_cnt g c).
    - exists (group_h g c (gi + 1)). apply own_get_HC. exact Hp.
    - exists 0. apply ent_own_idle.
  Qed.
  Lemma next_group_local fm c gi q : cwf g fm c = true -> lpc g fm c (HC gi q) = true ->
    local_b g fm (next_group_thr c gi) = true /\ isBad (next_group_thr c gi) = 0.
  Proof.
    intros Hc L. cbn [lpc] in L. unfold next_group_thr. destruct (gi + 1 <? group_cnt g c) eqn:E; [|split; reflexivity].
    split; [|reflexivity]. cbn [local_b lpc]. assert (0 <? c_hnum g c = true) by (apply N.ltb_lt, pow2_pos). lia.
  Qed.

  Lemma step_HC s t c gi q c0 : Inv g s -> nth_error (ms_pool s) t = Some (TRun c (HC gi q)) ->
    Inv g (fst (mstep g s t c0)).
  Proof.
    intros I Ht. pose proof (local_of' g s t _ I Ht) as L. cbn [local_b] in L.
    apply andb_true_iff in L. destruct L as [Hc L]. pose proof L as L0. cbn [lpc] in L.
    assert (Hk : (hord g <= c_order c)%nat) by lia.
    unfold mstep. rewrite Ht. cbv beta iota zeta.
    destruct (huge_group g (ms_frames s) c gi Hc Hk) as [Hgrp Hal].
    set (gh := group_h g c gi) in *. set (h := gh + q).
    destruct (has_ent g s h I) as [cur Ev]; [unfold h; lia|]. rewrite Ev.
    pose proof (HF_lt_MARK g wf) as HM. pose proof (HF_pos g) as HP.
    destruct (is_put c) eqn:Ep.
    - (* put: the entry is the marker *)
      assert (Ecur : cas_cur g c = MARK /\ cas_new g c = HF /\ gh = c_huge g c) by (destruct c; try discriminate; auto).
      destruct Ecur as (E1 & E2 & E3). rewrite E1, E2.
      pose proof (own_put_HC (ms_frames s) c gi q Hc Hk Ep) as O0. rewrite <- E3 in O0.
      set (x' := if q + 1 <? c_hnum g c then TRun c (HC gi (q + 1)) else TIdle (Some (Ok 0))).
      assert (O1 : ent_own x' (gh + (q + 1)) (c_hnum g c - (q + 1))).
      { unfold x'. destruct (q + 1 <? c_hnum g c) eqn:Eq.
        - pose proof (own_put_HC (ms_frames s) c gi (q + 1) Hc Hk Ep) as O. rewrite <- E3 in O. exact O.
        - replace (c_hnum g c - (q + 1)) with 0 by lia. apply ent_own_idle. }
      destruct (inv_ent_release s t _ x' h cur I Ht Ev) as [Hcur Hinv].
      + rewrite (EO_hfr _ _ _ O0). unfold inb, h. lia.
      + intros r i Hr Hi. rewrite (EO_fr _ _ _ O1) by assumption. unfold inb, h. lia.
      + rewrite (EO_hfr _ _ _ O1). unfold inb, h. lia.
      + intros r. rewrite (EO_tr _ _ _ O1), (EO_tr _ _ _ O0). reflexivity.
      + rewrite (EO_pend _ _ _ O1), (EO_pend _ _ _ O0). reflexivity.
      + rewrite (EO_trc _ _ _ O1), (EO_trc _ _ _ O0). reflexivity.
      + intros h' Hne. apply (gsame_ent_own s _ _ _ _ _ _ h' O0 O1). unfold inb, h in *. lia.
      + unfold x'. destruct (q + 1 <? c_hnum g c); reflexivity.
      + unfold x'. destruct (q + 1 <? c_hnum g c) eqn:Eq; [|reflexivity]. cbn [local_b lpc]. lia.
      + subst cur. rewrite N.eqb_refl. cbn [fst]. unfold x' in Hinv.
        destruct (q + 1 <? c_hnum g c); [exact Hinv|].
        assert (Ef : finish (wr_ent s h HF) t c (match c with CPut _ _ => Ok 0 | _ => Ok (gh * HF) end)
                     = mk_ent s h HF t (TIdle (Some (Ok 0))) (ms_held s)) by (destruct c; try discriminate; reflexivity).
        rewrite Ef. exact Hinv.
    - (* get / get_at: the entry must be completely free *)
      assert (Ecur : cas_cur g c = HF /\ cas_new g c = MARK) by (destruct c; try discriminate; auto).
      destruct Ecur as (E1 & E2). rewrite E1, E2.
      pose proof (own_get_HC c gi q Ep) as O0. fold gh in O0.
      destruct (N.eqb_spec cur HF) as [->|Hne]; cbn [fst].
      + pose proof (ent_full_in_range s h I Ev) as Hin.
        destruct (q + 1 <? c_hnum g c) eqn:Eq.
        * (* one more entry claimed *)
          pose proof (own_get_HC c gi (q + 1) Ep) as O1. fold gh in O1.
          change (Inv g (mk_ent s h MARK t (TRun c (HC gi (q + 1))) (ms_held s))).
          apply (inv_ent_claim s t _ _ h (ms_held s) I Ht Ev).
          -- intros r i Hr Hi. rewrite (EO_fr _ _ _ O1), (EO_fr _ _ _ O0) by assumption. unfold inb, h. lia.
          -- intros r. apply (EO_tr _ _ _ O1).
          -- apply (EO_pend _ _ _ O1).
          -- apply (EO_trc _ _ _ O1).
          -- apply (EO_nd _ _ _ O1).
          -- intros h' Hne'. apply gsame_H. apply (gsame_ent_own s _ _ _ _ _ _ h' O0 O1). unfold inb, h in *. lia.
          -- reflexivity.
          -- cbn [local_b lpc]. lia.
          -- apply I.
        * (* the last entry: the block is handed out *)
          assert (Ehn : c_hnum g c = q + 1) by lia.
          assert (Ef : finish (wr_ent s h MARK) t c (match c with CPut _ _ => Ok 0 | _ => Ok (gh * HF) end)
                       = mk_ent s h MARK t (TIdle (Some (Ok (gh * HF)))) ((gh * HF, c_order c) :: ms_held s)).
          { destruct c; try discriminate; reflexivity. }
          rewrite Ef.
          apply (inv_ent_claim s t _ _ h _ I Ht Ev).
          -- intros r i Hr Hi. rewrite heldc_cons, (cover_huge_blk gh (c_order c) h r i Hk Hr Hi), (EO_fr _ _ _ O0) by assumption.
             fold (c_hnum g c). rewrite Ehn. gsimp. unfold inb, h. lia.
          -- intros r. gsimp. unfold inb. lia.
          -- gsimp. destr_if; lia.
          -- gsimp. destr_if; lia.
          -- gsimp. lia.
          -- intros h' Hne'. constructor; intros; rewrite ?(EO_tr _ _ _ O0), ?(EO_pend _ _ _ O0), ?(EO_trc _ _ _ O0), ?(EO_nd _ _ _ O0);
               try (gsimp; unfold inb; try lia; destr_if; lia).
             ++ rewrite heldc_cons, (cover_huge_blk gh (c_order c) h' r i Hk H H0), (EO_fr _ _ _ O0) by assumption.
                fold (c_hnum g c). rewrite Ehn. gsimp. unfold inb, h in *. lia.
             ++ rewrite hugec_cons, (hugeb_huge_blk gh (c_order c) h' Hk), (EO_hfr _ _ _ O0).
                fold (c_hnum g c). rewrite Ehn. gsimp. unfold inb, h in *. lia.
          -- reflexivity.
          -- reflexivity.
          -- constructor; [|apply I]. unfold blk_ok. cbn [fst snd]. apply andb_true_iff. split; [apply N.eqb_eq; exact Hal|].
             apply N.leb_le. unfold c_hnum in Ehn. rewrite (pow2_split (hord g) (c_order c) Hk), <- HF_pow2, Ehn. unfold h in Hin. lia.
      + destruct (N.eqb_spec q 0) as [->|Hq].
        * rewrite next_group_eq. destruct (next_group_own c gi Ep) as [a O1].
          destruct (next_group_local (ms_frames s) c gi 0 Hc L0) as [Hl Hb].
          apply (inv_plain g s t _ _ I Ht); [|exact Hb|exact Hl].
          intros h'. apply (gsame_ent_own s _ _ _ _ _ _ h' O0 O1). unfold inb. lia.
        * pose proof (own_get_HU c gi (q - 1) Ep) as O1. fold gh in O1. replace (q - 1 + 1) with q in O1 by lia.
          apply (inv_plain g s t _ _ I Ht); [|reflexivity|].
          -- intros h'. apply (gsame_ent_own s _ _ _ _ _ _ h' O0 O1). reflexivity.
          -- cbn [local_b lpc]. rewrite Ep. cbn [negb]. lia.
  Qed.

  Lemma step_HU s t c gi q c0 : Inv g s -> nth_error (ms_pool s) t = Some (TRun c (HU gi q)) ->
    Inv g (fst (mstep g s t c0)).
  Proof.
    intros I Ht. pose proof (local_of' g s t _ I Ht) as L. cbn [local_b] in L.
    apply andb_true_iff in L. destruct L as [Hc L]. cbn [lpc] in L.
    assert (Hk : (hord g <= c_order c)%nat) by lia.
    assert (Ep : is_put c = false) by (destruct (is_put c); [cbn in L; lia|reflexivity]).
    assert (L0 : lpc g (ms_frames s) c (HC gi q) = true) by (cbn [lpc]; lia).
    unfold mstep. rewrite Ht. cbv beta iota zeta.
    destruct (huge_group g (ms_frames s) c gi Hc Hk) as [Hgrp Hal].
    set (gh := group_h g c gi) in *. set (h := gh + q).
    destruct (has_ent g s h I) as [cur Ev]; [unfold h; lia|]. rewrite Ev.
    assert (Ecur : cas_cur g c = HF /\ cas_new g c = MARK) by (destruct c; try discriminate; auto).
    destruct Ecur as (E1 & E2). rewrite E1, E2.
    pose proof (own_get_HU c gi q Ep) as O0. fold gh in O0.
    set (x' := if q =? 0 then next_group_thr c gi else TRun c (HU gi (q - 1))).
    assert (O1 : exists a, ent_own x' a q /\ (q <> 0 -> a = gh)).
    { unfold x'. destruct (N.eqb_spec q 0) as [->|Hq].
      - destruct (next_group_own c gi Ep) as [a O]. exists a. split; [exact O|congruence].
      - exists gh. split; [|reflexivity]. pose proof (own_get_HU c gi (q - 1) Ep) as O. fold gh in O.
        replace (q - 1 + 1) with q in O by lia. exact O. }
    destruct O1 as (a & O1 & Ha).
    destruct (inv_ent_release s t _ x' h cur I Ht Ev) as [Hcur Hinv].
    - rewrite (EO_hfr _ _ _ O0). unfold inb, h. lia.
    - intros r i Hr Hi. rewrite (EO_fr _ _ _ O1) by assumption. unfold inb, h. destruct (N.eq_dec q 0); [lia|]. rewrite (Ha n). lia.
    - rewrite (EO_hfr _ _ _ O1). unfold inb, h. destruct (N.eq_dec q 0); [lia|]. rewrite (Ha n). lia.
    - intros r. rewrite (EO_tr _ _ _ O1), (EO_tr _ _ _ O0). reflexivity.
    - rewrite (EO_pend _ _ _ O1), (EO_pend _ _ _ O0). reflexivity.
    - rewrite (EO_trc _ _ _ O1), (EO_trc _ _ _ O0). reflexivity.
    - intros h' Hne. apply (gsame_ent_own s _ _ _ _ _ _ h' O0 O1). unfold inb, h in *.
      destruct (N.eq_dec q 0); [lia|]. rewrite (Ha n). lia.
    - unfold x'. destruct (q =? 0); [apply (next_group_local (ms_frames s) c gi q Hc L0)|reflexivity].
    - unfold x'. destruct (N.eqb_spec q 0); [apply (next_group_local (ms_frames s) c gi q Hc L0)|].
      cbn [local_b lpc]. rewrite Ep. cbn [negb]. lia.
    - subst cur. rewrite N.eqb_refl. cbn [fst]. unfold x' in Hinv.
      destruct (q =? 0); [rewrite next_group_eq|]; exact Hinv.
  Qed.
End Huge.
