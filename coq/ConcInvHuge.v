(* Preservation of the invariant: compare_exchange_all over huge entries (HC, HU) for get, get_at and put
   at orders >= HUGE_ORDER. *)
From Coq Require Import PeanoNat.
From LLF Require Import Base BitLemmas Row RowProofs Bitfield Lower Spec LowerMachine
  ConcBase ConcInvDef ConcInvGeom ConcInvStep ConcInvTac ConcInvAt.

Section Huge.
  Variable g : geom.
  Hypothesis wf : wf_geom g.
  Notation HF := (HF g).
  Notation THUGE := (THUGE g).
  Notation ROWS := (ROWS g).

  (* ----- an entry owned at entry level is released: MARK -> HF ----- *)
  Lemma inv_ent_release s t x0 x' h cur :
    Inv g s -> nth_error (ms_pool s) t = Some x0 -> rd_ent s h = Some cur ->
    hfr g h x0 = 1 ->
    (forall r i, r < ROWS -> i < 64 -> fr g h r i x' = 0) -> hfr g h x' = 0 ->
    (forall r, tr g h r x' = tr g h r x0) -> pend g h x' = pend g h x0 -> trcount g h x' = trcount g h x0 ->
    (forall h', h' <> h -> gsame g s x0 x' h') ->
    isBad x' = 0 -> local_b g (ms_frames s) x' = true ->
    cur = MARK /\ Inv g (mk_ent s h HF t x' (ms_held s)).
  Proof.
    intros I Ht Hrd Hhf Hfr' Hhf' Htr Hp Htc Hs Hb Hl.
    pose proof (entv_rd s h cur Hrd) as Ec. pose proof (ROWS_pos g wf) as PR. pose proof (HF_lt_MARK g wf) as HM.
    assert (Hcur : cur = MARK).
    { destruct (N.eq_dec cur MARK) as [?|Hne]; [assumption|]. exfalso.
      pose proof (I_F g s I h ltac:(rewrite Ec; exact Hne)). pose proof (sumf_ge (hfr g h) _ _ _ Ht). lia. }
    split; [exact Hcur|]. rewrite Hcur in *. clear Hcur.
    assert (Hh : h < nbf g (ms_frames s)) by (apply (ent_nz_lt g s h I); rewrite Ec; unfold MARK; lia).
    pose proof (local_of' g s t _ I Ht) as L0.
    assert (Hfr0 : forall r i, r < ROWS -> i < 64 -> fr g h r i x0 = 1).
    { intros r i Hr Hi. pose proof (hfr_le_fr g wf (ms_frames s) x0 h r i L0 Hr Hi). unfold fr in *. lia. }
    destruct (K2 g wf s h I Hh Ec) as [Kp Kz].
    apply (inv_ent g s t x0 x' h MARK HF (ms_held s) I Ht Hrd); try assumption; [| |apply I].
    - intros h' Hne. apply gsame_H, Hs, Hne.
    - constructor; intros; rewrite ?(mk_ent_entv _ _ _ _ _ _ _ _ Hrd), ?N.eqb_refl, ?mk_ent_bit, ?mk_ent_zeros in *;
        try (exfalso; lia); try lia.
      + cbn [ms_held mk_ent set_held]. rewrite Ec, (Hfr0 r i), (Hfr' r i), Htr by assumption.
        unfold isMark. destruct (N.eqb_spec HF MARK); [lia|]. rewrite N.eqb_refl. cbn [b2n]. lia.
      + cbn [ms_held mk_ent set_held]. rewrite Hhf', Hhf.
        pose proof (I_B g s I h Hh Ec 0 0 PR ltac:(lia)) as B.
        pose proof (sumf_ge (fr g h 0 0) _ _ _ Ht) as Gf. rewrite (Hfr0 0 0 PR ltac:(lia)) in Gf.
        pose proof (hugec_le_heldc g wf (ms_frames s) (ms_held s) h 0 0 (I_H g s I) PR ltac:(lia)).
        pose proof (hfr_others g wf s t x0 h 0 0 I Ht PR ltac:(lia)) as Ho. rewrite (Hfr0 0 0 PR ltac:(lia)), Hhf in Ho.
        pose proof (sumf_ge (hfr g h) _ _ _ Ht). lia.
  Qed.

  (* ----- a completely free entry is claimed: HF -> MARK ----- *)
  Lemma inv_ent_claim s t x0 x' h held' :
    Inv g s -> nth_error (ms_pool s) t = Some x0 -> rd_ent s h = Some HF ->
    (forall r i, r < ROWS -> i < 64 ->
       heldc (fidx g h r i) held' + fr g h r i x' = heldc (fidx g h r i) (ms_held s) + fr g h r i x0 + 1) ->
    (forall r, tr g h r x' = 0) -> pend g h x' = 0 -> trcount g h x' = 0 -> needsC g h x' = 0 ->
    (forall h', h' <> h -> gsameH g s held' x0 x' h') ->
    isBad x' = 0 -> local_b g (ms_frames s) x' = true ->
    Forall (fun b => blk_ok (ms_frames s) b = true) held' ->
    (h + 1) * HF <= ms_frames s /\ Inv g (mk_ent s h MARK t x' held').
  Proof.
    intros I Ht Hrd Hfr Htr Hp Htc Hnd Hs Hb Hl Hhe.
    pose proof (entv_rd s h HF Hrd) as Ec. pose proof (ROWS_pos g wf) as PR. pose proof (HF_lt_MARK g wf) as HM.
    pose proof (HF_pos g) as HP.
    assert (Hh : h < nbf g (ms_frames s)) by (apply (ent_nz_lt g s h I); rewrite Ec; lia).
    assert (Hne : entv s h <> MARK) by (rewrite Ec; lia).
    pose proof (K1 g wf s h I Hh Hne) as K. rewrite Ec in K.
    assert (K1p : sumf (pend g h) (ms_pool s) = 0) by lia.
    assert (K1h : gheld g s h = 0) by lia.
    assert (K1f : sumf (gfr g h) (ms_pool s) = 0) by lia.
    assert (K1o : goor g s h = 0) by lia.
    assert (Hq : forall x, In x (ms_pool s) ->
              trcount g h x = 0 /\ (forall r, tr g h r x = 0) /\ needsC g h x = 0 /\ hfr g h x = 0).
    { intros x Hx. apply (quiet_thread g wf h x).
      - apply (local_gwf g wf (ms_frames s)). exact (proj1 (Forall_forall _ _) (I_L g s I) x Hx).
      - pose proof (sumf_zero _ _ K1p x Hx). pose proof (sumf_zero _ _ K1f x Hx). lia. }
    assert (Hheld0 : forall r i, r < ROWS -> i < 64 -> heldc (fidx g h r i) (ms_held s) = 0).
    { intros r i Hr Hi. exact (gsum_zero g _ K1h r i Hr Hi). }
    assert (Hfrs0 : forall r i, r < ROWS -> i < 64 -> sumf (fr g h r i) (ms_pool s) = 0).
    { intros r i Hr Hi. apply sumf_all_zero. intros x Hx. pose proof (sumf_zero _ _ K1f x Hx) as G0.
      exact (gsum_zero g _ G0 r i Hr Hi). }
    assert (Hin : (h + 1) * HF <= ms_frames s).
    { pose proof (gsum_zero g _ K1o (ROWS - 1) 63 ltac:(lia) ltac:(lia)) as O. cbv beta in O. unfold oor, fidx in O.
      pose proof (HF_64 g wf). destruct (N.leb_spec (ms_frames s) (h * HF + (ROWS - 1) * 64 + 63)); [cbn in O; lia|]. nia. }
    split; [exact Hin|].
    apply (inv_ent g s t x0 x' h HF MARK held' I Ht Hrd); try assumption.
    constructor; intros; rewrite ?(mk_ent_entv _ _ _ _ _ _ _ _ Hrd), ?N.eqb_refl, ?mk_ent_bit, ?mk_ent_zeros in *;
      try (exfalso; lia); try lia.
    - cbn [ms_held mk_ent set_held]. rewrite Ec. specialize (Hfr r i H0 H1). rewrite Htr.
      pose proof (sumf_ge (tr g h r) _ _ _ Ht) as Gt.
      assert (tr g h r x0 = 0) by (apply (Hq x0); eapply nth_error_In; exact Ht).
      unfold isMark. destruct (N.eqb_spec HF MARK); [lia|]. rewrite N.eqb_refl. cbn [b2n]. lia.
    - cbn [ms_held mk_ent set_held]. specialize (Hfr r i H1 H2). rewrite (Hheld0 r i) in Hfr by assumption.
      pose proof (Hfrs0 r i H1 H2). lia.
    - rewrite Hnd. assert (needsC g h x0 = 0) by (apply (Hq x0); eapply nth_error_In; exact Ht).
      assert (sumf (needsC g h) (ms_pool s) = 0) by (apply sumf_all_zero; intros x Hx; apply (Hq x Hx)). lia.
  Qed.
End Huge.
