(* C16, part 1: the bounded sorted candidate buffer (`SortedBuffer`, as repaired) keeps the
   `min cap |xs|` best elements of every insertion sequence, sorted, and is read best first.
   Proofs about the model in Sorted.v; `le` is any total preorder on keys (boolean `<=`). *)
From LLF Require Import Base Sorted.
From Coq Require Import Arith PeanoNat Sorting.Sorted Sorting.Permutation.

(* ascending / descending by key; StronglySorted = every element is related to ALL later ones *)
Definition kle {K V} (le : K -> K -> bool) (a b : K * V) : Prop := le (fst a) (fst b) = true.
Definition kge {K V} (le : K -> K -> bool) (a b : K * V) : Prop := le (fst b) (fst a) = true.
Definition asc_by {K V} (le : K -> K -> bool) (l : list (K * V)) : Prop := StronglySorted (kle le) l.
Definition desc_by {K V} (le : K -> K -> bool) (l : list (K * V)) : Prop := StronglySorted (kge le) l.

Section Generic.
  Context {A : Type}.
  Lemma StronglySorted_app (R : A -> A -> Prop) l1 l2 :
    StronglySorted R l1 -> StronglySorted R l2 ->
    (forall a b, In a l1 -> In b l2 -> R a b) ->
    StronglySorted R (l1 ++ l2).
  Proof.
    induction l1 as [|a l1 IH]; intros H1 H2 H; cbn [app]; auto.
    inversion H1; subst. constructor.
    - apply IH; auto. intros; apply H; cbn [In]; auto.
    - apply Forall_app; split; auto.
      apply Forall_forall; intros b Hb. apply H; cbn [In]; auto.
  Qed.

  Lemma StronglySorted_rev (R : A -> A -> Prop) l :
    StronglySorted R l -> StronglySorted (fun a b => R b a) (rev l).
  Proof.
    induction 1 as [|a l Hs IH Hf]; cbn [rev]; [constructor|].
    apply StronglySorted_app; auto.
    - repeat constructor.
    - intros x y Hx [<-|[]]. apply in_rev in Hx.
      rewrite Forall_forall in Hf; auto.
  Qed.
End Generic.

Section SortedBufferProofs.
  Context {K V : Type}.
  Variable le : K -> K -> bool.
  Hypothesis le_total : forall a b, le a b || le b a = true.
  Hypothesis le_trans : forall a b c, le a b = true -> le b c = true -> le a c = true.

  Notation E := (K * V)%type.

  Lemma kle_trans (a b c : E) : (kle le) a b -> (kle le) b c -> (kle le) a c.
  Proof. unfold kle; eauto. Qed.

  Lemma not_le_ge a b : le a b = false -> le b a = true.
  Proof. intros H; generalize (le_total a b); rewrite H; auto. Qed.

  (* ---- insert_at ---- *)
  Lemma insert_at_perm n (x : E) l : Permutation (x :: l) (insert_at n x l).
  Proof.
    revert l; induction n as [|n IH]; intros [|a r]; cbn [insert_at]; auto.
    eapply perm_trans; [apply perm_swap|]. apply perm_skip, IH.
  Qed.

  Lemma insert_at_length n (x : E) l : length (insert_at n x l) = S (length l).
  Proof. symmetry. apply (Permutation_length (insert_at_perm n x l)). Qed.

  Lemma insert_at_in n (x y : E) l : In y (insert_at n x l) <-> y = x \/ In y l.
  Proof.
    split; intros H.
    - apply (Permutation_in _ (Permutation_sym (insert_at_perm n x l))) in H.
      destruct H; auto.
    - apply (Permutation_in _ (insert_at_perm n x l)). destruct H; [left|right]; auto.
  Qed.

  (* inserting at the position found by sb_pos keeps the list sorted *)
  Lemma insert_sorted (x : E) l :
    StronglySorted (kle le) l -> StronglySorted (kle le) (insert_at (sb_pos le (fst x) l) x l).
  Proof.
    induction l as [|[k' v'] r IH]; intros Hs; cbn [sb_pos insert_at].
    - repeat constructor.
    - inversion Hs as [|? ? Hr Hf]; subst.
      destruct (le (fst x) k') eqn:Ele; cbn [insert_at].
      + constructor; auto. constructor; [exact Ele|].
        eapply Forall_impl; [|exact Hf]. intros b Hb. eapply kle_trans; [|exact Hb]. exact Ele.
      + constructor; auto.
        apply Forall_forall; intros y Hy. apply insert_at_in in Hy. destruct Hy as [->|Hy].
        * apply not_le_ge; exact Ele.
        * rewrite Forall_forall in Hf; auto.
  Qed.

  (* ---- one insertion preserves the invariant ---- *)
  (* seen = everything inserted so far; buf = the buffer; dropped = what was discarded *)
  Definition sb_inv (cap : nat) (seen buf : list E) : Prop :=
    length buf = Nat.min cap (length seen) /\
    StronglySorted (kle le) buf /\
    exists dropped, Permutation seen (buf ++ dropped) /\
                    forall d k, In d dropped -> In k buf -> (kle le) d k.

  Lemma sb_inv_nil cap : sb_inv cap [] [].
  Proof.
    split; [cbn; lia|]. split; [constructor|]. exists []; split; auto. intros ? ? [].
  Qed.

  Lemma sb_add_inv cap seen buf x :
    sb_inv cap seen buf -> sb_inv cap (seen ++ [x]) (sb_add le cap buf x).
  Proof.
    intros (Hlen & Hs & dropped & Hperm & Hdrop).
    pose proof (Permutation_length Hperm) as Hl. rewrite app_length in Hl.
    assert (Hx : Permutation (seen ++ [x]) (x :: buf ++ dropped)).
    { eapply perm_trans; [apply Permutation_app_comm|]. cbn [app]. apply perm_skip, Hperm. }
    unfold sb_add, sb_inv. rewrite app_length; cbn [length].
    destruct (Nat.ltb (length buf) cap) eqn:Hlt.
    - (* not full: nothing has been dropped yet *)
      apply Nat.ltb_lt in Hlt.
      assert (dropped = []) by (destruct dropped; auto; cbn [length] in Hl; lia). subst dropped.
      rewrite insert_at_length. split; [lia|]. split; [apply insert_sorted; auto|].
      exists []. split; [|intros ? ? []].
      rewrite app_nil_r in *. eapply perm_trans; [exact Hx|]. apply insert_at_perm.
    - apply Nat.ltb_ge in Hlt.
      assert (Hcap : length buf = cap) by lia.
      destruct buf as [|[k' v'] t]; cbn [sb_pos].
      + (* capacity 0 *)
        split; [cbn [length] in *; lia|]. split; [constructor|].
        exists (x :: dropped). split; [exact Hx|]. intros ? ? _ [].
      + inversion Hs as [|? ? Ht Hf]; subst. rewrite Forall_forall in Hf.
        destruct (le (fst x) k') eqn:Ele.
        * (* full, not better than the minimum: x is dropped *)
          split; [cbn [length] in *; lia|]. split; [exact Hs|].
          exists (x :: dropped). split.
          { eapply perm_trans; [exact Hx|]. apply Permutation_middle. }
          intros d k [<-|Hd] Hk; [|apply Hdrop; auto].
          destruct Hk as [<-|Hk]; [exact Ele|].
          eapply kle_trans; [|apply Hf, Hk]. exact Ele.
        * (* full, better than the minimum: the minimum is dropped *)
          cbn [tl]. rewrite insert_at_length. split; [cbn [length] in *; lia|].
          split; [apply insert_sorted; auto|].
          exists ((k', v') :: dropped). split.
          { eapply perm_trans; [exact Hx|]. cbn [app].
            eapply perm_trans; [apply perm_swap|].
            eapply perm_trans; [|apply Permutation_middle]. apply perm_skip.
            change (Permutation ((x :: t) ++ dropped)
                      (insert_at (sb_pos le (fst x) t) x t ++ dropped)).
            apply Permutation_app_tail, insert_at_perm. }
          assert (Hmin : forall k, In k (insert_at (sb_pos le (fst x) t) x t) -> (kle le) (k', v') k).
          { intros k Hk. apply insert_at_in in Hk. destruct Hk as [->|Hk]; [|apply Hf, Hk].
            apply not_le_ge; exact Ele. }
          intros d k [<-|Hd] Hk; [apply Hmin, Hk|].
          eapply kle_trans; [|apply Hmin, Hk]. apply Hdrop; cbn [In]; auto.
  Qed.

  Lemma sb_fold_inv cap xs : forall seen buf,
    sb_inv cap seen buf -> sb_inv cap (seen ++ xs) (fold_left (sb_add le cap) xs buf).
  Proof.
    induction xs as [|x xs IH]; intros seen buf H; cbn [fold_left].
    - rewrite app_nil_r; exact H.
    - replace (seen ++ x :: xs) with ((seen ++ [x]) ++ xs) by (rewrite <- app_assoc; reflexivity).
      apply IH, sb_add_inv, H.
  Qed.

  (* ---- the theorems ---- *)
  (* (a) length and ascending order, (b) sub-multiset, (c) top-N *)
  Theorem sb_add_all_topN cap (xs : list E) :
    let kept := sb_add_all le cap xs in
    length kept = Nat.min cap (length xs) /\
    asc_by le kept /\
    exists dropped, Permutation xs (kept ++ dropped) /\
                    forall d k, In d dropped -> In k kept -> le (fst d) (fst k) = true.
  Proof. exact (sb_fold_inv cap xs [] [] (sb_inv_nil cap)). Qed.

  Theorem sb_add_all_length cap (xs : list E) :
    length (sb_add_all le cap xs) = Nat.min cap (length xs).
  Proof. apply sb_add_all_topN. Qed.

  Theorem sb_add_all_sorted cap (xs : list E) : asc_by le (sb_add_all le cap xs).
  Proof. apply sb_add_all_topN. Qed.

  (* every kept element was inserted *)
  Corollary sb_add_all_incl cap (xs : list E) : incl (sb_add_all le cap xs) xs.
  Proof.
    destruct (sb_add_all_topN cap xs) as (_ & _ & dropped & Hp & _).
    intros y Hy. apply (Permutation_in _ (Permutation_sym Hp)). apply in_or_app; auto.
  Qed.

  (* nothing is dropped while the capacity suffices *)
  Corollary sb_add_all_fits cap (xs : list E) :
    (length xs <= cap)%nat -> Permutation xs (sb_add_all le cap xs).
  Proof.
    intros Hle. destruct (sb_add_all_topN cap xs) as (Hl & _ & dropped & Hp & _).
    pose proof (Permutation_length Hp) as Hl'. rewrite app_length in Hl'.
    assert (dropped = []) by (destruct dropped; auto; cbn [length] in Hl'; lia). subst.
    rewrite app_nil_r in Hp; exact Hp.
  Qed.

  (* (d) read order: best first, and it is the same elements *)
  Theorem sb_iter_rev_best_first cap (xs : list E) :
    let tried := sb_iter_rev (sb_add_all le cap xs) in
    desc_by le tried /\ Permutation tried (sb_add_all le cap xs).
  Proof.
    unfold sb_iter_rev; split.
    - apply (StronglySorted_rev (kle le)). apply sb_add_all_sorted.
    - apply Permutation_sym, Permutation_rev.
  Qed.

  (* the first candidate tried is a maximum of everything inserted *)
  Corollary sb_iter_rev_head_max cap (xs : list E) b rest :
    sb_iter_rev (sb_add_all le cap xs) = b :: rest ->
    forall x, In x xs -> le (fst x) (fst b) = true.
  Proof.
    intros Hb x Hx.
    destruct (sb_add_all_topN cap xs) as (_ & _ & dropped & Hp & Hd).
    destruct (sb_iter_rev_best_first cap xs) as (Hs & Hperm). rewrite Hb in Hs, Hperm.
    assert (Hbk : In b (sb_add_all le cap xs)).
    { apply (Permutation_in _ Hperm); cbn [In]; auto. }
    apply (Permutation_in _ Hp) in Hx. apply in_app_or in Hx. destruct Hx as [Hx|Hx].
    - apply (Permutation_in _ (Permutation_sym Hperm)) in Hx. destruct Hx as [<-|Hx].
      + generalize (le_total (fst b) (fst b)). destruct (le (fst b) (fst b)); auto.
      + inversion Hs as [|? ? _ Hf]; subst. rewrite Forall_forall in Hf. apply Hf, Hx.
    - apply Hd; auto.
  Qed.
End SortedBufferProofs.

(* ---- instances and non-vacuity ---- *)
Lemma Nleb_total a b : N.leb a b || N.leb b a = true.
Proof. destruct (N.leb a b) eqn:E; auto. cbn. apply N.leb_le. apply N.leb_gt in E. lia. Qed.
Lemma Nleb_trans a b c : N.leb a b = true -> N.leb b c = true -> N.leb a c = true.
Proof. rewrite !N.leb_le; lia. Qed.

(* capacity 3, five insertions (value = insertion index): the three largest keys are kept,
   the two smallest dropped; ties: the earlier (4,1) sits above the later (4,3) *)
Example sb_example_run :
  sb_add_all N.leb 3 [(2,0); (4,1); (1,2); (4,3); (3,4)] = [(3,4); (4,3); (4,1)].
Proof. vm_compute. reflexivity. Qed.
Example sb_example_tried :
  sb_iter_rev (sb_add_all N.leb 3 [(2,0); (4,1); (1,2); (4,3); (3,4)]) = [(4,1); (4,3); (3,4)].
Proof. vm_compute. reflexivity. Qed.
(* a full buffer accepts a new maximum and drops the minimum *)
Example sb_example_new_max :
  sb_add_all N.leb 2 [(1,0); (2,1); (3,2)] = [(2,1); (3,2)].
Proof. vm_compute. reflexivity. Qed.
(* the hypotheses of the theorems are satisfiable and the conclusion is not trivial *)
Example sb_example_spec :
  exists dropped, Permutation [(2,0); (4,1); (1,2); (4,3); (3,4)]
                    (sb_add_all N.leb 3 [(2,0); (4,1); (1,2); (4,3); (3,4)] ++ dropped) /\
                  dropped <> [].
Proof.
  destruct (sb_add_all_topN N.leb Nleb_total Nleb_trans 3 [(2,0); (4,1); (1,2); (4,3); (3,4)])
    as (Hl & _ & dropped & Hp & _).
  exists dropped; split; auto. intros ->. apply Permutation_length in Hp.
  rewrite app_nil_r, Hl in Hp. cbn in Hp. lia.
Qed.

(* ---- finding D9: the pinned (unrepaired) `add` loses the maximum ---- *)
(* capacity 3: insert key 5, then key 3: the buffer holds only 3 *)
Lemma C16_old_refuted :
  fold_left (old_add N.leb) [(5,0); (3,1)] [None; None; None] = [Some (3,1); None; None].
Proof. vm_compute. reflexivity. Qed.
(* and a full buffer never accepts a new maximum: capacity 1, insert 0 then 1 *)
Lemma C16_old_refuted_full :
  fold_left (old_add N.leb) [(0,0); (1,1)] [None] = [Some (0,0)].
Proof. vm_compute. reflexivity. Qed.
