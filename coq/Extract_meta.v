(* Extraction of the executable layout / wrapper model for the `meta` driver (C17, C18, C08 metadata half).
   ExtrOcamlBasic only; N, positive, nat stay Coq's inductives. *)
From LLF Require Import Base Row Bitfield Lower Meta.
Require Import ExtrOcamlBasic.
Extraction Language OCaml.
Set Extraction KeepSingleton.
Extraction "model.ml"
  HF THUGE TF ROWS nbf ntab div_ceil
  bitfield_bytes table_bytes lower_size trees_size local_size
  row_loc ent_loc tree_loc slot_loc class_lookup narrow_loc narrow_width
  lower_bitfields_part lower_tables_part
  meta_valid overlap intersects lower_new_ok locals_new_ok trees_new_ok
  zone_get zone_put zone_stats_at zone_add zone_create_ok
  nvm_layout nvm_create nvm_lower_buf NVM_MAGIC W64
  N.add N.sub N.mul N.div N.modulo N.eqb N.leb N.ltb N.pow.
