(* Composition: from what `LLFree::new` builds (free-all or allocate-all, any frame count, any classing with
   ids < 8 and a configured default, zeroed local buffer) and for the repository's policies, the
   whole-allocator concurrency theorem applies: no hypothesis about an invariant is left. *)
From LLF Require Import Base Row Bitfield Lower Spec Upper UpperInvDef LowerMachine UpperMachine UpperPrims
  ConcInvDef ConcInv ConcInvInit UpperStatsProofs UpperConcInvDef UpperConcInv UpperConcProps
  Policies PolicyFacts GlueProofs GlueHistory.

Section FromNew.
  Variable g : geom.
  Hypothesis WF : wf_geom g.
  Variable p : N -> N -> N -> pol.
  Hypothesis BP : builtin_policy p (TF g).

  (* the client's initial blocks for the two initialisation modes *)
  Definition held_of_init (i : init) (fr : N) : list (N * nat) :=
    match i with IAllocAll => alloc_all_held g fr | _ => [] end.

  Theorem conc_from_new : forall fr i classing d lbuf tbuf sbuf,
    (i = IFreeAll \/ i = IAllocAll) ->
    Forall (fun s => s_pres s = false) sbuf ->
    (forall c k, In (c, k) classing -> c < 8) ->
    (exists k, In (d, k) classing) ->
    exists u, llfree_new g fr i classing d lbuf tbuf sbuf = Ok u /\
      forall n sch, sched_valid g u sch ->
        let x := UpperConcInv.grun g p sch (uboot u (held_of_init i fr) n, zeros u) in
        let s := fst x in
        s = urun g p sch (uboot u (held_of_init i fr) n) /\
        (forall z, In z (upanicked s) -> z = SExceedingRetries) /\
        uheld_ok s = true /\
        (uquiescent s -> UpperInv g p {| us := m2_up s; off := snd x |}).
  Proof.
    intros fr i classing d lbuf tbuf sbuf Hi Hbuf Hcl Hd.
    destruct (builtin_facts p (TF g) BP) as (PR & _ & PT & _).
    assert (Hpre : init_pre g fr i lbuf) by (destruct Hi as [-> | ->]; exact I).
    destruct (init_inv g WF p fr i classing d lbuf tbuf sbuf Hpre Hbuf Hcl Hd) as (u & E & HU & Hl & _).
    exists u. split; [exact E|].
    intros n sch SV.
    apply (conc_upper_safe_off g p u (held_of_init i fr) n sch WF PR PT HU); [|exact SV].
    rewrite Hl. destruct Hi as [-> | ->]; cbn [lower_new held_of_init].
    - apply held_init_free_all. exact WF.
    - apply held_init_reserve_all. exact WF.
  Qed.
End FromNew.
Print Assumptions conc_from_new.
