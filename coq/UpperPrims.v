(* Shared lemmas about the primitives of the upper allocator model (Upper.v), used by
   UpperPutProofs / UpperStatsProofs / UpperGetProofs*.
   - named policy hypotheses
   - geometry facts
   - list structure of `all_slots` / `slots_of` under `set_slot`
   - `UpperInvC credit inhand x`: UpperInv generalised with an explicit per-tree credit (frames the
     caller holds: taken from a counter but not yet taken from / already returned to the lower
     allocator) and a list of in-hand reservations (tree, class, free) that no slot holds
   - one transformer lemma per primitive. *)
From Coq Require Import List NArith Bool Lia Permutation.
From LLF Require Import Base Row Bitfield Lower Spec Upper UpperInvDef LowerFacts.


Section Geo.
  Variable g : geom.
  Hypothesis WF : wf_geom g.
  Notation TF := (TF g).

  Lemma TF_pos : 0 < TF.
  Proof. unfold Bitfield.TF, THUGE, HF. apply N.mul_pos_pos; apply N.neq_0_lt_0, N.pow_nonzero; lia. Qed.

  Lemma TF_pow : TF = pow2 (tord g).
  Proof. unfold Bitfield.TF, THUGE, HF, pow2, tord. rewrite <- N.pow_add_r. f_equal. lia. Qed.

  Lemma TF_64 : exists q, TF = q * 64 /\ 0 < q.
  Proof.
    destruct WF as (H6 & _).
    exists (THUGE g * 2 ^ N.of_nat (hord g - 6)). split.
    - unfold Bitfield.TF, HF. rewrite <- N.mul_assoc. f_equal.
      change 64 with (2 ^ 6). rewrite <- N.pow_add_r. f_equal. lia.
    - apply N.mul_pos_pos; apply N.neq_0_lt_0, N.pow_nonzero; lia.
  Qed.

  Lemma pow2_le_TF k : (k <= tord g)%nat -> pow2 k <= TF.
  Proof. intros. rewrite TF_pow. unfold pow2. apply N.pow_le_mono_r; lia. Qed.

  Lemma row_tree_tree_row t : row_tree g (tree_row g t) = t.
  Proof.
    unfold row_tree, tree_row. destruct TF_64 as (q & E & Q). rewrite E.
    rewrite N.mul_assoc, N.div_mul by lia. rewrite <- N.mul_assoc. rewrite N.div_mul; lia.
  Qed.

  Lemma tree_row_64 t : tree_row g t * 64 = t * TF.
  Proof.
    unfold tree_row. destruct TF_64 as (q & E & Q). rewrite E.
    rewrite N.mul_assoc, N.div_mul by lia. reflexivity.
  Qed.

  Lemma ntab_lt fr t : t < ntab g fr <-> t * TF < fr.
  Proof.
    unfold ntab, div_ceil. pose proof TF_pos. split; intros.
    - destruct (N.lt_ge_cases (t * TF) fr); auto. exfalso.
      assert ((fr + TF - 1) / TF < t + 1). { apply N.div_lt_upper_bound; nia. } lia.
    - assert (t + 1 <= (fr + TF - 1) / TF). { apply N.div_le_lower_bound; nia. } lia.
  Qed.

  Lemma div_lt_ntab fr f : f < fr -> f / TF < ntab g fr.
  Proof.
    intros. apply ntab_lt. pose proof TF_pos.
    pose proof (N.mul_div_le f TF). nia.
  Qed.
End Geo.


Lemma upd_app_mid {A} (l1 l2 : list A) x y : upd (l1 ++ x :: l2) (length l1) y = l1 ++ y :: l2.
Proof. induction l1; cbn; auto. f_equal; auto. Qed.

Lemma flat_map_ext_in' {A B} (f h : A -> list B) l :
  (forall a, In a l -> f a = h a) -> flat_map f l = flat_map h l.
Proof. induction l; cbn; intros; auto. rewrite H by auto. f_equal. auto. Qed.

Section Slots.
  Variable g : geom.

  Definition slot_at (u : upper) (c j : N) : option slot :=
    match class_slots u c with Some l => nth_error l (nn j) | None => None end.

  Lemma class_slots_lt u c l : length (locals u) = 8%nat -> class_slots u c = Some l -> c < 8.
  Proof.
    unfold class_slots. intros L H. destruct (nth_error (locals u) (nn c)) eqn:E; try discriminate.
    assert (nn c < length (locals u))%nat by (apply nth_error_Some; congruence). unfold nn in *. lia.
  Qed.

  Lemma all_slots_ext u u' : locals u = locals u' -> all_slots u = all_slots u'.
  Proof. unfold all_slots, class_slots. intros ->. reflexivity. Qed.
  Lemma class_slots_ext u u' c : locals u = locals u' -> class_slots u c = class_slots u' c.
  Proof. unfold class_slots. intros ->. reflexivity. Qed.

  Lemma class_slots_set_slot_same u c j s l :
    class_slots u c = Some l -> class_slots (set_slot u c j s) c = Some (upd l (nn j) s).
  Proof.
    intros H. unfold set_slot. rewrite H. unfold class_slots in *. cbn [locals with_locals].
    destruct (nth_error (locals u) (nn c)) eqn:E; try discriminate.
    rewrite nth_error_upd_same; auto. apply nth_error_Some; congruence.
  Qed.
  Lemma class_slots_set_slot_other u c c' j s :
    c' <> c -> class_slots (set_slot u c j s) c' = class_slots u c'.
  Proof.
    intros H. unfold set_slot. destruct (class_slots u c) eqn:E; auto.
    unfold class_slots. cbn [locals with_locals]. rewrite nth_error_upd_other; auto.
    unfold nn. lia.
  Qed.
  Lemma class_slots_set_slot_none u c c' j s :
    class_slots (set_slot u c j s) c' = None <-> class_slots u c' = None.
  Proof.
    destruct (N.eq_dec c' c) as [->|N].
    - destruct (class_slots u c) eqn:E.
      + erewrite class_slots_set_slot_same by eauto. split; discriminate.
      + unfold set_slot. rewrite E. rewrite E. tauto.
    - rewrite class_slots_set_slot_other; tauto.
  Qed.
  Lemma set_slot_low u c j s : low (set_slot u c j s) = low u.
  Proof. unfold set_slot. destruct (class_slots u c); reflexivity. Qed.
  Lemma set_slot_trees u c j s : trees (set_slot u c j s) = trees u.
  Proof. unfold set_slot. destruct (class_slots u c); reflexivity. Qed.
  Lemma set_slot_dflt u c j s : dflt (set_slot u c j s) = dflt u.
  Proof. unfold set_slot. destruct (class_slots u c); reflexivity. Qed.
  Lemma set_slot_locals_len u c j s : length (locals (set_slot u c j s)) = length (locals u).
  Proof. unfold set_slot. destruct (class_slots u c); cbn; auto. apply upd_length. Qed.

  Lemma slot_at_set_slot_same u c j s : slot_at u c j <> None -> slot_at (set_slot u c j s) c j = Some s.
  Proof.
    unfold slot_at. intros H. destruct (class_slots u c) eqn:E; try congruence.
    erewrite class_slots_set_slot_same by eauto. apply nth_error_upd_same. apply nth_error_Some; auto.
  Qed.
  Lemma slot_at_set_slot_other u c j c' j' s : (c', j') <> (c, j) -> slot_at (set_slot u c j s) c' j' = slot_at u c' j'.
  Proof.
    unfold slot_at. intros H. destruct (N.eq_dec c' c) as [->|Nc].
    - destruct (class_slots u c) eqn:E.
      + erewrite class_slots_set_slot_same by eauto. apply nth_error_upd_other. unfold nn. intros Q.
        apply H. f_equal. lia.
      + unfold set_slot. rewrite E, E. auto.
    - rewrite class_slots_set_slot_other; auto.
  Qed.

  Lemma all_slots_split u c j l s :
    length (locals u) = 8%nat -> class_slots u c = Some l -> nth_error l (nn j) = Some s ->
    exists A B, all_slots u = A ++ (c, s) :: B /\
                forall s', all_slots (set_slot u c j s') = A ++ (c, s') :: B.
  Proof.
    intros L HC HS. pose proof (class_slots_lt _ _ _ L HC) as C8.
    destruct (nth_error_split _ _ HS) as (l1 & l2 & El & Ll1).
    set (F := fun (u : upper) (c : nat) => match class_slots u (N.of_nat c) with
                       | Some l => map (fun s => (N.of_nat c, s)) l | None => [] end).
    assert (E8 : seq 0 8 = seq 0 (nn c) ++ nn c :: seq (S (nn c)) (7 - nn c)).
    { replace 8%nat with (nn c + S (7 - nn c))%nat by (unfold nn; lia). rewrite seq_app. reflexivity. }
    exists (flat_map (F u) (seq 0 (nn c)) ++ map (fun s => (c, s)) l1),
           (map (fun s => (c, s)) l2 ++ flat_map (F u) (seq (S (nn c)) (7 - nn c))).
    assert (Fc : forall u' l', class_slots u' c = Some l' -> F u' (nn c) = map (fun s => (c, s)) l').
    { intros u' l' H. unfold F. unfold nn. rewrite N2Nat.id. rewrite H. reflexivity. }
    split.
    - unfold all_slots. fold (F u). rewrite E8, flat_map_app. cbn [flat_map].
      rewrite (Fc u l HC). rewrite El, map_app. cbn [map]. rewrite <- !app_assoc. reflexivity.
    - intros s'. unfold all_slots. fold (F (set_slot u c j s')). rewrite E8, flat_map_app. cbn [flat_map].
      rewrite (Fc _ _ (class_slots_set_slot_same u c j s' l HC)).
      rewrite El, <- Ll1, upd_app_mid, map_app. cbn [map]. rewrite <- !app_assoc.
      assert (X : forall a, a <> nn c -> F (set_slot u c j s') a = F u a).
      { intros a Ha. unfold F. rewrite class_slots_set_slot_other; auto. unfold nn in *. lia. }
      rewrite (flat_map_ext_in' (F (set_slot u c j s')) (F u) (seq 0 (nn c))).
      2:{ intros a Ha. apply X. apply in_seq in Ha. lia. }
      rewrite (flat_map_ext_in' (F (set_slot u c j s')) (F u) (seq (S (nn c)) _)).
      2:{ intros a Ha. apply X. apply in_seq in Ha. lia. }
      reflexivity.
  Qed.

  Definition one (c : N) (s : slot) (t : N) : list (N * slot) :=
    if s_pres s && (row_tree g (s_row s) =? t) then [(c, s)] else [].
  Definition onep (c : N) (s : slot) : list (N * slot) := if s_pres s then [(c, s)] else [].

  Lemma present_split u c j l s :
    length (locals u) = 8%nat -> class_slots u c = Some l -> nth_error l (nn j) = Some s ->
    exists X Y, present_slots u = X ++ onep c s ++ Y /\
                forall s', present_slots (set_slot u c j s') = X ++ onep c s' ++ Y.
  Proof.
    intros L HC HS. destruct (all_slots_split u c j l s L HC HS) as (A & B & E & E').
    exists (filter (fun cs => s_pres (snd cs)) A), (filter (fun cs => s_pres (snd cs)) B).
    unfold present_slots. split.
    - rewrite E, filter_app. cbn [filter snd]. unfold onep. destruct (s_pres s); reflexivity.
    - intros s'. rewrite E', filter_app. cbn [filter snd]. unfold onep. destruct (s_pres s'); reflexivity.
  Qed.

  Lemma slots_of_split u c j l s t :
    length (locals u) = 8%nat -> class_slots u c = Some l -> nth_error l (nn j) = Some s ->
    exists X Y, slots_of g u t = X ++ one c s t ++ Y /\
                forall s', slots_of g (set_slot u c j s') t = X ++ one c s' t ++ Y.
  Proof.
    intros L HC HS. destruct (present_split u c j l s L HC HS) as (A & B & E & E').
    exists (filter (fun cs => row_tree g (s_row (snd cs)) =? t) A),
           (filter (fun cs => row_tree g (s_row (snd cs)) =? t) B).
    unfold slots_of. split.
    - rewrite E, !filter_app. f_equal. f_equal. unfold onep, one.
      destruct (s_pres s); cbn [filter snd andb]; auto.
    - intros s'. rewrite E', !filter_app. f_equal. f_equal. unfold onep, one.
      destruct (s_pres s'); cbn [filter snd andb]; auto.
  Qed.

  Lemma sum_free_app a b : sum_free (a ++ b) = sum_free a + sum_free b.
  Proof. unfold sum_free. induction a; cbn [fold_right app]; try lia. Qed.

  Definition one_free (s : slot) (t : N) : N := if s_pres s && (row_tree g (s_row s) =? t) then s_free s else 0.
  Definition one_cnt (s : slot) (t : N) : nat := if s_pres s && (row_tree g (s_row s) =? t) then 1 else 0.
  Lemma sum_free_one c s t : sum_free (one c s t) = one_free s t.
  Proof. unfold one, one_free. destruct (_ && _); cbn; lia. Qed.
  Lemma length_one c s t : length (one c s t) = one_cnt s t.
  Proof. unfold one, one_cnt. destruct (_ && _); reflexivity. Qed.

  Lemma in_all_slots u c s : length (locals u) = 8%nat ->
    (In (c, s) (all_slots u) <-> exists j, slot_at u c j = Some s).
  Proof.
    intros L. unfold all_slots. rewrite in_flat_map. split.
    - intros (k & Hk & H). destruct (class_slots u (N.of_nat k)) eqn:E; [|destruct H].
      apply in_map_iff in H. destruct H as (s0 & Q & H). inversion Q; subst.
      apply In_nth_error in H. destruct H as (n & H). exists (N.of_nat n).
      unfold slot_at. rewrite E. unfold nn. rewrite Nat2N.id. auto.
    - intros (j & H). unfold slot_at in H. destruct (class_slots u c) eqn:E; try discriminate.
      pose proof (class_slots_lt _ _ _ L E). exists (nn c). split.
      + apply in_seq. unfold nn. lia.
      + unfold nn. rewrite N2Nat.id, E. apply in_map_iff. exists s. split; auto.
        eapply nth_error_In; eauto.
  Qed.
End Slots.

Definition pol_kind (p : pol) : N :=
  match p with PMatch _ => 0 | PDemote => 1 | PSteal => 2 | PInvalid => 3 end.
Definition pol_refl_match (policy : N -> N -> N -> pol) : Prop :=
  forall c f, pol_is_match (policy c c f) = true.
Definition pol_kind_indep (policy : N -> N -> N -> pol) : Prop :=
  forall r t f f', pol_kind (policy r t f) = pol_kind (policy r t f').
Definition pol_demote_trans (policy : N -> N -> N -> pol) : Prop :=
  forall a b c f f', policy a b f = PDemote -> pol_keeps (policy b c f') = true ->
                     pol_keeps (policy a c f') = true.
Definition pol_never_invalid (policy : N -> N -> N -> pol) : Prop :=
  forall r t f, pol_is_invalid (policy r t f) = false.

Ltac splits := repeat match goal with |- _ /\ _ => split end.

Section InvC.
  Variable g : geom.
  Variable policy : N -> N -> N -> pol.
  Hypothesis WF : wf_geom g.
  Notation TF := (TF g).

  Definition ih_of (ih : list (N * N * N)) (t : N) : list (N * N * N) :=
    filter (fun e => fst (fst e) =? t) ih.
  Definition ih_sum (l : list (N * N * N)) : N := fold_right (fun e a => snd e + a) 0 l.

  Definition tree_okC (u : upper) (offs : list N) (cr : N -> N) (ih : list (N * N * N))
             (i : nat) (t : tree) : Prop :=
    let ti := N.of_nat i in
    let sl := slots_of g u ti in
    (length sl + length (ih_of ih ti) = if t_res t then 1 else 0)%nat /\
    t_free t + sum_free sl + nth i offs 0 + cr ti + ih_sum (ih_of ih ti) = tree_free g (low u) ti /\
    class_slots u (t_class t) <> None /\
    (forall c s, In (c, s) sl -> forall f, pol_keeps (policy c (t_class t) f) = true) /\
    (forall c f0, In (ti, c, f0) ih -> forall f, pol_keeps (policy c (t_class t) f) = true).

  Definition UpperInvC (cr : N -> N) (ih : list (N * N * N)) (x : ustate) : Prop :=
    let u := us x in
    LowerInv g (low u) /\
    length (trees u) = nn (ntab g (frames (low u))) /\
    length (off x) = length (trees u) /\
    length (locals u) = 8%nat /\
    class_slots u (dflt u) <> None /\
    (forall i t, nth_error (trees u) i = Some t -> tree_okC u (off x) cr ih i t) /\
    (forall c s, In (c, s) (present_slots u) ->
       row_tree g (s_row s) < ntrees u /\ s_row s * 64 < frames (low u) /\ s_free s <= TF) /\
    (forall t c f, In (t, c, f) ih -> t < ntrees u /\ class_slots u c <> None).

  Ltac splitsC := unfold UpperInvC, tree_okC; cbv zeta; splits.

  Theorem UpperInv_C0 x : UpperInv g policy x <-> UpperInvC (fun _ => 0) [] x.
  Proof.
    unfold UpperInv, UpperInvC. split.
    - intros (H1 & H2 & H3 & H4 & H5 & H6 & H7). splits; auto.
      + intros i t Hi. destruct (H6 i t Hi) as (A & B & C & D). unfold tree_okC.
        cbn [ih_of filter length ih_sum fold_right].
        splits; auto; try lia; try (destruct (t_res t); lia); try (intros ? ? []).
      + intros ? ? ? [].
    - intros (H1 & H2 & H3 & H4 & H5 & H6 & H7 & _). splits; auto.
      intros i t Hi. destruct (H6 i t Hi) as (A & B & C & D & _). unfold tree_ok.
      cbn [ih_of filter length ih_sum fold_right] in *.
      splits; auto; try lia; try (destruct (t_res t); lia).
  Qed.

  (* ----- in-hand bookkeeping ----- *)
  Lemma ih_of_app a b t : ih_of (a ++ b) t = ih_of a t ++ ih_of b t.
  Proof. apply filter_app. Qed.
  Lemma ih_sum_app a b : ih_sum (a ++ b) = ih_sum a + ih_sum b.
  Proof. unfold ih_sum. induction a; cbn [fold_right app]; lia. Qed.
  Lemma ih_of_cons t c f ih j :
    ih_of ((t, c, f) :: ih) j = if t =? j then (t, c, f) :: ih_of ih j else ih_of ih j.
  Proof. reflexivity. Qed.

  Definition resv_of (c : N) (s : slot) : list (N * N * N) :=
    if s_pres s then [(row_tree g (s_row s), c, s_free s)] else [].
  Lemma resv_of_len c s t : length (ih_of (resv_of c s) t) = one_cnt g s t.
  Proof. unfold resv_of, one_cnt. destruct (s_pres s); cbn [ih_of filter fst andb]; auto. destruct (_ =? t); auto. Qed.
  Lemma resv_of_sum c s t : ih_sum (ih_of (resv_of c s) t) = one_free g s t.
  Proof.
    unfold resv_of, one_free. destruct (s_pres s); cbn [ih_of filter fst andb]; auto.
    destruct (_ =? t); cbn; lia.
  Qed.
  Lemma in_resv_of t c0 f c s : In (t, c0, f) (resv_of c s) <->
    s_pres s = true /\ t = row_tree g (s_row s) /\ c0 = c /\ f = s_free s.
  Proof.
    unfold resv_of. destruct (s_pres s); cbn [In]; split.
    - intros [H|[]]. inversion H; subst; splits; auto.
    - intros (_ & -> & -> & ->). auto.
    - tauto.
    - intros (? & _). discriminate.
  Qed.
  Lemma in_one c0 s0 c s t : In (c0, s0) (one g c s t) <->
    c0 = c /\ s0 = s /\ s_pres s = true /\ row_tree g (s_row s) = t.
  Proof.
    unfold one. destruct (s_pres s); cbn [andb].
    - destruct (N.eqb_spec (row_tree g (s_row s)) t); cbn [In]; split.
      + intros [H|[]]. inversion H; subst; splits; auto.
      + intros (-> & -> & _). auto.
      + tauto.
      + intros (_ & _ & _ & ?). contradiction.
    - cbn. split; [tauto|]. intros (_ & _ & ? & _). discriminate.
  Qed.
  Lemma in_slots_of u c s t : In (c, s) (slots_of g u t) <->
    In (c, s) (all_slots u) /\ s_pres s = true /\ row_tree g (s_row s) = t.
  Proof.
    unfold slots_of, present_slots. rewrite !filter_In. cbn [snd]. rewrite N.eqb_eq. tauto.
  Qed.
  Lemma in_present u c s : In (c, s) (present_slots u) <-> In (c, s) (all_slots u) /\ s_pres s = true.
  Proof. unfold present_slots. rewrite filter_In. cbn [snd]. tauto. Qed.

  Lemma tree_okC_ext u u' offs cr ih i t :
    locals u = locals u' -> low u = low u' -> tree_okC u offs cr ih i t -> tree_okC u' offs cr ih i t.
  Proof.
    intros L W. unfold tree_okC, slots_of, present_slots.
    rewrite (all_slots_ext _ _ L), W, (class_slots_ext _ _ (t_class t) L). auto.
  Qed.

  Lemma UIC_ext cr cr' ih x : (forall t, cr t = cr' t) -> UpperInvC cr ih x -> UpperInvC cr' ih x.
  Proof.
    intros E (H1 & H2 & H3 & H4 & H5 & H6 & H7 & H8). splitsC; auto.
    intros i t Hi. destruct (H6 i t Hi) as (A & B & C & D & F). unfold tree_okC. rewrite <- E. repeat split; auto.
  Qed.

  Lemma ih_of_perm a b t : Permutation a b -> Permutation (ih_of a t) (ih_of b t).
  Proof.
    induction 1; cbn [ih_of filter]; auto.
    - destruct (_ =? t); auto.
    - destruct (fst (fst x) =? t), (fst (fst y) =? t); auto. apply perm_swap.
    - eapply perm_trans; eauto.
  Qed.
  Lemma ih_sum_perm a b : Permutation a b -> ih_sum a = ih_sum b.
  Proof. unfold ih_sum. induction 1; cbn [fold_right]; lia. Qed.

  Lemma UIC_perm cr ih ih' x : Permutation ih ih' -> UpperInvC cr ih x -> UpperInvC cr ih' x.
  Proof.
    intros P (H1 & H2 & H3 & H4 & H5 & H6 & H7 & H8). splitsC; auto.
    - intros i t Hi. destruct (H6 i t Hi) as (A & B & C & D & F). unfold tree_okC.
      pose proof (ih_of_perm _ _ (N.of_nat i) P) as P'.
      rewrite <- (Permutation_length P'), <- (ih_sum_perm _ _ P'). repeat split; auto.
      intros c f0 Hin. apply (F c f0). eapply Permutation_in; [apply Permutation_sym|]; eauto.
    - intros t c f Hin. eapply H8. eapply Permutation_in; [apply Permutation_sym|]; eauto.
  Qed.

  (* the free count of the first in-hand reservation against the credit of its tree *)
  Lemma UIC_ih_credit cr cr' t c f f' ih x :
    UpperInvC cr ((t, c, f) :: ih) x ->
    (forall j, cr' j + delta j t f' = cr j + delta j t f) ->
    UpperInvC cr' ((t, c, f') :: ih) x.
  Proof.
    intros (H1 & H2 & H3 & H4 & H5 & H6 & H7 & H8) E. splitsC; auto.
    - intros i t0 Hi. destruct (H6 i t0 Hi) as (A & B & C & D & F). unfold tree_okC.
      rewrite ih_of_cons in *. specialize (E (N.of_nat i)). unfold delta in E. rewrite (N.eqb_sym (N.of_nat i)) in E.
      destruct (t =? N.of_nat i) eqn:Et; cbn [length ih_sum fold_right snd] in *.
      + repeat split; auto; try lia.
        intros c0 f0 [Q|Q]; [inversion Q; subst; eapply F; left; reflexivity | eapply F; right; eauto].
      + repeat split; auto; try lia.
        intros c0 f0 [Q|Q]; [inversion Q; subst; rewrite N.eqb_refl in Et; discriminate | eapply F; right; eauto].
    - intros t0 c0 f0 [Q|Q]; [inversion Q; subst; eapply (H8 t0 c0 f); left; reflexivity | eapply H8; right; eauto].
  Qed.
End InvC.
