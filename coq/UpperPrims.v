(* Shared lemmas about the primitives of the upper allocator model (Upper.v), used by
   UpperPutProofs / UpperStatsProofs / UpperGetProofs*.
   - named policy hypotheses
   - geometry facts
   - list structure of `all_slots` / `slots_of` under `set_slot`
   - `UpperInvC credit inhand x`: UpperInv generalised with an explicit per-tree credit (frames the
     caller holds: taken from a counter but not yet taken from / already returned to the lower
     allocator) and a list of in-hand reservations (tree, class, free) that no slot holds
   - one transformer lemma per primitive. *)
From Coq Require Import List NArith Bool Lia Permutation PeanoNat.
From LLF Require Import Base Row Bitfield Lower Spec Upper UpperInvDef LowerFacts.


Section Geo.
  Variable g : geom.
  Hypothesis WF : wf_geom g.
  Notation TF := (TF g).

  Lemma TF_pos : 0 < TF.
  Proof. unfold Bitfield.TF, THUGE, HF. apply N.mul_pos_pos; apply N.neq_0_lt_0, N.pow_nonzero; lia. Qed.

  Lemma TF_pow : TF = pow2 (tord g).
  Proof. unfold Bitfield.TF, THUGE, HF, pow2, tord. rewrite <- N.pow_add_r. f_equal. lia. Qed.

  Lemma TF_64 : exists q, TF = q * 64 /\ 0 < q.
  Proof.
    destruct WF as (H6 & _).
    exists (THUGE g * 2 ^ N.of_nat (hord g - 6)). split.
    - unfold Bitfield.TF, HF. rewrite <- N.mul_assoc. f_equal.
      change 64 with (2 ^ 6). rewrite <- N.pow_add_r. f_equal. lia.
    - apply N.mul_pos_pos; apply N.neq_0_lt_0, N.pow_nonzero; lia.
  Qed.

  Lemma pow2_le_TF k : (k <= tord g)%nat -> pow2 k <= TF.
  Proof. intros. rewrite TF_pow. unfold pow2. apply N.pow_le_mono_r; lia. Qed.

  Lemma row_tree_tree_row t : row_tree g (tree_row g t) = t.
  Proof.
    unfold row_tree, tree_row. destruct TF_64 as (q & E & Q). rewrite E.
    rewrite N.mul_assoc, N.div_mul by lia. rewrite <- N.mul_assoc. rewrite N.div_mul; lia.
  Qed.

  Lemma tree_row_64 t : tree_row g t * 64 = t * TF.
  Proof.
    unfold tree_row. destruct TF_64 as (q & E & Q). rewrite E.
    rewrite N.mul_assoc, N.div_mul by lia. reflexivity.
  Qed.

  Lemma ntab_lt fr t : t < ntab g fr <-> t * TF < fr.
  Proof.
    unfold ntab, div_ceil. pose proof TF_pos. split; intros.
    - destruct (N.lt_ge_cases (t * TF) fr); auto. exfalso.
      assert ((fr + TF - 1) / TF < t + 1). { apply N.div_lt_upper_bound; nia. } lia.
    - assert (t + 1 <= (fr + TF - 1) / TF). { apply N.div_le_lower_bound; nia. } lia.
  Qed.

  Lemma div_lt_ntab fr f : f < fr -> f / TF < ntab g fr.
  Proof.
    intros. apply ntab_lt. pose proof TF_pos.
    pose proof (N.mul_div_le f TF). nia.
  Qed.
End Geo.


Lemma upd_app_mid {A} (l1 l2 : list A) x y : upd (l1 ++ x :: l2) (length l1) y = l1 ++ y :: l2.
Proof. induction l1; cbn; auto. f_equal; auto. Qed.

Lemma flat_map_ext_in' {A B} (f h : A -> list B) l :
  (forall a, In a l -> f a = h a) -> flat_map f l = flat_map h l.
Proof. induction l; cbn; intros; auto. rewrite H by auto. f_equal. auto. Qed.

Ltac splits := repeat match goal with |- _ /\ _ => split end.

Section Slots.
  Variable g : geom.

  Definition slot_at (u : upper) (c j : N) : option slot :=
    match class_slots u c with Some l => nth_error l (nn j) | None => None end.

  Lemma class_slots_lt u c l : length (locals u) = 8%nat -> class_slots u c = Some l -> c < 8.
  Proof.
    unfold class_slots. intros L H. destruct (nth_error (locals u) (nn c)) eqn:E; try discriminate.
    assert (nn c < length (locals u))%nat by (apply nth_error_Some; congruence). unfold nn in *. lia.
  Qed.

  Lemma all_slots_ext u u' : locals u = locals u' -> all_slots u = all_slots u'.
  Proof. unfold all_slots, class_slots. intros ->. reflexivity. Qed.
  Lemma class_slots_ext u u' c : locals u = locals u' -> class_slots u c = class_slots u' c.
  Proof. unfold class_slots. intros ->. reflexivity. Qed.

  Lemma class_slots_set_slot_same u c j s l :
    class_slots u c = Some l -> class_slots (set_slot u c j s) c = Some (upd l (nn j) s).
  Proof.
    intros H. unfold set_slot. rewrite H. unfold class_slots in *. cbn [locals with_locals].
    destruct (nth_error (locals u) (nn c)) eqn:E; try discriminate.
    rewrite nth_error_upd_same; auto. apply nth_error_Some; congruence.
  Qed.
  Lemma class_slots_set_slot_other u c c' j s :
    c' <> c -> class_slots (set_slot u c j s) c' = class_slots u c'.
  Proof.
    intros H. unfold set_slot. destruct (class_slots u c) eqn:E; auto.
    unfold class_slots. cbn [locals with_locals]. rewrite nth_error_upd_other; auto.
    unfold nn. lia.
  Qed.
  Lemma class_slots_set_slot_none u c c' j s :
    class_slots (set_slot u c j s) c' = None <-> class_slots u c' = None.
  Proof.
    destruct (N.eq_dec c' c) as [->|N].
    - destruct (class_slots u c) eqn:E.
      + erewrite class_slots_set_slot_same by eauto. split; discriminate.
      + unfold set_slot. rewrite E. rewrite E. tauto.
    - rewrite class_slots_set_slot_other; tauto.
  Qed.
  Lemma set_slot_low u c j s : low (set_slot u c j s) = low u.
  Proof. unfold set_slot. destruct (class_slots u c); reflexivity. Qed.
  Lemma set_slot_trees u c j s : trees (set_slot u c j s) = trees u.
  Proof. unfold set_slot. destruct (class_slots u c); reflexivity. Qed.
  Lemma set_slot_dflt u c j s : dflt (set_slot u c j s) = dflt u.
  Proof. unfold set_slot. destruct (class_slots u c); reflexivity. Qed.
  Lemma set_slot_locals_len u c j s : length (locals (set_slot u c j s)) = length (locals u).
  Proof. unfold set_slot. destruct (class_slots u c); cbn; auto. apply upd_length. Qed.

  Lemma slot_at_set_slot_same u c j s : slot_at u c j <> None -> slot_at (set_slot u c j s) c j = Some s.
  Proof.
    unfold slot_at. intros H. destruct (class_slots u c) eqn:E; try congruence.
    erewrite class_slots_set_slot_same by eauto. apply nth_error_upd_same. apply nth_error_Some; auto.
  Qed.
  Lemma slot_at_set_slot_other u c j c' j' s : (c', j') <> (c, j) -> slot_at (set_slot u c j s) c' j' = slot_at u c' j'.
  Proof.
    unfold slot_at. intros H. destruct (N.eq_dec c' c) as [->|Nc].
    - destruct (class_slots u c) eqn:E.
      + erewrite class_slots_set_slot_same by eauto. apply nth_error_upd_other. unfold nn. intros Q.
        apply H. f_equal. lia.
      + unfold set_slot. rewrite E, E. auto.
    - rewrite class_slots_set_slot_other; auto.
  Qed.

  Lemma all_slots_split u c j l s :
    length (locals u) = 8%nat -> class_slots u c = Some l -> nth_error l (nn j) = Some s ->
    exists A B, all_slots u = A ++ (c, s) :: B /\
                forall s', all_slots (set_slot u c j s') = A ++ (c, s') :: B.
  Proof.
    intros L HC HS. pose proof (class_slots_lt _ _ _ L HC) as C8.
    destruct (nth_error_split _ _ HS) as (l1 & l2 & El & Ll1).
    set (F := fun (u : upper) (c : nat) => match class_slots u (N.of_nat c) with
                       | Some l => map (fun s => (N.of_nat c, s)) l | None => [] end).
    assert (E8 : seq 0 8 = seq 0 (nn c) ++ nn c :: seq (S (nn c)) (7 - nn c)).
    { replace 8%nat with (nn c + S (7 - nn c))%nat by (unfold nn; lia). rewrite seq_app. reflexivity. }
    exists (flat_map (F u) (seq 0 (nn c)) ++ map (fun s => (c, s)) l1),
           (map (fun s => (c, s)) l2 ++ flat_map (F u) (seq (S (nn c)) (7 - nn c))).
    assert (Fc : forall u' l', class_slots u' c = Some l' -> F u' (nn c) = map (fun s => (c, s)) l').
    { intros u' l' H. unfold F. unfold nn. rewrite N2Nat.id. rewrite H. reflexivity. }
    split.
    - unfold all_slots. fold (F u). rewrite E8, flat_map_app. cbn [flat_map].
      rewrite (Fc u l HC). rewrite El, map_app. cbn [map]. rewrite <- !app_assoc. reflexivity.
    - intros s'. unfold all_slots. fold (F (set_slot u c j s')). rewrite E8, flat_map_app. cbn [flat_map].
      rewrite (Fc _ _ (class_slots_set_slot_same u c j s' l HC)).
      rewrite El, <- Ll1, upd_app_mid, map_app. cbn [map]. rewrite <- !app_assoc.
      assert (X : forall a, a <> nn c -> F (set_slot u c j s') a = F u a).
      { intros a Ha. unfold F. rewrite class_slots_set_slot_other; auto. unfold nn in *. lia. }
      rewrite (flat_map_ext_in' (F (set_slot u c j s')) (F u) (seq 0 (nn c))).
      2:{ intros a Ha. apply X. apply in_seq in Ha. lia. }
      rewrite (flat_map_ext_in' (F (set_slot u c j s')) (F u) (seq (S (nn c)) _)).
      2:{ intros a Ha. apply X. apply in_seq in Ha. lia. }
      reflexivity.
  Qed.

  Definition one (c : N) (s : slot) (t : N) : list (N * slot) :=
    if s_pres s && (row_tree g (s_row s) =? t) then [(c, s)] else [].
  Definition onep (c : N) (s : slot) : list (N * slot) := if s_pres s then [(c, s)] else [].

  Lemma present_split u c j l s :
    length (locals u) = 8%nat -> class_slots u c = Some l -> nth_error l (nn j) = Some s ->
    exists X Y, present_slots u = X ++ onep c s ++ Y /\
                forall s', present_slots (set_slot u c j s') = X ++ onep c s' ++ Y.
  Proof.
    intros L HC HS. destruct (all_slots_split u c j l s L HC HS) as (A & B & E & E').
    exists (filter (fun cs => s_pres (snd cs)) A), (filter (fun cs => s_pres (snd cs)) B).
    unfold present_slots. split.
    - rewrite E, filter_app. cbn [filter snd]. unfold onep. destruct (s_pres s); reflexivity.
    - intros s'. rewrite E', filter_app. cbn [filter snd]. unfold onep. destruct (s_pres s'); reflexivity.
  Qed.

  Lemma slots_of_split u c j l s t :
    length (locals u) = 8%nat -> class_slots u c = Some l -> nth_error l (nn j) = Some s ->
    exists X Y, slots_of g u t = X ++ one c s t ++ Y /\
                forall s', slots_of g (set_slot u c j s') t = X ++ one c s' t ++ Y.
  Proof.
    intros L HC HS. destruct (present_split u c j l s L HC HS) as (A & B & E & E').
    exists (filter (fun cs => row_tree g (s_row (snd cs)) =? t) A),
           (filter (fun cs => row_tree g (s_row (snd cs)) =? t) B).
    unfold slots_of. split.
    - rewrite E, !filter_app. f_equal. f_equal. unfold onep, one.
      destruct (s_pres s); cbn [filter snd andb]; auto.
    - intros s'. rewrite E', !filter_app. f_equal. f_equal. unfold onep, one.
      destruct (s_pres s'); cbn [filter snd andb]; auto.
  Qed.

  Lemma sum_free_app a b : sum_free (a ++ b) = sum_free a + sum_free b.
  Proof. unfold sum_free. induction a; cbn [fold_right app]; try lia. Qed.

  Definition one_free (s : slot) (t : N) : N := if s_pres s && (row_tree g (s_row s) =? t) then s_free s else 0.
  Definition one_cnt (s : slot) (t : N) : nat := if s_pres s && (row_tree g (s_row s) =? t) then 1 else 0.
  Lemma sum_free_one c s t : sum_free (one c s t) = one_free s t.
  Proof. unfold one, one_free. destruct (_ && _); cbn; lia. Qed.
  Lemma length_one c s t : length (one c s t) = one_cnt s t.
  Proof. unfold one, one_cnt. destruct (_ && _); reflexivity. Qed.

  Lemma in_all_slots u c s : length (locals u) = 8%nat ->
    (In (c, s) (all_slots u) <-> exists j, slot_at u c j = Some s).
  Proof.
    intros L. unfold all_slots. rewrite in_flat_map. split.
    - intros (k & Hk & H). destruct (class_slots u (N.of_nat k)) eqn:E; [|destruct H].
      apply in_map_iff in H. destruct H as (s0 & Q & H). inversion Q; subst.
      apply In_nth_error in H. destruct H as (n & H). exists (N.of_nat n).
      unfold slot_at. rewrite E. unfold nn. rewrite Nat2N.id. auto.
    - intros (j & H). unfold slot_at in H. destruct (class_slots u c) eqn:E; try discriminate.
      pose proof (class_slots_lt _ _ _ L E). exists (nn c). split.
      + apply in_seq. unfold nn. lia.
      + unfold nn. rewrite N2Nat.id, E. apply in_map_iff. exists s. split; auto.
        eapply nth_error_In; eauto.
  Qed.
  Definition ih_of (ih : list (N * N * N)) (t : N) : list (N * N * N) :=
    filter (fun e => fst (fst e) =? t) ih.
  Definition ih_sum (l : list (N * N * N)) : N := fold_right (fun e a => snd e + a) 0 l.

  (* ----- in-hand bookkeeping ----- *)
  Lemma ih_of_app a b t : ih_of (a ++ b) t = ih_of a t ++ ih_of b t.
  Proof. apply filter_app. Qed.
  Lemma ih_sum_app a b : ih_sum (a ++ b) = ih_sum a + ih_sum b.
  Proof. unfold ih_sum. induction a; cbn [fold_right app]; lia. Qed.
  Lemma ih_of_cons t c f ih j :
    ih_of ((t, c, f) :: ih) j = if t =? j then (t, c, f) :: ih_of ih j else ih_of ih j.
  Proof. reflexivity. Qed.

  Definition resv_of (c : N) (s : slot) : list (N * N * N) :=
    if s_pres s then [(row_tree g (s_row s), c, s_free s)] else [].
  Lemma resv_of_len c s t : length (ih_of (resv_of c s) t) = one_cnt s t.
  Proof. unfold resv_of, one_cnt. destruct (s_pres s); cbn [ih_of filter fst andb]; auto. destruct (_ =? t); auto. Qed.
  Lemma resv_of_sum c s t : ih_sum (ih_of (resv_of c s) t) = one_free s t.
  Proof.
    unfold resv_of, one_free. destruct (s_pres s); cbn [ih_of filter fst andb]; auto.
    destruct (_ =? t); cbn; lia.
  Qed.
  Lemma in_resv_of t c0 f c s : In (t, c0, f) (resv_of c s) <->
    s_pres s = true /\ t = row_tree g (s_row s) /\ c0 = c /\ f = s_free s.
  Proof.
    unfold resv_of. destruct (s_pres s); cbn [In]; split.
    - intros [H|[]]. inversion H; subst; splits; auto.
    - intros (_ & -> & -> & ->). auto.
    - tauto.
    - intros (? & _). discriminate.
  Qed.
  Lemma in_one c0 s0 c s t : In (c0, s0) (one c s t) <->
    c0 = c /\ s0 = s /\ s_pres s = true /\ row_tree g (s_row s) = t.
  Proof.
    unfold one. destruct (s_pres s); cbn [andb].
    - destruct (N.eqb_spec (row_tree g (s_row s)) t); cbn [In]; split.
      + intros [H|[]]. inversion H; subst; splits; auto.
      + intros (-> & -> & _). auto.
      + tauto.
      + intros (_ & _ & _ & ?). contradiction.
    - cbn. split; [tauto|]. intros (_ & _ & ? & _). discriminate.
  Qed.
  Lemma in_slots_of u c s t : In (c, s) (slots_of g u t) <->
    In (c, s) (all_slots u) /\ s_pres s = true /\ row_tree g (s_row s) = t.
  Proof.
    unfold slots_of, present_slots. rewrite !filter_In. cbn [snd]. rewrite N.eqb_eq. tauto.
  Qed.
  Lemma in_present u c s : In (c, s) (present_slots u) <-> In (c, s) (all_slots u) /\ s_pres s = true.
  Proof. unfold present_slots. rewrite filter_In. cbn [snd]. tauto. Qed.

  Lemma ih_of_perm a b t : Permutation a b -> Permutation (ih_of a t) (ih_of b t).
  Proof.
    induction 1; cbn [ih_of filter]; auto.
    - destruct (_ =? t); auto.
    - destruct (fst (fst x) =? t), (fst (fst y) =? t); auto. apply perm_swap.
    - eapply perm_trans; eauto.
  Qed.
  Lemma ih_sum_perm a b : Permutation a b -> ih_sum a = ih_sum b.
  Proof. unfold ih_sum. induction 1; cbn [fold_right]; lia. Qed.

  Lemma tree_at_lt u i t : tree_at u i = Some t -> i < ntrees u.
  Proof.
    unfold tree_at, ntrees. intros H.
    assert (nn i < length (trees u))%nat by (apply nth_error_Some; congruence). unfold nn in *. lia.
  Qed.
  Lemma tree_at_some u i : i < ntrees u -> exists t, tree_at u i = Some t.
  Proof.
    unfold tree_at, ntrees. intros H. destruct (nth_error (trees u) (nn i)) eqn:E; eauto.
    apply nth_error_None in E. unfold nn in *. lia.
  Qed.
  Lemma tree_at_set_tree_same u i t t' : tree_at u i = Some t -> tree_at (set_tree u i t') i = Some t'.
  Proof.
    unfold tree_at, set_tree. cbn [trees with_trees]. intros H. apply nth_error_upd_same.
    apply nth_error_Some; congruence.
  Qed.
  Lemma tree_at_set_tree_other u i j t' : j <> i -> tree_at (set_tree u i t') j = tree_at u j.
  Proof.
    unfold tree_at, set_tree. cbn [trees with_trees]. intros H. apply nth_error_upd_other. unfold nn. lia.
  Qed.
  Lemma ntrees_set_tree u i t' : ntrees (set_tree u i t') = ntrees u.
  Proof. unfold ntrees, set_tree. cbn [trees with_trees]. rewrite upd_length. reflexivity. Qed.
  Lemma ntrees_set_slot u c j s : ntrees (set_slot u c j s) = ntrees u.
  Proof. unfold ntrees. rewrite set_slot_trees. reflexivity. Qed.

  Lemma slot_at_inv u c j s : slot_at u c j = Some s ->
    exists l, class_slots u c = Some l /\ nth_error l (nn j) = Some s.
  Proof. unfold slot_at. destruct (class_slots u c); try discriminate. eauto. Qed.

  Lemma in_ih_of e ih t : In e (ih_of ih t) <-> In e ih /\ fst (fst e) = t.
  Proof. unfold ih_of. rewrite filter_In, N.eqb_eq. tauto. Qed.

End Slots.

Definition pol_kind (p : pol) : N :=
  match p with PMatch _ => 0 | PDemote => 1 | PSteal => 2 | PInvalid => 3 end.
Definition pol_refl_match (policy : N -> N -> N -> pol) : Prop :=
  forall c f, pol_is_match (policy c c f) = true.
Definition pol_kind_indep (policy : N -> N -> N -> pol) : Prop :=
  forall r t f f', pol_kind (policy r t f) = pol_kind (policy r t f').
Definition pol_demote_trans (policy : N -> N -> N -> pol) : Prop :=
  forall a b c f f', policy a b f = PDemote -> pol_keeps (policy b c f') = true ->
                     pol_keeps (policy a c f') = true.
Definition pol_never_invalid (policy : N -> N -> N -> pol) : Prop :=
  forall r t f, pol_is_invalid (policy r t f) = false.


Section InvC.
  Variable g : geom.
  Variable policy : N -> N -> N -> pol.
  Hypothesis WF : wf_geom g.
  Notation TF := (TF g).

  Definition tree_okC (u : upper) (offs : list N) (cr : N -> N) (ih : list (N * N * N))
             (i : nat) (t : tree) : Prop :=
    let ti := N.of_nat i in
    let sl := slots_of g u ti in
    (length sl + length (ih_of ih ti) = if t_res t then 1 else 0)%nat /\
    t_free t + sum_free sl + nth i offs 0 + cr ti + ih_sum (ih_of ih ti) = tree_free g (low u) ti /\
    class_slots u (t_class t) <> None /\
    (forall c s, In (c, s) sl -> forall f, pol_keeps (policy c (t_class t) f) = true) /\
    (forall c f0, In (ti, c, f0) ih -> forall f, pol_keeps (policy c (t_class t) f) = true).

  Definition UpperInvC (cr : N -> N) (ih : list (N * N * N)) (x : ustate) : Prop :=
    let u := us x in
    LowerInv g (low u) /\
    length (trees u) = nn (ntab g (frames (low u))) /\
    length (off x) = length (trees u) /\
    length (locals u) = 8%nat /\
    class_slots u (dflt u) <> None /\
    (forall i t, nth_error (trees u) i = Some t -> tree_okC u (off x) cr ih i t) /\
    (forall c s, In (c, s) (present_slots u) ->
       row_tree g (s_row s) < ntrees u /\ s_row s * 64 < frames (low u) /\ s_free s <= TF) /\
    (forall t c f, In (t, c, f) ih -> t < ntrees u /\ class_slots u c <> None).

  Ltac splitsC := unfold UpperInvC, tree_okC; cbv zeta; splits.

  Theorem UpperInv_C0 x : UpperInv g policy x <-> UpperInvC (fun _ => 0) [] x.
  Proof.
    unfold UpperInv, UpperInvC. split.
    - intros (H1 & H2 & H3 & H4 & H5 & H6 & H7). splits; auto.
      + intros i t Hi. destruct (H6 i t Hi) as (A & B & C & D). unfold tree_okC.
        cbn [ih_of filter length ih_sum fold_right].
        splits; auto; try lia; try (destruct (t_res t); lia); try (intros ? ? []).
      + intros ? ? ? [].
    - intros (H1 & H2 & H3 & H4 & H5 & H6 & H7 & _). splits; auto.
      intros i t Hi. destruct (H6 i t Hi) as (A & B & C & D & _). unfold tree_ok.
      cbn [ih_of filter length ih_sum fold_right] in *.
      splits; auto; try lia; try (destruct (t_res t); lia).
  Qed.

  Lemma tree_okC_ext u u' offs cr ih i t :
    locals u = locals u' -> low u = low u' -> tree_okC u offs cr ih i t -> tree_okC u' offs cr ih i t.
  Proof.
    intros L W. unfold tree_okC, slots_of, present_slots.
    rewrite (all_slots_ext _ _ L), W, (class_slots_ext _ _ (t_class t) L). auto.
  Qed.

  Lemma UIC_ext cr cr' ih x : (forall t, cr t = cr' t) -> UpperInvC cr ih x -> UpperInvC cr' ih x.
  Proof.
    intros E (H1 & H2 & H3 & H4 & H5 & H6 & H7 & H8). splitsC; auto.
    intros i t Hi. destruct (H6 i t Hi) as (A & B & C & D & F). unfold tree_okC. rewrite <- E. repeat split; auto.
  Qed.

  Lemma UIC_perm cr ih ih' x : Permutation ih ih' -> UpperInvC cr ih x -> UpperInvC cr ih' x.
  Proof.
    intros P (H1 & H2 & H3 & H4 & H5 & H6 & H7 & H8). splitsC; auto.
    - intros i t Hi. destruct (H6 i t Hi) as (A & B & C & D & F). unfold tree_okC.
      pose proof (ih_of_perm _ _ (N.of_nat i) P) as P'.
      rewrite <- (Permutation_length P'), <- (ih_sum_perm _ _ P'). repeat split; auto.
      intros c f0 Hin. apply (F c f0). eapply Permutation_in; [apply Permutation_sym|]; eauto.
    - intros t c f Hin. eapply H8. eapply Permutation_in; [apply Permutation_sym|]; eauto.
  Qed.

  (* the free count of the first in-hand reservation against the credit of its tree *)
  Lemma UIC_ih_credit cr cr' t c f f' ih x :
    UpperInvC cr ((t, c, f) :: ih) x ->
    (forall j, cr' j + delta j t f' = cr j + delta j t f) ->
    UpperInvC cr' ((t, c, f') :: ih) x.
  Proof.
    intros (H1 & H2 & H3 & H4 & H5 & H6 & H7 & H8) E. splitsC; auto.
    - intros i t0 Hi. destruct (H6 i t0 Hi) as (A & B & C & D & F). unfold tree_okC.
      rewrite ih_of_cons in *. specialize (E (N.of_nat i)). unfold delta in E. rewrite (N.eqb_sym (N.of_nat i)) in E.
      destruct (t =? N.of_nat i) eqn:Et; cbn [length ih_sum fold_right snd] in *.
      + repeat split; auto; try lia.
        intros c0 f0 [Q|Q]; [inversion Q; subst; eapply F; left; reflexivity | eapply F; right; eauto].
      + repeat split; auto; try lia.
        intros c0 f0 [Q|Q]; [inversion Q; subst; rewrite N.eqb_refl in Et; discriminate | eapply F; right; eauto].
    - intros t0 c0 f0 [Q|Q]; [inversion Q; subst; eapply (H8 t0 c0 f); left; reflexivity | eapply H8; right; eauto].
  Qed.
End InvC.

Section Trans.
  Variable g : geom.
  Variable policy : N -> N -> N -> pol.
  Hypothesis WF : wf_geom g.
  Notation TF := (TF g).
  Notation UIC := (UpperInvC g policy).

  Definition mk (x : ustate) (u' : upper) : ustate := {| us := u'; off := off x |}.

  Lemma mk_id x : mk x (us x) = x.
  Proof. destruct x; reflexivity. Qed.

  (* ----- a tree entry is rewritten (together with the credit / in-hand list of that tree) ----- *)
  Lemma UIC_set_tree cr cr' ih ih' x i t t' :
    UIC cr ih x -> tree_at (us x) i = Some t ->
    (forall j, j <> i -> cr' j = cr j) ->
    (forall j, j <> i -> ih_of ih' j = ih_of ih j) ->
    tree_okC g policy (us x) (off x) cr' ih' (nn i) t' ->
    (forall t0 c f, In (t0, c, f) ih' -> t0 < ntrees (us x) /\ class_slots (us x) c <> None) ->
    UIC cr' ih' (mk x (set_tree (us x) i t')).
  Proof.
    intros (H1 & H2 & H3 & H4 & H5 & H6 & H7 & H8) Ht Ecr Eih Hok Hih.
    unfold UpperInvC, mk. cbn [us off]. cbv zeta.
    cbn [low set_tree with_trees trees locals dflt]. rewrite upd_length.
    splits; auto.
    - intros k tk Hk. destruct (Nat.eq_dec k (nn i)) as [->|Nk].
      + unfold tree_at in Ht. rewrite nth_error_upd_same in Hk by (apply nth_error_Some; congruence).
        inversion Hk; subst tk. eapply tree_okC_ext; [| |apply Hok]; reflexivity.
      + rewrite nth_error_upd_other in Hk by auto.
        assert (Nk' : N.of_nat k <> i) by (unfold nn in *; lia).
        destruct (H6 k tk Hk) as (A & B & C & D & F).
        eapply tree_okC_ext with (u := us x); [reflexivity|reflexivity|].
        unfold tree_okC. rewrite Ecr, Eih by auto. splits; auto.
        intros c f0 Hin. apply (F c f0).
        assert (Q : In (N.of_nat k, c, f0) (ih_of ih' (N.of_nat k))) by (apply in_ih_of; auto).
        rewrite Eih in Q by auto. apply in_ih_of in Q. tauto.
    - intros c s Hin. rewrite ntrees_set_tree. apply (H7 c s).
      unfold present_slots in *. erewrite all_slots_ext; eauto.
    - intros t0 c f Hin. rewrite ntrees_set_tree.
      destruct (Hih t0 c f Hin). split; auto.
  Qed.

  (* variant: the ghost `off` list changes at index i as well (change_tree) *)
  Lemma UIC_set_tree_off cr cr' ih ih' x i t t' offs' :
    UIC cr ih x -> tree_at (us x) i = Some t ->
    length offs' = length (off x) ->
    (forall k, k <> nn i -> nth k offs' 0 = nth k (off x) 0) ->
    (forall j, j <> i -> cr' j = cr j) ->
    (forall j, j <> i -> ih_of ih' j = ih_of ih j) ->
    tree_okC g policy (us x) offs' cr' ih' (nn i) t' ->
    (forall t0 c f, In (t0, c, f) ih' -> t0 < ntrees (us x) /\ class_slots (us x) c <> None) ->
    UIC cr' ih' {| us := set_tree (us x) i t'; off := offs' |}.
  Proof.
    intros (H1 & H2 & H3 & H4 & H5 & H6 & H7 & H8) Ht Hlo Hoffs Ecr Eih Hok Hih.
    unfold UpperInvC. cbn [us off]. cbv zeta.
    cbn [low set_tree with_trees trees locals dflt]. rewrite upd_length.
    splits; auto.
    - congruence.
    - intros k tk Hk. destruct (Nat.eq_dec k (nn i)) as [->|Nk].
      + unfold tree_at in Ht. rewrite nth_error_upd_same in Hk by (apply nth_error_Some; congruence).
        inversion Hk; subst tk. eapply tree_okC_ext; [| |apply Hok]; reflexivity.
      + rewrite nth_error_upd_other in Hk by auto.
        assert (Nk' : N.of_nat k <> i) by (unfold nn in *; lia).
        destruct (H6 k tk Hk) as (A & B & C & D & F).
        eapply tree_okC_ext with (u := us x); [reflexivity|reflexivity|].
        unfold tree_okC. rewrite Ecr, Eih, Hoffs by auto. splits; auto.
        intros c f0 Hin. apply (F c f0).
        assert (Q : In (N.of_nat k, c, f0) (ih_of ih' (N.of_nat k))) by (apply in_ih_of; auto).
        rewrite Eih in Q by auto. apply in_ih_of in Q. tauto.
    - intros c s Hin. rewrite ntrees_set_tree. apply (H7 c s).
      unfold present_slots in *. erewrite all_slots_ext; eauto.
    - intros t0 c f Hin. rewrite ntrees_set_tree.
      destruct (Hih t0 c f Hin). split; auto.
  Qed.

  (* ----- the lower allocator state is replaced ----- *)
  Lemma UIC_with_low cr cr' ih x l' :
    UIC cr ih x -> LowerInv g l' -> frames l' = frames (low (us x)) ->
    (forall t, t < ntrees (us x) -> tree_free g l' t + cr t = tree_free g (low (us x)) t + cr' t) ->
    UIC cr' ih (mk x (with_low (us x) l')).
  Proof.
    intros (H1 & H2 & H3 & H4 & H5 & H6 & H7 & H8) HL HF E.
    unfold UpperInvC, mk. cbn [us off]. cbv zeta. cbn [low with_low trees locals dflt]. rewrite HF.
    splits; auto.
    intros k tk Hk. destruct (H6 k tk Hk) as (A & B & C & D & F).
    assert (Lk : N.of_nat k < ntrees (us x)).
    { unfold ntrees. assert (k < length (trees (us x)))%nat by (apply nth_error_Some; congruence). lia. }
    specialize (E _ Lk).
    unfold tree_okC. cbn [low with_low]. cbv zeta.
    change (slots_of g (with_low (us x) l') (N.of_nat k)) with (slots_of g (us x) (N.of_nat k)).
    change (class_slots (with_low (us x) l') (t_class tk)) with (class_slots (us x) (t_class tk)).
    splits; auto. lia.
  Qed.

  (* ----- a present slot keeps its tree, its free count (and start row) change ----- *)
  Lemma UIC_slot_free cr cr' ih x c j s s' :
    UIC cr ih x -> slot_at (us x) c j = Some s -> s_pres s = true -> s_pres s' = true ->
    row_tree g (s_row s') = row_tree g (s_row s) ->
    s_row s' * 64 < frames (low (us x)) -> s_free s' <= TF ->
    (forall t, cr' t + delta t (row_tree g (s_row s)) (s_free s') =
               cr t + delta t (row_tree g (s_row s)) (s_free s)) ->
    UIC cr' ih (mk x (set_slot (us x) c j s')).
  Proof.
    intros (H1 & H2 & H3 & H4 & H5 & H6 & H7 & H8) Hs P P' ET Hrow Hfree E.
    destruct (slot_at_inv _ _ _ _ Hs) as (l & HC & HN).
    unfold UpperInvC, mk. cbn [us off]. cbv zeta.
    rewrite set_slot_low, set_slot_trees, set_slot_dflt, set_slot_locals_len, ntrees_set_slot.
    splits; auto.
    - rewrite class_slots_set_slot_none. auto.
    - intros k tk Hk. destruct (H6 k tk Hk) as (A & B & C & D & F).
      destruct (slots_of_split g (us x) c j l s (N.of_nat k) H4 HC HN) as (X & Y & E1 & E2).
      unfold tree_okC. cbv zeta. rewrite set_slot_low, class_slots_set_slot_none, (E2 s').
      rewrite E1 in A, B, D. rewrite !app_length, !length_one in *. rewrite !sum_free_app, !sum_free_one in *.
      specialize (E (N.of_nat k)). unfold delta in E.
      unfold one_cnt, one_free in *. rewrite P, P', ET in *. cbn [andb] in *.
      rewrite (N.eqb_sym (N.of_nat k)) in E.
      splits; auto.
      + destruct (row_tree g (s_row s) =? N.of_nat k); lia.
      + intros c0 s0 Hin. apply in_app_or in Hin. destruct Hin as [Hin|Hin].
        * apply (D c0 s0). apply in_or_app. auto.
        * apply in_app_or in Hin. destruct Hin as [Hin|Hin].
          -- apply in_one in Hin. destruct Hin as (-> & -> & _ & Q). apply (D c s).
             apply in_or_app. right. apply in_or_app. left. apply in_one. rewrite <- ET. auto.
          -- apply (D c0 s0). apply in_or_app. right. apply in_or_app. auto.
    - intros c0 s0 Hin.
      destruct (present_split (us x) c j l s H4 HC HN) as (X & Y & E1 & E2).
      rewrite (E2 s') in Hin. rewrite E1 in H7. unfold onep in *. rewrite P in H7. rewrite P' in Hin.
      apply in_app_or in Hin. destruct Hin as [Hin|Hin].
      + apply (H7 c0 s0). apply in_or_app. auto.
      + destruct Hin as [Hin|Hin].
        * inversion Hin; subst c0 s0. splits; auto. rewrite ET. apply (H7 c s). apply in_or_app. right. left. auto.
        * apply (H7 c0 s0). apply in_or_app. right. right. auto.
    - intros t c0 f Hin. rewrite class_slots_set_slot_none. apply (H8 t c0 f Hin).
  Qed.

  (* ----- a slot is overwritten: the new content comes out of the in-hand list, the old one goes in ----- *)
  Lemma UIC_slot_xchg cr ih x c j s s' :
    slot_at (us x) c j = Some s ->
    (s_pres s' = true -> s_row s' * 64 < frames (low (us x)) /\ s_free s' <= TF) ->
    UIC cr (resv_of g c s' ++ ih) x ->
    UIC cr (resv_of g c s ++ ih) (mk x (set_slot (us x) c j s')).
  Proof.
    intros Hs Hb (H1 & H2 & H3 & H4 & H5 & H6 & H7 & H8).
    destruct (slot_at_inv _ _ _ _ Hs) as (l & HC & HN).
    unfold UpperInvC, mk. cbn [us off]. cbv zeta.
    rewrite set_slot_low, set_slot_trees, set_slot_dflt, set_slot_locals_len, ntrees_set_slot.
    splits; auto.
    - rewrite class_slots_set_slot_none. auto.
    - intros k tk Hk. destruct (H6 k tk Hk) as (A & B & C & D & F).
      destruct (slots_of_split g (us x) c j l s (N.of_nat k) H4 HC HN) as (X & Y & E1 & E2).
      unfold tree_okC. cbv zeta. rewrite set_slot_low, class_slots_set_slot_none, (E2 s').
      rewrite E1 in A, B, D. rewrite !ih_of_app in *. rewrite !ih_sum_app in *.
      rewrite !app_length, !length_one, !resv_of_len in *.
      rewrite !sum_free_app, !sum_free_one, !resv_of_sum in *.
      splits; auto; try lia.
      + intros c0 s0 Hin. apply in_app_or in Hin. destruct Hin as [Hin|Hin].
        * apply (D c0 s0). apply in_or_app. auto.
        * apply in_app_or in Hin. destruct Hin as [Hin|Hin].
          -- apply in_one in Hin. destruct Hin as (-> & -> & Q1 & Q2). apply (F c (s_free s')).
             apply in_or_app. left. apply in_resv_of. auto.
          -- apply (D c0 s0). apply in_or_app. right. apply in_or_app. auto.
      + intros c0 f0 Hin. apply in_app_or in Hin. destruct Hin as [Hin|Hin].
        * apply in_resv_of in Hin. destruct Hin as (Q1 & Q2 & -> & ->). apply (D c s).
          apply in_or_app. right. apply in_or_app. left. apply in_one. auto.
        * apply (F c0 f0). apply in_or_app. auto.
    - intros c0 s0 Hin.
      destruct (present_split (us x) c j l s H4 HC HN) as (X & Y & E1 & E2).
      rewrite (E2 s') in Hin. rewrite E1 in H7. unfold onep in *.
      apply in_app_or in Hin. destruct Hin as [Hin|Hin].
      + apply (H7 c0 s0). apply in_or_app. auto.
      + apply in_app_or in Hin. destruct Hin as [Hin|Hin].
        * destruct (s_pres s') eqn:P'; [|destruct Hin]. destruct Hin as [Hin|[]].
          inversion Hin; subst c0 s0. destruct (Hb eq_refl). splits; auto.
          apply (H8 (row_tree g (s_row s')) c (s_free s')). apply in_or_app. left. apply in_resv_of. auto.
        * apply (H7 c0 s0). apply in_or_app. right. apply in_or_app. auto.
    - intros t c0 f Hin. rewrite class_slots_set_slot_none. apply in_app_or in Hin. destruct Hin as [Hin|Hin].
      + apply in_resv_of in Hin. destruct Hin as (Q1 & -> & -> & ->). split; [|congruence].
        apply (H7 c s). rewrite in_present. split; auto. apply in_all_slots; eauto.
      + apply (H8 t c0 f). apply in_or_app. auto.
  Qed.
End Trans.

Section Prims.
  Variable g : geom.
  Variable policy : N -> N -> N -> pol.
  Hypothesis WF : wf_geom g.
  Hypothesis LF : lower_facts g.
  Notation TF := (TF g).
  Notation UIC := (UpperInvC g policy).
  (* every lemma of this section takes `g policy WF LF` (uniform interface) *)
  Set Default Proof Using "WF LF".

  Lemma tree_okC_nn u offs cr ih i t :
    tree_okC g policy u offs cr ih (nn i) t <->
    ((length (slots_of g u i) + length (ih_of ih i) = if t_res t then 1 else 0)%nat /\
     t_free t + sum_free (slots_of g u i) + nth (nn i) offs 0 + cr i + ih_sum (ih_of ih i)
       = tree_free g (low u) i /\
     class_slots u (t_class t) <> None /\
     (forall c s, In (c, s) (slots_of g u i) -> forall f, pol_keeps (policy c (t_class t) f) = true) /\
     (forall c f0, In (i, c, f0) ih -> forall f, pol_keeps (policy c (t_class t) f) = true)).
  Proof. unfold tree_okC, nn. rewrite N2Nat.id. reflexivity. Qed.

  Lemma UIC_tree cr ih x i t : UIC cr ih x -> tree_at (us x) i = Some t ->
    tree_okC g policy (us x) (off x) cr ih (nn i) t.
  Proof. intros (H1 & H2 & H3 & H4 & H5 & H6 & H7 & H8) Ht. apply H6. exact Ht. Qed.

  Lemma UIC_ntrees cr ih x : UIC cr ih x -> ntrees (us x) = ntab g (frames (low (us x))).
  Proof. intros (H1 & H2 & _). unfold ntrees. rewrite H2. unfold nn. apply N2Nat.id. Qed.

  Lemma UIC_tree_free_le cr ih x i : UIC cr ih x -> i < ntrees (us x) -> tree_free g (low (us x)) i <= TF.
  Proof.
    intros H Hi. pose proof (UIC_ntrees _ _ _ H) as E. destruct H as (H1 & _).
    rewrite E in Hi. destruct (lf_tree_free g LF _ _ H1 Hi). auto.
  Qed.

  Lemma okC_same_class u offs offs' cr cr' ih k t t' :
    tree_okC g policy u offs cr ih k t -> t_res t' = t_res t -> t_class t' = t_class t ->
    t_free t' + nth k offs' 0 + cr' (N.of_nat k) = t_free t + nth k offs 0 + cr (N.of_nat k) ->
    tree_okC g policy u offs' cr' ih k t'.
  Proof.
    intros (A & B & C & D & F) R K E. unfold tree_okC. cbv zeta. rewrite R, K. splits; auto. lia.
  Qed.

  Lemma okC_unres u offs offs' cr cr' ih k t t' :
    tree_okC g policy u offs cr ih k t -> t_res t = false -> t_res t' = false ->
    class_slots u (t_class t') <> None ->
    t_free t' + nth k offs' 0 + cr' (N.of_nat k) = t_free t + nth k offs 0 + cr (N.of_nat k) ->
    tree_okC g policy u offs' cr' ih k t'.
  Proof.
    intros (A & B & C & D & F) R R' K E. unfold tree_okC. cbv zeta. rewrite R in A. rewrite R'.
    assert (L1 : slots_of g u (N.of_nat k) = []) by (apply length_zero_iff_nil; lia).
    assert (L2 : ih_of ih (N.of_nat k) = []) by (apply length_zero_iff_nil; lia).
    splits; auto; try lia.
    - intros c s Hin. rewrite L1 in Hin. destruct Hin.
    - intros c f0 Hin. assert (Q : In (N.of_nat k, c, f0) (ih_of ih (N.of_nat k))) by (apply in_ih_of; auto).
      rewrite L2 in Q. destruct Q.
  Qed.

  Lemma UIC_set_tree_cr cr cr' ih x i t t' :
    UIC cr ih x -> tree_at (us x) i = Some t ->
    (forall j, j <> i -> cr' j = cr j) ->
    tree_okC g policy (us x) (off x) cr' ih (nn i) t' ->
    UIC cr' ih (mk x (set_tree (us x) i t')).
  Proof.
    intros H Ht E Hok. eapply UIC_set_tree; eauto.
    destruct H as (H1 & H2 & H3 & H4 & H5 & H6 & H7 & H8). exact H8.
  Qed.

  Ltac delta_tac E i :=
    let j := fresh "j" in let Hj := fresh "Hj" in
    intros j Hj; specialize (E j); unfold delta in E; apply N.eqb_neq in Hj; rewrite Hj in E; lia.

  (* ================= Trees ================= *)
  Lemma tree_put_ok d t free : t_free t + free <= TF ->
    tree_put g policy d t free =
    Ok {| t_free := t_free t + free; t_res := t_res t;
          t_class := if (t_free t + free =? TF) && negb (t_res t) &&
                        negb (pol_is_invalid (policy (t_class t) d (t_free t + free)))
                     then d else t_class t |}.
  Proof. intros H. unfold tree_put. apply N.ltb_ge in H. rewrite H. reflexivity. Qed.

  (* `put`: `free` frames of the caller's credit for tree i go to the tree counter *)
  Lemma trees_put_C cr cr' ih x i free r u' :
    UIC cr ih x -> i < ntrees (us x) -> free <= cr i ->
    (forall j, cr' j + delta j i free = cr j) ->
    trees_put g policy (us x) i free = (r, u') ->
    r = Ok tt /\ UIC cr' ih (mk x u') /\
    exists t t', tree_at (us x) i = Some t /\ tree_put g policy (dflt (us x)) t free = Ok t' /\
                 t_free t' = t_free t + free /\ t_res t' = t_res t /\
                 u' = set_tree (us x) i t'.
  Proof.
    intros H Hi Hf E Hp. destruct (tree_at_some _ _ Hi) as (t & Ht).
    pose proof (UIC_tree _ _ _ _ _ H Ht) as Hok. pose proof (UIC_tree_free_le _ _ _ _ H Hi) as Hle.
    pose proof Hok as Hok'. apply tree_okC_nn in Hok'. destruct Hok' as (A & B & C & D & F).
    assert (Hb : t_free t + free <= TF) by lia.
    unfold trees_put in Hp. rewrite Ht, (tree_put_ok _ _ _ Hb) in Hp. inversion Hp; subst r u'. clear Hp.
    split; auto. split.
    - eapply UIC_set_tree_cr; eauto. { delta_tac E i. }
      pose proof (E i) as Ei. unfold delta in Ei. rewrite N.eqb_refl in Ei.
      destruct ((t_free t + free =? TF) && negb (t_res t) &&
                negb (pol_is_invalid (policy (t_class t) (dflt (us x)) (t_free t + free)))) eqn:Ec.
      + apply andb_true_iff in Ec. destruct Ec as (Ec & _). apply andb_true_iff in Ec. destruct Ec as (_ & Ec).
        apply negb_true_iff in Ec.
        eapply okC_unres; eauto; cbn [t_free t_res t_class].
        * destruct H as (_ & _ & _ & _ & H5 & _). exact H5.
        * unfold nn. rewrite N2Nat.id. lia.
      + eapply okC_same_class; eauto; cbn [t_free t_res t_class]. unfold nn. rewrite N2Nat.id. lia.
    - eexists _, _. splits; eauto using tree_put_ok.
  Qed.

  (* `sync`: the counter of a reserved tree goes to the caller's credit *)
  Lemma trees_sync_C cr ih x i min r u' :
    UIC cr ih x -> i < ntrees (us x) ->
    trees_sync (us x) i min = (r, u') ->
    (r = Ok None /\ u' = us x) \/
    (exists t, tree_at (us x) i = Some t /\ t_res t = true /\ min <= t_free t /\
               r = Ok (Some (t_free t)) /\
               u' = set_tree (us x) i {| t_free := 0; t_res := true; t_class := t_class t |} /\
               forall cr', (forall j, cr' j = cr j + delta j i (t_free t)) -> UIC cr' ih (mk x u')).
  Proof.
    intros H Hi Hp. destruct (tree_at_some _ _ Hi) as (t & Ht).
    pose proof (UIC_tree _ _ _ _ _ H Ht) as Hok.
    unfold trees_sync in Hp. rewrite Ht in Hp. unfold tree_sync_steal in Hp.
    destruct (t_res t && (min <=? t_free t)) eqn:Ec; inversion Hp; subst r u'; clear Hp; auto.
    apply andb_true_iff in Ec. destruct Ec as (R & M). apply N.leb_le in M. right.
    exists t. rewrite R. splits; auto.
    intros cr' E. eapply UIC_set_tree_cr; eauto.
    - intros j Hj. rewrite E. unfold delta. apply N.eqb_neq in Hj. rewrite Hj. lia.
    - eapply okC_same_class; eauto; cbn [t_free t_res t_class]; auto.
      unfold nn. rewrite N2Nat.id, E. unfold delta. rewrite N.eqb_refl. lia.
  Qed.

  (* `steal`: `free` frames of an unreserved tree go to the caller's credit *)
  Lemma trees_steal_C cr ih x i class free r u' :
    UIC cr ih x -> i < ntrees (us x) -> class_slots (us x) class <> None ->
    trees_steal policy (us x) i class free = (r, u') ->
    (r = Ok None /\ u' = us x) \/
    (exists t t', tree_at (us x) i = Some t /\ t_res t = false /\ free <= t_free t /\
               tree_steal policy t class free = Some t' /\
               t_free t' = t_free t - free /\ t_res t' = false /\
               (t_class t' = class \/ t_class t' = t_class t) /\
               r = Ok (Some (t_class t')) /\ u' = set_tree (us x) i t' /\
               forall cr', (forall j, cr' j = cr j + delta j i free) -> UIC cr' ih (mk x u')).
  Proof.
    intros H Hi Hc Hp. destruct (tree_at_some _ _ Hi) as (t & Ht).
    pose proof (UIC_tree _ _ _ _ _ H Ht) as Hok. pose proof Hok as Hok'. apply tree_okC_nn in Hok'.
    destruct Hok' as (A & B & C & D & F).
    unfold trees_steal in Hp. rewrite Ht in Hp.
    destruct (tree_steal policy t class free) as [t'|] eqn:Es; inversion Hp; subst r u'; clear Hp; auto.
    right. pose proof Es as Es0. unfold tree_steal in Es.
    destruct ((free <=? t_free t) && negb (t_res t)) eqn:Ec; try discriminate.
    apply andb_true_iff in Ec. destruct Ec as (M & R). apply N.leb_le in M. apply negb_true_iff in R.
    assert (Q : t_free t' = t_free t - free /\ t_res t' = false /\
                (t_class t' = class \/ t_class t' = t_class t)).
    { destruct (policy class (t_class t) free); inversion Es; subst t'; cbn [t_free t_res t_class]; auto. }
    destruct Q as (Q1 & Q2 & Q3).
    exists t, t'. splits; auto.
    intros cr' E. eapply UIC_set_tree_cr; eauto.
    - intros j Hj. rewrite E. unfold delta. apply N.eqb_neq in Hj. rewrite Hj. lia.
    - eapply okC_unres; eauto.
      + destruct Q3 as [-> | ->]; auto.
      + unfold nn. rewrite N2Nat.id, E. unfold delta. rewrite N.eqb_refl. lia.
  Qed.
  Lemma okC_fresh u offs cr ih k t' :
    slots_of g u (N.of_nat k) = [] -> ih_of ih (N.of_nat k) = [] -> t_res t' = false ->
    class_slots u (t_class t') <> None ->
    t_free t' + nth k offs 0 + cr (N.of_nat k) = tree_free g (low u) (N.of_nat k) ->
    tree_okC g policy u offs cr ih k t'.
  Proof.
    intros L1 L2 R C E. unfold tree_okC. cbv zeta. rewrite L1, L2, R. cbn [length sum_free ih_sum fold_right].
    splits; auto; try lia; try (intros c s []).
    intros c f0 Hin. assert (Q : In (N.of_nat k, c, f0) (ih_of ih (N.of_nat k))) by (apply in_ih_of; auto).
    rewrite L2 in Q. destruct Q.
  Qed.

  Lemma UIC_inhand cr ih x t c f : UIC cr ih x -> In (t, c, f) ih -> t < ntrees (us x) /\ class_slots (us x) c <> None.
  Proof. intros (H1 & H2 & H3 & H4 & H5 & H6 & H7 & H8). apply H8. Qed.
  Lemma UIC_dflt cr ih x : UIC cr ih x -> class_slots (us x) (dflt (us x)) <> None.
  Proof. intros (H1 & H2 & H3 & H4 & H5 & _). exact H5. Qed.
  Lemma UIC_len8 cr ih x : UIC cr ih x -> length (locals (us x)) = 8%nat.
  Proof. intros (H1 & H2 & H3 & H4 & _). exact H4. Qed.
  Lemma UIC_lower cr ih x : UIC cr ih x -> LowerInv g (low (us x)).
  Proof. intros (H1 & _). exact H1. Qed.

  Lemma slot_at_present u c j s : length (locals u) = 8%nat -> slot_at u c j = Some s -> s_pres s = true ->
    In (c, s) (present_slots u).
  Proof using. intros L H P. apply in_present. split; auto. apply in_all_slots; eauto. Qed.

  Lemma UIC_slot cr ih x c j s : UIC cr ih x -> slot_at (us x) c j = Some s -> s_pres s = true ->
    row_tree g (s_row s) < ntrees (us x) /\ s_row s * 64 < frames (low (us x)) /\ s_free s <= TF.
  Proof.
    intros H Hs P. pose proof (UIC_len8 _ _ _ H) as L.
    destruct H as (H1 & H2 & H3 & H4 & H5 & H6 & H7 & H8). apply (H7 c s). eapply slot_at_present; eauto.
  Qed.

  (* `reserve_or_steal`: either the whole counter becomes an in-hand reservation of `class`, or
     `free` frames go to the credit *)
  Lemma trees_reserve_or_steal_C cr ih x i class free r u' :
    pol_refl_match policy ->
    UIC cr ih x -> i < ntrees (us x) -> class_slots (us x) class <> None ->
    trees_reserve_or_steal policy (us x) i class free = (r, u') ->
    (r = Ok None /\ u' = us x) \/
    (exists t, tree_at (us x) i = Some t /\ t_res t = false /\ free <= t_free t /\
       ((pol_keeps (policy class (t_class t) free) = true /\
         r = Ok (Some (true, t_free t, class)) /\
         u' = set_tree (us x) i {| t_free := 0; t_res := true; t_class := class |} /\
         UIC cr ((i, class, t_free t) :: ih) (mk x u')) \/
        (policy class (t_class t) free = PSteal /\
         r = Ok (Some (false, t_free t, t_class t)) /\
         u' = set_tree (us x) i {| t_free := t_free t - free; t_res := false; t_class := t_class t |} /\
         forall cr', (forall j, cr' j = cr j + delta j i free) -> UIC cr' ih (mk x u')))).
  Proof.
    intros PR H Hi Hc Hp. destruct (tree_at_some _ _ Hi) as (t & Ht).
    pose proof (UIC_tree _ _ _ _ _ H Ht) as Hok. pose proof Hok as Hok'. apply tree_okC_nn in Hok'.
    destruct Hok' as (A & B & C & D & F).
    unfold trees_reserve_or_steal in Hp. rewrite Ht in Hp. unfold tree_reserve_or_steal in Hp.
    destruct ((free <=? t_free t) && negb (t_res t)) eqn:Ec.
    2:{ inversion Hp; auto. }
    apply andb_true_iff in Ec. destruct Ec as (M & R). apply N.leb_le in M. apply negb_true_iff in R.
    rewrite R in A.
    assert (L1 : slots_of g (us x) i = []) by (apply length_zero_iff_nil; lia).
    assert (L2 : ih_of ih i = []) by (apply length_zero_iff_nil; lia).
    assert (RES : forall r u', (r, u') = (Ok (Some (true, t_free t, class)),
                   set_tree (us x) i {| t_free := 0; t_res := true; t_class := class |}) ->
              r = Ok (Some (true, t_free t, class)) /\
              u' = set_tree (us x) i {| t_free := 0; t_res := true; t_class := class |} /\
              UIC cr ((i, class, t_free t) :: ih) (mk x u')).
    { intros r0 u0 Q. inversion Q; subst r0 u0. splits; auto.
      eapply UIC_set_tree; eauto.
      - intros j Hj. rewrite ih_of_cons. apply N.eqb_neq in Hj. rewrite N.eqb_sym, Hj. reflexivity.
      - apply tree_okC_nn. rewrite ih_of_cons, N.eqb_refl, L1, L2. cbn [t_free t_res t_class length ih_sum fold_right snd sum_free].
        rewrite L1, L2 in B. cbn [sum_free ih_sum fold_right] in B.
        splits; auto; try lia.
        intros c f0 [Q0|Q0] f.
        * inversion Q0 as [[Hc1 Hc2]]. rewrite <- ?Hc1. specialize (PR class f). destruct (policy class class f); try discriminate. reflexivity.
        * assert (Q' : In (i, c, f0) (ih_of ih i)) by (apply in_ih_of; auto). rewrite L2 in Q'. destruct Q'.
      - intros t0 c f [Q0|Q0].
        + inversion Q0 as [[Hc0 Hc1 Hc2]]. rewrite <- Hc0, <- Hc1. auto.
        + eapply UIC_inhand; eauto. }
    destruct (policy class (t_class t) free) eqn:Ep; inversion Hp; subst r u'; clear Hp; auto; right; exists t; splits; auto.
    - left. split; auto. rewrite Ep. reflexivity.
    - left. split; auto. rewrite Ep. reflexivity.
    - right. rewrite R. splits; auto. intros cr' E. eapply UIC_set_tree_cr; eauto.
      + intros j Hj. rewrite E. unfold delta. apply N.eqb_neq in Hj. rewrite Hj. lia.
      + eapply okC_unres; eauto; cbn [t_free t_res t_class]; auto.
        unfold nn. rewrite N2Nat.id, E. unfold delta. rewrite N.eqb_refl. lia.
  Qed.

  (* `unreserve`: an in-hand reservation goes back to the (then unreserved) tree *)
  Lemma trees_unreserve_C cr ih x i free class r u' :
    UIC cr ((i, class, free) :: ih) x ->
    trees_unreserve g policy (us x) i free class = (r, u') ->
    r = Ok tt /\ UIC cr ih (mk x u') /\
    exists t t', tree_at (us x) i = Some t /\ t_res t = true /\ t_free t' = t_free t + free /\
                 t_res t' = false /\ u' = set_tree (us x) i t'.
  Proof.
    intros H Hp. destruct (UIC_inhand _ _ _ i class free H (or_introl eq_refl)) as (Hi & Hc).
    destruct (tree_at_some _ _ Hi) as (t & Ht).
    pose proof (UIC_tree _ _ _ _ _ H Ht) as Hok. pose proof (UIC_tree_free_le _ _ _ _ H Hi) as Hle.
    apply tree_okC_nn in Hok. destruct Hok as (A & B & C & D & F).
    rewrite ih_of_cons, N.eqb_refl in A, B. cbn [length ih_sum fold_right snd] in A, B.
    assert (R : t_res t = true) by (destruct (t_res t); auto; lia). rewrite R in A.
    assert (L1 : slots_of g (us x) i = []) by (apply length_zero_iff_nil; lia).
    assert (L2 : ih_of ih i = []) by (apply length_zero_iff_nil; lia).
    rewrite L1, L2 in B. cbn [sum_free fold_right] in B.
    pose proof (F class free (or_introl eq_refl) free) as K.
    unfold trees_unreserve, tree_unreserve_add in Hp. rewrite Ht, R in Hp.
    assert (G : forall cls, class_slots (us x) cls <> None ->
              exists t', tree_put g policy (dflt (us x)) {| t_free := t_free t; t_res := false; t_class := cls |} free = Ok t' /\
                         t_free t' = t_free t + free /\ t_res t' = false /\
                         UIC cr ih (mk x (set_tree (us x) i t'))).
    { intros cls Hcls. eexists. split; [apply tree_put_ok; cbn [t_free]; lia|]. cbn [t_free t_res t_class]. splits; auto.
      eapply UIC_set_tree; eauto.
      - intros j Hj. rewrite ih_of_cons. apply N.eqb_neq in Hj. rewrite N.eqb_sym, Hj. reflexivity.
      - unfold nn. apply okC_fresh; rewrite ?N2Nat.id; auto; cbn [t_free t_res t_class].
        + destruct (_ && _); auto. eapply UIC_dflt; eauto.
        + fold (nn i). lia.
      - intros t0 c f Q. eapply UIC_inhand; eauto. right. exact Q. }
    destruct (policy class (t_class t) free) eqn:Ep; try discriminate.
    - destruct (G (t_class t) C) as (t' & E1 & E2 & E3 & E4). rewrite E1 in Hp. inversion Hp; subst r u'.
      splits; auto. exists t, t'. splits; auto.
    - destruct (G class Hc) as (t' & E1 & E2 & E3 & E4). rewrite E1 in Hp. inversion Hp; subst r u'.
      splits; auto. exists t, t'. splits; auto.
  Qed.

  (* ================= Locals ================= *)
  Definition idx_ok (u : upper) (c j : N) : Prop :=
    forall l, class_slots u c = Some l -> j < N.of_nat (length l).

  Lemma idx_ok_slot u c j l : idx_ok u c j -> class_slots u c = Some l -> exists s, nth_error l (nn j) = Some s.
  Proof using.
    intros H E. specialize (H l E). destruct (nth_error l (nn j)) eqn:En; eauto.
    apply nth_error_None in En. unfold nn in En. lia.
  Qed.

  Lemma sum_free_in c s l : In (c, s) l -> s_free s <= sum_free l.
  Proof using.
    unfold sum_free. induction l as [|a l IH]; cbn [In fold_right]; [intros []|].
    intros [->|H]; cbn [snd]; [lia|]. specialize (IH H). lia.
  Qed.

  Lemma locals_get_C cr ih x c j tree n r u' :
    UIC cr ih x -> idx_ok (us x) c j ->
    locals_get g (us x) c j tree n = (r, u') ->
    match r with
    | LRow row =>
        exists s, slot_at (us x) c j = Some s /\ s_pres s = true /\ row = s_row s /\ n <= s_free s /\
          (forall t, tree = Some t -> row_tree g row = t) /\
          row_tree g row < ntrees (us x) /\ row * 64 < frames (low (us x)) /\
          u' = set_slot (us x) c j {| s_pres := true; s_row := s_row s; s_free := s_free s - n |} /\
          forall cr', (forall t, cr' t = cr t + delta t (row_tree g row) n) -> UIC cr' ih (mk x u')
    | LResv rv =>
        u' = us x /\
        exists s, slot_at (us x) c j = Some s /\ s_pres s = true /\ rv = slot_resv s c /\
          ((exists t, tree = Some t /\ row_tree g (s_row s) <> t) \/ s_free s < n)
    | LNone =>
        u' = us x /\
        (class_slots (us x) c = None \/ exists s, slot_at (us x) c j = Some s /\ s_pres s = false)
    | LPanic _ => False
    end.
  Proof.
    intros H Hidx Hp. unfold locals_get in Hp.
    destruct (class_slots (us x) c) as [l|] eqn:HC.
    2:{ inversion Hp; subst. auto. }
    destruct (idx_ok_slot _ _ _ _ Hidx HC) as (s & Hs). rewrite Hs in Hp.
    assert (Hat : slot_at (us x) c j = Some s) by (unfold slot_at; rewrite HC; auto).
    unfold slot_get in Hp.
    destruct (s_pres s) eqn:P; cbn [andb] in Hp.
    2:{ inversion Hp; subst. split; auto. right. eauto. }
    destruct (UIC_slot _ _ _ _ _ _ H Hat P) as (B1 & B2 & B3).
    destruct (match tree with Some i => row_tree g (s_row s) =? i | None => true end) eqn:Et.
    - destruct (n <=? s_free s) eqn:En.
      + apply N.leb_le in En. inversion Hp; subst r u'. clear Hp. exists s. splits; auto.
        * intros t ->. apply N.eqb_eq in Et. auto.
        * intros cr' E. eapply UIC_slot_free; eauto; cbn [s_pres s_row s_free]; auto; try lia.
          intros t. rewrite E. unfold delta. destruct (t =? row_tree g (s_row s)); lia.
      + apply N.leb_gt in En. inversion Hp; subst r u'. clear Hp. split; auto. exists s. splits; auto.
    - inversion Hp; subst r u'. clear Hp. split; auto. exists s. splits; auto. left.
      destruct tree as [t|]; try discriminate. exists t. split; auto. apply N.eqb_neq. auto.
  Qed.

  Lemma locals_put_C cr ih x c j tree n r u' :
    UIC cr ih x -> idx_ok (us x) c j -> n <= cr tree ->
    locals_put g (us x) c j tree n = (r, u') ->
    (r = Ok false /\ u' = us x /\
       (class_slots (us x) c = None \/
        exists s, slot_at (us x) c j = Some s /\ (s_pres s = false \/ row_tree g (s_row s) <> tree))) \/
    (r = Ok true /\ exists s, slot_at (us x) c j = Some s /\ s_pres s = true /\ row_tree g (s_row s) = tree /\
       u' = set_slot (us x) c j {| s_pres := true; s_row := s_row s; s_free := s_free s + n |} /\
       forall cr', (forall t, cr' t + delta t tree n = cr t) -> UIC cr' ih (mk x u')).
  Proof.
    intros H Hidx Hn Hp. unfold locals_put in Hp.
    destruct (class_slots (us x) c) as [l|] eqn:HC.
    2:{ inversion Hp; subst. auto. }
    destruct (idx_ok_slot _ _ _ _ Hidx HC) as (s & Hs). rewrite Hs in Hp.
    assert (Hat : slot_at (us x) c j = Some s) by (unfold slot_at; rewrite HC; auto).
    unfold slot_put in Hp.
    destruct (s_pres s) eqn:P; cbn [andb] in Hp.
    2:{ inversion Hp; subst. left. splits; auto. right. eauto. }
    destruct (N.eqb_spec (row_tree g (s_row s)) tree) as [Et|Et].
    2:{ inversion Hp; subst. left. splits; auto. right. eauto. }
    destruct (UIC_slot _ _ _ _ _ _ H Hat P) as (B1 & B2 & B3).
    rewrite Et in B1. destruct (tree_at_some _ _ B1) as (t & Ht).
    pose proof (UIC_tree _ _ _ _ _ H Ht) as Hok. pose proof (UIC_tree_free_le _ _ _ _ H B1) as Hle.
    apply tree_okC_nn in Hok. destruct Hok as (A & B & _).
    assert (Hin : In (c, s) (slots_of g (us x) tree)).
    { apply in_slots_of. splits; auto. apply in_all_slots; eauto using UIC_len8. }
    pose proof (sum_free_in _ _ _ Hin) as Hsf.
    assert (Hb : s_free s + n <= TF) by lia. apply N.leb_le in Hb. rewrite Hb in Hp.
    inversion Hp; subst r u'. clear Hp. right. split; auto. exists s. splits; auto.
    intros cr' E. eapply UIC_slot_free; eauto; cbn [s_pres s_row s_free]; auto.
    - apply N.leb_le in Hb. auto.
    - intros t0. rewrite Et. specialize (E t0). unfold delta in *. destruct (t0 =? tree); lia.
  Qed.

  Lemma locals_swap_C cr ih x c j tree n r u' :
    UIC cr ((tree, c, n) :: ih) x -> idx_ok (us x) c j ->
    locals_swap g (us x) c j tree n = (r, u') ->
    exists s, slot_at (us x) c j = Some s /\
      r = Ok (if s_pres s then Some (slot_resv s c) else None) /\
      u' = set_slot (us x) c j {| s_pres := true; s_row := tree_row g tree; s_free := n |} /\
      UIC cr (resv_of g c s ++ ih) (mk x u').
  Proof.
    intros H Hidx Hp. destruct (UIC_inhand _ _ _ tree c n H (or_introl eq_refl)) as (Hi & Hc).
    unfold locals_swap in Hp.
    destruct (class_slots (us x) c) as [l|] eqn:HC; [|congruence].
    destruct (idx_ok_slot _ _ _ _ Hidx HC) as (s & Hs). rewrite Hs in Hp.
    assert (Hat : slot_at (us x) c j = Some s) by (unfold slot_at; rewrite HC; auto).
    inversion Hp; subst r u'. clear Hp. exists s. splits; auto.
    destruct (tree_at_some _ _ Hi) as (t & Ht).
    pose proof (UIC_tree _ _ _ _ _ H Ht) as Hok. pose proof (UIC_tree_free_le _ _ _ _ H Hi) as Hle.
    apply tree_okC_nn in Hok. destruct Hok as (A & B & _).
    rewrite ih_of_cons, N.eqb_refl in B. cbn [ih_sum fold_right snd] in B.
    apply UIC_slot_xchg; auto.
    - intros _. cbn [s_row s_free]. split; [|lia]. rewrite (tree_row_64 g WF).
      apply (ntab_lt g). rewrite <- (UIC_ntrees _ _ _ H). exact Hi.
    - unfold resv_of. cbn [s_pres s_row s_free app]. rewrite (row_tree_tree_row g WF). exact H.
  Qed.

  Lemma locals_set_start_C cr ih x c j row r u' :
    UIC cr ih x -> idx_ok (us x) c j -> row * 64 < frames (low (us x)) ->
    locals_set_start g (us x) c j row = (r, u') ->
    r = Ok tt /\ UIC cr ih (mk x u') /\
    (u' = us x \/ exists s, slot_at (us x) c j = Some s /\ s_pres s = true /\
                   row_tree g (s_row s) = row_tree g row /\
                   u' = set_slot (us x) c j {| s_pres := true; s_row := row; s_free := s_free s |}).
  Proof.
    intros H Hidx Hr Hp. unfold locals_set_start in Hp.
    destruct (class_slots (us x) c) as [l|] eqn:HC.
    2:{ inversion Hp; subst. rewrite mk_id. auto. }
    destruct (idx_ok_slot _ _ _ _ Hidx HC) as (s & Hs). rewrite Hs in Hp.
    assert (Hat : slot_at (us x) c j = Some s) by (unfold slot_at; rewrite HC; auto).
    unfold slot_set_start in Hp.
    destruct (s_pres s && (row_tree g (s_row s) =? row_tree g row) && negb (s_row s =? row)) eqn:Ec.
    2:{ inversion Hp; subst. rewrite mk_id. auto. }
    apply andb_true_iff in Ec. destruct Ec as (Ec & _). apply andb_true_iff in Ec. destruct Ec as (P & Et).
    apply N.eqb_eq in Et. inversion Hp; subst r u'. clear Hp.
    destruct (UIC_slot _ _ _ _ _ _ H Hat P) as (B1 & B2 & B3).
    splits; auto.
    - eapply UIC_slot_free; eauto; cbn [s_pres s_row s_free]; auto.
    - right. exists s. splits; auto.
  Qed.
End Prims.
