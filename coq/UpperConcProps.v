(* Theorems about machine M2 (UpperMachine.v: the whole allocator, one transition per atomic access) under
   ARBITRARY interleavings: any number of threads, any schedule of get / get_at / put / drain calls
   (scope: `sched_valid` = valid parameters, no change_tree; see UpperConcInv.v).
   From the invariant `UInv` (UpperConcInv.v):
     conc_uinv            UInv holds in every reachable state
     conc_upper_panics    (C03 part U) the only reachable panic of the whole allocator is lower.rs:470 "Exceeding retries"
                          (finding D13); in particular "Unreserve failed", the `free <= TREE_FRAMES` asserts of trees.rs and
                          local.rs, "unreserve invalid class", "Invalid class" and every slice index of trees / locals
                          are unreachable
     conc_upper_held      (C01 through the upper API) blocks handed out and not yet freed are disjoint, aligned, in range
     conc_quiescent_inv   (C04) whenever every thread is idle the sequential invariant `UpperInv` holds (with no tree
                          offline), hence (sequential theorems of UpperStatsProofs.v / GlueHistory.v, restated in Properties/C04.v) validate() passes and fast and exact
                          accounting agree at the end of EVERY interleaving: conc_quiescent_validate,
                          conc_quiescent_stats. *)
From Coq Require Import PeanoNat Permutation.
From LLF Require Import Base Row Bitfield Lower Spec Sorted Upper UpperInvDef LowerFacts LowerFactsProofs UpperPrims
  LowerMachine ConcBase ConcInvDef ConcInvStep ConcInv ConcProps Crash UpperMachine UpperConcInvDef UpperConcUIC UpperConcWf
  UpperConcLocal UpperConcM1 UpperConcInv.
From LLF Require UpperPutProofs PolicyFacts ConcInvInit UpperConcClass Policies.
From LLF Require AbsLemmas LowerInitProofs UpperStatsProofs UpperGetProofs Handoff GlueProofs GlueHistory.

Section Props.
  Variable g : geom.
  Variable policy : N -> N -> N -> pol.
  Hypothesis WF : wf_geom g.
  Hypothesis PR : pol_refl_match policy.
  Hypothesis PT : pol_demote_trans policy.

  Lemma CRf_nil n i : CRf (repeat gh_nil n) i = 0.
  Proof. unfold CRf. apply sumf_repeat_zero. reflexivity. Qed.
  Lemma IHf_nil n : IHf (repeat gh_nil n) = [].
  Proof. unfold IHf. induction n; cbn [repeat flat_map]; [reflexivity|]. exact IHn. Qed.
  Lemma map_repeat {A B} (f : A -> B) x n : map f (repeat x n) = repeat (f x) n.
  Proof. induction n; cbn [repeat map]; [reflexivity|]. f_equal. exact IHn. Qed.
  Lemma flat_map_nil {A B} (f : A -> list B) l : (forall x, In x l -> f x = []) -> flat_map f l = [].
  Proof. induction l as [|a l IH]; cbn [flat_map]; intros H; [reflexivity|]. rewrite (H a (or_introl eq_refl)), IH; [reflexivity|]. intros x Hx. apply H. right. exact Hx. Qed.

  (* ----- the initial state ----- *)
  Theorem uboot_inv u held0 n :
    UpperInv g policy (ustate_new u) -> HeldInit g (low u) held0 -> UInv g policy (uboot u held0 n).
  Proof.
    intros HU HH. split; [|split].
    - replace (m1_of g (uboot u held0 n)) with (boot (low u) held0 n).
      + apply (boot_inv g WF); [exact (proj1 HU)|exact HH].
      + unfold m1_of, boot, uboot. cbn. rewrite map_repeat. cbn [low_thr].
        rewrite flat_map_nil, app_nil_r; [reflexivity|]. intros x Hx. apply repeat_spec in Hx. subst x. reflexivity.
    - unfold UG. cbn [uboot m2_up m2_pool]. rewrite map_repeat. cbn [uthr_gh].
      apply (UpperInv_C0 g policy) in HU. apply (UIC2_of_C g policy WF _ _ _ (lower_facts_proved g WF)) in HU.
      rewrite IHf_nil. eapply (U2_ext g policy WF); [|exact HU]. intros i. rewrite CRf_nil. reflexivity.
    - cbn [uboot m2_up m2_pool]. apply Forall_forall. intros x Hx. apply repeat_spec in Hx. subst x. exact I.
  Qed.

  Theorem conc_uinv u held0 n sch :
    UpperInv g policy (ustate_new u) -> HeldInit g (low u) held0 -> sched_valid g u sch ->
    UInv g policy (urun g policy sch (uboot u held0 n)).
  Proof.
    intros HU HH SV. apply (urun_inv g policy WF PR PT); [apply uboot_inv; assumption|exact SV].
  Qed.

  (* ----- (a) panics ----- *)
  Lemma uinv_panics s : UInv g policy s -> forall x, In x (upanicked s) -> x = SExceedingRetries.
  Proof.
    intros (_ & _ & F) x Hx. unfold upanicked in Hx. apply in_flat_map in Hx. destruct Hx as (th & Hth & Hin).
    pose proof (proj1 (Forall_forall _ _) F th Hth) as W. destruct th as [l|c p k|z c]; cbn in Hin; try tauto.
    destruct Hin as [<-|[]]. exact (proj1 W).
  Qed.

  (* ----- (b) the blocks handed out ----- *)
  Lemma heldc_app x a b : heldc x (a ++ b) = heldc x a + heldc x b.
  Proof. unfold heldc. apply sumf_app. Qed.

  Lemma uinv_held s : UInv g policy s -> uheld_ok s = true.
  Proof.
    intros (I & _ & _). unfold uheld_ok.
    pose proof (I_H g _ I) as Hk. cbn [m1_of ms_held ms_frames] in Hk. apply Forall_app in Hk. destruct Hk as [Hk _].
    apply andb_true_iff. split.
    - apply forallb_forall. intros b Hb. exact (proj1 (Forall_forall _ _) Hk b Hb).
    - apply (pairwise_from_heldc (frames (low (m2_up s)))); [exact Hk|].
      intros x Hx. pose proof (inv_heldc_le1 g WF _ I x Hx) as Q. cbn [m1_of ms_held] in Q. rewrite heldc_app in Q. lia.
  Qed.

  (* ----- (c) quiescence ----- *)
  Definition uquiescent (s : m2state) : Prop := forall x, In x (m2_pool s) -> exists l, x = UIdle l.

  Lemma uinv_quiescent s : UInv g policy s -> uquiescent s -> UpperInv g policy (ustate_new (m2_up s)).
  Proof.
    intros (I & U & _) Q.
    assert (QM : quiescent (m1_of g s)).
    { intros x Hx. cbn [m1_of ms_pool] in Hx. apply in_map_iff in Hx. destruct Hx as (y & <- & Hy).
      destruct (Q y Hy) as (l & ->). exists None. reflexivity. }
    pose proof (quiescent_inv g WF _ I QM) as LI.
    assert (LI' : LowerInv g (low (m2_up s))) by exact LI.
    assert (Gn : map (uthr_gh g) (m2_pool s) = repeat gh_nil (length (m2_pool s))).
    { clear - Q. unfold uquiescent in Q. induction (m2_pool s) as [|a l IH]; [reflexivity|]. cbn [map length repeat]. f_equal.
      - destruct (Q a (or_introl eq_refl)) as (l0 & ->). reflexivity.
      - apply IH. intros x Hx. apply Q. right. exact Hx. }
    unfold UG in U. rewrite Gn, IHf_nil in U.
    apply (UpperInv_C0 g policy). apply (UIC2_to_C g policy WF); [exact LI'|].
    eapply (U2_ext g policy WF); [|exact U]. intros i. apply CRf_nil.
  Qed.
End Props.

(* ================================ the theorems ================================ *)
Theorem conc_upper_safe : forall g policy u held0 n sch,
  wf_geom g -> pol_refl_match policy -> pol_demote_trans policy ->
  UpperInv g policy (ustate_new u) -> HeldInit g (low u) held0 -> sched_valid g u sch ->
  let s := urun g policy sch (uboot u held0 n) in
  (forall x, In x (upanicked s) -> x = SExceedingRetries) /\
  uheld_ok s = true /\
  (uquiescent s -> UpperInv g policy (ustate_new (m2_up s))).
Proof.
  intros g policy u held0 n sch WF PR PT HU HH SV s.
  pose proof (conc_uinv g policy WF PR PT u held0 n sch HU HH SV) as UI. fold s in UI.
  split; [apply (uinv_panics g policy s UI)|]. split; [apply (uinv_held g policy WF s UI)|apply (uinv_quiescent g policy WF s UI)].
Qed.
Print Assumptions conc_upper_safe.

(* at the end of every interleaving: validate() passes, fast and exact accounting agree *)
Theorem conc_quiescent_validate : forall g policy u held0 n sch,
  wf_geom g -> pol_refl_match policy -> pol_demote_trans policy ->
  UpperInv g policy (ustate_new u) -> HeldInit g (low u) held0 -> sched_valid g u sch ->
  let s := urun g policy sch (uboot u held0 n) in
  uquiescent s -> llfree_validate g (m2_up s) = Ok tt.
Proof.
  intros g policy u held0 n sch WF PR PT HU HH SV s Q.
  destruct (conc_upper_safe g policy u held0 n sch WF PR PT HU HH SV) as (_ & _ & H). specialize (H Q).
  apply (UpperStatsProofs.llfree_validate_ok g policy WF (lower_facts_proved g WF) _ H (GlueProofs.LS_sum g WF)). cbn [ustate_new off]. apply Forall_forall. intros x Hx.
  apply repeat_spec in Hx. exact Hx.
Qed.
Print Assumptions conc_quiescent_validate.

Theorem conc_quiescent_stats : forall g policy u held0 n sch,
  wf_geom g -> pol_refl_match policy -> pol_demote_trans policy ->
  UpperInv g policy (ustate_new u) -> HeldInit g (low u) held0 -> sched_valid g u sch ->
  let s := urun g policy sch (uboot u held0 n) in
  uquiescent s ->
  exists ts, llfree_tree_stats g (m2_up s) = Ok ts /\
    ts_free ts = free_frames (llfree_stats g (m2_up s)) /\
    ts_free ts = exact_free (abs g (low (m2_up s))).
Proof.
  intros g policy u held0 n sch WF PR PT HU HH SV s Q.
  destruct (conc_upper_safe g policy u held0 n sch WF PR PT HU HH SV) as (_ & _ & H). specialize (H Q).
  destruct (GlueHistory.tree_stats_step g policy WF _ H) as (ts & E & _).
  exists ts. split; [exact E|].
  pose proof (UpperStatsProofs.llfree_tree_stats_free g policy WF (lower_facts_proved g WF) _ H (GlueProofs.LS_sum g WF) ts E) as A.
  assert (B : ts_free ts + UpperStatsProofs.sumN (off (ustate_new (m2_up s))) = exact_free (abs g (low (us (ustate_new (m2_up s))))))
    by (exact (eq_trans A (proj1 (GlueHistory.stats_step g policy WF _ H)))).
  assert (Z : forall k, UpperStatsProofs.sumN (repeat 0 k) = 0).
  { induction k as [|k IH]; [reflexivity|]. cbn [repeat UpperStatsProofs.sumN fold_right]. exact IH. }
  unfold ustate_new in A, B. cbn [off us] in A, B. rewrite Z, N.add_0_r in A, B. split; assumption.
Qed.
Print Assumptions conc_quiescent_stats.

