(* Theorems about machine M2 (UpperMachine.v: the whole allocator, one transition per atomic access) under
   ARBITRARY interleavings: any number of threads, any schedule of get / get_at / put / drain / change_tree calls
   (scope: `sched_valid` = valid parameters; change_tree restricted to Offline and class changes; see UpperConcInv.v).
   The ghost `off` (frames hidden by Offline) is computed along the run by `grun`; without change_tree it stays zero.
   From the invariant `UInv` (UpperConcInv.v):
     conc_uinv            UInv holds in every reachable state
     conc_upper_panics    (C03 part U) the only reachable panic of the whole allocator is lower.rs:470 "Exceeding retries"
                          (finding D13); in particular "Unreserve failed", the `free <= TREE_FRAMES` asserts of trees.rs and
                          local.rs, "unreserve invalid class", "Invalid class" and every slice index of trees / locals
                          are unreachable
     conc_upper_held      (C01 through the upper API) blocks handed out and not yet freed are disjoint, aligned, in range
     conc_upper_safe_off  the same three facts with change_tree in the schedule (UpperInv with the computed ghost `off`)
     conc_offline_hidden  (C15) a tree whose frames are all hidden (off = TREE_FRAMES) stays hidden along every
                          continuation, its counter is 0 and no block handed out lies in it
     (c) of conc_upper_safe (C04) whenever every thread is idle the sequential invariant `UpperInv` holds (with no tree
                          offline), hence (sequential theorems of UpperStatsProofs.v / GlueHistory.v, restated in Properties/C04.v) validate() passes and fast and exact
                          accounting agree at the end of EVERY interleaving: conc_quiescent_validate,
                          conc_quiescent_stats. *)
From Coq Require Import PeanoNat Permutation.
From LLF Require Import Base Row Bitfield Lower Spec Sorted Upper UpperInvDef LowerFacts LowerFactsProofs UpperPrims
  LowerMachine ConcBase ConcInvDef ConcInvStep ConcInv ConcProps Crash UpperMachine UpperConcInvDef UpperConcUIC UpperConcWf
  UpperConcLocal UpperConcM1 UpperConcInv.
From LLF Require UpperPutProofs PolicyFacts ConcInvInit UpperConcClass Policies.
From LLF Require AbsLemmas LowerInitProofs UpperStatsProofs UpperGetProofs Handoff GlueProofs GlueHistory.

Section Props.
  Variable g : geom.
  Variable policy : N -> N -> N -> pol.
  Hypothesis WF : wf_geom g.
  Hypothesis PR : pol_refl_match policy.
  Hypothesis PT : pol_demote_trans policy.

  Lemma CRf_nil n i : CRf (repeat gh_nil n) i = 0.
  Proof. unfold CRf. apply sumf_repeat_zero. reflexivity. Qed.
  Lemma IHf_nil n : IHf (repeat gh_nil n) = [].
  Proof. unfold IHf. induction n; cbn [repeat flat_map]; [reflexivity|]. exact IHn. Qed.
  Lemma map_repeat {A B} (f : A -> B) x n : map f (repeat x n) = repeat (f x) n.
  Proof. induction n; cbn [repeat map]; [reflexivity|]. f_equal. exact IHn. Qed.
  Lemma flat_map_nil {A B} (f : A -> list B) l : (forall x, In x l -> f x = []) -> flat_map f l = [].
  Proof. induction l as [|a l IH]; cbn [flat_map]; intros H; [reflexivity|]. rewrite (H a (or_introl eq_refl)), IH; [reflexivity|]. intros x Hx. apply H. right. exact Hx. Qed.

  (* ----- the initial state ----- *)
  Definition zeros (u : upper) : list N := repeat 0 (length (trees u)).

  Theorem uboot_inv u held0 n :
    UpperInv g policy (ustate_new u) -> HeldInit g (low u) held0 -> UInv g policy (zeros u) (uboot u held0 n).
  Proof.
    intros HU HH. split; [|split].
    - replace (m1_of g (uboot u held0 n)) with (boot (low u) held0 n).
      + apply (boot_inv g WF); [exact (proj1 HU)|exact HH].
      + unfold m1_of, boot, uboot. cbn. rewrite map_repeat. cbn [low_thr].
        rewrite flat_map_nil, app_nil_r; [reflexivity|]. intros x Hx. apply repeat_spec in Hx. subst x. reflexivity.
    - unfold UG. cbn [uboot m2_up m2_pool]. rewrite map_repeat. cbn [uthr_gh].
      apply (UpperInv_C0 g policy) in HU. apply (UIC2_of_C g policy WF _ _ _ (lower_facts_proved g WF)) in HU.
      rewrite IHf_nil. eapply (U2_ext g policy WF); [|exact HU]. intros i. rewrite CRf_nil. reflexivity.
    - cbn [uboot m2_up m2_pool]. apply Forall_forall. intros x Hx. apply repeat_spec in Hx. subst x. exact I.
  Qed.

  (* the run together with its ghost `off` *)
  Theorem conc_uinv u held0 n sch :
    UpperInv g policy (ustate_new u) -> HeldInit g (low u) held0 -> sched_valid g u sch ->
    let x := grun g policy sch (uboot u held0 n, zeros u) in
    UInv g policy (snd x) (fst x) /\ fst x = urun g policy sch (uboot u held0 n).
  Proof.
    intros HU HH SV x. split; [|apply grun_fst].
    apply (grun_inv g policy WF PR PT); [apply uboot_inv; assumption|exact SV].
  Qed.

  Lemma urun_static sch : forall st, static_eq (m2_up st) (m2_up (urun g policy sch st)).
  Proof.
    induction sch as [|[t c] sch IH]; intros st; [apply static_refl|]. cbn [urun fold_left fst snd].
    eapply static_trans; [apply (ustep_static g policy WF st t c)|apply IH].
  Qed.

  (* ----- (a) panics ----- *)
  Lemma uinv_panics o s : UInv g policy o s -> forall x, In x (upanicked s) -> x = SExceedingRetries.
  Proof.
    intros (_ & _ & F) x Hx. unfold upanicked in Hx. apply in_flat_map in Hx. destruct Hx as (th & Hth & Hin).
    pose proof (proj1 (Forall_forall _ _) F th Hth) as W. destruct th as [l|c p k|z c]; cbn in Hin; try tauto.
    destruct Hin as [<-|[]]. exact (proj1 W).
  Qed.

  (* ----- (b) the blocks handed out ----- *)
  Lemma heldc_app x a b : heldc x (a ++ b) = heldc x a + heldc x b.
  Proof. unfold heldc. apply sumf_app. Qed.

  Lemma uinv_held o s : UInv g policy o s -> uheld_ok s = true.
  Proof.
    intros (I & _ & _). unfold uheld_ok.
    pose proof (I_H g _ I) as Hk. cbn [m1_of ms_held ms_frames] in Hk. apply Forall_app in Hk. destruct Hk as [Hk _].
    apply andb_true_iff. split.
    - apply forallb_forall. intros b Hb. exact (proj1 (Forall_forall _ _) Hk b Hb).
    - apply (pairwise_from_heldc (frames (low (m2_up s)))); [exact Hk|].
      intros x Hx. pose proof (inv_heldc_le1 g WF _ I x Hx) as Q. cbn [m1_of ms_held] in Q. rewrite heldc_app in Q. lia.
  Qed.

  (* ----- (c) quiescence ----- *)
  Definition uquiescent (s : m2state) : Prop := forall x, In x (m2_pool s) -> exists l, x = UIdle l.

  Lemma uinv_quiescent o s : UInv g policy o s -> uquiescent s -> UpperInv g policy {| us := m2_up s; off := o |}.
  Proof.
    intros (I & U & _) Q.
    assert (QM : quiescent (m1_of g s)).
    { intros x Hx. cbn [m1_of ms_pool] in Hx. apply in_map_iff in Hx. destruct Hx as (y & <- & Hy).
      destruct (Q y Hy) as (l & ->). exists None. reflexivity. }
    pose proof (quiescent_inv g WF _ I QM) as LI.
    assert (LI' : LowerInv g (low (m2_up s))) by exact LI.
    assert (Gn : map (uthr_gh g) (m2_pool s) = repeat gh_nil (length (m2_pool s))).
    { clear - Q. unfold uquiescent in Q. induction (m2_pool s) as [|a l IH]; [reflexivity|]. cbn [map length repeat]. f_equal.
      - destruct (Q a (or_introl eq_refl)) as (l0 & ->). reflexivity.
      - apply IH. intros x Hx. apply Q. right. exact Hx. }
    unfold UG in U. rewrite Gn, IHf_nil in U.
    apply (UpperInv_C0 g policy). apply (UIC2_to_C g policy WF); [exact LI'|].
    eapply (U2_ext g policy WF); [|exact U]. intros i. apply CRf_nil.
  Qed.

  (* ----- C15: a tree whose frames are all hidden by Offline (off = TREE_FRAMES) ----- *)
  Lemma uinv_hidden o s i t :
    UInv g policy o s -> tree_at (m2_up s) i = Some t -> nth (nn i) o 0 = TF g ->
    t_free t = 0 /\ tree_free g (low (m2_up s)) i = TF g /\ CRf (map (uthr_gh g) (m2_pool s)) i = 0.
  Proof.
    intros (_ & U & _) Et Eo. pose proof (tree_at_lt _ _ _ Et) as L.
    pose proof (U2_tree g policy WF _ _ _ _ _ U Et) as Ok. apply (tree_ok2_nn2 g policy WF) in Ok. destruct Ok as (_ & B & _).
    pose proof (U2_tree_free_le g policy WF _ _ _ _ U L) as Le. cbn [ux us off] in B, Le. rewrite Eo in B. lia.
  Qed.

  Lemma uinv_hidden_held o s i :
    UInv g policy o s -> i < ntrees (m2_up s) -> nth (nn i) o 0 = TF g ->
    forall F K, In (F, K) (m2_held s) -> F / TF g <> i.
  Proof.
    intros UI L Eo F K Hin E. destruct (tree_at_some _ _ L) as (t & Et).
    destruct (uinv_hidden o s i t UI Et Eo) as (_ & Tf & _). destruct UI as (I & _ & _).
    assert (Hin' : In (F, K) (ms_held (m1_of g s))) by (cbn [m1_of ms_held]; apply in_or_app; left; exact Hin).
    pose proof (inv_held_tree_free g WF _ F K I Hin') as Q. rewrite E in Q.
    assert (Eq : tree_free g (lower_of (m1_of g s)) i = tree_free g (low (m2_up s)) i) by reflexivity.
    rewrite Eq, Tf in Q. lia.
  Qed.

  (* once hidden, always hidden *)
  Lemma goff_hidden o s t i :
    UInv g policy o s -> i < ntrees (m2_up s) -> nth (nn i) o 0 = TF g -> nth (nn i) (goff o s t) 0 = TF g.
  Proof.
    intros UI L Eo. unfold goff. destruct (nth_error (m2_pool s) t) as [[l|c p k|z c]|]; try exact Eo.
    destruct p as [j|j f0|j f0 cur j' a|j f0 cur new|cl idx f0|cl idx f0 cur new|cl idx new|th]; try exact Eo.
    destruct f0 as [| | | |mc mf ch|]; try exact Eo. cbn [off_next].
    destruct (tree_at (m2_up s) j) as [tr|] eqn:Et; [|exact Eo]. destruct (tree_eqb tr cur) eqn:Eq; [|exact Eo].
    apply tree_eqb_true in Eq. subst tr. unfold off_upd. destruct (c_op ch) as [[|]|]; try exact Eo.
    destruct (N.eq_dec j i) as [->|Ne].
    - destruct (uinv_hidden o s i cur UI Et Eo) as (Z & _). rewrite nth_upd_same.
      + rewrite Eo, Z. lia.
      + destruct UI as (_ & U & _). destruct U as (_ & _ & H3 & _). cbn [ux off us] in H3. rewrite H3. unfold ntrees in L. unfold nn. lia.
    - rewrite nth_upd_other; [exact Eo|]. unfold nn. lia.
  Qed.

  Lemma grun_hidden sch : forall s o i, UInv g policy o s -> sched_valid g (m2_up s) sch ->
    i < ntrees (m2_up s) -> nth (nn i) o 0 = TF g ->
    let y := grun g policy sch (s, o) in
    nth (nn i) (snd y) 0 = TF g /\ (forall F K, In (F, K) (m2_held (fst y)) -> F / TF g <> i).
  Proof.
    induction sch as [|[t c] sch IH]; intros s o i UI SV L Eo.
    - split; [exact Eo|]. apply (uinv_hidden_held o); assumption.
    - inversion SV as [|? ? V1 V2]; subst. cbn [snd] in V1.
      change (grun g policy ((t, c) :: sch) (s, o)) with (grun g policy sch (fst (ustep g policy s t c), goff o s t)).
      apply IH.
      + apply (ustep_inv g policy WF PR PT); assumption.
      + eapply Forall_impl; [|exact V2]. intros tc. apply (call_valid2_static g). apply (ustep_static g policy WF).
      + rewrite (proj1 (ustep_static g policy WF s t c)). exact L.
      + apply goff_hidden; assumption.
  Qed.

  Lemma zeros_static u u' : static_eq u u' -> zeros u' = zeros u.
  Proof. intros (E & _). unfold zeros. unfold ntrees in E. f_equal. lia. Qed.
End Props.

(* ================================ the theorems ================================ *)
(* schedules with change_tree (Offline / class change): the ghost `off` is computed along the run (`grun`) *)
Theorem conc_upper_safe_off : forall g policy u held0 n sch,
  wf_geom g -> pol_refl_match policy -> pol_demote_trans policy ->
  UpperInv g policy (ustate_new u) -> HeldInit g (low u) held0 -> sched_valid g u sch ->
  let x := grun g policy sch (uboot u held0 n, zeros u) in
  let s := fst x in
  s = urun g policy sch (uboot u held0 n) /\
  (forall z, In z (upanicked s) -> z = SExceedingRetries) /\
  uheld_ok s = true /\
  (uquiescent s -> UpperInv g policy {| us := m2_up s; off := snd x |}).
Proof.
  intros g policy u held0 n sch WF PR PT HU HH SV x s.
  destruct (conc_uinv g policy WF PR PT u held0 n sch HU HH SV) as (UI & E). fold x in UI, E. fold s in UI, E.
  split; [exact E|]. split; [apply (uinv_panics g policy _ s UI)|].
  split; [apply (uinv_held g policy WF _ s UI)|apply (uinv_quiescent g policy WF _ s UI)].
Qed.
Print Assumptions conc_upper_safe_off.

(* C15, concurrent: once all frames of tree i are hidden by Offline (off_i = TREE_FRAMES, i.e. the tree was entirely
   free and unreserved when it was taken offline), this stays so along EVERY continuation of the schedule, the
   tree counter is 0 and no block handed out lies in tree i: an offline tree is never allocated from *)
Theorem conc_offline_hidden : forall g policy u held0 n sch1 sch2 i,
  wf_geom g -> pol_refl_match policy -> pol_demote_trans policy ->
  UpperInv g policy (ustate_new u) -> HeldInit g (low u) held0 -> sched_valid g u (sch1 ++ sch2) ->
  i < ntrees u ->
  let x := grun g policy sch1 (uboot u held0 n, zeros u) in
  nth (nn i) (snd x) 0 = TF g ->
  let y := grun g policy sch2 x in
  y = grun g policy (sch1 ++ sch2) (uboot u held0 n, zeros u) /\
  nth (nn i) (snd y) 0 = TF g /\
  (forall F K, In (F, K) (m2_held (fst y)) -> F / TF g <> i) /\
  (forall t, tree_at (m2_up (fst y)) i = Some t -> t_free t = 0).
Proof.
  intros g policy u held0 n sch1 sch2 i WF PR PT HU HH SV L x Eo y.
  apply Forall_app in SV. destruct SV as [SV1 SV2].
  destruct (conc_uinv g policy WF PR PT u held0 n sch1 HU HH SV1) as (UI & E). fold x in UI, E.
  assert (SE : static_eq u (m2_up (fst x))).
  { rewrite E. apply (urun_static g policy WF sch1 (uboot u held0 n)). }
  assert (SV2' : sched_valid g (m2_up (fst x)) sch2).
  { eapply Forall_impl; [|exact SV2]. intros tc. apply (call_valid2_static g). exact SE. }
  assert (L' : i < ntrees (m2_up (fst x))) by (rewrite (proj1 SE); exact L).
  assert (Ex : x = (fst x, snd x)) by apply surjective_pairing.
  split; [unfold y, x, grun; rewrite fold_left_app; reflexivity|].
  pose proof (grun_hidden g policy WF PR PT sch2 (fst x) (snd x) i UI SV2' L' Eo) as H. cbv zeta in H. rewrite <- Ex in H. fold y in H.
  destruct H as [H1 H2]. split; [exact H1|]. split; [exact H2|].
  intros t Et.
  assert (UIy : UInv g policy (snd y) (fst y)).
  { unfold y. rewrite Ex. apply (grun_inv g policy WF PR PT); assumption. }
  exact (proj1 (uinv_hidden g policy WF _ _ i t UIy Et H1)).
Qed.
Print Assumptions conc_offline_hidden.

(* schedules without change_tree: no tree is ever offline *)
Theorem conc_upper_safe : forall g policy u held0 n sch,
  wf_geom g -> pol_refl_match policy -> pol_demote_trans policy ->
  UpperInv g policy (ustate_new u) -> HeldInit g (low u) held0 ->
  sched_valid g u sch -> Forall (fun tc => no_change (snd tc)) sch ->
  let s := urun g policy sch (uboot u held0 n) in
  (forall x, In x (upanicked s) -> x = SExceedingRetries) /\
  uheld_ok s = true /\
  (uquiescent s -> UpperInv g policy (ustate_new (m2_up s))).
Proof.
  intros g policy u held0 n sch WF PR PT HU HH SV NC s.
  destruct (conc_upper_safe_off g policy u held0 n sch WF PR PT HU HH SV) as (E & A & B & C).
  assert (Eo : snd (grun g policy sch (uboot u held0 n, zeros u)) = zeros u).
  { apply (grun_nochange g policy WF PR PT); [apply uboot_inv; assumption|exact SV|exact NC|].
    cbn [uboot m2_pool]. apply Forall_forall. intros x Hx. apply repeat_spec in Hx. subst x. exact I. }
  rewrite E in A, B, C. fold s in A, B, C. split; [exact A|]. split; [exact B|].
  intros Q. specialize (C Q). rewrite Eo in C.
  assert (Ez : zeros u = zeros (m2_up s)).
  { symmetry. apply zeros_static. unfold s. apply (urun_static g policy WF sch (uboot u held0 n)). }
  rewrite Ez in C. exact C.
Qed.
Print Assumptions conc_upper_safe.

(* at the end of every interleaving: validate() passes, fast and exact accounting agree *)
Theorem conc_quiescent_validate : forall g policy u held0 n sch,
  wf_geom g -> pol_refl_match policy -> pol_demote_trans policy ->
  UpperInv g policy (ustate_new u) -> HeldInit g (low u) held0 ->
  sched_valid g u sch -> Forall (fun tc => no_change (snd tc)) sch ->
  let s := urun g policy sch (uboot u held0 n) in
  uquiescent s -> llfree_validate g (m2_up s) = Ok tt.
Proof.
  intros g policy u held0 n sch WF PR PT HU HH SV NC s Q.
  destruct (conc_upper_safe g policy u held0 n sch WF PR PT HU HH SV NC) as (_ & _ & H). specialize (H Q).
  apply (UpperStatsProofs.llfree_validate_ok g policy WF (lower_facts_proved g WF) _ H (GlueProofs.LS_sum g WF)). cbn [ustate_new off]. apply Forall_forall. intros x Hx.
  apply repeat_spec in Hx. exact Hx.
Qed.
Print Assumptions conc_quiescent_validate.

(* ... with change_tree: the fast count plus the hidden amounts is the exact count *)
Theorem conc_quiescent_stats_off : forall g policy u held0 n sch,
  wf_geom g -> pol_refl_match policy -> pol_demote_trans policy ->
  UpperInv g policy (ustate_new u) -> HeldInit g (low u) held0 -> sched_valid g u sch ->
  let x := grun g policy sch (uboot u held0 n, zeros u) in
  uquiescent (fst x) ->
  exists ts, llfree_tree_stats g (m2_up (fst x)) = Ok ts /\
    ts_free ts + UpperStatsProofs.sumN (snd x) = free_frames (llfree_stats g (m2_up (fst x))) /\
    ts_free ts + UpperStatsProofs.sumN (snd x) = exact_free (abs g (low (m2_up (fst x)))).
Proof.
  intros g policy u held0 n sch WF PR PT HU HH SV x Q.
  destruct (conc_upper_safe_off g policy u held0 n sch WF PR PT HU HH SV) as (_ & _ & _ & H). specialize (H Q). fold x in H.
  destruct (GlueHistory.tree_stats_step g policy WF _ H) as (ts & E & _).
  exists ts. split; [exact E|].
  pose proof (UpperStatsProofs.llfree_tree_stats_free g policy WF (lower_facts_proved g WF) _ H (GlueProofs.LS_sum g WF) ts E) as A.
  split; [exact A|]. exact (eq_trans A (proj1 (GlueHistory.stats_step g policy WF _ H))).
Qed.
Print Assumptions conc_quiescent_stats_off.

Theorem conc_quiescent_stats : forall g policy u held0 n sch,
  wf_geom g -> pol_refl_match policy -> pol_demote_trans policy ->
  UpperInv g policy (ustate_new u) -> HeldInit g (low u) held0 ->
  sched_valid g u sch -> Forall (fun tc => no_change (snd tc)) sch ->
  let s := urun g policy sch (uboot u held0 n) in
  uquiescent s ->
  exists ts, llfree_tree_stats g (m2_up s) = Ok ts /\
    ts_free ts = free_frames (llfree_stats g (m2_up s)) /\
    ts_free ts = exact_free (abs g (low (m2_up s))).
Proof.
  intros g policy u held0 n sch WF PR PT HU HH SV NC s Q.
  destruct (conc_upper_safe g policy u held0 n sch WF PR PT HU HH SV NC) as (_ & _ & H). specialize (H Q).
  destruct (GlueHistory.tree_stats_step g policy WF _ H) as (ts & E & _).
  exists ts. split; [exact E|].
  pose proof (UpperStatsProofs.llfree_tree_stats_free g policy WF (lower_facts_proved g WF) _ H (GlueProofs.LS_sum g WF) ts E) as A.
  assert (B : ts_free ts + UpperStatsProofs.sumN (off (ustate_new (m2_up s))) = exact_free (abs g (low (us (ustate_new (m2_up s))))))
    by (exact (eq_trans A (proj1 (GlueHistory.stats_step g policy WF _ H)))).
  assert (Z : forall k, UpperStatsProofs.sumN (repeat 0 k) = 0).
  { induction k as [|k IH]; [reflexivity|]. cbn [repeat UpperStatsProofs.sumN fold_right]. exact IH. }
  unfold ustate_new in A, B. cbn [off us] in A, B. rewrite Z, N.add_0_r in A, B. split; assumption.
Qed.
Print Assumptions conc_quiescent_stats.

(* ================================ non-vacuity ================================ *)
(* Two threads, alternating step by step, on a 4-tree allocator (TREE_FRAMES = 256; classes 0 and 1 with one slot
   each; simple policy): thread 0 allocates (class 1) then frees frame 768 -- the block thread 1 obtained in the
   meantime -- while thread 1 keeps allocating (class 0); `nop` (a put of a frame nobody holds) only lets running
   calls finish.  All hypotheses of the theorems hold; the final state is quiescent, two blocks are held, and
   (both by the theorem and by evaluation) validate() passes. *)
Module SafeExample.
  Import UpperConcClass.ClassExample.
  Definition nop := UPut 1023 (rq 0 0 None).
  Definition alt2 (n : nat) (a b : ucall) : list (nat * ucall) :=
    flat_map (fun _ => [(0%nat, a); (1%nat, b)]) (seq 0 n).
  Definition sch := alt2 14 cA cB ++ alt2 30 (UPut 768 (rq 0 0 (Some 0))) cB ++ alt2 40 nop nop.
  Definition sF := urun g7 pol7 sch (uboot U0 [] 2).

  Lemma wf7 : wf_geom g7. Proof. unfold wf_geom; cbn; lia. Qed.
  Lemma inv0 : UpperInv g7 pol7 (ustate_new U0).
  Proof. apply UpperPutProofs.upper_invb_sound; [apply PolicyFacts.pol_simple_facts|]. vm_compute. reflexivity. Qed.
  Lemma held0 : HeldInit g7 (low U0) [].
  Proof. change (low U0) with (free_all g7 1024) || replace (low U0) with (free_all g7 1024) by (vm_compute; reflexivity).
         apply ConcInvInit.held_init_free_all. exact wf7. Qed.

  Lemma valid_call c : In c [cA; cB; UPut 768 (rq 0 0 (Some 0)); nop] -> call_valid2 g7 U0 c.
  Proof.
    intros H. repeat (destruct H as [<-|H]); [| | | |destruct H]; (split; [|try exact I; vm_compute; reflexivity]);
      cbn [call_valid]; intros l len E1 E2; vm_compute in E1, E2; inversion E1; inversion E2; subst; reflexivity.
  Qed.
  Lemma in_alt2 n a b t c : In (t, c) (alt2 n a b) -> c = a \/ c = b.
  Proof.
    unfold alt2. intros Hin. apply in_flat_map in Hin. destruct Hin as (k & _ & Hin). cbn [In] in Hin.
    destruct Hin as [Hin|[Hin|[]]]; inversion Hin; subst; tauto.
  Qed.
  Lemma sched_ok : sched_valid g7 U0 sch.
  Proof.
    unfold sched_valid. apply Forall_forall. intros [t c] Hin. cbn [snd]. apply valid_call.
    unfold sch in Hin. apply in_app_or in Hin. destruct Hin as [Hin|Hin]; [|apply in_app_or in Hin; destruct Hin as [Hin|Hin]];
      apply in_alt2 in Hin; destruct Hin as [-> | ->]; cbn [In]; tauto.
  Qed.

  Lemma sched_nc : Forall (fun tc => no_change (snd tc)) sch.
  Proof.
    apply Forall_forall. intros [t c] Hin. cbn [snd].
    unfold sch in Hin. apply in_app_or in Hin. destruct Hin as [Hin|Hin]; [|apply in_app_or in Hin; destruct Hin as [Hin|Hin]];
      apply in_alt2 in Hin; destruct Hin as [-> | ->]; exact I.
  Qed.

  Example conc_upper_nonvacuous :
    uquiescent sF /\ m2_held sF = [(768, 0%nat); (0, 0%nat)] /\ llfree_validate g7 (m2_up sF) = Ok tt.
  Proof.
    split; [|split; vm_compute; reflexivity].
    intros x Hx. assert (E : m2_pool sF = [UIdle (Some (Ok (0, 0))); UIdle (Some (Ok (768, 0)))]) by (vm_compute; reflexivity).
    rewrite E in Hx. destruct Hx as [<-|[<-|[]]]; eexists; reflexivity.
  Qed.

  (* the theorems applied to this run (keep the kernel from evaluating the run lazily when it compares sF with its definition) *)
  Local Strategy 1000 [urun].
  Example conc_upper_instance :
    (forall x, In x (upanicked sF) -> x = SExceedingRetries) /\ uheld_ok sF = true /\
    UpperInv g7 pol7 (ustate_new (m2_up sF)) /\ llfree_validate g7 (m2_up sF) = Ok tt.
  Proof.
    destruct (PolicyFacts.pol_simple_facts 256) as (PR & _ & PT & _).
    destruct (conc_upper_safe g7 pol7 U0 [] 2 sch wf7 PR PT inv0 held0 sched_ok sched_nc) as (A & B & C).
    split; [exact A|]. split; [exact B|]. split; [exact (C (proj1 conc_upper_nonvacuous))|].
    exact (conc_quiescent_validate g7 pol7 U0 [] 2 sch wf7 PR PT inv0 held0 sched_ok sched_nc (proj1 conc_upper_nonvacuous)).
  Qed.

  (* with change_tree: thread 1 takes the entirely free tree 1 offline while thread 0 allocates; afterwards both
     allocate.  The ghost ends as [0; 256; 0; 0] (tree 1 entirely hidden), six blocks are held, none in tree 1. *)
  Definition offl (i : N) :=
    UChange {| m_id := Some i; m_class := None; m_free := 256 |} {| c_class := None; c_op := Some OpOffline |}.
  Definition schA := alt2 10 cA (offl 1).
  Definition schB := alt2 40 nop cB ++ alt2 30 nop nop.
  Definition xA := grun g7 pol7 schA (uboot U0 [] 2, zeros U0).
  Definition xF := grun g7 pol7 schB xA.

  Lemma valid_off : call_valid2 g7 U0 (offl 1).
  Proof. split; [|exact I]. cbn [call_valid offl]. split; [discriminate|]. intros c E. discriminate E. Qed.
  Lemma sched_ok2 : sched_valid g7 U0 (schA ++ schB).
  Proof.
    unfold sched_valid. apply Forall_forall. intros [t c] Hin. cbn [snd].
    unfold schA, schB in Hin. apply in_app_or in Hin. destruct Hin as [Hin|Hin]; [|apply in_app_or in Hin; destruct Hin as [Hin|Hin]];
      apply in_alt2 in Hin; destruct Hin as [-> | ->]; try apply valid_off; apply valid_call; cbn [In]; tauto.
  Qed.

  Example conc_offline_nonvacuous :
    snd xA = [0; 256; 0; 0] /\ snd xF = [0; 256; 0; 0] /\ uquiescent (fst xF) /\
    m2_held (fst xF) = [(772, 0%nat); (771, 0%nat); (770, 0%nat); (769, 0%nat); (768, 0%nat); (0, 0%nat)].
  Proof.
    split; [vm_compute; reflexivity|]. split; [vm_compute; reflexivity|]. split; [|vm_compute; reflexivity].
    intros x Hx. assert (E : m2_pool (fst xF) = [UIdle (Some (Ok (0, 0))); UIdle (Some (Ok (772, 0)))]) by (vm_compute; reflexivity).
    rewrite E in Hx. destruct Hx as [<-|[<-|[]]]; eexists; reflexivity.
  Qed.

  Local Strategy 1000 [grun].
  Example conc_offline_instance :
    nth 1 (snd xF) 0 = 256 /\ (forall F K, In (F, K) (m2_held (fst xF)) -> F / 256 <> 1) /\
    UpperInv g7 pol7 {| us := m2_up (fst xF); off := snd xF |}.
  Proof.
    destruct (PolicyFacts.pol_simple_facts 256) as (PR & _ & PT & _).
    assert (L : 1 < ntrees U0) by (vm_compute; reflexivity).
    assert (Eo : nth (nn 1) (snd xA) 0 = TF g7) by (rewrite (proj1 conc_offline_nonvacuous); reflexivity).
    destruct (conc_offline_hidden g7 pol7 U0 [] 2 schA schB 1 wf7 PR PT inv0 held0 sched_ok2 L Eo) as (Ey & H1 & H2 & _).
    fold xA in Ey, H1, H2. fold xF in Ey, H1, H2.
    split; [exact H1|]. split; [exact H2|].
    destruct (conc_upper_safe_off g7 pol7 U0 [] 2 (schA ++ schB) wf7 PR PT inv0 held0 sched_ok2) as (_ & _ & _ & C).
    rewrite <- Ey in C. apply C. exact (proj1 (proj2 (proj2 conc_offline_nonvacuous))).
  Qed.
End SafeExample.
