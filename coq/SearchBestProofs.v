(* C16, part 2: the order in which `Trees::search_best` calls `access` (model: SearchBest.v).
   - search_order = perfect matches in walk order, then the retained candidates, best first;
   - the walk visits every index at most once when len <= ntrees, and exactly the indices
     0..ntrees-1 when offset = 0 and len = ntrees. *)
From LLF Require Import Base Sorted SortedProofs SearchBest.
From Coq Require Import ZArith Arith PeanoNat Sorting.Sorted Sorting.Permutation ZifyN ZifyBool.
Ltac Zify.zify_post_hook ::= Z.div_mod_to_equations.

(* ---------- the key order is a total preorder ---------- *)
Lemma skey_le_total a b : skey_le a b || skey_le b a = true.
Proof.
  destruct a as [a1 a2], b as [b1 b2]; unfold skey_le; cbn [fst snd].
  destruct (N.ltb_spec a1 b1), (N.ltb_spec b1 a1), (N.eqb_spec a1 b1), (N.eqb_spec b1 a1),
    a2, b2; cbn; auto; lia.
Qed.

Lemma skey_le_trans a b c : skey_le a b = true -> skey_le b c = true -> skey_le a c = true.
Proof.
  destruct a as [a1 a2], b as [b1 b2], c as [c1 c2]; unfold skey_le; cbn [fst snd].
  destruct (N.ltb_spec a1 b1), (N.ltb_spec b1 c1), (N.ltb_spec a1 c1),
    (N.eqb_spec a1 b1), (N.eqb_spec b1 c1), (N.eqb_spec a1 c1), a2, b2, c2; cbn; auto; lia.
Qed.

(* ---------- generic list facts ---------- *)
Lemma NoDup_map_in_inj {A B} (f : A -> B) l :
  (forall x y, In x l -> In y l -> f x = f y -> x = y) -> NoDup l -> NoDup (map f l).
Proof.
  induction l as [|a l IH]; intros Hinj Hnd; cbn [map]; [constructor|].
  inversion Hnd; subst. constructor.
  - intros Hin. apply in_map_iff in Hin. destruct Hin as (y & Hy & Hiny).
    assert (y = a) by (apply Hinj; cbn [In]; auto). subst; auto.
  - apply IH; auto. intros; apply Hinj; cbn [In]; auto.
Qed.

Lemma NoDup_filter_app {A} (p q : A -> bool) l :
  (forall x, p x = true -> q x = true -> False) -> NoDup l -> NoDup (filter p l ++ filter q l).
Proof.
  intros Hpq. induction 1 as [|a l Hnin Hnd IH]; cbn [filter app]; [constructor|].
  assert (Hn : ~ In a (filter p l ++ filter q l)).
  { intros Hin. apply in_app_or in Hin. destruct Hin as [Hin|Hin]; apply filter_In in Hin; tauto. }
  destruct (p a) eqn:Ep, (q a) eqn:Eq; try (exfalso; eapply Hpq; eassumption); cbn [app]; auto.
  - constructor; auto.
  - eapply Permutation_NoDup; [apply Permutation_middle|]. constructor; auto.
Qed.

Lemma NoDup_app_l {A} (l l' : list A) : NoDup (l ++ l') -> NoDup l.
Proof.
  induction l as [|a l IH]; cbn [app]; intros H; [constructor|].
  inversion H; subst. constructor; auto. intros Hin; apply H2, in_or_app; auto.
Qed.

(* ---------- the index walk ---------- *)
Lemma walk_off_spec i :
  (N.even i = true /\ 2 * walk_off i = Z.of_N i)%Z \/
  (N.even i = false /\ 2 * walk_off i = - Z.of_N i - 1)%Z.
Proof.
  unfold walk_off. destruct (N.even i) eqn:E; [left|right]; split; auto.
  - apply N.even_spec in E. destruct E as [k ->]. lia.
  - assert (Ho : N.odd i = true) by (unfold N.odd; rewrite E; reflexivity).
    apply N.odd_spec in Ho. destruct Ho as [k ->]. lia.
Qed.

(* within the machine range the index is the mathematical (start + ntrees + off) mod ntrees *)
Lemma walk_index_Z ntrees start i :
  0 < ntrees -> (0 <= Z.of_N (start + ntrees) + walk_off i < W64z)%Z ->
  Z.of_N (walk_index ntrees start i) = ((Z.of_N (start + ntrees) + walk_off i) mod Z.of_N ntrees)%Z.
Proof.
  intros Hn Hr. unfold walk_index.
  rewrite (Z.mod_small _ W64z) by exact Hr.
  rewrite Z2N.id; auto. apply Z.mod_pos_bound. lia.
Qed.

(* the two cases, on N: even steps go up from start, odd steps go down *)
Lemma walk_index_even ntrees start k :
  0 < ntrees -> start + ntrees + k < 2 ^ 64 ->
  walk_index ntrees start (2 * k) = (start + k) mod ntrees.
Proof.
  intros Hn Hhi. change (2 ^ 64) with 18446744073709551616 in Hhi.
  apply N2Z.inj.
  destruct (walk_off_spec (2 * k)) as [[_ H]|[E _]].
  - rewrite walk_index_Z; auto; [|unfold W64z; lia].
    rewrite N2Z.inj_mod. replace (Z.of_N (start + ntrees) + walk_off (2 * k))%Z
      with (Z.of_N (start + k) + 1 * Z.of_N ntrees)%Z by lia.
    apply Z.mod_add. lia.
  - rewrite N.even_mul in E. cbn in E. discriminate.
Qed.

Lemma walk_index_odd ntrees start k :
  0 < ntrees -> k + 1 <= start + ntrees -> start + ntrees < 2 ^ 64 ->
  walk_index ntrees start (2 * k + 1) = (start + ntrees - (k + 1)) mod ntrees.
Proof.
  intros Hn Hlo Hhi. change (2 ^ 64) with 18446744073709551616 in Hhi.
  apply N2Z.inj.
  destruct (walk_off_spec (2 * k + 1)) as [[E _]|[_ H]].
  - rewrite N.add_comm, N.even_add_mul_2 in E. cbn in E. discriminate.
  - rewrite walk_index_Z; auto; [|unfold W64z; lia].
    rewrite N2Z.inj_mod. f_equal. lia.
Qed.

Lemma walk_index_lt ntrees start i : 0 < ntrees -> walk_index ntrees start i < ntrees.
Proof.
  intros Hn. unfold walk_index.
  pose proof (Z.mod_pos_bound ((Z.of_N (start + ntrees) + walk_off i) mod W64z) (Z.of_N ntrees)).
  lia.
Qed.

Lemma mod_eq_small (a b n : Z) :
  (0 < n -> a mod n = b mod n -> - n < a - b < n -> a = b)%Z.
Proof.
  intros Hn He Hr.
  assert (H1 : ((a - b) mod n = 0)%Z) by (rewrite Zminus_mod, He, Z.sub_diag; apply Z.mod_0_l; lia).
  assert (H2 : ((b - a) mod n = 0)%Z) by (rewrite Zminus_mod, He, Z.sub_diag; apply Z.mod_0_l; lia).
  destruct (Z_le_gt_dec 0 (a - b)).
  - rewrite Z.mod_small in H1; lia.
  - rewrite Z.mod_small in H2; lia.
Qed.

(* the first ntrees steps hit pairwise different trees *)
Lemma walk_index_inj ntrees start i j :
  0 < ntrees -> start + 2 * ntrees < 2 ^ 64 -> i < ntrees -> j < ntrees ->
  walk_index ntrees start i = walk_index ntrees start j -> i = j.
Proof.
  intros Hn Hb Hi Hj He. change (2 ^ 64) with 18446744073709551616 in Hb.
  apply (f_equal Z.of_N) in He.
  destruct (walk_off_spec i) as [[_ A]|[_ A]], (walk_off_spec j) as [[_ B]|[_ B]];
    (rewrite !walk_index_Z in He; auto; try (unfold W64z; lia);
     apply mod_eq_small in He; lia).
Qed.

Lemma in_nrange lo hi x : In x (nrange lo hi) <-> lo <= x < hi.
Proof.
  unfold nrange, nn. rewrite in_map_iff. split.
  - intros (y & <- & Hy). apply in_seq in Hy. lia.
  - intros H. exists (N.to_nat x). split; [apply N2Nat.id|]. apply in_seq. lia.
Qed.

Lemma nrange_NoDup lo hi : NoDup (nrange lo hi).
Proof.
  unfold nrange. apply NoDup_map_in_inj; [|apply seq_NoDup].
  intros x y _ _. apply Nat2N.inj.
Qed.

Lemma nrange_length lo hi : length (nrange lo hi) = (nn hi - nn lo)%nat.
Proof. unfold nrange. rewrite map_length, seq_length. reflexivity. Qed.

(* every index looked at is a tree; no tree is looked at twice when len <= ntrees *)
Theorem walk_in_range ntrees start offset len :
  0 < ntrees -> Forall (fun idx => idx < ntrees) (walk ntrees start offset len).
Proof.
  intros Hn. unfold walk. apply Forall_forall. intros x Hx.
  apply in_map_iff in Hx. destruct Hx as (i & <- & _). apply walk_index_lt; auto.
Qed.

Theorem walk_NoDup ntrees start offset len :
  0 < ntrees -> len <= ntrees -> start + 2 * ntrees < 2 ^ 64 ->
  NoDup (walk ntrees start offset len).
Proof.
  intros Hn Hlen Hb. unfold walk. apply NoDup_map_in_inj; [|apply nrange_NoDup].
  intros x y Hx Hy. apply in_nrange in Hx, Hy. apply walk_index_inj; auto; lia.
Qed.

(* a full walk (offset 0, len = ntrees) looks at every tree exactly once *)
Theorem walk_all ntrees start :
  0 < ntrees -> start + 2 * ntrees < 2 ^ 64 ->
  Permutation (walk ntrees start 0 ntrees) (nrange 0 ntrees).
Proof.
  intros Hn Hb. apply NoDup_Permutation_bis.
  - apply walk_NoDup; auto. lia.
  - unfold walk. rewrite map_length. reflexivity.
  - intros x Hx. apply in_nrange. split; [lia|].
    pose proof (walk_in_range ntrees start 0 ntrees Hn) as Hf.
    rewrite Forall_forall in Hf. auto.
Qed.

(* ---------- the access order ---------- *)
Section SearchOrder.
  Variable cap : nat.
  Variable tree_frames : N.
  Variable rate : N -> N -> policy.
  Variable trees : list tentry.

  Notation step := (search_step cap tree_frames rate trees).
  Notation direct := (walk_direct tree_frames rate trees).
  Notation cands := (walk_cands tree_frames rate trees).

  Lemma search_fold w : forall d b,
    fold_left step w (d, b) = (d ++ direct w, fold_left (sb_add skey_le cap) (cands w) b).
  Proof.
    induction w as [|idx w IH]; intros d b; cbn [fold_left walk_direct walk_cands filter flat_map].
    - rewrite app_nil_r; reflexivity.
    - unfold search_step at 2. destruct (visit_at tree_frames rate trees idx); cbn [fst snd app fold_left].
      + apply IH.
      + rewrite IH, <- app_assoc. reflexivity.
      + apply IH.
  Qed.

  (* accesses = the perfect matches in walk order, then the retained candidates, best first *)
  Theorem search_order_eq start offset len :
    let w := walk (N.of_nat (length trees)) start offset len in
    search_order cap tree_frames rate trees start offset len =
      direct w ++ map snd (sb_iter_rev (sb_add_all skey_le cap (cands w))).
  Proof. cbv zeta. unfold search_order. rewrite search_fold. reflexivity. Qed.

  (* ... where the retained candidates are the best min(cap, #candidates), tried in descending
     (policy, entirely-free) order *)
  Theorem search_order_spec start offset len :
    let w := walk (N.of_nat (length trees)) start offset len in
    exists tried,
      search_order cap tree_frames rate trees start offset len = direct w ++ map snd tried /\
      desc_by skey_le tried /\
      length tried = Nat.min cap (length (cands w)) /\
      exists dropped, Permutation (cands w) (tried ++ dropped) /\
                      forall d k, In d dropped -> In k tried -> skey_le (fst d) (fst k) = true.
  Proof.
    cbv zeta. set (w := walk _ _ _ _).
    exists (sb_iter_rev (sb_add_all skey_le cap (cands w))).
    destruct (sb_iter_rev_best_first skey_le skey_le_total skey_le_trans cap (cands w)) as (Hd & Hp).
    destruct (sb_add_all_topN skey_le skey_le_total skey_le_trans cap (cands w)) as (Hl & _ & dropped & Hperm & Hdrop).
    split; [apply search_order_eq|]. split; [exact Hd|]. split.
    - rewrite (Permutation_length Hp). exact Hl.
    - exists dropped. split.
      + eapply perm_trans; [exact Hperm|]. apply Permutation_app_tail, Permutation_sym, Hp.
      + intros d k Hin Hk. apply Hdrop; auto. apply (Permutation_in _ Hp); auto.
  Qed.

  Lemma map_snd_cands w :
    map snd (cands w) =
    filter (fun idx => match visit_at tree_frames rate trees idx with VCand _ => true | _ => false end) w.
  Proof.
    induction w as [|idx w IH]; cbn [walk_cands flat_map filter map]; auto.
    fold (cands w). destruct (visit_at tree_frames rate trees idx); cbn [app map snd]; rewrite IH; auto.
  Qed.

  (* no tree is accessed twice in one search when len <= ntrees *)
  Theorem search_order_NoDup start offset len :
    let ntrees := N.of_nat (length trees) in
    0 < ntrees -> len <= ntrees -> start + 2 * ntrees < 2 ^ 64 ->
    NoDup (search_order cap tree_frames rate trees start offset len).
  Proof.
    cbv zeta. intros Hn Hlen Hb. rewrite search_order_eq. set (w := walk _ _ _ _).
    assert (Hw : NoDup w) by (apply walk_NoDup; auto).
    destruct (sb_add_all_topN skey_le skey_le_total skey_le_trans cap (cands w)) as (_ & _ & dropped & Hperm & _).
    set (kept := sb_add_all skey_le cap (cands w)) in *.
    assert (Hall : NoDup (direct w ++ map snd (cands w))).
    { rewrite map_snd_cands. apply NoDup_filter_app; auto.
      intros x. destruct (visit_at tree_frames rate trees x); discriminate. }
    apply (Permutation_map snd) in Hperm. rewrite map_app in Hperm.
    eapply Permutation_NoDup in Hall; [|apply Permutation_app_head, Hperm].
    rewrite app_assoc in Hall. apply NoDup_app_l in Hall.
    eapply Permutation_NoDup; [|exact Hall].
    apply Permutation_app_head, Permutation_map. unfold sb_iter_rev. apply Permutation_rev.
  Qed.

  (* only trees that the walk looked at are accessed *)
  Theorem search_order_incl start offset len :
    incl (search_order cap tree_frames rate trees start offset len)
         (walk (N.of_nat (length trees)) start offset len).
  Proof.
    rewrite search_order_eq. set (w := walk _ _ _ _). intros x Hx.
    apply in_app_or in Hx. destruct Hx as [Hx|Hx].
    - apply filter_In in Hx. tauto.
    - apply in_map_iff in Hx. destruct Hx as (e & <- & He).
      unfold sb_iter_rev in He. apply in_rev in He.
      apply (sb_add_all_incl skey_le skey_le_total skey_le_trans) in He.
      assert (Hs : In (snd e) (map snd (cands w))) by (apply in_map; auto).
      rewrite map_snd_cands in Hs. apply filter_In in Hs. tauto.
  Qed.
End SearchOrder.

(* ---------- non-vacuity: a concrete search ---------- *)
(* 6 trees of 512 frames; rate: class 0 => perfect match if free >= 8, class 1 => Match(free/64),
   class 2 => Demote, otherwise Invalid; capacity 2.
   walk from start 4: 4,3,5,2,0(=6 mod 6),1; tree 3 is reserved, tree 4 a perfect match,
   candidates: 5 -> Demote/entirely free, 2 -> Match(3), 0 -> Match(7), 1 -> Invalid.
   Kept (cap 2): tree 5 and tree 0; tried best first after the perfect match. *)
Definition ex_rate (class free : N) : policy :=
  if class =? 0 then (if 8 <=? free then PMatch 255 else PInvalid)
  else if class =? 1 then PMatch (free / 64)
  else if class =? 2 then PDemote else PInvalid.
Definition ex_trees : list tentry :=
  [ {| te_free := 450; te_reserved := false; te_class := 1 |};
    {| te_free := 100; te_reserved := false; te_class := 3 |};
    {| te_free := 200; te_reserved := false; te_class := 1 |};
    {| te_free := 512; te_reserved := true;  te_class := 0 |};
    {| te_free := 300; te_reserved := false; te_class := 0 |};
    {| te_free := 512; te_reserved := false; te_class := 2 |} ].
Example ex_walk : walk 6 4 0 6 = [4; 3; 5; 2; 0; 1].
Proof. vm_compute. reflexivity. Qed.
Example ex_walk_near : walk 6 4 1 4 = [3; 5; 2].
Proof. vm_compute. reflexivity. Qed.
Example ex_search : search_order 2 512 ex_rate ex_trees 4 0 6 = [4; 5; 0].
Proof. vm_compute. reflexivity. Qed.
Example ex_search_cap3 : search_order 3 512 ex_rate ex_trees 4 0 6 = [4; 5; 0; 2].
Proof. vm_compute. reflexivity. Qed.
(* len > ntrees (the `near` search of a 2-tree allocator has len = 4): trees are revisited *)
Example ex_walk_revisit : walk 2 0 1 4 = [1; 1; 0].
Proof. vm_compute. reflexivity. Qed.
