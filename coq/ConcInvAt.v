(* Preservation of the invariant: get_at at small orders (A1x, A3x) and Bitfield::toggle in its three
   contexts (get_at, put, split).  One lemma per pc. *)
From Coq Require Import PeanoNat.
From LLF Require Import Base BitLemmas Row RowProofs Bitfield Lower Spec LowerMachine
  ConcBase ConcInvDef ConcInvGeom ConcInvStep ConcInvTac.

Section At.
  Variable g : geom.
  Hypothesis wf : wf_geom g.
  Notation HF := (HF g).
  Notation THUGE := (THUGE g).
  Notation ROWS := (ROWS g).

  Lemma local_of' s t x : Inv g s -> nth_error (ms_pool s) t = Some x -> local_b g (ms_frames s) x = true.
  Proof. intros I Ht. exact (Forall_nth_error _ _ _ _ (I_L g s I) Ht). Qed.
  Lemma finish_err' s t c e : finish s t c (Err e) = set_thr s t (TIdle (Some (Err e))).
  Proof. destruct c; reflexivity. Qed.

  (* facts about a small get_at / put call *)
  Lemma small_call s c : cwf g (ms_frames s) c = true -> small g c = true -> is_get c = false -> Inv g s ->
    c_huge g c < nbf g (ms_frames s) /\ c_huge g c < ntab g (ms_frames s) * THUGE /\ (c_order c < hord g)%nat /\
    t_row g XPut c < ROWS /\ t_off XPut c < 64 /\ 0 < c_n c.
  Proof.
    intros Hc Hs Hg I. destruct (small_call_decomp g wf _ c Hc Hs Hg) as (_ & H1 & H2 & _ & _ & H3).
    pose proof (nbf_le_ents g (ms_frames s)). unfold small in Hs. apply Nat.ltb_lt in Hs.
    pose proof (c_n_pos c). repeat split; try assumption; lia.
  Qed.

  Lemma toggle_entry_ghost x c : gpc g c (toggle_entry g x c) = gtoggle g x c 0.
  Proof. unfold toggle_entry. destruct (t_order g x c <=? 2)%nat; [reflexivity|]. destruct (t_order g x c <=? 6)%nat; reflexivity. Qed.
  Lemma toggle_entry_local fr x c : ctx_ok x c = true -> small g c = true -> lpc g fr c (toggle_entry g x c) = true.
  Proof.
    intros Hx Hs. unfold toggle_entry.
    destruct (t_order g x c <=? 2)%nat eqn:E2; [cbn [lpc]; lia|].
    destruct (t_order g x c <=? 6)%nat eqn:E6; cbn [lpc]; [lia|].
    assert (0 <? t_nrows g x c = true) by (apply N.ltb_lt, pow2_pos). lia.
  Qed.

  Lemma step_A1L s t c c0 : Inv g s -> nth_error (ms_pool s) t = Some (TRun c (A1L)) ->
    Inv g (fst (mstep g s t c0)).
  Proof.
    intros I Ht. pose proof (local_of' s t _ I Ht) as L. cbn [local_b lpc] in L.
    unfold mstep. rewrite Ht. cbv beta iota zeta.
    destruct (small_call s c) as (Hh & He & _); try lia; [apply is_getat_not_get; lia|exact I|].
    destruct (has_ent g s (c_huge g c) I He) as [v Ev]. rewrite Ev. cbn [fst].
    destruct (e_dec v (c_n c)) eqn:Ed.
    - apply (inv_plain g s t _ _ I Ht); [intros h; gsame_tac|reflexivity|].
      cbn [local_b lpc]. rewrite Ed. cbn [isSome]. lia.
    - rewrite finish_err'. apply (inv_plain g s t _ _ I Ht); [intros h; gsame_tac|reflexivity|reflexivity].
  Qed.

  Lemma step_A1C s t c v c0 : Inv g s -> nth_error (ms_pool s) t = Some (TRun c (A1C v)) ->
    Inv g (fst (mstep g s t c0)).
  Proof.
    intros I Ht. pose proof (local_of' s t _ I Ht) as L. cbn [local_b lpc] in L.
    unfold mstep. rewrite Ht. cbv beta iota zeta.
    destruct (small_call s c) as (Hh & He & _); try lia; [apply is_getat_not_get; lia|exact I|].
    set (h := c_huge g c) in *.
    destruct (has_ent g s h I He) as [cur Ev]. rewrite Ev.
    destruct (e_dec v (c_n c)) as [v'|] eqn:Ed; [|cbn [isSome] in L; lia].
    destruct (N.eqb_spec cur v) as [->|Hne]; cbn [fst].
    - destruct (e_dec_some _ _ _ Ed) as (Hm & Hle & ->). pose proof (c_n_pos c) as Hn.
      pose proof (entv_rd s h v Ev) as Ec.
      pose proof (counter_bound g wf s t _ h I Ht Hh ltac:(lia)) as Kb. pose proof (HF_lt_MARK g wf).
      change (Inv g (mk_ent s h (v - c_n c) t (TRun c (toggle_entry g XGetAt c)) (ms_held s))).
      apply (inv_counter g s t _ _ h v (v - c_n c) I Ht Ev Hh Hm); try lia;
        try (intros; unfold fr, tr, pend, trcount, needsC, hfr; cbn [ghost_of]; rewrite toggle_entry_ghost; gsimp; fold h;
             rewrite ?N.eqb_refl; unfold inb; try lia; destr_if; lia).
      + intros h' Hh'. constructor; intros; unfold fr, tr, pend, trcount, needsC, hfr; cbn [ghost_of]; rewrite toggle_entry_ghost;
          gsimp; fold h; unfold inb; try lia; destr_if; lia.
      + reflexivity.
      + cbn [local_b]. rewrite toggle_entry_local by (cbn [ctx_ok]; lia). lia.
    - destruct (e_dec cur (c_n c)) eqn:Ed2.
      + apply (inv_plain g s t _ _ I Ht); [intros h'; gsame_tac|reflexivity|].
        cbn [local_b lpc]. rewrite Ed2. cbn [isSome]. lia.
      + rewrite finish_err'. apply (inv_plain g s t _ _ I Ht); [intros h'; gsame_tac|reflexivity|reflexivity].
  Qed.

  Lemma step_A3L s t c c0 : Inv g s -> nth_error (ms_pool s) t = Some (TRun c (A3L)) ->
    Inv g (fst (mstep g s t c0)).
  Proof.
    intros I Ht. pose proof (local_of' s t _ I Ht) as L. cbn [local_b lpc] in L.
    unfold mstep. rewrite Ht. cbv beta iota zeta.
    destruct (small_call s c) as (Hh & He & _); try lia; [apply is_getat_not_get; lia|exact I|].
    set (h := c_huge g c) in *.
    destruct (has_ent g s h I He) as [v Ev]. rewrite Ev. cbn [fst].
    destruct (inc_possible g wf s t _ h (c_n c) v I Ht Hh) as (Ei & _); try exact Ev;
      try (gsimp; fold h; rewrite N.eqb_refl; reflexivity).
    rewrite Ei. apply (inv_plain g s t _ _ I Ht); [intros h'; gsame_tac|reflexivity|].
    cbn [local_b lpc]. rewrite Ei. cbn [isSome]. lia.
  Qed.

  Lemma step_A3C s t c v c0 : Inv g s -> nth_error (ms_pool s) t = Some (TRun c (A3C v)) ->
    Inv g (fst (mstep g s t c0)).
  Proof.
    intros I Ht. pose proof (local_of' s t _ I Ht) as L. cbn [local_b lpc] in L.
    unfold mstep. rewrite Ht. cbv beta iota zeta.
    destruct (small_call s c) as (Hh & He & _); try lia; [apply is_getat_not_get; lia|exact I|].
    set (h := c_huge g c) in *.
    destruct (has_ent g s h I He) as [cur Ev]. rewrite Ev.
    destruct (e_inc g v (c_n c)) as [v'|] eqn:Ed; [|cbn [isSome] in L; lia].
    destruct (inc_possible g wf s t _ h (c_n c) cur I Ht Hh) as (Ei & Hm & Hle); try exact Ev;
      try (gsimp; fold h; rewrite N.eqb_refl; reflexivity).
    destruct (N.eqb_spec cur v) as [->|Hne]; cbn [fst].
    - rewrite Ei in Ed. inversion Ed; subst v'. pose proof (HF_lt_MARK g wf).
      rewrite finish_err'. change (Inv g (mk_ent s h (v + c_n c) t (TIdle (Some (Err EMemory))) (ms_held s))).
      apply (inv_counter g s t _ _ h v (v + c_n c) I Ht Ev Hh Hm); try lia;
        try (intros; gsimp; fold h; rewrite ?N.eqb_refl; unfold inb; try lia; destr_if; lia).
      + intros h' Hh'. constructor; intros; gsimp; fold h; unfold inb; try lia; destr_if; lia.
      + reflexivity.
      + reflexivity.
    - rewrite Ei. apply (inv_plain g s t _ _ I Ht); [intros h'; gsame_tac|reflexivity|].
      cbn [local_b lpc]. rewrite Ei. cbn [isSome]. lia.
  Qed.

  (* ----- toggle: continuations ----- *)
  Definition toggle_fail_thr (x : tctx) (c : call) : thr :=
    match x with XGetAt => TRun c A3L | XPut => TIdle (Some (Err EMemory)) | XSplit _ => TRun c (PP3 0) end.
  Lemma toggle_fail_eq s t c x : toggle_fail s t c x = set_thr s t (toggle_fail_thr x c).
  Proof. destruct x; cbn [toggle_fail toggle_fail_thr]; [reflexivity|apply finish_err'|reflexivity]. Qed.

  Lemma wf_hord6 : (6 <= hord g)%nat. Proof. destruct wf; assumption. Qed.

  (* a failed toggle (no row written, nothing in transit) in the contexts get_at and split *)
  Lemma toggle_fail_plain s t c x x0 : Inv g s -> nth_error (ms_pool s) t = Some x0 ->
    ghost_of g x0 = gtoggle g x c 0 -> not_xput x = true ->
    cwf g (ms_frames s) c = true -> ctx_ok x c = true -> small g c = true ->
    Inv g (toggle_fail s t c x).
  Proof.
    intros I Ht E Hx Hc Hctx Hs. rewrite toggle_fail_eq.
    apply (inv_plain g s t x0 _ I Ht).
    - intros h. destruct x; [|discriminate|]; cbn [toggle_fail_thr]; constructor; intros; unfold fr, tr, pend, trcount, needsC, hfr; rewrite E; gsimp;
        unfold inb; try lia; destr_if; lia.
    - destruct x; [reflexivity|discriminate|reflexivity].
    - destruct x; [|discriminate|]; cbn [toggle_fail_thr local_b lpc ctx_ok] in *; lia.
  Qed.

  (* the ghost of a put that has not cleared anything yet, order <= 6 *)
  Lemma fr_put6 s c x0 h' r' i : ghost_of g x0 = gput (c_huge g c) (c_frame c) (c_n c) 0 ->
    cwf g (ms_frames s) c = true -> small g c = true -> is_put c = true -> (c_order c <= 6)%nat -> r' < ROWS -> i < 64 ->
    fr g h' r' i x0 = b2n ((h' =? c_huge g c) && ((r' =? t_row g XPut c) && inb (t_off XPut c) (c_n c) i)).
  Proof.
    intros E Hc Hs Hp H6 Hr Hi. unfold fr. rewrite E. cbn [own_lo own_n gput].
    replace (c_frame c + 64 * 0) with (c_frame c) by lia. replace (c_n c - 64 * 0) with (c_n c) by lia.
    rewrite (own_block6 g wf (ms_frames s) c h' r' i Hc Hs (is_put_not_get c Hp) H6 Hr Hi). reflexivity.
  Qed.

  (* the row of a put's block (order <= 6) has all bits of the block set *)
  Lemma put_block_set s t c x0 cur : Inv g s -> nth_error (ms_pool s) t = Some x0 ->
    ghost_of g x0 = gput (c_huge g c) (c_frame c) (c_n c) 0 ->
    cwf g (ms_frames s) c = true -> small g c = true -> is_put c = true -> (c_order c <= 6)%nat ->
    rd_row s (c_huge g c) (t_row g XPut c) = Some cur ->
    t_off XPut c + c_n c <= 64 /\
    forall i, inb (t_off XPut c) (c_n c) i = true -> N.testbit cur i = true.
  Proof.
    intros I Ht E Hc Hs Hp H6 Hrd. pose proof (is_put_not_get c Hp) as Hg.
    destruct (small_call s c Hc Hs Hg I) as (Hh & _ & Hk & Hr & Ho & Hn).
    destruct (small_call_decomp g wf _ c Hc Hs Hg) as (_ & _ & _ & Hal & _).
    pose proof (small_fit6 g (c_frame c) (c_order c) Hal Hk H6) as Hfit. fold (t_off XPut c) in Hfit. fold (c_n c) in Hfit.
    split; [exact Hfit|].
    apply (owned_block g s t x0 _ _ cur _ _ I Ht Hrd Hh Hr Hfit).
    - unfold needsC. rewrite E. cbn. rewrite N.eqb_refl. reflexivity.
    - intros i Hi. assert (i < 64) by (unfold inb in Hi; lia).
      rewrite (fr_put6 s c x0 _ _ i E Hc Hs Hp H6 Hr H), !N.eqb_refl, Hi. reflexivity.
  Qed.

  Lemma toggle_f_put_some s t c x0 cur : Inv g s -> nth_error (ms_pool s) t = Some x0 ->
    ghost_of g x0 = gput (c_huge g c) (c_frame c) (c_n c) 0 ->
    cwf g (ms_frames s) c = true -> small g c = true -> is_put c = true -> (c_order c <= 6)%nat ->
    rd_row s (c_huge g c) (t_row g XPut c) = Some cur ->
    toggle_f g XPut c cur = Some (N.land cur (not64 (t_mask g XPut c))).
  Proof.
    intros I Ht E Hc Hs Hp H6 Hrd. destruct (put_block_set s t c x0 cur I Ht E Hc Hs Hp H6 Hrd) as [_ Hset].
    unfold toggle_f. cbn [t_expected].
    assert (Em : N.land cur (t_mask g XPut c) = t_mask g XPut c).
    { apply land_mask_full. intros i Hi. apply Hset. unfold t_mask in Hi. rewrite testbit_mask64 in Hi. exact Hi. }
    rewrite Em, N.eqb_refl. reflexivity.
  Qed.

  Lemma step_TL s t c x c0 : Inv g s -> nth_error (ms_pool s) t = Some (TRun c (TL x)) ->
    Inv g (fst (mstep g s t c0)).
  Proof.
    intros I Ht. pose proof (local_of' s t _ I Ht) as L. cbn [local_b lpc] in L.
    unfold mstep. rewrite Ht. cbv beta iota zeta.
    assert (Hg : is_get c = false) by (destruct x; cbn [ctx_ok] in L; [apply is_getat_not_get|apply is_put_not_get|apply is_put_not_get]; lia).
    destruct (small_call s c) as (Hh & He & Hk & Hr & Ho & Hn); try lia; [exact I|].
    assert (Hrow : t_row g x c < ROWS).
    { destruct x; try exact Hr. exfalso. cbn [t_order] in L. pose proof wf_hord6. lia. }
    destruct (has_row g wf s (c_huge g c) (t_row g x c) I Hh Hrow) as (e & Ev & Hlt). rewrite Ev. cbn [fst].
    destruct (toggle_f g x c e) eqn:Ef.
    - apply (inv_plain g s t _ _ I Ht); [intros h; gsame_tac|reflexivity|].
      cbn [local_b lpc]. rewrite Ef. cbn [isSome]. lia.
    - destruct x.
      + cbn [ctx_ok] in L. apply (toggle_fail_plain s t c XGetAt _ I Ht); try reflexivity; cbn [ctx_ok]; lia.
      + exfalso. cbn [t_order ctx_ok] in L.
        rewrite (toggle_f_put_some s t c _ e I Ht) in Ef; try reflexivity; try lia; [discriminate|exact Ev].
      + exfalso. cbn [t_order] in L. pose proof wf_hord6. lia.
  Qed.
End At.
