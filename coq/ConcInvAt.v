(* Preservation of the invariant: get_at at small orders (A1x, A3x) and Bitfield::toggle in its three
   contexts (get_at, put, split).  One lemma per pc. *)
From Coq Require Import PeanoNat.
From LLF Require Import Base BitLemmas Row RowProofs Bitfield Lower Spec LowerMachine
  ConcBase ConcInvDef ConcInvGeom ConcInvStep ConcInvTac.

Section At.
  Variable g : geom.
  Hypothesis wf : wf_geom g.
  Notation HF := (HF g).
  Notation THUGE := (THUGE g).
  Notation ROWS := (ROWS g).

  Lemma local_of' s t x : Inv g s -> nth_error (ms_pool s) t = Some x -> local_b g (ms_frames s) x = true.
  Proof. intros I Ht. exact (Forall_nth_error _ _ _ _ (I_L g s I) Ht). Qed.
  Lemma finish_err' s t c e : finish s t c (Err e) = set_thr s t (TIdle (Some (Err e))).
  Proof. destruct c; reflexivity. Qed.

  (* facts about a small get_at / put call *)
  Lemma small_call s c : cwf g (ms_frames s) c = true -> small g c = true -> is_get c = false -> Inv g s ->
    c_huge g c < nbf g (ms_frames s) /\ c_huge g c < ntab g (ms_frames s) * THUGE /\ (c_order c < hord g)%nat /\
    t_row g XPut c < ROWS /\ t_off XPut c < 64 /\ 0 < c_n c.
  Proof.
    intros Hc Hs Hg I. destruct (small_call_decomp g wf _ c Hc Hs Hg) as (_ & H1 & H2 & _ & _ & H3).
    pose proof (nbf_le_ents g (ms_frames s)). unfold small in Hs. apply Nat.ltb_lt in Hs.
    pose proof (c_n_pos c). repeat split; try assumption; lia.
  Qed.

  Lemma toggle_entry_ghost x c : gpc g c (toggle_entry g x c) = gtoggle g x c 0.
  Proof. unfold toggle_entry. destruct (t_order g x c <=? 2)%nat; [reflexivity|]. destruct (t_order g x c <=? 6)%nat; reflexivity. Qed.
  Lemma toggle_entry_local fr x c : ctx_ok x c = true -> small g c = true -> lpc g fr c (toggle_entry g x c) = true.
  Proof.
    intros Hx Hs. unfold toggle_entry.
    destruct (t_order g x c <=? 2)%nat eqn:E2; [cbn [lpc]; lia|].
    destruct (t_order g x c <=? 6)%nat eqn:E6; cbn [lpc]; [lia|].
    assert (0 <? t_nrows g x c = true) by (apply N.ltb_lt, pow2_pos). lia.
  Qed.

  Lemma step_A1L s t c c0 : Inv g s -> nth_error (ms_pool s) t = Some (TRun c (A1L)) ->
    Inv g (fst (mstep g s t c0)).
  Proof.
    intros I Ht. pose proof (local_of' s t _ I Ht) as L. cbn [local_b lpc] in L.
    unfold mstep. rewrite Ht. cbv beta iota zeta.
    destruct (small_call s c) as (Hh & He & _); try lia; [apply is_getat_not_get; lia|exact I|].
    destruct (has_ent g s (c_huge g c) I He) as [v Ev]. rewrite Ev. cbn [fst].
    destruct (e_dec v (c_n c)) eqn:Ed.
    - apply (inv_plain g s t _ _ I Ht); [intros h; gsame_tac|reflexivity|].
      cbn [local_b lpc]. rewrite Ed. cbn [isSome]. lia.
    - rewrite finish_err'. apply (inv_plain g s t _ _ I Ht); [intros h; gsame_tac|reflexivity|reflexivity].
  Qed.

  Lemma step_A1C s t c v c0 : Inv g s -> nth_error (ms_pool s) t = Some (TRun c (A1C v)) ->
    Inv g (fst (mstep g s t c0)).
  Proof.
    intros I Ht. pose proof (local_of' s t _ I Ht) as L. cbn [local_b lpc] in L.
    unfold mstep. rewrite Ht. cbv beta iota zeta.
    destruct (small_call s c) as (Hh & He & _); try lia; [apply is_getat_not_get; lia|exact I|].
    set (h := c_huge g c) in *.
    destruct (has_ent g s h I He) as [cur Ev]. rewrite Ev.
    destruct (e_dec v (c_n c)) as [v'|] eqn:Ed; [|cbn [isSome] in L; lia].
    destruct (N.eqb_spec cur v) as [->|Hne]; cbn [fst].
    - destruct (e_dec_some _ _ _ Ed) as (Hm & Hle & ->). pose proof (c_n_pos c) as Hn.
      pose proof (entv_rd s h v Ev) as Ec.
      pose proof (counter_bound g wf s t _ h I Ht Hh ltac:(lia)) as Kb. pose proof (HF_lt_MARK g wf).
      change (Inv g (mk_ent s h (v - c_n c) t (TRun c (toggle_entry g XGetAt c)) (ms_held s))).
      apply (inv_counter g s t _ _ h v (v - c_n c) I Ht Ev Hh Hm); try lia;
        try (intros; unfold fr, tr, pend, trcount, needsC, hfr; cbn [ghost_of]; rewrite toggle_entry_ghost; gsimp; fold h;
             rewrite ?N.eqb_refl; unfold inb; try lia; destr_if; lia).
      + intros h' Hh'. constructor; intros; unfold fr, tr, pend, trcount, needsC, hfr; cbn [ghost_of]; rewrite toggle_entry_ghost;
          gsimp; fold h; unfold inb; try lia; destr_if; lia.
      + reflexivity.
      + cbn [local_b]. rewrite toggle_entry_local by (cbn [ctx_ok]; lia). lia.
    - destruct (e_dec cur (c_n c)) eqn:Ed2.
      + apply (inv_plain g s t _ _ I Ht); [intros h'; gsame_tac|reflexivity|].
        cbn [local_b lpc]. rewrite Ed2. cbn [isSome]. lia.
      + rewrite finish_err'. apply (inv_plain g s t _ _ I Ht); [intros h'; gsame_tac|reflexivity|reflexivity].
  Qed.

  Lemma step_A3L s t c c0 : Inv g s -> nth_error (ms_pool s) t = Some (TRun c (A3L)) ->
    Inv g (fst (mstep g s t c0)).
  Proof.
    intros I Ht. pose proof (local_of' s t _ I Ht) as L. cbn [local_b lpc] in L.
    unfold mstep. rewrite Ht. cbv beta iota zeta.
    destruct (small_call s c) as (Hh & He & _); try lia; [apply is_getat_not_get; lia|exact I|].
    set (h := c_huge g c) in *.
    destruct (has_ent g s h I He) as [v Ev]. rewrite Ev. cbn [fst].
    destruct (inc_possible g wf s t _ h (c_n c) v I Ht Hh) as (Ei & _); try exact Ev;
      try (gsimp; fold h; rewrite N.eqb_refl; reflexivity).
    rewrite Ei. apply (inv_plain g s t _ _ I Ht); [intros h'; gsame_tac|reflexivity|].
    cbn [local_b lpc]. rewrite Ei. cbn [isSome]. lia.
  Qed.

  Lemma step_A3C s t c v c0 : Inv g s -> nth_error (ms_pool s) t = Some (TRun c (A3C v)) ->
    Inv g (fst (mstep g s t c0)).
  Proof.
    intros I Ht. pose proof (local_of' s t _ I Ht) as L. cbn [local_b lpc] in L.
    unfold mstep. rewrite Ht. cbv beta iota zeta.
    destruct (small_call s c) as (Hh & He & _); try lia; [apply is_getat_not_get; lia|exact I|].
    set (h := c_huge g c) in *.
    destruct (has_ent g s h I He) as [cur Ev]. rewrite Ev.
    destruct (e_inc g v (c_n c)) as [v'|] eqn:Ed; [|cbn [isSome] in L; lia].
    destruct (inc_possible g wf s t _ h (c_n c) cur I Ht Hh) as (Ei & Hm & Hle); try exact Ev;
      try (gsimp; fold h; rewrite N.eqb_refl; reflexivity).
    destruct (N.eqb_spec cur v) as [->|Hne]; cbn [fst].
    - rewrite Ei in Ed. inversion Ed; subst v'. pose proof (HF_lt_MARK g wf).
      rewrite finish_err'. change (Inv g (mk_ent s h (v + c_n c) t (TIdle (Some (Err EMemory))) (ms_held s))).
      apply (inv_counter g s t _ _ h v (v + c_n c) I Ht Ev Hh Hm); try lia;
        try (intros; gsimp; fold h; rewrite ?N.eqb_refl; unfold inb; try lia; destr_if; lia).
      + intros h' Hh'. constructor; intros; gsimp; fold h; unfold inb; try lia; destr_if; lia.
      + reflexivity.
      + reflexivity.
    - rewrite Ei. apply (inv_plain g s t _ _ I Ht); [intros h'; gsame_tac|reflexivity|].
      cbn [local_b lpc]. rewrite Ei. cbn [isSome]. lia.
  Qed.

  Lemma is_getat_not_put c : is_getat c = true -> is_put c = false. Proof. destruct c; cbn; congruence. Qed.

  (* ----- toggle: continuations ----- *)
  Definition toggle_fail_thr (x : tctx) (c : call) : thr :=
    match x with XGetAt => TRun c A3L | XPut => TIdle (Some (Err EMemory)) | XSplit _ => TRun c (PP3 0) end.
  Lemma toggle_fail_eq s t c x : toggle_fail s t c x = set_thr s t (toggle_fail_thr x c).
  Proof. destruct x; cbn [toggle_fail toggle_fail_thr]; [reflexivity|apply finish_err'|reflexivity]. Qed.

  Lemma wf_hord6 : (6 <= hord g)%nat. Proof. destruct wf; assumption. Qed.

  (* a failed toggle (no row written, nothing in transit) in the contexts get_at and split *)
  Lemma toggle_fail_plain s t c x x0 : Inv g s -> nth_error (ms_pool s) t = Some x0 ->
    ghost_of g x0 = gtoggle g x c 0 -> not_xput x = true ->
    cwf g (ms_frames s) c = true -> ctx_ok x c = true -> small g c = true ->
    Inv g (toggle_fail s t c x).
  Proof.
    intros I Ht E Hx Hc Hctx Hs. rewrite toggle_fail_eq.
    apply (inv_plain g s t x0 _ I Ht).
    - intros h. destruct x; [|discriminate|]; cbn [toggle_fail_thr]; constructor; intros; unfold fr, tr, pend, trcount, needsC, hfr; rewrite E; gsimp;
        unfold inb; try lia; destr_if; lia.
    - destruct x; [reflexivity|discriminate|reflexivity].
    - destruct x; [|discriminate|]; cbn [toggle_fail_thr local_b lpc ctx_ok] in *; lia.
  Qed.

  (* the ghost of a put that has not cleared anything yet, order <= 6 *)
  Lemma fr_put6 s c x0 h' r' i : ghost_of g x0 = gput (c_huge g c) (c_frame c) (c_n c) 0 ->
    cwf g (ms_frames s) c = true -> small g c = true -> is_put c = true -> (c_order c <= 6)%nat -> r' < ROWS -> i < 64 ->
    fr g h' r' i x0 = b2n ((h' =? c_huge g c) && ((r' =? t_row g XPut c) && inb (t_off XPut c) (c_n c) i)).
  Proof.
    intros E Hc Hs Hp H6 Hr Hi. unfold fr. rewrite E. cbn [own_lo own_n gput].
    replace (c_frame c + 64 * 0) with (c_frame c) by lia. replace (c_n c - 64 * 0) with (c_n c) by lia.
    rewrite (own_block6 g wf (ms_frames s) c h' r' i Hc Hs (is_put_not_get c Hp) H6 Hr Hi). reflexivity.
  Qed.

  (* the row of a put's block (order <= 6) has all bits of the block set *)
  Lemma put_block_set s t c x0 cur : Inv g s -> nth_error (ms_pool s) t = Some x0 ->
    ghost_of g x0 = gput (c_huge g c) (c_frame c) (c_n c) 0 ->
    cwf g (ms_frames s) c = true -> small g c = true -> is_put c = true -> (c_order c <= 6)%nat ->
    rd_row s (c_huge g c) (t_row g XPut c) = Some cur ->
    t_off XPut c + c_n c <= 64 /\
    forall i, inb (t_off XPut c) (c_n c) i = true -> N.testbit cur i = true.
  Proof.
    intros I Ht E Hc Hs Hp H6 Hrd. pose proof (is_put_not_get c Hp) as Hg.
    destruct (small_call s c Hc Hs Hg I) as (Hh & _ & Hk & Hr & Ho & Hn).
    destruct (small_call_decomp g wf _ c Hc Hs Hg) as (_ & _ & _ & Hal & _).
    pose proof (small_fit6 g (c_frame c) (c_order c) Hal Hk H6) as Hfit. fold (t_off XPut c) in Hfit. fold (c_n c) in Hfit.
    split; [exact Hfit|].
    apply (owned_block g s t x0 _ _ cur _ _ I Ht Hrd Hh Hr Hfit).
    - unfold needsC. rewrite E. cbn. rewrite N.eqb_refl. reflexivity.
    - intros i Hi. assert (i < 64) by (unfold inb in Hi; lia).
      rewrite (fr_put6 s c x0 _ _ i E Hc Hs Hp H6 Hr H), !N.eqb_refl, Hi. reflexivity.
  Qed.

  Lemma toggle_f_put_some s t c x0 cur : Inv g s -> nth_error (ms_pool s) t = Some x0 ->
    ghost_of g x0 = gput (c_huge g c) (c_frame c) (c_n c) 0 ->
    cwf g (ms_frames s) c = true -> small g c = true -> is_put c = true -> (c_order c <= 6)%nat ->
    rd_row s (c_huge g c) (t_row g XPut c) = Some cur ->
    toggle_f g XPut c cur = Some (N.land cur (not64 (t_mask g XPut c))).
  Proof.
    intros I Ht E Hc Hs Hp H6 Hrd. destruct (put_block_set s t c x0 cur I Ht E Hc Hs Hp H6 Hrd) as [_ Hset].
    unfold toggle_f. cbn [t_expected].
    assert (Em : N.land cur (t_mask g XPut c) = t_mask g XPut c).
    { apply land_mask_full. intros i Hi. apply Hset. unfold t_mask in Hi. rewrite testbit_mask64 in Hi. exact Hi. }
    rewrite Em, N.eqb_refl. reflexivity.
  Qed.

  Lemma step_TL s t c x c0 : Inv g s -> nth_error (ms_pool s) t = Some (TRun c (TL x)) ->
    Inv g (fst (mstep g s t c0)).
  Proof.
    intros I Ht. pose proof (local_of' s t _ I Ht) as L. cbn [local_b lpc] in L.
    unfold mstep. rewrite Ht. cbv beta iota zeta.
    assert (Hg : is_get c = false) by (destruct x; cbn [ctx_ok] in L; [apply is_getat_not_get|apply is_put_not_get|apply is_put_not_get]; lia).
    destruct (small_call s c) as (Hh & He & Hk & Hr & Ho & Hn); try lia; [exact I|].
    assert (Hrow : t_row g x c < ROWS).
    { destruct x; try exact Hr. exfalso. cbn [t_order] in L. pose proof wf_hord6. lia. }
    destruct (has_row g wf s (c_huge g c) (t_row g x c) I Hh Hrow) as (e & Ev & Hlt). rewrite Ev. cbn [fst].
    destruct (toggle_f g x c e) eqn:Ef.
    - apply (inv_plain g s t _ _ I Ht); [intros h; gsame_tac|reflexivity|].
      cbn [local_b lpc]. rewrite Ef. cbn [isSome]. lia.
    - destruct x.
      + cbn [ctx_ok] in L. apply (toggle_fail_plain s t c XGetAt _ I Ht); try reflexivity; cbn [ctx_ok]; lia.
      + exfalso. cbn [t_order ctx_ok] in L.
        rewrite (toggle_f_put_some s t c _ e I Ht) in Ef; try reflexivity; try lia; [discriminate|exact Ev].
      + exfalso. cbn [t_order] in L. pose proof wf_hord6. lia.
  Qed.

  Lemma toggle_f_getat c e v' : toggle_f g XGetAt c e = Some v' ->
    N.land e (t_mask g XGetAt c) = 0 /\ v' = N.lor e (t_mask g XGetAt c).
  Proof. unfold toggle_f. cbn [t_expected]. destruct (N.eqb_spec (N.land e (t_mask g XGetAt c)) 0); [|discriminate].
    intros E; inversion E. auto. Qed.
  Lemma toggle_f_put c e v' : toggle_f g XPut c e = Some v' ->
    N.land e (t_mask g XPut c) = t_mask g XPut c /\ v' = N.land e (not64 (t_mask g XPut c)).
  Proof. unfold toggle_f. cbn [t_expected]. destruct (N.eqb_spec (N.land e (t_mask g XPut c)) (t_mask g XPut c)); [|discriminate].
    intros E; inversion E. auto. Qed.

  (* get_at: the bits of the block are set by one write and the block is handed out *)
  Lemma getat_alloc6 s t c x0 cur v' : Inv g s -> nth_error (ms_pool s) t = Some x0 ->
    ghost_of g x0 = gtr (c_huge g c) (c_n c) (t_row g XGetAt c) 0 ->
    cwf g (ms_frames s) c = true -> small g c = true -> is_getat c = true -> (c_order c <= 6)%nat ->
    rd_row s (c_huge g c) (t_row g XGetAt c) = Some cur -> cur < W64 ->
    (forall i, i < 64 -> N.testbit v' i = N.testbit cur i || inb (t_off XGetAt c) (c_n c) i) ->
    (forall i, inb (t_off XGetAt c) (c_n c) i = true -> N.testbit cur i = false) ->
    v' < W64 ->
    Inv g (finish (wr_row s (c_huge g c) (t_row g XGetAt c) v') t c (Ok (c_frame c))).
  Proof.
    intros I Ht E Hc Hs Hga H6 Hrd Hcur Hset Hfree Hv. pose proof (is_getat_not_get c Hga) as Hg.
    destruct (small_call s c Hc Hs Hg I) as (Hh & _ & Hk & Hr & Ho & Hn).
    destruct (small_call_decomp g wf _ c Hc Hs Hg) as (Ed & _ & _ & Hal & _).
    pose proof (small_fit6 g (c_frame c) (c_order c) Hal Hk H6) as Hfit. fold (t_off XPut c) in Hfit.
    rewrite finish_get_row by (destruct c; cbn in *; congruence).
    rewrite Ed at 2. unfold fidx.
    apply (inv_alloc_block g wf s t x0 _ _ cur v' _ (c_order c) _ I Ht Hrd Hv Hh Hr Hk H6 Hfit); try assumption.
    - unfold t_off. pose proof (pow2_nz (c_order c)).
      change 64 with (pow2 6). rewrite (pow2_split (c_order c) 6), (N.mul_comm (pow2 _)) by lia.
      apply mod_mod_aligned; [assumption|apply pow2_nz|exact Hal].
    - apply (pending_gtr0 g x0 _ _ _ E).
  Qed.

  (* put: the bits of the block are cleared by one write *)
  Lemma put_release6 s t c x0 cur v' : Inv g s -> nth_error (ms_pool s) t = Some x0 ->
    ghost_of g x0 = gput (c_huge g c) (c_frame c) (c_n c) 0 ->
    cwf g (ms_frames s) c = true -> small g c = true -> is_put c = true -> (c_order c <= 6)%nat ->
    rd_row s (c_huge g c) (t_row g XPut c) = Some cur -> cur < W64 ->
    (forall i, i < 64 -> N.testbit v' i = N.testbit cur i && negb (inb (t_off XPut c) (c_n c) i)) ->
    v' < W64 ->
    Inv g (goto (wr_row s (c_huge g c) (t_row g XPut c) v') t c PS2L).
  Proof.
    intros I Ht E Hc Hs Hp H6 Hrd Hcur Hclr Hv. pose proof (is_put_not_get c Hp) as Hg.
    destruct (small_call s c Hc Hs Hg I) as (Hh & _ & Hk & Hr & Ho & Hn).
    destruct (put_block_set s t c x0 cur I Ht E Hc Hs Hp H6 Hrd) as [Hfit _].
    rewrite goto_row.
    apply (inv_release g s t x0 _ _ _ cur v' (t_off XPut c) (c_n c) I Ht Hrd Hv Hh Hr Hfit); try assumption.
    - unfold needsC. rewrite E. cbn. rewrite N.eqb_refl. reflexivity.
    - intros r' i Hr' Hi. rewrite (fr_put6 s c x0 _ r' i E Hc Hs Hp H6 Hr' Hi), N.eqb_refl. gsimp. unfold inb. cbn [andb]. lia.
    - intros r'. unfold tr. rewrite E. gsimp. unfold inb. lia.
    - unfold trcount. rewrite E. gsimp. reflexivity.
    - unfold hfr. rewrite E. gsimp. reflexivity.
    - unfold pend. rewrite E. gsimp. rewrite N.eqb_refl. lia.
    - intros h' Hne. constructor; intros; unfold fr, tr, pend, trcount, needsC, hfr; rewrite E; gsimp; unfold inb; try (destr_if; lia).
      unfold fidx. replace (c_frame c + 64 * 0) with (c_frame c) by lia. replace (c_n c - 64 * 0) with (c_n c) by lia.
      pose proof (own_block6 g wf _ c h' r i Hc Hs Hg H6 H H0) as Eo. unfold inb, fidx in Eo. rewrite Eo.
      destruct (N.eqb_spec h' (c_huge g c)); [contradiction|]. cbn. lia.
    - reflexivity.
    - cbn [local_b lpc]. lia.
  Qed.

  Lemma step_TC s t c x e c0 : Inv g s -> nth_error (ms_pool s) t = Some (TRun c (TC x e)) ->
    Inv g (fst (mstep g s t c0)).
  Proof.
    intros I Ht. pose proof (local_of' s t _ I Ht) as L. cbn [local_b lpc] in L.
    unfold mstep. rewrite Ht. cbv beta iota zeta.
    assert (Hg : is_get c = false) by (destruct x; cbn [ctx_ok] in L; [apply is_getat_not_get|apply is_put_not_get|apply is_put_not_get]; lia).
    destruct (small_call s c) as (Hh & He & Hk & Hr & Ho & Hn); try lia; [exact I|].
    destruct x as [| |old]; [| |exfalso; cbn [t_order] in L; pose proof wf_hord6; lia]; cbn [ctx_ok t_order] in L.
    - (* get_at *)
      destruct (has_row g wf s (c_huge g c) (t_row g XGetAt c) I Hh Hr) as (cur & Ev & Hlt). rewrite Ev.
      destruct (toggle_f g XGetAt c e) as [v'|] eqn:Ef; [|cbn [isSome] in L; lia].
      destruct (N.eqb_spec cur e) as [->|Hne]; cbn [fst toggle_ok].
      + destruct (toggle_f_getat c e v' Ef) as [Hz ->].
        assert (Hfit : t_off XGetAt c + c_n c <= 64).
        { destruct (small_call_decomp g wf (ms_frames s) c) as (_ & _ & _ & Hal & _); try lia.
          apply (small_fit6 g (c_frame c) (c_order c) Hal Hk). lia. }
        apply (getat_alloc6 s t c _ e (N.lor e (t_mask g XGetAt c)) I Ht); try reflexivity; try lia; try assumption.
        * intros i _. rewrite N.lor_spec. unfold t_mask. rewrite testbit_mask64. reflexivity.
        * intros i Hi. apply (proj1 (land_mask_zero e (t_mask g XGetAt c)) Hz). unfold t_mask. rewrite testbit_mask64. exact Hi.
        * apply lor_lt; [exact Hlt|]. apply mask64_lt. exact Hfit.
      + destruct (toggle_f g XGetAt c cur) eqn:Ef2.
        * apply (inv_plain g s t _ _ I Ht); [intros h; gsame_tac|reflexivity|].
          cbn [local_b lpc ctx_ok t_order]. rewrite Ef2. cbn [isSome]. lia.
        * apply (toggle_fail_plain s t c XGetAt _ I Ht); try reflexivity; cbn [ctx_ok]; lia.
    - (* put *)
      destruct (has_row g wf s (c_huge g c) (t_row g XPut c) I Hh Hr) as (cur & Ev & Hlt). rewrite Ev.
      destruct (toggle_f g XPut c e) as [v'|] eqn:Ef; [|cbn [isSome] in L; lia].
      destruct (N.eqb_spec cur e) as [->|Hne]; cbn [fst toggle_ok].
      + destruct (toggle_f_put c e v' Ef) as [Hz ->].
        apply (put_release6 s t c _ e (N.land e (not64 (t_mask g XPut c))) I Ht); try reflexivity; try lia; try assumption.
        * intros i Hi. rewrite N.land_spec, not64_spec. unfold t_mask. rewrite testbit_mask64.
          destruct (N.ltb_spec i 64); [reflexivity|lia].
        * apply land_lt. exact Hlt.
      + rewrite (toggle_f_put_some s t c _ cur I Ht); try reflexivity; try lia; [|exact Ev].
        apply (inv_plain g s t _ _ I Ht); [intros h; gsame_tac|reflexivity|].
        cbn [local_b lpc ctx_ok t_order].
        rewrite (toggle_f_put_some s t c _ cur I Ht); try reflexivity; try lia; [|exact Ev]. cbn [isSome]. lia.
  Qed.

  Lemma step_TN s t c x c0 : Inv g s -> nth_error (ms_pool s) t = Some (TRun c (TN x)) ->
    Inv g (fst (mstep g s t c0)).
  Proof.
    intros I Ht. pose proof (local_of' s t _ I Ht) as L. cbn [local_b lpc] in L.
    unfold mstep. rewrite Ht. cbv beta iota zeta.
    assert (Hg : is_get c = false) by (destruct x; cbn [ctx_ok] in L; [apply is_getat_not_get|apply is_put_not_get|apply is_put_not_get]; lia).
    destruct (small_call s c) as (Hh & He & Hk & Hr & Ho & Hn); try lia; [exact I|].
    destruct x as [| |old]; cbn [ctx_ok t_order t_expected] in *.
    - (* get_at *)
      destruct (has_row g wf s (c_huge g c) (t_row g XGetAt c) I Hh Hr) as (cur & Ev & Hlt). rewrite Ev.
      assert (Hfit : t_off XGetAt c + c_n c <= 64).
      { destruct (small_call_decomp g wf (ms_frames s) c) as (_ & _ & _ & Hal & _); try lia.
        apply (small_fit6 g (c_frame c) (c_order c) Hal Hk). lia. }
      fold (c_n c).
      destruct (N.eqb_spec (N.land (N.shiftr cur (t_off XGetAt c)) (ones (c_n c))) 0) as [Hz|Hnz]; cbn [fst toggle_ok].
      + pose proof (proj1 (lane_zero cur _ _) Hz) as Hfree.
        apply (getat_alloc6 s t c _ cur _ I Ht); try reflexivity; try lia; try assumption.
        * intros i _. rewrite testbit_lxor_mask. specialize (Hfree i).
          destruct (inb (t_off XGetAt c) (c_n c) i); [rewrite Hfree by reflexivity; reflexivity|].
          rewrite xorb_false_r, orb_false_r. reflexivity.
        * apply lxor_lt; [exact Hlt|]. apply (mask64_lt (c_n c) (t_off XGetAt c) Hfit).
      + apply (toggle_fail_plain s t c XGetAt _ I Ht); try reflexivity; cbn [ctx_ok]; lia.
    - (* put *)
      destruct (has_row g wf s (c_huge g c) (t_row g XPut c) I Hh Hr) as (cur & Ev & Hlt). rewrite Ev.
      fold (c_n c).
      destruct (put_block_set s t c _ cur I Ht) as [Hfit Hset]; try reflexivity; try lia; [exact Ev|].
      rewrite (proj2 (lane_ones cur _ _) Hset), N.eqb_refl. cbn [fst toggle_ok].
      apply (put_release6 s t c _ cur _ I Ht); try reflexivity; try lia; try assumption.
      + intros i _. rewrite testbit_lxor_mask. specialize (Hset i).
        destruct (inb (t_off XPut c) (c_n c) i); [rewrite Hset by reflexivity; reflexivity|].
        rewrite xorb_false_r, andb_true_r. reflexivity.
      + apply lxor_lt; [exact Hlt|]. apply (mask64_lt (c_n c) (t_off XPut c) Hfit).
    - (* split, HUGE_ORDER = 6: one row *)
      assert (Hh6 : hord g = 6%nat) by (pose proof wf_hord6; lia).
      pose proof (ROWS_pow2 g wf) as ER. rewrite Hh6 in ER. change (pow2 (6 - 6)) with 1 in ER.
      cbn [t_row t_off]. rewrite Hh6. change (pow2 6) with 64.
      destruct (has_row g wf s (c_huge g c) 0 I Hh ltac:(lia)) as (cur & Ev & Hlt). rewrite Ev.
      assert (El : N.land (N.shiftr cur 0) (ones 64) = cur).
      { rewrite N.shiftr_0_r. unfold ones. rewrite N.land_ones. apply N.mod_small. exact Hlt. }
      rewrite El.
      destruct (N.eqb_spec cur 0) as [->|Hne]; cbn [fst toggle_ok].
      + change (N.lxor 0 (N.shiftl (ones 64) 0)) with MAX64. rewrite goto_row.
        apply (inv_fill_row g s t _ _ (c_huge g c) 0 I Ht Ev Hh ltac:(lia)); [|reflexivity|cbn [local_b lpc]; lia].
        constructor; intros; gsimp; rewrite ?ER; unfold inb; rewrite ?N.eqb_refl; try lia; destr_if; lia.
      + apply (toggle_fail_plain s t c (XSplit old) _ I Ht); try reflexivity; cbn [ctx_ok]; lia.
  Qed.

  (* ----- multi-row toggles ----- *)
  Lemma fr_put7 s c q x0 h' r' i : ghost_of g x0 = gput (c_huge g c) (c_frame c) (c_n c) q ->
    cwf g (ms_frames s) c = true -> small g c = true -> is_put c = true -> (7 <= c_order c)%nat ->
    q <= pow2 (c_order c - 6) -> r' < ROWS -> i < 64 ->
    fr g h' r' i x0 = b2n ((h' =? c_huge g c) && inb (t_row g XPut c + q) (pow2 (c_order c - 6) - q) r').
  Proof.
    intros E Hc Hs Hp H7 Hq Hr Hi. unfold fr. rewrite E. cbn [own_lo own_n gput].
    rewrite (own_rows7 g wf (ms_frames s) c q h' r' i Hc Hs (is_put_not_get c Hp) H7 Hq Hr Hi). reflexivity.
  Qed.

  Lemma step_TW s t c x q c0 : Inv g s -> nth_error (ms_pool s) t = Some (TRun c (TW x q)) ->
    Inv g (fst (mstep g s t c0)).
  Proof.
    intros I Ht. pose proof (local_of' s t _ I Ht) as L. cbn [local_b lpc] in L.
    unfold mstep. rewrite Ht. cbv beta iota zeta.
    assert (Hg : is_get c = false) by (destruct x; cbn [ctx_ok] in L; [apply is_getat_not_get|apply is_put_not_get|apply is_put_not_get]; lia).
    destruct (small_call s c) as (Hh & He & Hk & Hr & Ho & Hn); try lia; [exact I|].
    destruct x as [| |old]; unfold t_nrows in *; cbn [ctx_ok t_order t_expected] in *.
    - (* get_at *)
      destruct (toggle_rows_fit g wf (ms_frames s) c) as (E0 & En & Hfit); try lia.
      destruct (small_call_decomp g wf (ms_frames s) c) as (Ed & _ & _ & Hal & Hin & _); try lia.
      change (t_row g XGetAt c) with (t_row g XPut c).
      assert (Hrq : t_row g XPut c + q < ROWS) by lia.
      destruct (has_row g wf s (c_huge g c) (t_row g XPut c + q) I Hh Hrq) as (cur & Ev & Hlt). rewrite Ev.
      destruct (N.eqb_spec cur 0) as [->|Hne]; cbn [fst].
      + destruct (q + 1 <? pow2 (c_order c - 6)) eqn:Eq.
        * rewrite goto_row.
          apply (inv_fill_row g s t _ _ (c_huge g c) _ I Ht Ev Hh Hrq); [|reflexivity|].
          -- constructor; intros; gsimp; change (t_row g XGetAt c) with (t_row g XPut c); unfold inb;
               rewrite ?N.eqb_refl; try lia; destr_if; lia.
          -- cbn [local_b lpc ctx_ok]. unfold t_nrows. cbn [t_order]. lia.
        * cbn [toggle_ok]. rewrite finish_get_row by (apply is_getat_not_put; lia).
          rewrite Ed at 2. unfold fidx. rewrite E0, N.add_0_r.
          apply (inv_alloc_rows g wf s t _ (c_huge g c) (t_row g XPut c) q (c_order c) _ I Ht Ev Hh Hrq Hk); [unfold c_n in En; lia|reflexivity|].
          unfold blk_ok. cbn [fst snd]. rewrite Ed, E0 in Hal, Hin. unfold fidx in Hal, Hin. rewrite N.add_0_r in Hal, Hin.
          unfold c_n in Hin. apply andb_true_iff. split; [apply N.eqb_eq; exact Hal|apply N.leb_le; exact Hin].
      + destruct (N.eqb_spec q 0) as [->|Hq].
        * apply (toggle_fail_plain s t c XGetAt _ I Ht); try reflexivity; cbn [ctx_ok]; lia.
        * apply (inv_plain g s t _ _ I Ht); [intros h; gsame_tac|reflexivity|].
          cbn [local_b lpc ctx_ok not_xput]. unfold t_nrows. cbn [t_order]. lia.
    - (* put: the row is owned, hence full *)
      destruct (toggle_rows_fit g wf (ms_frames s) c) as (E0 & En & Hfit); try lia.
      assert (Hrq : t_row g XPut c + q < ROWS) by lia.
      destruct (has_row g wf s (c_huge g c) (t_row g XPut c + q) I Hh Hrq) as (cur & Ev & Hlt). rewrite Ev.
      assert (Hfr : forall r' i, r' < ROWS -> i < 64 ->
                fr g (c_huge g c) r' i (TRun c (TW XPut q)) = b2n (inb (t_row g XPut c + q) (pow2 (c_order c - 6) - q) r')).
      { intros r' i Hr' Hi. rewrite (fr_put7 s c q (TRun c (TW XPut q)) _ r' i eq_refl) by lia. rewrite N.eqb_refl. reflexivity. }
      assert (Hnd : needsC g (c_huge g c) (TRun c (TW XPut q)) = 1) by (gsimp; rewrite N.eqb_refl; reflexivity).
      assert (Hcur : cur = MAX64).
      { apply row_all_set; [exact Hlt|]. intros i Hi.
        apply (owned_block g s t _ _ _ cur 0 64 I Ht Ev Hh Hrq ltac:(lia) Hnd); [|unfold inb; lia].
        intros i' Hi'. rewrite Hfr by (unfold inb in Hi'; lia). unfold inb. lia. }
      subst cur. rewrite N.eqb_refl. cbn [fst].
      set (x' := if q + 1 <? pow2 (c_order c - 6) then TRun c (TW XPut (q + 1)) else TRun c PS2L).
      assert (Hx : (if q + 1 <? pow2 (c_order c - 6) then goto (wr_row s (c_huge g c) (t_row g XPut c + q) 0) t c (TW XPut (q + 1))
                    else toggle_ok (wr_row s (c_huge g c) (t_row g XPut c + q) 0) t c XPut)
                   = mk_row s (c_huge g c) (t_row g XPut c + q) 0 t x' (ms_held s)).
      { unfold x'. destruct (q + 1 <? pow2 (c_order c - 6)); cbn [toggle_ok]; apply goto_row. }
      rewrite Hx.
      assert (Gx : ghost_of g x' = gput (c_huge g c) (c_frame c) (c_n c) (q + 1) \/
                   (q + 1 = pow2 (c_order c - 6) /\ ghost_of g x' = gpend (c_huge g c) (c_n c))).
      { unfold x'. destruct (q + 1 <? pow2 (c_order c - 6)) eqn:Eq; [left; reflexivity|right; split; [lia|reflexivity]]. }
      apply (inv_release g s t _ x' (c_huge g c) _ MAX64 0 0 64 I Ht Ev ltac:(unfold W64; lia) Hh Hrq ltac:(lia) Hnd).
      + intros i Hi. rewrite N.bits_0, testbit_MAX64. unfold inb. lia.
      + intros r' i Hr' Hi. rewrite (Hfr r' i Hr' Hi).
        destruct Gx as [Gx|[Eq Gx]]; unfold fr; rewrite Gx.
        * cbn [own_lo own_n gput]. rewrite (own_rows7 g wf (ms_frames s) c (q + 1) _ r' i) by lia. rewrite N.eqb_refl. unfold inb. lia.
        * cbn. unfold inb. lia.
      + intros r'. destruct Gx as [Gx|[Eq Gx]]; unfold tr; rewrite Gx; gsimp; unfold inb; lia.
      + destruct Gx as [Gx|[Eq Gx]]; unfold trcount; rewrite Gx; gsimp; reflexivity.
      + destruct Gx as [Gx|[Eq Gx]]; unfold hfr; rewrite Gx; gsimp; reflexivity.
      + destruct Gx as [Gx|[Eq Gx]]; unfold pend; rewrite Gx; gsimp; rewrite N.eqb_refl; lia.
      + intros h' Hne. constructor; intros; try (destruct Gx as [Gx|[Eq Gx]]; unfold tr, pend, trcount, needsC, hfr; rewrite Gx; gsimp; unfold inb; destr_if; lia).
        rewrite (fr_put7 s c q (TRun c (TW XPut q)) _ r i eq_refl) by lia.
        destruct (N.eqb_spec h' (c_huge g c)); [contradiction|]. cbn [andb b2n].
        destruct Gx as [Gx|[Eq Gx]]; unfold fr; rewrite Gx.
        * cbn [own_lo own_n gput]. rewrite (own_rows7 g wf (ms_frames s) c (q + 1) _ r i) by lia.
          destruct (N.eqb_spec h' (c_huge g c)); [contradiction|]. reflexivity.
        * cbn. unfold inb. lia.
      + unfold x'. destruct (q + 1 <? pow2 (c_order c - 6)); reflexivity.
      + unfold x'. destruct (q + 1 <? pow2 (c_order c - 6)) eqn:Eq; cbn [local_b lpc ctx_ok]; unfold t_nrows; cbn [t_order]; lia.
    - (* split *)
      pose proof (ROWS_pow2 g wf) as ER. cbn [t_row]. rewrite N.add_0_l.
      assert (Hrq : q < ROWS) by lia.
      destruct (has_row g wf s (c_huge g c) q I Hh Hrq) as (cur & Ev & Hlt). rewrite Ev.
      destruct (N.eqb_spec cur 0) as [->|Hne]; cbn [fst].
      + set (x' := if q + 1 <? pow2 (hord g - 6) then TRun c (TW (XSplit old) (q + 1)) else TRun c (PP2 old)).
        assert (Hx : (if q + 1 <? pow2 (hord g - 6) then goto (wr_row s (c_huge g c) q MAX64) t c (TW (XSplit old) (q + 1))
                      else toggle_ok (wr_row s (c_huge g c) q MAX64) t c (XSplit old))
                     = mk_row s (c_huge g c) q MAX64 t x' (ms_held s)).
        { unfold x'. destruct (q + 1 <? pow2 (hord g - 6)); cbn [toggle_ok]; apply goto_row. }
        rewrite Hx.
        apply (inv_fill_row g s t _ x' (c_huge g c) q I Ht Ev Hh Hrq).
        * unfold x'. destruct (q + 1 <? pow2 (hord g - 6)) eqn:Eq; constructor; intros; gsimp; rewrite ?ER; unfold inb;
            rewrite ?N.eqb_refl; try lia; destr_if; lia.
        * unfold x'. destruct (q + 1 <? pow2 (hord g - 6)); reflexivity.
        * unfold x'. destruct (q + 1 <? pow2 (hord g - 6)) eqn:Eq; cbn [local_b lpc ctx_ok]; unfold t_nrows; cbn [t_order]; lia.
      + destruct (N.eqb_spec q 0) as [->|Hq].
        * apply (toggle_fail_plain s t c (XSplit old) _ I Ht); try reflexivity; cbn [ctx_ok]; lia.
        * apply (inv_plain g s t _ _ I Ht); [intros h; gsame_tac|reflexivity|].
          cbn [local_b lpc ctx_ok not_xput]. unfold t_nrows. cbn [t_order]. lia.
  Qed.

  Lemma step_TU s t c x q c0 : Inv g s -> nth_error (ms_pool s) t = Some (TRun c (TU x q)) ->
    Inv g (fst (mstep g s t c0)).
  Proof.
    intros I Ht. pose proof (local_of' s t _ I Ht) as L. cbn [local_b lpc] in L.
    unfold mstep. rewrite Ht. cbv beta iota zeta.
    assert (Hg : is_get c = false) by (destruct x; cbn [ctx_ok] in L; [apply is_getat_not_get|apply is_put_not_get|apply is_put_not_get]; lia).
    destruct (small_call s c) as (Hh & He & Hk & Hr & Ho & Hn); try lia; [exact I|].
    destruct x as [| |old]; unfold t_nrows in *; cbn [ctx_ok t_order t_expected not_xput] in *; [| exfalso; lia |].
    - (* get_at *)
      destruct (toggle_rows_fit g wf (ms_frames s) c) as (E0 & En & Hfit); try lia.
      change (t_row g XGetAt c) with (t_row g XPut c).
      assert (Hrq : t_row g XPut c + q < ROWS) by lia.
      destruct (has_row g wf s (c_huge g c) (t_row g XPut c + q) I Hh Hrq) as (cur & Ev & Hlt). rewrite Ev.
      set (x' := if q =? 0 then toggle_fail_thr XGetAt c else TRun c (TU XGetAt (q - 1))).
      destruct (inv_unfill_row g wf s t _ x' (c_huge g c) _ cur I Ht Ev Hh Hrq) as [Hcur Hinv].
      + unfold x'. destruct (N.eqb_spec q 0) as [->|Hq]; cbn [toggle_fail_thr];
          constructor; intros; gsimp; change (t_row g XGetAt c) with (t_row g XPut c); unfold inb;
          rewrite ?N.eqb_refl; try lia; destr_if; lia.
      + unfold x'. destruct (q =? 0); reflexivity.
      + unfold x'. destruct (N.eqb_spec q 0) as [->|Hq]; cbn [toggle_fail_thr local_b lpc ctx_ok not_xput]; unfold t_nrows; cbn [t_order]; lia.
      + subst cur. rewrite N.eqb_refl. cbn [fst]. unfold x' in Hinv.
        destruct (q =? 0); [rewrite toggle_fail_eq, set_thr_row|rewrite goto_row]; exact Hinv.
    - (* split *)
      pose proof (ROWS_pow2 g wf) as ER. cbn [t_row]. rewrite N.add_0_l.
      assert (Hrq : q < ROWS) by lia.
      destruct (has_row g wf s (c_huge g c) q I Hh Hrq) as (cur & Ev & Hlt). rewrite Ev.
      set (x' := if q =? 0 then toggle_fail_thr (XSplit old) c else TRun c (TU (XSplit old) (q - 1))).
      destruct (inv_unfill_row g wf s t _ x' (c_huge g c) _ cur I Ht Ev Hh Hrq) as [Hcur Hinv].
      + unfold x'. destruct (N.eqb_spec q 0) as [->|Hq]; cbn [toggle_fail_thr];
          constructor; intros; gsimp; unfold inb; rewrite ?N.eqb_refl; try lia; destr_if; lia.
      + unfold x'. destruct (q =? 0); reflexivity.
      + unfold x'. destruct (N.eqb_spec q 0) as [->|Hq]; cbn [toggle_fail_thr local_b lpc ctx_ok not_xput]; unfold t_nrows; cbn [t_order]; lia.
      + subst cur. rewrite N.eqb_refl. cbn [fst]. unfold x' in Hinv.
        destruct (q =? 0); [rewrite toggle_fail_eq, set_thr_row|rewrite goto_row]; exact Hinv.
  Qed.
End At.
