(* C13 for arbitrary interleavings of machine M2 (UpperMachine.v).

   "Every successful allocation reports either the requested class or a class that the policy rates as a
    match or as stealable for that request" -- for every schedule, any number of threads, ANY policy, ANY
    memory (no invariant on the shared state is needed: the property is thread-local).

   The invariant `TI` says of every thread that is inside a `UGet frame r` (rc = r_class r): every class value
   stored in a continuation frame / a pending compare-exchange is rc itself or `class_ok policy rc _`
   (produced by a policy evaluation in this very call), every request stored in a frame has class rc, and
   no frame of another API function (put / drain / change) is on the stack.
   Theorems: `ustep_TI` (one step preserves TI), `urun_TI`, `ustep_class` (the step that completes a UGet with
   Ok (f, cl) has class_ok), `conc_class` (the same along every schedule from `uboot`), examples by vm_compute. *)
From Coq Require Import PeanoNat.
From LLF Require Import Base Row Bitfield Lower Sorted Upper LowerMachine UpperMachine UpperGetProofs Policies.

Section Class.
  Variable g : geom.
  Variable policy : N -> N -> N -> pol.
  Variable rc : N.                       (* the requested class of the call under consideration *)
  Notation cok := (class_ok policy rc).

  Definition acc_ok (a : acc) : Prop :=
    match a with AcRos _ c _ => c = rc | AcSteal c _ => c = rc | AcChange _ _ _ => False end.
  Definition res_ok (r : res (N * N)) : Prop :=
    match r with Ok (_, c) => cok c | _ => True end.

  Definition fok (f : kframe) : Prop :=
    match f with
    | KGet1 r _ | KGet2 r _ | KOom1 r _ | KAt1 _ r => r_class r = rc
    | KGL1 _ c _ _ _ | KGL2 _ c _ _ | KGL3 _ c | KGL5 _ c _ _ _ | KGL6 _ c _ _ _ _ => c = rc
    | KGL4 _ _ => True
    | KSR1 _ c _ _ => c = rc
    | KSBL sb | KSBA sb | KSBT sb _ => acc_ok (sb_acc sb)
    | KSe a _ _ => acc_ok a
    | KRS1 _ _ c _ => c = rc
    | KRS2 _ _ _ _ _ tc | KRS3 _ tc => cok tc
    | KUnres r | KRetR r => res_ok r
    | KSG1 _ _ _ => True
    | KSG2 _ _ c => cok c
    | KSL1 r _ i _ => r_class r = rc /\ cok ((i + r_class r) mod 8)
    | KSL2 _ _ tc => cok tc
    | KDL1 r _ _ _ | KDL2 r _ _ | KDL3 r _ _ | KDL4 r _ => r_class r = rc
    | KPut1 _ _ | KPut2 _ _ | KDr1 _ _ | KDr2 _ _ | KCh => False
    end.
  Definition kok (k : list kframe) : Prop := Forall fok k.

  (* frames that consume the class of the entry written by a tree compare-exchange *)
  Definition top_needs (k : list kframe) : bool :=
    match k with (KSG1 _ _ _ | KRS1 _ _ _ _) :: _ => true | _ => false end.
  Definition cls_fun (f : tfun) : bool :=
    match f with FSteal c _ => c =? rc | FRos _ c => c =? rc | _ => false end.
  Definition prim_ok (p : prim) (k : list kframe) : Prop :=
    top_needs k = true ->
    match p with
    | PTL _ f | PTF _ f _ _ _ => cls_fun f = true
    | PTC _ f _ new => cls_fun f = true /\ cok (t_class new)
    | _ => False
    end.
  Definition pk_ok (p : prim) (k : list kframe) : Prop := kok k /\ prim_ok p k.

  Definition vcls (v : val) : Prop :=
    match v with
    | VR r => res_ok r
    | VG (GOk _ c) => cok c
    | _ => True
    end.
  Definition val_ok (v : val) (k : list kframe) : Prop :=
    vcls v /\ (top_needs k = true -> match v with VT true _ new => cok (t_class new) | _ => True end).

  Definition act_ok (a : act) : Prop :=
    match a with
    | ADo p k => pk_ok p k
    | ARet v k => kok k /\ val_ok v k
    | APanic _ => True
    end.
  Definition settled_ok (x : settled) : Prop :=
    match x with
    | SRun p k => pk_ok p k
    | SDone r => res_ok r
    | SCrash _ => True
    end.

  Lemma cok_refl : cok rc.
  Proof. left; reflexivity. Qed.

  (* ----- the closures that produce a class ----- *)
  Lemma cls_fun_apply d f cur fetch new :
    cls_fun f = true -> tf_apply g policy d f cur fetch = Some (Ok new) -> cok (t_class new).
  Proof.
    destruct f; cbn [cls_fun tf_apply]; try discriminate; intros E H; apply N.eqb_eq in E; subst.
    - unfold tree_steal in H. destruct (_ && _); [|discriminate].
      destruct (policy rc (t_class cur) free) eqn:Ep; cbn [option_map] in H; inversion H; subst; cbn [t_class].
      + apply cok_refl.
      + apply cok_refl.
      + right. exists (t_class cur), free. split; [reflexivity|right; exact Ep].
    - unfold tree_reserve_or_steal in H. destruct (_ && _); [|discriminate].
      destruct (policy rc (t_class cur) free) eqn:Ep; cbn [option_map] in H; inversion H; subst; cbn [t_class].
      + apply cok_refl.
      + apply cok_refl.
      + right. exists (t_class cur), free. split; [reflexivity|right; exact Ep].
  Qed.

  Lemma steal_scan_ok u free n : forall i j i' j',
    steal_scan policy u rc free i j n = Some (i', j') -> cok ((i' + rc) mod 8).
  Proof.
    induction n as [|n IH]; intros i j i' j'; cbn [steal_scan]; [discriminate|].
    destruct (8 <=? i); [discriminate|].
    destruct (class_slots u ((i + rc) mod 8)); [|apply IH].
    destruct (policy rc ((i + rc) mod 8) free) eqn:Ep; try apply IH.
    - destruct (j <? _); [|apply IH]. intros H; inversion H; subst.
      right. exists ((i' + rc) mod 8), free. split; [reflexivity|left; rewrite Ep; reflexivity].
    - destruct (j <? _); [|apply IH]. intros H; inversion H; subst.
      right. exists ((i' + rc) mod 8), free. split; [reflexivity|right; exact Ep].
  Qed.

  (* ----- building blocks ----- *)
  Lemma ado_ok p k : kok k -> top_needs k = false -> act_ok (ADo p k).
  Proof. intros K T. split; [exact K|]. unfold prim_ok. rewrite T. discriminate. Qed.

  Lemma aret_r r k : res_ok r -> kok k -> act_ok (ARet (VR r) k).
  Proof. intros R K. split; [exact K|]. split; [exact R|]. intros _. exact I. Qed.
  Lemma aret_g x k : vcls (VG x) -> kok k -> act_ok (ARet (VG x) k).
  Proof. intros R K. split; [exact K|]. split; [exact R|]. intros _. exact I. Qed.

  Lemma ret_r_ok r k : res_ok r -> kok k -> act_ok (ret_r r k).
  Proof. intros R K. destruct r; cbn [ret_r]; try exact I; apply aret_r; assumption. Qed.

  Lemma enter_low_ok c k : kok k -> top_needs k = false -> act_ok (enter_low g c k).
  Proof. apply ado_ok. Qed.

  Lemma enter_tu_ok u i f k : kok k -> (top_needs k = true -> cls_fun f = true) -> act_ok (enter_tu u i f k).
  Proof.
    intros K T. unfold enter_tu. destruct (UpperMachine.tree_ok u i); [|exact I].
    split; [exact K|]. exact T.
  Qed.
  Lemma enter_tu_ok' u i f k : kok k -> top_needs k = false -> act_ok (enter_tu u i f k).
  Proof. intros K T. apply enter_tu_ok; [exact K|]. rewrite T. discriminate. Qed.
  Lemma enter_tput_ok u i fr k : kok k -> top_needs k = false -> act_ok (enter_tput u i fr k).
  Proof. apply enter_tu_ok'. Qed.

  Lemma kcons f k : fok f -> kok k -> kok (f :: k).
  Proof. intros; constructor; assumption. Qed.

  Lemma enter_get_local_ok u order local frame sync k :
    kok k -> act_ok (enter_get_local g u order rc local frame sync k).
  Proof.
    intros K. unfold enter_get_local. destruct (class_locals u rc).
    - destruct (local <? n); [|exact I]. apply ado_ok; [|reflexivity]. apply kcons; [reflexivity|exact K].
    - apply aret_g; [exact I|exact K].
  Qed.

  Lemma enter_access_ok u a i k : acc_ok a -> kok k -> act_ok (enter_access u a i k).
  Proof.
    intros A K. destruct a; cbn [acc_ok] in A; subst; cbn [enter_access].
    - apply enter_tu_ok; [apply kcons; [reflexivity|exact K]|]. intros _. cbn [cls_fun]. apply N.eqb_refl.
    - apply enter_tu_ok; [apply kcons; [exact I|exact K]|]. intros _. cbn [cls_fun]. apply N.eqb_refl.
    - destruct A.
  Qed.

  Lemma enter_steal_global_ok u i order frame k :
    kok k -> act_ok (enter_steal_global u i rc order frame k).
  Proof.
    intros K. unfold enter_steal_global.
    apply enter_tu_ok; [apply kcons; [exact I|exact K]|]. intros _. cbn [cls_fun]. apply N.eqb_refl.
  Qed.

  Lemma sb_try_ok u sb cands k : acc_ok (sb_acc sb) -> kok k -> act_ok (UpperMachine.sb_try u sb cands k).
  Proof.
    intros A K. destruct cands as [|[x i] r]; cbn [UpperMachine.sb_try].
    - apply aret_r; [exact I|exact K].
    - apply enter_access_ok; [exact A|]. apply kcons; [exact A|exact K].
  Qed.

  Lemma sb_next_ok u sb k : acc_ok (sb_acc sb) -> kok k -> act_ok (sb_next u sb k).
  Proof.
    intros A K. unfold sb_next. destruct (sb_n sb).
    - apply sb_try_ok; assumption.
    - destruct (UpperMachine.tree_ok u _); [|exact I].
      apply ado_ok; [|reflexivity]. apply kcons; [exact A|exact K].
  Qed.

  Lemma enter_sb_ok u a rt cap start offset len k : acc_ok a -> kok k -> act_ok (enter_sb u a rt cap start offset len k).
  Proof.
    intros A K. unfold enter_sb. destruct (_ && _); [exact I|]. apply sb_next_ok; [exact A|exact K].
  Qed.

  Lemma se_next_ok u a i n k : acc_ok a -> kok k -> act_ok (se_next u a i n k).
  Proof.
    intros A K. destruct n; cbn [se_next].
    - apply aret_r; [exact I|exact K].
    - apply enter_access_ok; [exact A|]. apply kcons; [exact A|exact K].
  Qed.

  Lemma enter_sar_ok u order local start k :
    kok k -> act_ok (enter_search_and_reserve g u order rc local start k).
  Proof.
    intros K. unfold enter_search_and_reserve. destruct (Nat.ltb order (hord g)).
    - apply enter_sb_ok; [reflexivity|]. apply kcons; [reflexivity|exact K].
    - apply enter_sb_ok; [reflexivity|exact K].
  Qed.

  Lemma sl_next_ok u r frame i j k : r_class r = rc -> kok k -> act_ok (sl_next g policy u r frame i j k).
  Proof.
    intros R K. unfold sl_next. rewrite R.
    destruct (steal_scan policy u rc (pow2 (r_order r)) i j 9) as [[i' j']|] eqn:E.
    - apply ado_ok; [|reflexivity]. apply kcons; [|exact K]. cbn [fok]. split; [exact R|].
      rewrite R. eapply steal_scan_ok; eassumption.
    - apply aret_r; [exact I|exact K].
  Qed.

  Lemma dl_next_ok u r frame i j k : r_class r = rc -> kok k -> act_ok (dl_next g policy u r frame i j k).
  Proof.
    intros R K. unfold dl_next.
    destruct (demote_scan policy u (r_class r) (pow2 (r_order r)) i j 9) as [[i' j']|].
    - apply ado_ok; [|reflexivity]. apply kcons; [exact R|exact K].
    - apply aret_r; [exact I|exact K].
  Qed.

  Lemma enter_demote_local_ok u r frame k : r_class r = rc -> kok k -> act_ok (enter_demote_local g policy u r frame k).
  Proof.
    intros R K. unfold enter_demote_local. destruct (class_slots u (r_class r)).
    - apply dl_next_ok; assumption.
    - apply aret_r; [exact I|exact K].
  Qed.

  Lemma after_local_ok u f r k : r_class r = rc -> kok k -> act_ok (after_local g u f r k).
  Proof.
    intros R K. unfold after_local. rewrite R. apply enter_steal_global_ok. apply kcons; [exact R|exact K].
  Qed.

  Lemma enter_global_ok u r k : r_class r = rc -> kok k -> act_ok (enter_global u r k).
  Proof.
    intros R K. unfold enter_global. apply enter_sb_ok; [exact R|]. apply kcons; [exact R|exact K].
  Qed.

  Lemma enter_get_ok u frame r k : r_class r = rc -> kok k -> act_ok (enter_get g u frame r k).
  Proof.
    intros R K. unfold enter_get. destruct (check g u _ r).
    2:{ apply aret_r; [exact I|exact K]. }
    2:{ exact I. }
    destruct frame as [f|].
    - unfold enter_get_at. destruct (r_local r).
      + rewrite R. apply enter_get_local_ok. apply kcons; [exact R|exact K].
      + apply after_local_ok; assumption.
    - destruct (r_local r).
      + destruct (_ && _).
        * rewrite R. apply enter_get_local_ok. apply kcons; [exact R|exact K].
        * apply enter_global_ok; assumption.
      + apply enter_global_ok; assumption.
  Qed.

  (* ----- the program points ----- *)
  Ltac fin :=
    first [ exact I
          | assumption
          | apply cok_refl
          | reflexivity ].

  Lemma resume_ok u v f k : fok f -> kok k -> val_ok v (f :: k) -> act_ok (resume g policy u v f k).
  Proof.
    intros F K [V T].
    destruct f; cbn [fok] in F; try (exfalso; exact F); destruct v; try exact I;
      cbn [resume top_needs vcls] in *.
    - (* KGet1 *)
      destruct r0 as [fr c|e t|s]; [apply aret_r; fin| |exact I].
      destruct e; try (apply aret_r; fin).
      destruct (r_local r); [|exact I]. rewrite F. apply enter_sar_ok. apply kcons; fin.
    - (* KGet2 *)
      destruct r0 as [[a b]|e|s]; [apply ret_r_ok; fin| |apply ret_r_ok; fin].
      destruct e; try (apply ret_r_ok; fin).
      unfold enter_steal_local. apply sl_next_ok; [fin|]. apply kcons; fin.
    - (* KOom1 *)
      destruct r0 as [[a b]|e|s]; [apply ret_r_ok; fin| |apply ret_r_ok; fin].
      destruct e; try (apply ret_r_ok; fin).
      apply enter_demote_local_ok; fin.
    - (* KAt1 *)
      destruct r0 as [fr c|e t|s]; [apply aret_r; fin| |exact I].
      destruct e; try (apply aret_r; fin). apply after_local_ok; fin.
    - (* KGL1 *)
      subst class. destruct ok.
      + apply enter_low_ok; [apply kcons; fin|reflexivity].
      + destruct (s_pres old); [|apply aret_g; fin].
        destruct (_ && _); [|apply aret_g; fin].
        destruct (_ <? _); [exact I|]. apply enter_tu_ok'; [apply kcons; fin|reflexivity].
    - (* KGL2 *)
      subst class. destruct r as [fr|e|s]; [| |exact I].
      + destruct (_ =? _); [apply aret_g; [apply cok_refl|fin]|].
        destruct (class_locals u rc); [|apply aret_g; [apply cok_refl|fin]].
        destruct (_ <? _); [|exact I]. apply ado_ok; [apply kcons; fin|reflexivity].
      + apply enter_tput_ok; [apply kcons; fin|reflexivity].
    - (* KGL3 *) subst class. apply aret_g; [apply cok_refl|fin].
    - (* KGL4 *) apply aret_g; fin.
    - (* KGL5 *)
      subst class. destruct ok; [|apply aret_g; fin].
      destruct (class_locals u rc).
      + destruct (_ <? _); [|exact I]. apply ado_ok; [apply kcons; fin|reflexivity].
      + apply enter_tput_ok; [apply kcons; fin|reflexivity].
    - (* KGL6 *)
      subst class. destruct ok.
      + apply enter_get_local_ok; fin.
      + apply enter_tput_ok; [apply kcons; fin|reflexivity].
    - (* KSR1 *)
      subst class. destruct r as [[a b]|e|s]; [apply ret_r_ok; fin| |apply ret_r_ok; fin].
      destruct e; try (apply ret_r_ok; fin). apply enter_sb_ok; [reflexivity|fin].
    - (* KSBL *)
      destruct (t_res old); [apply sb_next_ok; fin|].
      destruct (rate_apply g policy (sb_rate sb) (t_class old) (t_free old)) as [n| | |].
      + destruct n as [|p]; [apply sb_next_ok; fin|].
        do 8 (destruct p as [p|p|]; try (apply sb_next_ok; fin)).
        apply enter_access_ok; [fin|apply kcons; fin].
      + apply sb_next_ok; fin.
      + apply sb_next_ok; fin.
      + apply sb_next_ok; fin.
    - (* KSBA *)
      destruct r as [[a b]|e|s]; [apply ret_r_ok; fin| |apply ret_r_ok; fin].
      destruct e; try (apply ret_r_ok; fin). apply sb_next_ok; fin.
    - (* KSBT *)
      destruct r as [[a b]|e|s]; [apply ret_r_ok; fin| |apply ret_r_ok; fin].
      destruct e; try (apply ret_r_ok; fin). apply sb_try_ok; fin.
    - (* KSe *)
      destruct r as [[x b]|e|s]; [apply ret_r_ok; fin| |apply ret_r_ok; fin].
      destruct e; try (apply ret_r_ok; fin). apply se_next_ok; fin.
    - (* KRS1 *)
      destruct ok; [|apply aret_r; fin].
      apply enter_low_ok; [|reflexivity]. apply kcons; [|fin]. cbn [fok]. apply T. reflexivity.
    - (* KRS2 *)
      destruct r as [fr|e|s]; [| |exact I].
      + destruct reserved; [|apply aret_r; fin].
        destruct (class_locals u tc); [|apply aret_r; fin].
        destruct (0 <? n); [|apply aret_r; fin].
        apply ado_ok; [apply kcons; fin|reflexivity].
      + destruct reserved.
        * apply enter_tu_ok'; [apply kcons; fin|reflexivity].
        * apply enter_tput_ok; [apply kcons; fin|reflexivity].
    - (* KRS3 *)
      destruct (s_pres old); [|apply aret_r; fin].
      apply enter_tu_ok'; [apply kcons; fin|reflexivity].
    - (* KUnres *) destruct ok; [apply ret_r_ok; fin|exact I].
    - (* KRetR *) apply ret_r_ok; fin.
    - (* KSG1 *)
      destruct ok; [|apply aret_r; fin].
      apply enter_low_ok; [|reflexivity]. apply kcons; [|fin]. cbn [fok]. apply T. reflexivity.
    - (* KSG2 *)
      destruct r as [fr|e|s]; [apply aret_r; fin| |exact I].
      apply enter_tput_ok; [apply kcons; fin|reflexivity].
    - (* KSL1 *)
      destruct F as [R C]. destruct ok.
      + apply enter_low_ok; [apply kcons; fin|reflexivity].
      + apply sl_next_ok; fin.
    - (* KSL2 *)
      destruct r0 as [fr|e|s]; [apply aret_r; fin| |exact I].
      destruct e; try (apply aret_r; fin). apply enter_tput_ok; [apply kcons; fin|reflexivity].
    - (* KDL1 *)
      destruct ok; [|apply dl_next_ok; fin].
      destruct (slot_get g old _ _) as [nw|]; [|exact I].
      destruct (r_local r) as [lc|].
      + destruct (class_locals u (r_class r)); [|exact I]. destruct (lc <? n); [|exact I].
        apply ado_ok; [apply kcons; fin|reflexivity].
      + apply enter_tu_ok'; [apply kcons; fin|reflexivity].
    - (* KDL2 *)
      destruct (s_pres old).
      + apply enter_tu_ok'; [apply kcons; fin|reflexivity].
      + apply enter_low_ok; [apply kcons; fin|reflexivity].
    - (* KDL3 *)
      destruct ok; [|exact I]. apply enter_low_ok; [apply kcons; fin|reflexivity].
    - (* KDL4 *)
      destruct r0 as [fr|e|s]; [apply aret_r; [cbn [res_ok]; rewrite F; apply cok_refl|fin]| |exact I].
      destruct e; try (apply aret_r; fin). apply enter_tput_ok; [apply kcons; fin|reflexivity].
  Qed.

  Lemma settle_ok u fuel : forall a, act_ok a -> settled_ok (settle g policy fuel u a).
  Proof.
    induction fuel as [|fuel IH]; intros a A; destruct a as [p k|v k|s]; cbn [settle settled_ok]; try exact I.
    - exact A.
    - destruct k as [|f k]; [|exact I]. destruct v; try exact I. destruct r; try exact I. destruct A as (_ & V & _). exact V.
    - exact A.
    - destruct k as [|f k].
      + destruct v; try exact I. destruct r; try exact I. destruct A as (_ & V & _). exact V.
      + apply IH. destruct A as (K & V). inversion K; subst. apply resume_ok; assumption.
  Qed.

  (* ----- the accesses ----- *)
  Lemma tu_eval_ok u i f cur k :
    (top_needs k = true -> cls_fun f = true) ->
    match tu_eval g policy u i f cur with
    | OStay p' => prim_ok p' k
    | OVal v => val_ok v k
    | OCrash _ => True
    end.
  Proof.
    intros T. unfold tu_eval. destruct (needs_fetch f cur); [exact T|].
    destruct (tf_apply g policy (dflt u) f cur 0) as [[new|e|s]|] eqn:E; try exact I.
    - intros N. split; [exact (T N)|]. eapply cls_fun_apply; [exact (T N)|exact E].
    - split; [exact I|]. intros _. exact I.
  Qed.
  Lemma tu_eval_fetched_ok u i f cur fetch k :
    (top_needs k = true -> cls_fun f = true) ->
    match tu_eval_fetched g policy u i f cur fetch with
    | OStay p' => prim_ok p' k
    | OVal v => val_ok v k
    | OCrash _ => True
    end.
  Proof.
    intros T. unfold tu_eval_fetched.
    destruct (tf_apply g policy (dflt u) f cur fetch) as [[new|e|s]|] eqn:E; try exact I.
    - intros N. split; [exact (T N)|]. eapply cls_fun_apply; [exact (T N)|exact E].
    - split; [exact I|]. intros _. exact I.
  Qed.

  Lemma val_ok_free v k : vcls v -> (top_needs k = true -> False) -> val_ok v k.
  Proof. intros V T. split; [exact V|]. intros N. destruct (T N). Qed.

  Lemma prim_step_ok u p k :
    prim_ok p k ->
    match snd (prim_step g policy u p) with
    | OStay p' => prim_ok p' k
    | OVal v => val_ok v k
    | OCrash _ => True
    end.
  Proof.
    intros P. destruct p; cbn [prim_step].
    - destruct (tree_at u i); cbn [snd]; [|exact I]. apply val_ok_free; [exact I|exact P].
    - destruct (tree_at u i); cbn [snd]; [|exact I]. apply tu_eval_ok. exact P.
    - destruct (nth_error _ _); cbn [snd]; [|exact I]. destruct (j + 1 <? _); [exact P|].
      apply tu_eval_fetched_ok. exact P.
    - destruct (tree_at u i); cbn [snd]; [|exact I]. destruct (tree_eqb t cur); cbn [snd].
      + split; [exact I|]. intros N. exact (proj2 (P N)).
      + apply tu_eval_ok. intros N. exact (proj1 (P N)).
    - destruct (UpperMachine.slot_at u c idx); cbn [snd]; [|exact I]. unfold su_eval.
      destruct (sf_apply g f s) as [[x|x|x]|]; try exact I.
      + intros N. exact (P N).
      + apply val_ok_free; [exact I|exact P].
    - destruct (UpperMachine.slot_at u c idx); cbn [snd]; [|exact I]. destruct (slot_eqb s cur); cbn [snd].
      + apply val_ok_free; [exact I|exact P].
      + unfold su_eval. destruct (sf_apply g f s) as [[x|x|x]|]; try exact I.
        * intros N. exact (P N).
        * apply val_ok_free; [exact I|exact P].
    - destruct (UpperMachine.slot_at u c idx); cbn [snd]; [|exact I]. apply val_ok_free; [exact I|exact P].
    - destruct th as [l|c pc0|s c]; cbn [snd]; try exact I.
      destruct (mstep g (m1_view u (TRun c pc0)) 0 c) as [ms' ev].
      destruct (nth_error (ms_pool ms') 0) as [[[[x|x|x]|]|c' p'|s c']|]; cbn [snd]; try exact I.
      + apply val_ok_free; [exact I|exact P].
      + apply val_ok_free; [exact I|exact P].
      + intros N. exact (P N).
  Qed.
End Class.

(* ================================ the machine ================================ *)
Section Run.
  Variable g : geom.
  Variable policy : N -> N -> N -> pol.

  Definition TI (s : m2state) : Prop :=
    forall t frame r p k, nth_error (m2_pool s) t = Some (URun (UGet frame r) p k) -> pk_ok policy (r_class r) p k.

  (* the call that a step of thread t works on *)
  Definition step_call (s : m2state) (t : nat) (c0 : ucall) : option ucall :=
    match nth_error (m2_pool s) t with
    | Some (UIdle _) => Some c0
    | Some (URun c _ _) => Some c
    | _ => None
    end.

  Definition thr_ok (x : uthr) : Prop :=
    match x with URun (UGet _ r) p k => pk_ok policy (r_class r) p k | _ => True end.

  Lemma TI_set s t x : TI s -> thr_ok x -> TI (set_uthr s t x).
  Proof.
    intros H X t' frame r p k E. unfold set_uthr in E. cbn [m2_pool] in E.
    destruct (Nat.eq_dec t t') as [<-|N].
    - destruct (Nat.lt_ge_cases t (length (m2_pool s))) as [L|L].
      + rewrite nth_error_upd_same in E by exact L. inversion E; subst x. exact X.
      + assert (Q : nth_error (upd (m2_pool s) t x) t = None) by (apply nth_error_None; rewrite upd_length; exact L).
        rewrite Q in E. discriminate.
    - rewrite nth_error_upd_other in E by exact N. eapply H; exact E.
  Qed.

  Lemma TI_pool s s' : m2_pool s' = m2_pool s -> TI s -> TI s'.
  Proof. intros E H t frame r p k. rewrite E. apply H. Qed.

  Lemma thr_ok_settled s t c x :
    (forall frame r, c = UGet frame r -> settled_ok policy (r_class r) x) ->
    TI s -> TI (apply_settled s t c x).
  Proof.
    intros X H. destruct x as [p k|r|z]; cbn [apply_settled].
    - apply TI_set; [exact H|]. destruct c; try exact I. exact (X _ _ eq_refl).
    - unfold ufinish. destruct c as [frame rq| | |]; try (apply TI_set; [exact H|exact I]).
      destruct r as [[f cl]|e|z]; try (apply TI_set; [exact H|exact I]).
    - apply TI_set; [exact H|exact I].
  Qed.

  Theorem ustep_TI s t c0 : TI s -> TI (fst (ustep g policy s t c0)).
  Proof.
    intros H. unfold ustep. destruct (nth_error (m2_pool s) t) as [[l|c p k|z c]|] eqn:Et; try exact H.
    - (* a call starts *)
      assert (S : forall s1, TI s1 ->
                TI (apply_settled s1 t c0 (settle g policy SETTLE (m2_up s1) (enter_call g (m2_up s1) c0)))).
      { intros s1 H1. apply thr_ok_settled; [|exact H1]. intros frame r ->. apply settle_ok.
        cbn [enter_call]. apply enter_get_ok; [reflexivity|constructor]. }
      destruct c0 as [frame r|f rq| |m ch]; cbn [fst]; try (apply S; exact H).
      destruct (client_take (m2_held s) f (r_order rq)); cbn [fst]; [|exact H].
      apply S. eapply TI_pool; [|exact H]. reflexivity.
    - (* an access *)
      destruct (prim_step g policy (m2_up s) p) as [[u' ev] o] eqn:Ep. cbn [fst].
      assert (H1 : TI (with_up s u')) by (eapply TI_pool; [|exact H]; reflexivity).
      assert (P : forall frame r, c = UGet frame r ->
                  kok policy (r_class r) k /\
                  match o with
                  | OStay p' => prim_ok policy (r_class r) p' k
                  | OVal v => val_ok policy (r_class r) v k
                  | OCrash _ => True
                  end).
      { intros frame r ->. destruct (H _ _ _ _ _ Et) as [K P]. split; [exact K|].
        pose proof (prim_step_ok g policy (r_class r) (m2_up s) p k P) as Q. rewrite Ep in Q. exact Q. }
      destruct o as [p'|v|z].
      + apply TI_set; [exact H1|]. destruct c; try exact I. destruct (P _ _ eq_refl) as [K Q]. split; assumption.
      + apply thr_ok_settled; [|exact H1]. intros frame r ->. destruct (P _ _ eq_refl) as [K Q].
        apply settle_ok. split; assumption.
      + apply TI_set; [exact H1|exact I].
  Qed.

  Theorem urun_TI sch : forall s, TI s -> TI (urun g policy sch s).
  Proof.
    induction sch as [|[t c] sch IH]; intros s H; [exact H|].
    cbn [urun fold_left fst snd]. apply IH. apply ustep_TI. exact H.
  Qed.

  Lemma uboot_TI u held0 n : TI (uboot u held0 n).
  Proof.
    intros t frame r p k E. cbn [uboot m2_pool] in E.
    apply nth_error_In, repeat_spec in E. discriminate.
  Qed.

  Lemma nth_upd_eq {A} (l : list A) t x y : nth_error (upd l t x) t = Some y -> y = x.
  Proof.
    intros E. destruct (Nat.lt_ge_cases t (length l)) as [L|L].
    - rewrite nth_error_upd_same in E by exact L. inversion E; reflexivity.
    - assert (Q : nth_error (upd l t x) t = None) by (apply nth_error_None; rewrite upd_length; exact L).
      rewrite Q in E. discriminate.
  Qed.

  Lemma settled_result s t c x r :
    nth_error (m2_pool (apply_settled s t c x)) t = Some (UIdle (Some r)) -> x = SDone r.
  Proof.
    destruct x as [p k|r0|z]; cbn [apply_settled].
    - intros E. apply nth_upd_eq in E. discriminate.
    - unfold ufinish. intros E.
      assert (E' : nth_error (upd (m2_pool s) t (UIdle (Some r0))) t = Some (UIdle (Some r))).
      { destruct c as [frame rq| | |]; try exact E. destruct r0 as [[f cl]|e|z]; exact E. }
      apply nth_upd_eq in E'. inversion E'; reflexivity.
    - intros E. apply nth_upd_eq in E. discriminate.
  Qed.

  (* the step of a thread inside (or starting) `UGet frame r` that completes the call with Ok (f, cl) *)
  Theorem ustep_class s t c0 frame r f cl :
    TI s -> step_call s t c0 = Some (UGet frame r) ->
    nth_error (m2_pool (fst (ustep g policy s t c0))) t = Some (UIdle (Some (Ok (f, cl)))) ->
    class_ok policy (r_class r) cl.
  Proof.
    intros H C E. unfold step_call in C. unfold ustep in E.
    destruct (nth_error (m2_pool s) t) as [[l|c p k|z c]|] eqn:Et; try discriminate.
    - inversion C; subst c0. cbn [fst] in E. apply settled_result in E.
      pose proof (settle_ok g policy (r_class r) (m2_up s) SETTLE (enter_call g (m2_up s) (UGet frame r))) as Q.
      rewrite E in Q. apply Q. cbn [enter_call]. apply enter_get_ok; [reflexivity|constructor].
    - inversion C; subst c. destruct (H _ _ _ _ _ Et) as [K P].
      pose proof (prim_step_ok g policy (r_class r) (m2_up s) p k P) as Q.
      destruct (prim_step g policy (m2_up s) p) as [[u' ev] o]. cbn [fst snd] in *.
      destruct o as [p'|v|z].
      + apply nth_upd_eq in E. discriminate.
      + apply settled_result in E.
        pose proof (settle_ok g policy (r_class r) u' SETTLE (ARet v k)) as Q'. rewrite E in Q'. apply Q'.
        split; assumption.
      + apply nth_upd_eq in E. discriminate.
  Qed.

  (* C13, concurrent: along every schedule from the initial state, whatever the memory and the policy *)
  Theorem conc_class : forall sch u held0 n,
    let s := urun g policy sch (uboot u held0 n) in
    forall t c0 frame r f cl,
      step_call s t c0 = Some (UGet frame r) ->
      nth_error (m2_pool (fst (ustep g policy s t c0))) t = Some (UIdle (Some (Ok (f, cl)))) ->
      class_ok policy (r_class r) cl.
  Proof.
    intros sch u held0 n s t c0 frame r f cl. apply ustep_class. apply urun_TI. apply uboot_TI.
  Qed.
End Run.

Print Assumptions ustep_TI.
Print Assumptions ustep_class.
Print Assumptions conc_class.

(* ================================ non-vacuity ================================ *)
(* Two threads, step by step alternately, on a 4-tree allocator (TREE_FRAMES = 256) whose trees are all of
   class 0: thread 0 asks for class 1 (the simple policy rates class 0 for a class-1 request as Steal),
   thread 1 for class 0.  After 14 rounds thread 1 is in the middle of its second call (about to
   compare-exchange its local slot) and the next step of thread 0 completes its call with Ok (0, 0): the
   reported class 0 differs from the requested class 1 and is permitted because policy 1 0 _ = Steal. *)
Module ClassExample.
  Definition g7 := {| hord := 7; tlog := 1 |}.
  Definition pol7 := pol_simple 256.
  Definition rq (o : nat) (c : N) (l : option N) : request := {| r_order := o; r_class := c; r_local := l |}.
  Definition U0 : upper :=
    match llfree_new g7 1024 IFreeAll [(0, 1); (1, 1)] 0 (free_all g7 1024) [] (repeat slot_none 16) with
    | Ok u => u
    | _ => {| low := free_all g7 0; trees := []; locals := []; dflt := 0 |}
    end.
  Definition cA := UGet None (rq 0 1 (Some 0)).
  Definition cB := UGet None (rq 0 0 (Some 0)).
  Definition alt (n : nat) : list (nat * ucall) := flat_map (fun _ => [(0%nat, cA); (1%nat, cB)]) (seq 0 n).
  Definition s14 := urun g7 pol7 (alt 14) (uboot U0 [] 2).

  Example conc_class_nonvacuous :
    step_call s14 0 cA = Some cA /\
    (exists p k, nth_error (m2_pool s14) 0 = Some (URun cA p k)) /\
    (exists p k, nth_error (m2_pool s14) 1 = Some (URun cB p k)) /\
    nth_error (m2_pool (fst (ustep g7 pol7 s14 0 cA))) 0 = Some (UIdle (Some (Ok (0, 0)))) /\
    pol7 1 0 1 = PSteal.
  Proof.
    split; [vm_compute; reflexivity|]. split; [eexists; eexists; vm_compute; reflexivity|].
    split; [eexists; eexists; vm_compute; reflexivity|]. split; vm_compute; reflexivity.
  Qed.

  (* the theorem applied to that step *)
  Example conc_class_instance : class_ok pol7 1 0.
  Proof.
    destruct conc_class_nonvacuous as (C & _ & _ & E & _).
    exact (conc_class g7 pol7 (alt 14) U0 [] 2 0%nat cA None (rq 0 1 (Some 0)) 0 0 C E).
  Qed.
End ClassExample.
