(* C21: every call of the lower allocator finishes in a bounded number of steps once it runs alone.
   Machine: LowerMachine.v (M1).  `solo g n s t` = n steps of thread t only.
   Proof: a measure `mu` on (memory, call, pc) with values in N such that EVERY step of a running thread,
   in every state (no invariant), settles the thread or strictly decreases `mu` (`step_dec`): loop
   indices count down with truncated subtraction, a CAS-retry pc carries one extra unit while its cached
   value differs from memory (a failed CAS replaces it by the value just observed).
   `mu <= boundN g` for program points whose rollback/fill indices are in range (`pc_ok`); `pc_ok` holds
   for every thread in every state reachable from `boot` under every schedule (`all_ok_run`).  It cannot
   be dropped (`pc_ok_needed`): in an arbitrary state a rollback index may be as large as the memory.
   Also: CAS-retry loops are left after <= 2 solo steps; the only panic that depends on another thread's
   progress is the bounded spin of partial_put_huge (PP3, finding D13) with a concrete witness. *)
From Coq Require Import PeanoNat ZifyBool.
From LLF Require Import Base Row Bitfield Lower LowerMachine.

(* ---------- the statement's vocabulary ---------- *)
Definition solo (g : geom) (n : nat) (s : mstate) (t : nat) : mstate :=
  Nat.iter n (fun s => fst (mstep g s t (CGet 0 0))) s.

Definition settled (s : mstate) (t : nat) : bool :=
  match nth_error (ms_pool s) t with Some (TRun _ _) => false | _ => true end.

Definition bound (g : geom) : nat :=
  (thuge_nat g * (5 * rows_nat g + 7) + 4 * rows_nat g + 15)%nat.

(* ---------- small arithmetic facts ---------- *)
Lemma pow2_pos k : 0 < pow2 k.
Proof. unfold pow2. apply N.neq_0_lt_0, N.pow_nonzero. discriminate. Qed.

Lemma pow2_le a b : (a <= b)%nat -> pow2 a <= pow2 b.
Proof. intros H. unfold pow2. apply N.pow_le_mono_r; [discriminate | lia]. Qed.

Lemma pow2_of_nat k : pow2 k = N.of_nat (Nat.pow 2 k).
Proof.
  unfold pow2. induction k.
  - reflexivity.
  - change (Nat.pow 2 (S k)) with (2 * Nat.pow 2 k)%nat.
    rewrite Nat2N.inj_mul, <- IHk, Nat2N.inj_succ, N.pow_succ_r'. reflexivity.
Qed.

Lemma THUGE_pow2 g : THUGE g = pow2 (tlog g). Proof. reflexivity. Qed.
Lemma THUGE_nat g : THUGE g = N.of_nat (thuge_nat g). Proof. apply pow2_of_nat. Qed.

Lemma ROWS_pow2 g : wf_geom g -> ROWS g = pow2 (hord g - 6).
Proof.
  intros (H6 & _). unfold ROWS, HF, pow2.
  replace (N.of_nat (hord g)) with (N.of_nat (hord g - 6) + 6) by lia.
  rewrite N.pow_add_r. change (2 ^ 6) with 64. apply N.div_mul. discriminate.
Qed.
Lemma ROWS_nat g : wf_geom g -> ROWS g = N.of_nat (rows_nat g).
Proof. intros H. rewrite (ROWS_pow2 g H). apply pow2_of_nat. Qed.

Lemma iter_S_r {A} (f : A -> A) n x : Nat.iter (S n) f x = Nat.iter n f (f x).
Proof. induction n; [reflexivity|]. change (f (Nat.iter (S n) f x) = f (Nat.iter n f (f x))). rewrite IHn. reflexivity. Qed.

(* remaining iterations after index b of a loop `for b in 0..a` (0 when b is out of range) *)
Definition rem (a b : N) : N := a - (b + 1).

Lemma rem_step a b w : b + 1 < a -> rem a b * w = rem a (b + 1) * w + w.
Proof.
  intros H. unfold rem. replace (a - (b + 1)) with (a - (b + 1 + 1) + 1) by lia.
  rewrite N.mul_add_distr_r. lia.
Qed.

Lemma rem_top a b w : 1 <= a -> rem a b * w + w <= a * w.
Proof.
  intros H. assert (E : (rem a b + 1) * w <= a * w) by (apply N.mul_le_mono_r; unfold rem; lia).
  rewrite N.mul_add_distr_r in E. lia.
Qed.

Lemma weighted_le a k o T M : a + 1 <= T -> k <= M -> o <= M -> a * k + o <= T * M.
Proof.
  intros Ha Hk Ho.
  assert (a * k <= a * M) by (apply N.mul_le_mono_l; exact Hk).
  assert ((a + 1) * M <= T * M) by (apply N.mul_le_mono_r; exact Ha).
  rewrite N.mul_add_distr_r in H0. lia.
Qed.

(* ---------- the shape of a step's result ---------- *)
Lemma pool_wr_row s h r v : ms_pool (wr_row s h r v) = ms_pool s.
Proof. unfold wr_row. destruct (nth_error (ms_bfs s) (nn h)); reflexivity. Qed.

Lemma nth_lt {A} (l : list A) i x : nth_error l i = Some x -> (i < length l)%nat.
Proof. intros H. apply nth_error_Some. rewrite H. discriminate. Qed.

Lemma pool_crash s s1 t c x : ms_pool s1 = ms_pool s ->
  ms_pool (crash s1 t c x) = upd (ms_pool s) t (TPanic x c).
Proof. intros Hp. unfold crash, set_thr. cbn [ms_pool]. rewrite Hp. reflexivity. Qed.
Lemma pool_finish s s1 t c r : ms_pool s1 = ms_pool s ->
  ms_pool (finish s1 t c r) = upd (ms_pool s) t (TIdle (Some r)).
Proof. intros Hp. unfold finish. destruct c, r; cbn [set_held set_thr ms_pool]; rewrite Hp; reflexivity. Qed.
Lemma pool_goto s s1 t c p' : ms_pool s1 = ms_pool s ->
  ms_pool (goto s1 t c p') = upd (ms_pool s) t (TRun c p').
Proof. intros Hp. unfold goto, set_thr. cbn [ms_pool]. rewrite Hp. reflexivity. Qed.

(* the other threads' entries are untouched *)
Definition frame (s : mstate) (t : nat) (s' : mstate) : Prop :=
  forall t', t' <> t -> nth_error (ms_pool s') t' = nth_error (ms_pool s) t'.
Lemma frame_upd s t s' x : ms_pool s' = upd (ms_pool s) t x -> frame s t s'.
Proof. intros E t' Hne. rewrite E. apply nth_error_upd_other. congruence. Qed.
Lemma frame_refl s t : frame s t s.
Proof. intros t' _. reflexivity. Qed.

Ltac pool := first [reflexivity | apply pool_wr_row].

Ltac use_eqs :=
  repeat match goal with
  | H : rd_ent _ _ = Some _ |- _ => rewrite H
  | H : rd_row _ _ _ = Some _ |- _ => rewrite H
  | H : (_ =? _) = _ |- _ => rewrite H
  | H : Nat.leb _ _ = _ |- _ => rewrite H
  end.

(* case analysis of a goal `P (fst (mstep ..))` along the branches of the step function *)
Ltac split_ifs :=
  repeat match goal with
  | |- _ (fst (_, _)) => cbn [fst]
  | |- _ (fst (match ?x with _ => _ end)) => destruct x eqn:?
  | |- _ (fst (if ?x then _ else _)) => destruct x eqn:?
  | |- _ (match ?x with _ => _ end) => destruct x eqn:?
  | |- _ (if ?x then _ else _) => destruct x eqn:?
  | |- _ (goto _ _ _ (if ?x then _ else _)) => destruct x eqn:?
  end.
Ltac branches :=
  split_ifs; unfold next_child, next_row, next_chunk, next_group, toggle_ok, toggle_fail, toggle_entry;
  split_ifs.

Section Progress.
  Variable g : geom.
  Notation TH := (THUGE g).
  Notation RW := (ROWS g).

  (* ---------- "the cached value of a CAS-retry pc is out of date" ---------- *)
  Definition stale_ent (s : mstate) (h v : N) : N :=
    match rd_ent s h with Some cur => if cur =? v then 0 else 1 | None => 0 end.
  Definition stale_row (s : mstate) (h r e : N) : N :=
    match rd_row s h r with Some cur => if cur =? e then 0 else 1 | None => 0 end.

  Definition stale (s : mstate) (c : call) (p : pc) : N :=
    match p with
    | G1C j v | G3C j v => stale_ent s (child_h g c j) v
    | G2C j i e => stale_row s (child_h g c j) ((i + c_start c mod RW) mod RW) e
    | A1C v | A3C v | PS2C v => stale_ent s (c_huge g c) v
    | TC x e => stale_row s (c_huge g c) (t_row g x c) e
    | _ => 0
    end.

  (* ---------- the state-independent part of the measure ---------- *)
  (* toggle in context x: tB = what may follow the toggle, tE = bound of its entry point *)
  Definition tEput (c : call) : N := 6 + 2 * t_nrows g XPut c.
  Definition tB (x : tctx) (c : call) : N :=
    match x with XSplit _ => tEput c + 1 + RETRIES | _ => 3 end.
  Definition tE (x : tctx) (c : call) : N := tB x c + 3 + 2 * t_nrows g x c.

  (* get, order < hord: offsets inside one child *)
  Definition CW (c : call) : N := 3 * c_nr c + 2.                               (* one chunk *)
  Definition oG2C (i : N) : N := 4 + 3 * rem RW i.
  Definition oG2L (i : N) : N := 4 + 3 * rem RW i + 2.
  Definition oG2U (c : call) (ch q : N) : N := 4 + rem (c_chunks g c) ch * CW c + 1 + q.
  Definition oG2W (c : call) (ch q : N) : N := 4 + rem (c_chunks g c) ch * CW c + 1 + q + 2 * (c_nr c - q).
  Definition oG2R (c : call) (ch q : N) : N :=
    4 + rem (c_chunks g c) ch * CW c + 2 + 2 * c_nr c + (c_nr c - q).
  Definition M2 (c : call) : N := if Nat.leb (c_order c) 6 then oG2L 0 else oG2R c 0 0.
  Definition KW (c : call) : N := M2 c + 3.                                     (* one child *)

  Definition GW (c : call) : N := 2 * c_hnum g c + 1.                           (* one cas_all group *)

  Definition base (c : call) (p : pc) : N :=
    match p with
    | G1L j => rem TH j * KW c + KW c
    | G1C j _ => rem TH j * KW c + M2 c + 1
    | G2L j i => rem TH j * KW c + oG2L i
    | G2C j i _ => rem TH j * KW c + oG2C i
    | G2R j ch q => rem TH j * KW c + oG2R c ch q
    | G2W j ch q => rem TH j * KW c + oG2W c ch q
    | G2U j ch q => rem TH j * KW c + oG2U c ch q
    | G3L j => rem TH j * KW c + 3
    | G3C j _ => rem TH j * KW c + 1
    | HC gi q => rem (group_cnt g c) gi * GW c + 1 + q + 2 * (c_hnum g c - q)
    | HU gi q => rem (group_cnt g c) gi * GW c + 1 + q
    | A1L => tE XGetAt c + 3
    | A1C _ => tE XGetAt c + 1
    | A3L => 3
    | A3C _ => 1
    | TL x => tB x c + 3
    | TC x _ => tB x c + 1
    | TN x => tB x c + 1
    | TW x q => tB x c + 1 + q + 2 * (t_nrows g x c - q)
    | TU x q => tB x c + 1 + q
    | P1 => tE (XSplit 0) c + 1
    | PP2 _ => tEput c + 1
    | PP3 i => tEput c + 1 + (RETRIES - i)
    | PS2L => 3
    | PS2C _ => 1
    end.

  Definition mu (s : mstate) (c : call) (p : pc) : N := base c p + stale s c p.

  (* ---------- program points whose loop indices are in range ---------- *)
  Definition small (c : call) : bool := Nat.ltb (c_order c) (hord g).
  Definition pc_ok (c : call) (p : pc) : bool :=
    match p with
    | HC _ q | HU _ q =>
        Nat.leb (hord g) (c_order c) && Nat.leb (c_order c) (tord g) && (q <? c_hnum g c)
    | G2W _ _ q | G2U _ _ q => small c && (q <? c_nr c)
    | TW x q | TU x q => small c && (q <? t_nrows g x c)
    | _ => small c
    end.

  Definition thread_ok (s : mstate) (t : nat) : Prop :=
    match nth_error (ms_pool s) t with Some (TRun c p) => pc_ok c p = true | _ => True end.

  (* ---------- one step: settles, or decreases mu and keeps pc_ok ---------- *)
  Definition dec (s : mstate) (t : nat) (c : call) (p : pc) (s' : mstate) : Prop :=
    frame s t s' /\
    (settled s' t = true \/
     exists p', nth_error (ms_pool s') t = Some (TRun c p') /\ mu s' c p' < mu s c p /\
                (pc_ok c p = true -> pc_ok c p' = true)).

  Lemma dec_crash s t c p s1 x : nth_error (ms_pool s) t = Some (TRun c p) ->
    ms_pool s1 = ms_pool s -> dec s t c p (crash s1 t c x).
  Proof.
    intros Hth Hp. pose proof (pool_crash s s1 t c x Hp) as E.
    split; [eapply frame_upd; exact E|]. left. unfold settled. rewrite E.
    rewrite nth_error_upd_same by (eapply nth_lt; exact Hth). reflexivity.
  Qed.

  Lemma dec_finish s t c p s1 r : nth_error (ms_pool s) t = Some (TRun c p) ->
    ms_pool s1 = ms_pool s -> dec s t c p (finish s1 t c r).
  Proof.
    intros Hth Hp. pose proof (pool_finish s s1 t c r Hp) as E.
    split; [eapply frame_upd; exact E|]. left. unfold settled.
    rewrite E, nth_error_upd_same by (eapply nth_lt; exact Hth). reflexivity.
  Qed.

  Lemma dec_goto s t c p s1 p' : nth_error (ms_pool s) t = Some (TRun c p) ->
    ms_pool s1 = ms_pool s -> mu s1 c p' < mu s c p ->
    (pc_ok c p = true -> pc_ok c p' = true) -> dec s t c p (goto s1 t c p').
  Proof.
    intros Hth Hp Hm Hk. pose proof (pool_goto s s1 t c p' Hp) as E.
    split; [eapply frame_upd; exact E|].
    right. exists p'. split; [|split; [exact Hm | exact Hk]].
    rewrite E. apply nth_error_upd_same. eapply nth_lt; exact Hth.
  Qed.

  Lemma rem_succ a b : b + 1 < a -> rem a b = rem a (b + 1) + 1.
  Proof. unfold rem. lia. Qed.

  (* facts about the loop weights for every loop test in the context *)
  Ltac loop_facts c :=
    repeat match goal with
    | H : (?b + 1 <? ?a) = true |- _ =>
        let H' := fresh "Hlt" in
        assert (H' : b + 1 < a) by (apply N.ltb_lt; exact H);
        pose proof (rem_succ a b H');
        pose proof (rem_step a b (KW c) H');
        pose proof (rem_step a b (CW c) H');
        pose proof (rem_step a b (GW c) H');
        clear H
    end.

  Ltac arith c :=
    unfold mu; cbn [base stale]; unfold stale_ent, stale_row; use_eqs; rewrite ?N.eqb_refl;
    assert (KW c = M2 c + 3) by reflexivity;
    assert (CW c = 3 * c_nr c + 2) by reflexivity;
    assert (GW c = 2 * c_hnum g c + 1) by reflexivity;
    assert (0 < c_nr c) by apply pow2_pos;
    assert (0 < pow2 (hord g - 6)) by apply pow2_pos;
    assert (0 < c_hnum g c) by apply pow2_pos;
    try match goal with
        | H : Nat.leb (c_order c) 6 = true |- _ =>
            assert (M2 c = oG2L 0) by (unfold M2; rewrite H; reflexivity)
        | H : Nat.leb (c_order c) 6 = false |- _ =>
            assert (M2 c = oG2R c 0 0) by (unfold M2; rewrite H; reflexivity)
        end;
    loop_facts c;
    unfold oG2L, oG2C, oG2R, oG2W, oG2U, tE, tB, tEput, RETRIES, c_nr in *;
    unfold t_nrows, t_order in *;
    lia.

  Ltac okk c :=
    cbn [pc_ok]; unfold small;
    assert (0 < pow2 (c_order c - 6)) by apply pow2_pos;
    assert (0 < pow2 (hord g - 6)) by apply pow2_pos;
    assert (0 < c_hnum g c) by apply pow2_pos;
    unfold c_nr in *; unfold t_nrows, t_order in *;
    lia.

  Ltac leaf c :=
    lazymatch goal with
    | |- dec _ _ _ _ (crash _ _ _ _) => eapply dec_crash; [eassumption | pool]
    | |- dec _ _ _ _ (finish _ _ _ _) => eapply dec_finish; [eassumption | pool]
    | |- dec _ _ _ _ (goto _ _ _ _) => eapply dec_goto; [eassumption | pool | arith c | okk c]
    end.

  Lemma step_dec s t c p c0 : nth_error (ms_pool s) t = Some (TRun c p) ->
    dec s t c p (fst (mstep g s t c0)).
  Proof.
    intros Hth. unfold mstep. rewrite Hth.
    destruct p; cbv beta iota zeta.
    all: try (destruct x).
    all: branches.
    all: leaf c.
  Qed.

  (* ---------- the measure is positive, so it counts the remaining steps ---------- *)
  Lemma stale_le1 s c p : stale s c p <= 1.
  Proof.
    destruct p; cbn [stale]; unfold stale_ent, stale_row; try lia;
      match goal with |- context [match ?x with _ => _ end] => destruct x end; try lia;
      match goal with |- context [if ?x then _ else _] => destruct x end; lia.
  Qed.

  Lemma mu_pos s c p : 1 <= mu s c p.
  Proof.
    unfold mu. assert (1 <= base c p); [|lia].
    destruct p; cbn [base]; unfold KW, oG2L, oG2C, oG2R, oG2W, oG2U, tE, tB; lia.
  Qed.

  Lemma solo_S n s t : solo g (S n) s t = solo g n (fst (mstep g s t (CGet 0 0))) t.
  Proof. exact (iter_S_r (fun s => fst (mstep g s t (CGet 0 0))) n s). Qed.

  Lemma solo_mu t : forall m s c p, nth_error (ms_pool s) t = Some (TRun c p) ->
    mu s c p <= N.of_nat m -> exists n, (n <= m)%nat /\ settled (solo g n s t) t = true.
  Proof.
    induction m; intros s c p Hth Hm.
    - pose proof (mu_pos s c p). lia.
    - destruct (step_dec s t c p (CGet 0 0) Hth) as [_ [Hs | (p' & Hth' & Hlt & _)]].
      + exists 1%nat. split; [lia|]. exact Hs.
      + destruct (IHm _ c p' Hth') as (n & Hn & Hset); [lia|].
        exists (S n). split; [lia|]. rewrite solo_S. exact Hset.
  Qed.

  (* ---------- the closed-form bound ---------- *)
  Definition boundN : N := TH * (5 * RW + 7) + 4 * RW + 15.

  Hypothesis WF : wf_geom g.

  Lemma bound_boundN : N.of_nat (bound g) = boundN.
  Proof.
    unfold bound, boundN. rewrite (THUGE_nat g), (ROWS_nat g WF). lia.
  Qed.

  Lemma RW_ge1 : 1 <= RW.
  Proof. rewrite (ROWS_pow2 g WF). pose proof (pow2_pos (hord g - 6)). lia. Qed.
  Lemma TH_ge1 : 1 <= TH.
  Proof. rewrite THUGE_pow2. pose proof (pow2_pos (tlog g)). lia. Qed.

  Lemma small_nr c : small c = true -> c_nr c <= RW.
  Proof.
    unfold small. intros H. apply Nat.ltb_lt in H. rewrite (ROWS_pow2 g WF). unfold c_nr.
    apply pow2_le. lia.
  Qed.

  Lemma chunks_facts c : small c = true ->
    1 <= c_chunks g c /\ c_chunks g c * c_nr c <= RW /\ c_chunks g c <= RW.
  Proof.
    intros H. pose proof (small_nr c H). assert (0 < c_nr c) by apply pow2_pos.
    unfold c_chunks. repeat split.
    - assert (0 < RW / c_nr c) by (apply N.div_str_pos; lia). lia.
    - rewrite N.mul_comm. apply N.mul_div_le. lia.
    - apply N.div_le_upper_bound; [lia|]. nia.
  Qed.

  Lemma chunk_off_le c ch x : small c = true -> x <= CW c ->
    4 + rem (c_chunks g c) ch * CW c + x <= 5 * RW + 4.
  Proof.
    intros H Hx. destruct (chunks_facts c H) as (H1 & H2 & H3).
    pose proof (rem_top (c_chunks g c) ch (CW c) H1).
    assert (c_chunks g c * CW c = 3 * (c_chunks g c * c_nr c) + 2 * c_chunks g c) by (unfold CW; lia).
    lia.
  Qed.

  Lemma M2_le c : small c = true -> M2 c <= 5 * RW + 4.
  Proof.
    intros H. unfold M2. destruct (Nat.leb (c_order c) 6).
    - unfold oG2L, rem. pose proof RW_ge1. lia.
    - unfold oG2R. pose proof (chunk_off_le c 0 (CW c) H ltac:(lia)). unfold CW in *. lia.
  Qed.

  Lemma get_small_le c j o : small c = true -> o <= 5 * RW + 7 -> rem TH j * KW c + o <= boundN.
  Proof.
    intros H Ho. pose proof (M2_le c H). pose proof TH_ge1.
    assert (rem TH j * KW c + o <= TH * (5 * RW + 7)).
    { apply weighted_le; [unfold rem; lia | unfold KW; lia | exact Ho]. }
    unfold boundN. lia.
  Qed.

  Lemma tnrows_le x c : small c = true -> t_nrows g x c <= RW.
  Proof.
    unfold small. intros H. apply Nat.ltb_lt in H. rewrite (ROWS_pow2 g WF). unfold t_nrows.
    apply pow2_le. destruct x; cbn [t_order]; lia.
  Qed.

  Lemma huge_facts c : Nat.leb (hord g) (c_order c) = true -> Nat.leb (c_order c) (tord g) = true ->
    1 <= group_cnt g c /\ group_cnt g c * GW c <= 3 * TH.
  Proof.
    intros H1 H2. apply Nat.leb_le in H1, H2. unfold tord in H2.
    assert (Hh : c_hnum g c <= TH) by (rewrite THUGE_pow2; unfold c_hnum; apply pow2_le; lia).
    assert (0 < c_hnum g c) by apply pow2_pos.
    unfold GW. destruct c; cbn [group_cnt]; try lia.
    assert (0 < TH / c_hnum g (CGet start order)) by (apply N.div_str_pos; lia).
    pose proof (N.mul_div_le TH (c_hnum g (CGet start order)) ltac:(lia)).
    assert (TH / c_hnum g (CGet start order) <= TH) by (apply N.div_le_upper_bound; [lia|nia]).
    split; [lia|]. nia.
  Qed.

  Lemma boundN_ge : 9 * RW + 22 <= boundN /\ 3 * TH <= boundN.
  Proof.
    pose proof TH_ge1. unfold boundN.
    assert (1 * (5 * RW + 7) <= TH * (5 * RW + 7)) by (apply N.mul_le_mono_r; lia).
    split; lia.
  Qed.

  Lemma mu_bound s c p : pc_ok c p = true -> mu s c p <= boundN.
  Proof.
    intros Hok. unfold mu. pose proof (stale_le1 s c p) as Hst.
    pose proof RW_ge1 as HR. pose proof TH_ge1 as HT. destruct boundN_ge as [HB1 HB2].
    destruct p; cbn [pc_ok] in Hok; cbn [base].
    all: try (apply andb_true_iff in Hok; destruct Hok as [Hok Hq]; apply N.ltb_lt in Hq).
    1-9: pose proof (M2_le c Hok); rewrite <- ?N.add_assoc; apply get_small_le; [exact Hok|].
    1-9: unfold KW, oG2L, oG2C, oG2R, oG2W, oG2U in *; cbn [stale] in *.
    1-9: try match goal with |- context [rem (c_chunks g ?cc) ?ch * CW ?cc] =>
               pose proof (chunk_off_le cc ch (CW cc) Hok (N.le_refl _)) end.
    1-9: unfold CW, rem in *; lia.
    1-2: apply andb_true_iff in Hok; destruct Hok as [Ho1 Ho2];
         destruct (huge_facts c Ho1 Ho2) as [Hg1 Hg2];
         match goal with |- context [rem (group_cnt g ?cc) ?gi * GW ?cc] =>
           pose proof (rem_top (group_cnt g cc) gi (GW cc) Hg1) end;
         cbn [stale]; unfold GW in *; lia.
    all: pose proof (tnrows_le XPut c Hok); pose proof (tnrows_le XGetAt c Hok);
         pose proof (tnrows_le (XSplit 0) c Hok).
    all: try (pose proof (tnrows_le x c Hok); destruct x).
    all: unfold tE, tB, tEput, RETRIES in *; cbn [stale] in *; lia.
  Qed.

  (* ---------- C21: a call that runs alone finishes within `bound g` steps ---------- *)
  Theorem solo_terminates s t : thread_ok s t ->
    exists n, (n <= bound g)%nat /\ settled (solo g n s t) t = true.
  Proof.
    intros Hok. unfold thread_ok in Hok.
    destruct (nth_error (ms_pool s) t) as [[r | c p | x c]|] eqn:Hth.
    2: { apply (solo_mu t (bound g) s c p Hth). rewrite bound_boundN. apply mu_bound. exact Hok. }
    all: exists 0%nat; split; [lia|]; change (solo g 0 s t) with s; unfold settled; rewrite Hth; reflexivity.
  Qed.

  (* ---------- pc_ok holds for every thread of every reachable state ---------- *)
  Definition all_ok (s : mstate) : Prop := forall t, thread_ok s t.

  Lemma entry_ok s c0 : call_ok g s c0 = true -> pc_ok c0 (entry_pc g c0) = true.
  Proof.
    unfold call_ok. intros H. apply andb_true_iff in H. destruct H as [H _].
    assert (0 < c_hnum g c0) by apply pow2_pos.
    unfold entry_pc.
    destruct c0; cbn [c_order] in *; destruct (Nat.leb (hord g) order) eqn:E; cbn [pc_ok];
      unfold small; cbn [c_order]; lia.
  Qed.

  Lemma thread_ok_upd s s' u x t : ms_pool s' = upd (ms_pool s) u x ->
    match x with TRun c p => pc_ok c p = true | _ => True end -> thread_ok s t -> thread_ok s' t.
  Proof.
    intros E Hx Ht. unfold thread_ok in *. rewrite E. destruct (Nat.eq_dec t u) as [->|Hne].
    - destruct (nth_error (ms_pool s) u) eqn:En.
      + rewrite nth_error_upd_same by (eapply nth_lt; exact En). exact Hx.
      + rewrite upd_oob by (apply nth_error_None; exact En). rewrite En. exact I.
    - rewrite nth_error_upd_other by congruence. exact Ht.
  Qed.

  Lemma all_ok_step s u c0 : all_ok s -> all_ok (fst (mstep g s u c0)).
  Proof.
    intros Hall t. destruct (nth_error (ms_pool s) u) as [[r|c p|x c]|] eqn:Hu.
    - unfold mstep. rewrite Hu. destruct (call_ok g s c0) eqn:Hc; [|apply Hall].
      destruct c0 as [st o|f o|f o]; try destruct (client_take (ms_held s) f o); cbn [fst]; try apply Hall.
      all: eapply thread_ok_upd;
        [apply pool_goto with (s := s); reflexivity | apply entry_ok with s; exact Hc | apply Hall].
    - destruct (step_dec s u c p c0 Hu) as [Hf Hd]. unfold thread_ok.
      destruct (Nat.eq_dec t u) as [->|Hne].
      + destruct Hd as [Hs | (p' & Hp' & _ & Hk)].
        * unfold settled in Hs. destruct (nth_error (ms_pool (fst (mstep g s u c0))) u) as [[| |]|];
            try exact I. discriminate.
        * rewrite Hp'. apply Hk. pose proof (Hall u) as Hu'. unfold thread_ok in Hu'.
          rewrite Hu in Hu'. exact Hu'.
      + rewrite (Hf t Hne). apply Hall.
    - unfold mstep. rewrite Hu. apply Hall.
    - unfold mstep. rewrite Hu. apply Hall.
  Qed.

  Lemma all_ok_run sch : forall s, all_ok s -> all_ok (mrun g sch s).
  Proof.
    induction sch as [|[u c0] sch IH]; intros s H; [exact H|].
    unfold mrun in *. cbn [fold_left fst snd]. apply IH, all_ok_step, H.
  Qed.

  Lemma all_ok_boot l h n : all_ok (boot l h n).
  Proof.
    intros t. unfold thread_ok, boot. cbn [ms_pool].
    destruct (nth_error (repeat (TIdle None) n) t) eqn:E; [|exact I].
    apply nth_error_In, repeat_spec in E. subst. exact I.
  Qed.

  Lemma thread_ok_reachable sch l h n t : thread_ok (mrun g sch (boot l h n)) t.
  Proof. apply all_ok_run, all_ok_boot. Qed.

  Theorem reachable_solo_terminates l h n sch t :
    exists k, (k <= bound g)%nat /\ settled (solo g k (mrun g sch (boot l h n)) t) t = true.
  Proof. apply solo_terminates. apply all_ok_run, all_ok_boot. Qed.
End Progress.

(* ---------- CAS-retry loops: left after at most two solo steps ---------- *)
Section Retry.
  Variable g : geom.

  (* constructor and loop indices of a CAS program point of a `try_update` loop *)
  Definition retry_site (p : pc) : option (nat * N * N) :=
    match p with
    | G1C j _ => Some (1%nat, j, 0)
    | G2C j i _ => Some (2%nat, j, i)
    | G3C j _ => Some (3%nat, j, 0)
    | A1C _ => Some (4%nat, 0, 0)
    | A3C _ => Some (5%nat, 0, 0)
    | TC _ _ => Some (6%nat, 0, 0)
    | PS2C _ => Some (7%nat, 0, 0)
    | _ => None
    end.
  Definition at_site (s : mstate) (t : nat) (k : nat * N * N) : Prop :=
    exists c p, nth_error (ms_pool s) t = Some (TRun c p) /\ retry_site p = Some k.

  (* if the thread is still at the same CAS after a step, its cached value was stale and is now current *)
  Definition rty (s : mstate) (t : nat) (c : call) (p : pc) (k : nat * N * N) (s' : mstate) : Prop :=
    forall c' p', nth_error (ms_pool s') t = Some (TRun c' p') -> retry_site p' = Some k ->
      c' = c /\ stale g s' c p' = 0 /\ stale g s c p = 1.

  Lemma rty_crash s t c p k s1 x : nth_error (ms_pool s) t = Some (TRun c p) ->
    ms_pool s1 = ms_pool s -> rty s t c p k (crash s1 t c x).
  Proof.
    intros Hth Hp c' p' H _. rewrite (pool_crash s s1 t c x Hp) in H.
    rewrite nth_error_upd_same in H by (eapply nth_lt; exact Hth). discriminate.
  Qed.
  Lemma rty_finish s t c p k s1 r : nth_error (ms_pool s) t = Some (TRun c p) ->
    ms_pool s1 = ms_pool s -> rty s t c p k (finish s1 t c r).
  Proof.
    intros Hth Hp c' p' H _. rewrite (pool_finish s s1 t c r Hp) in H.
    rewrite nth_error_upd_same in H by (eapply nth_lt; exact Hth). discriminate.
  Qed.
  Lemma rty_goto s t c p k s1 p1 : nth_error (ms_pool s) t = Some (TRun c p) ->
    ms_pool s1 = ms_pool s -> (retry_site p1 = Some k -> stale g s1 c p1 = 0 /\ stale g s c p = 1) ->
    rty s t c p k (goto s1 t c p1).
  Proof.
    intros Hth Hp Hk c' p' H K. rewrite (pool_goto s s1 t c p1 Hp) in H.
    rewrite nth_error_upd_same in H by (eapply nth_lt; exact Hth).
    injection H as <- <-. split; [reflexivity|]. exact (Hk K).
  Qed.

  Ltac rleaf :=
    lazymatch goal with
    | |- rty _ _ _ _ _ (crash _ _ _ _) => eapply rty_crash; [eassumption | pool]
    | |- rty _ _ _ _ _ (finish _ _ _ _) => eapply rty_finish; [eassumption | pool]
    | |- rty _ _ _ _ _ (goto _ _ _ _) =>
        eapply rty_goto; [eassumption | pool |];
        cbn [retry_site stale]; intros Hsite; try discriminate Hsite;
        unfold stale_ent, stale_row; use_eqs; rewrite ?N.eqb_refl; split; reflexivity
    end.

  Lemma retry_step s t c p k c0 : nth_error (ms_pool s) t = Some (TRun c p) -> retry_site p = Some k ->
    rty s t c p k (fst (mstep g s t c0)).
  Proof.
    intros Hth Hk. unfold mstep. rewrite Hth.
    destruct p; try discriminate Hk; cbv beta iota zeta.
    all: try (destruct x).
    all: branches.
    all: rleaf.
  Qed.

  Lemma site_eq_dec (a b : option (nat * N * N)) : {a = b} + {a <> b}.
  Proof. repeat decide equality. Qed.

  Theorem retry_loops_bounded s t c p k :
    nth_error (ms_pool s) t = Some (TRun c p) -> retry_site p = Some k ->
    ~ at_site (solo g 1 s t) t k \/ ~ at_site (solo g 2 s t) t k.
  Proof.
    intros Hth Hk.
    change (solo g 2 s t) with (fst (mstep g (solo g 1 s t) t (CGet 0 0))).
    pose proof (retry_step s t c p k (CGet 0 0) Hth Hk) as R1.
    change (fst (mstep g s t (CGet 0 0))) with (solo g 1 s t) in R1.
    set (s1 := solo g 1 s t) in *.
    destruct (nth_error (ms_pool s1) t) as [[r|c1 p1|x c1]|] eqn:H1.
    2: destruct (site_eq_dec (retry_site p1) (Some k)) as [K1|K1].
    2: { right. destruct (R1 c1 p1 H1 K1) as (-> & Hs0 & _).
         intros (c2 & p2 & H2 & K2).
         destruct (retry_step s1 t c p1 k (CGet 0 0) H1 K1 c2 p2 H2 K2) as (_ & _ & Hs1). lia. }
    all: left; intros (c' & p' & H & K); rewrite H1 in H; try discriminate H.
    injection H as <- <-. contradiction.
  Qed.

  (* ---------- the only panic that waits for another thread ---------- *)
  Definition wt (s : mstate) (t : nat) (c : call) (p : pc) (s' : mstate) : Prop :=
    forall c', nth_error (ms_pool s') t = Some (TPanic SExceedingRetries c') -> exists i, p = PP3 i.

  Lemma wt_crash s t c p s1 x : nth_error (ms_pool s) t = Some (TRun c p) ->
    ms_pool s1 = ms_pool s -> (x = SExceedingRetries -> exists i, p = PP3 i) -> wt s t c p (crash s1 t c x).
  Proof.
    intros Hth Hp Hx c' H. rewrite (pool_crash s s1 t c x Hp) in H.
    rewrite nth_error_upd_same in H by (eapply nth_lt; exact Hth). injection H as -> _. apply Hx. reflexivity.
  Qed.
  Lemma wt_finish s t c p s1 r : nth_error (ms_pool s) t = Some (TRun c p) ->
    ms_pool s1 = ms_pool s -> wt s t c p (finish s1 t c r).
  Proof.
    intros Hth Hp c' H. rewrite (pool_finish s s1 t c r Hp) in H.
    rewrite nth_error_upd_same in H by (eapply nth_lt; exact Hth). discriminate.
  Qed.
  Lemma wt_goto s t c p s1 p1 : nth_error (ms_pool s) t = Some (TRun c p) ->
    ms_pool s1 = ms_pool s -> wt s t c p (goto s1 t c p1).
  Proof.
    intros Hth Hp c' H. rewrite (pool_goto s s1 t c p1 Hp) in H.
    rewrite nth_error_upd_same in H by (eapply nth_lt; exact Hth). discriminate.
  Qed.

  Ltac wleaf :=
    lazymatch goal with
    | |- wt _ _ _ _ (crash _ _ _ _) =>
        eapply wt_crash; [eassumption | pool | intros Hx; first [discriminate Hx | eexists; reflexivity]]
    | |- wt _ _ _ _ (finish _ _ _ _) => eapply wt_finish; [eassumption | pool]
    | |- wt _ _ _ _ (goto _ _ _ _) => eapply wt_goto; [eassumption | pool]
    end.

  Theorem exceeding_retries_only_PP3 s t c p c0 c' :
    nth_error (ms_pool s) t = Some (TRun c p) ->
    nth_error (ms_pool (fst (mstep g s t c0))) t = Some (TPanic SExceedingRetries c') ->
    exists i, p = PP3 i.
  Proof.
    intros Hth. revert c'. change (wt s t c p (fst (mstep g s t c0))).
    unfold mstep. rewrite Hth.
    destruct p; cbv beta iota zeta.
    all: try (destruct x).
    all: branches.
    all: wleaf.
  Qed.
End Retry.

(* ---------- D13: the bounded spin of partial_put_huge (lower.rs:469-470) ---------- *)
Definition g7 : geom := {| hord := 7; tlog := 1 |}.
(* thread 0: put(0,0) into an allocated huge frame: loads the marker, fills both rows, stops before its CAS;
   thread 1: put(1,0) into the same huge frame: loads the marker, fails to fill row 0, starts to spin *)
Definition kw_sch : list (nat * call) :=
  [(0%nat, CPut 0 0); (0%nat, CPut 0 0); (0%nat, CPut 0 0); (0%nat, CPut 0 0);
   (1%nat, CPut 1 0); (1%nat, CPut 1 0); (1%nat, CPut 1 0)].

Theorem known_wait :
  exists (g : geom) (sch : list (nat * call)) (c : call),
    wf_geom g /\
    let s := mrun g sch (boot (reserve_all g 256) (alloc_all_held g 256) 2) in
    held_ok s = true /\
    nth_error (ms_pool s) 1 = Some (TRun c (PP3 0)) /\
    rd_ent s (c_huge g c) = Some MARK /\
    nth_error (ms_pool s) 0 = Some (TRun (CPut 0 0) (PP2 MARK)) /\
    (* alone, thread 1 panics after RETRIES loads *)
    nth_error (ms_pool (solo g 4 s 1)) 1 = Some (TPanic SExceedingRetries c) /\
    (* after one step of thread 0 (its CAS), the same call of thread 1 completes *)
    nth_error (ms_pool (solo g 5 (fst (mstep g s 0 c)) 1)) 1 = Some (TIdle (Some (Ok 0))).
Proof.
  exists g7, kw_sch, (CPut 1 0). split; [unfold wf_geom; cbn; lia|].
  vm_compute. repeat split; reflexivity.
Qed.

(* ---------- non-vacuity ---------- *)
Definition g92 : geom := {| hord := 9; tlog := 2 |}.

(* number of solo steps until thread t is settled *)
Fixpoint solo_steps (g : geom) (fuel : nat) (s : mstate) (t : nat) : option nat :=
  if settled s t then Some 0%nat else
  match fuel with
  | O => None
  | S f => option_map S (solo_steps g f (fst (mstep g s t (CGet 0 0))) t)
  end.

(* get(order 0) on a fresh allocator: start, load + CAS of the counter, load + CAS of the row *)
Example solo_get_ok :
  let s := boot (free_all g92 1024) [] 2 in
  map (fun n => settled (solo g92 n s 0) 0) [1; 2; 3; 4; 5]%nat = [false; false; false; false; true] /\
  nth_error (ms_pool (solo g92 5 s 0)) 0 = Some (TIdle (Some (Ok 0))).
Proof. vm_compute. split; reflexivity. Qed.

(* thread 0 has loaded row 0 and is about to CAS it; thread 1 allocates frame 0 in between:
   thread 0's CAS fails once, is retried with the value it observed, and succeeds *)
Example solo_mid_race :
  let s := mrun g92 [(0%nat, CGet 0 0); (0%nat, CGet 0 0); (0%nat, CGet 0 0); (0%nat, CGet 0 0);
                     (1%nat, CGet 0 0); (1%nat, CGet 0 0); (1%nat, CGet 0 0); (1%nat, CGet 0 0);
                     (1%nat, CGet 0 0)] (boot (free_all g92 1024) [] 2) in
  nth_error (ms_pool s) 0 = Some (TRun (CGet 0 0) (G2C 0 0 0)) /\
  nth_error (ms_pool s) 1 = Some (TIdle (Some (Ok 0))) /\
  nth_error (ms_pool (solo g92 1 s 0)) 0 = Some (TRun (CGet 0 0) (G2C 0 0 1)) /\
  nth_error (ms_pool (solo g92 2 s 0)) 0 = Some (TIdle (Some (Ok 1))).
Proof. vm_compute. repeat split; reflexivity. Qed.

(* worst cases found for HUGE_ORDER 9, TREE_HUGE 4 (bound 235): counters promise free frames that
   the bitfields do not have (possible in a race), so every child is searched and undone *)
Definition adversary (o : nat) (row : list N) : mstate :=
  {| ms_frames := 2048; ms_ents := repeat 512 4; ms_bfs := repeat row 4;
     ms_pool := [TRun (CGet 0 o) (G1L 0)]; ms_held := [] |}.
Example worst_cases :
  solo_steps g92 300 (adversary 0 (repeat MAX64 8)) 0 = Some 48%nat /\
  solo_steps g92 300 (adversary 7 [0; 1; 0; 1; 0; 1; 0; 1]) 0 = Some 48%nat /\
  solo_steps g92 300 (adversary 8 [0; 0; 0; 1; 0; 0; 0; 1]) 0 = Some 48%nat /\
  bound g92 = 235%nat /\ bound g7 = 57%nat /\ bound {| hord := 9; tlog := 3 |} = 423%nat.
Proof. vm_compute. repeat split; reflexivity. Qed.

(* `thread_ok` cannot be dropped: with a rollback index beyond the group size (no reachable state has
   one) the rollback of compare_exchange_all walks over as many entries as the memory has *)
Definition g60 : geom := {| hord := 6; tlog := 0 |}.
Example pc_ok_needed :
  let s := {| ms_frames := 3200; ms_ents := repeat 64 50; ms_bfs := [];
              ms_pool := [TRun (CPut 0 6) (HU 0 45)]; ms_held := [] |} in
  bound g60 = 31%nat /\ solo_steps g60 100 s 0 = Some 46%nat.
Proof. vm_compute. split; reflexivity. Qed.
