(* C21: every call of the lower allocator finishes in a bounded number of steps once it runs alone.
   Machine: LowerMachine.v (M1).  `solo g n s t` = n steps of thread t only.
   Proof: a measure `mu` on (memory, call, pc) with values in N that strictly decreases with every step
   of a running thread (for EVERY state, no invariant), a closed-form bound of `mu` for program points
   whose loop indices are in range (`pc_ok`, an invariant of every thread under every schedule), hence
   a bound on the number of solo steps that depends on the geometry only. *)
From Coq Require Import PeanoNat ZifyBool.
From LLF Require Import Base Row Bitfield Lower LowerMachine.

(* ---------- the statement's vocabulary ---------- *)
Definition solo (g : geom) (n : nat) (s : mstate) (t : nat) : mstate :=
  Nat.iter n (fun s => fst (mstep g s t (CGet 0 0))) s.

Definition settled (s : mstate) (t : nat) : bool :=
  match nth_error (ms_pool s) t with Some (TRun _ _) => false | _ => true end.

Definition bound (g : geom) : nat :=
  (thuge_nat g * (5 * rows_nat g + 7) + 4 * rows_nat g + 15)%nat.

(* ---------- small arithmetic facts ---------- *)
Lemma pow2_pos k : 0 < pow2 k.
Proof. unfold pow2. apply N.neq_0_lt_0, N.pow_nonzero. discriminate. Qed.

Lemma pow2_le a b : (a <= b)%nat -> pow2 a <= pow2 b.
Proof. intros H. unfold pow2. apply N.pow_le_mono_r; [discriminate | lia]. Qed.

Lemma pow2_of_nat k : pow2 k = N.of_nat (Nat.pow 2 k).
Proof.
  unfold pow2. induction k.
  - reflexivity.
  - change (Nat.pow 2 (S k)) with (2 * Nat.pow 2 k)%nat.
    rewrite Nat2N.inj_mul, <- IHk, Nat2N.inj_succ, N.pow_succ_r'. reflexivity.
Qed.

Lemma THUGE_pow2 g : THUGE g = pow2 (tlog g). Proof. reflexivity. Qed.
Lemma THUGE_nat g : THUGE g = N.of_nat (thuge_nat g). Proof. apply pow2_of_nat. Qed.

Lemma ROWS_pow2 g : wf_geom g -> ROWS g = pow2 (hord g - 6).
Proof.
  intros (H6 & _). unfold ROWS, HF, pow2.
  replace (N.of_nat (hord g)) with (N.of_nat (hord g - 6) + 6) by lia.
  rewrite N.pow_add_r. change (2 ^ 6) with 64. apply N.div_mul. discriminate.
Qed.
Lemma ROWS_nat g : wf_geom g -> ROWS g = N.of_nat (rows_nat g).
Proof. intros H. rewrite (ROWS_pow2 g H). apply pow2_of_nat. Qed.

Lemma iter_S_r {A} (f : A -> A) n x : Nat.iter (S n) f x = Nat.iter n f (f x).
Proof. induction n; [reflexivity|]. change (f (Nat.iter (S n) f x) = f (Nat.iter n f (f x))). rewrite IHn. reflexivity. Qed.

(* remaining iterations after index b of a loop `for b in 0..a` (0 when b is out of range) *)
Definition rem (a b : N) : N := a - (b + 1).

Lemma rem_step a b w : b + 1 < a -> rem a b * w = rem a (b + 1) * w + w.
Proof.
  intros H. unfold rem. replace (a - (b + 1)) with (a - (b + 1 + 1) + 1) by lia.
  rewrite N.mul_add_distr_r. lia.
Qed.

Lemma rem_top a b w : 1 <= a -> rem a b * w + w <= a * w.
Proof.
  intros H. assert (E : (rem a b + 1) * w <= a * w) by (apply N.mul_le_mono_r; unfold rem; lia).
  rewrite N.mul_add_distr_r in E. lia.
Qed.

Lemma weighted_le a k o T M : a + 1 <= T -> k <= M -> o <= M -> a * k + o <= T * M.
Proof.
  intros Ha Hk Ho.
  assert (a * k <= a * M) by (apply N.mul_le_mono_l; exact Hk).
  assert ((a + 1) * M <= T * M) by (apply N.mul_le_mono_r; exact Ha).
  rewrite N.mul_add_distr_r in H0. lia.
Qed.

Section Progress.
  Variable g : geom.
  Notation TH := (THUGE g).
  Notation RW := (ROWS g).

  (* ---------- "the cached value of a CAS-retry pc is out of date" ---------- *)
  Definition stale_ent (s : mstate) (h v : N) : N :=
    match rd_ent s h with Some cur => if cur =? v then 0 else 1 | None => 0 end.
  Definition stale_row (s : mstate) (h r e : N) : N :=
    match rd_row s h r with Some cur => if cur =? e then 0 else 1 | None => 0 end.

  Definition stale (s : mstate) (c : call) (p : pc) : N :=
    match p with
    | G1C j v | G3C j v => stale_ent s (child_h g c j) v
    | G2C j i e => stale_row s (child_h g c j) ((i + c_start c mod RW) mod RW) e
    | A1C v | A3C v | PS2C v => stale_ent s (c_huge g c) v
    | TC x e => stale_row s (c_huge g c) (t_row g x c) e
    | _ => 0
    end.

  (* ---------- the state-independent part of the measure ---------- *)
  (* toggle in context x: tB = what may follow the toggle, tE = bound of its entry point *)
  Definition tEput (c : call) : N := 6 + 2 * t_nrows g XPut c.
  Definition tB (x : tctx) (c : call) : N :=
    match x with XSplit _ => tEput c + 1 + RETRIES | _ => 3 end.
  Definition tE (x : tctx) (c : call) : N := tB x c + 3 + 2 * t_nrows g x c.

  (* get, order < hord: offsets inside one child *)
  Definition CW (c : call) : N := 3 * c_nr c + 2.                               (* one chunk *)
  Definition oG2C (i : N) : N := 4 + 3 * rem RW i.
  Definition oG2L (i : N) : N := 4 + 3 * rem RW i + 2.
  Definition oG2U (c : call) (ch q : N) : N := 4 + rem (c_chunks g c) ch * CW c + 1 + q.
  Definition oG2W (c : call) (ch q : N) : N := 4 + rem (c_chunks g c) ch * CW c + 1 + q + 2 * (c_nr c - q).
  Definition oG2R (c : call) (ch q : N) : N :=
    4 + rem (c_chunks g c) ch * CW c + 2 + 2 * c_nr c + (c_nr c - q).
  Definition M2 (c : call) : N := if Nat.leb (c_order c) 6 then oG2L 0 else oG2R c 0 0.
  Definition KW (c : call) : N := M2 c + 3.                                     (* one child *)

  Definition GW (c : call) : N := 2 * c_hnum g c + 1.                           (* one cas_all group *)

  Definition base (c : call) (p : pc) : N :=
    match p with
    | G1L j => rem TH j * KW c + KW c
    | G1C j _ => rem TH j * KW c + M2 c + 1
    | G2L j i => rem TH j * KW c + oG2L i
    | G2C j i _ => rem TH j * KW c + oG2C i
    | G2R j ch q => rem TH j * KW c + oG2R c ch q
    | G2W j ch q => rem TH j * KW c + oG2W c ch q
    | G2U j ch q => rem TH j * KW c + oG2U c ch q
    | G3L j => rem TH j * KW c + 3
    | G3C j _ => rem TH j * KW c + 1
    | HC gi q => rem (group_cnt g c) gi * GW c + 1 + q + 2 * (c_hnum g c - q)
    | HU gi q => rem (group_cnt g c) gi * GW c + 1 + q
    | A1L => tE XGetAt c + 3
    | A1C _ => tE XGetAt c + 1
    | A3L => 3
    | A3C _ => 1
    | TL x => tB x c + 3
    | TC x _ => tB x c + 1
    | TN x => tB x c + 1
    | TW x q => tB x c + 1 + q + 2 * (t_nrows g x c - q)
    | TU x q => tB x c + 1 + q
    | P1 => tE (XSplit 0) c + 1
    | PP2 _ => tEput c + 1
    | PP3 i => tEput c + 1 + (RETRIES - i)
    | PS2L => 3
    | PS2C _ => 1
    end.

  Definition mu (s : mstate) (c : call) (p : pc) : N := base c p + stale s c p.

  (* ---------- program points whose loop indices are in range ---------- *)
  Definition small (c : call) : bool := Nat.ltb (c_order c) (hord g).
  Definition pc_ok (c : call) (p : pc) : bool :=
    match p with
    | HC _ q | HU _ q =>
        Nat.leb (hord g) (c_order c) && Nat.leb (c_order c) (tord g) && (q <? c_hnum g c)
    | G2W _ _ q | G2U _ _ q => small c && (q <? c_nr c)
    | TW x q | TU x q => small c && (q <? t_nrows g x c)
    | _ => small c
    end.

  Definition thread_ok (s : mstate) (t : nat) : Prop :=
    match nth_error (ms_pool s) t with Some (TRun c p) => pc_ok c p = true | _ => True end.

  (* ---------- one step: settles, or decreases mu and keeps pc_ok ---------- *)
  Definition dec (s : mstate) (t : nat) (c : call) (p : pc) (s' : mstate) : Prop :=
    settled s' t = true \/
    exists p', nth_error (ms_pool s') t = Some (TRun c p') /\ mu s' c p' < mu s c p /\
               (pc_ok c p = true -> pc_ok c p' = true).

  Lemma pool_wr_row s h r v : ms_pool (wr_row s h r v) = ms_pool s.
  Proof. unfold wr_row. destruct (nth_error (ms_bfs s) (nn h)); reflexivity. Qed.

  Lemma nth_lt {A} (l : list A) i x : nth_error l i = Some x -> (i < length l)%nat.
  Proof. intros H. apply nth_error_Some. rewrite H. discriminate. Qed.

  Lemma dec_crash s t c p s1 x : nth_error (ms_pool s) t = Some (TRun c p) ->
    ms_pool s1 = ms_pool s -> dec s t c p (crash s1 t c x).
  Proof.
    intros Hth Hp. left. unfold settled, crash, set_thr. cbn [ms_pool]. rewrite Hp.
    rewrite nth_error_upd_same by (eapply nth_lt; exact Hth). reflexivity.
  Qed.

  Lemma dec_finish s t c p s1 r : nth_error (ms_pool s) t = Some (TRun c p) ->
    ms_pool s1 = ms_pool s -> dec s t c p (finish s1 t c r).
  Proof.
    intros Hth Hp. left. unfold settled.
    assert (E : ms_pool (finish s1 t c r) = upd (ms_pool s) t (TIdle (Some r))).
    { unfold finish. destruct c, r; cbn [set_held set_thr ms_pool]; rewrite Hp; reflexivity. }
    rewrite E, nth_error_upd_same by (eapply nth_lt; exact Hth). reflexivity.
  Qed.

  Lemma dec_goto s t c p s1 p' : nth_error (ms_pool s) t = Some (TRun c p) ->
    ms_pool s1 = ms_pool s -> mu s1 c p' < mu s c p ->
    (pc_ok c p = true -> pc_ok c p' = true) -> dec s t c p (goto s1 t c p').
  Proof.
    intros Hth Hp Hm Hk. right. exists p'. split; [|split; [exact Hm | exact Hk]].
    unfold goto, set_thr. cbn [ms_pool]. rewrite Hp.
    apply nth_error_upd_same. eapply nth_lt; exact Hth.
  Qed.

  Lemma rem_succ a b : b + 1 < a -> rem a b = rem a (b + 1) + 1.
  Proof. unfold rem. lia. Qed.

  Ltac pool := first [reflexivity | apply pool_wr_row].

  (* facts about the loop weights for every loop test in the context *)
  Ltac loop_facts c :=
    repeat match goal with
    | H : (?b + 1 <? ?a) = true |- _ =>
        let H' := fresh "Hlt" in
        assert (H' : b + 1 < a) by (apply N.ltb_lt; exact H);
        pose proof (rem_succ a b H');
        pose proof (rem_step a b (KW c) H');
        pose proof (rem_step a b (CW c) H');
        pose proof (rem_step a b (GW c) H');
        clear H
    end.

  Ltac use_eqs :=
    repeat match goal with
    | H : rd_ent _ _ = Some _ |- _ => rewrite H
    | H : rd_row _ _ _ = Some _ |- _ => rewrite H
    | H : (_ =? _) = _ |- _ => rewrite H
    | H : Nat.leb _ _ = _ |- _ => rewrite H
    end.

  Ltac arith c :=
    unfold mu; cbn [base stale]; unfold stale_ent, stale_row; use_eqs; rewrite ?N.eqb_refl;
    assert (KW c = M2 c + 3) by reflexivity;
    assert (CW c = 3 * c_nr c + 2) by reflexivity;
    assert (GW c = 2 * c_hnum g c + 1) by reflexivity;
    assert (0 < c_nr c) by apply pow2_pos;
    assert (0 < pow2 (hord g - 6)) by apply pow2_pos;
    assert (0 < c_hnum g c) by apply pow2_pos;
    try match goal with
        | H : Nat.leb (c_order c) 6 = true |- _ =>
            assert (M2 c = oG2L 0) by (unfold M2; rewrite H; reflexivity)
        | H : Nat.leb (c_order c) 6 = false |- _ =>
            assert (M2 c = oG2R c 0 0) by (unfold M2; rewrite H; reflexivity)
        end;
    loop_facts c;
    unfold oG2L, oG2C, oG2R, oG2W, oG2U, tE, tB, tEput, RETRIES, c_nr in *;
    unfold t_nrows, t_order in *;
    lia.

  Ltac okk c :=
    cbn [pc_ok]; unfold small;
    assert (0 < pow2 (c_order c - 6)) by apply pow2_pos;
    assert (0 < pow2 (hord g - 6)) by apply pow2_pos;
    assert (0 < c_hnum g c) by apply pow2_pos;
    unfold c_nr in *; unfold t_nrows, t_order in *;
    lia.

  Ltac leaf c :=
    lazymatch goal with
    | |- dec _ _ _ _ (crash _ _ _ _) => eapply dec_crash; [eassumption | pool]
    | |- dec _ _ _ _ (finish _ _ _ _) => eapply dec_finish; [eassumption | pool]
    | |- dec _ _ _ _ (goto _ _ _ _) => eapply dec_goto; [eassumption | pool | arith c | okk c]
    end.

  Ltac split_ifs :=
    repeat match goal with
    | |- dec _ _ _ _ (fst (_, _)) => cbn [fst]
    | |- dec _ _ _ _ (fst (match ?x with _ => _ end)) => destruct x eqn:?
    | |- dec _ _ _ _ (fst (if ?x then _ else _)) => destruct x eqn:?
    | |- dec _ _ _ _ (match ?x with _ => _ end) => destruct x eqn:?
    | |- dec _ _ _ _ (if ?x then _ else _) => destruct x eqn:?
    | |- dec _ _ _ _ (goto _ _ _ (if ?x then _ else _)) => destruct x eqn:?
    end.

  Lemma step_dec s t c p c0 : nth_error (ms_pool s) t = Some (TRun c p) ->
    dec s t c p (fst (mstep g s t c0)).
  Proof.
    intros Hth. unfold mstep. rewrite Hth.
    destruct p; cbv beta iota zeta.
    all: try (destruct x).
    all: split_ifs; unfold next_child, next_row, next_chunk, next_group, toggle_ok, toggle_fail, toggle_entry;
      split_ifs.
    all: leaf c.
  Qed.
  (* ---------- the measure is positive, so it counts the remaining steps ---------- *)
  Lemma stale_le1 s c p : stale s c p <= 1.
  Proof.
    destruct p; cbn [stale]; unfold stale_ent, stale_row; try lia;
      match goal with |- context [match ?x with _ => _ end] => destruct x end; try lia;
      match goal with |- context [if ?x then _ else _] => destruct x end; lia.
  Qed.

  Lemma mu_pos s c p : 1 <= mu s c p.
  Proof.
    unfold mu. assert (1 <= base c p); [|lia].
    destruct p; cbn [base]; unfold KW, oG2L, oG2C, oG2R, oG2W, oG2U, tE, tB; lia.
  Qed.

  Lemma solo_S n s t : solo g (S n) s t = solo g n (fst (mstep g s t (CGet 0 0))) t.
  Proof. exact (iter_S_r (fun s => fst (mstep g s t (CGet 0 0))) n s). Qed.

  Lemma solo_mu t : forall m s c p, nth_error (ms_pool s) t = Some (TRun c p) ->
    mu s c p <= N.of_nat m -> exists n, (n <= m)%nat /\ settled (solo g n s t) t = true.
  Proof.
    induction m; intros s c p Hth Hm.
    - pose proof (mu_pos s c p). lia.
    - destruct (step_dec s t c p (CGet 0 0) Hth) as [Hs | (p' & Hth' & Hlt & _)].
      + exists 1%nat. split; [lia|]. exact Hs.
      + destruct (IHm _ c p' Hth') as (n & Hn & Hset); [lia|].
        exists (S n). split; [lia|]. rewrite solo_S. exact Hset.
  Qed.

  (* ---------- the closed-form bound ---------- *)
  Definition boundN : N := TH * (5 * RW + 7) + 4 * RW + 15.

  Hypothesis WF : wf_geom g.

  Lemma bound_boundN : N.of_nat (bound g) = boundN.
  Proof.
    unfold bound, boundN. rewrite (THUGE_nat g), (ROWS_nat g WF). lia.
  Qed.

  Lemma RW_ge1 : 1 <= RW.
  Proof. rewrite (ROWS_pow2 g WF). pose proof (pow2_pos (hord g - 6)). lia. Qed.
  Lemma TH_ge1 : 1 <= TH.
  Proof. rewrite THUGE_pow2. pose proof (pow2_pos (tlog g)). lia. Qed.

  Lemma small_nr c : small c = true -> c_nr c <= RW.
  Proof.
    unfold small. intros H. apply Nat.ltb_lt in H. rewrite (ROWS_pow2 g WF). unfold c_nr.
    apply pow2_le. lia.
  Qed.

  Lemma chunks_facts c : small c = true ->
    1 <= c_chunks g c /\ c_chunks g c * c_nr c <= RW /\ c_chunks g c <= RW.
  Proof.
    intros H. pose proof (small_nr c H). assert (0 < c_nr c) by apply pow2_pos.
    unfold c_chunks. repeat split.
    - assert (0 < RW / c_nr c) by (apply N.div_str_pos; lia). lia.
    - rewrite N.mul_comm. apply N.mul_div_le. lia.
    - apply N.div_le_upper_bound; [lia|]. nia.
  Qed.

  Lemma chunk_off_le c ch x : small c = true -> x <= CW c ->
    4 + rem (c_chunks g c) ch * CW c + x <= 5 * RW + 4.
  Proof.
    intros H Hx. destruct (chunks_facts c H) as (H1 & H2 & H3).
    pose proof (rem_top (c_chunks g c) ch (CW c) H1).
    assert (c_chunks g c * CW c = 3 * (c_chunks g c * c_nr c) + 2 * c_chunks g c) by (unfold CW; lia).
    lia.
  Qed.

  Lemma M2_le c : small c = true -> M2 c <= 5 * RW + 4.
  Proof.
    intros H. unfold M2. destruct (Nat.leb (c_order c) 6).
    - unfold oG2L, rem. pose proof RW_ge1. lia.
    - unfold oG2R. pose proof (chunk_off_le c 0 (CW c) H ltac:(lia)). unfold CW in *. lia.
  Qed.

  Lemma get_small_le c j o : small c = true -> o <= 5 * RW + 7 -> rem TH j * KW c + o <= boundN.
  Proof.
    intros H Ho. pose proof (M2_le c H). pose proof TH_ge1.
    assert (rem TH j * KW c + o <= TH * (5 * RW + 7)).
    { apply weighted_le; [unfold rem; lia | unfold KW; lia | exact Ho]. }
    unfold boundN. lia.
  Qed.

  Lemma tnrows_le x c : small c = true -> t_nrows g x c <= RW.
  Proof.
    unfold small. intros H. apply Nat.ltb_lt in H. rewrite (ROWS_pow2 g WF). unfold t_nrows.
    apply pow2_le. destruct x; cbn [t_order]; lia.
  Qed.

  Lemma huge_facts c : Nat.leb (hord g) (c_order c) = true -> Nat.leb (c_order c) (tord g) = true ->
    1 <= group_cnt g c /\ group_cnt g c * GW c <= 3 * TH.
  Proof.
    intros H1 H2. apply Nat.leb_le in H1, H2. unfold tord in H2.
    assert (Hh : c_hnum g c <= TH) by (rewrite THUGE_pow2; unfold c_hnum; apply pow2_le; lia).
    assert (0 < c_hnum g c) by apply pow2_pos.
    unfold GW. destruct c; cbn [group_cnt]; try lia.
    assert (0 < TH / c_hnum g (CGet start order)) by (apply N.div_str_pos; lia).
    pose proof (N.mul_div_le TH (c_hnum g (CGet start order)) ltac:(lia)).
    assert (TH / c_hnum g (CGet start order) <= TH) by (apply N.div_le_upper_bound; [lia|nia]).
    split; [lia|]. nia.
  Qed.

  Lemma mu_bound s c p : pc_ok c p = true -> mu s c p <= boundN.
  Proof.
    intros Hok. unfold mu. pose proof (stale_le1 s c p) as Hst.
    pose proof RW_ge1 as HR. pose proof TH_ge1 as HT.
    destruct p; cbn [pc_ok] in Hok; cbn [base].
    all: try (apply andb_true_iff in Hok; destruct Hok as [Hok Hq]; apply N.ltb_lt in Hq).
    1-9: pose proof (M2_le c Hok); rewrite <- ?N.add_assoc; apply get_small_le; [exact Hok|].
    1-9: unfold KW, oG2L, oG2C, oG2R, oG2W, oG2U in *; cbn [stale] in *.
    Show.
  Abort.
End Progress.
