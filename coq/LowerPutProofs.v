(* `lower_put` (lower.rs `Lower::put`, `put_small`, `partial_put_huge`) refines the ownership
   specification: under the invariant a free of an aligned in-range block succeeds exactly when the
   specification allows it, its effect on the abstract state is `spec_put`, the invariant is
   preserved, failures are `Err Memory` without a state change, and no panic site is reachable. *)
From Coq Require Import PeanoNat ZArith ZifyN ZifyBool.
From LLF Require Import Base BitLemmas Row RowProofs Bitfield Lower Spec AbsLemmas BitfieldPutProofs.
Local Open Scope N_scope.

Lemma lp_div_unique a h i : a * h <= i < a * h + a -> i / a = h.
Proof.
  intros H. symmetry. apply (N.div_unique i a h (i - a * h)); lia.
Qed.

Lemma lp_upd_upd {A} (l : list A) i x y : upd (upd l i x) i y = upd l i y.
Proof. revert i; induction l as [|a l IH]; intros [|i]; cbn [upd]; try reflexivity. f_equal. apply IH. Qed.

Section Put.
  Variable g : geom.
  Hypothesis WF : wf_geom g.

  Lemma lp_e_huge_false e : e <= HF g -> e_huge e = false.
  Proof. intros H. unfold e_huge. apply N.eqb_neq. pose proof (HF_lt_MARK g WF). lia. Qed.

  Lemma lp_ent_set l h e' rows' : ent l h <> None -> ent (set_bf (set_ent l h e') h rows') h = Some e'.
  Proof. intros H. rewrite ent_set_bf. apply ent_set_ent_same; assumption. Qed.

  Lemma lp_bf_set l h e' rows' : bf l h <> None -> bf (set_bf (set_ent l h e') h rows') h = Some rows'.
  Proof. intros H. apply bf_set_bf_same. rewrite bf_set_ent. assumption. Qed.

  Lemma lp_ent_set_other l h e' rows' h' : h' <> h -> ent (set_bf (set_ent l h e') h rows') h' = ent l h'.
  Proof. intros H. rewrite ent_set_bf. apply ent_set_ent_other; assumption. Qed.

  Lemma lp_bf_set_other l h e' rows' h' : h' <> h -> bf (set_bf (set_ent l h e') h rows') h' = bf l h'.
  Proof. intros H. rewrite bf_set_bf_other by assumption. apply bf_set_ent. Qed.

  (* position of a small block inside its huge frame *)
  Lemma lp_block_pos f k i : (k <= hord g)%nat -> f mod pow2 k = 0 -> i / HF g = f / HF g ->
    (f <=? i) && (i <? f + pow2 k) = (f mod HF g <=? i mod HF g) && (i mod HF g <? f mod HF g + pow2 k).
  Proof.
    intros Hk Ha E. pose proof (HF_pos g) as HP.
    pose proof (N.div_mod f (HF g) ltac:(lia)) as Df. pose proof (N.div_mod i (HF g) ltac:(lia)) as Di.
    rewrite E in Di. revert Df Di. generalize (f mod HF g) (i mod HF g) (HF g * (f / HF g)) (pow2 k).
    intros p t b w Df Di. subst f i.
    destruct (N.leb_spec (b + p) (b + t)), (N.ltb_spec (b + t) (b + p + w)), (N.leb_spec p t), (N.ltb_spec t (p + w));
      cbn [andb]; try reflexivity; exfalso; lia.
  Qed.

  Lemma lp_block_in_huge f k i : (k <= hord g)%nat -> f mod pow2 k = 0 -> f <= i < f + pow2 k -> i / HF g = f / HF g.
  Proof.
    intros Hk Ha Hi. pose proof (HF_pos g) as HP. pose proof (aligned_in_huge g f k Hk Ha) as Hfit.
    pose proof (N.div_mod f (HF g) ltac:(lia)) as Df.
    apply lp_div_unique. revert Hfit Df Hi. generalize (f mod HF g) (HF g * (f / HF g)) (pow2 k) (HF g).
    intros; lia.
  Qed.

  (* the effect of a small put on the huge frame's pair (entry, bitfield), abstractly *)
  Lemma lp_small_update l f k e rows e' rows' :
    LowerInv g l -> f mod pow2 k = 0 -> f + pow2 k <= frames l -> (k < hord g)%nat ->
    ent l (f / HF g) = Some e -> bf l (f / HF g) = Some rows ->
    rows_ok g rows' ->
    (forall i, N.testbit (rows_bits rows') i =
       (e_huge e || N.testbit (rows_bits rows) i) && (i <? HF g) &&
       negb ((f mod HF g <=? i) && (i <? f mod HF g + pow2 k))) ->
    e' = bf_count_zeros rows' ->
    let l' := set_bf (set_ent l (f / HF g) e') (f / HF g) rows' in
    LowerInv g l' /\ abs g l' = spec_put g (abs g l) f k.
  Proof.
    intros Inv Ha Hr Hk He Hb Hok' Hbits He' l'.
    pose proof (HF_pos g) as HP. pose proof (pow2_pos k) as WP.
    pose proof (aligned_in_huge g f k ltac:(lia) Ha) as Hfit.
    pose proof (N.div_mod f (HF g) ltac:(lia)) as Df.
    pose proof (LowerInv_huge_ok g l _ _ _ Inv He Hb) as (Hok & Hmark & Hcnt & Htail).
    assert (Hle : e' <= HF g) by (subst e'; apply (bp_count_zeros_le g WF); assumption).
    assert (Hnh : e_huge e' = false) by (apply lp_e_huge_false; assumption).
    assert (Inv' : LowerInv g l').
    { apply LowerInv_set; [assumption | congruence | congruence |].
      split; [assumption|]. split; [|split].
      - intros ->. unfold e_huge in Hnh. discriminate.
      - intros _. split; assumption.
      - intros i Hi Hfr. rewrite Hbits. rewrite (Htail i Hi Hfr), orb_true_r.
        destruct (N.ltb_spec i (HF g)); [|lia]. cbn [andb].
        destruct (N.leb_spec (f mod HF g) i), (N.ltb_spec i (f mod HF g + pow2 k)); cbn [andb negb]; try reflexivity.
        exfalso. revert Df Hr Hfr H0 H1. generalize (f mod HF g) (pow2 k) (f / HF g) (HF g) (frames l).
        intros; nia. }
    split; [exact Inv'|].
    apply ospec_ext.
    - reflexivity.
    - intros i. rewrite (abs_alloc_testbit g WF l' Inv'), spec_put_alloc_testbit, (abs_alloc_testbit g WF l Inv).
      unfold alloc_at. change (frames l') with (frames l).
      destruct (N.eq_dec (i / HF g) (f / HF g)) as [E|E].
      + rewrite (lp_block_pos f k i) by (lia || assumption). rewrite E.
        unfold l'. rewrite lp_ent_set, lp_bf_set by congruence. rewrite He, Hb, Hnh, Hbits.
        assert (L : i mod HF g < HF g) by (apply N.mod_lt; lia).
        destruct (N.ltb_spec (i mod HF g) (HF g)); [|lia].
        destruct (i <? frames l), (e_huge e || N.testbit (rows_bits rows) (i mod HF g)),
          ((f mod HF g <=? i mod HF g) && (i mod HF g <? f mod HF g + pow2 k)); reflexivity.
      + unfold l'. rewrite lp_ent_set_other, lp_bf_set_other by assumption.
        destruct (N.leb_spec f i), (N.ltb_spec i (f + pow2 k)); cbn [andb negb]; try (rewrite andb_true_r; reflexivity).
        exfalso. apply E. apply (lp_block_in_huge f k i); (lia || assumption).
    - intros j. rewrite !abs_whole_testbit_gen, spec_put_whole_testbit, abs_whole_testbit_gen.
      destruct (Nat.leb_spec (hord g) k) as [|_]; [lia|].
      unfold whole_at. destruct (N.eqb_spec j (f / HF g)) as [->|E].
      + unfold l'. rewrite lp_ent_set, lp_bf_set by congruence. rewrite Hnh, andb_false_r. reflexivity.
      + unfold l'. rewrite lp_ent_set_other, lp_bf_set_other by assumption. rewrite andb_true_r. reflexivity.
  Qed.

  (* clearing a block of set bits adds its size to the zero count *)
  Lemma lp_clear_count rows rows' p w : rows_ok g rows -> rows_ok g rows' ->
    (forall i, p <= i < p + w -> N.testbit (rows_bits rows) i = true) ->
    (forall i, N.testbit (rows_bits rows') i = N.testbit (rows_bits rows) i && negb ((p <=? i) && (i <? p + w))) ->
    bf_count_zeros rows' = bf_count_zeros rows + w.
  Proof.
    intros Hok Hok' Hset Hnew. apply (count_zeros_clear_block g WF rows rows' p w); try assumption.
    - apply land_blk_full. exact Hset.
    - apply N.bits_inj. intros i. rewrite Hnew, N.ldiff_spec, blk_testbit. reflexivity.
  Qed.

  (* per-tree counter sums: a small put adds the block size to the entry of its huge frame *)
  Lemma lp_tree_range h :
    (nn (h / THUGE g * THUGE g) <= nn h)%nat /\ (nn h + 1 <= nn (h / THUGE g * THUGE g) + thuge_nat g)%nat.
  Proof.
    pose proof (THUGE_pos g) as TP. pose proof (N.div_mod h (THUGE g) ltac:(lia)) as D.
    pose proof (N.mod_lt h (THUGE g) ltac:(lia)) as M. pose proof (THUGE_nat g) as TN.
    unfold nn. revert D M TN. generalize (h / THUGE g) (h mod THUGE g) (THUGE g) (thuge_nat g). intros; nia.
  Qed.

  Lemma lp_small_tree_free l f e e' rows' d :
    ent l (f / HF g) = Some e -> e_free e' = e_free e + d ->
    forall t, tree_free g (set_bf (set_ent l (f / HF g) e') (f / HF g) rows') t =
              tree_free g l t + (if t =? f / TF g then d else 0).
  Proof.
    intros He Hd t. rewrite div_TF. set (h := f / HF g) in *.
    destruct (lp_tree_range h) as (R1 & R2).
    pose proof (tree_free_change g (set_bf (set_ent l h e') h rows') l (h / THUGE g) (nn h) 1 d R1 R2) as TC.
    rewrite N.mul_1_l in TC. symmetry. apply TC. clear TC.
    intros i. unfold set_bf, set_ent; cbn [ents]. rewrite efree_at_upd. unfold ind_range.
    assert (Hlen : (nn h < length (ents l))%nat) by (apply nth_error_Some; unfold ent in He; congruence).
    destruct (Nat.eqb_spec i (nn h)) as [->|Hn].
    - destruct (Nat.ltb_spec (nn h) (length (ents l))); [|lia].
      destruct (Nat.leb_spec (nn h) (nn h)); [|lia]. destruct (Nat.ltb_spec (nn h) (nn h + 1)); [|lia].
      cbn [andb]. unfold efree_at. unfold ent in He. rewrite He. lia.
    - cbn [andb]. destruct (Nat.leb_spec (nn h) i), (Nat.ltb_spec i (nn h + 1)); cbn [andb]; lia.
  Qed.

  Definition put_outcome (l : lower) (f : N) (k : nat) : Prop :=
    (spec_put_enabled g (abs g l) f k = true /\
     exists l', lower_put g l f k = (Ok tt, l') /\
                (LowerInv g l' /\ abs g l' = spec_put g (abs g l) f k) /\
                frames l' = frames l /\
                (forall t, tree_free g l' t = tree_free g l t + (if t =? f / TF g then pow2 k else 0)))
    \/ (spec_put_enabled g (abs g l) f k = false /\ lower_put g l f k = (Err EMemory, l)).

  (* the specification's enabledness for a small block, read on the huge frame's pair *)
  Lemma lp_enabled_small l f k e rows :
    LowerInv g l -> f mod pow2 k = 0 -> f + pow2 k <= frames l -> (k < hord g)%nat ->
    ent l (f / HF g) = Some e -> bf l (f / HF g) = Some rows ->
    spec_put_enabled g (abs g l) f k = true <->
    (forall t, f mod HF g <= t < f mod HF g + pow2 k -> e_huge e || N.testbit (rows_bits rows) t = true).
  Proof.
    intros Inv Ha Hr Hk He Hb. unfold spec_put_enabled.
    destruct (Nat.leb_spec (hord g) k) as [|_]; [lia|]. rewrite andb_true_r, all_alloc_spec.
    pose proof (HF_pos g) as HP. pose proof (aligned_in_huge g f k ltac:(lia) Ha) as Hfit.
    pose proof (N.div_mod f (HF g) ltac:(lia)) as Df.
    split.
    - intros H t Ht. specialize (H (HF g * (f / HF g) + t)).
      rewrite (abs_alloc_testbit g WF l Inv) in H. unfold alloc_at in H.
      assert (E1 : (HF g * (f / HF g) + t) / HF g = f / HF g).
      { apply lp_div_unique. revert Hfit Ht. generalize (f mod HF g) (HF g * (f / HF g)) (pow2 k) (HF g). intros; lia. }
      assert (E2 : (HF g * (f / HF g) + t) mod HF g = t).
      { symmetry. apply (N.mod_unique _ (HF g) (f / HF g) t); try reflexivity.
        revert Hfit Ht. generalize (f mod HF g) (pow2 k) (HF g). intros; lia. }
      rewrite E1, E2, He, Hb in H. 
      assert (HH : f <= HF g * (f / HF g) + t < f + pow2 k).
      { revert Df Ht. generalize (f mod HF g) (HF g * (f / HF g)) (pow2 k). intros; lia. }
      apply H in HH. apply andb_true_iff in HH. tauto.
    - intros H i Hi. rewrite (abs_alloc_testbit g WF l Inv). unfold alloc_at.
      pose proof (lp_block_in_huge f k i ltac:(lia) Ha Hi) as E.
      pose proof (lp_block_pos f k i ltac:(lia) Ha E) as Hpos.
      rewrite E, He, Hb. destruct (N.ltb_spec i (frames l)); [|lia]. cbn [andb].
      apply H. lia.
  Qed.

  Lemma lp_put_small_case l f k :
    LowerInv g l -> f mod pow2 k = 0 -> f + pow2 k <= frames l -> (k < hord g)%nat -> put_outcome l f k.
  Proof.
    intros Inv Ha Hr Hk. pose proof (pow2_pos k) as WP. pose proof (HF_pos g) as HP.
    assert (Hf : f < frames l) by lia.
    destruct (LowerInv_frame g l f Inv Hf) as (e & rows & He & Hb).
    pose proof (lp_enabled_small l f k e rows Inv Ha Hr Hk He Hb) as Hen.
    pose proof (aligned_in_huge g f k ltac:(lia) Ha) as Hfit.
    pose proof (LowerInv_huge_ok g l _ _ _ Inv He Hb) as (Hok & Hmark & Hcnt & Htail).
    assert (Ht : has_tree g l (f / TF g) = true).
    { apply (has_tree_spec g l _ Inv). apply frame_lt_ntab. exact Hf. }
    unfold put_outcome, lower_put. rewrite Ht. cbn [negb].
    destruct (Nat.leb_spec (hord g) k) as [|_]; [lia|]. rewrite He.
    destruct (e_huge e) eqn:Hh.
    - (* whole huge frame: split it *)
      left. split; [apply Hen; intros; reflexivity|].
      assert (Em : e = MARK) by (apply N.eqb_eq; exact Hh).
      destruct (Hmark Em) as (Hz & _).
      unfold partial_put_huge. rewrite Hb. rewrite (bp_toggle_fill g WF rows Hok Hz).
      set (full := repeat MAX64 (rows_nat g)).
      assert (Hokf : rows_ok g full) by (apply bp_rows_ok_repeat; reflexivity).
      unfold put_small. rewrite bf_set_ent, bf_set_bf_same by congruence.
      pose proof (bp_toggle_true g WF full f k Hokf ltac:(lia) Ha) as P.
      assert (Hfull : forall i, N.testbit (rows_bits full) i = (i <? HF g)).
      { intros i. unfold full. rewrite (bp_rows_bits_full g WF).
        destruct (N.ltb_spec i (HF g)); [apply N.ones_spec_low | apply N.ones_spec_high]; assumption. }
      destruct (bf_toggle g full f k true) as [rows'|]; cbn [toggle_true_post] in P.
      2:{ exfalso. apply P. intros i Hi. rewrite Hfull. apply N.ltb_lt. lia. }
      destruct P as (Hok' & Pset & Pnew).
      rewrite ent_set_bf, ent_set_ent_same by (rewrite ent_set_bf; congruence).
      assert (Ei : e_inc g 0 (pow2 k) = Some (0 + pow2 k)).
      { unfold e_inc. change (e_huge 0) with false. change (e_free 0) with 0. cbn [negb andb].
        destruct (N.leb_spec (0 + pow2 k) (HF g)); [reflexivity | lia]. }
      rewrite Ei.
      exists (set_bf (set_ent l (f / HF g) (0 + pow2 k)) (f / HF g) rows'). split.
      { f_equal. unfold set_ent, set_bf. cbn [frames bfs ents]. rewrite !lp_upd_upd. reflexivity. }
      split; [|split; [reflexivity|]].
      2:{ apply (lp_small_tree_free l f e (0 + pow2 k) rows' (pow2 k) He).
          unfold e_free. rewrite Hh, (lp_e_huge_false (0 + pow2 k)) by lia. reflexivity. }
      apply (lp_small_update l f k e rows (0 + pow2 k) rows'); try assumption.
      + intros i. rewrite Pnew, Hfull, Hh. reflexivity.
      + rewrite (lp_clear_count full rows' _ _ Hokf Hok' Pset Pnew).
        unfold full. rewrite bp_count_zeros_repeat1. reflexivity.
    - (* counter *)
      assert (Ef : e_free e = e) by (unfold e_free; rewrite Hh; reflexivity).
      assert (Enm : e <> MARK) by (apply N.eqb_neq; exact Hh).
      destruct (Hcnt Enm) as (Ec & Ele).
      pose proof (bp_toggle_true g WF rows f k Hok ltac:(lia) Ha) as P.
      assert (Hen' : spec_put_enabled g (abs g l) f k = true <->
                     (forall t, f mod HF g <= t < f mod HF g + pow2 k -> N.testbit (rows_bits rows) t = true)).
      { rewrite Hen. reflexivity. }
      rewrite Ef. destruct (N.leb_spec (e + pow2 k) (HF g)) as [C|C].
      + unfold put_small. rewrite Hb.
        destruct (bf_toggle g rows f k true) as [rows'|]; cbn [toggle_true_post] in P.
        * destruct P as (Hok' & Pset & Pnew). left. split; [apply Hen'; exact Pset|].
          rewrite ent_set_bf, He. unfold e_inc. rewrite Hh, Ef. cbn [negb andb].
          destruct (N.leb_spec (e + pow2 k) (HF g)); [|lia].
          exists (set_bf (set_ent l (f / HF g) (e + pow2 k)) (f / HF g) rows'). split; [reflexivity|].
          split; [|split; [reflexivity|]].
          2:{ apply (lp_small_tree_free l f e (e + pow2 k) rows' (pow2 k) He).
              rewrite Ef. unfold e_free. rewrite (lp_e_huge_false (e + pow2 k)) by lia. reflexivity. }
          apply (lp_small_update l f k e rows (e + pow2 k) rows'); try assumption.
          -- intros i. rewrite Pnew, Hh. cbn [orb].
             destruct (N.ltb_spec i (HF g)); [rewrite andb_true_r; reflexivity|].
             rewrite (rows_bits_high g WF rows i Hok) by assumption. reflexivity.
          -- rewrite (lp_clear_count rows rows' _ _ Hok Hok' Pset Pnew). congruence.
        * right. split; [|reflexivity]. apply not_true_is_false. intros En. apply P. apply Hen'. exact En.
      + right. split; [|reflexivity]. apply not_true_is_false. intros En.
        pose proof (proj1 Hen' En) as Hall.
        destruct (bf_toggle g rows f k true) as [rows'|]; cbn [toggle_true_post] in P.
        * destruct P as (Hok' & Pset & Pnew).
          pose proof (lp_clear_count rows rows' _ _ Hok Hok' Pset Pnew) as Hc.
          pose proof (bp_count_zeros_le g WF rows' Hok'). lia.
        * apply P. exact Hall.
  Qed.

  (* ----- huge orders ----- *)
  Lemma lp_range_nat h n q :
    ((nn h <=? nn q)%nat && (nn q <? nn h + nn n)%nat) = ((h <=? q) && (q <? h + n)).
  Proof.
    unfold nn. destruct (Nat.leb_spec (N.to_nat h) (N.to_nat q)), (Nat.ltb_spec (N.to_nat q) (N.to_nat h + N.to_nat n)),
      (N.leb_spec h q), (N.ltb_spec q (h + n)); cbn [andb]; try reflexivity; exfalso; lia.
  Qed.

  Lemma lp_huge_block h n i :
    ((HF g * h <=? i) && (i <? HF g * h + n * HF g)) = ((h <=? i / HF g) && (i / HF g <? h + n)).
  Proof.
    pose proof (HF_pos g) as HP. pose proof (N.div_mod i (HF g) ltac:(lia)) as D.
    pose proof (N.mod_lt i (HF g) ltac:(lia)) as L. revert HP D L.
    generalize (HF g) (i / HF g) (i mod HF g). intros a q t HP D L. subst i.
    destruct (N.leb_spec (a * h) (a * q + t)), (N.ltb_spec (a * q + t) (a * h + n * a)),
      (N.leb_spec h q), (N.ltb_spec q (h + n)); cbn [andb]; try reflexivity; exfalso; nia.
  Qed.

  Lemma lp_huge_geom f k : f mod pow2 k = 0 -> (hord g <= k)%nat -> (k <= tord g)%nat ->
    f = HF g * (f / HF g) /\ pow2 k = pow2 (k - hord g) * HF g /\
    (f / HF g) mod THUGE g + pow2 (k - hord g) <= THUGE g.
  Proof.
    intros Ha Hk Hkt. pose proof (HF_pos g) as HP.
    assert (Ek : pow2 k = pow2 (k - hord g) * HF g) by (rewrite HF_pow2; apply pow2_split; assumption).
    assert (Em : f mod HF g = 0).
    { rewrite <- (mod_mod_mul f (HF g) (pow2 (k - hord g))); [| lia | apply bp_pow2_nz].
      rewrite N.mul_comm, <- Ek, Ha. apply N.mod_0_l. lia. }
    assert (Ef : f = HF g * (f / HF g)).
    { pose proof (N.div_mod f (HF g) ltac:(lia)) as D. rewrite Em in D. lia. }
    split; [exact Ef|]. split; [exact Ek|].
    assert (Eh : (f / HF g) mod pow2 (k - hord g) = 0).
    { assert (E0 : (f / HF g * HF g) mod (pow2 (k - hord g) * HF g) = 0).
      { rewrite <- Ek, (N.mul_comm _ (HF g)), <- Ef. exact Ha. }
      rewrite N.mul_mod_distr_r in E0 by (try apply bp_pow2_nz; lia).
      apply N.eq_mul_0_l in E0; [exact E0 | lia]. }
    unfold tord in Hkt. rewrite THUGE_pow2.
    apply (bp_aligned_fit (k - hord g) (tlog g) (f / HF g)); [lia | exact Eh].
  Qed.

  Lemma lp_put_huge_case l f k :
    LowerInv g l -> f mod pow2 k = 0 -> f + pow2 k <= frames l -> (hord g <= k)%nat -> (k <= tord g)%nat ->
    put_outcome l f k.
  Proof.
    intros Inv Ha Hr Hk Hkt. pose proof (pow2_pos k) as WP. pose proof (HF_pos g) as HP.
    assert (Hf : f < frames l) by lia.
    destruct (lp_huge_geom f k Ha Hk Hkt) as (Ef & Ek & Hth).
    assert (Ht : has_tree g l (f / TF g) = true).
    { apply (has_tree_spec g l _ Inv). apply frame_lt_ntab. exact Hf. }
    unfold put_outcome, lower_put. rewrite Ht. cbn [negb].
    destruct (Nat.leb_spec (hord g) k) as [_|]; [|lia].
    destruct (N.ltb_spec (THUGE g) ((f / HF g) mod THUGE g + pow2 (k - hord g))) as [|_]; [lia|].
    set (h := f / HF g) in *. set (n := pow2 (k - hord g)) in *.
    (* every huge frame of the block lies inside the managed range *)
    assert (Hin : forall q, h <= q < h + n -> HF g * q + HF g <= frames l).
    { intros q Hq. rewrite Ef, Ek in Hr. clear - Hr Hq HP. nia. }
    assert (Hbf : forall q, h <= q < h + n -> exists rows, bf l q = Some rows).
    { intros q Hq. apply (LowerInv_bf_some g l q Inv).
      replace q with ((HF g * q) / HF g) by (rewrite N.mul_comm; apply N.div_mul; lia).
      apply frame_lt_nbf. specialize (Hin q Hq). lia. }
    assert (Hblk : forall i, (f <=? i) && (i <? f + pow2 k) = (h <=? i / HF g) && (i / HF g <? h + n)).
    { intros i. rewrite Ek. rewrite Ef at 1 2. apply lp_huge_block. }
    destruct (cas_all (ents l) (nn h) (nn n) MARK (HF g)) as [es|] eqn:C.
    - apply cas_all_some in C. destruct C as (Hlen & Hold & Hnew).
      assert (Hold' : forall q, h <= q < h + n -> ent l q = Some MARK).
      { intros q Hq. apply Hold. unfold nn. lia. }
      assert (Hnew' : forall q, nth_error es (nn q) = if (h <=? q) && (q <? h + n) then Some (HF g) else ent l q).
      { intros q. rewrite Hnew, lp_range_nat. reflexivity. }
      set (l' := {| frames := frames l; bfs := bfs l; ents := es |}).
      assert (Inv' : LowerInv g l').
      { apply LowerInv_set_ents; [assumption | assumption | |].
        - intros q e rows Hq Hb. rewrite Hnew' in Hq.
          destruct ((h <=? q) && (q <? h + n)) eqn:Cq.
          + injection Hq as <-. assert (Hq' : h <= q < h + n) by lia.
            pose proof (LowerInv_huge_ok g l _ _ _ Inv (Hold' q Hq') Hb) as (Hok & Hmark & _ & _).
            destruct (Hmark eq_refl) as (Hz & Hfull).
            pose proof (HF_lt_MARK g WF) as HM.
            split; [assumption|]. split; [|split].
            * intros E. lia.
            * intros _. split; [|lia]. symmetry. apply (count_zeros_of_zero g WF); assumption.
            * intros i Hi Hfr. exfalso. clear - Hfull Hi Hfr. nia.
          + apply (LowerInv_huge_ok g l _ _ _ Inv Hq Hb).
        - intros q e Hq Hb. rewrite Hnew' in Hq.
          destruct ((h <=? q) && (q <? h + n)) eqn:Cq.
          + assert (Hq' : h <= q < h + n) by lia.
            pose proof (LowerInv_no_bf g l _ _ Inv (Hold' q Hq') Hb). discriminate.
          + apply (LowerInv_no_bf g l _ _ Inv Hq Hb). }
      assert (Htf : forall t, tree_free g l' t = tree_free g l t + (if t =? f / TF g then pow2 k else 0)).
      { intros t. rewrite div_TF. fold h.
        pose proof (THUGE_pos g) as TP. pose proof (N.div_mod h (THUGE g) ltac:(lia)) as D.
        pose proof (THUGE_nat g) as TN.
        pose proof (tree_free_change g l' l (h / THUGE g) (nn h) (nn n) (HF g)) as TC.
        replace (N.of_nat (nn n) * HF g) with (pow2 k) in TC by (unfold nn; rewrite N2Nat.id; exact Ek).
        symmetry. apply TC; clear TC.
        - unfold nn. revert D. generalize (h / THUGE g) (h mod THUGE g) (THUGE g). intros; nia.
        - unfold nn. revert D Hth TN. generalize (h / THUGE g) (h mod THUGE g) (THUGE g) (thuge_nat g). intros; nia.
        - intros i. unfold efree_at, ind_range. change (ents l') with es. rewrite Hnew.
          destruct ((nn h <=? i)%nat && (i <? nn h + nn n)%nat) eqn:Ci.
          + rewrite (Hold i) by lia. change (e_free MARK) with 0. unfold e_free. rewrite lp_e_huge_false by lia. lia.
          + lia. }
      left. split.
      + (* enabled *)
        unfold spec_put_enabled. destruct (Nat.leb_spec (hord g) k) as [_|]; [|lia].
        apply andb_true_iff. split.
        * apply all_alloc_spec. intros i Hi. rewrite (abs_alloc_testbit g WF l Inv). unfold alloc_at.
          assert (Hq : h <= i / HF g < h + n) by (specialize (Hblk i); lia).
          rewrite (Hold' _ Hq). destruct (Hbf _ Hq) as (rows & ->).
          destruct (N.ltb_spec i (frames l)); [reflexivity | lia].
        * apply all_whole_spec. fold h n. intros q Hq. rewrite abs_whole_testbit_gen. unfold whole_at.
          rewrite (Hold' _ Hq). destruct (Hbf _ Hq) as (rows & ->). reflexivity.
      + exists l'. split; [reflexivity|]. split; [|split; [reflexivity | exact Htf]]. split; [exact Inv'|].
        apply ospec_ext.
        * reflexivity.
        * intros i. rewrite (abs_alloc_testbit g WF l' Inv'), spec_put_alloc_testbit, (abs_alloc_testbit g WF l Inv).
          unfold alloc_at. change (frames l') with (frames l). change (bf l' (i / HF g)) with (bf l (i / HF g)).
          change (ent l' (i / HF g)) with (nth_error es (nn (i / HF g))). rewrite Hnew', Hblk.
          destruct ((h <=? i / HF g) && (i / HF g <? h + n)) eqn:Cq; cbn [negb].
          -- rewrite andb_false_r. assert (Hq : h <= i / HF g < h + n) by lia.
             destruct (bf l (i / HF g)) as [rows|] eqn:Hb; [|apply andb_false_r].
             pose proof (LowerInv_huge_ok g l _ _ _ Inv (Hold' _ Hq) Hb) as (Hok & Hmark & _ & _).
             destruct (Hmark eq_refl) as (Hz & _). rewrite (rows_zero_bits rows Hz), N.bits_0.
             rewrite lp_e_huge_false by lia. apply andb_false_r.
          -- rewrite andb_true_r. reflexivity.
        * intros q. rewrite !abs_whole_testbit_gen, spec_put_whole_testbit, abs_whole_testbit_gen.
          destruct (Nat.leb_spec (hord g) k) as [_|]; [|lia]. fold h n.
          unfold whole_at. change (bf l' q) with (bf l q). change (ent l' q) with (nth_error es (nn q)).
          rewrite Hnew'. destruct ((h <=? q) && (q <? h + n)) eqn:Cq; cbn [negb].
          -- rewrite andb_false_r. rewrite lp_e_huge_false by lia. destruct (bf l q); reflexivity.
          -- rewrite andb_true_r. reflexivity.
    - right. split; [|reflexivity]. apply not_true_is_false. intros En.
      apply cas_all_none in C. destruct C as (j & Hj & Hne).
      unfold spec_put_enabled in En. destruct (Nat.leb_spec (hord g) k) as [_|]; [|lia].
      apply andb_true_iff in En. destruct En as (_ & Hw).
      rewrite all_whole_spec in Hw. fold h n in Hw. specialize (Hw (N.of_nat j) ltac:(unfold nn in Hj; lia)).
      rewrite abs_whole_testbit_gen in Hw. unfold whole_at, ent in Hw. unfold nn in Hw. rewrite Nat2N.id in Hw.
      destruct (nth_error (ents l) j) as [e|]; [|discriminate].
      destruct (bf l (N.of_nat j)); [|discriminate].
      apply N.eqb_eq in Hw. subst e. apply Hne. reflexivity.
  Qed.

  (* ----- main statements ----- *)
  Definition put_pre (l : lower) (f : N) (k : nat) : Prop :=
    LowerInv g l /\ aligned f k = true /\ f + pow2 k <= frames l /\ (k <= tord g)%nat.

  Theorem lower_put_outcome l f k : put_pre l f k -> put_outcome l f k.
  Proof.
    intros (Inv & Ha & Hr & Hk). apply N.eqb_eq in Ha.
    destruct (Nat.lt_ge_cases k (hord g)).
    - apply lp_put_small_case; assumption.
    - apply lp_put_huge_case; assumption.
  Qed.

  (* A1: a free succeeds exactly when the specification enables it *)
  Theorem lower_put_ok_iff l f k : put_pre l f k ->
    (fst (lower_put g l f k) = Ok tt <-> spec_put_enabled g (abs g l) f k = true).
  Proof.
    intros H. destruct (lower_put_outcome l f k H) as [(En & l' & E & _)|(En & E)]; rewrite E, En; cbn [fst].
    - tauto.
    - split; discriminate.
  Qed.

  (* A2: effect of a successful free; failures are Err Memory and leave the state unchanged *)
  Theorem lower_put_ok l f k l' : put_pre l f k -> lower_put g l f k = (Ok tt, l') ->
    abs g l' = spec_put g (abs g l) f k /\ LowerInv g l'.
  Proof.
    intros H E. destruct (lower_put_outcome l f k H) as [(_ & l2 & E2 & (Inv2 & A2) & _)|(_ & E2)]; rewrite E2 in E.
    - injection E as <-. split; assumption.
    - discriminate.
  Qed.

  Theorem lower_put_err l f k e l' : put_pre l f k -> lower_put g l f k = (Err e, l') ->
    e = EMemory /\ l' = l /\ spec_put_enabled g (abs g l) f k = false.
  Proof.
    intros H E. destruct (lower_put_outcome l f k H) as [(_ & l2 & E2 & _)|(En & E2)]; rewrite E2 in E.
    - discriminate.
    - injection E as <- <-. auto.
  Qed.

  (* A3: no panic site (SIndex 8..13, SIncFailed, SExceedingRetries) is reachable *)
  Theorem lower_put_no_panic l f k : put_pre l f k -> forall s l', lower_put g l f k <> (Panic s, l').
  Proof.
    intros H s l' E. destruct (lower_put_outcome l f k H) as [(_ & l2 & E2 & _)|(_ & E2)]; rewrite E2 in E; discriminate.
  Qed.

  (* the invariant is preserved by every put (successful or not) *)
  Theorem lower_put_inv l f k : put_pre l f k -> LowerInv g (snd (lower_put g l f k)).
  Proof.
    intros H. pose proof H as (Inv & _).
    destruct (lower_put_outcome l f k H) as [(_ & l2 & E2 & (Inv2 & _) & _)|(_ & E2)]; rewrite E2; assumption.
  Qed.

  (* everything at once, in the shape of the `lf_put` field of `lower_facts` (LowerFacts.v);
     `if t =? f / TF g then pow2 k else 0` is `delta t (f / TF g) (pow2 k)` *)
  Theorem lower_put_facts l f k r l' : LowerInv g l -> (k <= tord g)%nat ->
    aligned f k = true -> f + pow2 k <= frames l -> lower_put g l f k = (r, l') ->
    match r with
    | Ok _ => spec_put_enabled g (abs g l) f k = true /\
              abs g l' = spec_put g (abs g l) f k /\ LowerInv g l' /\ frames l' = frames l /\
              (forall t, tree_free g l' t = tree_free g l t + (if t =? f / TF g then pow2 k else 0))
    | Err e => e = EMemory /\ l' = l /\ spec_put_enabled g (abs g l) f k = false
    | Panic _ => False
    end.
  Proof.
    intros Inv Hk Ha Hr E.
    destruct (lower_put_outcome l f k (conj Inv (conj Ha (conj Hr Hk)))) as
      [(En & l2 & E2 & (Inv2 & A2) & F2 & T2)|(En & E2)]; rewrite E2 in E.
    - injection E as <- <-. auto.
    - injection E as <- <-. auto.
  Qed.
End Put.

(* ---------- non-vacuity: concrete runs (HUGE_ORDER 9, 4 huge frames per tree, 5000 frames:
   9 whole huge frames and a partial tenth one) ---------- *)
Definition g9 : geom := {| hord := 9; tlog := 2 |}.
Lemma g9_wf : wf_geom g9.
Proof. unfold wf_geom, g9; cbn; lia. Qed.

Example put_pre_ex : put_pre g9 (reserve_all g9 5000) 4608 3 /\ put_pre g9 (reserve_all g9 5000) 1024 10.
Proof.
  split; (split; [apply lower_invb_sound; vm_compute; reflexivity|]); vm_compute; repeat split; try discriminate; lia.
Qed.

(* small free in the partial last huge frame (counter entry) *)
Example put_ex_small :
  let l := reserve_all g9 5000 in let r := lower_put g9 l 4608 3 in
  fst r = Ok tt /\ spec_put_enabled g9 (abs g9 l) 4608 3 = true /\
  abs g9 (snd r) = spec_put g9 (abs g9 l) 4608 3 /\ lower_invb g9 (snd r) = true.
Proof. vm_compute. repeat split. Qed.

(* small free inside a whole huge frame: the marker is split *)
Example put_ex_split :
  let l := reserve_all g9 5000 in let r := lower_put g9 l 520 3 in
  fst r = Ok tt /\ ent (snd r) 1 = Some 8 /\ N.testbit (o_whole (abs g9 (snd r))) 1 = false /\
  abs g9 (snd r) = spec_put g9 (abs g9 l) 520 3 /\ lower_invb g9 (snd r) = true.
Proof. vm_compute. repeat split. Qed.

(* huge orders: two whole huge frames; refused when one of them is no longer whole; double free refused *)
Example put_ex_huge :
  let l := reserve_all g9 5000 in let r := lower_put g9 l 1024 10 in
  fst r = Ok tt /\ abs g9 (snd r) = spec_put g9 (abs g9 l) 1024 10 /\ lower_invb g9 (snd r) = true /\
  lower_put g9 (snd r) 1024 9 = (Err EMemory, snd r) /\ spec_put_enabled g9 (abs g9 (snd r)) 1024 9 = false /\
  lower_put g9 (snd r) 1030 0 = (Err EMemory, snd r) /\ spec_put_enabled g9 (abs g9 (snd r)) 1030 0 = false /\
  fst (lower_put g9 (snd (lower_put g9 l 520 3)) 0 10) = Err EMemory.
Proof. vm_compute. repeat split. Qed.

Print Assumptions lower_put_outcome.
Print Assumptions lower_put_ok_iff.
Print Assumptions lower_put_ok.
Print Assumptions lower_put_err.
Print Assumptions lower_put_no_panic.
Print Assumptions lower_put_inv.
Print Assumptions lower_put_facts.
