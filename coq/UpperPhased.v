(* Online at quiescence.  The concurrent theorems of UpperConcProps.v exclude `change_tree(.., Online)` from the
   schedules (`sched_valid` -> `change_ok`), because an Online that RACES with a put / get double-counts
   (UpperOnlineRace.v, finding D16).  This file makes precise that only the *concurrent* Online is the problem:

     M2's accounting invariant survives every schedule made of PHASES, each starting and ending in a state where no call
     is in flight (`uquiescent`):
       - a concurrent phase: any interleaving of valid calls of any number of threads (`sched_valid`: get / get_at /
         put / drain / change_tree with Offline or a class change), and
       - a solo phase: the steps `(t, c)` repeated, for ANY valid call c -- in particular `UChange m ch` with
         `c_op ch = Some OpOnline`, any matcher (by id or by search) -- run by thread t while all other threads are idle.

   phased u s sch          the schedule sch, run from the (quiescent) state s, is such a sequence of phases
   conc_phased_inv         at the end of every phased schedule from boot: the state is quiescent, the sequential
                           invariant UpperInv holds with a ghost `off` (frames hidden by Offline), the blocks handed out
                           are disjoint / aligned / in range, no thread is panicked; when the schedule contains no
                           Offline ... (`nohide`) the ghost is all zero
   conc_phased_safe        ... followed by ANY concurrent valid schedule (not necessarily ending quiescent): only the
                           D13 panic, uheld_ok, and UpperInv whenever quiescent
   conc_phased_validate    validate() passes at the end when nothing is hidden
   conc_phased_stats_off   fast count + hidden = exact count at the end
   PhasedExample           non-vacuity: Offline racing gets | put racing get | solo Online of the offline tree | gets

   Ingredients: `uinv_of_quiescent` (converse of UpperConcProps.uinv_quiescent), `grun_inv` for the concurrent phases
   and for solo phases of calls in the concurrent scope, `usolo_change_pos` (UpperSolo.change_sim: the solo run of a
   change_tree is the big-step function `llfree_change_tree`) + the sequential theorem `ghost_change_correct`
   (UpperPutProofs.v) for a solo Online.  The M1 part `Inv g (m1_of g s)` of UInv is carried over a solo Online because
   change_tree neither touches the lower allocator nor the blocks handed out. *)
From Coq Require Import PeanoNat Permutation.
From LLF Require Import Base Row Bitfield Lower Spec Sorted Upper UpperInvDef LowerFacts LowerFactsProofs UpperPrims
  LowerMachine ConcBase ConcInvDef ConcInvStep ConcInv ConcProps Crash UpperMachine UpperConcInvDef UpperConcUIC UpperConcWf
  UpperConcLocal UpperConcM1 UpperConcInv UpperConcProps.
From LLF Require UpperPutProofs PolicyFacts ConcInvInit UpperConcClass Policies UpperStatsProofs GlueProofs GlueHistory
  SoloRunLemmas UpperSoloLemmas UpperSolo UpperSoloGet UpperConcWeak.

Lemma in_upd {A} (l : list A) t x y : In y (upd l t x) -> y = x \/ In y l.
Proof.
  revert t. induction l as [|a l IH]; intros t H; destruct t; cbn [upd] in H; try (right; exact H).
  - destruct H as [<-|H]; [left; reflexivity|right; right; exact H].
  - destruct H as [<-|H]; [right; left; reflexivity|]. destruct (IH _ H) as [E|E]; [left; exact E|right; right; exact E].
Qed.

Definition F0 (o : list N) : Prop := Forall (fun x => x = 0) o.

Section Phased.
  Variable g : geom.
  Variable policy : N -> N -> N -> pol.
  Hypothesis WF : wf_geom g.
  Hypothesis PR : pol_refl_match policy.
  Hypothesis PT : pol_demote_trans policy.
  Notation urun := (urun g policy).
  Notation UInv := (UInv g policy).

  (* ================= runs ================= *)
  Lemma urun_app a b s : urun (a ++ b) s = urun b (urun a s).
  Proof. unfold UpperMachine.urun. apply fold_left_app. Qed.
  Lemma urun_cons t c r s : urun ((t, c) :: r) s = urun r (fst (ustep g policy s t c)).
  Proof. reflexivity. Qed.

  (* ================= quiescent states ================= *)
  Lemma quiescent_gh s : uquiescent s -> map (uthr_gh g) (m2_pool s) = repeat gh_nil (length (m2_pool s)).
  Proof.
    unfold uquiescent. induction (m2_pool s) as [|a l IH]; intros Q; [reflexivity|]. cbn [map length repeat]. f_equal.
    - destruct (Q a (or_introl eq_refl)) as (l0 & ->). reflexivity.
    - apply IH. intros x Hx. apply Q. right. exact Hx.
  Qed.

  Lemma m1_of_quiescent s : uquiescent s -> m1_of g s = boot (low (m2_up s)) (m2_held s) (length (m2_pool s)).
  Proof.
    intros Q. unfold m1_of, boot.
    assert (E1 : map low_thr (m2_pool s) = repeat (TIdle None) (length (m2_pool s))).
    { unfold uquiescent in Q. induction (m2_pool s) as [|a l IH]; [reflexivity|]. cbn [map length repeat]. f_equal.
      - destruct (Q a (or_introl eq_refl)) as (l0 & ->). reflexivity.
      - apply IH. intros x Hx. apply Q. right. exact Hx. }
    assert (E2 : flat_map (inflight g) (m2_pool s) = []).
    { apply flat_map_nil. intros x Hx. destruct (Q x Hx) as (l0 & ->). reflexivity. }
    rewrite E1, E2, app_nil_r. reflexivity.
  Qed.

  (* the converse of `uinv_quiescent`: at a quiescent state the concurrent invariant is M1's invariant plus the
     sequential invariant of the upper part *)
  Lemma uinv_of_quiescent o s :
    Inv g (m1_of g s) -> UpperInv g policy {| us := m2_up s; off := o |} -> uquiescent s -> UInv o s.
  Proof.
    intros HI HU Q. split; [exact HI|split].
    - unfold UG. rewrite (quiescent_gh s Q).
      apply (UpperInv_C0 g policy) in HU. apply (UIC2_of_C g policy WF _ _ _ (lower_facts_proved g WF)) in HU.
      rewrite IHf_nil. eapply (U2_ext g policy WF); [|exact HU]. intros i. rewrite CRf_nil. reflexivity.
    - apply Forall_forall. intros x Hx. destruct (Q x Hx) as (l & ->). exact I.
  Qed.

  Lemma quiescent_nochange s : uquiescent s -> Forall thr_nochange (m2_pool s).
  Proof. intros Q. apply Forall_forall. intros x Hx. destruct (Q x Hx) as (l & ->). exact I. Qed.

  (* ================= schedules without hiding ================= *)
  (* the only change_tree calls are Online *)
  Definition nohide_call (c : ucall) : Prop := match c with UChange _ ch => c_op ch = Some OpOnline | _ => True end.
  Definition nohide (sch : list (nat * ucall)) : Prop := Forall (fun tc => nohide_call (snd tc)) sch.

  Lemma nohide_valid_nochange u sch : sched_valid g u sch -> nohide sch -> Forall (fun tc => no_change (snd tc)) sch.
  Proof.
    intros SV NH. apply Forall_forall. intros tc Hin.
    pose proof (proj1 (Forall_forall _ _) SV tc Hin) as V. pose proof (proj1 (Forall_forall _ _) NH tc Hin) as H.
    cbv beta in V, H. destruct (snd tc) as [f r|f r| |m ch]; try exact I. cbn [nohide_call] in H.
    destruct V as [V _]. cbn [call_valid] in V. destruct V as [V _]. exact (V H).
  Qed.

  (* ================= a concurrent phase ================= *)
  Lemma conc_phase u s o sch :
    static_eq u (m2_up s) -> UInv o s -> sched_valid g u sch ->
    exists o', UInv o' (urun sch s) /\ (uquiescent s -> nohide sch -> o' = o).
  Proof.
    intros SE UI SV.
    assert (SV' : sched_valid g (m2_up s) sch).
    { eapply Forall_impl; [|exact SV]. intros tc. apply (call_valid2_static g). exact SE. }
    exists (snd (grun g policy sch (s, o))). split.
    - pose proof (grun_inv g policy WF PR PT sch s o UI SV') as H. rewrite grun_fst in H. exact H.
    - intros Q NH. apply (grun_nochange g policy WF PR PT); [exact UI|exact SV'| |apply quiescent_nochange; exact Q].
      eapply nohide_valid_nochange; eassumption.
  Qed.

  (* ================= a solo change_tree ================= *)
  (* UpperSolo.usolo_of_sim with a positive fuel (its proof constructs one) *)
  Lemma usolo_of_sim_pos u P H H' t last c : nth_error P t = Some (UIdle last) -> UpperSolo.take_held c H H' ->
    (forall cf, UpperSoloLemmas.At g policy 0 u (enter_call g u c) cf ->
                UpperSoloLemmas.Reach g policy cf (UpperSolo.Final (ubig g policy u c))) ->
    exists n, UpperSolo.solo_result g policy u P H' t c
                (UpperSoloLemmas.usolo_fuel g policy (S n) {| m2_up := u; m2_pool := P; m2_held := H |} t c).
  Proof.
    intros Hth Hh Hsim. pose proof (SoloRunLemmas.sr_some_lt _ _ _ Hth) as Ht.
    set (x0 := settle g policy SETTLE u (enter_call g u c)).
    assert (E1 : fst (ustep g policy {| m2_up := u; m2_pool := P; m2_held := H |} t c) = UpperSoloLemmas.ust P t c u H' x0).
    { unfold ustep. cbn [m2_pool m2_up m2_held]. rewrite Hth. unfold UpperSoloLemmas.ust.
      destruct c as [fr rq|fr rq| |m ch]; cbn [UpperSolo.take_held] in Hh; try (subst H'; reflexivity).
      rewrite Hh. reflexivity. }
    destruct (Hsim (u, x0) (UpperSoloLemmas.At_0 g policy u _)) as (cf' & R & Hfit).
    assert (Hfin : UpperSoloLemmas.is_final (snd cf') = true).
    { unfold UpperSolo.Final in Hfit. destruct (ubig g policy u c) as [[r|e|x] u']; [subst cf'; reflexivity | subst cf'; reflexivity |].
      destruct Hfit as (u'' & ->). reflexivity. }
    assert (Hres : forall s', s' = UpperSoloLemmas.ust P t c (fst cf') H' (snd cf') -> UpperSolo.solo_result g policy u P H' t c s').
    { intros s' ->. unfold UpperSolo.solo_result. unfold UpperSolo.Final in Hfit.
      destruct (ubig g policy u c) as [[r|e|x] u']; [subst cf'; reflexivity | subst cf'; reflexivity |].
      destruct Hfit as (u'' & ->). reflexivity. }
    destruct (UpperSoloLemmas.is_final x0) eqn:Ef.
    - pose proof (UpperSoloLemmas.sruns_final g policy (u, x0) cf' R Ef) as ->.
      exists 0%nat. apply Hres. cbn [UpperSoloLemmas.usolo_fuel]. rewrite E1, (UpperSoloLemmas.ust_thread P t c Ht). cbn [fst snd].
      destruct x0; [discriminate Ef | reflexivity | reflexivity].
    - destruct (UpperSoloLemmas.sruns_fuel g policy P t c Ht H' (u, x0) cf' R Hfin Ef) as (n & Hn). cbn [fst snd] in Hn.
      exists n. apply Hres. cbn [UpperSoloLemmas.usolo_fuel]. rewrite E1, (UpperSoloLemmas.ust_thread P t c Ht).
      destruct x0; [exact Hn | discriminate Ef | discriminate Ef].
  Qed.

  Lemma usolo_change_pos u P H t last m ch : UpperSoloGet.SInv g u -> nth_error P t = Some (UIdle last) ->
    exists n, UpperSolo.solo_result g policy u P H t (UChange m ch)
                (UpperSoloLemmas.usolo_fuel g policy (S n) {| m2_up := u; m2_pool := P; m2_held := H |} t (UChange m ch)).
  Proof.
    intros HS Hth. eapply usolo_of_sim_pos; [exact Hth | reflexivity |].
    intros cf HA. cbn [enter_call] in HA.
    pose proof (UpperSolo.change_sim g policy WF u m ch cf (UpperSoloGet.SInv_TreesFit g u HS) HA) as HR.
    cbn [ubig]. unfold UpperSolo.unit_res in HR. destruct (llfree_change_tree g u m ch) as [[x|e|z] u']; exact HR.
  Qed.

  (* `usolo_fuel` is a run of the schedule (t, c), (t, c), ...; before its end thread t is inside the call *)
  Lemma usolo_fuel_run t c n : forall s, exists j, (j <= n)%nat /\ (n <> 0 -> j <> 0)%nat /\
    UpperSoloLemmas.usolo_fuel g policy n s t c = urun (repeat (t, c) j) s /\
    (forall i, (0 < i < j)%nat -> exists c' p k, nth_error (m2_pool (urun (repeat (t, c) i) s)) t = Some (URun c' p k)).
  Proof.
    induction n as [|n IH]; intros s.
    - exists 0%nat. split; [lia|]. split; [intros X; exact X|]. split; [reflexivity|]. intros i Hi. lia.
    - cbn [UpperSoloLemmas.usolo_fuel]. set (s1 := fst (ustep g policy s t c)).
      assert (One : forall x, (forall c' p k, x <> Some (URun c' p k)) ->
                exists j, (j <= S n)%nat /\ (S n <> 0 -> j <> 0)%nat /\ s1 = urun (repeat (t, c) j) s /\
                  (forall i, (0 < i < j)%nat -> exists c' p k, nth_error (m2_pool (urun (repeat (t, c) i) s)) t = Some (URun c' p k))).
      { intros _ _. exists 1%nat. split; [lia|]. split; [lia|]. split; [reflexivity|]. intros i Hi. lia. }
      destruct (nth_error (m2_pool s1) t) as [[l|c' p k|z c']|] eqn:E;
        try (apply (One None); intros; discriminate).
      destruct (IH s1) as (j & Hj & _ & Ej & Hr). exists (S j). split; [lia|]. split; [lia|]. split.
      + cbn [repeat]. rewrite urun_cons. exact Ej.
      + intros i Hi. destruct i as [|i]; [lia|]. cbn [repeat]. rewrite urun_cons. fold s1.
        destruct i as [|i]; [cbn [repeat]; eexists _, _, _; exact E|]. apply Hr. lia.
  Qed.

  (* validity of a tree change without the Online exclusion of `change_ok` *)
  Definition change_ok_any (u : upper) (ch : tree_change) : Prop :=
    forall c, c_class ch = Some c -> class_locals u c <> None.

  Lemma ghost_change_online_zero x m ch :
    c_op ch = Some OpOnline -> F0 (off x) -> F0 (off (snd (ghost_change g x m ch))).
  Proof.
    intros Op Z. unfold ghost_change. destruct (llfree_change_tree g (us x) m ch) as [[y|e|z] u']; cbn [snd off]; try exact Z.
    apply Forall_forall. intros v Hv. apply in_map_iff in Hv. destruct Hv as ([i [t t']] & <- & _).
    destruct (UpperInvDef.tree_eqb t t').
    - destruct (nth_in_or_default i (off x) 0) as [Hin|E]; [|exact E]. exact (proj1 (Forall_forall _ _) Z _ Hin).
    - rewrite Op. reflexivity.
  Qed.

  (* k steps of thread t with an Online change_tree from a quiescent state to a quiescent state (all other threads
     idle all along: nobody else is scheduled): some number of complete solo calls *)
  Lemma solo_online u t m ch : change_ok_any u ch -> c_op ch = Some OpOnline ->
    forall B k s o, (k <= B)%nat -> static_eq u (m2_up s) -> UInv o s -> uquiescent s ->
      uquiescent (urun (repeat (t, UChange m ch) k) s) ->
      exists o', UInv o' (urun (repeat (t, UChange m ch) k) s) /\ (F0 o -> F0 o').
  Proof.
    intros CO Op. set (c := UChange m ch). induction B as [|B IH]; intros k s o Hk SE UI Q Q'.
    { assert (k = 0)%nat as -> by lia. exists o. split; [exact UI|tauto]. }
    destruct k as [|k]; [exists o; split; [exact UI|tauto]|].
    destruct (nth_error (m2_pool s) t) as [x|] eqn:Hth.
    2:{ (* no such thread: the steps do nothing *)
      assert (E : fst (ustep g policy s t c) = s) by (unfold ustep; rewrite Hth; reflexivity).
      cbn [repeat] in Q' |- *. rewrite urun_cons, E in Q' |- *. apply (IH k s o); try assumption. lia. }
    destruct (Q x (nth_error_In _ _ Hth)) as (last & ->).
    pose proof (uinv_quiescent g policy WF o s UI Q) as HU.
    pose proof (UpperSoloGet.UpperInv_SInv g policy _ HU) as HS. cbn [us] in HS.
    destruct s as [u0 P H]. cbn [m2_up m2_pool m2_held] in *.
    destruct (usolo_change_pos u0 P H t last m ch HS Hth) as (n & HR). fold c in HR.
    destruct (usolo_fuel_run t c (S n) {| m2_up := u0; m2_pool := P; m2_held := H |}) as (j & _ & Hj0 & Ej & Hrun).
    specialize (Hj0 ltac:(discriminate)). rewrite Ej in HR.
    set (s0 := {| m2_up := u0; m2_pool := P; m2_held := H |}) in *.
    (* the call is over after at most S k steps *)
    assert (Hjk : (j <= S k)%nat).
    { destruct (Nat.le_gt_cases j (S k)) as [A|A]; [exact A|exfalso].
      destruct (Hrun (S k) ltac:(lia)) as (c' & p & kk & E). destruct (Q' _ (nth_error_In _ _ E)) as (l & X). discriminate X. }
    (* the sequential theorem *)
    set (x := {| us := u0; off := o |}) in *.
    assert (CFG : UpperPutProofs.change_cfg (us x) ch).
    { intros cl Ecl. pose proof (CO cl Ecl) as A. rewrite <- (proj1 (proj2 SE) cl) in A. cbn [us x].
      cbn [m2_up] in A. unfold class_locals in A. destruct (class_slots u0 cl); [discriminate|]. exfalso. apply A. reflexivity. }
    destruct (ghost_change g x m ch) as [r x'] eqn:EG.
    destruct (UpperPutProofs.ghost_change_correct g policy WF (lower_facts_proved g WF) x m ch r x' HU CFG EG)
      as (NP & HU' & Elow & _).
    pose proof (ghost_change_online_zero x m ch Op) as Z0. rewrite EG in Z0. cbn [snd off x] in Z0.
    (* the state after the call *)
    assert (Es : exists rr, urun (repeat (t, c) j) s0 =
                   {| m2_up := us x'; m2_pool := upd P t (UIdle (Some rr)); m2_held := H |}).
    { unfold UpperSolo.solo_result in HR. cbn [ubig c] in HR. unfold ghost_change in EG. cbn [us x] in EG.
      destruct (llfree_change_tree g u0 m ch) as [[y|e|z] u'].
      - inversion EG; subst r x'. exists (Ok (0, 0)). rewrite HR. reflexivity.
      - inversion EG; subst r x'. exists (Err e). rewrite HR. reflexivity.
      - inversion EG; subst r x'. exfalso. exact (NP z eq_refl). }
    destruct Es as (rr & Es).
    set (s1 := urun (repeat (t, c) j) s0) in *.
    assert (Q1 : uquiescent s1).
    { rewrite Es. intros y Hy. cbn [m2_pool] in Hy. apply in_upd in Hy. destruct Hy as [->|Hy]; [eexists; reflexivity|exact (Q y Hy)]. }
    assert (UI1 : UInv (off x') s1).
    { apply uinv_of_quiescent; [| |exact Q1].
      - rewrite (m1_of_quiescent s1 Q1). rewrite Es. cbn [m2_up m2_held m2_pool]. rewrite Elow, upd_length.
        destruct UI as (HI & _). rewrite (m1_of_quiescent s0 Q) in HI. exact HI.
      - rewrite Es. cbn [m2_up]. destruct x' as [u' o']. exact HU'. }
    assert (SE1 : static_eq u (m2_up s1)).
    { eapply static_trans; [exact SE|]. apply (urun_static g policy WF). }
    replace (S k) with (j + (S k - j))%nat by lia. rewrite repeat_app, urun_app. fold s1.
    replace (S k) with (j + (S k - j))%nat in Q' by lia. rewrite repeat_app, urun_app in Q'. fold s1 in Q'.
    destruct (IH (S k - j)%nat s1 (off x') ltac:(lia) SE1 UI1 Q1 Q') as (o' & A1 & A2).
    exists o'. split; [exact A1|]. intros Z. apply A2. apply Z0. exact Z.
  Qed.

  (* ================= phased schedules ================= *)
  (* a valid call: as `call_valid2`, for change_tree without the Online exclusion *)
  Definition call_valid_any (u : upper) (c : ucall) : Prop :=
    match c with
    | UChange _ ch => change_ok_any u ch
    | _ => call_valid2 g u c
    end.

  Lemma call_valid2_any u c : call_valid2 g u c -> call_valid_any u c.
  Proof. destruct c; try (intros H; exact H). intros [[_ H] _]. exact H. Qed.

  Lemma call_valid_any_cases u c : call_valid_any u c ->
    call_valid2 g u c \/ exists m ch, c = UChange m ch /\ c_op ch = Some OpOnline /\ change_ok_any u ch.
  Proof.
    destruct c as [f r|f r| |m ch]; try (intros H; left; exact H). cbn [call_valid_any]. intros H.
    destruct (c_op ch) as [[|]|] eqn:Op.
    - right. exists m, ch. repeat split; assumption.
    - left. split; [|exact I]. split; [rewrite Op; discriminate|exact H].
    - left. split; [|exact I]. split; [rewrite Op; discriminate|exact H].
  Qed.

  (* sch, run from s, is a sequence of phases, each ending with no call in flight:
     a concurrent phase (any valid schedule without Online) or a solo phase (one thread, any valid call) *)
  Inductive phased (u : upper) : m2state -> list (nat * ucall) -> Prop :=
  | ph_nil : forall s, phased u s []
  | ph_conc : forall s sch rest, sched_valid g u sch -> uquiescent (urun sch s) -> phased u (urun sch s) rest ->
      phased u s (sch ++ rest)
  | ph_solo : forall s t c k rest, call_valid_any u c -> uquiescent (urun (repeat (t, c) k) s) ->
      phased u (urun (repeat (t, c) k) s) rest -> phased u s (repeat (t, c) k ++ rest).

  (* the last phase *)
  Lemma ph_conc_end u s sch : sched_valid g u sch -> uquiescent (urun sch s) -> phased u s sch.
  Proof. intros SV Q. rewrite <- (app_nil_r sch). apply ph_conc; [exact SV|exact Q|apply ph_nil]. Qed.
  Lemma ph_solo_end u s t c k : call_valid_any u c -> uquiescent (urun (repeat (t, c) k) s) -> phased u s (repeat (t, c) k).
  Proof. intros V Q. rewrite <- (app_nil_r (repeat (t, c) k)). apply ph_solo; [exact V|exact Q|apply ph_nil]. Qed.

  Lemma sched_valid_repeat u t c k : call_valid2 g u c -> sched_valid g u (repeat (t, c) k).
  Proof. intros V. apply Forall_forall. intros x Hx. apply repeat_spec in Hx. subst x. exact V. Qed.

  Lemma phased_inv u s sch : phased u s sch -> forall o, static_eq u (m2_up s) -> UInv o s -> uquiescent s ->
    uquiescent (urun sch s) /\ exists o', UInv o' (urun sch s) /\ (nohide sch -> F0 o -> F0 o').
  Proof.
    induction 1 as [s|s sch rest SV Q1 PH IH|s t c k rest V Q1 PH IH]; intros o SE UI Q.
    - split; [exact Q|]. exists o. split; [exact UI|tauto].
    - rewrite urun_app. destruct (conc_phase u s o sch SE UI SV) as (o1 & UI1 & Z1).
      assert (SE1 : static_eq u (m2_up (urun sch s))) by (eapply static_trans; [exact SE|apply (urun_static g policy WF)]).
      destruct (IH o1 SE1 UI1 Q1) as (Q2 & o2 & UI2 & Z2). split; [exact Q2|]. exists o2. split; [exact UI2|].
      intros NH Z. apply Forall_app in NH. destruct NH as [NH1 NH2]. apply (Z2 NH2). rewrite (Z1 Q NH1). exact Z.
    - rewrite urun_app.
      assert (SE1 : static_eq u (m2_up (urun (repeat (t, c) k) s))) by (eapply static_trans; [exact SE|apply (urun_static g policy WF)]).
      assert (P1 : exists o1, UInv o1 (urun (repeat (t, c) k) s) /\ (nohide (repeat (t, c) k) -> F0 o -> F0 o1)).
      { destruct (call_valid_any_cases u c V) as [V2|(m & ch & -> & Op & CO)].
        - destruct (conc_phase u s o (repeat (t, c) k) SE UI (sched_valid_repeat u t c k V2)) as (o1 & UI1 & Z1).
          exists o1. split; [exact UI1|]. intros NH Z. rewrite (Z1 Q NH). exact Z.
        - destruct (solo_online u t m ch CO Op k k s o (le_n k) SE UI Q Q1) as (o1 & UI1 & Z1).
          exists o1. split; [exact UI1|]. intros _. exact Z1. }
      destruct P1 as (o1 & UI1 & Z1).
      destruct (IH o1 SE1 UI1 Q1) as (Q2 & o2 & UI2 & Z2). split; [exact Q2|]. exists o2. split; [exact UI2|].
      intros NH Z. apply Forall_app in NH. destruct NH as [NH1 NH2]. apply (Z2 NH2). apply (Z1 NH1). exact Z.
  Qed.

  (* every call of a phased schedule is in the scope of the weak invariant (UpperConcWeak.v: any tree change) *)
  Lemma call_valid_any_w u c : call_valid_any u c -> UpperConcWeak.call_valid2_w g u c.
  Proof.
    destruct c as [f r|f r| |m ch]; cbn [call_valid_any]; try (intros [A B]; split; [exact A|exact B]).
    intros _. split; exact I.
  Qed.
  Lemma phased_valid_w u s sch : phased u s sch -> UpperConcWeak.sched_valid_w g u sch.
  Proof.
    induction 1 as [s|s sch rest SV Q1 PH IH|s t c k rest V Q1 PH IH]; [apply Forall_nil| |]; apply Forall_app; (split; [|exact IH]).
    - eapply Forall_impl; [|exact SV]. intros tc Hv. apply call_valid_any_w. apply call_valid2_any. exact Hv.
    - apply Forall_forall. intros x Hx. apply repeat_spec in Hx. subst x. apply call_valid_any_w. exact V.
  Qed.

  Lemma uboot_quiescent u held0 n : uquiescent (uboot u held0 n).
  Proof. intros x Hx. cbn [uboot m2_pool] in Hx. apply repeat_spec in Hx. subst x. eexists. reflexivity. Qed.

  Lemma quiescent_no_panic s : uquiescent s -> upanicked s = [].
  Proof.
    intros Q. unfold upanicked. apply flat_map_nil. intros x Hx. destruct (Q x Hx) as (l & ->). reflexivity.
  Qed.

  Lemma F0_repeat k : F0 (repeat 0 k).
  Proof. apply Forall_forall. intros x Hx. apply repeat_spec in Hx. exact Hx. Qed.

  (* from boot: the concurrent invariant at the end of a phased schedule *)
  Lemma phased_uinv u held0 n sch :
    UpperInv g policy (ustate_new u) -> HeldInit g (low u) held0 -> phased u (uboot u held0 n) sch ->
    let s := urun sch (uboot u held0 n) in
    uquiescent s /\ static_eq u (m2_up s) /\ exists o, UInv o s /\ (nohide sch -> F0 o).
  Proof.
    intros HU HH PH s.
    destruct (phased_inv u _ sch PH (zeros u) (static_refl _) (uboot_inv g policy WF u held0 n HU HH) (uboot_quiescent u held0 n))
      as (Q & o & UI & Z).
    split; [exact Q|]. split; [apply (urun_static g policy WF sch (uboot u held0 n))|].
    exists o. split; [exact UI|]. intros NH. apply (Z NH). apply F0_repeat.
  Qed.
End Phased.

(* ================================ the theorems ================================ *)
(* At the end of every phased schedule (concurrent phases of valid calls; Online -- and any other valid call -- in solo
   phases between them): no call in flight, the sequential invariant with some ghost `off`, C01, no panicked thread;
   the ghost is zero when nothing was taken offline. *)
Theorem conc_phased_inv : forall g policy u held0 n sch,
  wf_geom g -> pol_refl_match policy -> pol_demote_trans policy ->
  UpperInv g policy (ustate_new u) -> HeldInit g (low u) held0 ->
  phased g policy u (uboot u held0 n) sch ->
  let s := urun g policy sch (uboot u held0 n) in
  uquiescent s /\
  exists o, UpperInv g policy {| us := m2_up s; off := o |} /\
            uheld_ok s = true /\
            (forall z, In z (upanicked s) -> z = SExceedingRetries) /\ upanicked s = [] /\
            (nohide sch -> F0 o).
Proof.
  intros g policy u held0 n sch WF PR PT HU HH PH s.
  destruct (phased_uinv g policy WF PR PT u held0 n sch HU HH PH) as (Q & _ & o & UI & Z). fold s in Q, UI.
  split; [exact Q|]. exists o.
  split; [apply (uinv_quiescent g policy WF o s UI Q)|]. split; [apply (uinv_held g policy WF o s UI)|].
  split; [apply (uinv_panics g policy o s UI)|]. split; [apply quiescent_no_panic; exact Q|exact Z].
Qed.
Print Assumptions conc_phased_inv.

(* ... followed by any concurrent valid schedule sch2 (which need not end quiescent): every state reached inside a
   concurrent phase, after any number of phases *)
Theorem conc_phased_safe : forall g policy u held0 n sch sch2,
  wf_geom g -> pol_refl_match policy -> pol_demote_trans policy ->
  UpperInv g policy (ustate_new u) -> HeldInit g (low u) held0 ->
  phased g policy u (uboot u held0 n) sch -> sched_valid g u sch2 ->
  let s := urun g policy (sch ++ sch2) (uboot u held0 n) in
  (forall z, In z (upanicked s) -> z = SExceedingRetries) /\
  uheld_ok s = true /\
  (uquiescent s -> exists o, UpperInv g policy {| us := m2_up s; off := o |}).
Proof.
  intros g policy u held0 n sch sch2 WF PR PT HU HH PH SV s.
  destruct (phased_uinv g policy WF PR PT u held0 n sch HU HH PH) as (_ & SE & o & UI & _).
  destruct (conc_phase g policy WF PR PT u _ o sch2 SE UI SV) as (o2 & UI2 & _).
  rewrite <- urun_app in UI2. fold s in UI2.
  split; [apply (uinv_panics g policy o2 s UI2)|]. split; [apply (uinv_held g policy WF o2 s UI2)|].
  intros Q. exists o2. apply (uinv_quiescent g policy WF o2 s UI2 Q).
Qed.
Print Assumptions conc_phased_safe.

(* C01 at EVERY state of a phased schedule, also in the middle of a solo Online (weak invariant of UpperConcWeak.v) *)
Theorem conc_phased_held_all : forall g policy u held0 n pre post,
  wf_geom g -> UpperInv g policy (ustate_new u) -> HeldInit g (low u) held0 ->
  phased g policy u (uboot u held0 n) (pre ++ post) ->
  uheld_ok (urun g policy pre (uboot u held0 n)) = true.
Proof.
  intros g policy u held0 n pre post WF HU HH PH.
  apply (UpperConcWeak.conc_upper_held_weak g policy u held0 n pre WF HU HH).
  pose proof (phased_valid_w g policy u _ _ PH) as SV. apply Forall_app in SV. exact (proj1 SV).
Qed.
Print Assumptions conc_phased_held_all.

(* the ghost is determined by the state: the `exists o` above is not a loophole *)
Theorem UpperInv_off_unique : forall g policy u o o',
  UpperInv g policy {| us := u; off := o |} -> UpperInv g policy {| us := u; off := o' |} -> o = o'.
Proof.
  intros g policy u o o' (_ & _ & L1 & _ & _ & T1 & _) (_ & _ & L2 & _ & _ & T2 & _). cbn [us off] in *.
  apply (nth_ext o o' 0 0); [congruence|]. intros i Hi. rewrite L1 in Hi.
  destruct (nth_error (trees u) i) as [t|] eqn:Et; [|apply nth_error_None in Et; lia].
  pose proof (T1 i t Et) as A. pose proof (T2 i t Et) as B.
  unfold tree_ok in A, B. cbv zeta in A, B. cbn [us off] in A, B.
  destruct A as (_ & A & _). destruct B as (_ & B & _). lia.
Qed.

(* validate() passes at the end when nothing is hidden; in particular when the schedule contains no Offline *)
Theorem conc_phased_validate : forall g policy u held0 n sch,
  wf_geom g -> pol_refl_match policy -> pol_demote_trans policy ->
  UpperInv g policy (ustate_new u) -> HeldInit g (low u) held0 ->
  phased g policy u (uboot u held0 n) sch -> nohide sch ->
  let s := urun g policy sch (uboot u held0 n) in
  UpperInv g policy (ustate_new (m2_up s)) /\ llfree_validate g (m2_up s) = Ok tt.
Proof.
  intros g policy u held0 n sch WF PR PT HU HH PH NH s.
  destruct (conc_phased_inv g policy u held0 n sch WF PR PT HU HH PH) as (_ & o & H & _ & _ & _ & Z). fold s in H.
  specialize (Z NH).
  assert (E : o = repeat 0 (length (trees (m2_up s)))).
  { destruct H as (_ & _ & L & _). cbn [us off] in L. rewrite <- L. clear - Z. induction Z as [|a l -> _ IH]; [reflexivity|].
    cbn [length repeat]. f_equal. exact IH. }
  assert (H' : UpperInv g policy (ustate_new (m2_up s))) by (unfold ustate_new; rewrite <- E; exact H).
  split; [exact H'|].
  apply (UpperStatsProofs.llfree_validate_ok g policy WF (lower_facts_proved g WF) _ H' (GlueProofs.LS_sum g WF)).
  cbn [ustate_new off]. apply F0_repeat.
Qed.
Print Assumptions conc_phased_validate.

(* the fast count plus the hidden amounts is the exact count *)
Theorem conc_phased_stats_off : forall g policy u held0 n sch,
  wf_geom g -> pol_refl_match policy -> pol_demote_trans policy ->
  UpperInv g policy (ustate_new u) -> HeldInit g (low u) held0 ->
  phased g policy u (uboot u held0 n) sch ->
  let s := urun g policy sch (uboot u held0 n) in
  exists o ts, UpperInv g policy {| us := m2_up s; off := o |} /\ (nohide sch -> F0 o) /\
    llfree_tree_stats g (m2_up s) = Ok ts /\
    ts_free ts + UpperStatsProofs.sumN o = free_frames (llfree_stats g (m2_up s)) /\
    ts_free ts + UpperStatsProofs.sumN o = exact_free (abs g (low (m2_up s))).
Proof.
  intros g policy u held0 n sch WF PR PT HU HH PH s.
  destruct (conc_phased_inv g policy u held0 n sch WF PR PT HU HH PH) as (_ & o & H & _ & _ & _ & Z). fold s in H.
  destruct (GlueHistory.tree_stats_step g policy WF _ H) as (ts & E & _).
  exists o, ts. split; [exact H|]. split; [exact Z|]. split; [exact E|].
  pose proof (UpperStatsProofs.llfree_tree_stats_free g policy WF (lower_facts_proved g WF) _ H (GlueProofs.LS_sum g WF) ts E) as A.
  split; [exact A|]. exact (eq_trans A (proj1 (GlueHistory.stats_step g policy WF _ H))).
Qed.
Print Assumptions conc_phased_stats_off.

(* ================================ non-vacuity ================================ *)
(* The 4-tree allocator of UpperConcProps.SafeExample (TREE_FRAMES = 256, two threads, alternating step by step):
     phase 1 (concurrent)  thread 0 allocates (frame 0) while thread 1 takes the entirely free tree 1 offline
     phase 2 (concurrent)  thread 0 frees frame 0 while thread 1 allocates (768 .. 771)
     phase 3 (solo)        thread 1 brings tree 1 online again: 5 steps (start, load, two fetch_free loads, CAS)
     phase 4 (concurrent)  thread 0 allocates, thread 1 allocates frame 300 -- in the tree just onlined -- by get_at
   `nop` (a put of a frame nobody holds) only lets running calls finish.  Tree counters 255 / 0 / 256 / 256 after phase 1,
   256 / 0 / 256 / 0 (tree 3 reserved) after phase 2, 256 / 256 / 256 / 0 after the Online, 255 / 255 / 255 / 0 at the
   end, where validate() passes and the invariant holds with nothing hidden. *)
Module PhasedExample.
  Import UpperConcClass.ClassExample UpperConcProps.SafeExample.
  Definition onl (i : N) :=
    UChange {| m_id := Some i; m_class := None; m_free := 0 |} {| c_class := None; c_op := Some OpOnline |}.
  Definition put0 := UPut 0 (rq 0 1 (Some 0)).
  Definition cC := UGet (Some 300) (rq 0 0 (Some 0)).
  Definition p1 := alt2 10 cA (offl 1) ++ alt2 30 nop nop.
  Definition p2 := alt2 30 put0 cB ++ alt2 30 nop nop.
  Definition p4 := alt2 20 cA cC ++ alt2 30 nop nop.
  Definition sch := p1 ++ p2 ++ repeat (1%nat, onl 1) 5 ++ p4.
  Definition boot0 := uboot U0 [] 2.
  Definition s1 := urun g7 pol7 p1 boot0.
  Definition s2 := urun g7 pol7 p2 s1.
  Definition s3 := urun g7 pol7 (repeat (1%nat, onl 1) 5) s2.
  Definition s4 := urun g7 pol7 p4 s3.

  Definition uquiescentb (s : m2state) : bool :=
    forallb (fun x => match x with UIdle _ => true | _ => false end) (m2_pool s).
  Lemma uquiescentb_sound s : uquiescentb s = true -> uquiescent s.
  Proof.
    intros H x Hx. pose proof (proj1 (forallb_forall _ _) H x Hx) as A. destruct x; try discriminate A. eexists. reflexivity.
  Qed.

  Lemma valid_new c : In c [put0; cC] -> call_valid2 g7 U0 c.
  Proof.
    intros H. repeat (destruct H as [<-|H]); [| |destruct H]; (split; [|try exact I; vm_compute; reflexivity]);
      cbn [call_valid]; intros l len E1 E2; vm_compute in E1, E2; inversion E1; inversion E2; subst; reflexivity.
  Qed.
  Lemma sv_alt2 n a b : call_valid2 g7 U0 a -> call_valid2 g7 U0 b -> sched_valid g7 U0 (alt2 n a b).
  Proof.
    intros A B. apply Forall_forall. intros [t c] Hin. cbn [snd]. apply in_alt2 in Hin. destruct Hin as [-> | ->]; assumption.
  Qed.
  Lemma v_nop : call_valid2 g7 U0 nop. Proof. apply valid_call. cbn [In]. tauto. Qed.
  Lemma v_cA : call_valid2 g7 U0 cA. Proof. apply valid_call. cbn [In]. tauto. Qed.
  Lemma v_cB : call_valid2 g7 U0 cB. Proof. apply valid_call. cbn [In]. tauto. Qed.
  Lemma sv1 : sched_valid g7 U0 p1.
  Proof. apply Forall_app. split; apply sv_alt2; try apply v_nop; [apply v_cA|apply valid_off]. Qed.
  Lemma sv2 : sched_valid g7 U0 p2.
  Proof. apply Forall_app. split; apply sv_alt2; try apply v_nop; [apply valid_new; cbn [In]; tauto|apply v_cB]. Qed.
  Lemma sv4 : sched_valid g7 U0 p4.
  Proof. apply Forall_app. split; apply sv_alt2; try apply v_nop; [apply v_cA|apply valid_new; cbn [In]; tauto]. Qed.
  Lemma v_onl : call_valid_any g7 U0 (onl 1).
  Proof. cbn [call_valid_any onl]. intros c E. discriminate E. Qed.

  Local Strategy 1000 [urun].
  Lemma sch_phased : phased g7 pol7 U0 boot0 sch.
  Proof.
    unfold sch. apply ph_conc; [exact sv1|apply uquiescentb_sound; vm_compute; reflexivity|]. fold s1.
    apply ph_conc; [exact sv2|apply uquiescentb_sound; vm_compute; reflexivity|]. fold s2.
    apply ph_solo; [exact v_onl|apply uquiescentb_sound; vm_compute; reflexivity|]. fold s3.
    apply ph_conc_end; [exact sv4|apply uquiescentb_sound; vm_compute; reflexivity].
  Qed.

  Lemma s4_run : urun g7 pol7 sch boot0 = s4.
  Proof. unfold sch, s4, s3, s2, s1. rewrite !urun_app. reflexivity. Qed.

  (* by evaluation *)
  Example phased_nonvacuous :
    map t_free (trees (m2_up s1)) = [255; 0; 256; 256] /\ map t_free (trees (m2_up s2)) = [256; 0; 256; 0] /\
    map t_free (trees (m2_up s3)) = [256; 256; 256; 0] /\ map t_free (trees (m2_up s4)) = [255; 255; 255; 0] /\
    m2_held s4 = [(512, 0%nat); (0, 0%nat); (300, 0%nat); (771, 0%nat); (770, 0%nat); (769, 0%nat); (768, 0%nat)] /\
    upper_invb g7 pol7 (ustate_new (m2_up s4)) = true /\ llfree_validate g7 (m2_up s4) = Ok tt.
  Proof. repeat split; vm_compute; reflexivity. Qed.

  (* by the theorem *)
  Example phased_instance :
    uquiescent s4 /\
    exists o, UpperInv g7 pol7 {| us := m2_up s4; off := o |} /\ uheld_ok s4 = true /\ upanicked s4 = [] /\
      exists ts, llfree_tree_stats g7 (m2_up s4) = Ok ts /\
                 ts_free ts + UpperStatsProofs.sumN o = exact_free (abs g7 (low (m2_up s4))).
  Proof.
    destruct (PolicyFacts.pol_simple_facts 256) as (PR & _ & PT & _).
    destruct (conc_phased_inv g7 pol7 U0 [] 2 sch wf7 PR PT inv0 held0 sch_phased) as (Q & o & H & A & _ & B & _).
    destruct (conc_phased_stats_off g7 pol7 U0 [] 2 sch wf7 PR PT inv0 held0 sch_phased) as (o' & ts & H' & _ & E & _ & S).
    fold boot0 in Q, H, A, B, H', E, S. rewrite s4_run in Q, H, A, B, H', E, S.
    split; [exact Q|]. exists o. split; [exact H|]. split; [exact A|]. split; [exact B|].
    exists ts. split; [exact E|]. rewrite (UpperInv_off_unique g7 pol7 _ o o' H H'). exact S.
  Qed.

  (* without any Offline: gets race | solo Online of the untouched tree 2 (four steps: the call runs to completion --
     Err, the tree is not offline --, is started again and completes again) | gets race; `conc_phased_validate` applies *)
  Definition q1 := alt2 14 cA cB ++ alt2 30 nop nop.
  Definition sch' := q1 ++ repeat (0%nat, onl 2) 4 ++ q1.
  Lemma svq : sched_valid g7 U0 q1.
  Proof. apply Forall_app. split; apply sv_alt2; try apply v_nop; [apply v_cA|apply v_cB]. Qed.
  Lemma sch'_phased : phased g7 pol7 U0 boot0 sch'.
  Proof.
    unfold sch'. apply ph_conc; [exact svq|apply uquiescentb_sound; vm_compute; reflexivity|].
    apply ph_solo; [intros c E; discriminate E|apply uquiescentb_sound; vm_compute; reflexivity|].
    apply ph_conc_end; [exact svq|apply uquiescentb_sound; vm_compute; reflexivity].
  Qed.
  Lemma nohide_alt2 n a b : nohide_call a -> nohide_call b -> nohide (alt2 n a b).
  Proof.
    intros A B. apply Forall_forall. intros [t c] Hin. cbn [snd]. apply in_alt2 in Hin. destruct Hin as [-> | ->]; assumption.
  Qed.
  Lemma sch'_nohide : nohide sch'.
  Proof.
    assert (Q : nohide q1) by (apply Forall_app; split; apply nohide_alt2; exact I).
    apply Forall_app. split; [exact Q|]. apply Forall_app. split; [|exact Q].
    apply Forall_forall. intros x Hx. apply repeat_spec in Hx. subst x. reflexivity.
  Qed.
  Example phased_validate_instance :
    llfree_validate g7 (m2_up (urun g7 pol7 sch' boot0)) = Ok tt.
  Proof.
    destruct (PolicyFacts.pol_simple_facts 256) as (PR & _ & PT & _).
    exact (proj2 (conc_phased_validate g7 pol7 U0 [] 2 sch' wf7 PR PT inv0 held0 sch'_phased sch'_nohide)).
  Qed.
End PhasedExample.
