(* A call run ALONE on M2 computes the big-step function of Upper.v: the call kind get (with and without a frame),
   and the summary theorems for all call kinds.
   Hypothesis `SInv g u` (a fragment of UpperInv, see `UpperInv_SInv`): LowerInv of the lower state, one tree entry
   per table, every present slot points into an existing tree.  It is what makes the embedded lower calls satisfy
   M1's `call_ok`, and it is carried along the call (`Keeps`).
   Simulation lemmas: get_local (`get_local_step`: locals.get, Lower::get, set_start / undo, and the retry after
   trees.sync + locals.put), steal_global, reserve_or_steal (`ros_sim`), search_best for a simulated access closure
   (`sb_try_sim`, `sb_loop_sim`: the loops `sb_next`/KSBL/KSBA/KSBT vs `sb_loop`/`sb_try`), search_and_reserve
   (`sar_sim`), steal_local (`steal_slots_sim`/`steal_any_sim`: the flat scan `steal_scan` vs the nested loops
   `steal_any_loop`/`steal_slots`), demote_local (`demote_slots_sim`/`demote_any_sim`), the fallback chain
   KGet2/KOom1 (`get2_sim`), get_at (`get_at_sim`), get (`get_none_sim`).
   Theorems: usolo_get, usolo_call (every call kind), usolo_one_thread (the `usolo` form of UpperMachine.v). *)
From Coq Require Import PeanoNat ZifyBool.
From LLF Require Import Base BitLemmas Row RowProofs Bitfield Lower Spec Sorted Upper LowerMachine
  UpperInvDef LowerFacts LowerFactsProofs UpperPrims SoloRunLemmas SoloRun Progress UpperMachine UpperSoloLemmas UpperSolo.

Local Strategy 1000 [settle steal_scan demote_scan steal_slots demote_slots sl_next dl_next steal_any_loop demote_any_loop].

Section GetCalls.
  Variable g : geom.
  Variable policy : N -> N -> N -> pol.
  Hypothesis WF : wf_geom g.
  Notation TF := (TF g).
  Notation At := (At g policy).
  Notation Reach := (Reach g policy).

  Ltac ret_step H :=
    apply At_ret in H; [cbn [UpperMachine.resume] in H | unfold SETTLE; lia].
  Ltac crashed := apply Reach_here; eexists; eassumption.
  Ltac use_tu H Q :=
    let c1 := fresh "c" in let R1 := fresh "R" in
    destruct (tu_sim g policy _ _ _ _ _ _ H) as (c1 & R1 & Q);
    apply (Reach_trans _ _ _ _ _ R1); clear R1 H;
    unfold fetch_of in Q; cbn [needs_fetch tf_apply tf_site] in Q.
  Ltac use_su H Q :=
    let c1 := fresh "c" in let R1 := fresh "R" in
    destruct (su_sim g policy _ _ _ _ _ _ _ H) as (c1 & R1 & Q);
    apply (Reach_trans _ _ _ _ _ R1); clear R1 H; cbn [sf_apply] in Q.
  Ltac use_sw H Q :=
    let c1 := fresh "c" in let R1 := fresh "R" in
    destruct (sw_sim g policy _ _ _ _ _ _ _ H) as (c1 & R1 & Q);
    apply (Reach_trans _ _ _ _ _ R1); clear R1 H.

  (* ================= get ================= *)
  (* what the correspondence needs of the upper invariant (a fragment of UpperInv): the lower invariant, one tree
     entry per table, present slots point into existing trees *)
  Definition SInv (u : upper) : Prop :=
    LowerInv g (low u) /\ ntrees u = ntab g (frames (low u)) /\
    (forall c idx s, slot_at u c idx = Some s -> s_pres s = true -> row_tree g (s_row s) < ntrees u).

  Lemma SInv_set_tree u i t : SInv u -> SInv (set_tree u i t).
  Proof.
    intros (H1 & H2 & H3). split; [exact H1|]. split.
    - unfold ntrees, set_tree, with_trees in *. cbn [trees low]. rewrite upd_length. exact H2.
    - intros c idx s Hs Hp. unfold ntrees, set_tree, with_trees. cbn [trees]. rewrite upd_length. exact (H3 c idx s Hs Hp).
  Qed.
  Lemma SInv_with_low u l' : SInv u -> LowerInv g l' -> frames l' = frames (low u) -> SInv (with_low u l').
  Proof.
    intros (H1 & H2 & H3) HL HF. split; [exact HL|]. split.
    - unfold ntrees, with_low in *. cbn [trees low]. rewrite HF. exact H2.
    - exact H3.
  Qed.
  Lemma ntrees_set_slot u c idx s : ntrees (set_slot u c idx s) = ntrees u.
  Proof. unfold set_slot. destruct (class_slots u c); reflexivity. Qed.
  Lemma low_set_slot u c idx s : low (set_slot u c idx s) = low u.
  Proof. unfold set_slot. destruct (class_slots u c); reflexivity. Qed.
  Lemma SInv_set_slot u c idx s' : SInv u -> (s_pres s' = true -> row_tree g (s_row s') < ntrees u) ->
    SInv (set_slot u c idx s').
  Proof.
    intros (H1 & H2 & H3) Hs'. split; [rewrite low_set_slot; exact H1|]. split.
    - rewrite ntrees_set_slot, low_set_slot. exact H2.
    - intros c2 idx2 s Hs Hp. rewrite ntrees_set_slot.
      destruct (N.eq_dec c2 c) as [->|Hc]; [destruct (N.eq_dec idx2 idx) as [->|Hi]|].
      + destruct (slot_at u c idx) eqn:E.
        * change (UpperPrims.slot_at (set_slot u c idx s') c idx = Some s) in Hs.
          rewrite slot_at_set_slot_same in Hs by (change (slot_at u c idx <> None); rewrite E; discriminate).
          injection Hs as <-. apply Hs'. exact Hp.
        * (* out of range: nothing changed *)
          assert (set_slot u c idx s' = u \/ slot_at (set_slot u c idx s') c idx = None) as [E2|E2].
          { right. unfold slot_at, set_slot in *. destruct (class_slots u c) as [l|] eqn:Ec.
            - pose proof (class_slots_set_slot_same u c idx s' l Ec) as E3. unfold set_slot in E3. rewrite Ec in E3.
              rewrite E3. apply nth_error_None. rewrite upd_length. apply nth_error_None. exact E.
            - rewrite Ec. reflexivity. }
          -- rewrite E2 in Hs. exact (H3 c idx s Hs Hp).
          -- rewrite E2 in Hs. discriminate.
      + change (UpperPrims.slot_at (set_slot u c idx s') c idx2 = Some s) in Hs.
        rewrite slot_at_set_slot_other in Hs by congruence. exact (H3 c idx2 s Hs Hp).
      + change (UpperPrims.slot_at (set_slot u c idx s') c2 idx2 = Some s) in Hs.
        rewrite slot_at_set_slot_other in Hs by congruence. exact (H3 c2 idx2 s Hs Hp).
  Qed.

  Definition Keeps (u u' : upper) : Prop := SInv u' /\ frames (low u') = frames (low u).
  Lemma Keeps_refl u : SInv u -> Keeps u u.
  Proof. intros H. split; [exact H | reflexivity]. Qed.
  Lemma Keeps_trans u u1 u2 : Keeps u u1 -> Keeps u1 u2 -> Keeps u u2.
  Proof. intros [_ H1] [H2 H3]. split; [exact H2 | congruence]. Qed.
  Lemma Keeps_set_tree u u1 i t : Keeps u u1 -> Keeps u (set_tree u1 i t).
  Proof. intros [H1 H2]. split; [apply SInv_set_tree; exact H1 | exact H2]. Qed.
  Lemma Keeps_set_slot u u1 c idx s' : Keeps u u1 -> (s_pres s' = true -> row_tree g (s_row s') < ntrees u1) ->
    Keeps u (set_slot u1 c idx s').
  Proof. intros [H1 H2] Hs. split; [apply SInv_set_slot; assumption | rewrite low_set_slot; exact H2]. Qed.

  Lemma with_low_id u : with_low u (low u) = u.
  Proof. destruct u; reflexivity. Qed.

  (* ----- Lower::get / get_at from the upper layer ----- *)
  Definition lowget_ok (u : upper) (row : N) (order : nat) (frame : option N) : Prop :=
    Nat.leb order (tord g) = true /\
    match frame with
    | None => row_tree g row < ntrees u
    | Some f => f mod pow2 order = 0 /\ f + pow2 order <= frames (low u)
    end.

  Lemma big_lgc l row order frame : big g l (low_get_call row order frame) = lower_get_opt g l row order frame.
  Proof. destruct frame; reflexivity. Qed.

  Lemma lowget_sim u row order frame k d cf : SInv u -> lowget_ok u row order frame ->
    At d u (enter_low g (low_get_call row order frame) k) cf ->
    Reach cf (fun c' =>
      match lget_low g u row order frame with
      | (Ok f, u') => At 0 u' (ARet (VL (Ok f)) k) c' /\ Keeps u u' /\ f / TF < ntrees u /\
                      match frame with None => f / TF = row_tree g row | Some f0 => f = f0 end
      | (Err e, u') => At 0 u' (ARet (VL (Err e)) k) c' /\ u' = u
      | (Panic s, _) => False
      end).
  Proof.
    intros HI (Ho & Hf) HA. pose proof HI as (HL & HN & HS).
    pose proof (lower_facts_proved g WF) as LF. pose proof (LowerInv_Shape g _ HL) as Sh.
    destruct (low_sim g policy WF u (low_get_call row order frame) k d cf Sh) as (c1 & R1 & Q1); [|exact HA|].
    { unfold call_ok. destruct frame as [f|]; cbn [low_get_call c_order mk ms_frames]; rewrite Ho; cbn [andb].
      - destruct Hf as [Hf1 Hf2]. apply andb_true_iff. split; [apply N.eqb_eq; exact Hf1 | apply N.leb_le; exact Hf2].
      - apply N.ltb_lt. rewrite <- HN. exact Hf. }
    exists c1. split; [exact R1|]. rewrite big_lgc in Q1. unfold lget_low.
    apply Nat.leb_le in Ho.
    destruct frame as [f|]; cbn [lower_get_opt] in *.
    - destruct Hf as [Hf1 Hf2].
      pose proof (lf_get_at g LF (low u) f order) as Hg.
      destruct (lower_get_at g (low u) f order) as [[y|e|x] l'] eqn:Eg;
        specialize (Hg _ _ HL Ho ltac:(unfold aligned; apply N.eqb_eq; exact Hf1) Hf2 eq_refl); cbn [fst snd low_out Lands] in Q1.
      + destruct Hg as (_ & _ & HL' & HF' & _). split; [exact Q1|]. split; [split; [apply SInv_with_low; assumption | exact HF']|].
        split; [|reflexivity]. rewrite HN. apply (div_lt_ntab g). pose proof (sr_pow2_pos order). lia.
      + destruct Hg as (_ & -> & _). rewrite with_low_id in *. split; [exact Q1 | reflexivity].
      + exact Hg.
    - pose proof (lf_get g LF (low u) row order) as Hg.
      destruct (lower_get g (low u) row order) as [[f|e|x] l'] eqn:Eg;
        specialize (Hg _ _ HL Ho ltac:(rewrite <- HN; exact Hf) eq_refl); cbn [fst snd low_out Lands] in Q1.
      + destruct Hg as (Ht & _ & _ & HL' & HF' & _). split; [exact Q1|]. split; [split; [apply SInv_with_low; assumption | exact HF']|].
        unfold row_tree. rewrite Ht. split; [exact Hf | reflexivity].
      + destruct Hg as (_ & -> & _). rewrite with_low_id in *. split; [exact Q1 | reflexivity].
      + exact Hg.
  Qed.


  (* the block of a get_at: aligned and inside the managed range *)
  Definition fok (u : upper) (frame : option N) (order : nat) : Prop :=
    match frame with Some f => f mod pow2 order = 0 /\ f + pow2 order <= frames (low u) | None => True end.
  Lemma fok_keeps u u' frame order : Keeps u u' -> fok u frame order -> fok u' frame order.
  Proof. intros [_ H]. unfold fok. destruct frame; [rewrite H|]; auto. Qed.
  Lemma lowget_ok_intro u row order frame : Nat.leb order (tord g) = true -> fok u frame order ->
    row_tree g row < ntrees u -> lowget_ok u row order frame.
  Proof. intros Ho Hf Hr. split; [exact Ho|]. destruct frame; [exact Hf | exact Hr]. Qed.

  Lemma slot_get_some s tree free s' : slot_get g s tree free = Some s' ->
    s_pres s = true /\ s_pres s' = true /\ s_row s' = s_row s.
  Proof.
    unfold slot_get. destruct (s_pres s); cbn [andb]; [|discriminate].
    destruct (match tree with Some i => row_tree g (s_row s) =? i | None => true end); [|discriminate].
    destruct (free <=? s_free s); [|discriminate]. intros H. injection H as <-. repeat split; reflexivity.
  Qed.

  (* model level: the tree operations keep the invariant *)
  Lemma trees_put_keeps u0 u i free : Keeps u0 u -> Keeps u0 (snd (trees_put g policy u i free)).
  Proof.
    intros H. unfold trees_put. destruct (tree_at u i); [|exact H].
    destruct (tree_put g policy (dflt u) t free); cbn [snd]; [apply Keeps_set_tree|..]; exact H.
  Qed.
  Lemma trees_unreserve_keeps u0 u i free class : Keeps u0 u -> Keeps u0 (snd (trees_unreserve g policy u i free class)).
  Proof.
    intros H. unfold trees_unreserve. destruct (tree_at u i); [|exact H].
    destruct (tree_unreserve_add g policy (dflt u) t free class) as [[t'|e|x]|]; cbn [snd]; [apply Keeps_set_tree|..]; exact H.
  Qed.
  Lemma trees_sync_keeps u0 u i min : Keeps u0 u -> Keeps u0 (snd (trees_sync u i min)).
  Proof.
    intros H. unfold trees_sync. destruct (tree_at u i); [|exact H].
    destruct (tree_sync_steal t min); cbn [snd]; [apply Keeps_set_tree|]; exact H.
  Qed.
  Lemma trees_steal_keeps u0 u i class free : Keeps u0 u -> Keeps u0 (snd (trees_steal policy u i class free)).
  Proof.
    intros H. unfold trees_steal. destruct (tree_at u i); [|exact H].
    destruct (tree_steal policy t class free); cbn [snd]; [apply Keeps_set_tree|]; exact H.
  Qed.
  Lemma trees_ros_keeps u0 u i class free : Keeps u0 u -> Keeps u0 (snd (trees_reserve_or_steal policy u i class free)).
  Proof.
    intros H. unfold trees_reserve_or_steal. destruct (tree_at u i); [|exact H].
    destruct (tree_reserve_or_steal policy t free class); cbn [snd]; [apply Keeps_set_tree|]; exact H.
  Qed.

  (* trees.put(..), then return r0 (frame KRetR): from UpperSolo.v *)
  Notation tput_ret_sim := (tput_ret_sim g policy).

  (* trees.unreserve(..).expect(..), then return r0 (frame KUnres) *)
  Lemma tree_unreserve_no_err d t free class e : tree_unreserve_add g policy d t free class <> Some (Err e).
  Proof.
    unfold tree_unreserve_add. destruct (t_res t); [|discriminate]. intros H. injection H as H.
    destruct (policy class (t_class t) free); try discriminate H; eapply tree_put_no_err; exact H.
  Qed.

  Lemma tunres_ret_sim u i free class r0 k d cf : res_ok r0 = true ->
    At d u (enter_tu u i (FUnres free class) (KUnres r0 :: k)) cf ->
    Reach cf (fun c' =>
      match trees_unreserve g policy u i free class with
      | (Ok _, u') => At 1 u' (ARet (VR r0) k) c'
      | (Panic s, _) => Crashed s c'
      | (Err _, _) => False
      end).
  Proof.
    intros Hr HA. use_tu HA Q. unfold trees_unreserve.
    destruct (tree_at u i) as [t|]; [|crashed].
    destruct (tree_unreserve_add g policy (dflt u) t free class) as [[t'|e|x]|] eqn:E.
    - ret_step Q. apply Reach_here. destruct r0; [exact Q | exact Q | discriminate Hr].
    - exfalso. eapply tree_unreserve_no_err; exact E.
    - crashed.
    - ret_step Q. apply At_panic in Q. apply Reach_here. eexists. exact Q.
  Qed.

  (* ----- get_local ----- *)
  Definition GLPost (d : nat) (k : list kframe) (u : upper) (x : glr * upper) (c' : CF) : Prop :=
    match x with
    | (GPanic s, _) => Crashed s c'
    | (r, u') => At (Nat.max d 1) u' (ARet (VG r) k) c' /\ Keeps u u'
    end.

  (* after the slot delivered a row: Lower::get, then set_start or the undo *)
  Lemma get_local_row_sim u0 u order class local frame row k cf : Keeps u0 u -> lowget_ok u row order frame ->
    At 1 u (enter_low g (low_get_call row order frame) (KGL2 order class local row :: k)) cf ->
    Reach cf (fun c' =>
      match (match lget_low g u row order frame with
             | (Ok f, u2) =>
                 if negb (row =? f / 64) then
                   match locals_set_start g u2 class local (f / 64) with
                   | (Panic s, u3) => (GPanic s, u3)
                   | (_, u3) => (GOk f class, u3)
                   end
                 else (GOk f class, u2)
             | (Err e, u2) =>
                 match trees_put g policy u2 (row_tree g row) (pow2 order) with
                 | (Panic s, u3) => (GPanic s, u3)
                 | (_, u3) => (GErr e (Some (row_tree g row)), u3)
                 end
             | (Panic s, u2) => (GPanic s, u2)
             end) with
      | (GPanic s, _) => Crashed s c'
      | (r, u') => At 1 u' (ARet (VG r) k) c' /\ Keeps u0 u'
      end).
  Proof.
    intros HK Hok HA. destruct HK as [HI HFr].
    apply (Reach_bind _ _ _ _ _ (lowget_sim u row order frame _ 1 cf HI Hok HA)). intros c1 Q1.
    destruct (lget_low g u row order frame) as [[f|e|x] u2]; [| |destruct Q1].
    - destruct Q1 as (Q1 & HK2 & Hft & _). ret_step Q1.
      assert (HK02 : Keeps u0 u2) by (eapply Keeps_trans; [split; [exact HI | exact HFr] | exact HK2]).
      destruct (row =? f / 64); cbn [negb].
      + apply Reach_here. split; [exact Q1 | exact HK02].
      + unfold locals_set_start. unfold class_locals in Q1.
        destruct (class_slots u2 class) as [l|] eqn:Ecs; cbn [option_map] in Q1.
        2: { apply Reach_here. split; [exact Q1 | exact HK02]. }
        destruct (nth_error l (nn local)) as [s|] eqn:En.
        2: { replace (local <? N.of_nat (length l)) with false in Q1
               by (symmetry; apply N.ltb_ge; apply nth_error_None in En; unfold nn in En; lia).
             apply At_panic in Q1. apply Reach_here. eexists. exact Q1. }
        replace (local <? N.of_nat (length l)) with true in Q1
          by (symmetry; apply N.ltb_lt; pose proof (sr_some_lt _ _ _ En); unfold nn in *; lia).
        use_su Q1 Q2. unfold slot_at in Q2. rewrite Ecs, En in Q2.
        destruct (slot_set_start g s (f / 64)) as [s'|] eqn:Ess; cbn [option_map] in Q2.
        * ret_step Q2. apply Reach_here. split; [exact Q2|]. apply Keeps_set_slot; [exact HK02|].
          intros _. unfold slot_set_start in Ess.
          destruct (s_pres s && (row_tree g (s_row s) =? row_tree g (f / 64)) && negb (s_row s =? f / 64)) eqn:Ec; [|discriminate].
          injection Ess as <-. cbn [s_row].
          apply andb_true_iff in Ec. destruct Ec as [Ec _]. apply andb_true_iff in Ec. destruct Ec as [Ep Er].
          apply N.eqb_eq in Er. rewrite <- Er.
          destruct HK02 as [(_ & _ & HS) _]. apply (HS class local s); [unfold slot_at; rewrite Ecs; exact En | exact Ep].
        * ret_step Q2. apply Reach_here. split; [exact Q2 | exact HK02].
    - destruct Q1 as (Q1 & ->). ret_step Q1.
      pose proof (trees_put_keeps u0 u (row_tree g row) (pow2 order) (conj HI HFr)) as HKp.
      unfold enter_tput in Q1. use_tu Q1 Q2.
      unfold trees_put in *.
      destruct (tree_at u (row_tree g row)) as [t|]; [|crashed].
      destruct (tree_put g policy (dflt u) t (pow2 order)) as [t'|e2|x] eqn:Etp; cbn [snd] in HKp.
      + ret_step Q2. apply Reach_here. split; [exact Q2 | exact HKp].
      + exfalso. eapply tree_put_no_err; exact Etp.
      + crashed.
  Qed.

  (* trees.put(..) (undo), then get_local returns Err (frame KGL4) *)
  Lemma tput_gl4_sim u0 u i free e t k d cf : Keeps u0 u -> At d u (enter_tput u i free (KGL4 e t :: k)) cf ->
    Reach cf (fun c' =>
      match trees_put g policy u i free with
      | (Panic s, _) => Crashed s c'
      | (_, u') => At 1 u' (ARet (VG (GErr e (Some t))) k) c' /\ Keeps u0 u'
      end).
  Proof.
    intros HK HA. pose proof (trees_put_keeps u0 u i free HK) as HKp.
    unfold enter_tput in HA. use_tu HA Q. unfold trees_put in *.
    destruct (tree_at u i) as [tt|]; [|crashed].
    destruct (tree_put g policy (dflt u) tt free) as [t'|e2|x] eqn:Etp; cbn [snd] in HKp.
    - ret_step Q. apply Reach_here. split; [exact Q | exact HKp].
    - exfalso. eapply tree_put_no_err; exact Etp.
    - crashed.
  Qed.

  Lemma slot_put_some s tree free s' : slot_put g s tree free = Some (Ok s') ->
    s_pres s = true /\ s_row s' = s_row s.
  Proof.
    unfold slot_put. destruct (s_pres s); cbn [andb]; [|discriminate].
    destruct (row_tree g (s_row s) =? tree); [|discriminate].
    destruct (s_free s + free <=? TF); [|discriminate]. intros H. injection H as <-. split; reflexivity.
  Qed.

  Section GetLocal.
    Variable u0 : upper.
    Variable order : nat.
    Variable class local : N.
    Variable frame : option N.
    Hypothesis Hord : Nat.leb order (tord g) = true.
    Hypothesis Hfok : fok u0 frame order.

    Lemma get_local_step sync fuel' :
      (sync = true -> forall u k d cf, Keeps u0 u -> (d <= 40)%nat ->
         At d u (enter_get_local g u order class local frame false k) cf ->
         Reach cf (GLPost d k u0 (get_local g policy fuel' u order class local frame false))) ->
      forall u k d cf, Keeps u0 u -> (d <= 40)%nat ->
        At d u (enter_get_local g u order class local frame sync k) cf ->
        Reach cf (GLPost d k u0 (get_local g policy (S fuel') u order class local frame sync)).
    Proof.
      intros Hrec u k d cf HK Hd HA. pose proof HK as [HI HFr]. pose proof HI as (HL & HN & HS).
      unfold enter_get_local in HA. cbn [get_local]. unfold locals_get. unfold class_locals in HA.
      destruct (class_slots u class) as [l|] eqn:Ecs; cbn [option_map] in HA.
      2: { apply Reach_here. cbn [GLPost]. split; [eapply At_mono; [exact HA | lia] | exact HK]. }
      destruct (nth_error l (nn local)) as [s|] eqn:En.
      2: { replace (local <? N.of_nat (length l)) with false in HA
             by (symmetry; apply N.ltb_ge; apply nth_error_None in En; unfold nn in En; lia).
           apply At_panic in HA. apply Reach_here. eexists. exact HA. }
      replace (local <? N.of_nat (length l)) with true in HA
        by (symmetry; apply N.ltb_lt; pose proof (sr_some_lt _ _ _ En); unfold nn in *; lia).
      assert (Hsl : slot_at u class local = Some s) by (unfold slot_at; rewrite Ecs; exact En).
      use_su HA Q. rewrite Hsl in Q.
      destruct (slot_get g s (option_map (fun f => f / TF) frame) (pow2 order)) as [s'|] eqn:Esg; cbn [option_map] in Q.
      - (* the slot has enough frames *)
        destruct (slot_get_some _ _ _ _ Esg) as (Hp & Hp' & Hr').
        ret_step Q.
        assert (HK1 : Keeps u0 (set_slot u class local s')).
        { apply Keeps_set_slot; [exact HK|]. intros _. rewrite Hr'. exact (HS _ _ _ Hsl Hp). }
        eapply Reach_weaken; [apply (get_local_row_sim u0 _ order class local frame (s_row s) k _ HK1); [|exact Q]|].
        + apply lowget_ok_intro; [exact Hord | eapply fok_keeps; [exact HK1 | exact Hfok] |].
          rewrite ntrees_set_slot. exact (HS _ _ _ Hsl Hp).
        + intros c'. cbv beta. unfold GLPost.
          match goal with |- match ?X with _ => _ end -> match ?Y with _ => _ end => change Y with X; destruct X as [[f c2|e2 t2|x] u'] end;
            try (intros H; exact H); intros [H1 H2]; (split; [eapply At_mono; [exact H1 | lia] | exact H2]).
      - (* no: a reservation that is too small, or none *)
        ret_step Q. destruct (s_pres s) eqn:Hp.
        2: { apply Reach_here. cbn [GLPost]. split; [eapply At_mono; [exact Q | lia] | exact HK]. }
        cbn [slot_resv rv_row rv_free].
        destruct (sync && match frame with Some fr => fr / TF =? row_tree g (s_row s) | None => true end) eqn:Esy.
        2: { apply Reach_here. cbn [GLPost]. split; [eapply At_mono; [exact Q | lia] | exact HK]. }
        assert (Hs : sync = true) by (destruct sync; [reflexivity | discriminate Esy]).
        destruct (pow2 order <? s_free s).
        { apply At_panic in Q. apply Reach_here. eexists. exact Q. }
        set (t := row_tree g (s_row s)) in *.
        pose proof (trees_sync_keeps u0 u t (pow2 order - s_free s) HK) as HK2.
        use_tu Q Q2. unfold trees_sync in *.
        destruct (tree_at u t) as [tt|] eqn:Et; [|crashed].
        destruct (tree_sync_steal tt (pow2 order - s_free s)) as [t'|]; cbn [option_map snd] in *.
        2: { ret_step Q2. apply Reach_here. cbn [GLPost]. split; [eapply At_mono; [exact Q2 | lia] | exact HK]. }
        ret_step Q2. set (u2 := set_tree u t t') in *.
        (* locals.put(tree, free) *)
        unfold locals_put. unfold class_locals in Q2.
        assert (Ecs2 : class_slots u2 class = Some l) by exact Ecs. rewrite Ecs2 in *. cbn [option_map] in Q2.
        rewrite En.
        replace (local <? N.of_nat (length l)) with true in Q2
          by (symmetry; apply N.ltb_lt; pose proof (sr_some_lt _ _ _ En); unfold nn in *; lia).
        assert (Hundo : forall cf', At 1 u2 (enter_tput u2 t (t_free tt) (KGL4 EMemory t :: k)) cf' ->
                  Reach cf' (GLPost d k u0 (match trees_put g policy u2 t (t_free tt) with
                                           | (Panic s0, u4) => (GPanic s0, u4)
                                           | (_, u4) => (GErr EMemory (Some t), u4)
                                           end))).
        { intros cf' H. eapply Reach_weaken; [apply (tput_gl4_sim u0 _ _ _ _ _ _ _ _ HK2 H)|].
          intros c'. cbv beta. destruct (trees_put g policy u2 t (t_free tt)) as [[y|e2|x] u4]; cbn [GLPost];
            try (intros H1; exact H1); intros [H1 H2]; (split; [eapply At_mono; [exact H1 | lia] | exact H2]). }
        use_su Q2 Q3. unfold slot_at in Q3. rewrite Ecs2, En in Q3.
        destruct (slot_put g s t (t_free tt)) as [[s2|e2|x2]|] eqn:Esp.
        + ret_step Q3. destruct (slot_put_some _ _ _ _ Esp) as (_ & Hr2).
          eapply Reach_weaken; [apply (Hrec Hs (set_slot u2 class local s2) k 1%nat _); [| lia | exact Q3]|].
          * apply Keeps_set_slot; [exact HK2|]. intros _. rewrite Hr2.
            destruct HK2 as [(_ & _ & HS2) _]. apply (HS2 class local s); [unfold slot_at; rewrite Ecs2; exact En | exact Hp].
          * intros c'. unfold GLPost.
            destruct (get_local g policy fuel' (set_slot u2 class local s2) order class local frame false) as [[f c2|e3 t3|x] u'];
              try (intros H; exact H); intros [H1 H2]; (split; [eapply At_mono; [exact H1 | lia] | exact H2]).
        + exfalso. eapply slot_put_no_err; exact Esp.
        + crashed.
        + ret_step Q3. apply Hundo. exact Q3.
    Qed.
  End GetLocal.

  Lemma get_local_sim u0 order class local frame : Nat.leb order (tord g) = true -> fok u0 frame order ->
    forall u k d cf, Keeps u0 u -> (d <= 40)%nat ->
      At d u (enter_get_local g u order class local frame true k) cf ->
      Reach cf (GLPost d k u0 (get_local g policy 2 u order class local frame true)).
  Proof.
    intros Ho Hf. apply (get_local_step u0 order class local frame Ho Hf true 1).
    intros _. apply (get_local_step u0 order class local frame Ho Hf false 0). intros H. discriminate H.
  Qed.

  (* what a function of llfree.rs delivers to k *)
  Definition RPost (d : nat) (k : list kframe) (u0 : upper) (x : res (N * N) * upper) (c' : CF) : Prop :=
    match x with
    | (Panic s, _) => Crashed s c'
    | (r, u') => At d u' (ARet (VR r) k) c' /\ Keeps u0 u'
    end.
  Lemma RPost_mono d d' k u0 x c' : (d <= d')%nat -> RPost d k u0 x c' -> RPost d' k u0 x c'.
  Proof.
    intros H. unfold RPost. destruct x as [[y|e|s] u']; try (intros Q; exact Q);
      intros [Q1 Q2]; (split; [eapply At_mono; [exact Q1 | exact H] | exact Q2]).
  Qed.

  Lemma tree_at_lt u i t : tree_at u i = Some t -> i < ntrees u.
  Proof. intros H. pose proof (sr_some_lt _ _ _ H). unfold ntrees, nn in *. lia. Qed.
  Lemma ntrees_set_tree u i t : ntrees (set_tree u i t) = ntrees u.
  Proof. unfold ntrees, set_tree, with_trees. cbn [trees]. rewrite upd_length. reflexivity. Qed.

  (* ----- steal_global ----- *)
  Lemma steal_global_sim u0 u i class order frame k d cf : Keeps u0 u -> Nat.leb order (tord g) = true ->
    fok u0 frame order -> At d u (enter_steal_global u i class order frame k) cf ->
    Reach cf (RPost 1 k u0 (steal_global g policy u i class order frame)).
  Proof.
    intros HK Ho Hf HA. unfold enter_steal_global in HA. use_tu HA Q. unfold steal_global, trees_steal.
    destruct (tree_at u i) as [t|] eqn:Et; cbn [lift]; [|crashed].
    destruct (tree_steal policy t class (pow2 order)) as [t'|]; cbn [option_map lift] in *.
    2: { ret_step Q. apply Reach_here. split; [exact Q | exact HK]. }
    ret_step Q. set (u1 := set_tree u i t') in *.
    assert (HK1 : Keeps u0 u1) by (apply Keeps_set_tree; exact HK).
    assert (Hok : lowget_ok u1 (tree_row g i) order frame).
    { apply lowget_ok_intro; [exact Ho | eapply fok_keeps; [exact HK1 | exact Hf] |].
      rewrite (row_tree_tree_row g WF). unfold u1. rewrite ntrees_set_tree. eapply tree_at_lt; exact Et. }
    apply (Reach_bind _ _ _ _ _ (lowget_sim u1 _ order frame _ _ _ (proj1 HK1) Hok Q)). intros c1 Q1.
    destruct (lget_low g u1 (tree_row g i) order frame) as [[f|e|x] u2]; [| |destruct Q1].
    - destruct Q1 as (Q1 & HK2 & _). ret_step Q1. apply Reach_here. split; [exact Q1 | eapply Keeps_trans; eassumption].
    - destruct Q1 as (Q1 & ->). ret_step Q1.
      pose proof (trees_put_keeps u0 u1 i (pow2 order) HK1) as HKp.
      eapply Reach_weaken; [apply (tput_ret_sim _ _ _ (Err e) _ _ _ eq_refl Q1)|].
      intros c'. cbv beta. destruct (trees_put g policy u1 i (pow2 order)) as [[y|e2|x] u3]; cbn [lift RPost snd] in *.
      + intros H. split; [exact H | exact HKp].
      + intros [].
      + intros H. exact H.
  Qed.

  Lemma Keeps_ntrees u u' : SInv u -> Keeps u u' -> ntrees u' = ntrees u.
  Proof. intros (_ & H & _) [(_ & H' & _) HF]. rewrite H, H', HF. reflexivity. Qed.

  (* ----- reserve_or_steal ----- *)
  Lemma ros_sim u0 u i order class local k d cf : Keeps u0 u -> Nat.leb order (tord g) = true ->
    At d u (enter_access u (AcRos order class local) i k) cf ->
    Reach cf (RPost 1 k u0 (reserve_or_steal g policy u i order class local)).
  Proof.
    intros HK Ho HA. cbn [enter_access] in HA. use_tu HA Q. unfold reserve_or_steal, trees_reserve_or_steal.
    destruct (tree_at u i) as [t|] eqn:Et; cbn [lift]; [|crashed].
    destruct (tree_reserve_or_steal policy t (pow2 order) class) as [t'|]; cbn [option_map lift] in *.
    2: { ret_step Q. apply Reach_here. split; [exact Q | exact HK]. }
    ret_step Q. set (u1 := set_tree u i t') in *.
    assert (HK1 : Keeps u0 u1) by (apply Keeps_set_tree; exact HK).
    assert (Hi1 : i < ntrees u1) by (unfold u1; rewrite ntrees_set_tree; eapply tree_at_lt; exact Et).
    assert (Hok : lowget_ok u1 (tree_row g i) order None).
    { split; [exact Ho|]. rewrite (row_tree_tree_row g WF). exact Hi1. }
    change (enter_low g (CGet (tree_row g i) order)) with (enter_low g (low_get_call (tree_row g i) order None)) in Q.
    apply (Reach_bind _ _ _ _ _ (lowget_sim u1 _ order None _ _ _ (proj1 HK1) Hok Q)). intros c1 Q1.
    destruct (lget_low g u1 (tree_row g i) order None) as [[f|e|x] u2]; [| |destruct Q1].
    - destruct Q1 as (Q1 & HK2 & Hft & Hfi). ret_step Q1.
      assert (HK02 : Keeps u0 u2) by (eapply Keeps_trans; eassumption).
      destruct (t_res t').
      2: { apply Reach_here. split; [exact Q1 | exact HK02]. }
      unfold class_locals in *.
      destruct (class_slots u2 (t_class t')) as [l|] eqn:Ecs; cbn [option_map] in *.
      2: { apply Reach_here. split; [exact Q1 | exact HK02]. }
      destruct (0 <? N.of_nat (length l)) eqn:El.
      2: { apply Reach_here. split; [exact Q1 | exact HK02]. }
      use_sw Q1 Q2. unfold locals_swap. rewrite Ecs. unfold slot_at in Q2. rewrite Ecs in Q2.
      destruct (nth_error l (nn (local mod N.of_nat (length l)))) as [old|] eqn:En; cbn [lift]; [|crashed].
      ret_step Q2.
      set (u3 := set_slot u2 (t_class t') (local mod N.of_nat (length l))
                   {| s_pres := true; s_row := tree_row g (f / TF); s_free := t_free t - pow2 order |}) in *.
      assert (HK3 : Keeps u0 u3).
      { apply Keeps_set_slot; [exact HK02|]. intros _. cbn [s_row]. rewrite (row_tree_tree_row g WF).
        rewrite (Keeps_ntrees u1 u2 (proj1 HK1) HK2). exact Hft. }
      destruct (s_pres old) eqn:Hp.
      2: { apply Reach_here. split; [exact Q2 | exact HK3]. }
      cbn [slot_resv rv_row rv_free].
      pose proof (trees_unreserve_keeps u0 u3 (row_tree g (s_row old)) (s_free old) (t_class t') HK3) as HK4.
      eapply Reach_weaken; [apply (tunres_ret_sim _ _ _ _ (Ok (f, t_class t')) _ _ _ eq_refl Q2)|].
      intros c'. cbv beta.
      destruct (trees_unreserve g policy u3 (row_tree g (s_row old)) (s_free old) (t_class t')) as [[y|e2|x] u4]; cbn [lift RPost snd] in *.
      + intros H. split; [exact H | exact HK4].
      + intros [].
      + intros H. exact H.
    - destruct Q1 as (Q1 & ->). ret_step Q1.
      destruct (t_res t').
      + pose proof (trees_unreserve_keeps u0 u1 i (t_free t) (t_class t') HK1) as HK4.
        eapply Reach_weaken; [apply (tunres_ret_sim _ _ _ _ (Err e) _ _ _ eq_refl Q1)|].
        intros c'. cbv beta.
        destruct (trees_unreserve g policy u1 i (t_free t) (t_class t')) as [[y|e2|x] u4]; cbn [lift RPost snd] in *.
        * intros H. split; [exact H | exact HK4].
        * intros [].
        * intros H. exact H.
      + pose proof (trees_put_keeps u0 u1 i (pow2 order) HK1) as HKp.
        eapply Reach_weaken; [apply (tput_ret_sim _ _ _ (Err e) _ _ _ eq_refl Q1)|].
        intros c'. cbv beta. destruct (trees_put g policy u1 i (pow2 order)) as [[y|e2|x] u3]; cbn [lift RPost snd] in *.
        * intros H. split; [exact H | exact HKp].
        * intros [].
        * intros H. exact H.
  Qed.

  (* ----- search_best, for an access closure that is simulated ----- *)
  Section Search.
    Variable access : upper -> N -> res (N * N) * upper.
    Variable a : acc.
    Variable rate : N -> N -> pol.
    Variable rt : ratek.
    Variable u0 : upper.
    Hypothesis Hacc : forall u i k d cf, Keeps u0 u -> (d <= 40)%nat -> At d u (enter_access u a i k) cf ->
      Reach cf (RPost 1 k u0 (access u i)).
    Hypothesis Hrate : forall t f, rate_apply g policy rt t f = rate t f.

    Lemma sb_try_sim cands : forall u sb k d cf, sb_acc sb = a -> Keeps u0 u -> (d <= 40)%nat ->
      At d u (UpperMachine.sb_try u sb cands k) cf ->
      Reach cf (RPost (Nat.max d 2) k u0 (Upper.sb_try access u cands)).
    Proof.
      induction cands as [|[key i] r IH]; intros u sb k d cf Ha HK Hd HA.
      - cbn [UpperMachine.sb_try] in HA. cbn [Upper.sb_try RPost]. apply Reach_here.
        split; [eapply At_mono; [exact HA | lia] | exact HK].
      - cbn [UpperMachine.sb_try] in HA. cbn [Upper.sb_try]. rewrite Ha in HA.
        apply (Reach_bind _ _ _ _ _ (Hacc _ _ _ _ _ HK Hd HA)). intros c1 Q1.
        destruct (access u i) as [[y|[| |]|x] u']; cbn [RPost] in Q1.
        + destruct Q1 as [Q1 HK']. ret_step Q1. apply Reach_here. split; [eapply At_mono; [exact Q1 | lia] | exact HK'].
        + destruct Q1 as [Q1 HK']. ret_step Q1.
          eapply Reach_weaken; [apply (IH u' sb k 2%nat c1 Ha HK'); [lia | exact Q1]|].
          intros c'. apply RPost_mono. lia.
        + destruct Q1 as [Q1 HK']. ret_step Q1. apply Reach_here. split; [eapply At_mono; [exact Q1 | lia] | exact HK'].
        + destruct Q1 as [Q1 HK']. ret_step Q1. apply Reach_here. split; [eapply At_mono; [exact Q1 | lia] | exact HK'].
        + apply Reach_here. exact Q1.
    Qed.

    Lemma sb_loop_sim n : forall u sb k d cf, sb_acc sb = a -> sb_rate sb = rt -> sb_n sb = n -> Keeps u0 u ->
      (d <= 40)%nat -> At d u (sb_next u sb k) cf ->
      Reach cf (RPost (Nat.max d 2) k u0
                  (sb_loop g access rate (sb_cap sb) u (sb_start sb) (sb_i sb) n (sb_best sb))).
    Proof.
      induction n as [|n IH]; intros u sb k d cf Ha Hr Hn HK Hd HA; unfold sb_next in HA; rewrite Hn in HA.
      - cbn [sb_loop]. apply (sb_try_sim _ _ _ _ _ _ Ha HK Hd HA).
      - cbv zeta in HA. cbn [sb_loop]. set (idx := walk_idx (sb_start sb) (ntrees u) (sb_i sb)) in *.
        destruct (tree_at u idx) as [t|] eqn:Et.
        2: { replace (tree_ok u idx) with false in HA
               by (symmetry; apply Bool.not_true_iff_false; intros H; apply tree_ok_at in H; congruence).
             apply At_panic in HA. apply Reach_here. eexists. exact HA. }
        replace (tree_ok u idx) with true in HA by (symmetry; apply tree_ok_at; rewrite Et; discriminate).
        destruct (ld_sim g policy _ _ _ _ _ HA) as (c1 & R1 & Q). apply (Reach_trans _ _ _ _ _ R1). clear R1 HA.
        rewrite Et in Q. ret_step Q.
        set (sb' := sb_adv sb (sb_best sb)) in *.
        assert (Ei : sb_i sb' - 1 = sb_i sb) by (unfold sb'; cbn [sb_adv sb_i]; lia).
        rewrite Ei in Q. fold idx in Q.
        assert (Fskip : forall c2, At 1 u (sb_next u sb' k) c2 ->
                  Reach c2 (RPost (Nat.max d 2) k u0
                    (sb_loop g access rate (sb_cap sb) u (sb_start sb) (sb_i sb + 1) n (sb_best sb)))).
        { intros c2 H. eapply Reach_weaken; [apply (IH u sb' k 1%nat c2 Ha Hr); [unfold sb'; cbn [sb_adv sb_n]; rewrite Hn; reflexivity | exact HK | lia | exact H]|].
          intros c'. apply RPost_mono. lia. }
        assert (Fcand : forall x c2,
                  At 1 u (sb_next u {| sb_acc := sb_acc sb'; sb_rate := sb_rate sb'; sb_cap := sb_cap sb';
                                       sb_start := sb_start sb'; sb_i := sb_i sb'; sb_n := sb_n sb';
                                       sb_best := sb_add N.leb (sb_cap sb') (sb_best sb') x |} k) c2 ->
                  Reach c2 (RPost (Nat.max d 2) k u0
                    (sb_loop g access rate (sb_cap sb) u (sb_start sb) (sb_i sb + 1) n
                       (sb_add N.leb (sb_cap sb) (sb_best sb) x)))).
        { intros x c2 H.
          match type of H with At _ _ (sb_next _ ?sbx _) _ =>
            eapply Reach_weaken; [apply (IH u sbx k 1%nat c2 Ha Hr); [unfold sb'; cbn [sb_adv sb_n]; rewrite Hn; reflexivity | exact HK | lia | exact H]|]
          end.
          intros c'. apply RPost_mono. lia. }
        assert (Facc : forall c2, At 1 u (enter_access u (sb_acc sb') idx (KSBA sb' :: k)) c2 ->
                  Reach c2 (RPost (Nat.max d 2) k u0
                    (match access u idx with
                     | (Err EMemory, u') => sb_loop g access rate (sb_cap sb) u' (sb_start sb) (sb_i sb + 1) n (sb_best sb)
                     | other => other
                     end))).
        { intros c2 H. change (sb_acc sb') with (sb_acc sb) in H. rewrite Ha in H.
          apply (Reach_bind _ _ _ _ _ (Hacc u idx _ 1%nat c2 HK ltac:(lia) H)). intros c3 Q3.
          destruct (access u idx) as [[y|[| |]|x] u']; cbn [RPost] in Q3.
          + destruct Q3 as [Q3 HK']. ret_step Q3. apply Reach_here. split; [eapply At_mono; [exact Q3 | lia] | exact HK'].
          + destruct Q3 as [Q3 HK']. ret_step Q3.
            eapply Reach_weaken; [apply (IH u' sb' k 2%nat c3 Ha Hr); [unfold sb'; cbn [sb_adv sb_n]; rewrite Hn; reflexivity | exact HK' | lia | exact Q3]|].
            intros c'. apply RPost_mono. lia.
          + destruct Q3 as [Q3 HK']. ret_step Q3. apply Reach_here. split; [eapply At_mono; [exact Q3 | lia] | exact HK'].
          + destruct Q3 as [Q3 HK']. ret_step Q3. apply Reach_here. split; [eapply At_mono; [exact Q3 | lia] | exact HK'].
          + apply Reach_here. exact Q3. }
        destruct (t_res t); [exact (Fskip _ Q)|].
        replace (rate_apply g policy (sb_rate sb') (t_class t) (t_free t)) with (rate (t_class t) (t_free t)) in Q
          by (change (sb_rate sb') with (sb_rate sb); rewrite Hr, Hrate; reflexivity).
        destruct (rate (t_class t) (t_free t)) as [[|q]| | |].
        all: repeat match type of Q with At _ _ (match ?q with _ => _ end) _ => destruct q end.
        all: first [exact (Fskip _ Q) | exact (Facc _ Q) | exact (Fcand _ _ Q)].
    Qed.

    Lemma search_best_sim cap u start offset len k d cf : Keeps u0 u -> (d <= 40)%nat ->
      At d u (enter_sb u a rt cap start offset len k) cf ->
      Reach cf (RPost (Nat.max d 2) k u0 (search_best g access rate cap u start offset len)).
    Proof.
      intros HK Hd HA. unfold enter_sb in HA. unfold search_best.
      destruct ((0 <? len - offset) && (ntrees u =? 0)).
      - apply At_panic in HA. apply Reach_here. eexists. exact HA.
      - match type of HA with At _ _ (sb_next _ ?sbx _) _ =>
          apply (sb_loop_sim _ u sbx k d cf eq_refl eq_refl eq_refl HK Hd HA) end.
    Qed.
  End Search.

  (* ----- search_and_reserve ----- *)
  Lemma sar_sim u0 u order class local start k d cf : Keeps u0 u -> Nat.leb order (tord g) = true -> (d <= 30)%nat ->
    At d u (enter_search_and_reserve g u order class local start k) cf ->
    Reach cf (RPost (Nat.max d 2 + 1) k u0 (search_and_reserve g policy u order class local start)).
  Proof.
    intros HK Ho Hd HA. unfold enter_search_and_reserve in HA. unfold search_and_reserve.
    assert (Hacc : forall u i k d cf, Keeps u0 u -> (d <= 40)%nat -> At d u (enter_access u (AcRos order class local) i k) cf ->
              Reach cf (RPost 1 k u0 (reserve_or_steal g policy u i order class local))).
    { intros u' i k' d' cf' HK' _ H. apply (ros_sim u0 u' i order class local k' d' cf' HK' Ho H). }
    change (sr_start u start) with (align_down start (next_pow2 (2 * N.max (ntrees u / 16) 4))) in HA.
    set (st := align_down start (next_pow2 (2 * N.max (ntrees u / 16) 4))) in *.
    destruct (Nat.ltb order (hord g)).
    - apply (Reach_bind _ _ _ _ _ (search_best_sim _ _ _ (RNear class (pow2 order)) u0 Hacc (fun _ _ => eq_refl)
                                     3 u st 1 (N.max (ntrees u / 16) 4) _ d cf HK ltac:(lia) HA)).
      intros c1 Q1.
      destruct (search_best g _ _ 3 u st 1 (N.max (ntrees u / 16) 4)) as [[y|[| |]|x] u1]; cbn [RPost] in Q1.
      + destruct Q1 as [Q1 HK1]. ret_step Q1. apply Reach_here. split; [eapply At_mono; [exact Q1 | lia] | exact HK1].
      + destruct Q1 as [Q1 HK1]. ret_step Q1.
        eapply Reach_weaken; [apply (search_best_sim _ _ _ (RGlob class (pow2 order)) u0 Hacc (fun _ _ => eq_refl)
                                       8 u1 st 0 (ntrees u1) k (S (Nat.max d 2)) c1 HK1); [|exact Q1]; lia|].
        intros c'. apply RPost_mono. lia.
      + destruct Q1 as [Q1 HK1]. ret_step Q1. apply Reach_here. split; [eapply At_mono; [exact Q1 | lia] | exact HK1].
      + destruct Q1 as [Q1 HK1]. ret_step Q1. apply Reach_here. split; [eapply At_mono; [exact Q1 | lia] | exact HK1].
      + apply Reach_here. exact Q1.
    - eapply Reach_weaken; [apply (search_best_sim _ _ _ (RGlob class (pow2 order)) u0 Hacc (fun _ _ => eq_refl)
                                     8 u st 0 (ntrees u) k d cf HK); [|exact HA]; lia|].
      intros c'. apply RPost_mono. lia.
  Qed.

  (* ----- steal_local ----- *)
  (* number of slots of class index i that may be tried *)
  Definition sl_slots (u : upper) (class free i : N) : nat :=
    match class_slots u ((i + class) mod 8) with
    | None => O
    | Some l => match policy class ((i + class) mod 8) free with PSteal | PMatch _ => length l | _ => O end
    end.

  Lemma steal_scan_step u class free i j n : i < 8 ->
    steal_scan policy u class free i j (S n) =
      if Nat.ltb (nn j) (sl_slots u class free i) then Some (i, j) else steal_scan policy u class free (i + 1) 0 n.
  Proof.
    intros Hi. cbn [steal_scan]. replace (8 <=? i) with false by (symmetry; apply N.leb_gt; exact Hi).
    unfold sl_slots. destruct (class_slots u ((i + class) mod 8)) as [l|]; [|reflexivity].
    assert (E : (j <? N.of_nat (length l)) = Nat.ltb (nn j) (length l)).
    { destruct (Nat.ltb_spec (nn j) (length l)); [apply N.ltb_lt | apply N.ltb_ge]; unfold nn in *; lia. }
    destruct (policy class ((i + class) mod 8) free); try reflexivity; rewrite E; reflexivity.
  Qed.

  Lemma steal_scan_end u class free i j n : 8 <= i -> steal_scan policy u class free i j (S n) = None.
  Proof. intros H. cbn [steal_scan]. replace (8 <=? i) with true by (symmetry; apply N.leb_le; lia). reflexivity. Qed.

  Lemma steal_scan_fuel u class free n : forall i j, 8 <= i + N.of_nat n ->
    steal_scan policy u class free i j n = steal_scan policy u class free i j (S n).
  Proof.
    induction n as [|n IH]; intros i j H.
    - cbn [steal_scan]. replace (8 <=? i) with true by (symmetry; apply N.leb_le; lia). reflexivity.
    - destruct (N.ltb_spec i 8) as [Hi|Hi].
      + rewrite !steal_scan_step by exact Hi. rewrite <- IH by lia. reflexivity.
      + cbn [steal_scan]. replace (8 <=? i) with true by (symmetry; apply N.leb_le; lia). reflexivity.
  Qed.

  Section StealLocal.
    Variable u0 : upper.
    Variable r : request.
    Variable frame : option N.
    Hypothesis Hord : Nat.leb (r_order r) (tord g) = true.
    Hypothesis Hfok : fok u0 frame (r_order r).
    Notation class := (r_class r).
    Notation free := (pow2 (r_order r)).
    Notation tree := (option_map (fun f => f / TF) frame).
    Notation index := (match r_local r with Some x => x | None => 0 end).

    Lemma sl_next_end u i j k : 8 <= i -> sl_next g policy u r frame i j k = ARet (VR (Err EMemory)) k.
    Proof.
      intros H. unfold sl_next. rewrite (steal_scan_end u (r_class r) (pow2 (r_order r)) i j 8 H). reflexivity.
    Qed.
    Lemma sl_next_skip u i j k : i < 8 -> (sl_slots u class free i <= nn j)%nat ->
      sl_next g policy u r frame i j k = sl_next g policy u r frame (i + 1) 0 k.
    Proof.
      intros Hi Hj. unfold sl_next.
      rewrite (steal_scan_step u class free i j 8 Hi).
      replace (Nat.ltb (nn j) (sl_slots u class free i)) with false by (symmetry; apply Nat.ltb_ge; exact Hj).
      rewrite (steal_scan_fuel u class free 8) by lia. reflexivity.
    Qed.
    Lemma sl_next_hit u i j k l : i < 8 -> class_slots u ((i + class) mod 8) = Some l ->
      (nn j < sl_slots u class free i)%nat ->
      sl_next g policy u r frame i j k =
        ADo (PSL ((i + class) mod 8) ((index + j) mod N.of_nat (length l)) (SGet tree free)) (KSL1 r frame i j :: k).
    Proof.
      intros Hi Hl Hj. unfold sl_next.
      rewrite (steal_scan_step u class free i j 8 Hi).
      replace (Nat.ltb (nn j) (sl_slots u class free i)) with true by (symmetry; apply Nat.ltb_lt; exact Hj).
      unfold class_locals. rewrite Hl. reflexivity.
    Qed.

    (* the tail of steal_local after locals.steal_any *)
    Definition sl_tail (o : option reservation) (u1 : upper) : res (N * N) * upper :=
      match o with
      | None => (Err EMemory, u1)
      | Some rv =>
          match lget_low g u1 (rv_row rv) (r_order r) frame with
          | (Err EMemory, u2) =>
              lift (trees_put g policy u2 (row_tree g (rv_row rv)) (pow2 (r_order r))) (fun _ u3 => (Err EMemory, u3))
          | (Ok f, u2) => (Ok (f, rv_class rv), u2)
          | (Err e, u2) => (Err e, u2)
          | (Panic s, u2) => (Panic s, u2)
          end
      end.

    (* a slot was taken: Lower::get at its row *)
    Lemma sl_got_sim u row tc k cf : Keeps u0 u -> row_tree g row < ntrees u ->
      At 1 u (enter_low g (low_get_call row (r_order r) frame) (KSL2 r row tc :: k)) cf ->
      Reach cf (RPost 1 k u0 (sl_tail (Some {| rv_row := row; rv_class := tc; rv_free := 0 |}) u)).
    Proof.
      intros HK Hrow HA. cbn [sl_tail rv_row rv_class].
      assert (Hok : lowget_ok u row (r_order r) frame)
        by (apply lowget_ok_intro; [exact Hord | eapply fok_keeps; [exact HK | exact Hfok] | exact Hrow]).
      apply (Reach_bind _ _ _ _ _ (lowget_sim u row (r_order r) frame _ _ _ (proj1 HK) Hok HA)). intros c1 Q1.
      destruct (lget_low g u row (r_order r) frame) as [[f|e|x] u2]; [| |destruct Q1].
      - destruct Q1 as (Q1 & HK2 & _). ret_step Q1. apply Reach_here. split; [exact Q1 | eapply Keeps_trans; eassumption].
      - destruct Q1 as (Q1 & ->). ret_step Q1. destruct e.
        + pose proof (trees_put_keeps u0 u (row_tree g row) (pow2 (r_order r)) HK) as HKp.
          eapply Reach_weaken; [apply (tput_ret_sim _ _ _ (Err EMemory) _ _ _ eq_refl Q1)|].
          intros c'. cbv beta. destruct (trees_put g policy u (row_tree g row) (pow2 (r_order r))) as [[y|e2|x] u3]; cbn [lift RPost snd] in *.
          * intros H. split; [exact H | exact HKp].
          * intros [].
          * intros H. exact H.
        + apply Reach_here. split; [exact Q1 | exact HK].
        + apply Reach_here. split; [exact Q1 | exact HK].
    Qed.

    (* the slots j.. of class index i *)
    Lemma steal_slots_sim u i l k : Keeps u0 u -> i < 8 -> class_slots u ((i + class) mod 8) = Some l ->
      sl_slots u class free i = length l ->
      forall m j d cf, length l = (nn j + m)%nat -> (d <= 40)%nat -> At d u (sl_next g policy u r frame i j k) cf ->
        match steal_slots g u ((i + class) mod 8) index (N.of_nat (length l)) tree free j m with
        | Some (Upper.LRow row, u') =>
            Reach cf (RPost 1 k u0 (sl_tail (Some {| rv_row := row; rv_class := (i + class) mod 8; rv_free := 0 |}) u'))
        | Some (LPanic s, _) => Reach cf (Crashed s)
        | _ => Reach cf (fun c' => At (Nat.max d 1) u (sl_next g policy u r frame (i + 1) 0 k) c')
        end.
    Proof.
      intros HK Hi Hl Hsl. induction m as [|m IH]; intros j d cf Hlen Hd HA.
      - cbn [steal_slots]. rewrite sl_next_skip in HA by lia. apply Reach_here. eapply At_mono; [exact HA | lia].
      - rewrite (sl_next_hit u i j k l Hi Hl) in HA by lia. cbn [steal_slots]. unfold locals_get. rewrite Hl.
        set (idx := (index + j) mod N.of_nat (length l)) in *.
        destruct (su_sim g policy _ _ _ _ _ _ _ HA) as (c1 & R1 & Q). cbn [sf_apply] in Q.
        unfold slot_at in Q. rewrite Hl in Q.
        destruct (nth_error l (nn idx)) as [s|] eqn:En.
        2: { apply (Reach_trans _ _ _ _ _ R1). apply Reach_here. eexists. exact Q. }
        destruct (slot_get g s tree free) as [s'|] eqn:Esg; cbn [option_map] in Q.
        + apply (Reach_trans _ _ _ _ _ R1). ret_step Q. destruct (slot_get_some _ _ _ _ Esg) as (Hp & Hp' & Hr').
          assert (Hs : slot_at u ((i + class) mod 8) idx = Some s) by (unfold slot_at; rewrite Hl; exact En).
          pose proof HK as [(_ & _ & HS) _].
          apply sl_got_sim; [| rewrite ntrees_set_slot; exact (HS _ _ _ Hs Hp) | exact Q].
          apply Keeps_set_slot; [exact HK|]. intros _. rewrite Hr'. exact (HS _ _ _ Hs Hp).
        + ret_step Q.
          assert (Hnext : match steal_slots g u ((i + class) mod 8) index (N.of_nat (length l)) tree free (j + 1) m with
                          | Some (Upper.LRow row, u') =>
                              Reach c1 (RPost 1 k u0 (sl_tail (Some {| rv_row := row; rv_class := (i + class) mod 8; rv_free := 0 |}) u'))
                          | Some (LPanic s0, _) => Reach c1 (Crashed s0)
                          | _ => Reach c1 (fun c' => At (Nat.max 1 1) u (sl_next g policy u r frame (i + 1) 0 k) c')
                          end)
            by (apply (IH (j + 1) 1%nat c1); [unfold nn in *; lia | lia | exact Q]).
          destruct (s_pres s);
            (destruct (steal_slots g u ((i + class) mod 8) index (N.of_nat (length l)) tree free (j + 1) m) as [[[row|rv| |s0] u']|];
             try (apply (Reach_trans _ _ _ _ _ R1); exact Hnext);
             (apply (Reach_trans _ _ _ _ _ R1); eapply Reach_weaken; [exact Hnext|]; intros c' H; eapply At_mono; [exact H | lia])).
    Qed.

    Lemma steal_any_sim u k : Keeps u0 u -> forall n i d cf, i + N.of_nat n = 8 -> (d <= 40)%nat ->
      At d u (sl_next g policy u r frame i 0 k) cf ->
      Reach cf (RPost (Nat.max d 1) k u0 (lift (steal_any_loop g policy u class index tree free i n) sl_tail)).
    Proof.
      intros HK. induction n as [|n IH]; intros i d cf Hi Hd HA.
      - rewrite sl_next_end in HA by lia. cbn [steal_any_loop lift sl_tail RPost]. apply Reach_here.
        split; [eapply At_mono; [exact HA | lia] | exact HK].
      - assert (Hi8 : i < 8) by lia.
        assert (Hskip : sl_slots u class free i = 0%nat ->
                  Reach cf (RPost (Nat.max d 1) k u0 (lift (steal_any_loop g policy u class index tree free (i + 1) n) sl_tail))).
        { intros E. rewrite sl_next_skip in HA by (try exact Hi8; rewrite E; lia). apply IH; [lia | exact Hd | exact HA]. }
        cbn [steal_any_loop]. unfold sl_slots in Hskip.
        destruct (class_slots u ((i + class) mod 8)) as [l|] eqn:Hl; [|apply Hskip; reflexivity].
        assert (Htry : sl_slots u class free i = length l ->
                  Reach cf (RPost (Nat.max d 1) k u0 (lift
                    match steal_slots g u ((i + class) mod 8) index (N.of_nat (length l)) tree free 0 (length l) with
                    | Some (Upper.LRow row, u') => (Ok (Some {| rv_row := row; rv_class := (i + class) mod 8; rv_free := 0 |}), u')
                    | Some (LPanic s, u') => (Panic s, u')
                    | _ => steal_any_loop g policy u class index tree free (i + 1) n
                    end sl_tail))).
        { intros E. pose proof (steal_slots_sim u i l k HK Hi8 Hl E (length l) 0 d cf ltac:(unfold nn; lia) Hd HA) as HS.
          destruct (steal_slots g u ((i + class) mod 8) index (N.of_nat (length l)) tree free 0 (length l)) as [[[row|rv| |s0] u']|].
          - cbn [lift]. eapply Reach_weaken; [exact HS|]. intros c'. apply RPost_mono. lia.
          - apply (Reach_bind _ _ _ _ _ HS). intros c1 Q1.
            eapply Reach_weaken; [apply (IH (i + 1) (Nat.max d 1) c1); [lia | lia | exact Q1]|]. intros c'. apply RPost_mono. lia.
          - apply (Reach_bind _ _ _ _ _ HS). intros c1 Q1.
            eapply Reach_weaken; [apply (IH (i + 1) (Nat.max d 1) c1); [lia | lia | exact Q1]|]. intros c'. apply RPost_mono. lia.
          - cbn [lift RPost]. exact HS.
          - apply (Reach_bind _ _ _ _ _ HS). intros c1 Q1.
            eapply Reach_weaken; [apply (IH (i + 1) (Nat.max d 1) c1); [lia | lia | exact Q1]|]. intros c'. apply RPost_mono. lia. }
        unfold sl_slots in Htry. rewrite Hl in Htry.
        destruct (policy class ((i + class) mod 8) free); first [apply Htry; reflexivity | apply Hskip; reflexivity].
    Qed.

    Lemma steal_local_sim u k d cf : Keeps u0 u -> (d <= 40)%nat ->
      At d u (enter_steal_local g policy u r frame k) cf ->
      Reach cf (RPost (Nat.max d 1) k u0 (steal_local g policy u r frame)).
    Proof.
      intros HK Hd HA. unfold enter_steal_local in HA.
      exact (steal_any_sim u k HK 8 0 d cf eq_refl Hd HA).
    Qed.
  End StealLocal.

  (* ----- demote_local ----- *)
  Definition dl_slots (u : upper) (class free i : N) : nat :=
    match class_slots u ((i + class) mod 8) with
    | None => O
    | Some l => match policy class ((i + class) mod 8) free with PDemote => length l | _ => O end
    end.

  Lemma demote_scan_step u class free i j n : i < 8 ->
    demote_scan policy u class free i j (S n) =
      if Nat.ltb (nn j) (dl_slots u class free i) then Some (i, j) else demote_scan policy u class free (i + 1) 0 n.
  Proof.
    intros Hi. cbn [demote_scan]. replace (8 <=? i) with false by (symmetry; apply N.leb_gt; exact Hi).
    unfold dl_slots. destruct (class_slots u ((i + class) mod 8)) as [l|]; [|reflexivity].
    assert (E : (j <? N.of_nat (length l)) = Nat.ltb (nn j) (length l)).
    { destruct (Nat.ltb_spec (nn j) (length l)); [apply N.ltb_lt | apply N.ltb_ge]; unfold nn in *; lia. }
    destruct (policy class ((i + class) mod 8) free); try reflexivity; rewrite E; reflexivity.
  Qed.
  Lemma demote_scan_end u class free i j n : 8 <= i -> demote_scan policy u class free i j (S n) = None.
  Proof. intros H. cbn [demote_scan]. replace (8 <=? i) with true by (symmetry; apply N.leb_le; lia). reflexivity. Qed.
  Lemma demote_scan_fuel u class free n : forall i j, 8 <= i + N.of_nat n ->
    demote_scan policy u class free i j n = demote_scan policy u class free i j (S n).
  Proof.
    induction n as [|n IH]; intros i j H.
    - cbn [demote_scan]. replace (8 <=? i) with true by (symmetry; apply N.leb_le; lia). reflexivity.
    - destruct (N.ltb_spec i 8) as [Hi|Hi].
      + rewrite !demote_scan_step by exact Hi. rewrite <- IH by lia. reflexivity.
      + cbn [demote_scan]. replace (8 <=? i) with true by (symmetry; apply N.leb_le; lia). reflexivity.
  Qed.

  Section DemoteLocal.
    Variable u0 : upper.
    Variable r : request.
    Variable frame : option N.
    Hypothesis Hord : Nat.leb (r_order r) (tord g) = true.
    Hypothesis Hfok : fok u0 frame (r_order r).
    Notation class := (r_class r).
    Notation free := (pow2 (r_order r)).
    Notation tree := (option_map (fun f => f / TF) frame).
    Notation index := (match r_local r with Some x => x | None => 0 end).

    Lemma dl_next_end u i j k : 8 <= i -> dl_next g policy u r frame i j k = ARet (VR (Err EMemory)) k.
    Proof. intros H. unfold dl_next. rewrite (demote_scan_end u class free i j 8 H). reflexivity. Qed.
    Lemma dl_next_skip u i j k : i < 8 -> (dl_slots u class free i <= nn j)%nat ->
      dl_next g policy u r frame i j k = dl_next g policy u r frame (i + 1) 0 k.
    Proof.
      intros Hi Hj. unfold dl_next. rewrite (demote_scan_step u class free i j 8 Hi).
      replace (Nat.ltb (nn j) (dl_slots u class free i)) with false by (symmetry; apply Nat.ltb_ge; exact Hj).
      rewrite (demote_scan_fuel u class free 8) by lia. reflexivity.
    Qed.
    Lemma dl_next_hit u i j k l : i < 8 -> class_slots u ((i + class) mod 8) = Some l ->
      (nn j < dl_slots u class free i)%nat ->
      dl_next g policy u r frame i j k =
        ADo (PSL ((i + class) mod 8) ((index + j) mod N.of_nat (length l)) (SGetNone tree free)) (KDL1 r frame i j :: k).
    Proof.
      intros Hi Hl Hj. unfold dl_next. rewrite (demote_scan_step u class free i j 8 Hi).
      replace (Nat.ltb (nn j) (dl_slots u class free i)) with true by (symmetry; apply Nat.ltb_lt; exact Hj).
      unfold class_locals. rewrite Hl. reflexivity.
    Qed.

    (* Lower::get at the row of the demoted reservation *)
    Definition dl_low (row : N) (u2 : upper) : res (N * N) * upper :=
      match lget_low g u2 row (r_order r) frame with
      | (Err EMemory, u3) => lift (trees_put g policy u3 (row_tree g row) (pow2 (r_order r))) (fun _ u4 => (Err EMemory, u4))
      | (Ok f, u3) => (Ok (f, r_class r), u3)
      | (Err e, u3) => (Err e, u3)
      | (Panic s, u3) => (Panic s, u3)
      end.
    Definition dl_tail (o : option (N * option reservation)) (u1 : upper) : res (N * N) * upper :=
      match o with
      | None => (Err EMemory, u1)
      | Some (row, old) =>
          lift (match old with
                | Some rv => trees_unreserve g policy u1 (row_tree g (rv_row rv)) (rv_free rv) (rv_class rv)
                | None => (Ok tt, u1)
                end) (fun _ u2 => dl_low row u2)
      end.

    Lemma dl_low_sim u row k d cf : Keeps u0 u -> row_tree g row < ntrees u -> (d <= 40)%nat ->
      At d u (enter_low g (low_get_call row (r_order r) frame) (KDL4 r row :: k)) cf ->
      Reach cf (RPost 1 k u0 (dl_low row u)).
    Proof.
      intros HK Hrow Hd HA. unfold dl_low.
      assert (Hok : lowget_ok u row (r_order r) frame)
        by (apply lowget_ok_intro; [exact Hord | eapply fok_keeps; [exact HK | exact Hfok] | exact Hrow]).
      apply (Reach_bind _ _ _ _ _ (lowget_sim u row (r_order r) frame _ _ _ (proj1 HK) Hok HA)). intros c1 Q1.
      destruct (lget_low g u row (r_order r) frame) as [[f|e|x] u2]; [| |destruct Q1].
      - destruct Q1 as (Q1 & HK2 & _). ret_step Q1. apply Reach_here. split; [exact Q1 | eapply Keeps_trans; eassumption].
      - destruct Q1 as (Q1 & ->). ret_step Q1. destruct e.
        + pose proof (trees_put_keeps u0 u (row_tree g row) (pow2 (r_order r)) HK) as HKp.
          eapply Reach_weaken; [apply (tput_ret_sim _ _ _ (Err EMemory) _ _ _ eq_refl Q1)|].
          intros c'. cbv beta. destruct (trees_put g policy u (row_tree g row) (pow2 (r_order r))) as [[y|e2|x] u3]; cbn [lift RPost snd] in *.
          * intros H. split; [exact H | exact HKp].
          * intros [].
          * intros H. exact H.
        + apply Reach_here. split; [exact Q1 | exact HK].
        + apply Reach_here. split; [exact Q1 | exact HK].
    Qed.

    (* trees.unreserve(old reservation), then Lower::get (frame KDL3) *)
    Lemma dl_unres_sim u i fr cl row k d cf : Keeps u0 u -> row_tree g row < ntrees u -> (d <= 40)%nat ->
      At d u (enter_tu u i (FUnres fr cl) (KDL3 r frame row :: k)) cf ->
      Reach cf (RPost 1 k u0 (lift (trees_unreserve g policy u i fr cl) (fun _ u2 => dl_low row u2))).
    Proof.
      intros HK Hrow Hd HA. pose proof (trees_unreserve_keeps u0 u i fr cl HK) as HK2.
      use_tu HA Q. unfold trees_unreserve in *.
      destruct (tree_at u i) as [t|]; cbn [lift]; [|crashed].
      destruct (tree_unreserve_add g policy (dflt u) t fr cl) as [[t'|e|x]|] eqn:E; cbn [lift snd] in *.
      - ret_step Q. apply (dl_low_sim _ row k 1%nat _ HK2); [rewrite ntrees_set_tree; exact Hrow | lia | exact Q].
      - exfalso. eapply tree_unreserve_no_err; exact E.
      - crashed.
      - ret_step Q. apply At_panic in Q. apply Reach_here. eexists. exact Q.
    Qed.

    (* the slots j.. of class index i *)
    Lemma demote_slots_sim u i l k : Keeps u0 u -> i < 8 -> class_slots u ((i + class) mod 8) = Some l ->
      dl_slots u class free i = length l ->
      forall m j d cf, length l = (nn j + m)%nat -> (d <= 40)%nat -> At d u (dl_next g policy u r frame i j k) cf ->
        match demote_slots g u class ((i + class) mod 8) (r_local r) (N.of_nat (length l)) tree free j m with
        | Some (Ok x, u') => Reach cf (RPost 1 k u0 (dl_tail (Some x) u'))
        | Some (Panic s, _) => Reach cf (Crashed s)
        | Some (Err _, _) => False
        | None => Reach cf (fun c' => At (Nat.max d 1) u (dl_next g policy u r frame (i + 1) 0 k) c')
        end.
    Proof.
      intros HK Hi Hl Hsl. pose proof HK as [(_ & _ & HS) _].
      induction m as [|m IH]; intros j d cf Hlen Hd HA.
      - cbn [demote_slots]. rewrite dl_next_skip in HA by lia. apply Reach_here. eapply At_mono; [exact HA | lia].
      - rewrite (dl_next_hit u i j k l Hi Hl) in HA by lia. cbn [demote_slots]. rewrite Hl.
        set (idx := (index + j) mod N.of_nat (length l)) in *.
        assert (Hidx : (nn idx < length l)%nat).
        { unfold idx. assert (0 < N.of_nat (length l)) by lia.
          pose proof (N.mod_lt (index + j) (N.of_nat (length l)) ltac:(lia)). unfold nn. lia. }
        destruct (su_sim g policy _ _ _ _ _ _ _ HA) as (c1 & R1 & Q). cbn [sf_apply] in Q.
        unfold slot_at in Q. rewrite Hl in Q.
        destruct (nth_error l (nn idx)) as [old|] eqn:En.
        2: { apply nth_error_None in En. lia. }
        destruct (slot_get g old tree free) as [new|] eqn:Esg; cbn [option_map] in Q.
        + (* the reservation is taken *)
          ret_step Q. rewrite Esg in Q.
          destruct (slot_get_some _ _ _ _ Esg) as (Hp & Hp' & Hr').
          assert (Hs : slot_at u ((i + class) mod 8) idx = Some old) by (unfold slot_at; rewrite Hl; exact En).
          set (u1 := set_slot u ((i + class) mod 8) idx slot_none) in *.
          assert (HK1 : Keeps u0 u1) by (apply Keeps_set_slot; [exact HK | intros H; discriminate H]).
          assert (Hrow : row_tree g (s_row new) < ntrees u1).
          { unfold u1. rewrite ntrees_set_slot, Hr'. exact (HS _ _ _ Hs Hp). }
          destruct (r_local r) as [lc|] eqn:Elc.
          * unfold class_locals in Q.
            destruct (class_slots u1 class) as [ml|] eqn:Eml; cbn [option_map] in Q.
            2: { apply (Reach_trans _ _ _ _ _ R1). apply At_panic in Q. apply Reach_here. eexists. exact Q. }
            destruct (nth_error ml (nn lc)) as [o2|] eqn:Eo2.
            2: { apply (Reach_trans _ _ _ _ _ R1).
                 replace (lc <? N.of_nat (length ml)) with false in Q
                   by (symmetry; apply N.ltb_ge; apply nth_error_None in Eo2; unfold nn in Eo2; lia).
                 apply At_panic in Q. apply Reach_here. eexists. exact Q. }
            apply (Reach_trans _ _ _ _ _ R1).
            replace (lc <? N.of_nat (length ml)) with true in Q
              by (symmetry; apply N.ltb_lt; pose proof (sr_some_lt _ _ _ Eo2); unfold nn in *; lia).
            use_sw Q Q2. unfold slot_at in Q2. rewrite Eml, Eo2 in Q2. ret_step Q2.
            set (u2 := set_slot u1 class lc new) in *.
            assert (HK2 : Keeps u0 u2) by (apply Keeps_set_slot; [exact HK1 | intros _; exact Hrow]).
            assert (Hrow2 : row_tree g (s_row new) < ntrees u2) by (unfold u2; rewrite ntrees_set_slot; exact Hrow).
            cbn [dl_tail]. destruct (s_pres o2); cbn [slot_resv rv_row rv_free rv_class].
            -- apply (dl_unres_sim u2 _ _ _ (s_row new) k 1%nat _ HK2 Hrow2); [lia | exact Q2].
            -- cbn [lift]. apply (dl_low_sim u2 (s_row new) k 1%nat _ HK2 Hrow2); [lia | exact Q2].
          * apply (Reach_trans _ _ _ _ _ R1). cbn [dl_tail slot_resv rv_row rv_free rv_class].
            apply (dl_unres_sim u1 _ _ _ (s_row new) k 1%nat _ HK1 Hrow); [lia | exact Q].
        + ret_step Q.
          assert (Hnext : match demote_slots g u class ((i + class) mod 8) (r_local r) (N.of_nat (length l)) tree free (j + 1) m with
                          | Some (Ok x, u') => Reach c1 (RPost 1 k u0 (dl_tail (Some x) u'))
                          | Some (Panic s, _) => Reach c1 (Crashed s)
                          | Some (Err _, _) => False
                          | None => Reach c1 (fun c' => At (Nat.max 1 1) u (dl_next g policy u r frame (i + 1) 0 k) c')
                          end)
            by (apply (IH (j + 1) 1%nat c1); [unfold nn in *; lia | lia | exact Q]).
          destruct (demote_slots g u class ((i + class) mod 8) (r_local r) (N.of_nat (length l)) tree free (j + 1) m) as [[[x|e|s0] u']|];
            try exact Hnext; try (apply (Reach_trans _ _ _ _ _ R1); exact Hnext).
          apply (Reach_trans _ _ _ _ _ R1). eapply Reach_weaken; [exact Hnext|]. intros c' H. eapply At_mono; [exact H | lia].
    Qed.

    Lemma demote_any_sim u k : Keeps u0 u -> forall n i d cf, i + N.of_nat n = 8 -> (d <= 40)%nat ->
      At d u (dl_next g policy u r frame i 0 k) cf ->
      Reach cf (RPost (Nat.max d 1) k u0 (lift (demote_any_loop g policy u class (r_local r) tree free i n) dl_tail)).
    Proof.
      intros HK. induction n as [|n IH]; intros i d cf Hi Hd HA.
      - rewrite dl_next_end in HA by lia. cbn [demote_any_loop lift dl_tail RPost]. apply Reach_here.
        split; [eapply At_mono; [exact HA | lia] | exact HK].
      - assert (Hi8 : i < 8) by lia.
        assert (Hskip : dl_slots u class free i = 0%nat ->
                  Reach cf (RPost (Nat.max d 1) k u0 (lift (demote_any_loop g policy u class (r_local r) tree free (i + 1) n) dl_tail))).
        { intros E. rewrite dl_next_skip in HA by (try exact Hi8; rewrite E; lia). apply IH; [lia | exact Hd | exact HA]. }
        cbn [demote_any_loop]. unfold dl_slots in Hskip.
        destruct (class_slots u ((i + class) mod 8)) as [l|] eqn:Hl; [|apply Hskip; reflexivity].
        assert (Htry : dl_slots u class free i = length l ->
                  Reach cf (RPost (Nat.max d 1) k u0 (lift
                    match demote_slots g u class ((i + class) mod 8) (r_local r) (N.of_nat (length l)) tree free 0 (length l) with
                    | Some (Ok x, u') => (Ok (Some x), u')
                    | Some (Panic s, u') => (Panic s, u')
                    | Some (Err e, u') => (Err e, u')
                    | None => demote_any_loop g policy u class (r_local r) tree free (i + 1) n
                    end dl_tail))).
        { intros E. pose proof (demote_slots_sim u i l k HK Hi8 Hl E (length l) 0 d cf ltac:(unfold nn; lia) Hd HA) as HS.
          destruct (demote_slots g u class ((i + class) mod 8) (r_local r) (N.of_nat (length l)) tree free 0 (length l)) as [[[x|e|s0] u']|].
          - cbn [lift]. eapply Reach_weaken; [exact HS|]. intros c'. apply RPost_mono. lia.
          - destruct HS.
          - cbn [lift RPost]. exact HS.
          - apply (Reach_bind _ _ _ _ _ HS). intros c1 Q1.
            eapply Reach_weaken; [apply (IH (i + 1) (Nat.max d 1) c1); [lia | lia | exact Q1]|]. intros c'. apply RPost_mono. lia. }
        unfold dl_slots in Htry. rewrite Hl in Htry.
        destruct (policy class ((i + class) mod 8) free); first [apply Htry; reflexivity | apply Hskip; reflexivity].
    Qed.

    Lemma demote_local_sim u k d cf : Keeps u0 u -> (d <= 40)%nat ->
      At d u (enter_demote_local g policy u r frame k) cf ->
      Reach cf (RPost (Nat.max d 1) k u0 (demote_local g policy u r frame)).
    Proof.
      intros HK Hd HA. unfold enter_demote_local in HA. unfold demote_local, locals_demote_any.
      destruct (class_slots u class).
      - exact (demote_any_sim u k HK 7 1 d cf eq_refl Hd HA).
      - cbn [lift RPost]. apply Reach_here. split; [eapply At_mono; [exact HA | lia] | exact HK].
    Qed.
  End DemoteLocal.

  (* ----- the fallback after the tree search: steal_local, then demote_local (frames KGet2, KOom1) ----- *)
  Definition oom_of (r : request) (frame : option N) (x : res (N * N) * upper) : res (N * N) * upper :=
    match x with
    | (Err EMemory, u1) =>
        match steal_local g policy u1 r frame with
        | (Err EMemory, u2) => demote_local g policy u2 r frame
        | other => other
        end
    | other => other
    end.

  Lemma get2_sim u0 r frame k x d cf : Nat.leb (r_order r) (tord g) = true -> fok u0 frame (r_order r) -> (d <= 30)%nat ->
    RPost d (KGet2 r frame :: k) u0 x cf -> Reach cf (RPost (d + 3) k u0 (oom_of r frame x)).
  Proof.
    intros Ho Hf Hd HP. destruct x as [[y|e|s] u1]; cbn [RPost oom_of] in *.
    - destruct HP as [HA HK]. ret_step HA. apply Reach_here. split; [eapply At_mono; [exact HA | lia] | exact HK].
    - destruct HP as [HA HK]. ret_step HA.
      destruct e; try (apply Reach_here; split; [eapply At_mono; [exact HA | lia] | exact HK]).
      apply (Reach_bind _ _ _ _ _ (steal_local_sim u0 r frame Ho Hf u1 _ (S d) cf HK ltac:(lia) HA)). intros c1 Q1.
      destruct (steal_local g policy u1 r frame) as [[y|e|s] u2]; cbn [RPost] in Q1.
      + destruct Q1 as [Q1 HK2]. ret_step Q1. apply Reach_here. split; [eapply At_mono; [exact Q1 | lia] | exact HK2].
      + destruct Q1 as [Q1 HK2]. ret_step Q1.
        destruct e; try (apply Reach_here; split; [eapply At_mono; [exact Q1 | lia] | exact HK2]).
        eapply Reach_weaken; [apply (demote_local_sim u0 r frame Ho Hf u2 k (S (Nat.max (S d) 1)) c1 HK2); [|exact Q1]; lia|].
        intros c'. apply RPost_mono. lia.
      + apply Reach_here. exact Q1.
    - apply Reach_here. exact HP.
  Qed.

  Lemma res_match_id (x : res (N * N) * upper) :
    match x with (Err EMemory, u3) => (Err EMemory, u3) | other => other end = x.
  Proof. destruct x as [[y|[| |]|s] u]; reflexivity. Qed.

  Definition Final' (x : res (N * N) * upper) (c' : CF) : Prop :=
    match x with
    | (Panic s, _) => Crashed s c'
    | (r, u') => c' = (u', SDone r)
    end.
  Lemma RPost_final d u0 x cf : RPost d [] u0 x cf -> Final' x cf.
  Proof.
    destruct x as [[y|e|s] u']; cbn [RPost Final']; try (intros H; exact H);
      intros [H _]; apply At_done in H; exact H.
  Qed.

  Lemma get2_final u0 r frame x d cf : Nat.leb (r_order r) (tord g) = true -> fok u0 frame (r_order r) -> (d <= 30)%nat ->
    RPost d [KGet2 r frame] u0 x cf -> Reach cf (Final' (oom_of r frame x)).
  Proof.
    intros Ho Hf Hd HP. eapply Reach_weaken; [apply (get2_sim u0 r frame [] x d cf Ho Hf Hd HP)|].
    intros c'. apply RPost_final.
  Qed.

  (* ----- get_at ----- *)
  Lemma get_at_sim u f r cf : SInv u -> Nat.leb (r_order r) (tord g) = true -> fok u (Some f) (r_order r) ->
    At 0 u (enter_get_at g u f r []) cf -> Reach cf (Final' (get_at g policy u f r)).
  Proof.
    intros HI Ho Hf HA. pose proof (Keeps_refl u HI) as HK. unfold enter_get_at in HA. unfold get_at.
    assert (Hafter : forall u1 d cf, Keeps u u1 -> (d <= 20)%nat -> At d u1 (after_local g u1 f r []) cf ->
              Reach cf (Final' (match steal_global g policy u1 (f / TF) (r_class r) (r_order r) (Some f) with
                                | (Err EMemory, u2) =>
                                    match steal_local g policy u2 r (Some f) with
                                    | (Err EMemory, u3) => demote_local g policy u3 r (Some f)
                                    | other => other
                                    end
                                | other => other
                                end))).
    { intros u1 d cf' HK1 Hd H. unfold after_local in H.
      apply (Reach_bind _ _ _ _ _ (steal_global_sim u u1 _ _ _ (Some f) _ _ _ HK1 Ho Hf H)). intros c1 Q1.
      destruct (steal_global g policy u1 (f / TF) (r_class r) (r_order r) (Some f)) as [[y|[| |]|s] u2];
        (eapply Reach_weaken; [eapply (get2_final u r (Some f) _ 1%nat c1 Ho Hf); [lia | exact Q1]|]; intros c' H'; exact H'). }
    destruct (r_local r) as [local|]; [|apply (Hafter u 0%nat cf HK); [lia | exact HA]].
    apply (Reach_bind _ _ _ _ _ (get_local_sim u (r_order r) (r_class r) local (Some f) Ho Hf u _ 0%nat cf HK ltac:(lia) HA)).
    intros c1 Q1. unfold GLPost in Q1.
    destruct (get_local g policy 2 u (r_order r) (r_class r) local (Some f) true) as [[f' c2|e t|s] u1]; cbn [of_glr].
    - destruct Q1 as [Q1 HK1]. ret_step Q1. apply Reach_here. apply At_done in Q1. exact Q1.
    - destruct Q1 as [Q1 HK1]. ret_step Q1.
      destruct e; try (apply Reach_here; apply At_done in Q1; exact Q1).
      apply (Hafter u1 2%nat c1 HK1); [|exact Q1]. lia.
    - apply Reach_here. exact Q1.
  Qed.

  (* ----- get ----- *)
  Lemma get_none_sim u r cf : SInv u -> Nat.leb (r_order r) (tord g) = true ->
    At 0 u (enter_get g u None r []) cf -> check g u 0 r = Ok tt ->
    Reach cf (Final' (llfree_get g policy u None r)).
  Proof.
    intros HI Ho HA Hck. pose proof (Keeps_refl u HI) as HK.
    unfold enter_get in HA. unfold llfree_get. rewrite Hck in *. cbv zeta.
    assert (Hf : fok u None (r_order r)) by exact I.
    (* the fallback, in the shape of llfree_get *)
    assert (Hoom : forall x d cf, (d <= 30)%nat -> RPost d [KGet2 r None] u x cf ->
              Reach cf (Final' (match x with
                                | (Err EMemory, u1) =>
                                    match steal_local g policy u1 r None with
                                    | (Err EMemory, u2) =>
                                        match demote_local g policy u2 r None with
                                        | (Err EMemory, u3) => (Err EMemory, u3)
                                        | other => other
                                        end
                                    | other => other
                                    end
                                | other => other
                                end))).
    { intros x d cf' Hd HP. eapply Reach_weaken; [apply (get2_final u r None x d cf' Ho Hf Hd HP)|].
      intros c' H. destruct x as [[y|[| |]|s] u1]; cbn [oom_of] in H; try exact H.
      destruct (steal_local g policy u1 r None) as [[y|[| |]|s] u2]; try exact H.
      destruct (demote_local g policy u2 r None) as [[y|[| |]|s] u3]; exact H. }
    assert (Hglob : forall cf, At 0 u (enter_global u r []) cf ->
              Reach cf (Final' (match search_best g (fun u i => steal_global g policy u i (r_class r) (r_order r) None)
                                        (rate_req policy (r_class r) (pow2 (r_order r))) 8 u (get_start0 u r) 0 (ntrees u) with
                                | (Err EMemory, u1) =>
                                    match steal_local g policy u1 r None with
                                    | (Err EMemory, u2) =>
                                        match demote_local g policy u2 r None with
                                        | (Err EMemory, u3) => (Err EMemory, u3)
                                        | other => other
                                        end
                                    | other => other
                                    end
                                | other => other
                                end))).
    { intros cf' H. unfold enter_global in H.
      assert (Hacc : forall u1 i k d cf, Keeps u u1 -> (d <= 40)%nat ->
                At d u1 (enter_access u1 (AcSteal (r_class r) (r_order r)) i k) cf ->
                Reach cf (RPost 1 k u (steal_global g policy u1 i (r_class r) (r_order r) None))).
      { intros u1 i k d cf2 HK1 _ H2. apply (steal_global_sim u u1 i _ _ None k d cf2 HK1 Ho Hf H2). }
      apply (Reach_bind _ _ _ _ _ (search_best_sim _ _ (rate_req policy (r_class r) (pow2 (r_order r))) (RReq (r_class r) (pow2 (r_order r))) u Hacc (fun _ _ => eq_refl)
                                     8 u (get_start0 u r) 0 (ntrees u) _ 0%nat cf' HK ltac:(lia) H)).
      intros c1 Q1.
      match goal with |- Reach _ (Final' (match ?X with _ => _ end)) => destruct X as [[y|[| |]|s] u1] end;
        (match type of Q1 with RPost _ _ _ ?x _ => apply (Hoom x 2%nat c1); [lia | exact Q1] end). }
    change ((if match class_locals u (r_class r) with Some n => n | None => 0 end =? 0 then 0
             else ntrees u / match class_locals u (r_class r) with Some n => n | None => 0 end) *
            match r_local r with Some i => i | None => 0 end) with (get_start0 u r).
    destruct (r_local r) as [local|] eqn:Elc; [|apply Hglob; exact HA].
    destruct ((0 <? match class_locals u (r_class r) with Some n => n | None => 0 end) &&
              (match class_locals u (r_class r) with Some n => n | None => 0 end <? ntrees u)); [|apply Hglob; exact HA].
    apply (Reach_bind _ _ _ _ _ (get_local_sim u (r_order r) (r_class r) local None Ho Hf u _ 0%nat cf HK ltac:(lia) HA)).
    intros c1 Q1. unfold GLPost in Q1.
    destruct (get_local g policy 2 u (r_order r) (r_class r) local None true) as [[f' c2|e t|s] u1].
    - destruct Q1 as [Q1 HK1]. ret_step Q1. apply Reach_here. apply At_done in Q1. exact Q1.
    - destruct Q1 as [Q1 HK1]. ret_step Q1.
      destruct e; try (apply Reach_here; apply At_done in Q1; exact Q1).
      rewrite Elc in Q1.
      apply (Reach_bind _ _ _ _ _ (sar_sim u u1 _ _ _ _ _ 2%nat c1 HK1 Ho ltac:(lia) Q1)). intros c2 Q2.
      match goal with |- Reach _ (Final' (match ?X with _ => _ end)) => destruct X as [[y|[| |]|s] u2] end;
        (match type of Q2 with RPost ?d _ _ ?x _ => apply (Hoom x d c2); [lia | exact Q2] end).
    - apply Reach_here. exact Q1.
  Qed.

  Lemma get_sim u frame r cf : SInv u -> At 0 u (enter_get g u frame r []) cf ->
    Reach cf (Final (llfree_get g policy u frame r)).
  Proof.
    intros HI HA. destruct (check g u (match frame with Some f => f | None => 0 end) r) as [[]|e|s] eqn:Ec.
    3: { exfalso. eapply check_no_panic; exact Ec. }
    2: { unfold enter_get in HA. unfold llfree_get. rewrite Ec in *. apply Reach_here. apply At_done in HA. exact HA. }
    destruct (check_ok g _ _ _ _ Ec) as (Ho & Hr & Ha & Hc).
    destruct frame as [f|].
    - unfold enter_get in HA. unfold llfree_get. rewrite Ec in *.
      exact (get_at_sim u f r cf HI Ho (conj Ha Hr) HA).
    - exact (get_none_sim u r cf HI Ho HA Ec).
  Qed.

  Theorem usolo_get u P H t last frame r : SInv u -> nth_error P t = Some (UIdle last) ->
    exists fuel, solo_result g policy u P H t (UGet frame r)
                   (usolo_fuel g policy fuel {| m2_up := u; m2_pool := P; m2_held := H |} t (UGet frame r)).
  Proof.
    intros HI Hth. eapply (usolo_of_sim g policy); [exact Hth | reflexivity |].
    intros cf HA. cbn [enter_call] in HA. exact (get_sim u frame r cf HI HA).
  Qed.

  (* ----- every call kind under the one invariant ----- *)
  Lemma SInv_Shape u : SInv u -> Shape g (low u).
  Proof. intros (H & _). apply LowerInv_Shape. exact H. Qed.
  Lemma SInv_TreesFit u : SInv u -> TreesFit g u.
  Proof.
    intros ((_ & H2 & _) & HN & _). unfold TreesFit. rewrite HN, H2. unfold nn. lia.
  Qed.

  (* MAIN: thread t idle, any call c (a put needs its block in the ghost): the solo run ends with thread t idle
     holding the result r of `ubig`, memory u' of `ubig`, the other threads untouched, the ghost as `ufinish` leaves
     it; or, if the model panics at site x, with thread t in `UPanic x c` *)
  Theorem usolo_call u P H H' t last c : SInv u -> nth_error P t = Some (UIdle last) -> take_held c H H' ->
    exists fuel, solo_result g policy u P H' t c
                   (usolo_fuel g policy fuel {| m2_up := u; m2_pool := P; m2_held := H |} t c).
  Proof.
    intros HI Hth Hh. destruct c as [frame r|frame r| |m ch]; cbn [take_held] in Hh; try subst H'.
    - apply (usolo_get u P H t last frame r HI Hth).
    - apply (usolo_put g policy WF u P H H' t last frame r (SInv_Shape u HI) Hth Hh).
    - apply (usolo_drain g policy u P H t last Hth).
    - apply (usolo_change g policy WF u P H t last m ch (SInv_TreesFit u HI) Hth).
  Qed.

  Corollary usolo_call_state s t last c H' : SInv (m2_up s) -> nth_error (m2_pool s) t = Some (UIdle last) ->
    take_held c (m2_held s) H' ->
    exists fuel, solo_result g policy (m2_up s) (m2_pool s) H' t c (usolo_fuel g policy fuel s t c).
  Proof. destruct s as [u P H]. cbn [m2_up m2_pool m2_held]. apply usolo_call. Qed.

  (* the invariant of the sequential proofs implies SInv *)
  Lemma UpperInv_SInv x : UpperInv g policy x -> SInv (us x).
  Proof.
    intros (H1 & H2 & _ & H4 & _ & _ & H7). split; [exact H1|]. split.
    - unfold ntrees. rewrite H2. unfold nn. lia.
    - intros c idx s Hs Hp. destruct (H7 c s) as (Hr & _); [|exact Hr].
      apply (slot_at_present (us x) c idx s H4); [exact Hs | exact Hp].
  Qed.

  (* ----- the one-thread form of UpperMachine.v (`usolo`, thread 0) ----- *)
  Lemma usolo_usolo_fuel c n : forall s,
    usolo g policy n s c =
      match nth_error (m2_pool s) 0 with Some (URun _ _ _) => usolo_fuel g policy n s 0 c | _ => s end.
  Proof.
    induction n as [|n IH]; intros s.
    - cbn [usolo usolo_fuel]. destruct (nth_error (m2_pool s) 0) as [[| |]|]; reflexivity.
    - cbn [usolo usolo_fuel]. destruct (nth_error (m2_pool s) 0) as [[| |]|]; try reflexivity. apply IH.
  Qed.

  Theorem usolo_one_thread u c H' : SInv u -> take_held c (solo_held c) H' ->
    exists fuel, let s := usolo g policy fuel (fst (ustep g policy (uboot u (solo_held c) 1) 0 c)) c in
      match ubig g policy u c with
      | (Panic x, _) => nth_error (m2_pool s) 0 = Some (UPanic x c)
      | (r, u') => nth_error (m2_pool s) 0 = Some (UIdle (Some r)) /\ m2_up s = u'
      end.
  Proof.
    intros HI Hh.
    destruct (usolo_call u [UIdle None] (solo_held c) H' 0 None c HI eq_refl Hh) as (fuel & HR).
    destruct fuel as [|n].
    { exfalso. cbn [usolo_fuel] in HR. unfold solo_result in HR.
      destruct (ubig g policy u c) as [[y|e|x] u'].
      - pose proof (f_equal (fun s => nth_error (m2_pool s) 0) HR) as E. cbn [m2_pool nth_error] in E.
        unfold ufinish in E. destruct c; try destruct y; cbn in E; discriminate E.
      - pose proof (f_equal (fun s => nth_error (m2_pool s) 0) HR) as E. cbn [m2_pool nth_error] in E.
        unfold ufinish in E. destruct c; cbn in E; discriminate E.
      - cbn [m2_pool upd] in HR. discriminate HR. }
    exists n. cbv zeta. rewrite usolo_usolo_fuel.
    cbn [usolo_fuel] in HR. unfold uboot in *. cbn [repeat] in *.
    set (s1 := fst (ustep g policy {| m2_up := u; m2_pool := [UIdle None]; m2_held := solo_held c |} 0 c)) in *.
    assert (E : match nth_error (m2_pool s1) 0 with Some (URun _ _ _) => usolo_fuel g policy n s1 0 c | _ => s1 end =
                match nth_error (m2_pool s1) 0 with Some (URun _ _ _) => usolo_fuel g policy n s1 0 c | _ => s1 end) by reflexivity.
    unfold solo_result in HR.
    destruct (ubig g policy u c) as [[y|e|x] u'].
    - rewrite HR. unfold ufinish. destruct c; try destruct y; cbn; split; reflexivity.
    - rewrite HR. unfold ufinish. destruct c; cbn; split; reflexivity.
    - rewrite HR. reflexivity.
  Qed.
End GetCalls.
