(* The upper half of the M2 invariant: `UIC2` (UpperConcInvDef.v) = the sequential `UpperInvC` of UpperPrims.v
   without its `LowerInv` conjunct (false while lower calls are in flight), which is replaced by the only
   consequence the upper primitives use: tree_free <= TREE_FRAMES.  The transformer lemmas and the
   per-primitive lemmas below are those of UpperPrims.v (Sections InvC, Trans, Prims) restated for `UIC2`
   (same proofs; `lower_facts` is no longer needed); plus the bridges `UIC2_of_C` / `UIC2_to_C`. *)
From Coq Require Import List NArith Bool Lia Permutation PeanoNat.
From LLF Require Import Base Row Bitfield Lower Spec Upper UpperInvDef LowerFacts UpperPrims UpperConcInvDef.

Section U2.
  Variable g : geom.
  Variable policy : N -> N -> N -> pol.
  Hypothesis WF : wf_geom g.
  Notation TF := (TF g).
  Notation UIC := (UIC2 g policy).
  Set Default Proof Using "WF".

  Ltac splitsC := unfold UIC2, tree_ok2; cbv zeta; splits.

  Lemma tree_ok2_ext2 u u' offs cr ih i t :
    locals u = locals u' -> low u = low u' -> tree_ok2 g policy u offs cr ih i t -> tree_ok2 g policy u' offs cr ih i t.
  Proof.
    intros L W. unfold tree_ok2, slots_of, present_slots.
    rewrite (all_slots_ext _ _ L), W, (class_slots_ext _ _ (t_class t) L). auto.
  Qed.

  Lemma U2_ext cr cr' ih x : (forall t, cr t = cr' t) -> UIC2 g policy cr ih x -> UIC2 g policy cr' ih x.
  Proof.
    intros E (H1 & H2 & H3 & H4 & H5 & H6 & H7 & H8). splitsC; auto.
    intros i t Hi. destruct (H6 i t Hi) as (A & B & C & D & F). unfold tree_ok2. rewrite <- E. repeat split; auto.
  Qed.

  Lemma U2_perm cr ih ih' x : Permutation ih ih' -> UIC2 g policy cr ih x -> UIC2 g policy cr ih' x.
  Proof.
    intros P (H1 & H2 & H3 & H4 & H5 & H6 & H7 & H8). splitsC; auto.
    - intros i t Hi. destruct (H6 i t Hi) as (A & B & C & D & F). unfold tree_ok2.
      pose proof (ih_of_perm _ _ (N.of_nat i) P) as P'.
      rewrite <- (Permutation_length P'), <- (ih_sum_perm _ _ P'). repeat split; auto.
      intros c f0 Hin. apply (F c f0). eapply Permutation_in; [apply Permutation_sym|]; eauto.
    - intros t c f Hin. eapply H8. eapply Permutation_in; [apply Permutation_sym|]; eauto.
  Qed.

  (* the free count of the first in-hand reservation against the credit of its tree *)
  Lemma U2_ih_credit cr cr' t c f f' ih x :
    UIC2 g policy cr ((t, c, f) :: ih) x ->
    (forall j, cr' j + delta j t f' = cr j + delta j t f) ->
    UIC2 g policy cr' ((t, c, f') :: ih) x.
  Proof.
    intros (H1 & H2 & H3 & H4 & H5 & H6 & H7 & H8) E. splitsC; auto.
    - intros i t0 Hi. destruct (H6 i t0 Hi) as (A & B & C & D & F). unfold tree_ok2.
      rewrite ih_of_cons in *. specialize (E (N.of_nat i)). unfold delta in E. rewrite (N.eqb_sym (N.of_nat i)) in E.
      destruct (t =? N.of_nat i) eqn:Et; cbn [length ih_sum fold_right snd] in *.
      + repeat split; auto; try lia.
        intros c0 f0 [Q|Q]; [inversion Q; subst; eapply F; left; reflexivity | eapply F; right; eauto].
      + repeat split; auto; try lia.
        intros c0 f0 [Q|Q]; [inversion Q; subst; rewrite N.eqb_refl in Et; discriminate | eapply F; right; eauto].
    - intros t0 c0 f0 [Q|Q]; [inversion Q; subst; eapply (H8 t0 c0 f); left; reflexivity | eapply H8; right; eauto].
  Qed.


  Definition mk2 (x : ustate) (u' : upper) : ustate := {| us := u'; off := off x |}.

  Lemma mk_id2 x : mk2 x (us x) = x.
  Proof. destruct x; reflexivity. Qed.

  (* ----- a tree entry is rewritten (together with the credit / in-hand list of that tree) ----- *)
  Lemma U2_set_tree cr cr' ih ih' x i t t' :
    UIC cr ih x -> tree_at (us x) i = Some t ->
    (forall j, j <> i -> cr' j = cr j) ->
    (forall j, j <> i -> ih_of ih' j = ih_of ih j) ->
    tree_ok2 g policy (us x) (off x) cr' ih' (nn i) t' ->
    (forall t0 c f, In (t0, c, f) ih' -> t0 < ntrees (us x) /\ class_slots (us x) c <> None) ->
    UIC cr' ih' (mk2 x (set_tree (us x) i t')).
  Proof.
    intros (H1 & H2 & H3 & H4 & H5 & H6 & H7 & H8) Ht Ecr Eih Hok Hih.
    unfold UIC2, mk2. cbn [us off]. cbv zeta.
    cbn [low set_tree with_trees trees locals dflt]. rewrite upd_length.
    splits; auto.
    - intros k tk Hk. destruct (Nat.eq_dec k (nn i)) as [->|Nk].
      + unfold tree_at in Ht. rewrite nth_error_upd_same in Hk by (apply nth_error_Some; congruence).
        inversion Hk; subst tk. eapply tree_ok2_ext2; [| |apply Hok]; reflexivity.
      + rewrite nth_error_upd_other in Hk by auto.
        assert (Nk' : N.of_nat k <> i) by (unfold nn in *; lia).
        destruct (H6 k tk Hk) as (A & B & C & D & F).
        eapply tree_ok2_ext2 with (u := us x); [reflexivity|reflexivity|].
        unfold tree_ok2. rewrite Ecr, Eih by auto. splits; auto.
        intros c f0 Hin. apply (F c f0).
        assert (Q : In (N.of_nat k, c, f0) (ih_of ih' (N.of_nat k))) by (apply in_ih_of; auto).
        rewrite Eih in Q by auto. apply in_ih_of in Q. tauto.
    - intros c s Hin. rewrite ntrees_set_tree. apply (H7 c s).
      unfold present_slots in *. erewrite all_slots_ext; eauto.
    - intros t0 c f Hin. rewrite ntrees_set_tree.
      destruct (Hih t0 c f Hin). split; auto.
  Qed.

  (* variant: the ghost `off` list changes at index i as well (change_tree) *)
  Lemma U2_set_tree_off cr cr' ih ih' x i t t' offs' :
    UIC cr ih x -> tree_at (us x) i = Some t ->
    length offs' = length (off x) ->
    (forall k, k <> nn i -> nth k offs' 0 = nth k (off x) 0) ->
    (forall j, j <> i -> cr' j = cr j) ->
    (forall j, j <> i -> ih_of ih' j = ih_of ih j) ->
    tree_ok2 g policy (us x) offs' cr' ih' (nn i) t' ->
    (forall t0 c f, In (t0, c, f) ih' -> t0 < ntrees (us x) /\ class_slots (us x) c <> None) ->
    UIC cr' ih' {| us := set_tree (us x) i t'; off := offs' |}.
  Proof.
    intros (H1 & H2 & H3 & H4 & H5 & H6 & H7 & H8) Ht Hlo Hoffs Ecr Eih Hok Hih.
    unfold UIC2. cbn [us off]. cbv zeta.
    cbn [low set_tree with_trees trees locals dflt]. rewrite upd_length.
    splits; auto.
    - congruence.
    - intros k tk Hk. destruct (Nat.eq_dec k (nn i)) as [->|Nk].
      + unfold tree_at in Ht. rewrite nth_error_upd_same in Hk by (apply nth_error_Some; congruence).
        inversion Hk; subst tk. eapply tree_ok2_ext2; [| |apply Hok]; reflexivity.
      + rewrite nth_error_upd_other in Hk by auto.
        assert (Nk' : N.of_nat k <> i) by (unfold nn in *; lia).
        destruct (H6 k tk Hk) as (A & B & C & D & F).
        eapply tree_ok2_ext2 with (u := us x); [reflexivity|reflexivity|].
        unfold tree_ok2. rewrite Ecr, Eih, Hoffs by auto. splits; auto.
        intros c f0 Hin. apply (F c f0).
        assert (Q : In (N.of_nat k, c, f0) (ih_of ih' (N.of_nat k))) by (apply in_ih_of; auto).
        rewrite Eih in Q by auto. apply in_ih_of in Q. tauto.
    - intros c s Hin. rewrite ntrees_set_tree. apply (H7 c s).
      unfold present_slots in *. erewrite all_slots_ext; eauto.
    - intros t0 c f Hin. rewrite ntrees_set_tree.
      destruct (Hih t0 c f Hin). split; auto.
  Qed.

  (* ----- the lower allocator state is replaced ----- *)
  Lemma U2_with_low cr cr' ih x l' :
    UIC cr ih x -> (forall t, t < ntab g (frames l') -> tree_free g l' t <= TF) -> frames l' = frames (low (us x)) ->
    (forall t, t < ntrees (us x) -> tree_free g l' t + cr t = tree_free g (low (us x)) t + cr' t) ->
    UIC cr' ih (mk2 x (with_low (us x) l')).
  Proof.
    intros (H1 & H2 & H3 & H4 & H5 & H6 & H7 & H8) HL HF E.
    unfold UIC2, mk2. cbn [us off]. cbv zeta. cbn [low with_low trees locals dflt]. rewrite HF.
    splits; auto.
    { rewrite <- HF. exact HL. }
    intros k tk Hk. destruct (H6 k tk Hk) as (A & B & C & D & F).
    assert (Lk : N.of_nat k < ntrees (us x)).
    { unfold ntrees. assert (k < length (trees (us x)))%nat by (apply nth_error_Some; congruence). lia. }
    specialize (E _ Lk).
    unfold tree_ok2. cbn [low with_low]. cbv zeta.
    change (slots_of g (with_low (us x) l') (N.of_nat k)) with (slots_of g (us x) (N.of_nat k)).
    change (class_slots (with_low (us x) l') (t_class tk)) with (class_slots (us x) (t_class tk)).
    splits; auto. lia.
  Qed.

  (* ----- a present slot keeps its tree, its free count (and start row) change ----- *)
  Lemma U2_slot_free cr cr' ih x c j s s' :
    UIC cr ih x -> slot_at (us x) c j = Some s -> s_pres s = true -> s_pres s' = true ->
    row_tree g (s_row s') = row_tree g (s_row s) ->
    s_row s' * 64 < frames (low (us x)) -> s_free s' <= TF ->
    (forall t, cr' t + delta t (row_tree g (s_row s)) (s_free s') =
               cr t + delta t (row_tree g (s_row s)) (s_free s)) ->
    UIC cr' ih (mk2 x (set_slot (us x) c j s')).
  Proof.
    intros (H1 & H2 & H3 & H4 & H5 & H6 & H7 & H8) Hs P P' ET Hrow Hfree E.
    destruct (slot_at_inv _ _ _ _ Hs) as (l & HC & HN).
    unfold UIC2, mk2. cbn [us off]. cbv zeta.
    rewrite set_slot_low, set_slot_trees, set_slot_dflt, set_slot_locals_len, ntrees_set_slot.
    splits; auto.
    - rewrite class_slots_set_slot_none. auto.
    - intros k tk Hk. destruct (H6 k tk Hk) as (A & B & C & D & F).
      destruct (slots_of_split g (us x) c j l s (N.of_nat k) H4 HC HN) as (X & Y & E1 & E2).
      unfold tree_ok2. cbv zeta. rewrite set_slot_low, class_slots_set_slot_none, (E2 s').
      rewrite E1 in A, B, D. rewrite !app_length, !length_one in *. rewrite !sum_free_app, !sum_free_one in *.
      specialize (E (N.of_nat k)). unfold delta in E.
      unfold one_cnt, one_free in *. rewrite P, P', ET in *. cbn [andb] in *.
      rewrite (N.eqb_sym (N.of_nat k)) in E.
      splits; auto.
      + destruct (row_tree g (s_row s) =? N.of_nat k); lia.
      + intros c0 s0 Hin. apply in_app_or in Hin. destruct Hin as [Hin|Hin].
        * apply (D c0 s0). apply in_or_app. auto.
        * apply in_app_or in Hin. destruct Hin as [Hin|Hin].
          -- apply in_one in Hin. destruct Hin as (-> & -> & _ & Q). apply (D c s).
             apply in_or_app. right. apply in_or_app. left. apply in_one. rewrite <- ET. auto.
          -- apply (D c0 s0). apply in_or_app. right. apply in_or_app. auto.
    - intros c0 s0 Hin.
      destruct (present_split (us x) c j l s H4 HC HN) as (X & Y & E1 & E2).
      rewrite (E2 s') in Hin. rewrite E1 in H7. unfold onep in *. rewrite P in H7. rewrite P' in Hin.
      apply in_app_or in Hin. destruct Hin as [Hin|Hin].
      + apply (H7 c0 s0). apply in_or_app. auto.
      + destruct Hin as [Hin|Hin].
        * inversion Hin; subst c0 s0. splits; auto. rewrite ET. apply (H7 c s). apply in_or_app. right. left. auto.
        * apply (H7 c0 s0). apply in_or_app. right. right. auto.
    - intros t c0 f Hin. rewrite class_slots_set_slot_none. apply (H8 t c0 f Hin).
  Qed.

  (* ----- a slot is overwritten: the new content comes out of the in-hand list, the old one goes in ----- *)
  Lemma U2_slot_xchg cr ih x c j s s' :
    slot_at (us x) c j = Some s ->
    (s_pres s' = true -> s_row s' * 64 < frames (low (us x)) /\ s_free s' <= TF) ->
    UIC cr (resv_of g c s' ++ ih) x ->
    UIC cr (resv_of g c s ++ ih) (mk2 x (set_slot (us x) c j s')).
  Proof.
    intros Hs Hb (H1 & H2 & H3 & H4 & H5 & H6 & H7 & H8).
    destruct (slot_at_inv _ _ _ _ Hs) as (l & HC & HN).
    unfold UIC2, mk2. cbn [us off]. cbv zeta.
    rewrite set_slot_low, set_slot_trees, set_slot_dflt, set_slot_locals_len, ntrees_set_slot.
    splits; auto.
    - rewrite class_slots_set_slot_none. auto.
    - intros k tk Hk. destruct (H6 k tk Hk) as (A & B & C & D & F).
      destruct (slots_of_split g (us x) c j l s (N.of_nat k) H4 HC HN) as (X & Y & E1 & E2).
      unfold tree_ok2. cbv zeta. rewrite set_slot_low, class_slots_set_slot_none, (E2 s').
      rewrite E1 in A, B, D. rewrite !ih_of_app in *. rewrite !ih_sum_app in *.
      rewrite !app_length, !length_one, !resv_of_len in *.
      rewrite !sum_free_app, !sum_free_one, !resv_of_sum in *.
      splits; auto; try lia.
      + intros c0 s0 Hin. apply in_app_or in Hin. destruct Hin as [Hin|Hin].
        * apply (D c0 s0). apply in_or_app. auto.
        * apply in_app_or in Hin. destruct Hin as [Hin|Hin].
          -- apply in_one in Hin. destruct Hin as (-> & -> & Q1 & Q2). apply (F c (s_free s')).
             apply in_or_app. left. apply in_resv_of. auto.
          -- apply (D c0 s0). apply in_or_app. right. apply in_or_app. auto.
      + intros c0 f0 Hin. apply in_app_or in Hin. destruct Hin as [Hin|Hin].
        * apply in_resv_of in Hin. destruct Hin as (Q1 & Q2 & -> & ->). apply (D c s).
          apply in_or_app. right. apply in_or_app. left. apply in_one. auto.
        * apply (F c0 f0). apply in_or_app. auto.
    - intros c0 s0 Hin.
      destruct (present_split (us x) c j l s H4 HC HN) as (X & Y & E1 & E2).
      rewrite (E2 s') in Hin. rewrite E1 in H7. unfold onep in *.
      apply in_app_or in Hin. destruct Hin as [Hin|Hin].
      + apply (H7 c0 s0). apply in_or_app. auto.
      + apply in_app_or in Hin. destruct Hin as [Hin|Hin].
        * destruct (s_pres s') eqn:P'; [|destruct Hin]. destruct Hin as [Hin|[]].
          inversion Hin; subst c0 s0. destruct (Hb eq_refl). splits; auto.
          apply (H8 (row_tree g (s_row s')) c (s_free s')). apply in_or_app. left. apply in_resv_of. auto.
        * apply (H7 c0 s0). apply in_or_app. right. apply in_or_app. auto.
    - intros t c0 f Hin. rewrite class_slots_set_slot_none. apply in_app_or in Hin. destruct Hin as [Hin|Hin].
      + apply in_resv_of in Hin. destruct Hin as (Q1 & -> & -> & ->). split; [|congruence].
        apply (H7 c s). rewrite in_present. split; auto. apply in_all_slots; eauto.
      + apply (H8 t c0 f). apply in_or_app. auto.
  Qed.

  Lemma tree_ok2_nn2 u offs cr ih i t :
    tree_ok2 g policy u offs cr ih (nn i) t <->
    ((length (slots_of g u i) + length (ih_of ih i) = if t_res t then 1 else 0)%nat /\
     t_free t + sum_free (slots_of g u i) + nth (nn i) offs 0 + cr i + ih_sum (ih_of ih i)
       = tree_free g (low u) i /\
     class_slots u (t_class t) <> None /\
     (forall c s, In (c, s) (slots_of g u i) -> forall f, pol_keeps (policy c (t_class t) f) = true) /\
     (forall c f0, In (i, c, f0) ih -> forall f, pol_keeps (policy c (t_class t) f) = true)).
  Proof. unfold tree_ok2, nn. rewrite N2Nat.id. reflexivity. Qed.

  Lemma U2_tree cr ih x i t : UIC cr ih x -> tree_at (us x) i = Some t ->
    tree_ok2 g policy (us x) (off x) cr ih (nn i) t.
  Proof. intros (H1 & H2 & H3 & H4 & H5 & H6 & H7 & H8) Ht. apply H6. exact Ht. Qed.

  Lemma U2_ntrees cr ih x : UIC cr ih x -> ntrees (us x) = ntab g (frames (low (us x))).
  Proof. intros (H1 & H2 & _). unfold ntrees. rewrite H2. unfold nn. apply N2Nat.id. Qed.

  Lemma U2_tree_free_le cr ih x i : UIC cr ih x -> i < ntrees (us x) -> tree_free g (low (us x)) i <= TF.
  Proof.
    intros H Hi. pose proof (U2_ntrees _ _ _ H) as E. destruct H as (H1 & _).
    rewrite E in Hi. apply H1. exact Hi.
  Qed.

  Lemma ok2_same_class u offs offs' cr cr' ih k t t' :
    tree_ok2 g policy u offs cr ih k t -> t_res t' = t_res t -> t_class t' = t_class t ->
    t_free t' + nth k offs' 0 + cr' (N.of_nat k) = t_free t + nth k offs 0 + cr (N.of_nat k) ->
    tree_ok2 g policy u offs' cr' ih k t'.
  Proof.
    intros (A & B & C & D & F) R K E. unfold tree_ok2. cbv zeta. rewrite R, K. splits; auto. lia.
  Qed.

  Lemma ok2_unres u offs offs' cr cr' ih k t t' :
    tree_ok2 g policy u offs cr ih k t -> t_res t = false -> t_res t' = false ->
    class_slots u (t_class t') <> None ->
    t_free t' + nth k offs' 0 + cr' (N.of_nat k) = t_free t + nth k offs 0 + cr (N.of_nat k) ->
    tree_ok2 g policy u offs' cr' ih k t'.
  Proof.
    intros (A & B & C & D & F) R R' K E. unfold tree_ok2. cbv zeta. rewrite R in A. rewrite R'.
    assert (L1 : slots_of g u (N.of_nat k) = []) by (apply length_zero_iff_nil; lia).
    assert (L2 : ih_of ih (N.of_nat k) = []) by (apply length_zero_iff_nil; lia).
    splits; auto; try lia.
    - intros c s Hin. rewrite L1 in Hin. destruct Hin.
    - intros c f0 Hin. assert (Q : In (N.of_nat k, c, f0) (ih_of ih (N.of_nat k))) by (apply in_ih_of; auto).
      rewrite L2 in Q. destruct Q.
  Qed.

  Lemma U2_set_tree_cr cr cr' ih x i t t' :
    UIC cr ih x -> tree_at (us x) i = Some t ->
    (forall j, j <> i -> cr' j = cr j) ->
    tree_ok2 g policy (us x) (off x) cr' ih (nn i) t' ->
    UIC cr' ih (mk2 x (set_tree (us x) i t')).
  Proof.
    intros H Ht E Hok. eapply U2_set_tree; eauto.
    destruct H as (H1 & H2 & H3 & H4 & H5 & H6 & H7 & H8). exact H8.
  Qed.

  Ltac delta_tac2 E i :=
    let j := fresh "j" in let Hj := fresh "Hj" in
    intros j Hj; specialize (E j); unfold delta in E; apply N.eqb_neq in Hj; rewrite Hj in E; lia.

  (* ================= Trees ================= *)
  Lemma tree_put_ok2 d t free : t_free t + free <= TF ->
    tree_put g policy d t free =
    Ok {| t_free := t_free t + free; t_res := t_res t;
          t_class := if (t_free t + free =? TF) && negb (t_res t) &&
                        negb (pol_is_invalid (policy (t_class t) d (t_free t + free)))
                     then d else t_class t |}.
  Proof. intros H. unfold tree_put. apply N.ltb_ge in H. rewrite H. reflexivity. Qed.

  (* `put`: `free` frames of the caller's credit for tree i go to the tree counter *)
  Lemma trees_put_C2 cr cr' ih x i free r u' :
    UIC cr ih x -> i < ntrees (us x) -> free <= cr i ->
    (forall j, cr' j + delta j i free = cr j) ->
    trees_put g policy (us x) i free = (r, u') ->
    r = Ok tt /\ UIC cr' ih (mk2 x u') /\
    exists t t', tree_at (us x) i = Some t /\ tree_put g policy (dflt (us x)) t free = Ok t' /\
                 t_free t' = t_free t + free /\ t_res t' = t_res t /\
                 u' = set_tree (us x) i t'.
  Proof.
    intros H Hi Hf E Hp. destruct (tree_at_some _ _ Hi) as (t & Ht).
    pose proof (U2_tree _ _ _ _ _ H Ht) as Hok. pose proof (U2_tree_free_le _ _ _ _ H Hi) as Hle.
    pose proof Hok as Hok'. apply tree_ok2_nn2 in Hok'. destruct Hok' as (A & B & C & D & F).
    assert (Hb : t_free t + free <= TF) by lia.
    unfold trees_put in Hp. rewrite Ht, (tree_put_ok2 _ _ _ Hb) in Hp. inversion Hp; subst r u'. clear Hp.
    split; auto. split.
    - eapply U2_set_tree_cr; eauto. { delta_tac2 E i. }
      pose proof (E i) as Ei. unfold delta in Ei. rewrite N.eqb_refl in Ei.
      destruct ((t_free t + free =? TF) && negb (t_res t) &&
                negb (pol_is_invalid (policy (t_class t) (dflt (us x)) (t_free t + free)))) eqn:Ec.
      + apply andb_true_iff in Ec. destruct Ec as (Ec & _). apply andb_true_iff in Ec. destruct Ec as (_ & Ec).
        apply negb_true_iff in Ec.
        eapply ok2_unres; eauto; cbn [t_free t_res t_class].
        * destruct H as (_ & _ & _ & _ & H5 & _). exact H5.
        * unfold nn. rewrite N2Nat.id. lia.
      + eapply ok2_same_class; eauto; cbn [t_free t_res t_class]. unfold nn. rewrite N2Nat.id. lia.
    - eexists _, _. splits; eauto using tree_put_ok2.
  Qed.

  (* `sync`: the counter of a reserved tree goes to the caller's credit *)
  Lemma trees_sync_C2 cr ih x i min r u' :
    UIC cr ih x -> i < ntrees (us x) ->
    trees_sync (us x) i min = (r, u') ->
    (r = Ok None /\ u' = us x) \/
    (exists t, tree_at (us x) i = Some t /\ t_res t = true /\ min <= t_free t /\
               r = Ok (Some (t_free t)) /\
               u' = set_tree (us x) i {| t_free := 0; t_res := true; t_class := t_class t |} /\
               forall cr', (forall j, cr' j = cr j + delta j i (t_free t)) -> UIC cr' ih (mk2 x u')).
  Proof.
    intros H Hi Hp. destruct (tree_at_some _ _ Hi) as (t & Ht).
    pose proof (U2_tree _ _ _ _ _ H Ht) as Hok.
    unfold trees_sync in Hp. rewrite Ht in Hp. unfold tree_sync_steal in Hp.
    destruct (t_res t && (min <=? t_free t)) eqn:Ec; inversion Hp; subst r u'; clear Hp; auto.
    apply andb_true_iff in Ec. destruct Ec as (R & M). apply N.leb_le in M. right.
    exists t. rewrite R. splits; auto.
    intros cr' E. eapply U2_set_tree_cr; eauto.
    - intros j Hj. rewrite E. unfold delta. apply N.eqb_neq in Hj. rewrite Hj. lia.
    - eapply ok2_same_class; eauto; cbn [t_free t_res t_class]; auto.
      unfold nn. rewrite N2Nat.id, E. unfold delta. rewrite N.eqb_refl. lia.
  Qed.

  (* `steal`: `free` frames of an unreserved tree go to the caller's credit *)
  Lemma trees_steal_C2 cr ih x i class free r u' :
    UIC cr ih x -> i < ntrees (us x) -> class_slots (us x) class <> None ->
    trees_steal policy (us x) i class free = (r, u') ->
    (r = Ok None /\ u' = us x) \/
    (exists t t', tree_at (us x) i = Some t /\ t_res t = false /\ free <= t_free t /\
               tree_steal policy t class free = Some t' /\
               t_free t' = t_free t - free /\ t_res t' = false /\
               (t_class t' = class \/ t_class t' = t_class t) /\
               r = Ok (Some (t_class t')) /\ u' = set_tree (us x) i t' /\
               forall cr', (forall j, cr' j = cr j + delta j i free) -> UIC cr' ih (mk2 x u')).
  Proof.
    intros H Hi Hc Hp. destruct (tree_at_some _ _ Hi) as (t & Ht).
    pose proof (U2_tree _ _ _ _ _ H Ht) as Hok. pose proof Hok as Hok'. apply tree_ok2_nn2 in Hok'.
    destruct Hok' as (A & B & C & D & F).
    unfold trees_steal in Hp. rewrite Ht in Hp.
    destruct (tree_steal policy t class free) as [t'|] eqn:Es; inversion Hp; subst r u'; clear Hp; auto.
    right. pose proof Es as Es0. unfold tree_steal in Es.
    destruct ((free <=? t_free t) && negb (t_res t)) eqn:Ec; try discriminate.
    apply andb_true_iff in Ec. destruct Ec as (M & R). apply N.leb_le in M. apply negb_true_iff in R.
    assert (Q : t_free t' = t_free t - free /\ t_res t' = false /\
                (t_class t' = class \/ t_class t' = t_class t)).
    { destruct (policy class (t_class t) free); inversion Es; subst t'; cbn [t_free t_res t_class]; auto. }
    destruct Q as (Q1 & Q2 & Q3).
    exists t, t'. splits; auto.
    intros cr' E. eapply U2_set_tree_cr; eauto.
    - intros j Hj. rewrite E. unfold delta. apply N.eqb_neq in Hj. rewrite Hj. lia.
    - eapply ok2_unres; eauto.
      + destruct Q3 as [-> | ->]; auto.
      + unfold nn. rewrite N2Nat.id, E. unfold delta. rewrite N.eqb_refl. lia.
  Qed.
  Lemma ok2_fresh u offs cr ih k t' :
    slots_of g u (N.of_nat k) = [] -> ih_of ih (N.of_nat k) = [] -> t_res t' = false ->
    class_slots u (t_class t') <> None ->
    t_free t' + nth k offs 0 + cr (N.of_nat k) = tree_free g (low u) (N.of_nat k) ->
    tree_ok2 g policy u offs cr ih k t'.
  Proof.
    intros L1 L2 R C E. unfold tree_ok2. cbv zeta. rewrite L1, L2, R. cbn [length sum_free ih_sum fold_right].
    splits; auto; try lia; try (intros c s []).
    intros c f0 Hin. assert (Q : In (N.of_nat k, c, f0) (ih_of ih (N.of_nat k))) by (apply in_ih_of; auto).
    rewrite L2 in Q. destruct Q.
  Qed.

  Lemma U2_inhand cr ih x t c f : UIC cr ih x -> In (t, c, f) ih -> t < ntrees (us x) /\ class_slots (us x) c <> None.
  Proof. intros (H1 & H2 & H3 & H4 & H5 & H6 & H7 & H8). apply H8. Qed.
  Lemma U2_dflt cr ih x : UIC cr ih x -> class_slots (us x) (dflt (us x)) <> None.
  Proof. intros (H1 & H2 & H3 & H4 & H5 & _). exact H5. Qed.
  Lemma U2_len8 cr ih x : UIC cr ih x -> length (locals (us x)) = 8%nat.
  Proof. intros (H1 & H2 & H3 & H4 & _). exact H4. Qed.

  Lemma slot_at_present2 u c j s : length (locals u) = 8%nat -> slot_at u c j = Some s -> s_pres s = true ->
    In (c, s) (present_slots u).
  Proof. intros L H P. apply in_present. split; auto. apply in_all_slots; eauto. Qed.

  Lemma U2_slot cr ih x c j s : UIC cr ih x -> slot_at (us x) c j = Some s -> s_pres s = true ->
    row_tree g (s_row s) < ntrees (us x) /\ s_row s * 64 < frames (low (us x)) /\ s_free s <= TF.
  Proof.
    intros H Hs P. pose proof (U2_len8 _ _ _ H) as L.
    destruct H as (H1 & H2 & H3 & H4 & H5 & H6 & H7 & H8). apply (H7 c s). eapply slot_at_present2; eauto.
  Qed.

  (* `reserve_or_steal`: either the whole counter becomes an in-hand reservation of `class`, or
     `free` frames go to the credit *)
  Lemma trees_reserve_or_steal_C2 cr ih x i class free r u' :
    pol_refl_match policy ->
    UIC cr ih x -> i < ntrees (us x) -> class_slots (us x) class <> None ->
    trees_reserve_or_steal policy (us x) i class free = (r, u') ->
    (r = Ok None /\ u' = us x) \/
    (exists t, tree_at (us x) i = Some t /\ t_res t = false /\ free <= t_free t /\
       ((pol_keeps (policy class (t_class t) free) = true /\
         r = Ok (Some (true, t_free t, class)) /\
         u' = set_tree (us x) i {| t_free := 0; t_res := true; t_class := class |} /\
         UIC cr ((i, class, t_free t) :: ih) (mk2 x u')) \/
        (policy class (t_class t) free = PSteal /\
         r = Ok (Some (false, t_free t, t_class t)) /\
         u' = set_tree (us x) i {| t_free := t_free t - free; t_res := false; t_class := t_class t |} /\
         forall cr', (forall j, cr' j = cr j + delta j i free) -> UIC cr' ih (mk2 x u')))).
  Proof.
    intros PR H Hi Hc Hp. destruct (tree_at_some _ _ Hi) as (t & Ht).
    pose proof (U2_tree _ _ _ _ _ H Ht) as Hok. pose proof Hok as Hok'. apply tree_ok2_nn2 in Hok'.
    destruct Hok' as (A & B & C & D & F).
    unfold trees_reserve_or_steal in Hp. rewrite Ht in Hp. unfold tree_reserve_or_steal in Hp.
    destruct ((free <=? t_free t) && negb (t_res t)) eqn:Ec.
    2:{ inversion Hp; auto. }
    apply andb_true_iff in Ec. destruct Ec as (M & R). apply N.leb_le in M. apply negb_true_iff in R.
    rewrite R in A.
    assert (L1 : slots_of g (us x) i = []) by (apply length_zero_iff_nil; lia).
    assert (L2 : ih_of ih i = []) by (apply length_zero_iff_nil; lia).
    assert (RES : forall r u', (r, u') = (Ok (Some (true, t_free t, class)),
                   set_tree (us x) i {| t_free := 0; t_res := true; t_class := class |}) ->
              r = Ok (Some (true, t_free t, class)) /\
              u' = set_tree (us x) i {| t_free := 0; t_res := true; t_class := class |} /\
              UIC cr ((i, class, t_free t) :: ih) (mk2 x u')).
    { intros r0 u0 Q. inversion Q; subst r0 u0. splits; auto.
      eapply U2_set_tree; eauto.
      - intros j Hj. rewrite ih_of_cons. apply N.eqb_neq in Hj. rewrite N.eqb_sym, Hj. reflexivity.
      - apply tree_ok2_nn2. rewrite ih_of_cons, N.eqb_refl, L1, L2. cbn [t_free t_res t_class length ih_sum fold_right snd sum_free].
        rewrite L1, L2 in B. cbn [sum_free ih_sum fold_right] in B.
        splits; auto; try lia.
        intros c f0 [Q0|Q0] f.
        * inversion Q0 as [[Hc1 Hc2]]. rewrite <- ?Hc1. specialize (PR class f). destruct (policy class class f); try discriminate. reflexivity.
        * assert (Q' : In (i, c, f0) (ih_of ih i)) by (apply in_ih_of; auto). rewrite L2 in Q'. destruct Q'.
      - intros t0 c f [Q0|Q0].
        + inversion Q0 as [[Hc0 Hc1 Hc2]]. rewrite <- Hc0, <- Hc1. auto.
        + eapply U2_inhand; eauto. }
    destruct (policy class (t_class t) free) eqn:Ep; inversion Hp; subst r u'; clear Hp; auto; right; exists t; splits; auto.
    - left. split; auto. rewrite Ep. reflexivity.
    - left. split; auto. rewrite Ep. reflexivity.
    - right. rewrite R. splits; auto. intros cr' E. eapply U2_set_tree_cr; eauto.
      + intros j Hj. rewrite E. unfold delta. apply N.eqb_neq in Hj. rewrite Hj. lia.
      + eapply ok2_unres; eauto; cbn [t_free t_res t_class]; auto.
        unfold nn. rewrite N2Nat.id, E. unfold delta. rewrite N.eqb_refl. lia.
  Qed.

  (* `unreserve`: an in-hand reservation goes back to the (then unreserved) tree *)
  Lemma trees_unreserve_C2 cr ih x i free class r u' :
    UIC cr ((i, class, free) :: ih) x ->
    trees_unreserve g policy (us x) i free class = (r, u') ->
    r = Ok tt /\ UIC cr ih (mk2 x u') /\
    exists t t', tree_at (us x) i = Some t /\ t_res t = true /\ t_free t' = t_free t + free /\
                 t_res t' = false /\ u' = set_tree (us x) i t'.
  Proof.
    intros H Hp. destruct (U2_inhand _ _ _ i class free H (or_introl eq_refl)) as (Hi & Hc).
    destruct (tree_at_some _ _ Hi) as (t & Ht).
    pose proof (U2_tree _ _ _ _ _ H Ht) as Hok. pose proof (U2_tree_free_le _ _ _ _ H Hi) as Hle.
    apply tree_ok2_nn2 in Hok. destruct Hok as (A & B & C & D & F).
    rewrite ih_of_cons, N.eqb_refl in A, B. cbn [length ih_sum fold_right snd] in A, B.
    assert (R : t_res t = true) by (destruct (t_res t); auto; lia). rewrite R in A.
    assert (L1 : slots_of g (us x) i = []) by (apply length_zero_iff_nil; lia).
    assert (L2 : ih_of ih i = []) by (apply length_zero_iff_nil; lia).
    rewrite L1, L2 in B. cbn [sum_free fold_right] in B.
    pose proof (F class free (or_introl eq_refl) free) as K.
    unfold trees_unreserve, tree_unreserve_add in Hp. rewrite Ht, R in Hp.
    assert (G : forall cls, class_slots (us x) cls <> None ->
              exists t', tree_put g policy (dflt (us x)) {| t_free := t_free t; t_res := false; t_class := cls |} free = Ok t' /\
                         t_free t' = t_free t + free /\ t_res t' = false /\
                         UIC cr ih (mk2 x (set_tree (us x) i t'))).
    { intros cls Hcls. eexists. split; [apply tree_put_ok2; cbn [t_free]; lia|]. cbn [t_free t_res t_class]. splits; auto.
      eapply U2_set_tree; eauto.
      - intros j Hj. rewrite ih_of_cons. apply N.eqb_neq in Hj. rewrite N.eqb_sym, Hj. reflexivity.
      - unfold nn. apply ok2_fresh; rewrite ?N2Nat.id; auto; cbn [t_free t_res t_class].
        + destruct (_ && _); auto. eapply U2_dflt; eauto.
        + fold (nn i). lia.
      - intros t0 c f Q. eapply U2_inhand; eauto. right. exact Q. }
    destruct (policy class (t_class t) free) eqn:Ep; try discriminate.
    - destruct (G (t_class t) C) as (t' & E1 & E2 & E3 & E4). rewrite E1 in Hp. inversion Hp; subst r u'.
      splits; auto. exists t, t'. splits; auto.
    - destruct (G class Hc) as (t' & E1 & E2 & E3 & E4). rewrite E1 in Hp. inversion Hp; subst r u'.
      splits; auto. exists t, t'. splits; auto.
  Qed.

  (* ================= Locals ================= *)
  Definition idx_ok2 (u : upper) (c j : N) : Prop :=
    forall l, class_slots u c = Some l -> j < N.of_nat (length l).

  Lemma idx_ok_slot2 u c j l : idx_ok2 u c j -> class_slots u c = Some l -> exists s, nth_error l (nn j) = Some s.
  Proof. clear policy.
    intros H E. specialize (H l E). destruct (nth_error l (nn j)) eqn:En; eauto.
    apply nth_error_None in En. unfold nn in En. lia.
  Qed.

  Lemma sum_free_in2 c s l : In (c, s) l -> s_free s <= sum_free l.
  Proof. clear policy.
    unfold sum_free. induction l as [|a l IH]; cbn [In fold_right]; [intros []|].
    intros [->|H]; cbn [snd]; [lia|]. specialize (IH H). lia.
  Qed.

  Lemma locals_get_C2 cr ih x c j tree n r u' :
    UIC cr ih x -> idx_ok2 (us x) c j ->
    locals_get g (us x) c j tree n = (r, u') ->
    match r with
    | LRow row =>
        exists s, slot_at (us x) c j = Some s /\ s_pres s = true /\ row = s_row s /\ n <= s_free s /\
          (forall t, tree = Some t -> row_tree g row = t) /\
          row_tree g row < ntrees (us x) /\ row * 64 < frames (low (us x)) /\
          u' = set_slot (us x) c j {| s_pres := true; s_row := s_row s; s_free := s_free s - n |} /\
          forall cr', (forall t, cr' t = cr t + delta t (row_tree g row) n) -> UIC cr' ih (mk2 x u')
    | LResv rv =>
        u' = us x /\
        exists s, slot_at (us x) c j = Some s /\ s_pres s = true /\ rv = slot_resv s c /\
          ((exists t, tree = Some t /\ row_tree g (s_row s) <> t) \/ s_free s < n)
    | LNone =>
        u' = us x /\
        (class_slots (us x) c = None \/ exists s, slot_at (us x) c j = Some s /\ s_pres s = false)
    | LPanic _ => False
    end.
  Proof.
    intros H Hidx Hp. unfold locals_get in Hp.
    destruct (class_slots (us x) c) as [l|] eqn:HC.
    2:{ inversion Hp; subst. auto. }
    destruct (idx_ok_slot2 _ _ _ _ Hidx HC) as (s & Hs). rewrite Hs in Hp.
    assert (Hat : slot_at (us x) c j = Some s) by (unfold slot_at; rewrite HC; auto).
    unfold slot_get in Hp.
    destruct (s_pres s) eqn:P; cbn [andb] in Hp.
    2:{ inversion Hp; subst. split; auto. right. eauto. }
    destruct (U2_slot _ _ _ _ _ _ H Hat P) as (B1 & B2 & B3).
    destruct (match tree with Some i => row_tree g (s_row s) =? i | None => true end) eqn:Et.
    - destruct (n <=? s_free s) eqn:En.
      + apply N.leb_le in En. inversion Hp; subst r u'. clear Hp. exists s. splits; auto.
        * intros t ->. apply N.eqb_eq in Et. auto.
        * intros cr' E. eapply U2_slot_free; eauto; cbn [s_pres s_row s_free]; auto; try lia.
          intros t. rewrite E. unfold delta. destruct (t =? row_tree g (s_row s)); lia.
      + apply N.leb_gt in En. inversion Hp; subst r u'. clear Hp. split; auto. exists s. splits; auto.
    - inversion Hp; subst r u'. clear Hp. split; auto. exists s. splits; auto. left.
      destruct tree as [t|]; try discriminate. exists t. split; auto. apply N.eqb_neq. auto.
  Qed.

  Lemma locals_put_C2 cr ih x c j tree n r u' :
    UIC cr ih x -> idx_ok2 (us x) c j -> n <= cr tree ->
    locals_put g (us x) c j tree n = (r, u') ->
    (r = Ok false /\ u' = us x /\
       (class_slots (us x) c = None \/
        exists s, slot_at (us x) c j = Some s /\ (s_pres s = false \/ row_tree g (s_row s) <> tree))) \/
    (r = Ok true /\ exists s, slot_at (us x) c j = Some s /\ s_pres s = true /\ row_tree g (s_row s) = tree /\
       u' = set_slot (us x) c j {| s_pres := true; s_row := s_row s; s_free := s_free s + n |} /\
       forall cr', (forall t, cr' t + delta t tree n = cr t) -> UIC cr' ih (mk2 x u')).
  Proof.
    intros H Hidx Hn Hp. unfold locals_put in Hp.
    destruct (class_slots (us x) c) as [l|] eqn:HC.
    2:{ inversion Hp; subst. auto. }
    destruct (idx_ok_slot2 _ _ _ _ Hidx HC) as (s & Hs). rewrite Hs in Hp.
    assert (Hat : slot_at (us x) c j = Some s) by (unfold slot_at; rewrite HC; auto).
    unfold slot_put in Hp.
    destruct (s_pres s) eqn:P; cbn [andb] in Hp.
    2:{ inversion Hp; subst. left. splits; auto. right. eauto. }
    destruct (N.eqb_spec (row_tree g (s_row s)) tree) as [Et|Et].
    2:{ inversion Hp; subst. left. splits; auto. right. eauto. }
    destruct (U2_slot _ _ _ _ _ _ H Hat P) as (B1 & B2 & B3).
    rewrite Et in B1. destruct (tree_at_some _ _ B1) as (t & Ht).
    pose proof (U2_tree _ _ _ _ _ H Ht) as Hok. pose proof (U2_tree_free_le _ _ _ _ H B1) as Hle.
    apply tree_ok2_nn2 in Hok. destruct Hok as (A & B & _).
    assert (Hin : In (c, s) (slots_of g (us x) tree)).
    { apply in_slots_of. splits; auto. apply in_all_slots; eauto using U2_len8. }
    pose proof (sum_free_in2 _ _ _ Hin) as Hsf.
    assert (Hb : s_free s + n <= TF) by lia. apply N.leb_le in Hb. rewrite Hb in Hp.
    inversion Hp; subst r u'. clear Hp. right. split; auto. exists s. splits; auto.
    intros cr' E. eapply U2_slot_free; eauto; cbn [s_pres s_row s_free]; auto.
    - apply N.leb_le in Hb. auto.
    - intros t0. rewrite Et. specialize (E t0). unfold delta in *. destruct (t0 =? tree); lia.
  Qed.

  Lemma locals_swap_C2 cr ih x c j tree n r u' :
    UIC cr ((tree, c, n) :: ih) x -> idx_ok2 (us x) c j ->
    locals_swap g (us x) c j tree n = (r, u') ->
    exists s, slot_at (us x) c j = Some s /\
      r = Ok (if s_pres s then Some (slot_resv s c) else None) /\
      u' = set_slot (us x) c j {| s_pres := true; s_row := tree_row g tree; s_free := n |} /\
      UIC cr (resv_of g c s ++ ih) (mk2 x u').
  Proof.
    intros H Hidx Hp. destruct (U2_inhand _ _ _ tree c n H (or_introl eq_refl)) as (Hi & Hc).
    unfold locals_swap in Hp.
    destruct (class_slots (us x) c) as [l|] eqn:HC; [|congruence].
    destruct (idx_ok_slot2 _ _ _ _ Hidx HC) as (s & Hs). rewrite Hs in Hp.
    assert (Hat : slot_at (us x) c j = Some s) by (unfold slot_at; rewrite HC; auto).
    inversion Hp; subst r u'. clear Hp. exists s. splits; auto.
    destruct (tree_at_some _ _ Hi) as (t & Ht).
    pose proof (U2_tree _ _ _ _ _ H Ht) as Hok. pose proof (U2_tree_free_le _ _ _ _ H Hi) as Hle.
    apply tree_ok2_nn2 in Hok. destruct Hok as (A & B & _).
    rewrite ih_of_cons, N.eqb_refl in B. cbn [ih_sum fold_right snd] in B.
    apply U2_slot_xchg; auto.
    - intros _. cbn [s_row s_free]. split; [|lia]. rewrite (tree_row_64 g WF).
      apply (ntab_lt g). rewrite <- (U2_ntrees _ _ _ H). exact Hi.
    - unfold resv_of. cbn [s_pres s_row s_free app]. rewrite (row_tree_tree_row g WF). exact H.
  Qed.

  Lemma locals_set_start_C2 cr ih x c j row r u' :
    UIC cr ih x -> idx_ok2 (us x) c j -> row * 64 < frames (low (us x)) ->
    locals_set_start g (us x) c j row = (r, u') ->
    r = Ok tt /\ UIC cr ih (mk2 x u') /\
    (u' = us x \/ exists s, slot_at (us x) c j = Some s /\ s_pres s = true /\
                   row_tree g (s_row s) = row_tree g row /\
                   u' = set_slot (us x) c j {| s_pres := true; s_row := row; s_free := s_free s |}).
  Proof.
    intros H Hidx Hr Hp. unfold locals_set_start in Hp.
    destruct (class_slots (us x) c) as [l|] eqn:HC.
    2:{ inversion Hp; subst. rewrite mk_id2. auto. }
    destruct (idx_ok_slot2 _ _ _ _ Hidx HC) as (s & Hs). rewrite Hs in Hp.
    assert (Hat : slot_at (us x) c j = Some s) by (unfold slot_at; rewrite HC; auto).
    unfold slot_set_start in Hp.
    destruct (s_pres s && (row_tree g (s_row s) =? row_tree g row) && negb (s_row s =? row)) eqn:Ec.
    2:{ inversion Hp; subst. rewrite mk_id2. auto. }
    apply andb_true_iff in Ec. destruct Ec as (Ec & _). apply andb_true_iff in Ec. destruct Ec as (P & Et).
    apply N.eqb_eq in Et. inversion Hp; subst r u'. clear Hp.
    destruct (U2_slot _ _ _ _ _ _ H Hat P) as (B1 & B2 & B3).
    splits; auto.
    - eapply U2_slot_free; eauto; cbn [s_pres s_row s_free]; auto.
    - right. exists s. splits; auto.
  Qed.
  (* ----- bridges to the sequential invariant ----- *)
  Lemma UIC2_of_C cr ih x : lower_facts g -> UpperInvC g policy cr ih x -> UIC cr ih x.
  Proof.
    intros LF (H1 & H2 & H3 & H4 & H5 & H6 & H7 & H8). unfold UIC2. cbv zeta. splits; auto.
    intros t Ht. destruct (lf_tree_free g LF _ _ H1 Ht). auto.
  Qed.
  Lemma UIC2_to_C cr ih x : LowerInv g (low (us x)) -> UIC cr ih x -> UpperInvC g policy cr ih x.
  Proof.
    intros L (H1 & H2 & H3 & H4 & H5 & H6 & H7 & H8). unfold UpperInvC. cbv zeta. splits; auto.
  Qed.
End U2.
