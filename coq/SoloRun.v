(* A call run ALONE on the small-step machine M1 (LowerMachine.v) computes the big-step function of the
   sequential model (Lower.v + Bitfield.v), for every outcome (Ok / Err / Panic).
   Hypotheses: `wf_geom`, `Shape g l` (table sizes, row counts, rows are 64-bit words: a fragment of
   `LowerInv`, see `LowerInv_Shape`) and the machine's own `call_ok` (what the upper allocator guarantees).
   On `Panic x` only the thread state `TPanic x c` is claimed (the machine has already written the counter
   when e.g. SUndoFailed fires, the big-step function returns the unchanged state).
   One simulation lemma per loop; see /verif/notes/m1-solo-status.md.  Stdlib only. *)
From Coq Require Import PeanoNat ZArith ZifyN ZifyBool.
From LLF Require Import Base BitLemmas Row RowProofs Bitfield Lower Spec LowerMachine SoloRunLemmas.


(* the big-step function of a call, with the machine's result convention *)
Definition big (g : geom) (l : lower) (c : call) : res N * lower :=
  match c with
  | CGet st k => lower_get g l st k
  | CGetAt f k => match lower_get_at g l f k with
                  | (Ok _, l') => (Ok f, l') | (Err e, l') => (Err e, l') | (Panic x, l') => (Panic x, l') end
  | CPut f k => match lower_put g l f k with
                | (Ok _, l') => (Ok 0, l') | (Err e, l') => (Err e, l') | (Panic x, l') => (Panic x, l') end
  end.

(* the part of LowerInv the correspondence needs: table sizes, row counts, rows are 64-bit words *)
Definition Shape (g : geom) (l : lower) : Prop :=
  length (bfs l) = nn (nbf g (frames l)) /\
  length (ents l) = nn (ntab g (frames l) * THUGE g) /\
  Forall (rows_ok g) (bfs l).

Lemma sr_ceil_le F A B : 0 < A -> 0 < B -> (F + A - 1) / A <= (F + B * A - 1) / (B * A) * B.
Proof.
  intros HA HB.
  assert (HM : 0 < B * A) by nia.
  pose proof (N.div_mod (F + B * A - 1) (B * A) ltac:(lia)) as E1.
  pose proof (N.mod_lt (F + B * A - 1) (B * A) ltac:(lia)) as E2.
  set (Q := (F + B * A - 1) / (B * A)) in *.
  assert (HFle : F <= Q * B * A).
  { replace (Q * B * A) with (B * A * Q) by ring. set (M := B * A) in *. set (MQ := M * Q) in *. lia. }
  apply N.le_trans with ((Q * B * A + (A - 1)) / A).
  - apply N.div_le_mono; lia.
  - rewrite N.div_add_l by lia. rewrite (N.div_small (A - 1) A) by lia. lia.
Qed.

Lemma LowerInv_Shape g l : LowerInv g l -> Shape g l.
Proof.
  intros (H1 & H2 & H3 & H4). split; [exact H1|]. split; [exact H2|].
  apply Forall_forall. intros rows Hin. apply In_nth_error in Hin. destruct Hin as (h & Hh).
  destruct (nth_error (ents l) h) as [e|] eqn:He.
  - destruct (H3 h e rows He Hh) as (Hr & _). exact Hr.
  - exfalso. apply nth_error_None in He. pose proof (sr_some_lt _ _ _ Hh) as Hlt.
    rewrite H1 in Hlt. rewrite H2 in He.
    pose proof (sr_ceil_le (frames l) (HF g) (THUGE g) (sr_pow2_pos _) (sr_pow2_pos _)) as Hc.
    unfold nn, nbf, ntab, div_ceil, TF in *. clear - Hlt He Hc.
    set (X := (frames l + HF g - 1) / HF g) in *. set (Y := (frames l + THUGE g * HF g - 1) / (THUGE g * HF g) * THUGE g) in *.
    lia.
Qed.

Section Huge.
  Variable g : geom.
  Hypothesis wf : wf_geom g.
  Variable P : list thr.
  Variable t : nat.
  Hypothesis Ht : (t < length P)%nat.
  Variable c0 : call.
  Local Notation runs := (runs g t c0).
  Local Notation Runs := (Runs g P t c0).
  Notation HF := (HF g).
  Notation TF := (TF g).
  Notation THUGE := (THUGE g).
  Notation ROWS := (ROWS g).

  Definition ngroup (c : call) (H : list (N * nat)) (l : lower) (gi : N) : mstate :=
    if gi + 1 <? group_cnt g c then st l P H t (TRun c (HC (gi + 1) 0)) else fin c l P H t (Err EMemory).
  Lemma next_group_st c H l x gi : next_group g (st l P H t x) t c gi = ngroup c H l gi.
  Proof. unfold next_group, ngroup. rewrite goto_st, finish_st by assumption. reflexivity. Qed.

  Definition hc_res (c : call) (gi : N) : res N :=
    match c with CPut _ _ => Ok 0 | _ => Ok (group_h g c gi * HF) end.

  Lemma hc_run c H l gi es :
    (nn (group_h g c gi) + nn (c_hnum g c) <= length es)%nat ->
    runs (st (with_ents l es) P H t (TRun c (HC gi 0)))
         (match cas_all es (nn (group_h g c gi)) (nn (c_hnum g c)) (cas_cur g c) (cas_new g c) with
          | Some es' => fin c (with_ents l es') P H t (hc_res c gi)
          | None => ngroup c H (with_ents l es) gi
          end).
  Proof.
    intros Hl.
    apply (mc_run g P t Ht c0 (nn (group_h g c gi)) (nn (c_hnum g c)) (cas_cur g c) (cas_new g c)
             (fun q es => st (with_ents l es) P H t (TRun c (HC gi (N.of_nat q))))
             (fun q es => st (with_ents l es) P H t (TRun c (HU gi (N.of_nat q))))
             (fun es => fin c (with_ents l es) P H t (hc_res c gi))
             (fun es => ngroup c H (with_ents l es) gi)); auto.
    - intros q es'. do 2 eexists. apply (pool_st _ _ Ht).
    - intros q es'. do 2 eexists. apply (pool_st _ _ Ht).
    - intros q es' e Hq He. unfold mstep. rewrite pool_st by assumption. cbv beta iota zeta.
      rewrite rd_ent_st. unfold ent. cbn [ents with_ents]. rewrite nn_add_nat, He.
      destruct (e =? cas_cur g c); cbn [fst].
      + rewrite wr_ent_st, ltb_succ_nat. destruct (Nat.ltb (S q) (nn (c_hnum g c))).
        * rewrite goto_st, of_nat_S_add by assumption. unfold set_ent, with_ents. cbn [frames bfs ents].
          rewrite nn_add_nat. reflexivity.
        * rewrite finish_st by assumption. unfold set_ent, with_ents. cbn [frames bfs ents].
          rewrite nn_add_nat. reflexivity.
      + destruct q.
        * change (N.of_nat 0) with 0. rewrite N.eqb_refl. apply next_group_st.
        * rewrite of_nat_S_eqb, goto_st, of_nat_S_pred by assumption. reflexivity.
    - intros q es' He. unfold mstep. rewrite pool_st by assumption. cbv beta iota zeta.
      rewrite rd_ent_st. unfold ent. cbn [ents with_ents]. rewrite nn_add_nat, He, N.eqb_refl. cbn [fst].
      rewrite wr_ent_st. destruct q.
      + change (N.of_nat 0) with 0. rewrite N.eqb_refl, next_group_st. unfold set_ent, with_ents. cbn [frames bfs ents].
        rewrite N.add_0_r, Nat.add_0_r. reflexivity.
      + rewrite of_nat_S_eqb, goto_st, of_nat_S_pred by assumption. unfold set_ent, with_ents. cbn [frames bfs ents].
        rewrite nn_add_nat. reflexivity.
    - unfold c_hnum, nn. pose proof (sr_pow2_pos (c_order c - hord g)). lia.
  Qed.

  (* ----- arithmetic of a huge-order block (f, k): aligned, in range, hord <= k <= tord ----- *)
  Section HugeBlock.
    Variables (l : lower) (f : N) (k : nat).
    Hypothesis Sh : Shape g l.
    Hypothesis Hk1 : (hord g <= k)%nat.
    Hypothesis Hk2 : (k <= tord g)%nat.
    Hypothesis Hal : f mod pow2 k = 0.
    Hypothesis Hin : f + pow2 k <= frames l.

    Let n := pow2 (k - hord g).
    Lemma hb_pow : pow2 k = n * HF.
    Proof. unfold n. rewrite sr_HF_pow2. apply sr_pow2_split. exact Hk1. Qed.
    Lemma hb_n_pos : 0 < n. Proof. apply sr_pow2_pos. Qed.
    Lemma hb_thuge : THUGE = pow2 (tlog g - (k - hord g)) * n.
    Proof. unfold n. rewrite sr_THUGE_pow2. apply sr_pow2_split. unfold tord in Hk2. lia. Qed.
    Lemma hb_f : f = (f / HF) * HF.
    Proof.
      pose proof (sr_HF_pos g). pose proof hb_n_pos.
      apply N.div_exact in Hal; [|pose proof (sr_pow2_pos k); lia].
      rewrite hb_pow in Hal. set (m := f / (n * HF)) in *.
      rewrite Hal at 2. replace (n * HF * m) with ((n * m) * HF) by lia. rewrite N.div_mul by lia. lia.
    Qed.
    Lemma hb_h_mod : (f / HF) mod n = 0.
    Proof.
      pose proof (sr_HF_pos g). pose proof hb_n_pos.
      apply N.div_exact in Hal; [|pose proof (sr_pow2_pos k); lia].
      rewrite hb_pow in Hal. set (m := f / (n * HF)) in *.
      rewrite Hal. replace (n * HF * m) with ((m * n) * HF) by lia. rewrite N.div_mul by lia.
      apply N.mod_mul. lia.
    Qed.
    Lemma hb_in_tree : (f / HF) mod THUGE + n <= THUGE.
    Proof.
      pose proof (sr_THUGE_pos g). pose proof hb_n_pos.
      apply sr_mult_block.
      - lia.
      - apply sr_mod_mod_div; [lia| |lia|apply hb_h_mod].
        rewrite hb_thuge. apply N.mod_mul. lia.
      - rewrite hb_thuge. apply N.mod_mul. lia.
      - apply N.mod_lt. lia.
    Qed.
    Lemma hb_tree : f / HF / THUGE = f / TF.
    Proof. unfold Bitfield.TF. rewrite N.div_div; [f_equal; lia| |]; [pose proof (sr_HF_pos g)|pose proof (sr_THUGE_pos g)]; lia. Qed.
    Lemma hb_lt : f < frames l. Proof. pose proof (sr_pow2_pos k). lia. Qed.
    Lemma hb_tree_lt : f / TF < ntab g (frames l).
    Proof. apply sr_div_ceil_lt; [apply sr_TF_pos|apply hb_lt]. Qed.
    Lemma hb_has_tree : has_tree g l (f / TF) = true.
    Proof.
      destruct Sh as (_ & He & _). unfold has_tree. rewrite He. unfold nn. rewrite N2Nat.id.
      apply N.leb_le. pose proof hb_tree_lt. nia.
    Qed.
    Lemma hb_ents : (nn (f / HF) + nn n <= length (ents l))%nat.
    Proof.
      destruct Sh as (_ & He & _). rewrite He. unfold nn.
      pose proof hb_in_tree. pose proof hb_tree_lt. pose proof (sr_THUGE_pos g).
      pose proof (N.div_mod (f / HF) THUGE ltac:(lia)) as E. rewrite hb_tree in E.
      assert (THUGE * (f / TF + 1) <= THUGE * ntab g (frames l)) by (apply N.mul_le_mono_l; lia).
      assert (f / HF + n <= ntab g (frames l) * THUGE) by lia. lia.
    Qed.
    Lemma hb_idx_ok : (THUGE <? (f / HF) mod THUGE + n) = false.
    Proof. apply N.ltb_ge. apply hb_in_tree. Qed.
  End HugeBlock.

  Lemma leb_true a b : (a <= b)%nat -> Nat.leb a b = true. Proof. apply Nat.leb_le. Qed.

  Lemma get_at_huge_run l H f k : Shape g l -> (hord g <= k)%nat -> (k <= tord g)%nat ->
    f mod pow2 k = 0 -> f + pow2 k <= frames l ->
    Runs (CGetAt f k) H (st l P H t (TRun (CGetAt f k) (HC 0 0))) (big g l (CGetAt f k)).
  Proof.
    intros Sh Hk1 Hk2 Hal Hin. set (c := CGetAt f k).
    eapply Runs_runs.
    { rewrite <- (with_ents_id l) at 1. apply (hc_run c H l 0 (ents l)).
      apply (hb_ents l f k); auto. }
    cbn [big c]. unfold lower_get_at. rewrite (hb_has_tree l f k), (leb_true _ _ Hk1) by auto. cbn [negb].
    cbv zeta. rewrite (hb_idx_ok l f k) by auto.
    change (group_h g c 0) with (f / HF). change (c_hnum g c) with (pow2 (k - hord g)).
    change (cas_cur g c) with HF. change (cas_new g c) with MARK.
    destruct (cas_all (ents l) (nn (f / HF)) (nn (pow2 (k - hord g))) HF MARK) as [es|].
    - replace (hc_res c 0) with (@Ok N f); [apply Runs_ok|].
      unfold hc_res, c. change (group_h g (CGetAt f k) 0) with (f / HF). rewrite <- (hb_f l f k) by auto. reflexivity.
    - unfold ngroup. change (group_cnt g c) with 1. change (0 + 1 <? 1) with false. cbv iota.
      rewrite with_ents_id. apply Runs_err.
  Qed.

  Lemma put_huge_run l H f k : Shape g l -> (hord g <= k)%nat -> (k <= tord g)%nat ->
    f mod pow2 k = 0 -> f + pow2 k <= frames l ->
    Runs (CPut f k) H (st l P H t (TRun (CPut f k) (HC 0 0))) (big g l (CPut f k)).
  Proof.
    intros Sh Hk1 Hk2 Hal Hin. set (c := CPut f k).
    eapply Runs_runs.
    { rewrite <- (with_ents_id l) at 1. apply (hc_run c H l 0 (ents l)).
      apply (hb_ents l f k); auto. }
    cbn [big c]. unfold lower_put. rewrite (hb_has_tree l f k), (leb_true _ _ Hk1) by auto. cbn [negb].
    cbv zeta. rewrite (hb_idx_ok l f k) by auto.
    change (group_h g c 0) with (f / HF). change (c_hnum g c) with (pow2 (k - hord g)).
    change (cas_cur g c) with MARK. change (cas_new g c) with HF.
    destruct (cas_all (ents l) (nn (f / HF)) (nn (pow2 (k - hord g))) MARK HF) as [es|].
    - apply Runs_ok.
    - unfold ngroup. change (group_cnt g c) with 1. change (0 + 1 <? 1) with false. cbv iota.
      rewrite with_ents_id. apply Runs_err.
  Qed.
End Huge.


Lemma nn_pow2 k : nn (pow2 k) = Nat.pow 2 k.
Proof. rewrite sr_pow2_nat. apply Nat2N.id. Qed.

Lemma row_set_bf l h rows rs r : bf l h = Some rows -> row (set_bf l h rs) h r = nth_error rs (nn r).
Proof. intros E. unfold row. rewrite (bf_set_bf l h rows rs E). reflexivity. Qed.

Section GetHuge.
  Variable g : geom.
  Hypothesis wf : wf_geom g.
  Variable P : list thr.
  Variable t : nat.
  Hypothesis Ht : (t < length P)%nat.
  Variable c0 : call.
  Local Notation runs := (runs g t c0).
  Local Notation Runs := (Runs g P t c0).
  Notation HF := (HF g).
  Notation TF := (TF g).
  Notation THUGE := (THUGE g).
  Notation ROWS := (ROWS g).

  Variables (start : N) (k : nat).
  Hypothesis Hk1 : (hord g <= k)%nat.
  Hypothesis Hk2 : (k <= tord g)%nat.
  Local Notation c := (CGet start k).
  Local Notation hn := (pow2 (k - hord g)).
  Local Notation tstart := ((start * 64) / TF * THUGE).
  Local Notation co := (((start * 64) / HF) mod THUGE / hn * hn).

  Lemma gh_thuge : THUGE = pow2 (tlog g - (k - hord g)) * hn.
  Proof. rewrite sr_THUGE_pow2. apply sr_pow2_split. unfold tord in Hk2. lia. Qed.
  Lemma gh_hn_pos : 0 < hn. Proof. apply sr_pow2_pos. Qed.
  Lemma gh_cnt : THUGE / hn = pow2 (tlog g - (k - hord g)).
  Proof. rewrite gh_thuge. apply N.div_mul. pose proof gh_hn_pos. lia. Qed.
  Lemma gh_group_in gi : (co + gi * hn) mod THUGE + hn <= THUGE.
  Proof.
    pose proof gh_hn_pos. pose proof (sr_THUGE_pos g).
    apply sr_mult_block.
    - lia.
    - apply sr_mod_mod_div; [lia| |lia|].
      + rewrite gh_thuge. apply N.mod_mul. lia.
      + rewrite <- N.mul_add_distr_r. apply N.mod_mul. lia.
    - rewrite gh_thuge. apply N.mod_mul. lia.
    - apply N.mod_lt. lia.
  Qed.

  Lemma get_huge_run l H : has_tree g l ((start * 64) / TF) = true ->
    forall n gi, N.of_nat n + gi = THUGE / hn -> (0 < n)%nat ->
    Runs c H (st l P H t (TRun c (HC gi 0))) (get_huge_loop g l tstart co hn gi n).
  Proof.
    intros Htree. induction n; intros gi Hn Hpos; [lia|]. cbn [get_huge_loop].
    assert (Hb : (nn (group_h g c gi) + nn (c_hnum g c) <= length (ents l))%nat).
    { change (group_h g c gi) with (tstart + (co + gi * hn) mod THUGE). change (c_hnum g c) with hn.
      unfold has_tree in Htree. apply N.leb_le in Htree. pose proof (gh_group_in gi) as Hg.
      unfold nn. clear - Htree Hg.
      remember ((start * 64) / TF) as X eqn:EX. remember ((co + gi * hn) mod THUGE) as I eqn:EI.
      remember hn as Hn eqn:EH. remember THUGE as T eqn:ET. remember (X * T) as XT eqn:EXT.
      replace ((X + 1) * T) with (XT + T) in Htree by (subst XT; ring).
      clear EX EI EH ET EXT. lia. }
    eapply Runs_runs.
    { rewrite <- (with_ents_id l) at 1. apply (hc_run g P t Ht c0 c H l gi (ents l)). exact Hb. }
    change (group_h g c gi) with (tstart + (co + gi * hn) mod THUGE). change (c_hnum g c) with hn.
    change (cas_cur g c) with HF. change (cas_new g c) with MARK.
    destruct (cas_all (ents l) (nn (tstart + (co + gi * hn) mod THUGE)) (nn hn) HF MARK) as [es|].
    - apply Runs_ok.
    - rewrite with_ents_id. unfold ngroup. change (group_cnt g c) with (THUGE / hn).
      destruct n.
      + destruct (N.ltb_spec (gi + 1) (THUGE / hn)); [lia|]. cbn [get_huge_loop]. apply Runs_err.
      + destruct (N.ltb_spec (gi + 1) (THUGE / hn)); [|lia]. apply IHn; lia.
  Qed.

  Lemma get_huge_call l H : has_tree g l ((start * 64) / TF) = true ->
    Runs c H (st l P H t (TRun c (HC 0 0))) (big g l c).
  Proof.
    intros Htree. cbn [big]. unfold lower_get. rewrite Htree. cbn [negb]. rewrite (leb_true _ _ Hk1). cbv zeta.
    pose proof gh_hn_pos.
    assert (Hle : hn <= THUGE). { rewrite gh_thuge. pose proof (sr_pow2_pos (tlog g - (k - hord g))). nia. }
    destruct (N.ltb_spec THUGE hn); [lia|].
    apply get_huge_run; auto.
    - unfold nn. lia.
    - rewrite gh_cnt. unfold nn. pose proof (sr_pow2_pos (tlog g - (k - hord g))). lia.
  Qed.
End GetHuge.

Section Toggle.
  Variable g : geom.
  Hypothesis wf : wf_geom g.
  Variable P : list thr.
  Variable t : nat.
  Hypothesis Ht : (t < length P)%nat.
  Variable c0 : call.
  Local Notation runs := (runs g t c0).
  Local Notation Runs := (Runs g P t c0).
  Notation HF := (HF g).
  Notation TF := (TF g).
  Notation THUGE := (THUGE g).
  Notation ROWS := (ROWS g).

  Definition tframe (x : tctx) (c : call) : N := match x with XSplit _ => 0 | _ => c_frame c end.
  Definition tok (c : call) (H : list (N * nat)) (l : lower) (x : tctx) : mstate :=
    match x with
    | XGetAt => fin c l P H t (Ok (c_frame c))
    | XPut => st l P H t (TRun c PS2L)
    | XSplit old => st l P H t (TRun c (PP2 old))
    end.
  Definition tfail (c : call) (H : list (N * nat)) (l : lower) (x : tctx) : mstate :=
    match x with
    | XGetAt => st l P H t (TRun c A3L)
    | XPut => fin c l P H t (Err EMemory)
    | XSplit _ => st l P H t (TRun c (PP3 0))
    end.
  Lemma toggle_ok_st c H l y x : toggle_ok (st l P H t y) t c x = tok c H l x.
  Proof. destruct x; cbn [toggle_ok tok]; rewrite ?finish_st, ?goto_st by assumption; reflexivity. Qed.
  Lemma toggle_fail_st c H l y x : toggle_fail (st l P H t y) t c x = tfail c H l x.
  Proof. destruct x; cbn [toggle_fail tfail]; rewrite ?finish_st, ?goto_st by assumption; reflexivity. Qed.

  Lemma trow_eq x c : (tframe x c / 64) mod ROWS = t_row g x c.
  Proof. destruct x; cbn [tframe t_row]; reflexivity. Qed.
  Lemma toff_eq x c : tframe x c mod 64 = t_off x c.
  Proof. destruct x; cbn [tframe t_off]; auto. Qed.

  Lemma bf_toggle_small x c rows e : (t_order g x c <= 6)%nat -> nth_error rows (nn (t_row g x c)) = Some e ->
    bf_toggle g rows (tframe x c) (t_order g x c) (t_expected x) =
    match toggle_f g x c e with Some v' => Some (upd rows (nn (t_row g x c)) v') | None => None end.
  Proof.
    intros Ho He. unfold bf_toggle. rewrite (leb_true _ _ Ho). cbv zeta. rewrite trow_eq, toff_eq.
    unfold row_at. rewrite He. unfold toggle_f, t_mask. cbv zeta.
    destruct (t_expected x); destruct (_ =? _); reflexivity.
  Qed.

  (* the narrow compare-exchange on a lane is the masked test-and-flip *)
  Lemma toggle_f_lane x c e : e < W64 ->
    toggle_f g x c e =
    if N.land (N.shiftr e (t_off x c)) (ones (pow2 (t_order g x c))) =? (if t_expected x then ones (pow2 (t_order g x c)) else 0)
    then Some (N.lxor e (N.shiftl (ones (pow2 (t_order g x c))) (t_off x c))) else None.
  Proof.
    intros He. unfold toggle_f, t_mask. cbv zeta. destruct (t_expected x).
    - rewrite lane_test_ones. unfold mask64.
      destruct (N.eqb_spec (N.land e (N.shiftl (ones (pow2 (t_order g x c))) (t_off x c)))
                           (N.shiftl (ones (pow2 (t_order g x c))) (t_off x c))) as [E|E]; auto.
      rewrite lxor_clear; auto.
    - rewrite lane_test_zero. unfold mask64.
      destruct (N.eqb_spec (N.land e (N.shiftl (ones (pow2 (t_order g x c))) (t_off x c))) 0) as [E|E]; auto.
      rewrite lxor_set; auto.
  Qed.

  Lemma tw_run c H l x rows : bf l (c_huge g c) = Some rows ->
    (nn (t_row g x c) + nn (t_nrows g x c) <= length rows)%nat ->
    runs (st l P H t (TRun c (TW x 0)))
         (match cas_all rows (nn (t_row g x c)) (nn (t_nrows g x c))
                  (if t_expected x then MAX64 else 0) (if t_expected x then 0 else MAX64) with
          | Some rs => tok c H (set_bf l (c_huge g c) rs) x
          | None => tfail c H l x
          end).
  Proof.
    intros Hbf Hl. set (h := c_huge g c) in *.
    assert (G : runs (st (set_bf l h rows) P H t (TRun c (TW x (N.of_nat 0))))
         (match cas_all rows (nn (t_row g x c)) (nn (t_nrows g x c))
                  (if t_expected x then MAX64 else 0) (if t_expected x then 0 else MAX64) with
          | Some rs => tok c H (set_bf l h rs) x
          | None => tfail c H (set_bf l h rows) x
          end)); [|rewrite (set_bf_id l h rows Hbf) in G; exact G].
    apply (mc_run g P t Ht c0 (nn (t_row g x c)) (nn (t_nrows g x c))
             (if t_expected x then MAX64 else 0) (if t_expected x then 0 else MAX64)
             (fun q rs => st (set_bf l h rs) P H t (TRun c (TW x (N.of_nat q))))
             (fun q rs => st (set_bf l h rs) P H t (TRun c (TU x (N.of_nat q))))
             (fun rs => tok c H (set_bf l h rs) x)
             (fun rs => tfail c H (set_bf l h rs) x)); auto.
    all: try (intros q rs; do 2 eexists; apply (pool_st _ _ Ht)).
    all: try (unfold t_nrows, nn; pose proof (sr_pow2_pos (t_order g x c - 6)); lia).
    - intros q rs e Hq He. unfold mstep. rewrite pool_st by assumption. cbv beta iota zeta.
      rewrite rd_row_st. fold h. rewrite (row_set_bf l h rows rs _ Hbf), nn_add_nat, He.
      destruct (e =? (if t_expected x then MAX64 else 0)); cbn [fst].
      + rewrite (wr_row_st P t _ H _ h _ _ rs) by (eapply bf_set_bf; eauto).
        rewrite set_bf_set_bf, ltb_succ_nat, nn_add_nat.
        destruct (Nat.ltb (S q) (nn (t_nrows g x c))).
        * rewrite goto_st, of_nat_S_add by assumption. reflexivity.
        * apply toggle_ok_st.
      + destruct q.
        * change (N.of_nat 0) with 0. rewrite N.eqb_refl. apply toggle_fail_st.
        * rewrite of_nat_S_eqb, goto_st, of_nat_S_pred by assumption. reflexivity.
    - intros q rs He. unfold mstep. rewrite pool_st by assumption. cbv beta iota zeta.
      rewrite rd_row_st. fold h. rewrite (row_set_bf l h rows rs _ Hbf), nn_add_nat, He, N.eqb_refl. cbn [fst].
      rewrite (wr_row_st P t _ H _ h _ _ rs) by (eapply bf_set_bf; eauto).
      rewrite set_bf_set_bf, nn_add_nat. destruct q.
      + change (N.of_nat 0) with 0. rewrite N.eqb_refl. apply toggle_fail_st.
      + rewrite of_nat_S_eqb, goto_st, of_nat_S_pred by assumption. reflexivity.
  Qed.

  Lemma toggle_run c H l x rows :
    bf l (c_huge g c) = Some rows -> length rows = rows_nat g -> Forall (fun r => r < W64) rows ->
    ((6 < t_order g x c)%nat -> (nn (t_row g x c) + Nat.pow 2 (t_order g x c - 6) <= length rows)%nat) ->
    runs (st l P H t (TRun c (toggle_entry g x c)))
         (match bf_toggle g rows (tframe x c) (t_order g x c) (t_expected x) with
          | Some rows' => tok c H (set_bf l (c_huge g c) rows') x
          | None => tfail c H l x
          end).
  Proof.
    intros Hbf Hlen Hw Hbig. set (h := c_huge g c) in *.
    assert (Hr : (nn (t_row g x c) < length rows)%nat).
    { rewrite Hlen, <- trow_eq. pose proof (sr_ROWS_pos g wf). pose proof (N.mod_lt (tframe x c / 64) ROWS ltac:(lia)) as Hm.
      rewrite (sr_ROWS_nat g wf) in Hm at 2. unfold nn. lia. }
    destruct (nth_error rows (nn (t_row g x c))) as [e|] eqn:He; [|apply nth_error_None in He; lia].
    assert (Hrow : row l h (t_row g x c) = Some e). { unfold row. rewrite Hbf. exact He. }
    assert (He64 : e < W64). { eapply sr_Forall_nth in Hw; eauto. }
    unfold toggle_entry.
    destruct (Nat.leb_spec (t_order g x c) 2) as [H2|H2].
    - (* TL / TC *)
      rewrite (bf_toggle_small x c rows e) by (auto; lia).
      eapply runs_step1; [apply (pool_st _ _ Ht)| |].
      { unfold mstep. rewrite pool_st by assumption. cbv beta iota zeta. rewrite rd_row_st. fold h. rewrite Hrow.
        cbn [fst]. reflexivity. }
      destruct (toggle_f g x c e) as [v'|] eqn:Tf.
      + rewrite goto_st.
        eapply runs_step1; [apply (pool_st _ _ Ht)| |apply runs_refl].
        unfold mstep. rewrite pool_st by assumption. cbv beta iota zeta. rewrite rd_row_st. fold h. rewrite Hrow, Tf.
        rewrite N.eqb_refl. cbn [fst]. rewrite (wr_row_st P t _ H _ h _ _ rows) by assumption. apply toggle_ok_st.
      + rewrite toggle_fail_st. apply runs_refl.
    - destruct (Nat.leb_spec (t_order g x c) 6) as [H6|H6].
      + (* TN *)
        rewrite (bf_toggle_small x c rows e) by (auto; lia).
        eapply runs_step1; [apply (pool_st _ _ Ht)| |apply runs_refl].
        unfold mstep. rewrite pool_st by assumption. cbv beta iota zeta. rewrite rd_row_st. fold h. rewrite Hrow.
        rewrite (toggle_f_lane x c e He64).
        destruct (_ =? _); cbn [fst].
        * rewrite (wr_row_st P t _ H _ h _ _ rows) by assumption. apply toggle_ok_st.
        * apply toggle_fail_st.
      + (* TW / TU *)
        unfold bf_toggle. destruct (Nat.leb_spec (t_order g x c) 6); [lia|]. cbv zeta.
        rewrite trow_eq, toggle_rows_cas, <- nn_pow2. fold (t_nrows g x c).
        apply tw_run; auto. unfold t_nrows. rewrite nn_pow2. auto.
  Qed.
End Toggle.


Ltac mstep_tac := unfold mstep; rewrite pool_st by assumption; cbv beta iota zeta; rewrite ?rd_ent_st, ?rd_row_st.

(* ----- entries ----- *)
Lemma ent_set_ent l h e v : ent l h = Some e -> ent (set_ent l h v) h = Some v.
Proof. intros E. unfold ent, set_ent in *. cbn [ents]. apply nth_error_upd_same. eapply sr_some_lt, E. Qed.
Lemma set_ent_set_ent l h a b : set_ent (set_ent l h a) h b = set_ent l h b.
Proof. unfold set_ent. cbn [frames bfs ents]. rewrite sr_upd_upd. reflexivity. Qed.
Lemma set_ent_id l h e : ent l h = Some e -> set_ent l h e = l.
Proof. intros E. destruct l as [f b es]. unfold set_ent, ent in *. cbn [frames bfs ents] in *. rewrite sr_upd_same; auto. Qed.

Lemma dec_inc g e n e' v : e_dec e n = Some e' -> e_inc g e' n = Some v -> v = e.
Proof.
  unfold e_dec, e_inc, e_free. destruct (e_huge e); cbn [negb andb]; [discriminate|].
  destruct (N.leb_spec n e); [|discriminate]. intros E; inversion E; subst e'; clear E.
  destruct (e_huge (e - n)); cbn [negb andb]; [discriminate|].
  destruct (_ <=? _); [|discriminate]. intros E; inversion E. lia.
Qed.

Lemma cas_all_inv es a n cur new es' : cas_all es a n cur new = Some es' -> es' = fill es a n new.
Proof.
  revert es a; induction n; intros es a; cbn [cas_all fill]; [congruence|].
  destruct (nth_error es a); [|discriminate]. destruct (_ =? _); [|discriminate]. apply IHn.
Qed.
Lemma Forall_fill (Q : N -> Prop) es a n v : Forall Q es -> Q v -> Forall Q (fill es a n v).
Proof. revert es a; induction n; intros es a HF Hv; cbn [fill]; auto. apply IHn; auto. apply sr_Forall_upd; auto. Qed.

Lemma sr_tree_div g f : f / HF g / THUGE g = f / TF g.
Proof. unfold TF. pose proof (sr_HF_pos g). pose proof (sr_THUGE_pos g). rewrite N.div_div by lia. f_equal. apply N.mul_comm. Qed.

(* ----- shape facts about the huge frame of a managed frame ----- *)
Section ShapeFacts.
  Variable g : geom.
  Hypothesis wf : wf_geom g.
  Notation HF := (HF g).
  Notation TF := (TF g).
  Notation THUGE := (THUGE g).
  Notation ROWS := (ROWS g).
  Variable l : lower.
  Hypothesis Sh : Shape g l.

  Lemma shape_has_tree_idx tr : tr < ntab g (frames l) -> has_tree g l tr = true.
  Proof.
    intros Hlt. destruct Sh as (_ & He & _). unfold has_tree. rewrite He. unfold nn. rewrite N2Nat.id.
    apply N.leb_le. apply N.mul_le_mono_r. lia.
  Qed.
  Lemma shape_has_tree f : f < frames l -> has_tree g l (f / TF) = true.
  Proof. intros Hf. apply shape_has_tree_idx. apply sr_div_ceil_lt; [apply sr_TF_pos|exact Hf]. Qed.
  Lemma shape_bf f : f < frames l -> exists rows, bf l (f / HF) = Some rows /\ rows_ok g rows.
  Proof.
    intros Hf. destruct Sh as (Hb & _ & Hr).
    assert (Hlt : (nn (f / HF) < length (bfs l))%nat).
    { rewrite Hb. pose proof (sr_div_ceil_lt f (frames l) HF (sr_HF_pos g) Hf) as Hd. unfold nbf, nn. lia. }
    unfold bf. destruct (nth_error (bfs l) (nn (f / HF))) as [rows|] eqn:E; [|apply nth_error_None in E; lia].
    exists rows. split; auto. eapply sr_Forall_nth; eauto.
  Qed.
  Lemma shape_ent_tree tr i : has_tree g l tr = true -> i < THUGE -> exists e, ent l (tr * THUGE + i) = Some e.
  Proof.
    intros Htr Hi. unfold has_tree in Htr. apply N.leb_le in Htr.
    assert (Hlt : (nn (tr * THUGE + i) < length (ents l))%nat).
    { unfold nn. clear - Htr Hi. remember (tr * THUGE) as X. replace ((tr + 1) * THUGE) with (X + THUGE) in Htr by (subst X; ring).
      clear HeqX. remember THUGE as T. clear HeqT. lia. }
    unfold ent. destruct (nth_error (ents l) (nn (tr * THUGE + i))) as [e|] eqn:E; [eauto|apply nth_error_None in E; lia].
  Qed.
  Lemma shape_ent f : f < frames l -> exists e, ent l (f / HF) = Some e.
  Proof.
    intros Hf. pose proof (sr_THUGE_pos g) as HT. pose proof (sr_HF_pos g) as HH.
    replace (f / HF) with ((f / TF) * THUGE + (f / HF) mod THUGE).
    - apply shape_ent_tree; [apply shape_has_tree, Hf|apply N.mod_lt; lia].
    - rewrite <- (sr_tree_div g f). rewrite N.mul_comm. symmetry. apply N.div_mod. lia.
  Qed.
End ShapeFacts.

Section Small.
  Variable g : geom.
  Hypothesis wf : wf_geom g.
  Variable P : list thr.
  Variable t : nat.
  Hypothesis Ht : (t < length P)%nat.
  Variable c0 : call.
  Local Notation runs := (runs g t c0).
  Local Notation Runs := (Runs g P t c0).
  Notation HF := (HF g).
  Notation TF := (TF g).
  Notation THUGE := (THUGE g).
  Notation ROWS := (ROWS g).

  (* the toggle entry on a missing bitfield *)
  Lemma toggle_nobf c H l x : bf l (c_huge g c) = None ->
    fst (mstep g (st l P H t (TRun c (toggle_entry g x c))) t c0) = st l P H t (TPanic (SIndex 7) c).
  Proof.
    intros Hbf. unfold toggle_entry.
    destruct (Nat.leb _ 2); [|destruct (Nat.leb _ 6)]; mstep_tac; unfold row; rewrite Hbf; apply crash_st.
  Qed.

  (* rows of an aligned multi-row block exist *)
  Lemma rows_block f k : (6 < k)%nat -> (k <= hord g)%nat -> f mod pow2 k = 0 ->
    (nn ((f / 64) mod ROWS) + Nat.pow 2 (k - 6) <= rows_nat g)%nat.
  Proof.
    intros H6 Hk Hal. pose proof (sr_ROWS_pos g wf) as HR.
    assert (Hp : 0 < pow2 (k - 6)) by apply sr_pow2_pos.
    assert (HRk : ROWS = pow2 (hord g - k) * pow2 (k - 6)).
    { rewrite (sr_ROWS_pow2 g wf), <- sr_pow2_add. f_equal. lia. }
    assert (Hf : (f / 64) mod pow2 (k - 6) = 0).
    { apply N.div_exact in Hal; [|pose proof (sr_pow2_pos k); lia].
      rewrite (sr_pow2_split 6 k) in Hal by lia. rewrite sr_pow2_6 in Hal.
      remember (f / (pow2 (k - 6) * 64)) as m eqn:Em. clear Em. rewrite Hal.
      replace (pow2 (k - 6) * 64 * m) with ((m * pow2 (k - 6)) * 64) by ring.
      rewrite N.div_mul by discriminate. apply N.mod_mul. lia. }
    assert (Hb : (f / 64) mod ROWS + pow2 (k - 6) <= ROWS).
    { apply sr_mult_block.
      - lia.
      - apply sr_mod_mod_div; [lia| |lia|exact Hf]. rewrite HRk. apply N.mod_mul. lia.
      - rewrite HRk. apply N.mod_mul. lia.
      - apply N.mod_lt. lia. }
    rewrite (sr_ROWS_nat g wf) in Hb at 2. rewrite sr_pow2_nat in Hb. unfold nn.
    clear - Hb. remember ((f / 64) mod ROWS) as X. clear HeqX. remember (Nat.pow 2 (k - 6)) as Y. clear HeqY. lia.
  Qed.

  Lemma toggle_bound x c : c_frame c mod pow2 (c_order c) = 0 -> (c_order c < hord g)%nat ->
    (6 < t_order g x c)%nat -> (nn (t_row g x c) + Nat.pow 2 (t_order g x c - 6) <= rows_nat g)%nat.
  Proof.
    intros Hal Hk H6. destruct x; cbn [t_order t_row] in *.
    - apply rows_block; auto; lia.
    - apply rows_block; auto; lia.
    - change (nn 0) with O. unfold rows_nat. lia.
  Qed.

  (* ----- get_at, order < hord ----- *)
  Lemma get_at_small_run l H f k : Shape g l -> (k < hord g)%nat ->
    f mod pow2 k = 0 -> f + pow2 k <= frames l ->
    Runs (CGetAt f k) H (st l P H t (TRun (CGetAt f k) A1L)) (big g l (CGetAt f k)).
  Proof.
    intros Sh Hk Hal Hin. cbn [big]. set (c := CGetAt f k).
    assert (Hf : f < frames l) by (pose proof (sr_pow2_pos k); lia).
    unfold lower_get_at. rewrite (shape_has_tree g l Sh f Hf). cbn [negb].
    destruct (Nat.leb_spec (hord g) k); [lia|]. cbv zeta.
    change (f / HF) with (c_huge g c). set (h := c_huge g c).
    destruct (ent l h) as [e|] eqn:He.
    2:{ eapply Runs_step; [apply (pool_st _ _ Ht)| |apply Runs_panic].
        mstep_tac. fold h. rewrite He. apply crash_st. }
    change (pow2 k) with (c_n c).
    destruct (e_dec e (c_n c)) as [e'|] eqn:Hd.
    2:{ eapply Runs_step; [apply (pool_st _ _ Ht)| |apply Runs_err].
        mstep_tac. fold h. rewrite He, Hd. cbn [fst]. apply finish_st. }
    eapply Runs_step; [apply (pool_st _ _ Ht)| |].
    { mstep_tac. fold h. rewrite He, Hd. cbn [fst]. apply goto_st. }
    eapply Runs_step; [apply (pool_st _ _ Ht)| |].
    { mstep_tac. fold h. rewrite He, Hd, N.eqb_refl. cbn [fst]. rewrite wr_ent_st. apply goto_st. }
    set (l1 := set_ent l h e').
    destruct (shape_bf g l Sh f Hf) as (rows & Hbf & Hlen & Hw). change (f / HF) with h in Hbf.
    rewrite Hbf.
    assert (Hbf1 : bf l1 (c_huge g c) = Some rows) by exact Hbf.
    eapply Runs_runs.
    { apply (toggle_run g wf P t Ht c0 c H l1 XGetAt rows Hbf1 Hlen Hw).
      intros H6. rewrite Hlen. apply toggle_bound; auto. }
    change (tframe XGetAt c) with f. change (t_order g XGetAt c) with k. change (t_expected XGetAt) with false.
    destruct (bf_toggle g rows f k false) as [rows'|].
    - cbn [tok]. cbv beta iota. apply Runs_ok.
    - cbn [tfail].
      assert (He1 : ent l1 h = Some e') by (eapply ent_set_ent; eauto).
      destruct (e_inc g e' (c_n c)) as [v|] eqn:Hi.
      2:{ eapply Runs_step; [apply (pool_st _ _ Ht)| |apply Runs_panic].
          mstep_tac. fold h. rewrite He1, Hi. cbn [fst]. apply crash_st. }
      eapply Runs_step; [apply (pool_st _ _ Ht)| |].
      { mstep_tac. fold h. rewrite He1, Hi. cbn [fst]. apply goto_st. }
      eapply Runs_step; [apply (pool_st _ _ Ht)| |apply Runs_err].
      mstep_tac. fold h. rewrite He1, Hi, N.eqb_refl. cbn [fst]. rewrite wr_ent_st, finish_st by assumption.
      unfold l1. rewrite set_ent_set_ent, (dec_inc g e (c_n c) e' v Hd Hi), (set_ent_id l h e He). reflexivity.
  Qed.

  (* ----- put, order < hord ----- *)
  Definition putmap (rl : res unit * lower) : res N * lower :=
    match rl with (Ok _, l') => (Ok 0, l') | (Err e, l') => (Err e, l') | (Panic x, l') => (Panic x, l') end.

  Lemma put_small_run l H f k rows : (k < hord g)%nat -> f mod pow2 k = 0 ->
    bf l (f / HF) = Some rows -> rows_ok g rows ->
    Runs (CPut f k) H (st l P H t (TRun (CPut f k) (toggle_entry g XPut (CPut f k)))) (putmap (put_small g l f k)).
  Proof.
    intros Hk Hal Hbf (Hlen & Hw). set (c := CPut f k).
    change (f / HF) with (c_huge g c) in *. set (h := c_huge g c) in *.
    unfold put_small. change (f / HF) with h. rewrite Hbf.
    eapply Runs_runs.
    { apply (toggle_run g wf P t Ht c0 c H l XPut rows Hbf Hlen Hw).
      intros H6. rewrite Hlen. apply toggle_bound; auto. }
    change (tframe XPut c) with f. change (t_order g XPut c) with k. change (t_expected XPut) with true.
    destruct (bf_toggle g rows f k true) as [rows'|].
    2:{ cbn [tfail putmap]. apply Runs_err. }
    cbn [tok]. fold h. set (l1 := set_bf l h rows'). change (pow2 k) with (c_n c).
    destruct (ent l1 h) as [e|] eqn:He.
    2:{ eapply Runs_step; [apply (pool_st _ _ Ht)| |apply Runs_panic].
        mstep_tac. fold h. rewrite He. apply crash_st. }
    destruct (e_inc g e (c_n c)) as [v|] eqn:Hi.
    2:{ eapply Runs_step; [apply (pool_st _ _ Ht)| |apply Runs_panic].
        mstep_tac. fold h. rewrite He, Hi. cbn [fst]. apply crash_st. }
    eapply Runs_step; [apply (pool_st _ _ Ht)| |].
    { mstep_tac. fold h. rewrite He, Hi. cbn [fst]. apply goto_st. }
    eapply Runs_step; [apply (pool_st _ _ Ht)| |apply Runs_ok].
    mstep_tac. fold h. rewrite He, Hi, N.eqb_refl. cbn [fst]. rewrite wr_ent_st. apply finish_st.
  Qed.

  Lemma split_rows_ok rows rows' : rows_ok g rows -> bf_toggle g rows 0 (hord g) false = Some rows' -> rows_ok g rows'.
  Proof.
    intros (Hlen & Hw). unfold bf_toggle. destruct (Nat.leb_spec (hord g) 6) as [H6|H6].
    - cbv zeta. unfold row_at. destruct (nth_error rows _) as [e|] eqn:He; [|discriminate].
      destruct (_ =? 0); [|discriminate]. intros E; inversion E; subst rows'; clear E. split.
      + rewrite upd_length. exact Hlen.
      + apply sr_Forall_upd; auto.
        assert (hord g = 6)%nat as -> by (destruct wf; lia).
        change (mask64 (pow2 6) (0 mod 64)) with MAX64. rewrite W64_pow. apply lor_lt_pow2.
        * rewrite <- W64_pow. exact (sr_Forall_nth (fun r => r < W64) rows _ e Hw He).
        * reflexivity.
    - cbv zeta. rewrite toggle_rows_cas. intros E. apply cas_all_inv in E. subst rows'. split.
      + rewrite fill_length. exact Hlen.
      + apply Forall_fill; auto. reflexivity.
  Qed.

  Lemma put_small_call l H f k : Shape g l -> (k < hord g)%nat ->
    f mod pow2 k = 0 -> f + pow2 k <= frames l ->
    Runs (CPut f k) H (st l P H t (TRun (CPut f k) P1)) (big g l (CPut f k)).
  Proof.
    intros Sh Hk Hal Hin. cbn [big]. fold (putmap (lower_put g l f k)). set (c := CPut f k).
    assert (Hf : f < frames l) by (pose proof (sr_pow2_pos k); lia).
    unfold lower_put. rewrite (shape_has_tree g l Sh f Hf). cbn [negb].
    destruct (Nat.leb_spec (hord g) k); [lia|]. cbv zeta.
    destruct (shape_bf g l Sh f Hf) as (rows & Hbf & Hok).
    change (f / HF) with (c_huge g c) in *. set (h := c_huge g c) in *.
    destruct (ent l h) as [old|] eqn:He.
    2:{ eapply Runs_step; [apply (pool_st _ _ Ht)| |apply Runs_panic].
        mstep_tac. fold h. rewrite He. apply crash_st. }
    change (pow2 k) with (c_n c).
    eapply Runs_step; [apply (pool_st _ _ Ht)| |].
    { mstep_tac. fold h. rewrite He. cbn [fst]. reflexivity. }
    destruct (e_huge old) eqn:Hh.
    - (* split the huge frame first *)
      rewrite goto_st. unfold partial_put_huge. change (f / HF) with h. rewrite Hbf.
      destruct Hok as (Hlen & Hw).
      eapply Runs_runs.
      { apply (toggle_run g wf P t Ht c0 c H l (XSplit old) rows Hbf Hlen Hw).
        intros H6. rewrite Hlen. apply toggle_bound; auto. }
      change (tframe (XSplit old) c) with 0. change (t_order g (XSplit old) c) with (hord g).
      change (t_expected (XSplit old)) with false.
      destruct (bf_toggle g rows 0 (hord g) false) as [rows'|] eqn:Tg.
      + cbn [tok]. fold h.
        eapply Runs_step; [apply (pool_st _ _ Ht)| |].
        { mstep_tac. fold h. change (ent (set_bf l h rows') h) with (ent l h). rewrite He, N.eqb_refl. cbn [fst].
          rewrite wr_ent_st. apply goto_st. }
        apply (put_small_run _ H f k rows'); auto.
        * change (f / HF) with h. change (bf (set_ent (set_bf l h rows') h 0) h) with (bf (set_bf l h rows') h).
          eapply bf_set_bf; eauto.
        * eapply split_rows_ok; eauto. split; auto.
      + cbn [tfail putmap].
        eapply Runs_step; [apply (pool_st _ _ Ht)| |].
        { mstep_tac. fold h. rewrite He, Hh. cbn [fst negb]. change (0 + 1 <? RETRIES) with true. cbv iota. apply goto_st. }
        eapply Runs_step; [apply (pool_st _ _ Ht)| |].
        { mstep_tac. fold h. rewrite He, Hh. cbn [fst negb]. change (0 + 1 + 1 <? RETRIES) with true. cbv iota. apply goto_st. }
        eapply Runs_step; [apply (pool_st _ _ Ht)| |].
        { mstep_tac. fold h. rewrite He, Hh. cbn [fst negb]. change (0 + 1 + 1 + 1 <? RETRIES) with true. cbv iota. apply goto_st. }
        eapply Runs_step; [apply (pool_st _ _ Ht)| |apply Runs_panic].
        mstep_tac. fold h. rewrite He, Hh. cbn [fst negb]. change (0 + 1 + 1 + 1 + 1 <? RETRIES) with false. cbv iota.
        apply crash_st.
    - destruct (e_free old + c_n c <=? HF).
      + rewrite goto_st. apply (put_small_run l H f k rows); auto.
      + rewrite finish_st by assumption. cbn [putmap]. apply Runs_err.
  Qed.
End Small.


Lemma of_nat_mul a b : N.of_nat (a * b) = N.of_nat a * N.of_nat b. Proof. lia. Qed.
Lemma nn_mul_add a b q : nn (N.of_nat a * N.of_nat b + N.of_nat q) = (a * b + q)%nat. Proof. unfold nn. lia. Qed.

Section GetSmall.
  Variable g : geom.
  Hypothesis wf : wf_geom g.
  Variable P : list thr.
  Variable t : nat.
  Hypothesis Ht : (t < length P)%nat.
  Variable c0 : call.
  Local Notation runs := (runs g t c0).
  Local Notation Runs := (Runs g P t c0).
  Notation HF := (HF g).
  Notation TF := (TF g).
  Notation THUGE := (THUGE g).
  Notation ROWS := (ROWS g).

  Variables (start : N) (k : nat).
  Hypothesis Hk : (k < hord g)%nat.
  Local Notation c := (CGet start k).
  Local Notation tstart := ((start * 64) / TF * THUGE).
  Local Notation co := (((start * 64) / HF) mod THUGE).
  Variable H : list (N * nat).

  Definition nchild (l : lower) (j : N) : mstate :=
    if j + 1 <? THUGE then st l P H t (TRun c (G1L (j + 1))) else fin c l P H t (Err EMemory).
  Lemma next_child_st l x j : next_child g (st l P H t x) t c j = nchild l j.
  Proof. unfold next_child, nchild. rewrite goto_st, finish_st by assumption. reflexivity. Qed.

  (* ----- the row loop of set_first_zeros, order <= 6 ----- *)
  Section Rows.
    Variables (l1 : lower) (j : N) (rows : list N).
    Local Notation h := (child_h g c j).
    Hypothesis Hbf : bf l1 h = Some rows.
    Hypothesis Hlen : length rows = rows_nat g.

    Lemma sfz_run : forall n i, N.of_nat n + i = ROWS -> (0 < n)%nat ->
      runs (st l1 P H t (TRun c (G2L j i)))
           (match sfz_loop g rows start k i n with
            | Some (rows', off) => fin c (set_bf l1 h rows') P H t (Ok (h * HF + off))
            | None => st l1 P H t (TRun c (G3L j))
            end).
    Proof.
      pose proof (sr_ROWS_pos g wf) as HR.
      induction n; intros i Hn Hpos; [lia|]. cbn [sfz_loop].
      set (r := (i + start mod ROWS) mod ROWS).
      assert (Hr : (nn r < length rows)%nat).
      { rewrite Hlen. pose proof (N.mod_lt (i + start mod ROWS) ROWS ltac:(lia)) as Hm. fold r in Hm.
        rewrite (sr_ROWS_nat g wf) in Hm. unfold nn. clear - Hm. remember (rows_nat g) as R. clear HeqR. lia. }
      unfold row_at. destruct (nth_error rows (nn r)) as [e|] eqn:He; [|apply nth_error_None in He; lia].
      assert (Hrow : row l1 h r = Some e) by (unfold row; rewrite Hbf; exact He).
      eapply runs_step1; [apply (pool_st _ _ Ht)| |].
      { mstep_tac. change (c_start c) with start. fold r. rewrite Hrow. cbn [fst]. reflexivity. }
      change (c_order c) with k.
      destruct (fza e k) as [[v off]|] eqn:Hf.
      - rewrite goto_st.
        eapply runs_step1; [apply (pool_st _ _ Ht)| |apply runs_refl].
        mstep_tac. change (c_start c) with start. fold r. change (c_order c) with k. rewrite Hrow, Hf, N.eqb_refl. cbn [fst].
        rewrite (wr_row_st P t _ H _ h _ _ rows) by assumption. rewrite finish_st by assumption.
        rewrite N.add_assoc. reflexivity.
      - unfold next_row. destruct n.
        + destruct (N.ltb_spec (i + 1) ROWS); [lia|]. rewrite goto_st. cbn [sfz_loop]. apply runs_refl.
        + destruct (N.ltb_spec (i + 1) ROWS); [|lia]. rewrite goto_st. apply IHn; lia.
    Qed.

    (* ----- the chunk loop of set_first_zero_rows, order > 6 ----- *)
    Hypothesis H6 : (6 < k)%nat.
    Local Notation nr := (Nat.pow 2 (k - 6)).
    Local Notation nch := (Nat.pow 2 (hord g - k)).

    Lemma nr_pos : (0 < nr)%nat. Proof. apply Nat.neq_0_lt_0, Nat.pow_nonzero. discriminate. Qed.
    Lemma c_nr_nat : c_nr c = N.of_nat nr. Proof. apply sr_pow2_nat. Qed.
    Lemma chunks_rows : (nch * nr = rows_nat g)%nat.
    Proof. unfold rows_nat. rewrite <- Nat.pow_add_r. f_equal. lia. Qed.
    Lemma c_chunks_nat : c_chunks g c = N.of_nat nch.
    Proof.
      unfold c_chunks. rewrite c_nr_nat, (sr_ROWS_nat g wf), <- chunks_rows, of_nat_mul.
      apply N.div_mul. pose proof nr_pos. lia.
    Qed.

    Section Chunk.
      Variable ch : nat.
      Hypothesis Hch : (ch < nch)%nat.
      Lemma chunk_in : (ch * nr + nr <= length rows)%nat.
      Proof. rewrite Hlen, <- chunks_rows. clear - Hch. remember nr as X. clear HeqX. remember nch as Y. clear HeqY. nia. Qed.

      Definition nchunk : mstate :=
        if N.of_nat ch + 1 <? c_chunks g c then st l1 P H t (TRun c (G2R j (N.of_nat ch + 1) 0)) else st l1 P H t (TRun c (G3L j)).

      Lemma g2r_run : forall m q, (q + S m = nr)%nat -> blk_is rows (ch * nr) q 0 ->
        runs (st l1 P H t (TRun c (G2R j (N.of_nat ch) (N.of_nat q))))
             (if forallb (fun v => v =? 0) (firstn nr (skipn (ch * nr) rows))
              then st l1 P H t (TRun c (G2W j (N.of_nat ch) 0)) else nchunk).
      Proof.
        pose proof chunk_in as Hin.
        induction m; intros q Hq Hb.
        - destruct (nth_error rows (ch * nr + q)) as [e|] eqn:He; [|apply nth_error_None in He; lia].
          eapply runs_step1; [apply (pool_st _ _ Ht)| |apply runs_refl].
          mstep_tac. rewrite c_nr_nat. unfold row. rewrite Hbf, nn_mul_add, He. cbn [fst].
          destruct (N.eqb_spec e 0) as [->|Hne].
          + rewrite ltb_succ_nat, Nat2N.id. destruct (Nat.ltb_spec (S q) nr); [lia|]. rewrite goto_st.
            replace (forallb _ _) with true; auto. symmetry. apply forallb_block; auto.
            intros i Hi. exists 0. split; [|reflexivity].
            destruct (Nat.eq_dec i (ch * nr + q)) as [->|]; auto. apply Hb. lia.
          + replace (forallb _ _) with false.
            * unfold next_chunk, nchunk. rewrite !goto_st. reflexivity.
            * symmetry. apply Bool.not_true_is_false. intros Hall.
              rewrite forallb_block in Hall by auto. destruct (Hall (ch * nr + q)%nat) as (v & Hv & Hz); [lia|].
              rewrite He in Hv. inversion Hv; subst v. apply N.eqb_eq in Hz. contradiction.
        - destruct (nth_error rows (ch * nr + q)) as [e|] eqn:He; [|apply nth_error_None in He; lia].
          eapply runs_step1; [apply (pool_st _ _ Ht)| |].
          { mstep_tac. rewrite c_nr_nat. unfold row. rewrite Hbf, nn_mul_add, He. cbn [fst]. reflexivity. }
          destruct (N.eqb_spec e 0) as [->|Hne].
          + rewrite ltb_succ_nat, Nat2N.id. destruct (Nat.ltb_spec (S q) nr); [|lia]. rewrite goto_st, of_nat_S_add.
            apply IHm; [lia|]. intros i Hi. destruct (Nat.eq_dec i (ch * nr + q)) as [->|]; auto. apply Hb. lia.
          + replace (forallb _ _) with false.
            * unfold next_chunk, nchunk. rewrite !goto_st. apply runs_refl.
            * symmetry. apply Bool.not_true_is_false. intros Hall.
              rewrite forallb_block in Hall by auto. destruct (Hall (ch * nr + q)%nat) as (v & Hv & Hz); [lia|].
              rewrite He in Hv. inversion Hv; subst v. apply N.eqb_eq in Hz. contradiction.
      Qed.

      Lemma g2w_run : blk_is rows (ch * nr) nr 0 -> forall m q, (q + S m = nr)%nat ->
        runs (st (set_bf l1 h (fill rows (ch * nr) q MAX64)) P H t (TRun c (G2W j (N.of_nat ch) (N.of_nat q))))
             (fin c (set_bf l1 h (fill rows (ch * nr) nr MAX64)) P H t (Ok (h * HF + N.of_nat (ch * nr) * 64))).
      Proof.
        intros Hb. pose proof chunk_in as Hin.
        induction m; intros q Hq.
        - eapply runs_step1; [apply (pool_st _ _ Ht)| |apply runs_refl].
          mstep_tac. rewrite c_nr_nat. rewrite (row_set_bf l1 h rows _ _ Hbf), nn_mul_add.
          rewrite fill_out by lia. rewrite (Hb (ch * nr + q)%nat) by lia. rewrite N.eqb_refl. cbn [fst].
          rewrite (wr_row_st P t _ H _ h _ _ (fill rows (ch * nr) q MAX64)) by (eapply bf_set_bf; eauto).
          rewrite set_bf_set_bf, nn_mul_add, fill_snoc, ltb_succ_nat, Nat2N.id.
          destruct (Nat.ltb_spec (S q) nr); [lia|]. rewrite finish_st by assumption.
          replace (S q) with nr by lia. rewrite of_nat_mul. reflexivity.
        - eapply runs_step1; [apply (pool_st _ _ Ht)| |].
          { mstep_tac. rewrite c_nr_nat. rewrite (row_set_bf l1 h rows _ _ Hbf), nn_mul_add.
            rewrite fill_out by lia. rewrite (Hb (ch * nr + q)%nat) by lia. rewrite N.eqb_refl. cbn [fst].
            rewrite (wr_row_st P t _ H _ h _ _ (fill rows (ch * nr) q MAX64)) by (eapply bf_set_bf; eauto).
            rewrite set_bf_set_bf, nn_mul_add, fill_snoc, ltb_succ_nat, Nat2N.id.
            destruct (Nat.ltb_spec (S q) nr); [|lia]. rewrite goto_st, of_nat_S_add. reflexivity. }
          apply IHm. lia.
      Qed.
    End Chunk.

    Lemma sfzr_run : forall n ch, (n + ch = nch)%nat -> (0 < n)%nat ->
      runs (st l1 P H t (TRun c (G2R j (N.of_nat ch) 0)))
           (match sfzr_loop rows nr ch n with
            | Some (rows', off) => fin c (set_bf l1 h rows') P H t (Ok (h * HF + off))
            | None => st l1 P H t (TRun c (G3L j))
            end).
    Proof.
      pose proof nr_pos as Hnr.
      induction n; intros ch Hn Hpos; [lia|]. cbn [sfzr_loop].
      assert (Hch : (ch < nch)%nat) by lia.
      eapply runs_trans.
      { apply (g2r_run ch Hch (nr - 1) O); [lia|]. intros i Hi. lia. }
      destruct (forallb (fun v => v =? 0) (firstn nr (skipn (ch * nr) rows))) eqn:Hall.
      - assert (Hb : blk_is rows (ch * nr) nr 0).
        { intros i Hi. rewrite forallb_block in Hall by (apply chunk_in; auto).
          destruct (Hall i Hi) as (v & Hv & Hz). apply N.eqb_eq in Hz. congruence. }
        rewrite toggle_rows_cas, (cas_all_fill rows (ch * nr) nr 0 MAX64 Hb).
        rewrite <- (set_bf_id l1 h rows Hbf) at 1.
        apply (g2w_run ch Hch Hb (nr - 1) O). lia.
      - unfold nchunk. rewrite c_chunks_nat. destruct n.
        + destruct (N.ltb_spec (N.of_nat ch + 1) (N.of_nat nch)); [lia|]. cbn [sfzr_loop]. apply runs_refl.
        + destruct (N.ltb_spec (N.of_nat ch + 1) (N.of_nat nch)); [|lia]. rewrite of_nat_S_add. apply IHn; lia.
    Qed.
  End Rows.

  Lemma sfz_count (rows : list N) : length rows = rows_nat g -> (6 < k)%nat ->
    (Nat.div (length rows) (Nat.pow 2 (k - 6)) + (if Nat.eqb (Nat.modulo (length rows) (Nat.pow 2 (k - 6))) 0 then 0 else 1)
     = Nat.pow 2 (hord g - k))%nat.
  Proof.
    intros Hlen H6.
    assert (E : (Nat.pow 2 (hord g - k) * Nat.pow 2 (k - 6) = rows_nat g)%nat)
      by (unfold rows_nat; rewrite <- Nat.pow_add_r; f_equal; lia).
    rewrite Hlen, <- E.
    assert (Hp : (Nat.pow 2 (k - 6) <> 0)%nat) by (apply Nat.pow_nonzero; discriminate).
    rewrite Nat.div_mul, Nat.mod_mul by auto. cbn [Nat.eqb]. lia.
  Qed.

  (* ----- the child loop ----- *)
  Lemma get_small_run l :
    (forall h rows, bf l h = Some rows -> length rows = rows_nat g) ->
    forall n j, N.of_nat n + j = THUGE -> (0 < n)%nat ->
    Runs c H (st l P H t (TRun c (G1L j))) (get_small_loop g l tstart co start k j n).
  Proof.
    intros Hrows. induction n; intros j Hn Hpos; [lia|]. cbn [get_small_loop].
    change (tstart + (co + j) mod THUGE) with (child_h g c j). set (h := child_h g c j).
    assert (Hnext : Runs c H (nchild l j) (get_small_loop g l tstart co start k (j + 1) n)).
    { unfold nchild. destruct n.
      - destruct (N.ltb_spec (j + 1) THUGE); [lia|]. cbn [get_small_loop]. apply Runs_err.
      - destruct (N.ltb_spec (j + 1) THUGE); [|lia]. apply IHn; lia. }
    destruct (ent l h) as [e|] eqn:He.
    2:{ eapply Runs_step; [apply (pool_st _ _ Ht)| |apply Runs_panic].
        mstep_tac. fold h. rewrite He. apply crash_st. }
    change (pow2 k) with (c_n c).
    destruct (e_dec e (c_n c)) as [e'|] eqn:Hd.
    2:{ eapply Runs_step; [apply (pool_st _ _ Ht)| |exact Hnext].
        mstep_tac. fold h. rewrite He, Hd. cbn [fst]. apply next_child_st. }
    eapply Runs_step; [apply (pool_st _ _ Ht)| |].
    { mstep_tac. fold h. rewrite He, Hd. cbn [fst]. apply goto_st. }
    eapply Runs_step; [apply (pool_st _ _ Ht)| |].
    { mstep_tac. fold h. rewrite He, Hd, N.eqb_refl. cbn [fst]. rewrite wr_ent_st. apply goto_st. }
    set (l1 := set_ent l h e'). change (c_order c) with k.
    assert (He1 : ent l1 h = Some e') by (eapply ent_set_ent; eauto).
    (* after a failed search: undo *)
    assert (Hundo : Runs c H (st l1 P H t (TRun c (G3L j)))
                      (match e_inc g e' (c_n c) with
                       | Some _ => get_small_loop g l tstart co start k (j + 1) n
                       | None => (Panic SUndoFailed, l)
                       end)).
    { destruct (e_inc g e' (c_n c)) as [v|] eqn:Hi.
      2:{ eapply Runs_step; [apply (pool_st _ _ Ht)| |apply Runs_panic].
          mstep_tac. fold h. rewrite He1, Hi. cbn [fst]. apply crash_st. }
      eapply Runs_step; [apply (pool_st _ _ Ht)| |].
      { mstep_tac. fold h. rewrite He1, Hi. cbn [fst]. apply goto_st. }
      eapply Runs_step; [apply (pool_st _ _ Ht)| |exact Hnext].
      mstep_tac. fold h. rewrite He1, Hi, N.eqb_refl. cbn [fst]. rewrite wr_ent_st, next_child_st.
      unfold l1. rewrite set_ent_set_ent, (dec_inc g e (c_n c) e' v Hd Hi), (set_ent_id l h e He). reflexivity. }
    destruct (bf l h) as [rows|] eqn:Hbf.
    2:{ assert (Hrow : forall r, row l1 h r = None) by (intros r; unfold row; change (bf l1 h) with (bf l h); rewrite Hbf; reflexivity).
        eapply Runs_step; [apply (pool_st _ _ Ht)| |apply Runs_panic].
        destruct (Nat.leb k 6); mstep_tac; fold h; rewrite Hrow; apply crash_st. }
    assert (Hbf1 : bf l1 h = Some rows) by exact Hbf.
    pose proof (Hrows h rows Hbf) as Hlen.
    unfold bf_set_first_zeros. destruct (Nat.leb_spec k 6) as [H6|H6].
    - eapply Runs_runs.
      { apply (sfz_run l1 j rows Hbf1 Hlen (length rows) 0).
        - rewrite Hlen, <- (sr_ROWS_nat g wf). lia.
        - rewrite Hlen. unfold rows_nat. apply Nat.neq_0_lt_0, Nat.pow_nonzero. discriminate. }
      fold h. destruct (sfz_loop g rows start k 0 (length rows)) as [[rows' off]|].
      + apply Runs_ok.
      + exact Hundo.
    - cbv zeta. rewrite (sfz_count rows Hlen H6).
      eapply Runs_runs.
      { apply (sfzr_run l1 j rows Hbf1 Hlen H6 (Nat.pow 2 (hord g - k)) O).
        - lia.
        - apply Nat.neq_0_lt_0, Nat.pow_nonzero. discriminate. }
      fold h. destruct (sfzr_loop rows (Nat.pow 2 (k - 6)) 0 (Nat.pow 2 (hord g - k))) as [[rows' off]|].
      + apply Runs_ok.
      + exact Hundo.
  Qed.

  Lemma get_small_call l : Shape g l -> has_tree g l ((start * 64) / TF) = true ->
    Runs c H (st l P H t (TRun c (G1L 0))) (big g l c).
  Proof.
    intros Sh Htree. cbn [big]. unfold lower_get. rewrite Htree. cbn [negb].
    destruct (Nat.leb_spec (hord g) k); [lia|]. cbv zeta.
    apply get_small_run.
    - intros h rows Hbf. destruct Sh as (_ & _ & Hr). unfold bf in Hbf.
      destruct (sr_Forall_nth _ _ _ _ Hr Hbf) as (Hlen & _). exact Hlen.
    - rewrite (sr_THUGE_nat g). lia.
    - unfold thuge_nat. apply Nat.neq_0_lt_0, Nat.pow_nonzero. discriminate.
  Qed.
End GetSmall.


(* ---------- from `runs` to the fuel-bounded solo run ---------- *)
Lemma runs_solo g t c0 s s' : runs g t c0 s s' ->
  (exists c p, nth_error (ms_pool s) t = Some (TRun c p)) ->
  (forall c p, nth_error (ms_pool s') t <> Some (TRun c p)) ->
  exists n, solo_fuel g n s t c0 = s'.
Proof.
  induction 1 as [s|s c p s' E R IH]; intros (c1 & p1 & E1) Hn.
  - exfalso. eapply Hn; eauto.
  - destruct (nth_error (ms_pool (fst (mstep g s t c0))) t) as [[r|c2 p2|x c2]|] eqn:E2.
    + exists 1%nat. cbn [solo_fuel]. rewrite E2. inversion R; subst; auto. congruence.
    + destruct IH as (n & Hn'); eauto. exists (S n). cbn [solo_fuel]. rewrite E2. exact Hn'.
    + exists 1%nat. cbn [solo_fuel]. rewrite E2. inversion R; subst; auto. congruence.
    + exists 1%nat. cbn [solo_fuel]. rewrite E2. inversion R; subst; auto. congruence.
Qed.

(* what the solo run of call c reaches: (r, l') is the big-step result, H the client's blocks when the call starts
   (for a put: after the block was taken out) *)
Definition solo_post (c : call) (P : list thr) (H : list (N * nat)) (t : nat) (rl : res N * lower) (s' : mstate) : Prop :=
  match fst rl with
  | Panic x => ms_pool s' = upd P t (TPanic x c)
  | r => s' = fin c (snd rl) P H t r
  end.

Lemma call_entry g (wf : wf_geom g) P t (Ht : (t < length P)%nat) c0 l H c : Shape g l -> call_ok g (mk l P H) c = true ->
  Runs g P t c0 c H (st l P H t (TRun c (entry_pc g c))) (big g l c).
Proof.
  intros Sh Hok. unfold call_ok in Hok. apply Bool.andb_true_iff in Hok. destruct Hok as (Ho & Hc).
  apply Nat.leb_le in Ho. cbn [ms_frames mk] in Hc.
  destruct c as [start k|f k|f k]; cbn [c_order] in Ho; cbn [entry_pc].
  - apply N.ltb_lt in Hc. pose proof (shape_has_tree_idx g l Sh _ Hc) as Htree.
    destruct (Nat.leb_spec (hord g) k).
    + apply get_huge_call; auto.
    + apply get_small_call; auto.
  - apply Bool.andb_true_iff in Hc. destruct Hc as (Ha & Hi). apply N.eqb_eq in Ha. apply N.leb_le in Hi.
    destruct (Nat.leb_spec (hord g) k).
    + apply get_at_huge_run; auto.
    + apply get_at_small_run; auto.
  - apply Bool.andb_true_iff in Hc. destruct Hc as (Ha & Hi). apply N.eqb_eq in Ha. apply N.leb_le in Hi.
    destruct (Nat.leb_spec (hord g) k).
    + apply put_huge_run; auto.
    + apply put_small_call; auto.
Qed.

Lemma nth_upd_not_run P t x c p : (t < length P)%nat -> (forall c' p', x <> TRun c' p') ->
  nth_error (upd P t x) t <> Some (TRun c p).
Proof. intros Ht Hx. rewrite nth_error_upd_same by exact Ht. intros E. inversion E. eapply Hx; eauto. Qed.

(* MAIN: one call alone on the machine is the big-step function *)
Theorem solo_call g l P H H' t last c :
  wf_geom g -> Shape g l -> nth_error P t = Some (TIdle last) -> call_ok g (mk l P H) c = true ->
  match c with CPut f k => client_take H f k = Some H' | _ => H' = H end ->
  exists fuel, solo_post c P H' t (big g l c) (solo_fuel g fuel (mk l P H) t c).
Proof.
  intros wf Sh Ept Hok Hh. pose proof (sr_some_lt _ _ _ Ept) as Ht.
  destruct (call_entry g wf P t Ht c l H' c Sh) as (s' & R & Q).
  { unfold call_ok in *. exact Hok. }
  assert (E1 : fst (mstep g (mk l P H) t c) = st l P H' t (TRun c (entry_pc g c))).
  { unfold mstep. cbn [ms_pool mk]. rewrite Ept, Hok.
    destruct c as [start k|f k|f k]; try (subst H'; reflexivity).
    cbn [ms_held mk]. rewrite Hh. reflexivity. }
  destruct (runs_solo g t c _ s' R) as (n & Hn).
  { do 2 eexists. apply (pool_st _ _ Ht). }
  { intros c1 p1. unfold Post in Q. destruct (fst (big g l c)).
    - subst s'. unfold fin, st, mk. cbn [ms_pool]. apply nth_upd_not_run; auto. discriminate.
    - subst s'. unfold fin, st, mk. cbn [ms_pool]. apply nth_upd_not_run; auto. discriminate.
    - rewrite Q. apply nth_upd_not_run; auto. discriminate. }
  exists (S n). cbn [solo_fuel]. rewrite E1. rewrite (pool_st _ _ Ht). rewrite Hn. exact Q.
Qed.

(* ----- the three call kinds, spelled out ----- *)
Theorem solo_get g l P H t last start k :
  wf_geom g -> Shape g l -> (k <= tord g)%nat -> (start * 64) / TF g < ntab g (frames l) ->
  nth_error P t = Some (TIdle last) ->
  exists fuel, let s' := solo_fuel g fuel (mk l P H) t (CGet start k) in
    match lower_get g l start k with
    | (Ok f, l') => s' = mk l' (upd P t (TIdle (Some (Ok f)))) ((f, k) :: H)
    | (Err e, l') => s' = mk l' (upd P t (TIdle (Some (Err e)))) H
    | (Panic x, _) => ms_pool s' = upd P t (TPanic x (CGet start k))
    end.
Proof.
  intros wf Sh Hk Hs Ept.
  destruct (solo_call g l P H H t last (CGet start k) wf Sh Ept) as (fuel & Q); auto.
  { unfold call_ok. cbn [c_order ms_frames mk]. apply Bool.andb_true_iff. split; [apply Nat.leb_le; auto|apply N.ltb_lt; auto]. }
  exists fuel. unfold solo_post in Q. cbn [big] in Q. cbv zeta.
  destruct (lower_get g l start k) as [[f|e|x] l']; exact Q.
Qed.

Theorem solo_get_at g l P H t last f k :
  wf_geom g -> Shape g l -> (k <= tord g)%nat -> f mod pow2 k = 0 -> f + pow2 k <= frames l ->
  nth_error P t = Some (TIdle last) ->
  exists fuel, let s' := solo_fuel g fuel (mk l P H) t (CGetAt f k) in
    match lower_get_at g l f k with
    | (Ok _, l') => s' = mk l' (upd P t (TIdle (Some (Ok f)))) ((f, k) :: H)
    | (Err e, l') => s' = mk l' (upd P t (TIdle (Some (Err e)))) H
    | (Panic x, _) => ms_pool s' = upd P t (TPanic x (CGetAt f k))
    end.
Proof.
  intros wf Sh Hk Ha Hi Ept.
  destruct (solo_call g l P H H t last (CGetAt f k) wf Sh Ept) as (fuel & Q); auto.
  { unfold call_ok. cbn [c_order ms_frames mk]. apply Bool.andb_true_iff. split; [apply Nat.leb_le; auto|].
    apply Bool.andb_true_iff. split; [apply N.eqb_eq; auto|apply N.leb_le; auto]. }
  exists fuel. unfold solo_post in Q. cbn [big] in Q. cbv zeta.
  destruct (lower_get_at g l f k) as [[u|e|x] l']; exact Q.
Qed.

Theorem solo_put g l P H H' t last f k :
  wf_geom g -> Shape g l -> (k <= tord g)%nat -> f mod pow2 k = 0 -> f + pow2 k <= frames l ->
  client_take H f k = Some H' ->
  nth_error P t = Some (TIdle last) ->
  exists fuel, let s' := solo_fuel g fuel (mk l P H) t (CPut f k) in
    match lower_put g l f k with
    | (Ok _, l') => s' = mk l' (upd P t (TIdle (Some (Ok 0)))) H'
    | (Err e, l') => s' = mk l' (upd P t (TIdle (Some (Err e)))) H'
    | (Panic x, _) => ms_pool s' = upd P t (TPanic x (CPut f k))
    end.
Proof.
  intros wf Sh Hk Ha Hi Hc Ept.
  destruct (solo_call g l P H H' t last (CPut f k) wf Sh Ept) as (fuel & Q); auto.
  { unfold call_ok. cbn [c_order ms_frames mk]. apply Bool.andb_true_iff. split; [apply Nat.leb_le; auto|].
    apply Bool.andb_true_iff. split; [apply N.eqb_eq; auto|apply N.leb_le; auto]. }
  exists fuel. unfold solo_post in Q. cbn [big] in Q. cbv zeta.
  destruct (lower_put g l f k) as [[u|e|x] l']; exact Q.
Qed.

(* the form asked for: memory and the thread's result, for a non-panicking big-step outcome *)
Lemma lower_of_mk l P H : lower_of (mk l P H) = l. Proof. destruct l; reflexivity. Qed.

Corollary solo_get_inv g l P H t last start k :
  wf_geom g -> LowerInv g l -> (k <= tord g)%nat -> (start * 64) / TF g < ntab g (frames l) ->
  nth_error P t = Some (TIdle last) ->
  (forall x, fst (lower_get g l start k) <> Panic x) ->
  exists fuel, let s' := solo_fuel g fuel (mk l P H) t (CGet start k) in
    lower_of s' = snd (lower_get g l start k) /\
    nth_error (ms_pool s') t = Some (TIdle (Some (fst (lower_get g l start k)))) /\
    ms_held s' = match fst (lower_get g l start k) with Ok f => (f, k) :: H | _ => H end.
Proof.
  intros wf Inv Hk Hs Ept Hnp. pose proof (sr_some_lt _ _ _ Ept) as Ht.
  destruct (solo_get g l P H t last start k wf (LowerInv_Shape g l Inv) Hk Hs Ept) as (fuel & Q).
  exists fuel. cbv zeta in *. destruct (lower_get g l start k) as [[f|e|x] l']; cbn [fst snd] in *.
  - rewrite Q, lower_of_mk. cbn [ms_pool ms_held mk]. rewrite nth_error_upd_same by exact Ht. auto.
  - rewrite Q, lower_of_mk. cbn [ms_pool ms_held mk]. rewrite nth_error_upd_same by exact Ht. auto.
  - exfalso. eapply Hnp; eauto.
Qed.


Corollary solo_get_at_inv g l P H t last f k :
  wf_geom g -> LowerInv g l -> (k <= tord g)%nat -> f mod pow2 k = 0 -> f + pow2 k <= frames l ->
  nth_error P t = Some (TIdle last) ->
  (forall x, fst (lower_get_at g l f k) <> Panic x) ->
  exists fuel, let s' := solo_fuel g fuel (mk l P H) t (CGetAt f k) in
    lower_of s' = snd (lower_get_at g l f k) /\
    nth_error (ms_pool s') t =
      Some (TIdle (Some (match fst (lower_get_at g l f k) with Ok _ => Ok f | Err e => Err e | Panic x => Panic x end))) /\
    ms_held s' = match fst (lower_get_at g l f k) with Ok _ => (f, k) :: H | _ => H end.
Proof.
  intros wf Inv Hk Ha Hi Ept Hnp. pose proof (sr_some_lt _ _ _ Ept) as Ht.
  destruct (solo_get_at g l P H t last f k wf (LowerInv_Shape g l Inv) Hk Ha Hi Ept) as (fuel & Q).
  exists fuel. cbv zeta in *. destruct (lower_get_at g l f k) as [[u|e|x] l']; cbn [fst snd] in *.
  - rewrite Q, lower_of_mk. cbn [ms_pool ms_held mk]. rewrite nth_error_upd_same by exact Ht. auto.
  - rewrite Q, lower_of_mk. cbn [ms_pool ms_held mk]. rewrite nth_error_upd_same by exact Ht. auto.
  - exfalso. eapply Hnp; eauto.
Qed.

Corollary solo_put_inv g l P H H' t last f k :
  wf_geom g -> LowerInv g l -> (k <= tord g)%nat -> f mod pow2 k = 0 -> f + pow2 k <= frames l ->
  client_take H f k = Some H' ->
  nth_error P t = Some (TIdle last) ->
  (forall x, fst (lower_put g l f k) <> Panic x) ->
  exists fuel, let s' := solo_fuel g fuel (mk l P H) t (CPut f k) in
    lower_of s' = snd (lower_put g l f k) /\
    nth_error (ms_pool s') t =
      Some (TIdle (Some (match fst (lower_put g l f k) with Ok _ => Ok 0 | Err e => Err e | Panic x => Panic x end))) /\
    ms_held s' = H'.
Proof.
  intros wf Inv Hk Ha Hi Hc Ept Hnp. pose proof (sr_some_lt _ _ _ Ept) as Ht.
  destruct (solo_put g l P H H' t last f k wf (LowerInv_Shape g l Inv) Hk Ha Hi Hc Ept) as (fuel & Q).
  exists fuel. cbv zeta in *. destruct (lower_put g l f k) as [[u|e|x] l']; cbn [fst snd] in *.
  - rewrite Q, lower_of_mk. cbn [ms_pool ms_held mk]. rewrite nth_error_upd_same by exact Ht. auto.
  - rewrite Q, lower_of_mk. cbn [ms_pool ms_held mk]. rewrite nth_error_upd_same by exact Ht. auto.
  - exfalso. eapply Hnp; eauto.
Qed.

(* ---------- executable cross-check of the two descriptions (non-vacuity, regression) ---------- *)
Definition list_eqb {A} (e : A -> A -> bool) := fix go (a b : list A) : bool :=
  match a, b with [], [] => true | x :: a', y :: b' => e x y && go a' b' | _, _ => false end.
Definition lower_eqb (a b : lower) : bool :=
  (frames a =? frames b) && list_eqb N.eqb (ents a) (ents b) && list_eqb (list_eqb N.eqb) (bfs a) (bfs b).
Definition held_eqb := list_eqb (fun (a b : N * nat) => (fst a =? fst b) && Nat.eqb (snd a) (snd b)).
Definition site_eqb (a b : site) : bool :=
  match a, b with
  | SIndex n, SIndex m | SArith n, SArith m | SValidate n, SValidate m | SField n, SField m => n =? m
  | SUndoFailedAll, SUndoFailedAll | SFailedUndoToggle, SFailedUndoToggle | SFailedUndoSearch, SFailedUndoSearch
  | SRowOrder, SRowOrder | SSetCrosses, SSetCrosses | SUndoFailed, SUndoFailed | SUndoUnwrap, SUndoUnwrap
  | SIsFreeAssert, SIsFreeAssert | SSplitLast, SSplitLast | SReserveAllSub, SReserveAllSub | SIncFailed, SIncFailed
  | SFailedPartialClear, SFailedPartialClear | SExceedingRetries, SExceedingRetries
  | SUnreserveFailed, SUnreserveFailed | STreeFree, STreeFree | SUnreserveClass, SUnreserveClass
  | SLocalFree, SLocalFree | SInvalidClass, SInvalidClass | SNoLocals, SNoLocals => true
  | _, _ => false
  end.
Definition err_eqb (a b : error) : bool :=
  match a, b with EMemory, EMemory | EArgument, EArgument | EInit, EInit => true | _, _ => false end.

(* thread 1 of 3 runs call c alone on memory l; the client holds `H` (plus the block to be freed) *)
Definition solo_agrees_h (g : geom) (l : lower) (H : list (N * nat)) (c : call) (fuel : nat) : bool :=
  let P := [TIdle None; TIdle (Some (Ok 7)); TPanic SRowOrder c] in
  let s' := solo_fuel g fuel (mk l P H) 1 c in
  let H1 := match c with CPut f k => match client_take H f k with Some h => h | None => H end | _ => H end in
  match big g l c, ms_pool s' with
  | (Panic x, _), [TIdle None; TPanic y c'; TPanic SRowOrder _] => site_eqb x y
  | (Ok f, l'), [TIdle None; TIdle (Some (Ok f')); TPanic SRowOrder _] =>
      (f =? f') && lower_eqb (lower_of s') l' &&
      held_eqb (ms_held s') (match c with CPut _ _ => H1 | _ => (f, c_order c) :: H1 end)
  | (Err e, l'), [TIdle None; TIdle (Some (Err e')); TPanic SRowOrder _] =>
      err_eqb e e' && lower_eqb (lower_of s') l' && held_eqb (ms_held s') H1
  | _, _ => false
  end.
Definition solo_agrees g l c fuel :=
  solo_agrees_h g l (match c with CPut f k => [(3, 0%nat); (f, k)] | _ => [(3, 0%nat)] end) c fuel.

Definition g0 := {| hord := 9; tlog := 2 |}.
Definition L0 := free_all g0 5000.
Definition after (l : lower) (cs : list call) : lower := fold_left (fun l c => snd (big g0 l c)) cs l.

Definition tests : list (lower * call) :=
  [ (L0, CGet 0 0); (L0, CGet 3 1); (L0, CGet 9 2); (L0, CGet 17 3); (L0, CGet 17 4); (L0, CGet 33 5); (L0, CGet 40 6);
    (L0, CGet 0 7); (L0, CGet 20 8); (L0, CGet 20 9); (L0, CGet 20 10); (L0, CGet 20 11); (L0, CGet 70 9);
    (L0, CGetAt 0 0); (L0, CGetAt 64 6); (L0, CGetAt 1024 9); (L0, CGetAt 2048 11); (L0, CGetAt 4096 9); (L0, CGetAt 4992 3);
    (L0, CGetAt 128 7); (L0, CGetAt 256 8); (L0, CPut 0 0); (L0, CPut 1024 9);
    (after L0 [CGet 0 0], CGet 0 0); (after L0 [CGet 0 0], CPut 0 0); (after L0 [CGet 0 0], CGetAt 0 0);
    (after L0 [CGet 0 3], CPut 0 3);  (after L0 [CGet 0 3], CPut 4 2); (after L0 [CGet 0 3], CPut 8 3);
    (after L0 [CGet 0 7], CPut 0 7); (after L0 [CGet 0 7], CPut 64 6); (after L0 [CGet 0 7], CGet 0 7); (after L0 [CGet 0 7], CGetAt 0 8);
    (after L0 [CGet 0 7], CGetAt 0 7); (after L0 [CGet 0 7;CGet 0 6], CGet 0 8);
    (after L0 [CGet 0 9], CPut 0 9); (after L0 [CGet 0 9], CPut 0 0); (after L0 [CGet 0 9], CPut 17 0); (after L0 [CGet 0 9], CPut 64 6);
    (after L0 [CGet 0 9], CPut 256 8); (after L0 [CGet 0 9], CGet 0 9); (after L0 [CGet 0 9], CGet 0 10); (after L0 [CGet 0 9], CGet 0 3);
    (after L0 [CGet 0 10], CPut 0 10); (after L0 [CGet 0 10], CPut 512 9); (after L0 [CGet 0 10], CPut 0 11);
    (after L0 [CGet 0 11], CGet 0 9); (after L0 [CGet 0 11], CGet 0 0); (after L0 [CGet 0 11], CPut 0 11);
    (after L0 [CGet 0 9; CGet 0 9; CGet 0 9; CGet 0 9], CGet 0 9); (after L0 [CGet 0 9; CGet 0 9; CGet 0 9; CGet 0 9], CGet 0 2);
    (after L0 [CGet 70 9; CGet 70 9], CGet 70 0); (after L0 [CGet 70 9; CGet 70 9], CGet 70 9); (after L0 [CGet 70 9; CGet 70 9], CGet 70 10);
    (* states outside LowerInv (inside Shape): the panics of the two descriptions coincide *)
    (set_ent (after L0 [CGet 0 0]) 0 MARK, CPut 0 0);                                   (* SExceedingRetries *)
    (set_ent (after L0 [CGet 0 7]) 0 MARK, CPut 64 6);                                  (* SExceedingRetries *)
    (set_ent (set_bf L0 0 (0 :: 0 :: 5 :: repeat 0 5)) 0 MARK, CPut 0 0);               (* SExceedingRetries after TW/TU rollback *)
    (set_bf (set_ent L0 0 600) 0 (repeat MAX64 8), CGet 0 0);                           (* SUndoFailed *)
    (set_bf (set_ent L0 0 600) 0 (repeat MAX64 8), CGet 0 7);                           (* SUndoFailed, chunk search *)
    (set_bf (set_ent L0 0 600) 0 (1 :: repeat 0 7), CGetAt 0 0);                        (* SUndoUnwrap *)
    (set_ent L0 10 5, CGet 80 0); (set_ent L0 10 300, CGet 80 8);                       (* SIndex 2: entry without bitfield *)
    (set_bf L0 0 (0 :: 0 :: 5 :: repeat 0 5), CGetAt 0 8);                              (* TW fails at row 2, TU rolls back *)
    (set_bf L0 0 (0 :: 0 :: 5 :: repeat 0 5), CGet 0 8);                                (* G2R skips the chunk *)
    (set_ent (set_ent L0 0 MARK) 1 MARK, CPut 0 10); (set_ent L0 0 MARK, CPut 0 10)     (* HC / HU *)
  ].

Definition solo_expected : list (res N) := Eval vm_compute in map (fun lc => fst (big g0 (fst lc) (snd lc))) tests.
Print solo_expected.

Example solo_agrees_tests : forallb (fun lc => solo_agrees g0 (fst lc) (snd lc) 200) tests = true.
Proof. vm_compute. reflexivity. Qed.

(* the test states satisfy the hypotheses of the theorems *)
Definition shapeb (g : geom) (l : lower) : bool :=
  Nat.eqb (length (bfs l)) (nn (nbf g (frames l))) && Nat.eqb (length (ents l)) (nn (ntab g (frames l) * THUGE g)) &&
  forallb (fun rows => Nat.eqb (length rows) (rows_nat g) && forallb (fun r => r <? W64) rows) (bfs l).
Example tests_shape : forallb (fun lc => shapeb g0 (fst lc) && call_ok g0 (mk (fst lc) [] []) (snd lc)) tests = true.
Proof. vm_compute. reflexivity. Qed.

Print Assumptions solo_call.
Print Assumptions solo_get.
Print Assumptions solo_get_at.
Print Assumptions solo_put.
Print Assumptions solo_get_inv.
Print Assumptions solo_get_at_inv.
Print Assumptions solo_put_inv.
Print Assumptions LowerInv_Shape.
