(* C08 (first half): invalid arguments are rejected with Err Argument and no side effects.
   `check` is modelled with its checked addition (frames near 2^64 cannot wrap). *)
From Coq Require Import PeanoNat.
From LLF Require Import Base Row Bitfield Lower Spec Upper.

Section Args.
  Variable g : geom.
  Variable policy : N -> N -> N -> pol.

  (* the argument conditions of the property, for a 64-bit frame number *)
  Definition bad_args (u : upper) (frame : N) (r : request) : Prop :=
    (tord g < r_order r)%nat \/
    frames (low u) < frame + pow2 (r_order r) \/
    frame mod pow2 (r_order r) <> 0 \/
    class_locals u (r_class r) = None.

  Lemma check_rejects u frame r : bad_args u frame r -> check g u frame r = Err EArgument.
  Proof.
    unfold bad_args, check. intros H.
    destruct (Nat.leb (r_order r) (tord g)) eqn:Eo; cbn [negb]; [|reflexivity].
    apply Nat.leb_le in Eo.
    destruct ((frame + pow2 (r_order r) <? W64) && (frame + pow2 (r_order r) <=? frames (low u))) eqn:Er; cbn [negb]; [|reflexivity].
    apply andb_prop in Er. destruct Er as [_ Er]. apply N.leb_le in Er.
    destruct (frame mod pow2 (r_order r) =? 0) eqn:Ea; cbn [negb]; [|reflexivity].
    apply N.eqb_eq in Ea.
    destruct (class_locals u (r_class r)) eqn:Ec; [|reflexivity].
    destruct H as [H|[H|[H|H]]]; [lia | lia | congruence | discriminate].
  Qed.

  (* conversely, arguments that are fine pass (so the rejection is exactly the stated conditions),
     for frame numbers that fit a machine word *)
  Lemma check_accepts u frame r : frame + pow2 (r_order r) < W64 -> ~ bad_args u frame r -> check g u frame r = Ok tt.
  Proof.
    unfold bad_args, check. intros Hw H.
    destruct (Nat.leb (r_order r) (tord g)) eqn:Eo; cbn [negb].
    2:{ apply Nat.leb_gt in Eo. exfalso. apply H. left. exact Eo. }
    destruct (frame + pow2 (r_order r) <=? frames (low u)) eqn:Er.
    2:{ apply N.leb_gt in Er. exfalso. apply H. right. left. exact Er. }
    assert (Hlt : (frame + pow2 (r_order r) <? W64) = true) by (apply N.ltb_lt; exact Hw).
    rewrite Hlt. cbn [andb negb].
    destruct (frame mod pow2 (r_order r) =? 0) eqn:Ea; cbn [negb].
    2:{ apply N.eqb_neq in Ea. exfalso. apply H. right. right. left. exact Ea. }
    destruct (class_locals u (r_class r)) eqn:Ec; [reflexivity|].
    exfalso. apply H. right. right. right. reflexivity.
  Qed.

  Theorem put_rejects u frame r : bad_args u frame r -> llfree_put g policy u frame r = (Err EArgument, u).
  Proof. intros H. unfold llfree_put. rewrite (check_rejects u frame r H). reflexivity. Qed.

  Theorem get_at_rejects u frame r : bad_args u frame r -> llfree_get g policy u (Some frame) r = (Err EArgument, u).
  Proof. intros H. unfold llfree_get. rewrite (check_rejects u frame r H). reflexivity. Qed.

  (* an untargeted allocation is checked with frame 0 *)
  Theorem get_rejects u r : bad_args u 0 r -> llfree_get g policy u None r = (Err EArgument, u).
  Proof. intros H. unfold llfree_get. rewrite (check_rejects u 0 r H). reflexivity. Qed.

  (* class ids that do not fit the 3-bit class field (8..255) are never configured *)
  Lemma class_ge8_unconfigured u c : length (locals u) = 8%nat -> 8 <= c -> class_locals u c = None.
  Proof.
    intros Hl Hc. unfold class_locals, class_slots.
    assert (E : nth_error (locals u) (nn c) = None).
    { apply nth_error_None. rewrite Hl. unfold nn. lia. }
    rewrite E. reflexivity.
  Qed.
End Args.
