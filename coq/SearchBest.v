(* L3: trees.rs `Trees::search_best::<N, _>(start, offset, len, rate, access)`: the order in which
   `access` is called.  Definitions only (proofs: SearchBestProofs.v).

   for i in offset..len:
       off  = if i even { i/2 } else { -ceil(i/2) }
       idx  = ((start + ntrees) as isize + off) as usize % ntrees
       tree = entries[idx]; skip if reserved
       match rate(tree.class, tree.free):
           Match(255) => access(idx)            (returns unless Err(Memory))
           Invalid    => skip
           p          => best.add(OrdBy((p, tree.free == TREE_FRAMES), idx))
   for OrdBy(_, idx) in best.iter().rev(): access(idx)   (returns unless Err(Memory))

   `search_order` = the indices `access` is called with, in order, when every call returns
   Err(Memory); the real call sequence is its prefix up to the first other result
   (`try_in_order`). *)
From LLF Require Import Base Sorted.
From Coq Require Import ZArith.

(* lib.rs `enum Policy` (derived Ord: Match(a) < Match(b) for a < b; Match < Demote < Steal < Invalid) *)
Inductive policy := PMatch (n : N) | PDemote | PSteal | PInvalid.

(* position in the derived order; `Match(a)` carries a u8: a <= 255 *)
Definition policy_rank (p : policy) : N :=
  match p with PMatch a => a | PDemote => 256 | PSteal => 257 | PInvalid => 258 end.

(* the key of a candidate: `(Policy, tree.free() == TREE_FRAMES)`, compared lexicographically
   (false < true), the policy represented by its rank *)
Definition skey := (N * bool)%type.
Definition skey_le (a b : skey) : bool :=
  N.ltb (fst a) (fst b) || (N.eqb (fst a) (fst b) && implb (snd a) (snd b)).

(* what `search_best` reads of a tree entry *)
Record tentry := { te_free : N; te_reserved : bool; te_class : N }.

(* ---- the index walk: alternating around `start` ---- *)
Definition walk_off (i : N) : Z :=
  if N.even i then Z.of_N (i / 2) else (- Z.of_N ((i + 1) / 2))%Z.

Definition W64z : Z := 18446744073709551616%Z.   (* 2^64: `cast_unsigned` of a negative isize wraps *)

(* ntrees = entries.len() (> 0, else the code divides by zero); start = start.0, any usize *)
Definition walk_index (ntrees start i : N) : N :=
  Z.to_N (((Z.of_N (start + ntrees) + walk_off i) mod W64z) mod Z.of_N ntrees)%Z.

(* lo, lo+1, ..., hi-1 *)
Definition nrange (lo hi : N) : list N := map N.of_nat (seq (nn lo) (nn hi - nn lo)).

(* the tree indices looked at, in order *)
Definition walk (ntrees start offset len : N) : list N :=
  map (walk_index ntrees start) (nrange offset len).

(* ---- what happens at one index ---- *)
Inductive visit := VSkip | VDirect | VCand (k : skey).

Definition classify (tree_frames : N) (rate : N -> N -> policy) (e : tentry) : visit :=
  if te_reserved e then VSkip
  else match rate (te_class e) (te_free e) with
       | PInvalid => VSkip
       | PMatch a => if N.eqb a 255 then VDirect
                     else VCand (a, N.eqb (te_free e) tree_frames)
       | p => VCand (policy_rank p, N.eqb (te_free e) tree_frames)
       end.

Definition visit_at (tree_frames : N) (rate : N -> N -> policy) (trees : list tentry) (idx : N) : visit :=
  match nth_error trees (nn idx) with
  | None => VSkip                      (* unreachable: idx < ntrees *)
  | Some e => classify tree_frames rate e
  end.

Section SearchBest.
  Variable cap : nat.                          (* the const generic N of search_best *)
  Variable tree_frames : N.                    (* TREE_FRAMES *)
  Variable rate : N -> N -> policy.            (* rate(class, free) *)
  Variable trees : list tentry.

  (* state of the first loop: accesses made so far, candidate buffer (ascending) *)
  Definition search_step (st : list N * list (skey * N)) (idx : N) : list N * list (skey * N) :=
    match visit_at tree_frames rate trees idx with
    | VSkip => st
    | VDirect => (fst st ++ [idx], snd st)
    | VCand k => (fst st, sb_add skey_le cap (snd st) (k, idx))
    end.

  Definition search_order (start offset len : N) : list N :=
    let st := fold_left search_step (walk (N.of_nat (length trees)) start offset len) ([], []) in
    fst st ++ map snd (sb_iter_rev (snd st)).

  (* specification vocabulary: the perfect matches and the candidates met along a walk *)
  Definition walk_direct (w : list N) : list N :=
    filter (fun idx => match visit_at tree_frames rate trees idx with VDirect => true | _ => false end) w.
  Definition walk_cands (w : list N) : list (skey * N) :=
    flat_map (fun idx => match visit_at tree_frames rate trees idx with VCand k => [(k, idx)] | _ => [] end) w.
End SearchBest.

(* the result of search_best for a side-effect-free `access` *)
Fixpoint try_in_order {R} (access : N -> res R) (order : list N) : res R :=
  match order with
  | [] => Err EMemory
  | i :: r => match access i with
              | Err EMemory => try_in_order access r
              | x => x
              end
  end.
