(* Proofs about the trace replayer model (Replay.v): the abstract allocator is the frame-ownership
   specification, the first-fit oracle satisfies the hypothesis on `choose`, and the invariant of the
   repaired replay loop over traces of any length.  Property theorems are restated in Properties/C20.v.

   Invariant (Inv): table keys unique; every tracked entry a |-> (F, K) is aligned (F mod 2^K = 0) and in range
   in frame and in pfn space; the allocator's intervals are non-empty, pairwise disjoint (every frame lies in at
   most one) and below max_pfn; OWNERSHIP: for every frame x, the number of blocks among the tracked entries and
   the orphaned blocks (entries overwritten by a re-allocation or by a part of a split) that contain x equals
   the number of allocator intervals that contain x (0 or 1) - i.e. these blocks are pairwise disjoint and their
   union is exactly the allocated set; the allocated frame count equals the sum of their sizes; no free failed. *)
From LLF Require Import Base Replay.
Require Import ZifyBool PeanoNat.


(* ================= part 1 ================= *)
(* generic additive measure *)
Definition msum {A} (m : A -> N) (l : list A) : N := fold_right (fun a acc => m a + acc) 0 l.
Lemma msum_app {A} (m : A -> N) l1 l2 : msum m (l1 ++ l2) = msum m l1 + msum m l2.
Proof. unfold msum. induction l1; simpl; [reflexivity|]. rewrite IHl1. lia. Qed.
Lemma msum_cons {A} (m : A -> N) a l : msum m (a :: l) = m a + msum m l.
Proof. reflexivity. Qed.
Lemma msum_nil {A} (m : A -> N) : msum m [] = 0.
Proof. reflexivity. Qed.

Definition b2n (b : bool) : N := if b then 1 else 0.
Definition icnt (x : N) (st : astate) : N := msum (fun i => b2n (inI x i)) st.
Definition ne (i : ival) : Prop := fst i < snd i.

Lemma alen_msum st : alen st = msum (fun i => snd i - fst i) st.
Proof. reflexivity. Qed.

Lemma inI_iminus x a b i :
  existsb (inI x) (iminus a b i) = inI x i && negb ((a <=? x) && (x <? b)).
Proof.
  unfold iminus, inI. destruct i as [lo hi]. cbn [fst snd].
  destruct (lo <? N.min hi a) eqn:E1; destruct (N.max lo b <? hi) eqn:E2; cbn [app existsb fst snd]; lia.
Qed.

Lemma existsb_flat_iminus x a b R :
  existsb (inI x) (flat_map (iminus a b) R) = existsb (inI x) R && negb ((a <=? x) && (x <? b)).
Proof.
  induction R as [|i R IH]; cbn [flat_map existsb]; [reflexivity|].
  rewrite existsb_app, inI_iminus, IH. lia.
Qed.

Lemma allocd_aremove st a b x :
  allocd (aremove st a b) x = allocd st x && negb ((a <=? x) && (x <? b)).
Proof. apply existsb_flat_iminus. Qed.

Lemma uncovered_sem x st : forall R,
  existsb (inI x) (uncovered R st) = existsb (inI x) R && negb (allocd st x).
Proof.
  induction st as [|i st IH]; intros R; cbn [uncovered allocd existsb].
  - lia.
  - rewrite IH, existsb_flat_iminus. unfold allocd.
    change (inI x i) with ((fst i <=? x) && (x <? snd i)).
    destruct (existsb (inI x) R), (existsb (inI x) st), ((fst i <=? x) && (x <? snd i)); reflexivity.
Qed.

Lemma ne_iminus a b i : Forall ne (iminus a b i).
Proof.
  unfold iminus, ne. destruct i as [lo hi]. cbn [fst snd].
  destruct (lo <? N.min hi a) eqn:E1; destruct (N.max lo b <? hi) eqn:E2; cbn [app];
    repeat constructor; cbn [fst snd]; lia.
Qed.
Lemma ne_flat a b R : Forall ne (flat_map (iminus a b) R).
Proof. induction R; cbn [flat_map]; [constructor|]. apply Forall_app. split; [apply ne_iminus|assumption]. Qed.
Lemma ne_uncovered st : forall R, Forall ne R -> Forall ne (uncovered R st).
Proof. induction st; intros R H; cbn [uncovered]; [assumption|]. apply IHst, ne_flat. Qed.

Lemma covered_iff st a b : a < b ->
  (covered st a b = true <-> forall x, a <= x < b -> allocd st x = true).
Proof.
  intros Hab. unfold covered. split.
  - intros H x Hx. destruct (uncovered [(a, b)] st) eqn:E; [|discriminate].
    pose proof (uncovered_sem x st [(a, b)]) as S. rewrite E in S. cbn [existsb inI fst snd] in S.
    unfold inI in S. cbn [fst snd] in S. lia.
  - intros H. destruct (uncovered [(a, b)] st) as [|i l] eqn:E; [reflexivity|exfalso].
    assert (Hne : Forall ne (i :: l)).
    { rewrite <- E. apply ne_uncovered. constructor; [unfold ne; cbn; lia|constructor]. }
    inversion Hne as [|? ? Hi _]; subst. unfold ne in Hi.
    pose proof (uncovered_sem (fst i) st [(a, b)]) as S. rewrite E in S.
    cbn [existsb] in S. unfold inI in S at 1 3. cbn [fst snd] in S.
    assert (allocd st (fst i) = true -> False).
    { intros A. rewrite A in S. lia. }
    destruct ((a <=? fst i) && (fst i <? b)) eqn:Q.
    + apply H0. apply H. lia.
    + lia.
Qed.

(* ---------- counting ---------- *)
Lemma icnt_iminus x a b i : a <= b ->
  icnt x (iminus a b i) = b2n (inI x i && negb ((a <=? x) && (x <? b))).
Proof.
  intros Hab. unfold iminus, icnt, inI, b2n. destruct i as [lo hi]. cbn [fst snd].
  destruct (lo <? N.min hi a) eqn:E1; destruct (N.max lo b <? hi) eqn:E2; cbn [app msum fold_right fst snd];
  repeat match goal with |- context [if ?c then _ else _] => destruct c eqn:? end; lia.
Qed.
Lemma icnt_aremove x a b st : a <= b ->
  icnt x (aremove st a b) = if (a <=? x) && (x <? b) then 0 else icnt x st.
Proof.
  intros Hab. unfold aremove. induction st as [|i st IH]; cbn [flat_map].
  - destruct ((a <=? x) && (x <? b)); reflexivity.
  - unfold icnt in *. rewrite msum_app, msum_cons, IH. fold (icnt x (iminus a b i)).
    rewrite icnt_iminus by assumption. unfold b2n.
    destruct ((a <=? x) && (x <? b)); destruct (inI x i); cbn [andb negb]; lia.
Qed.
Lemma icnt_allocd x st : allocd st x = true <-> 1 <= icnt x st.
Proof.
  unfold allocd, icnt. induction st as [|i st IH]; cbn [existsb msum fold_right].
  - split; [discriminate|lia].
  - fold (msum (fun i => b2n (inI x i)) st). unfold b2n at 1. destruct (inI x i); cbn [orb]; [split; [lia|reflexivity]|].
    rewrite IH. lia.
Qed.
Lemma icnt_not_allocd x st : allocd st x = false -> icnt x st = 0.
Proof.
  intros H. destruct (N.eq_dec (icnt x st) 0) as [|n]; [assumption|].
  assert (allocd st x = true) by (apply icnt_allocd; lia). congruence.
Qed.

(* ---------- cardinality: removing a covered block from disjoint intervals ---------- *)
Definition ov (a b : N) (i : ival) : N := N.min (snd i) b - N.max (fst i) a.   (* |i /\ [a,b)| *)
Definition ovs (a b : N) (st : list ival) : N := msum (ov a b) st.

Lemma alen_iminus a b i : a <= b -> alen (iminus a b i) + ov a b i = snd i - fst i.
Proof.
  intros Hab. unfold iminus, ov, alen. destruct i as [lo hi]. cbn [fst snd].
  destruct (lo <? N.min hi a) eqn:E1; destruct (N.max lo b <? hi) eqn:E2; cbn [app fold_right fst snd]; lia.
Qed.
Lemma alen_app l1 l2 : alen (l1 ++ l2) = alen l1 + alen l2.
Proof. rewrite !alen_msum. apply msum_app. Qed.
Lemma alen_flat a b st : a <= b -> alen (flat_map (iminus a b) st) + ovs a b st = alen st.
Proof.
  intros Hab. induction st as [|i st IH]; cbn [flat_map]; [reflexivity|].
  rewrite alen_app. unfold ovs in *. rewrite msum_cons.
  pose proof (alen_iminus a b i Hab). change (alen (i :: st)) with ((snd i - fst i) + alen st). lia.
Qed.

(* an interval [lo', hi') disjoint from the hole [a, b) sees the same overlap before and after *)
Lemma ovs_iminus lo' hi' a b r : a <= b -> (hi' <= a \/ b <= lo') ->
  ovs lo' hi' (iminus a b r) = ov lo' hi' r.
Proof.
  intros Hab Hd. unfold iminus, ovs, ov. destruct r as [lo hi]. cbn [fst snd].
  destruct (lo <? N.min hi a) eqn:E1; destruct (N.max lo b <? hi) eqn:E2; cbn [app msum fold_right fst snd]; lia.
Qed.
Lemma ovs_flat lo' hi' a b R : a <= b -> (hi' <= a \/ b <= lo') ->
  ovs lo' hi' (flat_map (iminus a b) R) = ovs lo' hi' R.
Proof.
  intros Hab Hd. induction R as [|r R IH]; cbn [flat_map]; [reflexivity|].
  unfold ovs in *. rewrite msum_app, msum_cons, IH. f_equal. apply ovs_iminus; assumption.
Qed.

Fixpoint idisj (st : astate) : Prop :=
  match st with
  | [] => True
  | i :: r => fst i < snd i /\ Forall (fun j => snd j <= fst i \/ snd i <= fst j) r /\ idisj r
  end.

Definition tot (R : list ival) (st : astate) : N := msum (fun i => ovs (fst i) (snd i) R) st.

Lemma alen_uncovered st : forall R, idisj st -> alen (uncovered R st) + tot R st = alen R.
Proof.
  induction st as [|i st IH]; intros R Hd; cbn [uncovered].
  - unfold tot. rewrite msum_nil. lia.
  - destruct Hd as (Hi & Hf & Hd). unfold tot. rewrite msum_cons. fold (tot R st).
    specialize (IH (flat_map (iminus (fst i) (snd i)) R) Hd).
    pose proof (alen_flat (fst i) (snd i) R ltac:(lia)) as B.
    assert (E : tot (flat_map (iminus (fst i) (snd i)) R) st = tot R st).
    { clear IH B. unfold tot. induction st as [|j st IHs]; [reflexivity|].
      inversion Hf; subst. destruct Hd as (Hj & Hjf & Hd).
      rewrite !msum_cons. rewrite IHs by assumption. f_equal. apply ovs_flat; lia. }
    rewrite E in IH. lia.
Qed.

Lemma ov_sym a b lo hi : ov lo hi (a, b) = ov a b (lo, hi).
Proof. unfold ov; cbn [fst snd]. lia. Qed.
Lemma tot_single a b st : tot [(a, b)] st = ovs a b st.
Proof.
  unfold tot, ovs. induction st as [|i st IH]; [reflexivity|].
  unfold msum in *. cbn [fold_right] in *. rewrite IH. f_equal.
  destruct i as [lo hi]. cbn [fst snd]. rewrite <- ov_sym. lia.
Qed.

Lemma icnt_in x i st : In i st -> inI x i = true -> 1 <= icnt x st.
Proof.
  intros Hin Hx. apply icnt_allocd. unfold allocd. apply existsb_exists. exists i. split; assumption.
Qed.
Lemma idisj_of_icnt st : (forall x, icnt x st <= 1) -> Forall ne st -> idisj st.
Proof.
  induction st as [|i st IH]; intros Hc Hne; cbn [idisj]; [exact I|].
  inversion Hne as [|? ? Hi Hne']; subst. unfold ne in Hi.
  split; [assumption|]. split.
  - apply Forall_forall. intros j Hj.
    pose proof (proj1 (Forall_forall _ _) Hne' j Hj) as Hjne. unfold ne in Hjne.
    destruct (N.le_gt_cases (snd j) (fst i)) as [|G1]; [left; assumption|].
    destruct (N.le_gt_cases (snd i) (fst j)) as [|G2]; [right; assumption|exfalso].
    set (x := N.max (fst i) (fst j)).
    assert (Hxi : inI x i = true) by (unfold inI, x; lia).
    assert (Hxj : inI x j = true) by (unfold inI, x; lia).
    pose proof (icnt_in x j st Hj Hxj). specialize (Hc x).
    unfold icnt in Hc. rewrite msum_cons in Hc. fold (icnt x st) in Hc. rewrite Hxi in Hc. unfold b2n in Hc. lia.
  - apply IH; [|assumption]. intros x. specialize (Hc x). unfold icnt in *. rewrite msum_cons in Hc. lia.
Qed.

Lemma alen_aremove st a b : a < b -> (forall x, icnt x st <= 1) -> Forall ne st -> covered st a b = true ->
  alen (aremove st a b) + (b - a) = alen st.
Proof.
  intros Hab Hc Hne Hcov. pose proof (idisj_of_icnt st Hc Hne) as Hd.
  pose proof (alen_uncovered st [(a, b)] Hd) as U. unfold covered in Hcov.
  destruct (uncovered [(a, b)] st); [|discriminate].
  rewrite tot_single in U. change (alen []) with 0 in U. change (alen [(a, b)]) with ((b - a) + 0) in U.
  pose proof (alen_flat a b st ltac:(lia)) as B. unfold aremove. lia.
Qed.

(* ================= part 2 ================= *)
(* ---------- the table ---------- *)
Fixpoint tuniq (T : table) : Prop :=
  match T with [] => True | e :: r => tget r (fst e) = None /\ tuniq r end.

Lemma tget_tdel T p q : tget (tdel T p) q = if q =? p then None else tget T q.
Proof.
  induction T as [|e T IH]; cbn [tdel filter tget].
  - destruct (q =? p); reflexivity.
  - fold (tdel T p). destruct (fst e =? p) eqn:E; cbn [negb tget].
    + rewrite IH. destruct (q =? p) eqn:Q; [reflexivity|].
      destruct (fst e =? q) eqn:E2; [lia|reflexivity].
    + rewrite IH. destruct (fst e =? q) eqn:E2; [|reflexivity].
      destruct (q =? p) eqn:Q; [lia|reflexivity].
Qed.
Lemma tget_tset T p b q : tget (tset T p b) q = if q =? p then Some b else tget T q.
Proof.
  unfold tset. cbn [tget fst snd]. rewrite tget_tdel. rewrite (N.eqb_sym p q). destruct (q =? p); reflexivity.
Qed.
Lemma tdel_none T p : tget T p = None -> tdel T p = T.
Proof.
  induction T as [|e T IH]; cbn [tdel filter tget]; [reflexivity|]. fold (tdel T p).
  destruct (fst e =? p); [discriminate|]. cbn [negb]. intros H. rewrite IH by assumption. reflexivity.
Qed.
Lemma tuniq_tdel T p : tuniq T -> tuniq (tdel T p).
Proof.
  induction T as [|e T IH]; cbn [tdel filter tuniq]; [trivial|]. fold (tdel T p).
  intros (H1 & H2). destruct (fst e =? p) eqn:E; cbn [negb tuniq]; [auto|].
  split; [|auto]. rewrite tget_tdel, H1. destruct (fst e =? p); reflexivity.
Qed.
Lemma tuniq_tset T p b : tuniq T -> tuniq (tset T p b).
Proof.
  intros H. unfold tset. cbn [tuniq fst]. split; [|apply tuniq_tdel; assumption].
  rewrite tget_tdel, N.eqb_refl. reflexivity.
Qed.

(* an additive measure of the table before and after deleting a key *)
Lemma msum_tdel (m : block -> N) T p : tuniq T ->
  msum m (map snd (tdel T p)) + match tget T p with Some b => m b | None => 0 end = msum m (map snd T).
Proof.
  induction T as [|e T IH]; cbn [tdel filter tget map tuniq]; [reflexivity|]. fold (tdel T p).
  intros (H1 & H2). destruct (fst e =? p) eqn:E; cbn [negb map].
  - assert (fst e = p) by lia. subst p. rewrite tdel_none by assumption. rewrite msum_cons. lia.
  - rewrite !msum_cons. specialize (IH H2). lia.
Qed.
Lemma msum_tget (m : block -> N) T p b : tget T p = Some b -> m b <= msum m (map snd T).
Proof.
  induction T as [|e T IH]; cbn [tget map]; [discriminate|]. rewrite msum_cons.
  destruct (fst e =? p); intros H; [injection H as <-; lia|]. specialize (IH H). lia.
Qed.

(* ---------- powers of two ---------- *)
Lemma pow2_pos k : 0 < 2 ^ N.of_nat k.
Proof. apply N.neq_0_lt_0, N.pow_nonzero. lia. Qed.
Lemma pow2_split k K : (k <= K)%nat -> 2 ^ N.of_nat K = 2 ^ N.of_nat (K - k) * 2 ^ N.of_nat k.
Proof.
  intros H. rewrite <- N.pow_add_r. f_equal. lia.
Qed.
Lemma mod_pow2_le F k K : (k <= K)%nat -> F mod 2 ^ N.of_nat K = 0 -> F mod 2 ^ N.of_nat k = 0.
Proof.
  intros H HF. pose proof (pow2_pos K). pose proof (pow2_pos k).
  apply N.mod_divide in HF; [|lia]. destruct HF as [c Hc].
  rewrite Hc, (pow2_split k K H), N.mul_assoc. apply N.mod_mul. lia.
Qed.
(* the named part of a free found at search order o: pfn - align_down pfn 2^o = j0 * 2^k *)
Lemma align_down_part pfn k o : (k <= o)%nat -> pfn mod 2 ^ N.of_nat k = 0 ->
  exists j0, align_down pfn (2 ^ N.of_nat o) + j0 * 2 ^ N.of_nat k = pfn /\ j0 < 2 ^ N.of_nat (o - k).
Proof.
  intros H Hp. pose proof (pow2_pos o). pose proof (pow2_pos k). pose proof (pow2_pos (o - k)).
  apply N.mod_divide in Hp; [|lia]. destruct Hp as [c Hc].
  exists (c mod 2 ^ N.of_nat (o - k)). split; [|apply N.mod_lt; lia].
  unfold align_down. rewrite (pow2_split k o H).
  assert (E : pfn mod (2 ^ N.of_nat (o - k) * 2 ^ N.of_nat k) = (c mod 2 ^ N.of_nat (o - k)) * 2 ^ N.of_nat k).
  { rewrite Hc. rewrite N.mul_mod_distr_r by lia. reflexivity. }
  rewrite E. rewrite <- E. pose proof (N.mod_le pfn (2 ^ N.of_nat (o - k) * 2 ^ N.of_nat k) ltac:(lia)). lia.
Qed.

(* ================= part 3 ================= *)
Definition ewf (max_pfn p : N) (b : block) : Prop :=
  fst b mod bsize b = 0 /\ fst b + bsize b <= max_pfn /\ p + bsize b <= max_pfn.
Definition twf (max_pfn : N) (T : table) : Prop := forall p b, tget T p = Some b -> ewf max_pfn p b.
Definition pt (x : N) (b : block) : N := b2n (inb x b).
Definition M (m : block -> N) (st : table * list block) : N := msum m (map snd (fst st)) + msum m (snd st).

Lemma find_loop_some max_pfn T fuel : forall o pfn a,
  find_loop max_pfn (look T) fuel o pfn = Some (Some a) ->
  exists o' b, (o <= o')%nat /\ a = align_down pfn (2 ^ N.of_nat o') /\ tget T a = Some b /\ (o' <= snd b)%nat.
Proof.
  induction fuel as [|fuel IH]; intros o pfn a; cbn [find_loop]; [discriminate|].
  destruct (max_pfn <=? align_down pfn (2 ^ N.of_nat o)); [discriminate|].
  unfold look at 1. destruct (tget T (align_down pfn (2 ^ N.of_nat o))) as [b|] eqn:E.
  - destruct (Nat.leb o (snd b)) eqn:L.
    + intros H. injection H as <-. exists o, b. apply Nat.leb_le in L. repeat split; auto.
    + intros H. destruct (IH _ _ _ H) as (o' & b' & ? & ? & ? & ?). exists o', b'. repeat split; auto. lia.
  - intros H. destruct (IH _ _ _ H) as (o' & b' & ? & ? & ? & ?). exists o', b'. repeat split; auto. lia.
Qed.
Lemma find_loop_no_panic max_pfn lk fuel : forall o pfn, pfn < max_pfn -> find_loop max_pfn lk fuel o pfn <> None.
Proof.
  induction fuel as [|fuel IH]; intros o pfn Hp; cbn [find_loop]; [discriminate|].
  assert (align_down pfn (2 ^ N.of_nat o) <= pfn) by (unfold align_down; apply N.le_sub_l).
  destruct (max_pfn <=? align_down pfn (2 ^ N.of_nat o)) eqn:E; [lia|].
  destruct (lk _) as [K|]; [destruct (Nat.leb o K); [discriminate|]|]; apply IH; assumption.
Qed.

Section Split.
  Variables (max_pfn a F : N) (k : nat) (pfn : N).
  Let s := 2 ^ N.of_nat k.
  Let s_pos : 0 < s. Proof. apply pow2_pos. Qed.

  Fixpoint psum (m : block -> N) (fuel : nat) (j : N) : N :=
    match fuel with
    | O => 0
    | S f => (if pfn =? a + j * s then 0 else m (F + j * s, k)) + psum m f (j + 1)
    end.

  Lemma split_part_M m FK j st st' :
    split_part max_pfn a F k pfn j st = Some st' -> tuniq (fst st) ->
    (j = 0 -> tget (fst st) a = Some FK) ->
    M m st' + (if j =? 0 then m FK else 0) = M m st + (if pfn =? a + j * s then 0 else m (F + j * s, k))
    /\ tuniq (fst st').
  Proof.
    unfold split_part. fold s. destruct (max_pfn <=? a + j * s); [discriminate|].
    intros H Hu H0. injection H as <-. unfold M. cbn [fst snd].
    pose proof (msum_tdel m (fst st) (a + j * s) Hu) as D.
    split.
    - destruct (j =? 0) eqn:J.
      + assert (j = 0) by lia. subst j. specialize (H0 eq_refl).
        replace (a + 0 * s) with a in * by lia. rewrite H0 in *.
        destruct (pfn =? a); [lia|]. unfold tset. cbn [map snd]. rewrite msum_cons. lia.
      + destruct (tget (fst st) (a + j * s)) as [b|];
          (destruct (pfn =? a + j * s); [|unfold tset; cbn [map snd]; rewrite msum_cons]);
          rewrite ?msum_cons; lia.
    - destruct (pfn =? a + j * s); [apply tuniq_tdel|apply tuniq_tset]; assumption.
  Qed.

  Lemma split_loop_M m FK : forall fuel j st st',
    split_loop max_pfn a F k pfn fuel j st = Some st' -> tuniq (fst st) ->
    (j = 0 -> tget (fst st) a = Some FK) ->
    M m st' + (if (j =? 0) && negb (Nat.eqb fuel 0) then m FK else 0) = M m st + psum m fuel j
    /\ tuniq (fst st').
  Proof.
    induction fuel as [|fuel IH]; intros j st st'; cbn [split_loop psum Nat.eqb negb].
    - intros H Hu _. injection H as <-. rewrite andb_false_r. split; [lia|assumption].
    - destruct (split_part max_pfn a F k pfn j st) as [st1|] eqn:E; [|discriminate].
      intros H Hu H0. destruct (split_part_M m FK j st st1 E Hu H0) as (E1 & Hu1).
      destruct (IH (j + 1) st1 st' H Hu1 ltac:(lia)) as (E2 & Hu2).
      replace (j + 1 =? 0) with false in E2 by lia. cbn [andb] in E2. rewrite andb_true_r.
      split; [lia|assumption].
  Qed.

  Lemma mul_s_inj i j : i * s = j * s -> i = j.
  Proof. intros H. apply N.mul_cancel_r in H; [assumption|lia]. Qed.
  Lemma part_eqb j0 j : (a + j0 * s =? a + j * s) = (j0 =? j).
  Proof.
    destruct (j0 =? j) eqn:E.
    - assert (j0 = j) by lia. subst. apply N.eqb_refl.
    - destruct (a + j0 * s =? a + j * s) eqn:E2; [|reflexivity].
      assert (j0 * s = j * s) by lia. apply mul_s_inj in H. lia.
  Qed.

  Lemma psum_size j0 : pfn = a + j0 * s -> forall fuel j,
    psum bsize fuel j + (if (j <=? j0) && (j0 <? j + N.of_nat fuel) then s else 0) = N.of_nat fuel * s.
  Proof.
    intros Hp. induction fuel as [|fuel IH]; intros j; cbn [psum].
    - replace ((j <=? j0) && (j0 <? j + N.of_nat 0)) with false by lia. lia.
    - specialize (IH (j + 1)). rewrite Hp, part_eqb. unfold bsize at 1. cbn [snd]. fold s.
      destruct (j0 =? j) eqn:E.
      + replace ((j + 1 <=? j0) && (j0 <? j + 1 + N.of_nat fuel)) with false in IH by lia.
        replace ((j <=? j0) && (j0 <? j + N.of_nat (S fuel))) with true by lia. lia.
      + replace ((j <=? j0) && (j0 <? j + N.of_nat (S fuel))) with ((j + 1 <=? j0) && (j0 <? j + 1 + N.of_nat fuel)) by lia.
        lia.
  Qed.

  Lemma inb_part x j : inb x (F + j * s, k) = (F + j * s <=? x) && (x <? F + j * s + s).
  Proof. reflexivity. Qed.

  Lemma psum_pt x j0 : pfn = a + j0 * s -> forall fuel j,
    psum (pt x) fuel j + (if (j <=? j0) && (j0 <? j + N.of_nat fuel) then pt x (F + j0 * s, k) else 0)
    = b2n ((F + j * s <=? x) && (x <? F + (j + N.of_nat fuel) * s)).
  Proof.
    intros Hp. induction fuel as [|fuel IH]; intros j; cbn [psum].
    - replace ((j <=? j0) && (j0 <? j + N.of_nat 0)) with false by lia.
      replace ((F + j * s <=? x) && (x <? F + (j + N.of_nat 0) * s)) with false by lia. reflexivity.
    - specialize (IH (j + 1)). rewrite Hp, part_eqb. unfold pt in *. rewrite !inb_part in *.
      destruct (j0 =? j) eqn:E.
      + assert (j0 = j) by lia. subst j0.
        replace ((j + 1 <=? j) && (j <? j + 1 + N.of_nat fuel)) with false in IH by lia.
        replace ((j <=? j) && (j <? j + N.of_nat (S fuel))) with true by lia.
        unfold b2n in *.
        destruct ((F + j * s <=? x) && (x <? F + j * s + s)) eqn:A;
        destruct ((F + (j + 1) * s <=? x) && (x <? F + (j + 1 + N.of_nat fuel) * s)) eqn:B;
        destruct ((F + j * s <=? x) && (x <? F + (j + N.of_nat (S fuel)) * s)) eqn:C; lia.
      + replace ((j <=? j0) && (j0 <? j + N.of_nat (S fuel))) with ((j + 1 <=? j0) && (j0 <? j + 1 + N.of_nat fuel)) by lia.
        unfold b2n in *.
        destruct ((j + 1 <=? j0) && (j0 <? j + 1 + N.of_nat fuel));
        destruct ((F + j0 * s <=? x) && (x <? F + j0 * s + s)) eqn:A0;
        destruct ((F + j * s <=? x) && (x <? F + j * s + s)) eqn:A;
        destruct ((F + (j + 1) * s <=? x) && (x <? F + (j + 1 + N.of_nat fuel) * s)) eqn:B;
        destruct ((F + j * s <=? x) && (x <? F + (j + N.of_nat (S fuel)) * s)) eqn:C; lia.
  Qed.
End Split.

(* ================= part 4 ================= *)
Section Split2.
  Variables (max_pfn a F : N) (k : nat) (pfn : N).
  Let s := 2 ^ N.of_nat k.
  Let s_pos : 0 < s. Proof. apply pow2_pos. Qed.

  Lemma split_part_fst j st st' : split_part max_pfn a F k pfn j st = Some st' ->
    fst st' = if pfn =? a + j * s then tdel (fst st) (a + j * s) else tset (fst st) (a + j * s) (F + j * s, k).
  Proof.
    unfold split_part. fold s. destruct (max_pfn <=? a + j * s); [discriminate|]. intros H. injection H as <-. reflexivity.
  Qed.

  Lemma split_loop_other : forall fuel j st st',
    split_loop max_pfn a F k pfn fuel j st = Some st' ->
    forall q, (forall i, j <= i < j + N.of_nat fuel -> q <> a + i * s) -> tget (fst st') q = tget (fst st) q.
  Proof.
    induction fuel as [|fuel IH]; intros j st st'; cbn [split_loop].
    - intros H. injection H as <-. reflexivity.
    - destruct (split_part max_pfn a F k pfn j st) as [st1|] eqn:E; [|discriminate].
      intros H q Hq. rewrite (IH _ _ _ H q) by (intros i Hi; apply Hq; lia).
      rewrite (split_part_fst _ _ _ E). specialize (Hq j ltac:(lia)).
      destruct (pfn =? a + j * s); [rewrite tget_tdel|rewrite tget_tset];
        (destruct (q =? a + j * s) eqn:Q; [lia|reflexivity]).
  Qed.

  Lemma split_loop_parts : forall fuel j st st',
    split_loop max_pfn a F k pfn fuel j st = Some st' ->
    forall i, j <= i < j + N.of_nat fuel ->
      tget (fst st') (a + i * s) = if pfn =? a + i * s then None else Some (F + i * s, k).
  Proof.
    induction fuel as [|fuel IH]; intros j st st'; cbn [split_loop].
    - intros _ i Hi. lia.
    - destruct (split_part max_pfn a F k pfn j st) as [st1|] eqn:E; [|discriminate].
      intros H i Hi. destruct (N.eq_dec i j) as [->|Hij].
      + rewrite (split_loop_other _ _ _ _ H).
        * rewrite (split_part_fst _ _ _ E).
          destruct (pfn =? a + j * s); [rewrite tget_tdel|rewrite tget_tset]; rewrite N.eqb_refl; reflexivity.
        * intros i Hi' Heq. assert (j * s = i * s) by lia. apply mul_s_inj in H0. lia.
      + apply (IH _ _ _ H). lia.
  Qed.

  Lemma split_loop_twf : forall fuel j st st',
    split_loop max_pfn a F k pfn fuel j st = Some st' -> twf max_pfn (fst st) ->
    (forall i, j <= i < j + N.of_nat fuel -> ewf max_pfn (a + i * s) (F + i * s, k)) -> twf max_pfn (fst st').
  Proof.
    induction fuel as [|fuel IH]; intros j st st'; cbn [split_loop].
    - intros H. injection H as <-. auto.
    - destruct (split_part max_pfn a F k pfn j st) as [st1|] eqn:E; [|discriminate].
      intros H Hw Hp. apply (IH _ _ _ H); [|intros i Hi; apply Hp; lia].
      rewrite (split_part_fst _ _ _ E). intros q b.
      destruct (pfn =? a + j * s); [rewrite tget_tdel|rewrite tget_tset];
        (destruct (q =? a + j * s) eqn:Q; [|apply Hw]); [discriminate|].
      intros Hb. injection Hb as <-. assert (q = a + j * s) by lia. subst q. apply Hp. lia.
  Qed.

  Lemma split_loop_no_panic : forall fuel j st,
    (forall i, j <= i < j + N.of_nat fuel -> a + i * s < max_pfn) ->
    exists st', split_loop max_pfn a F k pfn fuel j st = Some st'.
  Proof.
    induction fuel as [|fuel IH]; intros j st Hp; cbn [split_loop]; [eexists; reflexivity|].
    unfold split_part. fold s. specialize (Hp j ltac:(lia)) as Hj.
    destruct (max_pfn <=? a + j * s) eqn:E; [lia|]. apply IH. intros i Hi. apply Hp. lia.
  Qed.
End Split2.

(* ================= part 5 ================= *)
Lemma part_le i n s : i < n -> i * s + s <= n * s.
Proof. intros H. replace (i * s + s) with ((i + 1) * s) by lia. apply N.mul_le_mono_r. lia. Qed.

Lemma rng_iminus mx a b i : snd i <= mx -> Forall (fun j => snd j <= mx) (iminus a b i).
Proof.
  intros H. unfold iminus. destruct i as [lo hi]. cbn [fst snd] in *.
  destruct (lo <? N.min hi a); destruct (N.max lo b <? hi); cbn [app]; repeat constructor; cbn [snd]; lia.
Qed.
Lemma rng_aremove mx a b st : Forall (fun j => snd j <= mx) st -> Forall (fun j => snd j <= mx) (aremove st a b).
Proof.
  unfold aremove. induction 1; cbn [flat_map]; [constructor|]. apply Forall_app. split; [apply rng_iminus|]; assumption.
Qed.
Lemma alen_le_max mx st : (forall x, icnt x st <= 1) -> Forall ne st -> Forall (fun j => snd j <= mx) st -> alen st <= mx.
Proof.
  intros Hc Hne Hr. pose proof (alen_uncovered st [(0, mx)] (idisj_of_icnt st Hc Hne)) as U.
  rewrite tot_single in U. change (alen [(0, mx)]) with ((mx - 0) + 0) in U.
  assert (ovs 0 mx st = alen st).
  { clear U Hc Hne. unfold ovs. rewrite alen_msum. induction Hr; [reflexivity|]. rewrite !msum_cons, IHHr.
    unfold ov. lia. }
  lia.
Qed.

Section Main.
  Variable max_pfn : N.
  Variable choose : astate -> nat -> option N.
  Hypothesis Hch : choose_ok max_pfn choose.

  Record Inv (s : rstate) : Prop := mkInv {
    I_uniq : tuniq (r_tab s);
    I_twf : twf max_pfn (r_tab s);
    I_cnt1 : forall x, icnt x (r_alloc s) <= 1;
    I_ne : Forall ne (r_alloc s);
    I_rng : Forall (fun j => snd j <= max_pfn) (r_alloc s);
    I_own : forall x, M (pt x) (r_tab s, r_orph s) = icnt x (r_alloc s);
    I_len : alen (r_alloc s) = held s;
    I_failed : r_failed s = 0 }.

  Lemma Inv_init : Inv init.
  Proof.
    constructor; cbn [init r_tab r_alloc r_orph r_failed].
    - exact I.
    - intros q b H. discriminate.
    - intros x. unfold icnt. rewrite msum_nil. lia.
    - constructor.
    - constructor.
    - intros x. reflexivity.
    - reflexivity.
    - reflexivity.
  Qed.

  Lemma held_M s : held s = M bsize (r_tab s, r_orph s).
  Proof. reflexivity. Qed.

  (* ---------- allocation events ---------- *)
  Lemma step_alloc rep s e s' o : Inv s -> ev_ok max_pfn e -> e_alloc e = true ->
    step max_pfn choose rep s e = Some (s', o) ->
    Inv s' /\ exists f, o = OAlloc f (e_order e) /\ choose (r_alloc s) (e_order e) = Some f /\
      r_alloc s' = (f, f + 2 ^ N.of_nat (e_order e)) :: r_alloc s /\
      tget (r_tab s') (e_pfn e) = Some (f, e_order e) /\
      (forall q, q <> e_pfn e -> tget (r_tab s') q = tget (r_tab s) q) /\
      r_unknown s' = r_unknown s.
  Proof.
    intros HI (Hord & Hal & Hrng) Ha. unfold step. rewrite Ha. unfold aget.
    destruct (choose (r_alloc s) (e_order e)) as [f|] eqn:C; [|discriminate].
    destruct (Hch _ _ _ C) as (Cf & Cr & Cfree).
    unfold tab_step. rewrite Ha. cbn [fst snd].
    pose proof (pow2_pos (e_order e)) as Hs. set (sz := 2 ^ N.of_nat (e_order e)) in *.
    destruct (max_pfn <=? e_pfn e) eqn:E; [discriminate|].
    destruct HI as [Hu Hw Hc Hne Hr Hown Hlen Hf].
    pose proof (fun m => msum_tdel m (r_tab s) (e_pfn e) Hu) as D.
    assert (Hnew : forall x, inI x (f, f + sz) = true -> icnt x (r_alloc s) = 0).
    { intros x Hx. apply icnt_not_allocd, Cfree. unfold inI in Hx. cbn [fst snd] in Hx. lia. }
    assert (common : forall T' orph' re,
      T' = tset (r_tab s) (e_pfn e) (f, e_order e) ->
      (forall m, M m (T', orph') = m (f, e_order e) + M m (r_tab s, r_orph s)) ->
      Inv (mkR ((f, f + sz) :: r_alloc s) T' orph' (r_failed s) (r_unknown s) (r_reallocs s + re))).
    { intros T' orph' re -> HM. constructor; cbn [r_tab r_alloc r_orph r_failed].
      - apply tuniq_tset; assumption.
      - intros q b. rewrite tget_tset. destruct (q =? e_pfn e) eqn:Q; [|apply Hw].
        intros Hb. injection Hb as <-. assert (q = e_pfn e) by lia. subst q.
        unfold ewf, bsize. cbn [fst snd]. fold sz. auto.
      - intros x. unfold icnt. rewrite msum_cons. fold (icnt x (r_alloc s)).
        destruct (inI x (f, f + sz)) eqn:X; unfold b2n; [rewrite (Hnew x X); lia|specialize (Hc x); lia].
      - constructor; [unfold ne; cbn [fst snd]; lia|assumption].
      - constructor; [cbn [snd]; lia|assumption].
      - intros x. rewrite HM, Hown. unfold icnt. rewrite msum_cons. reflexivity.
      - rewrite held_M. cbn [r_tab r_orph]. rewrite HM. change (alen ((f, f + sz) :: r_alloc s)) with ((f + sz - f) + alen (r_alloc s)).
        rewrite Hlen, held_M. unfold bsize. cbn [snd]. fold sz. lia.
      - assumption. }
    destruct (tget (r_tab s) (e_pfn e)) as [b|] eqn:G; intros H; injection H as <- <-.
    - split.
      + apply common; [reflexivity|]. intros m. unfold M, tset. cbn [fst snd map]. rewrite !msum_cons.
        specialize (D m). rewrite ?G in D. lia.
      + exists f. cbn [r_alloc r_tab r_unknown]. repeat split; auto.
        * rewrite tget_tset, N.eqb_refl. reflexivity.
        * intros q Hq. rewrite tget_tset. destruct (q =? e_pfn e) eqn:Q; [lia|reflexivity].
    - split.
      + replace (r_reallocs s + 0) with (r_reallocs s + 0) by reflexivity.
        apply common; [reflexivity|]. intros m. unfold M, tset. cbn [fst snd map]. rewrite !msum_cons.
        specialize (D m). rewrite ?G in D. lia.
      + exists f. cbn [r_alloc r_tab r_unknown]. repeat split; auto.
        * rewrite tget_tset, N.eqb_refl. reflexivity.
        * intros q Hq. rewrite tget_tset. destruct (q =? e_pfn e) eqn:Q; [lia|reflexivity].
  Qed.

  (* ---------- free events ---------- *)
  Lemma step_unknown rep s e : e_alloc e = false ->
    find_alloc max_pfn (look (r_tab s)) (e_pfn e) (e_order e) = Some None ->
    step max_pfn choose rep s e =
      Some (mkR (r_alloc s) (r_tab s) (r_orph s) (r_failed s) (r_unknown s + 1) (r_reallocs s), OUnknown).
  Proof. intros Ha Hf. unfold step, tab_step. rewrite Ha. cbn [fst snd]. rewrite Hf. reflexivity. Qed.

  Lemma find_alloc_found T e a F K : ev_ok max_pfn e ->
    find_alloc max_pfn (look T) (e_pfn e) (e_order e) = Some (Some a) -> tget T a = Some (F, K) ->
    (e_order e <= K)%nat /\ exists j0, a + j0 * 2 ^ N.of_nat (e_order e) = e_pfn e /\ j0 < 2 ^ N.of_nat (K - e_order e).
  Proof.
    intros (Hord & Hal & Hrng) Hf Hg. unfold find_alloc in Hf.
    destruct (find_loop_some _ _ _ _ _ _ Hf) as (o & b & Ho & Ea & Hb & HoK).
    rewrite Hg in Hb. injection Hb as <-. cbn [snd] in HoK. split; [lia|].
    destruct (align_down_part (e_pfn e) (e_order e) o Ho Hal) as (j0 & E1 & E2).
    exists j0. rewrite Ea. split; [assumption|].
    eapply N.lt_le_trans; [eassumption|]. apply N.pow_le_mono_r; lia.
  Qed.

  Lemma step_free s e a F K : Inv s -> ev_ok max_pfn e -> e_alloc e = false ->
    find_alloc max_pfn (look (r_tab s)) (e_pfn e) (e_order e) = Some (Some a) -> tget (r_tab s) a = Some (F, K) ->
    let k := e_order e in let sz := 2 ^ N.of_nat k in let f := F + (e_pfn e - a) in
    exists s', step max_pfn choose true s e = Some (s', OPut f k true) /\ Inv s' /\
      (k <= K)%nat /\ a <= e_pfn e /\ e_pfn e + sz <= a + 2 ^ N.of_nat K /\
      f mod sz = 0 /\ f + sz <= F + 2 ^ N.of_nat K /\
      (forall x, f <= x < f + sz -> allocd (r_alloc s) x = true) /\
      r_alloc s' = aremove (r_alloc s) f (f + sz) /\
      alen (r_alloc s') + sz = alen (r_alloc s) /\
      tget (r_tab s') (e_pfn e) = None /\
      (forall j, j < 2 ^ N.of_nat (K - k) -> a + j * sz <> e_pfn e -> tget (r_tab s') (a + j * sz) = Some (F + j * sz, k)) /\
      (forall q, (forall j, j < 2 ^ N.of_nat (K - k) -> q <> a + j * sz) -> tget (r_tab s') q = tget (r_tab s) q) /\
      r_unknown s' = r_unknown s /\ r_reallocs s' = r_reallocs s.
  Proof.
    intros HI Hev Ha Hf Hg k sz f.
    destruct (find_alloc_found _ _ _ _ _ Hev Hf Hg) as (HkK & j0 & Ej0 & Hj0). fold k sz in Ej0, Hj0.
    destruct HI as [Hu Hw Hc Hne Hr Hown Hlen Hfl].
    destruct (Hw _ _ Hg) as (WF1 & WF2 & WF3). unfold bsize in WF1, WF2, WF3. cbn [fst snd] in WF1, WF2, WF3.
    pose proof (pow2_pos k) as Hs. fold sz in Hs.
    pose proof (pow2_pos (K - k)) as Hn. set (n := 2 ^ N.of_nat (K - k)) in *.
    assert (HK : 2 ^ N.of_nat K = n * sz) by (apply pow2_split; assumption).
    rewrite HK in *.
    assert (Hparts : forall i, i < n -> i * sz + sz <= n * sz) by (intros; apply part_le; assumption).
    assert (Ef : f = F + j0 * sz) by (unfold f; lia).
    assert (HFs : F mod sz = 0).
    { apply (mod_pow2_le F k K HkK). rewrite (pow2_split k K HkK). exact WF1. }
    (* the split loop does not panic *)
    destruct (split_loop_no_panic max_pfn a F k (e_pfn e) (N.to_nat n) 0 (r_tab s, r_orph s)) as (st' & Hsl).
    { intros i Hi. fold sz. specialize (Hparts i ltac:(lia)). lia. }
    assert (Hfuel : N.to_nat n <> 0%nat) by lia.
    (* sums *)
    pose proof (fun m => split_loop_M max_pfn a F k (e_pfn e) m (F, K) _ _ _ _ Hsl Hu (fun _ => Hg)) as HM.
    assert (Hnz : (0 =? 0) && negb (Nat.eqb (N.to_nat n) 0) = true).
    { destruct (N.to_nat n); [congruence|reflexivity]. }
    assert (Hsize : M bsize st' + sz = M bsize (r_tab s, r_orph s)).
    { destruct (HM bsize) as (E & _). rewrite Hnz in E.
      pose proof (psum_size a F k (e_pfn e) j0 (eq_sym Ej0) (N.to_nat n) 0) as P. fold sz in P.
      rewrite N2Nat.id in P. replace ((0 <=? j0) && (j0 <? 0 + n)) with true in P by lia.
      unfold bsize in E at 2. cbn [snd] in E. rewrite HK in E. lia. }
    assert (Hpt : forall x, M (pt x) st' + pt x (F + j0 * sz, k) = M (pt x) (r_tab s, r_orph s)).
    { intros x. destruct (HM (pt x)) as (E & _). rewrite Hnz in E.
      pose proof (psum_pt a F k (e_pfn e) x j0 (eq_sym Ej0) (N.to_nat n) 0) as P. fold sz in P.
      rewrite N2Nat.id in P. replace ((0 <=? j0) && (j0 <? 0 + n)) with true in P by lia.
      assert (pt x (F, K) = b2n ((F + 0 * sz <=? x) && (x <? F + (0 + n) * sz))).
      { unfold pt, inb, bsize. cbn [fst snd]. rewrite HK. f_equal. lia. }
      lia. }
    destruct (HM bsize) as (_ & Hu').
    (* the put *)
    assert (Hcovx : forall x, f <= x < f + sz -> allocd (r_alloc s) x = true).
    { intros x Hx. apply icnt_allocd. rewrite <- Hown.
      pose proof (msum_tget (pt x) _ _ _ Hg) as L. unfold M. cbn [fst snd].
      assert (pt x (F, K) = 1).
      { unfold pt, inb, bsize, b2n. cbn [fst snd]. rewrite HK. specialize (Hparts j0 Hj0).
        replace ((F <=? x) && (x <? F + n * sz)) with true by lia. reflexivity. }
      lia. }
    assert (Hcov : covered (r_alloc s) f (f + sz) = true) by (apply covered_iff; [lia|assumption]).
    assert (Hfa : f mod sz = 0).
    { rewrite Ef. rewrite N.mod_add by lia. assumption. }
    specialize (Hparts j0 Hj0) as Hp0.
    exists (mkR (aremove (r_alloc s) f (f + sz)) (fst st') (snd st') (r_failed s) (r_unknown s) (r_reallocs s)).
    split.
    { unfold step, tab_step. rewrite Ha. cbn [fst snd]. rewrite Hf, Hg.
      replace (Nat.ltb K (e_order e)) with false by (symmetry; apply Nat.ltb_ge; assumption).
      fold k. fold n. rewrite Hsl. unfold aput. fold sz. fold f. rewrite Hcov.
      replace ((f mod sz =? 0) && (f + sz <=? max_pfn)) with true by lia. reflexivity. }
    split.
    { constructor; cbn [r_tab r_alloc r_orph r_failed].
      - assumption.
      - eapply split_loop_twf; [exact Hsl|exact Hw|]. intros i Hi. fold sz. rewrite N2Nat.id in Hi.
        specialize (Hparts i ltac:(lia)). unfold ewf, bsize. cbn [fst snd]. fold k sz.
        repeat split; [rewrite N.mod_add by lia; assumption|lia|lia].
      - intros x. rewrite icnt_aremove by lia. specialize (Hc x). destruct ((f <=? x) && (x <? f + sz)); lia.
      - apply ne_flat.
      - apply rng_aremove; assumption.
      - intros x. rewrite icnt_aremove by lia. specialize (Hpt x). specialize (Hc x). specialize (Hown x).
        replace (fst st', snd st') with st' by (destruct st'; reflexivity).
        unfold pt at 2 in Hpt. unfold inb, bsize in Hpt. cbn [fst snd] in Hpt. fold k sz in Hpt. rewrite <- Ef in Hpt.
        destruct ((f <=? x) && (x <? f + sz)) eqn:Q.
        + assert (1 <= icnt x (r_alloc s)) by (apply icnt_allocd, Hcovx; lia).
          unfold b2n in Hpt. lia.
        + unfold b2n in Hpt. lia.
      - rewrite held_M. cbn [r_tab r_orph]. replace (fst st', snd st') with st' by (destruct st'; reflexivity).
        pose proof (alen_aremove (r_alloc s) f (f + sz) ltac:(lia) Hc Hne Hcov). rewrite held_M in Hlen. lia.
      - assumption. }
    cbn [r_alloc r_tab r_unknown r_reallocs].
    repeat split; try assumption; try lia.
    - pose proof (alen_aremove (r_alloc s) f (f + sz) ltac:(lia) Hc Hne Hcov). lia.
    - pose proof (split_loop_parts max_pfn a F k (e_pfn e) _ _ _ _ Hsl j0 ltac:(lia)) as P. fold sz in P.
      rewrite Ej0 in P. rewrite N.eqb_refl in P. assumption.
    - intros j Hj Hne'. pose proof (split_loop_parts max_pfn a F k (e_pfn e) _ _ _ _ Hsl j ltac:(lia)) as P. fold sz in P.
      destruct (e_pfn e =? a + j * sz) eqn:Q; [lia|assumption].
    - intros q Hq. apply (split_loop_other max_pfn a F k (e_pfn e) _ _ _ _ Hsl). intros i Hi. fold sz. apply Hq. lia.
  Qed.
End Main.

(* ================= part 6 ================= *)
(* ---------- the table bookkeeping does not depend on the frames: simulation with the trace spec ---------- *)
Definition proj (T : table) : list (N * nat) := map (fun e => (fst e, snd (snd e))) T.
Definition osim (o1 o2 : list block) : Prop := map snd o1 = map snd o2.
Definition bsim (x y : option block) : Prop :=
  match x, y with Some b1, Some b2 => snd b1 = snd b2 | None, None => True | _, _ => False end.

Lemma tget_sim T1 : forall T2 p, proj T1 = proj T2 -> bsim (tget T1 p) (tget T2 p).
Proof.
  induction T1 as [|[p1 [f1 k1]] T1 IH]; intros [|[p2 [f2 k2]] T2] p H; try discriminate; cbn [tget bsim]; [exact I|].
  cbn [proj map fst snd] in H. injection H as H1 H2 H3. subst p2 k2. cbn [fst snd].
  destruct (p1 =? p); [cbn [bsim]; reflexivity|]. apply IH. assumption.
Qed.
Lemma look_sim T1 T2 a : proj T1 = proj T2 -> look T1 a = look T2 a.
Proof.
  intros H. pose proof (tget_sim T1 T2 a H) as S. unfold look.
  destruct (tget T1 a), (tget T2 a); cbn [bsim] in S; try contradiction; congruence.
Qed.
Lemma proj_tdel T1 : forall T2 p, proj T1 = proj T2 -> proj (tdel T1 p) = proj (tdel T2 p).
Proof.
  induction T1 as [|[p1 [f1 k1]] T1 IH]; intros [|[p2 [f2 k2]] T2] p H; try discriminate; [reflexivity|].
  cbn [proj map fst snd] in H. injection H as H1 H2 H3. subst p2 k2. cbn [tdel filter fst snd].
  fold (tdel T1 p) (tdel T2 p). destruct (p1 =? p); cbn [negb].
  - apply IH. assumption.
  - cbn [proj map fst snd]. f_equal. apply IH. assumption.
Qed.
Lemma proj_tset T1 T2 p f1 f2 k : proj T1 = proj T2 -> proj (tset T1 p (f1, k)) = proj (tset T2 p (f2, k)).
Proof. intros H. unfold tset. cbn [proj map fst snd]. f_equal. apply proj_tdel. assumption. Qed.

Lemma find_loop_ext max_pfn lk1 lk2 : (forall a, lk1 a = lk2 a) -> forall fuel o pfn,
  find_loop max_pfn lk1 fuel o pfn = find_loop max_pfn lk2 fuel o pfn.
Proof.
  intros H. induction fuel as [|fuel IH]; intros o pfn; cbn [find_loop]; [reflexivity|].
  rewrite H. destruct (max_pfn <=? _); [reflexivity|].
  destruct (lk2 _); [destruct (Nat.leb o n); [reflexivity|]|]; apply IH.
Qed.

Definition stsim (x y : option (table * list block)) : Prop :=
  match x, y with
  | Some s1, Some s2 => proj (fst s1) = proj (fst s2) /\ osim (snd s1) (snd s2)
  | None, None => True
  | _, _ => False
  end.

Lemma split_part_sim max_pfn a F1 F2 k pfn j st1 st2 :
  proj (fst st1) = proj (fst st2) -> osim (snd st1) (snd st2) ->
  stsim (split_part max_pfn a F1 k pfn j st1) (split_part max_pfn a F2 k pfn j st2).
Proof.
  intros HT Ho. unfold split_part. destruct (max_pfn <=? a + j * 2 ^ N.of_nat k); [exact I|].
  cbn [stsim fst snd]. split.
  - destruct (pfn =? a + j * 2 ^ N.of_nat k); [apply proj_tdel|apply proj_tset]; assumption.
  - pose proof (tget_sim _ _ (a + j * 2 ^ N.of_nat k) HT) as S.
    destruct (tget (fst st1) _), (tget (fst st2) _); cbn [bsim] in S; try contradiction; [|assumption].
    destruct (j =? 0); [assumption|]. unfold osim in *. cbn [map]. congruence.
Qed.
Lemma split_loop_sim max_pfn a F1 F2 k pfn : forall fuel j st1 st2,
  proj (fst st1) = proj (fst st2) -> osim (snd st1) (snd st2) ->
  stsim (split_loop max_pfn a F1 k pfn fuel j st1) (split_loop max_pfn a F2 k pfn fuel j st2).
Proof.
  induction fuel as [|fuel IH]; intros j st1 st2 HT Ho; cbn [split_loop]; [cbn [stsim]; auto|].
  pose proof (split_part_sim max_pfn a F1 F2 k pfn j st1 st2 HT Ho) as S.
  destruct (split_part max_pfn a F1 k pfn j st1) as [s1|], (split_part max_pfn a F2 k pfn j st2) as [s2|];
    cbn [stsim] in S; try contradiction; [|exact I].
  destruct S. apply IH; assumption.
Qed.

Definition obsim (x y : tobs) : Prop :=
  match x, y with
  | TAlloc r1, TAlloc r2 => r1 = r2
  | TUnknown, TUnknown => True
  | TFree a1 _ K1, TFree a2 _ K2 => a1 = a2 /\ K1 = K2
  | _, _ => False
  end.
Definition tssim (x y : option (table * list block * tobs)) : Prop :=
  match x, y with
  | Some (T1, o1, b1), Some (T2, o2, b2) => proj T1 = proj T2 /\ osim o1 o2 /\ obsim b1 b2
  | None, None => True
  | _, _ => False
  end.

Lemma tab_step_sim max_pfn st1 st2 e f1 f2 :
  proj (fst st1) = proj (fst st2) -> osim (snd st1) (snd st2) ->
  tssim (tab_step max_pfn st1 e f1) (tab_step max_pfn st2 e f2).
Proof.
  intros HT Ho. unfold tab_step. destruct (e_alloc e).
  - destruct (max_pfn <=? e_pfn e); [exact I|].
    pose proof (tget_sim _ _ (e_pfn e) HT) as S.
    destruct (tget (fst st1) _), (tget (fst st2) _); cbn [bsim] in S; try contradiction; cbn [tssim].
    + repeat split; [apply proj_tset; assumption|unfold osim in *; cbn [map]; congruence].
    + repeat split; [apply proj_tset; assumption|assumption].
  - unfold find_alloc. rewrite (find_loop_ext max_pfn _ _ (fun a => look_sim _ _ a HT)).
    destruct (find_loop max_pfn (look (fst st2)) _ _ _) as [[a|]|]; [| cbn [tssim obsim]; auto | exact I].
    pose proof (tget_sim _ _ a HT) as S.
    destruct (tget (fst st1) a) as [[G1 K1]|], (tget (fst st2) a) as [[G2 K2]|]; cbn [bsim snd] in S; try contradiction; [|exact I].
    subst K2. destruct (Nat.ltb K1 (e_order e)); [exact I|].
    pose proof (split_loop_sim max_pfn a G1 G2 (e_order e) (e_pfn e) (N.to_nat (2 ^ N.of_nat (K1 - e_order e))) 0 st1 st2 HT Ho) as L.
    destruct (split_loop max_pfn a G1 _ _ _ _ st1) as [s1|], (split_loop max_pfn a G2 _ _ _ _ st2) as [s2|];
      cbn [stsim] in L; try contradiction; [|exact I].
    destruct L. cbn [tssim obsim]. auto.
Qed.

Lemma msum_proj T1 T2 : proj T1 = proj T2 -> tsum T1 = tsum T2.
Proof.
  revert T2. induction T1 as [|[p1 [f1 k1]] T1 IH]; intros [|[p2 [f2 k2]] T2] H; try discriminate; [reflexivity|].
  cbn [proj map fst snd] in H. injection H as H1 H2 H3. subst p2 k2. unfold tsum in *. cbn [map bsum fold_right snd].
  fold (bsum (map snd T1)) (bsum (map snd T2)). rewrite (IH T2 H3). reflexivity.
Qed.
Lemma bsum_osim o1 o2 : osim o1 o2 -> bsum o1 = bsum o2.
Proof.
  unfold osim. revert o2. induction o1 as [|[f1 k1] o1 IH]; intros [|[f2 k2] o2] H; try discriminate; [reflexivity|].
  cbn [map snd] in H. injection H as H1 H2. subst k2. cbn [bsum fold_right]. fold (bsum o1) (bsum o2).
  rewrite (IH o2 H2). reflexivity.
Qed.

Record Sim (s : rstate) (t : sstate) : Prop := mkSim {
  S_tab : proj (r_tab s) = proj (s_tab t);
  S_orph : osim (r_orph s) (s_orph t);
  S_unknown : r_unknown s = s_unknown t;
  S_reallocs : r_reallocs s = s_reallocs t }.

Lemma step_sim max_pfn choose rep s t e s' o : Sim s t -> step max_pfn choose rep s e = Some (s', o) ->
  exists t', spec_step max_pfn t e = Some t' /\ Sim s' t'.
Proof.
  intros [HT Ho Hu Hr]. unfold step, spec_step.
  destruct (e_alloc e) eqn:Ha.
  - destruct (aget choose (r_alloc s) (e_order e)) as [[f st']|]; [|discriminate].
    pose proof (tab_step_sim max_pfn (r_tab s, r_orph s) (s_tab t, s_orph t) e f (e_pfn e) HT Ho) as S.
    destruct (tab_step max_pfn (r_tab s, r_orph s) e f) as [[[T1 o1] b1]|]; [|discriminate].
    destruct (tab_step max_pfn (s_tab t, s_orph t) e (e_pfn e)) as [[[T2 o2] b2]|]; cbn [tssim] in S; [|contradiction].
    destruct S as (S1 & S2 & S3). destruct b1; try discriminate.
    destruct b2; cbn [obsim] in S3; try contradiction. subst re0.
    intros H. injection H as <- <-. eexists. split; [reflexivity|]. constructor; cbn [r_tab r_orph r_unknown r_reallocs s_tab s_orph s_unknown s_reallocs]; solve [assumption|congruence].
  - pose proof (tab_step_sim max_pfn (r_tab s, r_orph s) (s_tab t, s_orph t) e 0 (e_pfn e) HT Ho) as S.
    destruct (tab_step max_pfn (r_tab s, r_orph s) e 0) as [[[T1 o1] b1]|]; [|discriminate].
    destruct (tab_step max_pfn (s_tab t, s_orph t) e (e_pfn e)) as [[[T2 o2] b2]|]; cbn [tssim] in S; [|contradiction].
    destruct S as (S1 & S2 & S3). destruct b1; try discriminate; destruct b2; cbn [obsim] in S3; try contradiction.
    + intros H. injection H as <- <-. eexists. split; [reflexivity|]. constructor; cbn [r_tab r_orph r_unknown r_reallocs s_tab s_orph s_unknown s_reallocs]; solve [assumption|congruence].
    + destruct (aput max_pfn (r_alloc s) _ (e_order e)); intros H; injection H as <- <-;
        (eexists; split; [reflexivity|]; constructor; cbn [r_tab r_orph r_unknown r_reallocs s_tab s_orph s_unknown s_reallocs]; solve [assumption|congruence]).
Qed.

Lemma run_sim max_pfn choose rep : forall evs s t s', Sim s t -> run max_pfn choose rep s evs = Some s' ->
  exists t', spec_run max_pfn t evs = Some t' /\ Sim s' t'.
Proof.
  induction evs as [|e evs IH]; intros s t s' HS; cbn [run spec_run].
  - intros H. injection H as <-. eauto.
  - destruct (step max_pfn choose rep s e) as [[s1 o]|] eqn:E; [|discriminate].
    destruct (step_sim _ _ _ _ _ _ _ _ HS E) as (t1 & E1 & HS1). rewrite E1. apply IH. assumption.
Qed.

(* ================= part 7 ================= *)
Lemma ev_okb_ok max_pfn e : ev_okb max_pfn e = true -> ev_ok max_pfn e.
Proof.
  unfold ev_okb, ev_ok. intros H. apply andb_prop in H. destruct H as (H & H3). apply andb_prop in H. destruct H as (H1 & H2).
  apply Nat.leb_le in H1. repeat split; [assumption|lia|lia].
Qed.

Lemma pt_exists x l : 1 <= msum (pt x) l <-> exists b, In b l /\ inb x b = true.
Proof.
  induction l as [|b l IH]; [rewrite msum_nil; split; [lia|intros (b & [] & _)]|].
  rewrite msum_cons. unfold pt at 1, b2n. destruct (inb x b) eqn:E.
  - split; [intros _; exists b; split; [left; reflexivity|assumption]|lia].
  - split.
    + intros H. destruct (proj1 IH ltac:(lia)) as (b' & Hin & Hb). exists b'. split; [right|]; assumption.
    + intros (b' & [<-|Hin] & Hb); [congruence|]. assert (1 <= msum (pt x) l) by (apply IH; eauto). lia.
Qed.
Lemma pt_filter x l : msum (pt x) l = N.of_nat (length (filter (inb x) l)).
Proof.
  induction l as [|b l IH]; [reflexivity|]. rewrite msum_cons, IH. cbn [filter]. unfold pt, b2n.
  destruct (inb x b); cbn [length]; lia.
Qed.

Section Final.
  Variable max_pfn : N.
  Variable choose : astate -> nat -> option N.
  Hypothesis Hch : choose_ok max_pfn choose.

  Lemma ev_ok_lt e : ev_ok max_pfn e -> e_pfn e < max_pfn.
  Proof. intros (_ & _ & H). pose proof (pow2_pos (e_order e)). lia. Qed.

  Lemma free_cases s e : Inv max_pfn s -> ev_ok max_pfn e ->
    find_alloc max_pfn (look (r_tab s)) (e_pfn e) (e_order e) = Some None \/
    exists a F K, find_alloc max_pfn (look (r_tab s)) (e_pfn e) (e_order e) = Some (Some a) /\ tget (r_tab s) a = Some (F, K).
  Proof.
    intros HI Hev. destruct (find_alloc max_pfn (look (r_tab s)) (e_pfn e) (e_order e)) as [[a|]|] eqn:Hf.
    - right. unfold find_alloc in Hf. destruct (find_loop_some _ _ _ _ _ _ Hf) as (o & [F K] & _ & _ & Hb & _). eauto.
    - left. reflexivity.
    - exfalso. unfold find_alloc in Hf. revert Hf. apply find_loop_no_panic. apply ev_ok_lt; assumption.
  Qed.

  Lemma step_Inv s e s' o : Inv max_pfn s -> ev_ok max_pfn e ->
    step max_pfn choose true s e = Some (s', o) -> Inv max_pfn s'.
  Proof.
    intros HI Hev H. destruct (e_alloc e) eqn:Ha.
    - exact (proj1 (step_alloc max_pfn choose Hch true s e s' o HI Hev Ha H)).
    - destruct (free_cases s e HI Hev) as [Hf|(a & F & K & Hf & Hg)].
      + rewrite (step_unknown max_pfn choose true s e Ha Hf) in H. injection H as <- <-.
        destruct HI. constructor; cbn [r_tab r_alloc r_orph r_failed]; assumption.
      + destruct (step_free max_pfn choose s e a F K HI Hev Ha Hf Hg) as (s'' & Hs & HI' & _).
        rewrite Hs in H. injection H as <- <-. assumption.
  Qed.

  Lemma run_Inv : forall evs s s', Inv max_pfn s -> Forall (ev_ok max_pfn) evs ->
    run max_pfn choose true s evs = Some s' -> Inv max_pfn s'.
  Proof.
    induction evs as [|e evs IH]; intros s s' HI Hev; cbn [run].
    - intros H. injection H as <-. assumption.
    - inversion Hev; subst. destruct (step max_pfn choose true s e) as [[s1 o]|] eqn:E; [|discriminate].
      apply IH; [eapply step_Inv; eassumption|assumption].
  Qed.

  Lemma free_never_panics pre s e : Forall (ev_ok max_pfn) pre -> replay max_pfn choose pre = Some s ->
    ev_ok max_pfn e -> e_alloc e = false -> exists s' o, replay_step max_pfn choose s e = Some (s', o).
  Proof.
    intros Hpre Hrun Hev Ha. pose proof (run_Inv pre init s (Inv_init max_pfn) Hpre Hrun) as HI.
    destruct (free_cases s e HI Hev) as [Hf|(a & F & K & Hf & Hg)].
    - unfold replay_step. rewrite (step_unknown max_pfn choose true s e Ha Hf). eauto.
    - destruct (step_free max_pfn choose s e a F K HI Hev Ha Hf Hg) as (s'' & Hs & _). unfold replay_step. eauto.
  Qed.

  Lemma frees_traced_block pre s e : Forall (ev_ok max_pfn) pre -> replay max_pfn choose pre = Some s ->
    ev_ok max_pfn e -> e_alloc e = false ->
    forall a F K, find_alloc max_pfn (look (r_tab s)) (e_pfn e) (e_order e) = Some (Some a) ->
      tget (r_tab s) a = Some (F, K) ->
      let k := e_order e in let sz := 2 ^ N.of_nat k in let f := F + (e_pfn e - a) in
      exists s',
        replay_step max_pfn choose s e = Some (s', OPut f k true) /\
        (k <= K)%nat /\ a <= e_pfn e /\ e_pfn e + sz <= a + 2 ^ N.of_nat K /\
        (forall x, f <= x < f + sz -> allocd (r_alloc s) x = true) /\
        (forall x, allocd (r_alloc s') x = allocd (r_alloc s) x && negb ((f <=? x) && (x <? f + sz))) /\
        free_frames max_pfn (r_alloc s') = free_frames max_pfn (r_alloc s) + sz /\
        tget (r_tab s') (e_pfn e) = None /\
        (forall j, j < 2 ^ N.of_nat (K - k) -> a + j * sz <> e_pfn e ->
                   tget (r_tab s') (a + j * sz) = Some (F + j * sz, k)) /\
        (forall q, (forall j, j < 2 ^ N.of_nat (K - k) -> q <> a + j * sz) -> tget (r_tab s') q = tget (r_tab s) q) /\
        r_failed s' = 0 /\ r_unknown s' = r_unknown s /\ r_reallocs s' = r_reallocs s.
  Proof.
    intros Hpre Hrun Hev Ha a F K Hf Hg k sz f.
    pose proof (run_Inv pre init s (Inv_init max_pfn) Hpre Hrun) as HI.
    destruct (step_free max_pfn choose s e a F K HI Hev Ha Hf Hg)
      as (s' & Hs & HI' & H1 & H2 & H3 & H4 & H5 & H6 & H7 & H8 & H9 & H10 & H11 & H12 & H13).
    fold k sz f in Hs, H1, H2, H3, H4, H5, H6, H7, H8, H9, H10, H11.
    exists s'. repeat split; try assumption.
    - intros x. rewrite H7. apply allocd_aremove.
    - unfold free_frames. destruct HI as [_ _ Hc Hne Hr _ _ _].
      pose proof (alen_le_max max_pfn (r_alloc s) Hc Hne Hr). lia.
    - apply (I_failed _ _ HI').
  Qed.

  Lemma unknown_free_changes_nothing s e : e_alloc e = false ->
    find_alloc max_pfn (look (r_tab s)) (e_pfn e) (e_order e) = Some None ->
    exists s', replay_step max_pfn choose s e = Some (s', OUnknown) /\
      r_alloc s' = r_alloc s /\ r_tab s' = r_tab s /\ r_orph s' = r_orph s /\
      r_failed s' = r_failed s /\ r_unknown s' = r_unknown s + 1 /\ r_reallocs s' = r_reallocs s.
  Proof.
    intros Ha Hf. unfold replay_step. rewrite (step_unknown max_pfn choose true s e Ha Hf).
    eexists. split; [reflexivity|]. cbn. repeat split.
  Qed.

  Lemma final_count evs s : Forall (ev_ok max_pfn) evs -> replay max_pfn choose evs = Some s ->
    exists t, trace_spec max_pfn evs = Some t /\
      let tracked := tsum (s_tab t) in let orphaned := bsum (s_orph t) in
      trace_held max_pfn evs = Some (tracked + orphaned) /\
      tracked + orphaned <= max_pfn /\
      free_frames max_pfn (r_alloc s) = max_pfn - (tracked + orphaned) /\
      r_failed s = 0 /\ r_unknown s = s_unknown t /\ r_reallocs s = s_reallocs t /\
      tsum (r_tab s) = tracked /\ bsum (r_orph s) = orphaned /\
      (forall x, allocd (r_alloc s) x = true <->
                 exists b, In b (map snd (r_tab s) ++ r_orph s) /\ inb x b = true) /\
      (forall x, (length (filter (inb x) (map snd (r_tab s) ++ r_orph s)) <= 1)%nat).
  Proof.
    intros Hev Hrun. pose proof (run_Inv evs init s (Inv_init max_pfn) Hev Hrun) as HI.
    destruct (run_sim max_pfn choose true evs init (mkS [] [] 0 0) s) as (t & Ht & HS);
      [constructor; reflexivity|exact Hrun|].
    exists t. split; [exact Ht|]. intros tracked orphaned.
    destruct HS as [S1 S2 S3 S4]. destruct HI as [Hu Hw Hc Hne Hr Hown Hlen Hf].
    assert (E1 : tsum (r_tab s) = tracked) by (apply msum_proj; assumption).
    assert (E2 : bsum (r_orph s) = orphaned) by (apply bsum_osim; assumption).
    pose proof (alen_le_max max_pfn (r_alloc s) Hc Hne Hr) as Hle.
    unfold held in Hlen. rewrite E1, E2 in Hlen.
    repeat split; try assumption.
    - unfold trace_held. unfold trace_spec in Ht. unfold trace_spec. rewrite Ht. reflexivity.
    - lia.
    - unfold free_frames. lia.
    - intros H. apply icnt_allocd in H. rewrite <- Hown in H. unfold M in H. cbn [fst snd] in H.
      rewrite <- msum_app in H. apply pt_exists. assumption.
    - intros H. apply icnt_allocd. rewrite <- Hown. unfold M. cbn [fst snd]. rewrite <- msum_app. apply pt_exists. assumption.
    - intros x. specialize (Hown x). specialize (Hc x). unfold M in Hown. cbn [fst snd] in Hown.
      rewrite <- msum_app, pt_filter in Hown. lia.
  Qed.
  Lemma final_count_no_overwrite evs s t : Forall (ev_ok max_pfn) evs -> replay max_pfn choose evs = Some s ->
    trace_spec max_pfn evs = Some t -> s_orph t = [] ->
    free_frames max_pfn (r_alloc s) = max_pfn - tsum (s_tab t) /\ r_failed s = 0.
  Proof.
    intros Hev Hrun Ht Ho. destruct (final_count evs s Hev Hrun) as (t' & Ht' & H). cbv zeta in H.
    destruct H as (_ & _ & Hfree & Hf & _). rewrite Ht in Ht'. injection Ht' as <-.
    rewrite Ho in Hfree. change (bsum []) with 0 in Hfree. rewrite N.add_0_r in Hfree. auto.
  Qed.
End Final.

(* ---------- the abstract allocator is the frame-ownership specification ---------- *)
Lemma allocator_spec max_pfn st f k :
  let sz := 2 ^ N.of_nat k in
  (aput max_pfn st f k <> None <->
     f mod sz = 0 /\ f + sz <= max_pfn /\ forall x, f <= x < f + sz -> allocd st x = true) /\
  (forall st', aput max_pfn st f k = Some st' ->
     forall x, allocd st' x = allocd st x && negb ((f <=? x) && (x <? f + sz))) /\
  (forall choose f' st', aget choose st k = Some (f', st') ->
     choose st k = Some f' /\ forall x, allocd st' x = ((f' <=? x) && (x <? f' + sz)) || allocd st x).
Proof.
  intros sz. pose proof (pow2_pos k) as Hs. fold sz in Hs. unfold aput. fold sz.
  pose proof (covered_iff st f (f + sz) ltac:(lia)) as C.
  split; [|split].
  - destruct (covered st f (f + sz)) eqn:E.
    + destruct ((f mod sz =? 0) && (f + sz <=? max_pfn)) eqn:Q; cbn [andb].
      * split; [intros _|discriminate]. repeat split; try lia. apply C. reflexivity.
      * split; [congruence|]. intros (? & ? & ?). lia.
    + rewrite andb_false_r. split; [congruence|]. intros (? & ? & H). apply C in H. discriminate.
  - intros st'. destruct ((f mod sz =? 0) && (f + sz <=? max_pfn) && covered st f (f + sz)); [|discriminate].
    intros H x. injection H as <-. apply allocd_aremove.
  - intros choose f' st'. unfold aget. destruct (choose st k); [|discriminate]. intros H. injection H as <- <-.
    split; [reflexivity|]. intros x. reflexivity.
Qed.

(* ---------- the first-fit oracle satisfies the hypothesis on `choose` ---------- *)
Lemma ff_loop_ok max_pfn st sz : 0 < sz -> forall fuel f r, f mod sz = 0 ->
  ff_loop max_pfn st sz fuel f = Some r ->
  r mod sz = 0 /\ r + sz <= max_pfn /\ forall x, r <= x < r + sz -> allocd st x = false.
Proof.
  intros Hs. induction fuel as [|fuel IH]; intros f r Hf; cbn [ff_loop];
    (destruct (max_pfn <? f + sz) eqn:E; [discriminate|]);
    destruct (find (overlap f (f + sz)) st) as [i|] eqn:Fd; try discriminate.
  - intros H. injection H as <-. repeat split; [assumption|lia|].
    intros x Hx. destruct (allocd st x) eqn:A; [|reflexivity]. exfalso.
    unfold allocd in A. apply existsb_exists in A. destruct A as (i & Hi & Hx').
    pose proof (find_none _ _ Fd i Hi) as O. unfold overlap in O. unfold inI in Hx'. lia.
  - apply IH. unfold align_up. apply N.mod_mul. lia.
  - intros H. injection H as <-. repeat split; [assumption|lia|].
    intros x Hx. destruct (allocd st x) eqn:A; [|reflexivity]. exfalso.
    unfold allocd in A. apply existsb_exists in A. destruct A as (i & Hi & Hx').
    pose proof (find_none _ _ Fd i Hi) as O. unfold overlap in O. unfold inI in Hx'. lia.
Qed.
Lemma first_fit_ok max_pfn : choose_ok max_pfn (first_fit max_pfn).
Proof.
  intros st k f H. unfold first_fit in H. pose proof (pow2_pos k).
  apply (ff_loop_ok max_pfn st _ H0 (S (length st)) 0 f); [apply N.mod_0_l; lia|assumption].
Qed.

(* ---------- refutation of the pinned loop (D11) and non-vacuity ---------- *)
Definition d11_trace : list event := [mkEv true 2 1; mkEv false 3 0; mkEv false 2 0].

Lemma old_refuted :
  Forall (ev_ok 512) d11_trace /\
  trace_held 512 d11_trace = Some 0 /\
  (* pinned loop: frees frame 0 for the event that names pfn 3 (frame 1), then fails to free frame 0 again *)
  run_log 512 (first_fit 512) false init d11_trace = Some [OAlloc 0 1; OPut 0 0 true; OPut 0 0 false] /\
  option_map (result 512) (old_replay 512 (first_fit 512) d11_trace) = Some (511, 1, 0, 0) /\
  (* repaired loop *)
  run_log 512 (first_fit 512) true init d11_trace = Some [OAlloc 0 1; OPut 1 0 true; OPut 0 0 true] /\
  option_map (result 512) (replay 512 (first_fit 512) d11_trace) = Some (512, 0, 0, 0).
Proof.
  split; [repeat constructor; apply ev_okb_ok; vm_compute; reflexivity|].
  repeat split; vm_compute; reflexivity.
Qed.

(* partial frees of a first, a middle and a last part (order 8 of an order-10 block), a partial free at a smaller
   order, an unknown free, a re-allocation, a whole free *)
Definition demo_trace : list event :=
  [mkEv true 1024 10; mkEv false 1024 8; mkEv false 1536 8; mkEv false 1792 8; mkEv false 1280 0;
   mkEv false 9 0; mkEv true 4 2; mkEv true 4 2; mkEv false 6 1; mkEv true 16 3; mkEv false 16 3].
Example demo_hypotheses : choose_ok 4096 (first_fit 4096) /\ Forall (ev_ok 4096) demo_trace.
Proof. split; [apply first_fit_ok|]. repeat constructor; apply ev_okb_ok; vm_compute; reflexivity. Qed.
Example demo_runs :
  option_map (result 4096) (replay 4096 (first_fit 4096) demo_trace) = Some (4096 - (255 + 2 + 4), 0, 1, 1) /\
  option_map (fun t => (tsum (s_tab t), bsum (s_orph t), s_unknown t, s_reallocs t)) (trace_spec 4096 demo_trace)
    = Some (257, 4, 1, 1) /\
  run_log 4096 (first_fit 4096) true init demo_trace =
    Some [OAlloc 0 10; OPut 0 8 true; OPut 512 8 true; OPut 768 8 true; OPut 256 0 true; OUnknown;
          OAlloc 0 2; OAlloc 4 2; OPut 6 1 true; OAlloc 8 3; OPut 8 3 true].
Proof. repeat split; vm_compute; reflexivity. Qed.
