(* Thread-local lemmas of the M2 invariant: the pure continuation part of a step (`resume`, `settle`,
   the `enter_*` functions of UpperMachine.v) preserves the thread's well-formedness `twf` and its ghost.
   No shared memory is involved: only static parts of the state (number of trees, slot counts, `frames`). *)
From Coq Require Import PeanoNat Permutation Setoid Morphisms.
From LLF Require Import Base Row Bitfield Lower Spec Sorted Upper UpperInvDef UpperPrims UpperGetLoops LowerMachine
  ConcBase ConcInvDef UpperMachine UpperConcInvDef UpperConcWf.

(* ----- ghost equivalence ----- *)
Lemma gh_eq_refl a : gh_eq a a.
Proof. split; [reflexivity|]. split; [apply Permutation_refl|reflexivity]. Qed.
Lemma gh_eq_sym a b : gh_eq a b -> gh_eq b a.
Proof. intros (A & B & C). split; [intros i; symmetry; apply A|]. split; [apply Permutation_sym; exact B|symmetry; exact C]. Qed.
Lemma gh_eq_trans a b c : gh_eq a b -> gh_eq b c -> gh_eq a c.
Proof.
  intros (A & B & C) (A' & B' & C'). split; [intros i; rewrite A; apply A'|].
  split; [eapply Permutation_trans; eassumption|congruence].
Qed.
Lemma crsum_app a b i : crsum (a ++ b) i = crsum a i + crsum b i.
Proof. unfold crsum. apply sumf_app. Qed.
Lemma gh_add_eq a a' b b' : gh_eq a a' -> gh_eq b b' -> gh_eq (gh_add a b) (gh_add a' b').
Proof.
  intros (A & B & C) (A' & B' & C'). unfold gh_add. split; cbn [g_cr g_ih g_bl].
  - intros i. rewrite !crsum_app, A, A'. reflexivity.
  - split; [apply Permutation_app; assumption|congruence].
Qed.
Lemma gh_add_nil_l a : gh_add gh_nil a = a.
Proof. destruct a; reflexivity. Qed.
Lemma gh_add_nil_r a : gh_add a gh_nil = a.
Proof. destruct a; unfold gh_add; cbn. rewrite !app_nil_r. reflexivity. Qed.
Lemma gh_add_comm a b : g_bl a = [] \/ g_bl b = [] -> gh_eq (gh_add a b) (gh_add b a).
Proof.
  intros H. unfold gh_add. split; cbn [g_cr g_ih g_bl].
  - intros i. rewrite !crsum_app. lia.
  - split; [apply Permutation_app_comm|]. destruct H as [-> | ->]; rewrite ?app_nil_r; reflexivity.
Qed.
Lemma gh_add_assoc a b c : gh_add (gh_add a b) c = gh_add a (gh_add b c).
Proof. unfold gh_add; cbn. rewrite !app_assoc. reflexivity. Qed.
Lemma gh_cr0 t : gh_eq (gh_cr t 0) gh_nil.
Proof.
  split; [|split; [apply Permutation_refl|reflexivity]]. intros i. cbn. unfold crsum. cbn. destruct (t =? i); reflexivity.
Qed.

Ltac inv H := inversion H; subst; clear H.

Section Local.
  Variable g : geom.
  Variable policy : N -> N -> N -> pol.
  Hypothesis WF : wf_geom g.
  Variable u : upper.
  Variable c : ucall.
  Hypothesis SH : ntrees u = ntab g (frames (low u)).
  Hypothesis CW : call_wf g u c.
  Notation TF := (TF g).

  (* ----- weights: the return chains of `settle` are short ----- *)
  Definition fw (f : kframe) : nat := match f with KGet1 _ _ => 4 | KGet2 _ _ => 2 | _ => 1 end.
  Definition sw (k : list kframe) : nat := fold_right (fun f a => fw f + a)%nat O k.
  Definition wt (a : act) : nat := match a with ARet _ k => S (sw k) | _ => O end.

  Lemma lvl_le f : (lvl f <= 5)%nat.
  Proof. destruct f; cbn; lia. Qed.
  Lemma sorted_len k : forall lo, (lo <= 5)%nat -> sorted_from lo k -> (lo + length k <= 5)%nat.
  Proof.
    induction k as [|f k IH]; intros lo L; cbn [sorted_from length]; [lia|]. intros [L1 S].
    specialize (IH _ (lvl_le f) S). lia.
  Qed.
  Lemma sw_le k : (sw k <= 4 * length k)%nat.
  Proof. induction k as [|f k IH]; cbn [sw fold_right length]; [lia|]. fold (sw k). destruct f; cbn [fw]; lia. Qed.
  Lemma sorted_weak k lo lo' : (lo' <= lo)%nat -> sorted_from lo k -> sorted_from lo' k.
  Proof. destruct k; cbn [sorted_from]; [tauto|]. intros L [A B]. split; [lia|exact B]. Qed.

  (* ----- passive stacks ----- *)
  Lemma pas_weak k lo lo' : (lo' <= lo)%nat -> pas_stack u c lo k -> pas_stack u c lo' k.
  Proof. intros L [A B]. split; [exact A|eapply sorted_weak; eassumption]. Qed.
  Lemma pas_cons f k lo : pas_wf u c f -> (lo < lvl f)%nat -> pas_stack u c (lvl f) k -> pas_stack u c lo (f :: k).
  Proof. intros P L [A B]. split; [constructor; assumption|]. cbn [sorted_from]. split; assumption. Qed.
  Lemma pas_nil lo : pas_stack u c lo [].
  Proof. split; [constructor|exact I]. Qed.
  Lemma pas_frame_gh f : pas_wf u c f -> frame_gh g f = gh_nil.
  Proof. destruct f; cbn [pas_wf frame_gh]; try reflexivity; try tauto. Qed.
  Lemma pas_frames_gh k : Forall (pas_wf u c) k -> frames_gh g k = gh_nil.
  Proof.
    induction 1 as [|f k P _ IH]; [reflexivity|]. cbn [frames_gh fold_right]. fold (frames_gh g k).
    rewrite IH, (pas_frame_gh _ P). reflexivity.
  Qed.
  Lemma pk_gh_top p f k lo : pas_stack u c lo k ->
    pk_gh g p (f :: k) = gh_add (prim_gh g p (Some f)) (frame_gh g f).
  Proof.
    intros [A _]. unfold pk_gh. cbn [hd_error frames_gh fold_right]. fold (frames_gh g k).
    rewrite (pas_frames_gh _ A), gh_add_nil_r. reflexivity.
  Qed.
  Lemma ret_ty_tail b f k : ret_ty b (f :: k) -> ret_ty false k.
  Proof.
    intros [_ F]. destruct k as [|h r]; [reflexivity|]. inversion F; subst. split; assumption.
  Qed.

  Lemma ret_ty_all k : ret_ty false k <-> Forall (fun x => wants_vg x = false) k.
  Proof.
    destruct k as [|h r]; cbn [ret_ty]; split; intros H; auto.
    - destruct H; constructor; assumption.
    - inversion H; subst. split; assumption.
  Qed.
  Lemma ret_ty_cons f k : wants_vg f = false -> ret_ty false k -> ret_ty false (f :: k).
  Proof. intros W H. apply ret_ty_all. constructor; [exact W|]. apply ret_ty_all. exact H. Qed.

  (* ----- acts ----- *)
  Definition enter_ok (p : prim) : Prop :=
    forall th, p = PLow th ->
      exists cl, th = TRun cl (entry_pc g cl) /\ cwf g (frames (low u)) cl = true /\ is_put cl = false.
  Definition glr_res (x : glr) : res (N * N) :=
    match x with GOk f cl => Ok (f, cl) | GErr e _ => Err e | GPanic z => Panic z end.
  Definition act_ok (G : ugh) (a : act) : Prop :=
    match a with
    | ADo p k => twf g policy u c p k /\ gh_eq (pk_gh g p k) G /\ enter_ok p
    | ARet (VR r) k => pas_stack u c 0 k /\ ret_ty false k /\ (forall z, r <> Panic z) /\ gh_eq (ret_gh c r) G
    | ARet (VG x) k => pas_stack u c 0 k /\ ret_ty true k /\ (forall z, x <> GPanic z) /\ gh_eq (ret_gh c (glr_res x)) G
    | _ => False
    end.
  Definition good (G : ugh) (x : settled) : Prop :=
    match x with
    | SRun p k => twf g policy u c p k /\ gh_eq (pk_gh g p k) G /\ enter_ok p
    | SDone r => (forall z, r <> Panic z) /\ gh_eq (ret_gh c r) G
    | SCrash _ => False
    end.
  Definition aok (G : ugh) (B : nat) (a : act) : Prop := act_ok G a /\ (wt a <= B)%nat.

  Lemma aok_weak G B B' a : (B <= B')%nat -> aok G B a -> aok G B' a.
  Proof. intros L [A W]. split; [exact A|lia]. Qed.
  Lemma aok_eq G G' B a : gh_eq G G' -> aok G B a -> aok G' B a.
  Proof.
    intros E [A W]. split; [|exact W]. destruct a as [p k|v k|z]; cbn [act_ok] in *; try tauto.
    - destruct A as (A1 & A2 & A3). split; [exact A1|]. split; [eapply gh_eq_trans; eassumption|exact A3].
    - destruct v; try tauto; destruct A as (A1 & A2 & A3 & A4); (split; [exact A1|]; split; [exact A2|]; split; [exact A3|]);
        eapply gh_eq_trans; eassumption.
  Qed.

  Lemma ret_gh_err e : ret_gh c (Err e) = gh_nil.
  Proof. destruct c; reflexivity. Qed.

  Lemma not_lprim_enter p : (forall th, p <> PLow th) -> enter_ok p.
  Proof. intros H th E. destruct (H th E). Qed.

  Lemma aok_do G B p k : twf g policy u c p k -> gh_eq (pk_gh g p k) G -> enter_ok p -> aok G B (ADo p k).
  Proof. intros T E N. split; [split; [exact T|split; [exact E|exact N]]|cbn; lia]. Qed.
  Lemma aok_err e k : pas_stack u c 0 k -> ret_ty false k -> aok gh_nil (S (sw k)) (ARet (VR (Err e)) k).
  Proof.
    intros P T. split; [|cbn; lia]. cbn [act_ok]. split; [exact P|]. split; [exact T|]. split; [discriminate|].
    rewrite ret_gh_err. apply gh_eq_refl.
  Qed.
  Lemma aok_gerr e t k : pas_stack u c 0 k -> ret_ty true k -> aok gh_nil (S (sw k)) (ARet (VG (GErr e t)) k).
  Proof.
    intros P T. split; [|cbn; lia]. cbn [act_ok]. split; [exact P|]. split; [exact T|]. split; [discriminate|].
    cbn [glr_res]. rewrite ret_gh_err. apply gh_eq_refl.
  Qed.

  Lemma tree_ok_lt i : i < ntrees u -> UpperMachine.tree_ok u i = true.
  Proof. intros H. unfold UpperMachine.tree_ok. apply N.ltb_lt. exact H. Qed.

  Lemma enter_tu_ok G B i f k :
    i < ntrees u -> twf g policy u c (PTL i f) k -> gh_eq (pk_gh g (PTL i f) k) G -> aok G B (enter_tu u i f k).
  Proof.
    intros L T E. unfold enter_tu. rewrite (tree_ok_lt _ L). apply aok_do; [exact T|exact E|].
    apply not_lprim_enter. discriminate.
  Qed.

  (* the ghost of a freshly started tree / slot primitive with a closure that holds nothing *)
  Lemma gh_top_nil p f k lo : pas_stack u c lo k -> prim_gh g p (Some f) = gh_nil -> frame_gh g f = gh_nil ->
    gh_eq (pk_gh g p (f :: k)) gh_nil.
  Proof. intros P A B. rewrite (pk_gh_top p f k lo P), A, B. apply gh_eq_refl. Qed.

  Lemma ntrees_pos fr r : c = UGet fr r -> ntrees u <> 0.
  Proof.
    intros ->. rewrite SH. assert (Hf : pow2 (r_order r) <= frames (low u)).
    { destruct fr; cbn [call_wf] in CW; [destruct CW as [(_ & H & _) _]|destruct CW as (_ & H & _)]; exact H. }
    pose proof (pow2_pos (r_order r)). intros E.
    assert (Q : 0 < ntab g (frames (low u))) by (apply (ntab_lt g); lia). lia.
  Qed.

  Lemma enter_access_ok B a i k :
    acc_wf u c a -> acc_get a -> i < ntrees u -> pas_stack u c 2 k -> ret_ty false k ->
    aok gh_nil B (enter_access u a i k).
  Proof.
    intros A AG L P T. destruct a as [o cl local|cl o|? ? ?]; cbn [acc_wf acc_get enter_access] in *; [| |destruct AG].
    - apply enter_tu_ok; [exact L| |].
      + cbn [twf]. split; [|split; [exact P|exact T]]. cbn [top_wf]. split; [exact A|]. split; [left; reflexivity|exact L].
      + eapply gh_top_nil; [exact P|reflexivity|reflexivity].
    - destruct A as (r & Ec & -> & ->). apply enter_tu_ok; [exact L| |].
      + cbn [twf]. split; [|split; [exact P|exact T]]. cbn [top_wf]. exists r. split; [exact Ec|]. split; [reflexivity|].
        split; [left; reflexivity|]. split; [exact L|]. intros f E. discriminate.
      + eapply gh_top_nil; [exact P|reflexivity|reflexivity].
  Qed.

  Lemma sb_try_ok sb cands k :
    sb_wf u c sb -> cands_ok u cands -> pas_stack u c 3 k -> ret_ty false k ->
    aok gh_nil (S (sw k)) (UpperMachine.sb_try u sb cands k).
  Proof.
    intros S C P T. destruct cands as [|[x i] r]; cbn [UpperMachine.sb_try].
    - apply aok_err; [eapply pas_weak; [|exact P]; lia|exact T].
    - inversion C as [|? ? Hi Hr]; subst. cbn [snd] in Hi.
      apply enter_access_ok.
      + apply S.
      + apply S.
      + exact Hi.
      + apply pas_cons; [cbn [pas_wf]; split; assumption|cbn; lia|exact P].
      + apply ret_ty_cons; [reflexivity|exact T].
  Qed.

  Lemma cands_rev l : cands_ok u l -> cands_ok u (sb_iter_rev l).
  Proof. unfold cands_ok, sb_iter_rev. intros H. apply Forall_rev. exact H. Qed.

  Lemma sb_next_ok sb k :
    sb_wf u c sb -> pas_stack u c 3 k -> ret_ty false k ->
    aok gh_nil (S (sw k)) (sb_next u sb k).
  Proof.
    intros S P T. unfold sb_next. destruct (sb_n sb).
    - apply sb_try_ok; [exact S|apply cands_rev; apply S|exact P|exact T].
    - destruct S as (A & C & N).
      pose proof (walk_idx_lt (sb_start sb) (ntrees u) (sb_i sb) N) as L. rewrite (tree_ok_lt _ L).
      apply aok_do; [| |apply not_lprim_enter; discriminate].
      + cbn [twf]. split; [|split; [exact P|exact T]]. cbn [top_wf]. split; [eexists; split; [reflexivity|exact L]|].
        split; [exact A|split; [exact C|exact N]].
      + eapply gh_top_nil; [exact P|reflexivity|reflexivity].
  Qed.

  Lemma enter_sb_ok a rt cap start offset len k :
    acc_wf u c a -> acc_get a -> ntrees u <> 0 -> pas_stack u c 3 k -> ret_ty false k ->
    aok gh_nil (S (sw k)) (enter_sb u a rt cap start offset len k).
  Proof.
    intros A AG N P T. unfold enter_sb. apply N.eqb_neq in N. rewrite N, andb_false_r.
    apply sb_next_ok; [|exact P|exact T]. split; [split; [exact A|exact AG]|]. split; [constructor|apply N.eqb_neq; exact N].
  Qed.

  Lemma enter_sar_ok o cl local start k :
    ros_ok u c o cl -> pas_stack u c 4 k -> ret_ty false k ->
    aok gh_nil (S (S (sw k))) (enter_search_and_reserve g u o cl local start k).
  Proof.
    intros R P T. assert (N : ntrees u <> 0) by (destruct R as (r & E & _); eapply ntrees_pos; exact E).
    unfold enter_search_and_reserve. destruct (Nat.ltb o (hord g)).
    - eapply aok_weak; [|apply enter_sb_ok]; [cbn [sw fold_right fw]; fold (sw k); lia|exact R|exact I|exact N| |].
      + apply pas_cons; [exact R|cbn; lia|exact P].
      + apply ret_ty_cons; [reflexivity|exact T].
    - eapply aok_weak; [|apply enter_sb_ok]; [lia|exact R|exact I|exact N|eapply pas_weak; [|exact P]; lia|exact T].
  Qed.

  (* ----- steal_local / demote_local ----- *)
  Lemma steal_scan_slots cl free n : forall i j i' j',
    steal_scan policy u cl free i j n = Some (i', j') ->
    exists l, class_slots u ((i' + cl) mod 8) = Some l /\ j' < N.of_nat (length l).
  Proof.
    induction n as [|n IH]; intros i j i' j'; cbn [steal_scan]; [discriminate|].
    destruct (8 <=? i); [discriminate|].
    destruct (class_slots u ((i + cl) mod 8)) as [l|] eqn:El; [|apply IH].
    destruct (policy cl ((i + cl) mod 8) free); try apply IH;
      (destruct (j <? N.of_nat (length l)) eqn:Ej; [|apply IH]; intros H; inversion H; subst;
       exists l; split; [exact El|apply N.ltb_lt; exact Ej]).
  Qed.
  Lemma demote_scan_slots cl free n : forall i j i' j',
    demote_scan policy u cl free i j n = Some (i', j') ->
    policy cl ((i' + cl) mod 8) free = PDemote /\
    exists l, class_slots u ((i' + cl) mod 8) = Some l /\ j' < N.of_nat (length l).
  Proof.
    induction n as [|n IH]; intros i j i' j'; cbn [demote_scan]; [discriminate|].
    destruct (8 <=? i); [discriminate|].
    destruct (class_slots u ((i + cl) mod 8)) as [l|] eqn:El; [|apply IH].
    destruct (policy cl ((i + cl) mod 8) free) eqn:Ep; try apply IH.
    destruct (j <? N.of_nat (length l)) eqn:Ej; [|apply IH]. intros H; inversion H; subst.
    split; [exact Ep|]. exists l; split; [exact El|apply N.ltb_lt; exact Ej].
  Qed.

  Lemma slot_ok_mod tc l index j :
    class_slots u tc = Some l -> j < N.of_nat (length l) ->
    slot_ok u tc ((index + j) mod match class_locals u tc with Some n => n | None => 1 end) = true.
  Proof.
    intros E L. unfold slot_ok, class_locals. rewrite E. cbn [option_map]. apply N.ltb_lt. apply N.mod_lt. lia.
  Qed.

  Lemma sl_next_ok r fr i j k :
    c = UGet fr r -> pas_stack u c 2 k -> ret_ty false k ->
    aok gh_nil (S (sw k)) (sl_next g policy u r fr i j k).
  Proof.
    intros Ec P T. unfold sl_next.
    destruct (steal_scan policy u (r_class r) (pow2 (r_order r)) i j 9) as [[i' j']|] eqn:E.
    - destruct (steal_scan_slots _ _ _ _ _ _ _ E) as (l & El & Lj).
      apply aok_do; [| |apply not_lprim_enter; discriminate].
      + cbn [twf]. split; [|split; [exact P|exact T]]. cbn [top_wf]. split; [exact Ec|].
        eexists. split; [left; reflexivity|]. apply slot_ok_mod with (l := l); assumption.
      + eapply gh_top_nil; [exact P|reflexivity|reflexivity].
    - apply aok_err; [eapply pas_weak; [|exact P]; lia|exact T].
  Qed.

  Lemma dl_next_ok r fr i j k :
    c = UGet fr r -> pas_stack u c 2 k -> ret_ty false k ->
    aok gh_nil (S (sw k)) (dl_next g policy u r fr i j k).
  Proof.
    intros Ec P T. unfold dl_next.
    destruct (demote_scan policy u (r_class r) (pow2 (r_order r)) i j 9) as [[i' j']|] eqn:E.
    - destruct (demote_scan_slots _ _ _ _ _ _ _ E) as (Ep & l & El & Lj).
      apply aok_do; [| |apply not_lprim_enter; discriminate].
      + cbn [twf]. split; [|split; [exact P|exact T]]. cbn [top_wf]. split; [exact Ec|].
        eexists. split; [left; reflexivity|]. split; [apply slot_ok_mod with (l := l); assumption|exact Ep].
      + eapply gh_top_nil; [exact P|reflexivity|reflexivity].
    - apply aok_err; [eapply pas_weak; [|exact P]; lia|exact T].
  Qed.

  Lemma enter_demote_local_ok r fr k :
    c = UGet fr r -> pas_stack u c 2 k -> ret_ty false k ->
    aok gh_nil (S (sw k)) (enter_demote_local g policy u r fr k).
  Proof.
    intros Ec P T. unfold enter_demote_local. destruct (class_slots u (r_class r)).
    - apply dl_next_ok; assumption.
    - apply aok_err; [eapply pas_weak; [|exact P]; lia|exact T].
  Qed.

  (* ----- facts about the call ----- *)
  Lemma get_req fr r : c = UGet fr r -> req_ok g u r.
  Proof. intros ->. destruct fr; cbn [call_wf] in CW; [exact (proj1 CW)|exact CW]. Qed.
  Lemma get_frame f r : c = UGet (Some f) r -> frame_ok u f (r_order r).
  Proof. intros ->. exact (proj2 CW). Qed.
  Lemma frame_tree_lt f o : frame_ok u f o -> f / TF < ntrees u.
  Proof.
    intros [_ H]. rewrite SH. apply (div_lt_ntab g). pose proof (pow2_pos o). lia.
  Qed.

  Lemma after_local_ok B f r k :
    c = UGet (Some f) r -> pas_stack u c 5 k -> ret_ty false k ->
    aok gh_nil B (after_local g u f r k).
  Proof.
    intros Ec P T. unfold after_local, enter_steal_global.
    pose proof (frame_tree_lt _ _ (get_frame _ _ Ec)) as L.
    assert (P2 : pas_stack u c 2 (KGet2 r (Some f) :: k)) by (apply pas_cons; [exact Ec|cbn; lia|exact P]).
    apply enter_tu_ok; [exact L| |].
    - cbn [twf]. split; [|split; [exact P2|apply ret_ty_cons; [reflexivity|exact T]]].
      cbn [top_wf]. exists r. split; [exact Ec|]. split; [reflexivity|]. split; [left; reflexivity|].
      split; [exact L|]. intros f' E. inversion E; reflexivity.
    - eapply gh_top_nil; [exact P2|reflexivity|reflexivity].
  Qed.

  Lemma slot_ok_local r fr local : c = UGet fr r \/ (exists f, c = UPut f r) -> r_local r = Some local ->
    slot_ok u (r_class r) local = true /\ exists len, class_locals u (r_class r) = Some len /\ local < len.
  Proof.
    intros Ec El. assert (R : req_ok g u r).
    { destruct Ec as [Ec|(f & Ec)]; [eapply get_req; exact Ec|]. rewrite Ec in CW. exact (proj1 CW). }
    destruct R as (_ & _ & len & E & Hl). specialize (Hl _ El). split; [|exists len; split; assumption].
    unfold slot_ok. rewrite E. apply N.ltb_lt. exact Hl.
  Qed.

  Lemma slot_ok_inv cl local : slot_ok u cl local = true -> exists len, class_locals u cl = Some len /\ local < len.
  Proof.
    unfold slot_ok. destruct (class_locals u cl) as [len|]; [|discriminate]. intros H. exists len. split; [reflexivity|apply N.ltb_lt; exact H].
  Qed.

  Lemma enter_get_local_ok B fr r local sync k :
    c = UGet fr r -> slot_ok u (r_class r) local = true -> pas_stack u c 2 k -> ret_ty true k ->
    aok gh_nil B (enter_get_local g u (r_order r) (r_class r) local fr sync k).
  Proof.
    intros Ec S P T. destruct (slot_ok_inv _ _ S) as (len & E & L).
    unfold enter_get_local. rewrite E. apply N.ltb_lt in L. rewrite L.
    apply aok_do; [| |apply not_lprim_enter; discriminate].
    - cbn [twf]. split; [|split; [exact P|exact T]]. cbn [top_wf]. exists r. split; [exact Ec|].
      split; [reflexivity|]. split; [reflexivity|]. split; [left; reflexivity|exact S].
    - eapply gh_top_nil; [exact P|reflexivity|reflexivity].
  Qed.

  (* ----- change_tree: Trees::search over all trees / change_at ----- *)
  Lemma enter_access_change B a i k :
    acc_wf u c a -> (exists mc mf ch, a = AcChange mc mf ch) -> i < ntrees u -> pas_stack u c 2 k -> ret_ty false k ->
    aok gh_nil B (enter_access u a i k).
  Proof.
    intros A (mc & mf & ch & ->) L P T. cbn [acc_wf enter_access] in *. destruct A as (m & Ec & -> & ->).
    rewrite (tree_ok_lt _ L). apply aok_do; [| |apply not_lprim_enter; discriminate].
    - cbn [twf]. split; [|split; [exact P|exact T]]. cbn [top_wf]. exists i, m, ch. split; [exact Ec|].
      split; [left; reflexivity|exact L].
    - eapply gh_top_nil; [exact P|reflexivity|reflexivity].
  Qed.

  Lemma se_next_ok a i n k :
    acc_wf u c a -> (exists mc mf ch, a = AcChange mc mf ch) -> ntrees u <> 0 -> pas_stack u c 3 k -> ret_ty false k ->
    aok gh_nil (S (sw k)) (se_next u a i n k).
  Proof.
    intros A C N P T. destruct n as [|n]; cbn [se_next].
    - apply aok_err; [eapply pas_weak; [|exact P]; lia|exact T].
    - apply enter_access_change; [exact A|exact C|apply walk_idx_lt; exact N| |apply ret_ty_cons; [reflexivity|exact T]].
      apply pas_cons; [cbn [pas_wf]; split; [exact A|split; [exact C|exact N]]|cbn; lia|exact P].
  Qed.

  (* ----- the passive frames: a value is returned to them ----- *)
  Lemma ret_r_ok G r k :
    pas_stack u c 0 k -> ret_ty false k -> (forall z, r <> Panic z) -> gh_eq (ret_gh c r) G ->
    aok G (S (sw k)) (ret_r r k).
  Proof.
    intros P T N E. destruct r as [x|e|z]; cbn [ret_r]; [| |destruct (N z eq_refl)];
      (split; [cbn [act_ok]; split; [exact P|]; split; [exact T|]; split; [exact N|exact E]|cbn; lia]).
  Qed.

  Lemma sorted_tail f k : sorted_from 0 (f :: k) -> sorted_from (lvl f) k.
  Proof. intros [_ H]. exact H. Qed.

  Lemma resume_pas G v f k :
    act_ok G (ARet v (f :: k)) ->
    aok G (sw (f :: k)) (resume g policy u v f k).
  Proof.
    intros A. destruct v as [? ? ?|? ? ?|?|r|x]; cbn [act_ok] in A; try (destruct A; fail).
    - (* VR *)
      destruct A as ((PF & PS) & T & NP & E). inversion PF as [|? ? Pf Pk]; subst.
      pose proof (sorted_tail _ _ PS) as Sk. pose proof (ret_ty_tail _ _ _ T) as Tk.
      assert (P0 : pas_stack u c 0 k) by (split; [exact Pk|eapply sorted_weak; [|exact Sk]; lia]).
      destruct T as [Wf _].
      assert (RR : aok G (sw (f :: k)) (ret_r r k)).
      { eapply aok_weak; [|apply ret_r_ok; assumption]. cbn [sw fold_right]. fold (sw k). destruct f; cbn [fw]; lia. }
      destruct f; cbn [pas_wf] in Pf; try (destruct Pf; fail); cbn [wants_vg] in Wf; try discriminate;
        cbn [resume]; cbn [lvl] in Sk.
      + (* KGet2 *)
        destruct r as [x|e|z]; [exact RR| |exact RR]. destruct e; try exact RR.
        assert (EG : gh_eq gh_nil G) by (rewrite ret_gh_err in E; exact E).
        apply (aok_eq gh_nil); [exact EG|]. unfold enter_steal_local.
        eapply aok_weak; [|apply sl_next_ok; [exact Pf| |]].
        * cbn [sw fold_right fw]. fold (sw k). lia.
        * apply pas_cons; [exact Pf|cbn; lia|split; [exact Pk|exact Sk]].
        * apply ret_ty_cons; [reflexivity|exact Tk].
      + (* KOom1 *)
        destruct r as [x|e|z]; [exact RR| |exact RR]. destruct e; try exact RR.
        assert (EG : gh_eq gh_nil G) by (rewrite ret_gh_err in E; exact E).
        apply (aok_eq gh_nil); [exact EG|].
        eapply aok_weak; [|apply enter_demote_local_ok; [exact Pf| |exact Tk]].
        * cbn [sw fold_right fw]. fold (sw k). lia.
        * split; [exact Pk|eapply sorted_weak; [|exact Sk]; lia].
      + (* KSR1 *)
        destruct r as [x|e|z]; [exact RR| |exact RR]. destruct e; try exact RR.
        assert (EG : gh_eq gh_nil G) by (rewrite ret_gh_err in E; exact E).
        apply (aok_eq gh_nil); [exact EG|].
        eapply aok_weak; [|apply enter_sb_ok; [exact Pf|exact I| | |exact Tk]].
        * cbn [sw fold_right fw]. fold (sw k). lia.
        * destruct Pf as (r0 & Ec & _). eapply ntrees_pos; exact Ec.
        * split; [exact Pk|eapply sorted_weak; [|exact Sk]; lia].
      + (* KSBA *)
        destruct r as [x|e|z]; [exact RR| |exact RR]. destruct e; try exact RR.
        assert (EG : gh_eq gh_nil G) by (rewrite ret_gh_err in E; exact E).
        apply (aok_eq gh_nil); [exact EG|].
        eapply aok_weak; [|apply sb_next_ok; [exact Pf| |exact Tk]].
        * cbn [sw fold_right fw]. fold (sw k). lia.
        * split; [exact Pk|exact Sk].
      + (* KSBT *)
        destruct r as [x|e|z]; [exact RR| |exact RR]. destruct e; try exact RR.
        assert (EG : gh_eq gh_nil G) by (rewrite ret_gh_err in E; exact E).
        apply (aok_eq gh_nil); [exact EG|]. destruct Pf as [Ps Pc].
        eapply aok_weak; [|apply sb_try_ok; [exact Ps|exact Pc| |exact Tk]].
        * cbn [sw fold_right fw]. fold (sw k). lia.
        * split; [exact Pk|exact Sk].
      + (* KSe *)
        destruct r as [x|e|z]; [exact RR| |exact RR]. destruct e; try exact RR.
        assert (EG : gh_eq gh_nil G) by (rewrite ret_gh_err in E; exact E).
        apply (aok_eq gh_nil); [exact EG|]. destruct Pf as (Pa & Pc & Pn).
        eapply aok_weak; [|apply se_next_ok; [exact Pa|exact Pc|exact Pn| |exact Tk]].
        * cbn [sw fold_right fw]. fold (sw k). lia.
        * split; [exact Pk|exact Sk].
    - (* VG *)
      destruct A as ((PF & PS) & T & NP & E). inversion PF as [|? ? Pf Pk]; subst.
      pose proof (sorted_tail _ _ PS) as Sk. pose proof (ret_ty_tail _ _ _ T) as Tk.
      assert (P0 : pas_stack u c 0 k) by (split; [exact Pk|eapply sorted_weak; [|exact Sk]; lia]).
      destruct T as [Wf _].
      destruct f; cbn [pas_wf] in Pf; try (destruct Pf; fail); cbn [wants_vg] in Wf; try discriminate;
        cbn [resume]; cbn [lvl] in Sk.
      + (* KGet1 *)
        destruct Pf as (Ec & local & len & El & Ecl & Ll).
        destruct x as [fr cl|e t|z]; [| |destruct (NP z eq_refl)].
        * split; [|cbn [wt sw fold_right fw]; fold (sw k); lia]. cbn [act_ok]. split; [exact P0|]. split; [exact Tk|].
          split; [discriminate|exact E].
        * assert (EG : gh_eq gh_nil G) by (cbn [glr_res] in E; rewrite ret_gh_err in E; exact E).
          apply (aok_eq gh_nil); [exact EG|].
          destruct e; try (eapply aok_weak; [|apply aok_err; assumption]; cbn [sw fold_right fw]; fold (sw k); lia).
          rewrite El.
          eapply aok_weak; [|apply enter_sar_ok].
          -- cbn [sw fold_right fw]. fold (sw k). lia.
          -- exists r. split; [exact Ec|]. split; [reflexivity|]. split; [reflexivity|]. exists len. split; assumption.
          -- apply pas_cons; [exact Ec|cbn; lia|split; [exact Pk|exact Sk]].
          -- apply ret_ty_cons; [reflexivity|exact Tk].
      + (* KAt1 *)
        destruct x as [fr cl|e t|z]; [| |destruct (NP z eq_refl)].
        * split; [|cbn [wt sw fold_right fw]; fold (sw k); lia]. cbn [act_ok]. split; [exact P0|]. split; [exact Tk|].
          split; [discriminate|exact E].
        * assert (EG : gh_eq gh_nil G) by (cbn [glr_res] in E; rewrite ret_gh_err in E; exact E).
          apply (aok_eq gh_nil); [exact EG|].
          destruct e; try (eapply aok_weak; [|apply aok_err; assumption]; cbn [sw fold_right fw]; fold (sw k); lia).
          apply after_local_ok; [exact Pf|split; [exact Pk|exact Sk]|exact Tk].
  Qed.

  (* ----- settle ----- *)
  Lemma settle_good fuel : forall a G, act_ok G a -> (wt a < fuel)%nat -> good G (settle g policy fuel u a).
  Proof.
    induction fuel as [|fuel IH]; intros a G A W; [lia|].
    destruct a as [p k|v k|z]; cbn [act_ok] in A; [exact A| |destruct A].
    destruct k as [|f k].
    - cbn [settle]. destruct v as [? ? ?|? ? ?|?|r|x]; try (destruct A; fail).
      + destruct A as (_ & _ & NP & E). destruct r as [x|e|z]; [split; assumption|split; assumption|destruct (NP z eq_refl)].
      + destruct A as (_ & T & _). discriminate T.
    - cbn [settle]. destruct (resume_pas G v f k A) as [A' W']. apply IH; [exact A'|]. cbn [wt] in W. lia.
  Qed.

  Lemma act_wt_bound G a : act_ok G a -> (wt a <= 21)%nat.
  Proof.
    destruct a as [p k|v k|z]; cbn [wt]; [lia| |lia]. intros A.
    assert (S : sorted_from 0 k).
    { cbn [act_ok] in A. destruct v; try (destruct A; fail); destruct A as ((_ & S) & _); exact S. }
    pose proof (sorted_len k 0 ltac:(lia) S). pose proof (sw_le k). lia.
  Qed.

  Lemma settle_ok a G : act_ok G a -> good G (settle g policy SETTLE u a).
  Proof. intros A. apply settle_good; [exact A|]. pose proof (act_wt_bound _ _ A). unfold SETTLE. lia. Qed.

  (* ================= the top frame: a primitive delivers its value ================= *)
  Definition slot_in (s : slot) : Prop :=
    s_pres s = true -> rt g s < ntrees u /\ s_row s * 64 < frames (low u) /\ s_free s <= TF.
  (* what the access guarantees about the delivered value (from the shared-memory invariant) *)
  Definition vfacts (p : prim) (v : val) : Prop :=
    match p with
    | PLd _ => exists t, v = VT true t t
    | PTL _ f0 | PTC _ f0 _ _ | PTF _ f0 _ _ _ =>
        exists ok old new, v = VT ok old new /\
          (if ok then tf_apply g policy (dflt u) f0 old 0 = Some (Ok new)
           else tf_apply g policy (dflt u) f0 old 0 = None) /\
          (forall a cl, f0 = FUnres a cl -> ok = true)
    | PSL _ _ f0 | PSC _ _ f0 _ _ =>
        exists ok old new, v = VS ok old new /\ slot_in old /\
          (if ok then sf_apply g f0 old = Some (Ok new) else sf_apply g f0 old = None)
    | PSW _ _ nw => exists old, v = VS true old nw /\ slot_in old
    | PLow th =>
        exists cl pc, th = TRun cl pc /\
          match v with
          | VL (Ok fr) => is_put cl = false -> fr / TF = c_frame cl / TF /\ fr < frames (low u)
          | VL (Err e) => e = EMemory
          | _ => False
          end
    end.

  Lemma lhold_entry cl : is_put cl = false -> lhold g (TRun cl (entry_pc g cl)) = c_n cl.
  Proof.
    destruct cl; cbn [is_put]; try discriminate; intros _; cbn [entry_pc lhold]; destruct (Nat.leb _ _); cbn [lhold];
      rewrite ?N.mul_0_l, ?N.sub_0_r; reflexivity.
  Qed.
  Lemma low_call_n row o fr : c_n (low_get_call row o fr) = pow2 o.
  Proof. destruct fr; reflexivity. Qed.
  Lemma low_call_put row o fr : is_put (low_get_call row o fr) = false.
  Proof. destruct fr; reflexivity. Qed.
  Lemma cwf_low_get row fr r : c = UGet fr r -> row_ok g u fr row ->
    cwf g (frames (low u)) (low_get_call row (r_order r) fr) = true.
  Proof.
    intros Ec [R _]. destruct (get_req _ _ Ec) as (O & _). unfold cwf.
    replace (c_order (low_get_call row (r_order r) fr)) with (r_order r) by (destruct fr; reflexivity).
    apply Nat.leb_le in O. rewrite O. cbn [andb]. destruct fr as [f|]; cbn [low_get_call].
    - destruct (get_frame _ _ Ec) as [A B]. apply N.eqb_eq in A. apply N.leb_le in B. rewrite A, B. reflexivity.
    - apply N.ltb_lt. rewrite <- SH. exact R.
  Qed.

  Lemma enter_low_get G B F k cl :
    is_put cl = false -> cwf g (frames (low u)) cl = true ->
    top_wf g policy u c (PLow (TRun cl (entry_pc g cl))) F -> pas_stack u c (lvl F) k -> ret_ty (gives_vg F) k ->
    gh_eq (gh_add (low_gh g (c_n cl) (Some F)) (frame_gh g F)) G ->
    aok G B (enter_low g cl (F :: k)).
  Proof.
    intros Pu Cw T P R E. unfold enter_low. apply aok_do.
    - cbn [twf]. split; [exact T|split; [exact P|exact R]].
    - rewrite (pk_gh_top _ _ _ _ P). cbn [prim_gh]. rewrite (lhold_entry _ Pu). exact E.
    - intros th Eth. inversion Eth; subst. exists cl. split; [reflexivity|split; assumption].
  Qed.

  Lemma slot_get_facts s tree n s' : slot_get g s tree n = Some s' ->
    s_pres s = true /\ (forall t, tree = Some t -> rt g s = t) /\ n <= s_free s /\
    s' = {| s_pres := true; s_row := s_row s; s_free := s_free s - n |}.
  Proof.
    unfold slot_get. destruct (s_pres s); cbn [andb]; [|discriminate].
    destruct (match tree with Some i => row_tree g (s_row s) =? i | None => true end) eqn:Et; [|discriminate].
    destruct (n <=? s_free s) eqn:En; [|discriminate]. intros H; inversion H; subst.
    split; [reflexivity|]. split; [|split; [apply N.leb_le; exact En|reflexivity]].
    intros t ->. apply N.eqb_eq. exact Et.
  Qed.

  Lemma fr_tree_otree fr s : (forall t, otree g fr = Some t -> rt g s = t) -> fr_tree g fr (rt g s).
  Proof. intros H f ->. symmetry. apply H. reflexivity. Qed.

  Ltac ghs :=
    unfold gh_eq, gh_add, gh_cr, gh_ih, gh_bl, gh_nil; cbn [g_cr g_ih g_bl app];
    split; [intros ?i; unfold crsum; cbn [sumf fold_right fst snd]; try lia
           |split; [try apply Permutation_refl|try reflexivity]].

  (* --- get_local --- *)
  Lemma K_GL1 p o cl local fr sy k v :
    twf g policy u c p (KGL1 o cl local fr sy :: k) -> vfacts p v ->
    aok (gh_add (post_gh g p v (KGL1 o cl local fr sy)) gh_nil) 21 (resume g policy u v (KGL1 o cl local fr sy) k).
  Proof.
    intros (T & P & R) V. cbn [top_wf] in T. destruct T as (r & Ec & -> & -> & Sp & So). cbn [lvl gives_vg] in P, R.
    assert (V' : exists ok old new, v = VS ok old new /\ slot_in old /\
              (if ok then sf_apply g (SGet (otree g fr) (pow2 (r_order r))) old = Some (Ok new)
               else sf_apply g (SGet (otree g fr) (pow2 (r_order r))) old = None) /\
              post_gh g p v (KGL1 (r_order r) (r_class r) local fr sy)
              = if ok then gh_cr (rt g old) (pow2 (r_order r)) else gh_nil).
    { destruct Sp as [->|(cur & new & -> & _)]; cbn [vfacts] in V; destruct V as (ok & old & new' & -> & Si & Ha);
        exists ok, old, new'; (split; [reflexivity|]; split; [exact Si|]; split; [exact Ha|]); destruct ok; reflexivity. }
    clear V Sp. destruct V' as (ok & old & new & -> & Si & Ha & ->). cbn [resume]. rewrite gh_add_nil_r.
    assert (P0 : pas_stack u c 0 k) by (eapply pas_weak; [|exact P]; lia).
    destruct ok.
    - (* the slot had enough: call the lower allocator *)
      cbn [sf_apply] in Ha. destruct (slot_get g old (otree g fr) (pow2 (r_order r))) as [s'|] eqn:Eg; [|discriminate].
      destruct (slot_get_facts _ _ _ _ Eg) as (Pr & Tr & Le & _). destruct (Si Pr) as (L1 & L2 & L3).
      assert (RO : row_ok g u fr (s_row old)) by (split; [exact L1|apply fr_tree_otree; exact Tr]).
      apply enter_low_get; [apply low_call_put|apply cwf_low_get; assumption| |exact P|exact R|].
      + cbn [top_wf]. exists fr, r. split; [exact Ec|]. split; [reflexivity|]. split; [reflexivity|]. split; [exact So|].
        split; [eexists; reflexivity|exact RO].
      + rewrite low_call_n. cbn [low_gh frame_gh]. rewrite gh_add_nil_r. apply gh_eq_refl.
    - cbn [sf_apply] in Ha.
      destruct (s_pres old) eqn:Pr; [|eapply aok_weak; [|apply aok_gerr; assumption]; pose proof (sw_le k); pose proof (sorted_len k 0 ltac:(lia) (proj2 P0)); lia].
      destruct (sy && _) eqn:Es; [|eapply aok_weak; [|apply aok_gerr; assumption]; pose proof (sw_le k); pose proof (sorted_len k 0 ltac:(lia) (proj2 P0)); lia].
      (* sync with the tree counter *)
      destruct (Si Pr) as (L1 & L2 & L3).
      assert (Hlt : pow2 (r_order r) <? s_free old = false).
      { apply N.ltb_ge. destruct (slot_get g old (otree g fr) (pow2 (r_order r))) eqn:Eg; [discriminate|].
        unfold slot_get in Eg. rewrite Pr in Eg. cbn [andb] in Eg.
        apply andb_true_iff in Es. destruct Es as [_ Es].
        assert (Et : match otree g fr with Some i => row_tree g (s_row old) =? i | None => true end = true).
        { destruct fr as [f|]; cbn [otree option_map]; [|reflexivity]. rewrite N.eqb_sym. exact Es. }
        rewrite Et in Eg. destruct (pow2 (r_order r) <=? s_free old) eqn:El; [discriminate|]. apply N.leb_gt in El. lia. }
      rewrite Hlt. apply enter_tu_ok; [exact L1| |].
      + cbn [twf]. split; [|split; [exact P|exact R]]. cbn [top_wf]. exists r, (pow2 (r_order r) - s_free old).
        split; [exact Ec|]. split; [reflexivity|]. split; [reflexivity|]. split; [left; reflexivity|]. split; [exact L1|exact So].
      + eapply gh_top_nil; [exact P|reflexivity|reflexivity].
  Qed.

  Lemma sw_bound k lo : pas_stack u c lo k -> (S (sw k) <= 21)%nat.
  Proof.
    intros [_ S]. assert (S0 : sorted_from 0 k) by (eapply sorted_weak; [|exact S]; lia).
    pose proof (sw_le k). pose proof (sorted_len k 0 ltac:(lia) S0). lia.
  Qed.

  Lemma aok_gret G frm cl fr r k lo :
    c = UGet fr r -> pas_stack u c lo k -> ret_ty true k -> gh_eq (gh_bl frm) G ->
    aok G 21 (ARet (VG (GOk frm cl)) k).
  Proof.
    intros Ec P T E. split; [|cbn [wt]; eapply sw_bound; exact P]. cbn [act_ok glr_res].
    split; [eapply pas_weak; [|exact P]; lia|]. split; [exact T|]. split; [discriminate|].
    rewrite Ec. exact E.
  Qed.
  Lemma aok_rret G frm cl fr r k lo :
    c = UGet fr r -> pas_stack u c lo k -> ret_ty false k -> gh_eq (gh_bl frm) G ->
    aok G 21 (ARet (VR (Ok (frm, cl))) k).
  Proof.
    intros Ec P T E. split; [|cbn [wt]; eapply sw_bound; exact P]. cbn [act_ok].
    split; [eapply pas_weak; [|exact P]; lia|]. split; [exact T|]. split; [discriminate|].
    rewrite Ec. exact E.
  Qed.
  Lemma aok_gerr' e t k lo : pas_stack u c lo k -> ret_ty true k -> aok gh_nil 21 (ARet (VG (GErr e t)) k).
  Proof.
    intros P T. eapply aok_weak; [eapply sw_bound; exact P|]. apply aok_gerr; [eapply pas_weak; [|exact P]; lia|exact T].
  Qed.
  Lemma aok_err' e k lo : pas_stack u c lo k -> ret_ty false k -> aok gh_nil 21 (ARet (VR (Err e)) k).
  Proof.
    intros P T. eapply aok_weak; [eapply sw_bound; exact P|]. apply aok_err; [eapply pas_weak; [|exact P]; lia|exact T].
  Qed.

  (* the value delivered by a tree / slot / lower primitive *)
  Lemma tprim_v p i f0 v : tprim g policy u p i f0 -> vfacts p v ->
    exists ok old new, v = VT ok old new /\
      (if ok then tf_apply g policy (dflt u) f0 old 0 = Some (Ok new) else tf_apply g policy (dflt u) f0 old 0 = None) /\
      (forall a cl, f0 = FUnres a cl -> ok = true) /\
      post_gh g p v = post_gh g (PTL i f0) v.
  Proof.
    intros [->|(cur & new & -> & _)] V; cbn [vfacts] in V; destruct V as (ok & old & new' & -> & A & B);
      exists ok, old, new'; repeat split; assumption.
  Qed.
  Lemma sprim_v p cl idx f0 v : sprim g p cl idx f0 -> vfacts p v ->
    exists ok old new, v = VS ok old new /\ slot_in old /\
      (if ok then sf_apply g f0 old = Some (Ok new) else sf_apply g f0 old = None) /\
      post_gh g p v = post_gh g (PSL cl idx f0) v.
  Proof.
    intros [->|(cur & new & -> & _)] V; cbn [vfacts] in V; destruct V as (ok & old & new' & -> & A & B);
      exists ok, old, new'; (split; [reflexivity|]; split; [exact A|]; split; [exact B|]); destruct ok; reflexivity.
  Qed.
  Lemma lprim_v p cl v : lprim p cl -> vfacts p v ->
    exists pc, p = PLow (TRun cl pc) /\
      ((exists frm, v = VL (Ok frm) /\ (is_put cl = false -> frm / TF = c_frame cl / TF /\ frm < frames (low u))) \/
       v = VL (Err EMemory)).
  Proof.
    intros (pc & ->) V. cbn [vfacts] in V. destruct V as (cl' & pc' & E & V). inversion E; subst cl' pc'.
    exists pc. split; [reflexivity|]. destruct v as [? ? ?|? ? ?|x|?|?]; try (destruct V; fail).
    destruct x as [frm|e|z]; [left; exists frm; split; [reflexivity|exact V]|right; subst; reflexivity|destruct V].
  Qed.

  Lemma tput_gh t n F k lo : pas_stack u c lo k -> frame_gh g F = gh_nil ->
    gh_eq (pk_gh g (PTL t (FPut n)) (F :: k)) (gh_cr t n).
  Proof. intros P E. rewrite (pk_gh_top _ _ _ _ P), E. cbn [prim_gh tf_gh]. rewrite gh_add_nil_r. apply gh_eq_refl. Qed.

  Lemma fput_some d t n : tf_apply g policy d (FPut n) t 0 <> None.
  Proof. cbn [tf_apply]. discriminate. Qed.

  Lemma K_GL2 p o cl local row k v :
    twf g policy u c p (KGL2 o cl local row :: k) -> vfacts p v ->
    aok (gh_add (post_gh g p v (KGL2 o cl local row)) gh_nil) 21 (resume g policy u v (KGL2 o cl local row) k).
  Proof.
    intros (T & P & R) V. cbn [top_wf] in T. destruct T as (fr & r & Ec & -> & -> & So & Lp & RO). cbn [lvl gives_vg] in P, R.
    destruct (lprim_v _ _ _ Lp V) as (pc & -> & [(frm & -> & Hf)| ->]); cbn [resume post_gh]; rewrite gh_add_nil_r.
    - destruct (Hf (low_call_put _ _ _)) as (Ht & Hl).
      destruct (row =? frm / 64); [eapply aok_gret; [exact Ec|exact P|exact R|apply gh_eq_refl]|].
      destruct (slot_ok_inv _ _ So) as (len & E & L). rewrite E. apply N.ltb_lt in L. rewrite L.
      apply aok_do; [| |apply not_lprim_enter; discriminate].
      + cbn [twf]. split; [|split; [exact P|exact R]]. cbn [top_wf]. exists fr, r, local, (frm / 64).
        split; [exact Ec|]. split; [reflexivity|]. split; [left; reflexivity|]. split; [exact So|].
        pose proof (N.mul_div_le frm 64 ltac:(lia)). lia.
      + rewrite (pk_gh_top _ _ _ _ P). cbn [prim_gh sf_gh frame_gh]. rewrite gh_add_nil_l. apply gh_eq_refl.
    - unfold enter_tput. apply enter_tu_ok; [apply RO| |].
      + cbn [twf]. split; [|split; [exact P|exact R]]. cbn [top_wf]. eexists. split; [left; reflexivity|apply RO].
      + eapply gh_eq_trans; [eapply tput_gh; [exact P|reflexivity]|]. rewrite low_call_n. cbn [low_gh]. apply gh_eq_refl.
  Qed.

  Lemma K_GL3 p frm cl k v :
    twf g policy u c p (KGL3 frm cl :: k) -> vfacts p v ->
    aok (gh_add (post_gh g p v (KGL3 frm cl)) (gh_bl frm)) 21 (resume g policy u v (KGL3 frm cl) k).
  Proof.
    intros (T & P & R) V. cbn [top_wf] in T. destruct T as (fr & r & local & row' & Ec & -> & Sp & So & Hr). cbn [lvl gives_vg] in P, R.
    destruct (sprim_v _ _ _ _ _ Sp V) as (ok & old & new & -> & Si & Ha & ->). cbn [resume].
    eapply aok_gret; [exact Ec|exact P|exact R|]. destruct ok; cbn [post_gh sf_gh]; rewrite gh_add_nil_l; apply gh_eq_refl.
  Qed.

  Lemma K_GL4 p e t k v :
    twf g policy u c p (KGL4 e t :: k) -> vfacts p v ->
    aok (gh_add (post_gh g p v (KGL4 e t)) gh_nil) 21 (resume g policy u v (KGL4 e t) k).
  Proof.
    intros (T & P & R) V. cbn [top_wf] in T. destruct T as (n & Tp & L). cbn [lvl gives_vg] in P, R.
    destruct (tprim_v _ _ _ _ Tp V) as (ok & old & new & -> & Ha & _ & ->). cbn [resume].
    destruct ok; [|destruct (fput_some _ _ _ Ha)]. cbn [post_gh]. rewrite gh_add_nil_r. eapply aok_gerr'; eassumption.
  Qed.

  Lemma K_GL5 p o cl local fr t k v :
    twf g policy u c p (KGL5 o cl local fr t :: k) -> vfacts p v ->
    aok (gh_add (post_gh g p v (KGL5 o cl local fr t)) gh_nil) 21 (resume g policy u v (KGL5 o cl local fr t) k).
  Proof.
    intros (T & P & R) V. cbn [top_wf] in T. destruct T as (r & mn & Ec & -> & -> & Tp & L & So). cbn [lvl gives_vg] in P, R.
    destruct (tprim_v _ _ _ _ Tp V) as (ok & old & new & -> & Ha & _ & ->). cbn [resume post_gh]. rewrite gh_add_nil_r.
    destruct ok; [|cbn [tf_gh]; eapply aok_gerr'; eassumption].
    destruct (slot_ok_inv _ _ So) as (len & E & Ll). rewrite E. apply N.ltb_lt in Ll. rewrite Ll.
    apply aok_do; [| |apply not_lprim_enter; discriminate].
    - cbn [twf]. split; [|split; [exact P|exact R]]. cbn [top_wf]. exists r. split; [exact Ec|]. split; [reflexivity|].
      split; [reflexivity|]. split; [left; reflexivity|]. split; [exact L|exact So].
    - rewrite (pk_gh_top _ _ _ _ P). cbn [prim_gh sf_gh frame_gh]. rewrite gh_add_nil_r. apply gh_eq_refl.
  Qed.

  Lemma K_GL6 p o cl local fr t am k v :
    twf g policy u c p (KGL6 o cl local fr t am :: k) -> vfacts p v ->
    aok (gh_add (post_gh g p v (KGL6 o cl local fr t am)) gh_nil) 21 (resume g policy u v (KGL6 o cl local fr t am) k).
  Proof.
    intros (T & P & R) V. cbn [top_wf] in T. destruct T as (r & Ec & -> & -> & Sp & L & So). cbn [lvl gives_vg] in P, R.
    destruct (sprim_v _ _ _ _ _ Sp V) as (ok & old & new & -> & Si & Ha & ->). cbn [resume post_gh]. rewrite gh_add_nil_r.
    destruct ok.
    - apply enter_get_local_ok; assumption.
    - unfold enter_tput. apply enter_tu_ok; [exact L| |].
      + cbn [twf]. split; [|split; [exact P|exact R]]. cbn [top_wf]. eexists. split; [left; reflexivity|exact L].
      + eapply tput_gh; [exact P|reflexivity].
  Qed.

  (* --- search_best --- *)
  Lemma cands_add cap best key idx : cands_ok u best -> idx < ntrees u -> cands_ok u (sb_add N.leb cap best (key, idx)).
  Proof.
    intros C L. apply Forall_forall. intros y Hy. apply sb_add_In in Hy. destruct Hy as [->|Hy]; [exact L|].
    exact (proj1 (Forall_forall _ _) C y Hy).
  Qed.

  Lemma K_SBL p sb k v :
    twf g policy u c p (KSBL sb :: k) -> vfacts p v ->
    aok (gh_add (post_gh g p v (KSBL sb)) gh_nil) 21 (resume g policy u v (KSBL sb) k).
  Proof.
    intros (T & P & R) V. cbn [top_wf] in T. destruct T as ((i & -> & Li) & S). cbn [lvl gives_vg] in P, R.
    cbn [vfacts] in V. destruct V as (t & ->). cbn [resume post_gh]. rewrite gh_add_nil_r.
    assert (NX : forall sb', sb_wf u c sb' -> aok gh_nil 21 (sb_next u sb' k)).
    { intros sb' S'. eapply aok_weak; [eapply sw_bound; exact P|]. apply sb_next_ok; assumption. }
    destruct S as (A & C & N).
    pose proof (walk_idx_lt (sb_start sb) (ntrees u) (sb_i sb - 1) N) as Lw.
    assert (S : sb_wf u c sb) by (split; [exact A|split; [exact C|exact N]]).
    assert (AD : forall key, aok gh_nil 21
              (sb_next u {| sb_acc := sb_acc sb; sb_rate := sb_rate sb; sb_cap := sb_cap sb; sb_start := sb_start sb;
                            sb_i := sb_i sb; sb_n := sb_n sb;
                            sb_best := sb_add N.leb (sb_cap sb) (sb_best sb)
                                         (key, walk_idx (sb_start sb) (ntrees u) (sb_i sb - 1)) |} k)).
    { intros key. apply NX. split; [exact A|]. split; [apply cands_add; assumption|exact N]. }
    destruct (t_res t); [apply NX; exact S|].
    destruct (rate_apply g policy (sb_rate sb) (t_class t) (t_free t)) as [n| | |]; try (apply AD); [|apply NX; exact S].
    destruct n as [|q]; [apply AD|].
    do 8 (destruct q as [q|q|]; try apply AD).
    apply enter_access_ok; [exact (proj1 A)|exact (proj2 A)|exact Lw| |apply ret_ty_cons; [reflexivity|exact R]].
    apply pas_cons; [exact S|cbn; lia|exact P].
  Qed.

  (* --- reserve_or_steal --- *)
  Lemma ros_facts d t n cl new : tf_apply g policy d (FRos n cl) t 0 = Some (Ok new) ->
    n <= t_free t /\ (t_res new = true -> t_class new = cl).
  Proof.
    cbn [tf_apply]. unfold tree_reserve_or_steal.
    destruct ((n <=? t_free t) && negb (t_res t)) eqn:Ec; [|discriminate].
    apply andb_true_iff in Ec. destruct Ec as [Ln Nr]. apply N.leb_le in Ln. apply negb_true_iff in Nr.
    destruct (policy cl (t_class t) n); cbn [option_map]; intros H; inversion H; subst; cbn [t_res t_class];
      (split; [exact Ln|]); try reflexivity; intros Q; congruence.
  Qed.

  Lemma cwf_cget i o : (o <= tord g)%nat -> i < ntrees u -> cwf g (frames (low u)) (CGet (tree_row g i) o) = true.
  Proof.
    intros O L. unfold cwf. cbn [c_order]. apply Nat.leb_le in O. rewrite O. cbn [andb]. apply N.ltb_lt.
    change (tree_row g i * 64 / TF) with (row_tree g (tree_row g i)). rewrite (row_tree_tree_row g WF). rewrite <- SH. exact L.
  Qed.

  Lemma K_RS1 p i o cl local k v :
    twf g policy u c p (KRS1 i o cl local :: k) -> vfacts p v ->
    aok (gh_add (post_gh g p v (KRS1 i o cl local)) gh_nil) 21 (resume g policy u v (KRS1 i o cl local) k).
  Proof.
    intros (T & P & R) V. cbn [top_wf] in T. destruct T as (RO & Tp & Li). cbn [lvl gives_vg] in P, R.
    destruct (tprim_v _ _ _ _ Tp V) as (ok & old & new & -> & Ha & _ & ->). cbn [resume post_gh]. rewrite gh_add_nil_r.
    destruct ok; [|cbn [tf_gh]; eapply aok_err'; eassumption].
    destruct RO as (r & Ec & -> & -> & len & El & Ll). destruct (ros_facts _ _ _ _ _ Ha) as (Ln & Hc).
    destruct (get_req _ _ Ec) as (O & _).
    apply enter_low_get; [reflexivity|apply cwf_cget; assumption| |exact P|exact R|].
    - cbn [top_wf]. exists r. split; [exact Ec|]. split; [reflexivity|]. split; [eexists; reflexivity|]. split; [exact Li|].
      intros Hr. split; [apply Hc; exact Hr|]. split; [exact Ln|]. exists len. rewrite (Hc Hr). split; assumption.
    - cbn [c_n c_order low_gh frame_gh]. rewrite gh_add_nil_r. apply gh_eq_refl.
  Qed.

  Lemma unres_gh t a cl F k lo : pas_stack u c lo k ->
    pk_gh g (PTL t (FUnres a cl)) (F :: k) = gh_add (gh_ih t cl a) (frame_gh g F).
  Proof. intros P. rewrite (pk_gh_top _ _ _ _ P). reflexivity. Qed.

  Lemma K_RS2 p i o local reserved free tc k v :
    twf g policy u c p (KRS2 i o local reserved free tc :: k) -> vfacts p v ->
    aok (gh_add (post_gh g p v (KRS2 i o local reserved free tc)) gh_nil) 21
        (resume g policy u v (KRS2 i o local reserved free tc) k).
  Proof.
    intros (T & P & R) V. cbn [top_wf] in T. destruct T as (r & Ec & -> & Lp & Li & Hres). cbn [lvl gives_vg] in P, R.
    destruct (lprim_v _ _ _ Lp V) as (pc & -> & [(frm & -> & Hf)| ->]); cbn [resume post_gh]; rewrite gh_add_nil_r.
    - destruct (Hf eq_refl) as (Ht & Hl). cbn [c_frame] in Ht.
      change (tree_row g i * 64 / TF) with (row_tree g (tree_row g i)) in Ht. rewrite (row_tree_tree_row g WF) in Ht.
      destruct reserved; [|eapply aok_rret; [exact Ec|exact P|exact R|apply gh_eq_refl]].
      destruct (Hres eq_refl) as (-> & Ln & len & El & Ll). rewrite El. apply N.ltb_lt in Ll. rewrite Ll.
      apply aok_do; [| |apply not_lprim_enter; discriminate].
      + cbn [twf]. split; [|split; [exact P|exact R]]. cbn [top_wf]. eexists r, _, _. split; [exact Ec|]. split; [reflexivity|].
        split; [|split; [reflexivity|]].
        * unfold slot_ok. rewrite El. apply N.ltb_lt. apply N.mod_lt. apply N.ltb_lt in Ll. lia.
        * cbn [s_row]. rewrite (tree_row_64 g WF). pose proof (N.mul_div_le frm TF ltac:(pose proof (TF_pos g); lia)). lia.
      + rewrite (pk_gh_top _ _ _ _ P). cbn [prim_gh frame_gh]. unfold slot_gh. cbn [s_pres s_row s_free].
        rewrite (row_tree_tree_row g WF), Ht. apply gh_eq_refl.
    - destruct reserved.
      + apply enter_tu_ok; [exact Li| |].
        * cbn [twf]. split; [|split; [exact P|exact R]]. cbn [top_wf]. split; [eexists _, _, _; split; [left; reflexivity|exact Li]|].
          split; discriminate.
        * rewrite (unres_gh _ _ _ _ _ _ P). cbn [frame_gh]. rewrite gh_add_nil_r. apply gh_eq_refl.
      + unfold enter_tput. apply enter_tu_ok; [exact Li| |].
        * cbn [twf]. split; [|split; [exact P|exact R]]. cbn [top_wf]. split; [eexists _, _; split; [left; reflexivity|exact Li]|].
          split; discriminate.
        * eapply gh_eq_trans; [eapply tput_gh; [exact P|reflexivity]|]. cbn [c_n c_order low_gh]. apply gh_eq_refl.
  Qed.


  Lemma K_RS3 p frm tc k v :
    twf g policy u c p (KRS3 frm tc :: k) -> vfacts p v ->
    aok (gh_add (post_gh g p v (KRS3 frm tc)) (gh_bl frm)) 21 (resume g policy u v (KRS3 frm tc) k).
  Proof.
    intros (T & P & R) V. cbn [top_wf] in T. destruct T as (r & idx & new & Ec & -> & So & Pn & Rn). cbn [lvl gives_vg] in P, R.
    cbn [vfacts] in V. destruct V as (old & -> & Si). cbn [resume post_gh]. unfold slot_gh.
    destruct (s_pres old) eqn:Po.
    - destruct (Si Po) as (L1 & L2 & L3). apply enter_tu_ok; [exact L1| |].
      + cbn [twf]. split; [|split; [exact P|exact R]]. cbn [top_wf]. split; [eexists _, _, _; split; [left; reflexivity|exact L1]|].
        split; [discriminate|]. intros x _. eexists _, _. exact Ec.
      + rewrite (unres_gh _ _ _ _ _ _ P). cbn [frame_gh]. apply gh_eq_refl.
    - eapply aok_rret; [exact Ec|exact P|exact R|]. rewrite gh_add_nil_l. apply gh_eq_refl.
  Qed.

  Lemma ret_r_ok' G r k lo :
    pas_stack u c lo k -> ret_ty false k -> (forall z, r <> Panic z) -> gh_eq (ret_gh c r) G -> aok G 21 (ret_r r k).
  Proof.
    intros P T N E. eapply aok_weak; [eapply sw_bound; exact P|]. apply ret_r_ok; [eapply pas_weak; [|exact P]; lia|exact T|exact N|exact E].
  Qed.

  Lemma K_Unres p rr k v :
    twf g policy u c p (KUnres rr :: k) -> vfacts p v ->
    aok (gh_add (post_gh g p v (KUnres rr)) (frame_gh g (KUnres rr))) 21 (resume g policy u v (KUnres rr) k).
  Proof.
    intros (T & P & R) V. cbn [top_wf] in T. destruct T as ((t & a & cl & Tp & L) & NP & HG). cbn [lvl gives_vg] in P, R.
    destruct (tprim_v _ _ _ _ Tp V) as (ok & old & new & -> & Ha & Hu & ->). cbn [resume].
    rewrite (Hu _ _ eq_refl). cbn [post_gh]. rewrite gh_add_nil_l.
    eapply ret_r_ok'; [exact P|exact R|exact NP|].
    destruct rr as [[fr0 c0]|e|z]; cbn [frame_gh].
    - destruct (HG _ eq_refl) as (fr & r & Ec). rewrite Ec. apply gh_eq_refl.
    - rewrite ret_gh_err. apply gh_eq_refl.
    - destruct (NP z eq_refl).
  Qed.

  Lemma K_RetR p rr k v :
    twf g policy u c p (KRetR rr :: k) -> vfacts p v ->
    aok (gh_add (post_gh g p v (KRetR rr)) gh_nil) 21 (resume g policy u v (KRetR rr) k).
  Proof.
    intros (T & P & R) V. cbn [top_wf] in T. destruct T as ((t & n & Tp & L) & NP & HP). cbn [lvl gives_vg] in P, R.
    destruct (tprim_v _ _ _ _ Tp V) as (ok & old & new & -> & Ha & _ & ->). cbn [resume].
    destruct ok; [|destruct (fput_some _ _ _ Ha)]. cbn [post_gh]. rewrite gh_add_nil_l.
    eapply ret_r_ok'; [exact P|exact R|exact NP|].
    destruct rr as [x|e|z].
    - destruct (HP _ eq_refl) as (f & r & Ec). rewrite Ec. apply gh_eq_refl.
    - rewrite ret_gh_err. apply gh_eq_refl.
    - destruct (NP z eq_refl).
  Qed.

  (* --- steal_global --- *)
  Lemma row_ok_tree fr i : i < ntrees u -> fr_tree g fr i -> row_ok g u fr (tree_row g i).
  Proof. intros L F. unfold row_ok. rewrite (row_tree_tree_row g WF). split; assumption. Qed.

  Lemma K_SG1 p i o fr k v :
    twf g policy u c p (KSG1 i o fr :: k) -> vfacts p v ->
    aok (gh_add (post_gh g p v (KSG1 i o fr)) gh_nil) 21 (resume g policy u v (KSG1 i o fr) k).
  Proof.
    intros (T & P & R) V. cbn [top_wf] in T. destruct T as (r & Ec & -> & Tp & Li & Ft). cbn [lvl gives_vg] in P, R.
    destruct (tprim_v _ _ _ _ Tp V) as (ok & old & new & -> & Ha & _ & ->). cbn [resume post_gh]. rewrite gh_add_nil_r.
    destruct ok; [|cbn [tf_gh]; eapply aok_err'; eassumption].
    apply enter_low_get; [apply low_call_put|apply cwf_low_get; [exact Ec|apply row_ok_tree; assumption]| |exact P|exact R|].
    - cbn [top_wf]. exists fr, r. split; [exact Ec|]. split; [reflexivity|]. split; [eexists; reflexivity|]. split; assumption.
    - rewrite low_call_n. cbn [low_gh frame_gh]. rewrite gh_add_nil_r. apply gh_eq_refl.
  Qed.

  Lemma K_SG2 p i o cl k v :
    twf g policy u c p (KSG2 i o cl :: k) -> vfacts p v ->
    aok (gh_add (post_gh g p v (KSG2 i o cl)) gh_nil) 21 (resume g policy u v (KSG2 i o cl) k).
  Proof.
    intros (T & P & R) V. cbn [top_wf] in T. destruct T as (fr & r & Ec & -> & Lp & Li & Ft). cbn [lvl gives_vg] in P, R.
    destruct (lprim_v _ _ _ Lp V) as (pc & -> & [(frm & -> & Hf)| ->]); cbn [resume post_gh]; rewrite gh_add_nil_r.
    - eapply aok_rret; [exact Ec|exact P|exact R|apply gh_eq_refl].
    - unfold enter_tput. apply enter_tu_ok; [exact Li| |].
      + cbn [twf]. split; [|split; [exact P|exact R]]. cbn [top_wf]. split; [eexists _, _; split; [left; reflexivity|exact Li]|].
        split; discriminate.
      + eapply gh_eq_trans; [eapply tput_gh; [exact P|reflexivity]|]. rewrite low_call_n. cbn [low_gh]. apply gh_eq_refl.
  Qed.

  (* --- steal_local --- *)
  Lemma K_SL1 p r fr i j k v :
    twf g policy u c p (KSL1 r fr i j :: k) -> vfacts p v ->
    aok (gh_add (post_gh g p v (KSL1 r fr i j)) gh_nil) 21 (resume g policy u v (KSL1 r fr i j) k).
  Proof.
    intros (T & P & R) V. cbn [top_wf] in T. destruct T as (Ec & idx & Sp & So). cbn [lvl gives_vg] in P, R.
    destruct (sprim_v _ _ _ _ _ Sp V) as (ok & old & new & -> & Si & Ha & ->). cbn [resume post_gh]. rewrite gh_add_nil_r.
    destruct ok.
    - cbn [sf_apply] in Ha. destruct (slot_get g old (otree g fr) (pow2 (r_order r))) as [s'|] eqn:Eg; [|discriminate].
      destruct (slot_get_facts _ _ _ _ Eg) as (Pr & Tr & Le & _). destruct (Si Pr) as (L1 & L2 & L3).
      assert (RO : row_ok g u fr (s_row old)) by (split; [exact L1|apply fr_tree_otree; exact Tr]).
      apply enter_low_get; [apply low_call_put|apply cwf_low_get; assumption| |exact P|exact R|].
      + cbn [top_wf]. exists fr. split; [exact Ec|]. split; [eexists; reflexivity|exact RO].
      + rewrite low_call_n. cbn [low_gh frame_gh]. rewrite gh_add_nil_r. apply gh_eq_refl.
    - cbn [sf_gh]. eapply aok_weak; [eapply sw_bound; exact P|]. apply sl_next_ok; assumption.
  Qed.

  Lemma K_SL2 p r row tc k v :
    twf g policy u c p (KSL2 r row tc :: k) -> vfacts p v ->
    aok (gh_add (post_gh g p v (KSL2 r row tc)) gh_nil) 21 (resume g policy u v (KSL2 r row tc) k).
  Proof.
    intros (T & P & R) V. cbn [top_wf] in T. destruct T as (fr & Ec & Lp & RO). cbn [lvl gives_vg] in P, R.
    destruct (lprim_v _ _ _ Lp V) as (pc & -> & [(frm & -> & Hf)| ->]); cbn [resume post_gh]; rewrite gh_add_nil_r.
    - eapply aok_rret; [exact Ec|exact P|exact R|apply gh_eq_refl].
    - unfold enter_tput. apply enter_tu_ok; [apply RO| |].
      + cbn [twf]. split; [|split; [exact P|exact R]]. cbn [top_wf]. split; [eexists _, _; split; [left; reflexivity|apply RO]|].
        split; discriminate.
      + eapply gh_eq_trans; [eapply tput_gh; [exact P|reflexivity]|]. rewrite low_call_n. cbn [low_gh]. apply gh_eq_refl.
  Qed.

  (* --- demote_local --- *)
  Lemma K_DL1 p r fr i j k v :
    twf g policy u c p (KDL1 r fr i j :: k) -> vfacts p v ->
    aok (gh_add (post_gh g p v (KDL1 r fr i j)) gh_nil) 21 (resume g policy u v (KDL1 r fr i j) k).
  Proof.
    intros (T & P & R) V. cbn [top_wf] in T. destruct T as (Ec & idx & Sp & So & Pd). cbn [lvl gives_vg] in P, R.
    destruct (sprim_v _ _ _ _ _ Sp V) as (ok & old & new & -> & Si & Ha & ->). cbn [resume post_gh]. rewrite gh_add_nil_r.
    destruct ok.
    - cbn [sf_apply] in Ha. destruct (slot_get g old (otree g fr) (pow2 (r_order r))) as [s'|] eqn:Eg; [|discriminate].
      destruct (slot_get_facts _ _ _ _ Eg) as (Pr & Tr & Le & ->). destruct (Si Pr) as (L1 & L2 & L3).
      assert (RO : row_ok g u fr (s_row old)) by (split; [exact L1|apply fr_tree_otree; exact Tr]).
      change (option_map (fun f0 : N => f0 / TF) fr) with (otree g fr). rewrite Eg.
      destruct (r_local r) as [lc|] eqn:El.
      + destruct (slot_ok_local r fr lc (or_introl Ec) El) as (Sl & len & E & L). rewrite E. apply N.ltb_lt in L. rewrite L.
        apply aok_do; [| |apply not_lprim_enter; discriminate].
        * cbn [twf]. split; [|split; [exact P|exact R]]. cbn [top_wf]. split; [exact Ec|]. eexists _, _. split; [reflexivity|].
          split; [exact Sl|]. split; [reflexivity|]. split; [reflexivity|]. split; [exact RO|exact L2].
        * rewrite (pk_gh_top _ _ _ _ P). cbn [prim_gh frame_gh]. unfold slot_gh, rt. cbn [s_pres s_row s_free]. apply gh_eq_refl.
      + apply enter_tu_ok; [exact L1| |].
        * cbn [twf]. split; [|split; [exact P|exact R]]. cbn [top_wf]. split; [exact Ec|].
          split; [eexists _, _; split; [left; reflexivity|exact L1]|exact RO].
        * rewrite (unres_gh _ _ _ _ _ _ P). cbn [frame_gh s_row s_free]. unfold rt. apply gh_eq_refl.
    - cbn [sf_gh]. eapply aok_weak; [eapply sw_bound; exact P|]. apply dl_next_ok; assumption.
  Qed.

  Lemma K_DL2 p r fr row k v :
    twf g policy u c p (KDL2 r fr row :: k) -> vfacts p v ->
    aok (gh_add (post_gh g p v (KDL2 r fr row)) (frame_gh g (KDL2 r fr row))) 21 (resume g policy u v (KDL2 r fr row) k).
  Proof.
    intros (T & P & R) V. cbn [top_wf] in T. destruct T as (Ec & lc & new & -> & So & Pn & Er & RO & Rr). cbn [lvl gives_vg] in P, R.
    cbn [vfacts] in V. destruct V as (old & -> & Si). cbn [resume post_gh frame_gh]. unfold slot_gh.
    destruct (s_pres old) eqn:Po.
    - destruct (Si Po) as (L1 & L2 & L3). apply enter_tu_ok; [exact L1| |].
      + cbn [twf]. split; [|split; [exact P|exact R]]. cbn [top_wf]. split; [exact Ec|].
        split; [eexists _, _; split; [left; reflexivity|exact L1]|exact RO].
      + rewrite (unres_gh _ _ _ _ _ _ P). cbn [frame_gh]. apply gh_eq_refl.
    - apply enter_low_get; [apply low_call_put|apply cwf_low_get; assumption| |exact P|exact R|].
      + cbn [top_wf]. exists fr. split; [exact Ec|]. split; [eexists; reflexivity|exact RO].
      + rewrite low_call_n. cbn [low_gh frame_gh]. rewrite gh_add_nil_r, gh_add_nil_l. apply gh_eq_refl.
  Qed.

  Lemma K_DL3 p r fr row k v :
    twf g policy u c p (KDL3 r fr row :: k) -> vfacts p v ->
    aok (gh_add (post_gh g p v (KDL3 r fr row)) (frame_gh g (KDL3 r fr row))) 21 (resume g policy u v (KDL3 r fr row) k).
  Proof.
    intros (T & P & R) V. cbn [top_wf] in T. destruct T as (Ec & (t & a & Tp & L) & RO). cbn [lvl gives_vg] in P, R.
    destruct (tprim_v _ _ _ _ Tp V) as (ok & old & new & -> & Ha & Hu & ->). cbn [resume].
    rewrite (Hu _ _ eq_refl). cbn [post_gh frame_gh]. rewrite gh_add_nil_l.
    apply enter_low_get; [apply low_call_put|apply cwf_low_get; assumption| |exact P|exact R|].
    - cbn [top_wf]. exists fr. split; [exact Ec|]. split; [eexists; reflexivity|exact RO].
    - rewrite low_call_n. cbn [low_gh frame_gh]. rewrite gh_add_nil_r. apply gh_eq_refl.
  Qed.

  Lemma K_DL4 p r row k v :
    twf g policy u c p (KDL4 r row :: k) -> vfacts p v ->
    aok (gh_add (post_gh g p v (KDL4 r row)) gh_nil) 21 (resume g policy u v (KDL4 r row) k).
  Proof.
    intros (T & P & R) V. cbn [top_wf] in T. destruct T as (fr & Ec & Lp & RO). cbn [lvl gives_vg] in P, R.
    destruct (lprim_v _ _ _ Lp V) as (pc & -> & [(frm & -> & Hf)| ->]); cbn [resume post_gh]; rewrite gh_add_nil_r.
    - eapply aok_rret; [exact Ec|exact P|exact R|apply gh_eq_refl].
    - unfold enter_tput. apply enter_tu_ok; [apply RO| |].
      + cbn [twf]. split; [|split; [exact P|exact R]]. cbn [top_wf]. split; [eexists _, _; split; [left; reflexivity|apply RO]|].
        split; discriminate.
      + eapply gh_eq_trans; [eapply tput_gh; [exact P|reflexivity]|]. rewrite low_call_n. cbn [low_gh]. apply gh_eq_refl.
  Qed.

  (* --- put --- *)
  Lemma put_facts f r : c = UPut f r -> req_ok g u r /\ frame_ok u f (r_order r).
  Proof. intros Ec. rewrite Ec in CW. exact CW. Qed.

  Lemma aok_unit k lo : (exists f r, c = UPut f r) \/ c = UDrain \/ (exists m ch, c = UChange m ch) ->
    pas_stack u c lo k -> ret_ty false k ->
    aok gh_nil 21 (ARet (VR (Ok (0, 0))) k).
  Proof.
    intros Ec P T. split; [|cbn [wt]; eapply sw_bound; exact P]. cbn [act_ok].
    split; [eapply pas_weak; [|exact P]; lia|]. split; [exact T|]. split; [discriminate|].
    destruct Ec as [(f & r & ->)|[-> |(m & ch & ->)]]; apply gh_eq_refl.
  Qed.

  Lemma K_Put1 p f r k v :
    twf g policy u c p (KPut1 f r :: k) -> vfacts p v ->
    aok (gh_add (post_gh g p v (KPut1 f r)) gh_nil) 21 (resume g policy u v (KPut1 f r) k).
  Proof.
    intros (T & P & R) V. cbn [top_wf] in T. destruct T as (Ec & Lp). cbn [lvl gives_vg] in P, R.
    destruct (put_facts _ _ Ec) as (Rq & Fo). pose proof (frame_tree_lt _ _ Fo) as Lt.
    assert (P2 : pas_stack u c 2 k) by (eapply pas_weak; [|exact P]; lia).
    assert (TP : aok (gh_cr (f / TF) (pow2 (r_order r))) 21 (enter_tput u (f / TF) (pow2 (r_order r)) (KRetR (Ok (0, 0)) :: k))).
    { unfold enter_tput. apply enter_tu_ok; [exact Lt| |].
      - cbn [twf]. split; [|split; [exact P2|exact R]]. cbn [top_wf]. split; [eexists _, _; split; [left; reflexivity|exact Lt]|].
        split; [discriminate|]. intros x _. eexists _, _. exact Ec.
      - eapply tput_gh; [exact P2|reflexivity]. }
    destruct (lprim_v _ _ _ Lp V) as (pc & -> & [(frm & -> & Hf)| ->]); cbn [resume post_gh]; rewrite gh_add_nil_r.
    - destruct (r_local r) as [local|] eqn:El; [|exact TP].
      destruct (slot_ok_local r None local (or_intror (ex_intro _ f Ec)) El) as (Sl & len & E & L).
      rewrite E. apply N.ltb_lt in L. rewrite L.
      apply aok_do; [| |apply not_lprim_enter; discriminate].
      + cbn [twf]. split; [|split; [exact P|exact R]]. cbn [top_wf]. split; [exact Ec|]. eexists. split; [left; reflexivity|exact Sl].
      + rewrite (pk_gh_top _ _ _ _ P). cbn [prim_gh sf_gh frame_gh]. rewrite gh_add_nil_r. apply gh_eq_refl.
    - eapply aok_err'; eassumption.
  Qed.

  Lemma K_Put2 p f r k v :
    twf g policy u c p (KPut2 f r :: k) -> vfacts p v ->
    aok (gh_add (post_gh g p v (KPut2 f r)) gh_nil) 21 (resume g policy u v (KPut2 f r) k).
  Proof.
    intros (T & P & R) V. cbn [top_wf] in T. destruct T as (Ec & local & Sp & So). cbn [lvl gives_vg] in P, R.
    destruct (put_facts _ _ Ec) as (Rq & Fo). pose proof (frame_tree_lt _ _ Fo) as Lt.
    assert (P2 : pas_stack u c 2 k) by (eapply pas_weak; [|exact P]; lia).
    destruct (sprim_v _ _ _ _ _ Sp V) as (ok & old & new & -> & Si & Ha & ->). cbn [resume post_gh]. rewrite gh_add_nil_r.
    destruct ok.
    - eapply aok_unit; [left; eexists _, _; exact Ec|exact P|exact R].
    - cbn [sf_gh]. unfold enter_tput. apply enter_tu_ok; [exact Lt| |].
      + cbn [twf]. split; [|split; [exact P2|exact R]]. cbn [top_wf]. split; [eexists _, _; split; [left; reflexivity|exact Lt]|].
        split; [discriminate|]. intros x _. eexists _, _. exact Ec.
      + eapply tput_gh; [exact P2|reflexivity].
  Qed.

  (* --- drain --- *)
  Lemma drain_scan_slots n : forall cc j c' j', drain_scan u cc j n = Some (c', j') -> slot_ok u c' j' = true.
  Proof.
    induction n as [|n IH]; intros cc j c' j'; cbn [drain_scan]; [discriminate|].
    destruct (8 <=? cc); [discriminate|]. destruct (class_locals u cc) as [len|] eqn:E; [|apply IH].
    destruct (j <? len) eqn:Ej; [|apply IH]. intros H; inversion H; subst. unfold slot_ok. rewrite E. exact Ej.
  Qed.

  Lemma dr_next_ok cc j k : c = UDrain -> pas_stack u c 5 k -> ret_ty false k -> aok gh_nil 21 (dr_next u cc j k).
  Proof.
    intros Ec P R. unfold dr_next. destruct (drain_scan u cc j 9) as [[c' j']|] eqn:E.
    - apply aok_do; [| |apply not_lprim_enter; discriminate].
      + cbn [twf]. split; [|split; [exact P|exact R]]. cbn [top_wf]. split; [exact Ec|]. split; [reflexivity|].
        eapply drain_scan_slots; exact E.
      + eapply gh_top_nil; [exact P|reflexivity|reflexivity].
    - eapply aok_unit; [right; left; exact Ec|exact P|exact R].
  Qed.

  Lemma K_Dr1 p cc j k v :
    twf g policy u c p (KDr1 cc j :: k) -> vfacts p v ->
    aok (gh_add (post_gh g p v (KDr1 cc j)) gh_nil) 21 (resume g policy u v (KDr1 cc j) k).
  Proof.
    intros (T & P & R) V. cbn [top_wf] in T. destruct T as (Ec & -> & So). cbn [lvl gives_vg] in P, R.
    cbn [vfacts] in V. destruct V as (old & -> & Si). cbn [resume post_gh]. unfold slot_gh. rewrite gh_add_nil_r.
    destruct (s_pres old) eqn:Po.
    - destruct (Si Po) as (L1 & L2 & L3). apply enter_tu_ok; [exact L1| |].
      + cbn [twf]. split; [|split; [exact P|exact R]]. cbn [top_wf]. split; [exact Ec|]. eexists _, _; split; [left; reflexivity|exact L1].
      + rewrite (unres_gh _ _ _ _ _ _ P). cbn [frame_gh]. rewrite gh_add_nil_r. apply gh_eq_refl.
    - apply dr_next_ok; assumption.
  Qed.

  Lemma K_Dr2 p cc j k v :
    twf g policy u c p (KDr2 cc j :: k) -> vfacts p v ->
    aok (gh_add (post_gh g p v (KDr2 cc j)) gh_nil) 21 (resume g policy u v (KDr2 cc j) k).
  Proof.
    intros (T & P & R) V. cbn [top_wf] in T. destruct T as (Ec & t & a & Tp & L). cbn [lvl gives_vg] in P, R.
    destruct (tprim_v _ _ _ _ Tp V) as (ok & old & new & -> & Ha & Hu & ->). cbn [resume].
    rewrite (Hu _ _ eq_refl). cbn [post_gh]. rewrite gh_add_nil_r. apply dr_next_ok; assumption.
  Qed.

  (* --- change_at --- *)
  Lemma K_Ch p k v :
    twf g policy u c p (KCh :: k) -> vfacts p v ->
    aok (gh_add (post_gh g p v KCh) gh_nil) 21 (resume g policy u v KCh k).
  Proof.
    intros (T & P & R) V. cbn [top_wf] in T. destruct T as (i & m & ch & Ec & Tp & L). cbn [lvl gives_vg] in P, R.
    destruct (tprim_v _ _ _ _ Tp V) as (ok & old & new & -> & Ha & _ & ->). cbn [resume post_gh]. rewrite gh_add_nil_r.
    destruct ok; cbn [tf_gh].
    - eapply aok_unit; [right; right; eexists _, _; exact Ec|exact P|exact R].
    - eapply aok_err'; eassumption.
  Qed.

  (* ----- all top frames ----- *)
  Lemma K_top p f k v :
    twf g policy u c p (f :: k) -> vfacts p v ->
    aok (gh_add (post_gh g p v f) (frame_gh g f)) 21 (resume g policy u v f k).
  Proof.
    intros T V. destruct f; try (destruct T as (T & _); destruct T; fail).
    - exact (K_GL1 _ _ _ _ _ _ _ _ T V).
    - exact (K_GL2 _ _ _ _ _ _ _ T V).
    - exact (K_GL3 _ _ _ _ _ T V).
    - exact (K_GL4 _ _ _ _ _ T V).
    - exact (K_GL5 _ _ _ _ _ _ _ _ T V).
    - exact (K_GL6 _ _ _ _ _ _ _ _ _ T V).
    - exact (K_SBL _ _ _ _ T V).
    - exact (K_RS1 _ _ _ _ _ _ _ T V).
    - exact (K_RS2 _ _ _ _ _ _ _ _ _ T V).
    - exact (K_RS3 _ _ _ _ _ T V).
    - exact (K_Unres _ _ _ _ T V).
    - exact (K_RetR _ _ _ _ T V).
    - exact (K_SG1 _ _ _ _ _ _ T V).
    - exact (K_SG2 _ _ _ _ _ _ T V).
    - exact (K_SL1 _ _ _ _ _ _ _ T V).
    - exact (K_SL2 _ _ _ _ _ _ T V).
    - exact (K_DL1 _ _ _ _ _ _ _ T V).
    - exact (K_DL2 _ _ _ _ _ _ T V).
    - exact (K_DL3 _ _ _ _ _ _ T V).
    - exact (K_DL4 _ _ _ _ _ T V).
    - exact (K_Put1 _ _ _ _ _ T V).
    - exact (K_Put2 _ _ _ _ _ T V).
    - exact (K_Dr1 _ _ _ _ _ T V).
    - exact (K_Dr2 _ _ _ _ _ T V).
    - exact (K_Ch _ _ _ T V).
  Qed.

  Lemma K_settle p f k v :
    twf g policy u c p (f :: k) -> vfacts p v ->
    good (gh_add (post_gh g p v f) (frame_gh g f)) (settle g policy SETTLE u (ARet v (f :: k))).
  Proof.
    intros T V. destruct (K_top p f k v T V) as [A W].
    change (settle g policy SETTLE u (ARet v (f :: k))) with (settle g policy 63 u (resume g policy u v f k)).
    apply settle_good; [exact A|lia].
  Qed.

  (* ----- the start of a get / drain (c is the call) ----- *)
  Lemma enter_global_ok r k : c = UGet None r -> pas_stack u c 5 k -> ret_ty false k -> aok gh_nil 21 (enter_global u r k).
  Proof.
    intros Ec P T. unfold enter_global.
    assert (P5 : pas_stack u c 3 (KGet2 r None :: k)) by (apply pas_cons; [exact Ec|cbn; lia|exact P]).
    eapply aok_weak; [eapply sw_bound; exact P5|]. apply enter_sb_ok; [|exact I|eapply ntrees_pos; exact Ec|exact P5|].
    - exists r. split; [exact Ec|]. split; reflexivity.
    - apply ret_ty_cons; [reflexivity|exact T].
  Qed.
End Local.

(* ================= the start of a call ================= *)
Section Start.
  Variable g : geom.
  Variable policy : N -> N -> N -> pol.
  Hypothesis WF : wf_geom g.
  Variable u : upper.
  Hypothesis SH : ntrees u = ntab g (frames (low u)).
  Notation TF := (TF g).

  (* scope restriction "valid parameters": a slot index below the slot count of the class, or none;
     change_tree: Offline or a pure class change onto a configured class (`change_ok`) *)
  Definition call_valid (c : ucall) : Prop :=
    match c with
    | UGet _ r | UPut _ r => forall l len, r_local r = Some l -> class_locals u (r_class r) = Some len -> l < len
    | UDrain => True
    | UChange _ ch => change_ok u ch
    end.

  Lemma check_wf frame r :
    check g u frame r = Ok tt ->
    (forall l len, r_local r = Some l -> class_locals u (r_class r) = Some len -> l < len) ->
    req_ok g u r /\ frame_ok u frame (r_order r).
  Proof.
    unfold check. intros H V.
    destruct (Nat.leb (r_order r) (tord g)) eqn:E1; cbn [negb] in H; [|discriminate].
    destruct ((frame + pow2 (r_order r) <? W64) && (frame + pow2 (r_order r) <=? frames (low u))) eqn:E2; cbn [negb] in H; [|discriminate].
    destruct (frame mod pow2 (r_order r) =? 0) eqn:E3; cbn [negb] in H; [|discriminate].
    destruct (class_locals u (r_class r)) as [len|] eqn:E4; [|discriminate].
    apply Nat.leb_le in E1. apply andb_true_iff in E2. destruct E2 as [_ E2]. apply N.leb_le in E2. apply N.eqb_eq in E3.
    split; [|split; assumption]. split; [exact E1|]. split; [pose proof (pow2_pos (r_order r)); lia|]. exists len. split; [exact E4|].
    intros l El. exact (V l len El eq_refl).
  Qed.

  Definition start_good (c : ucall) (x : settled) : Prop :=
    match x with
    | SRun p k =>
        call_wf g u c /\ twf g policy u c p k /\ gh_eq (pk_gh g p k) gh_nil /\
        (enter_ok g u p \/
         exists f r, c = UPut f r /\ p = PLow (TRun (CPut f (r_order r)) (entry_pc g (CPut f (r_order r)))) /\
                     cwf g (frames (low u)) (CPut f (r_order r)) = true)
    | SDone r => (forall z, r <> Panic z) /\ ret_gh c r = gh_nil
    | SCrash _ => False
    end.

  Lemma good_start c G x : call_wf g u c -> gh_eq G gh_nil -> good g policy u c G x -> start_good c x.
  Proof.
    intros CW E. destruct x as [p k|r|z]; cbn [good start_good]; [| |tauto].
    - intros (T & Ge & En). split; [exact CW|]. split; [exact T|]. split; [eapply gh_eq_trans; eassumption|left; exact En].
    - intros (NP & Ge). split; [exact NP|].
      pose proof (gh_eq_trans _ _ _ Ge E) as (_ & _ & B). destruct c; try reflexivity.
      destruct r as [[fr cl]|e|z]; try reflexivity. cbn in B. discriminate.
  Qed.

  Lemma start_ok c : call_valid c -> start_good c (settle g policy SETTLE u (enter_call g u c)).
  Proof.
    intros V. destruct c as [fr r|f r| |m ch]; cbn [call_valid enter_call] in *.
    - (* get *)
      unfold enter_get. destruct (check g u (match fr with Some f => f | None => 0 end) r) as [[]|e|z] eqn:Ck.
      2:{ unfold SETTLE. cbn [settle start_good]. split; [discriminate|reflexivity]. }
      2:{ exfalso. unfold check in Ck. destruct (negb _); [discriminate|]. destruct (negb _); [discriminate|].
          destruct (negb _); [discriminate|]. destruct (class_locals u (r_class r)); discriminate. }
      destruct (check_wf _ _ Ck V) as (Rq & Fo).
      assert (CW : call_wf g u (UGet fr r)) by (destruct fr; cbn [call_wf]; [split; assumption|exact Rq]).
      eapply good_start; [exact CW|apply gh_eq_refl|]. apply settle_ok; [exact SH|exact CW|].
      refine (proj1 (_ : aok g policy u _ gh_nil 21 _)).
      destruct fr as [f|].
      + unfold enter_get_at. destruct (r_local r) as [local|] eqn:El.
        * destruct (slot_ok_local g u _ CW r (Some f) local (or_introl eq_refl) El) as (Sl & _).
          eapply (enter_get_local_ok g policy u _ SH 21); [reflexivity|exact Sl| |].
          -- apply pas_cons; [reflexivity|cbn; lia|apply pas_nil].
          -- split; [reflexivity|constructor].
        * apply (after_local_ok g policy u _ SH CW 21); [reflexivity|apply pas_nil|reflexivity].
      + destruct (r_local r) as [local|] eqn:El.
        * destruct (slot_ok_local g u _ CW r None local (or_introl eq_refl) El) as (Sl & len & E & L).
          rewrite E. destruct ((0 <? len) && (len <? ntrees u)) eqn:Eb.
          -- apply andb_true_iff in Eb. destruct Eb as [Eb _]. apply N.ltb_lt in Eb.
             eapply (enter_get_local_ok g policy u _ SH 21); [reflexivity|exact Sl| |].
             ++ apply pas_cons; [|cbn; lia|apply pas_nil]. cbn [pas_wf]. split; [reflexivity|]. exists local, len.
                split; [exact El|]. split; [exact E|exact Eb].
             ++ split; [reflexivity|constructor].
          -- apply (enter_global_ok g policy u _ SH CW); [reflexivity|apply pas_nil|reflexivity].
        * apply (enter_global_ok g policy u _ SH CW); [reflexivity|apply pas_nil|reflexivity].
    - (* put *)
      unfold enter_put. destruct (check g u f r) as [[]|e|z] eqn:Ck.
      2:{ unfold SETTLE. cbn [settle start_good]. split; [discriminate|reflexivity]. }
      2:{ exfalso. unfold check in Ck. destruct (negb _); [discriminate|]. destruct (negb _); [discriminate|].
          destruct (negb _); [discriminate|]. destruct (class_locals u (r_class r)); discriminate. }
      destruct (check_wf _ _ Ck V) as (Rq & Fo).
      assert (CW : call_wf g u (UPut f r)) by (split; assumption).
      unfold enter_low, SETTLE. cbn [settle start_good]. split; [exact CW|]. split.
      + cbn [twf]. split; [|split; [apply pas_nil|reflexivity]]. cbn [top_wf]. split; [reflexivity|eexists; reflexivity].
      + split.
        * unfold pk_gh. cbn [hd_error prim_gh low_gh frames_gh fold_right frame_gh].
          assert (E0 : lhold g (TRun (CPut f (r_order r)) (entry_pc g (CPut f (r_order r)))) = 0).
          { cbn [entry_pc lhold]. destruct (Nat.leb _ _); cbn [lhold]; [apply N.mul_0_l|reflexivity]. }
          rewrite E0, !gh_add_nil_r. apply gh_cr0.
        * right. exists f, r. split; [reflexivity|]. split; [reflexivity|].
          destruct Rq as (O & _). destruct Fo as [A B]. unfold cwf. cbn [c_order]. apply Nat.leb_le in O. rewrite O.
          apply N.eqb_eq in A. apply N.leb_le in B. rewrite A, B. reflexivity.
    - (* drain *)
      eapply good_start; [exact I|apply gh_eq_refl|]. apply settle_ok; [exact SH|exact I|].
      refine (proj1 (_ : aok g policy u _ gh_nil 21 _)). apply (dr_next_ok g policy u UDrain SH I); [reflexivity|apply pas_nil|reflexivity].
    - (* change_tree *)
      assert (CW : call_wf g u (UChange m ch)) by exact V.
      eapply good_start; [exact CW|apply gh_eq_refl|]. apply settle_ok; [exact SH|exact CW|].
      refine (proj1 (_ : aok g policy u _ gh_nil 21 _)).
      assert (A : acc_wf u (UChange m ch) (AcChange (m_class m) (m_free m) ch)) by (exists m; repeat split).
      assert (C : exists mc mf ch0, AcChange (m_class m) (m_free m) ch = AcChange mc mf ch0) by (eexists _, _, _; reflexivity).
      unfold enter_change. destruct (m_id m) as [i|].
      + destruct (UpperMachine.tree_ok u i) eqn:Et.
        * apply (enter_access_change g policy u _ SH 21%nat); [exact A|exact C|apply N.ltb_lt; exact Et|apply pas_nil|reflexivity].
        * cbn [enter_access]. rewrite Et. apply (aok_weak g policy u _ SH gh_nil 1%nat 21%nat); [lia|].
          apply (aok_err g policy u _ SH CW EArgument []); [apply pas_nil|reflexivity].
      + destruct (ntrees u =? 0) eqn:En.
        * apply (aok_weak g policy u _ SH gh_nil 1%nat 21%nat); [lia|].
          apply (aok_err g policy u _ SH CW EMemory []); [apply pas_nil|reflexivity].
        * apply (aok_weak g policy u _ SH gh_nil 1%nat 21%nat); [lia|].
          apply (se_next_ok g policy u _ SH CW _ 0 (length (trees u)) []); [exact A|exact C|apply N.eqb_neq; exact En|apply pas_nil|reflexivity].
  Qed.
End Start.

(* ================= only static parts of the state are read ================= *)
Section Static.
  Variable g : geom.
  Variable policy : N -> N -> N -> pol.
  Variables u u' : upper.
  Hypothesis SE : static_eq u u'.

  Lemma st_ntrees : ntrees u' = ntrees u. Proof. apply SE. Qed.
  Lemma st_locals cl : class_locals u' cl = class_locals u cl. Proof. apply SE. Qed.
  Lemma st_frames : frames (low u') = frames (low u). Proof. apply SE. Qed.
  Lemma st_dflt : dflt u' = dflt u. Proof. apply SE. Qed.
  Lemma st_slot_ok cl i : slot_ok u' cl i = slot_ok u cl i.
  Proof. unfold slot_ok. rewrite st_locals. reflexivity. Qed.

  Ltac st := unfold req_ok, frame_ok, tprim, row_ok, ros_ok, acc_wf, change_ok;
             repeat setoid_rewrite st_ntrees; repeat setoid_rewrite st_frames; repeat setoid_rewrite st_dflt;
             repeat setoid_rewrite st_slot_ok; repeat setoid_rewrite st_locals.

  Lemma req_ok_static r : req_ok g u r -> req_ok g u' r.
  Proof. intros H. st. exact H. Qed.
  Lemma call_wf_static c : call_wf g u c -> call_wf g u' c.
  Proof. destruct c as [[f|] r|f r| |]; cbn [call_wf]; intros H; st; exact H. Qed.
  Lemma acc_wf_static c a : acc_wf u c a -> acc_wf u' c a.
  Proof. destruct a; cbn [acc_wf]; intros H; st; exact H. Qed.
  Lemma cands_ok_static l : cands_ok u l -> cands_ok u' l.
  Proof. unfold cands_ok. intros H. eapply Forall_impl; [|exact H]. intros x. cbv beta. rewrite st_ntrees. tauto. Qed.
  Lemma sb_wf_static c sb : sb_wf u c sb -> sb_wf u' c sb.
  Proof.
    intros ((A & A') & B & C). split; [split; [apply acc_wf_static; exact A|exact A']|]. split; [apply cands_ok_static; exact B|].
    rewrite st_ntrees. exact C.
  Qed.
  Lemma pas_wf_static c f : pas_wf u c f -> pas_wf u' c f.
  Proof.
    destruct f; cbn [pas_wf]; try tauto; intros H.
    - st. exact H.
    - st. exact H.
    - apply sb_wf_static. exact H.
    - destruct H as [A B]. split; [apply sb_wf_static; exact A|apply cands_ok_static; exact B].
    - destruct H as (A & B & C). split; [apply acc_wf_static; exact A|]. split; [exact B|rewrite st_ntrees; exact C].
  Qed.
  Lemma top_wf_static c p f : top_wf g policy u c p f -> top_wf g policy u' c p f.
  Proof.
    destruct f; cbn [top_wf]; try tauto; intros H; try (st; exact H).
    - destruct H as ((i & E & L) & B). split; [exists i; split; [exact E|rewrite st_ntrees; exact L]|apply sb_wf_static; exact B].
  Qed.
  Lemma twf_static c p k : twf g policy u c p k -> twf g policy u' c p k.
  Proof.
    destruct k as [|f k]; cbn [twf]; [tauto|]. intros (A & (B & C) & D). split; [apply top_wf_static; exact A|].
    split; [|exact D]. split; [|exact C]. eapply Forall_impl; [|exact B]. intros x. apply pas_wf_static.
  Qed.
  Lemma vfacts_static p v : vfacts g policy u p v -> vfacts g policy u' p v.
  Proof.
    destruct p; cbn [vfacts]; unfold slot_in; intros H; rewrite ?st_ntrees, ?st_frames, ?st_dflt; exact H.
  Qed.
End Static.

Lemma static_refl u : static_eq u u.
Proof. repeat split. Qed.
Lemma static_set_tree u i t : static_eq u (set_tree u i t).
Proof. split; [apply ntrees_set_tree|]. repeat split. Qed.
Lemma static_set_slot u c j s : static_eq u (set_slot u c j s).
Proof.
  split; [apply ntrees_set_slot|]. split; [|split; [rewrite set_slot_low; reflexivity|apply set_slot_dflt]].
  intros c'. unfold class_locals. destruct (N.eq_dec c' c) as [->|Ne].
  - destruct (class_slots u c) as [l|] eqn:E.
    + rewrite (class_slots_set_slot_same u c j s l E). cbn [option_map]. rewrite upd_length. reflexivity.
    + unfold set_slot. rewrite E, E. reflexivity.
  - rewrite class_slots_set_slot_other by exact Ne. reflexivity.
Qed.
