(* The two initialisation modes satisfy HeldInit: after free_all the client holds nothing, after reserve_all
   (Init::AllocAll) it holds every whole huge frame at HUGE_ORDER and every other managed frame at order 0. *)
From Coq Require Import PeanoNat.
From LLF Require Import Base BitLemmas Row RowProofs Bitfield Lower Spec LowerMachine
  ConcBase ConcInvDef ConcInvGeom ConcInvStep ConcInvTac ConcInv.

Lemma nth_error_seq a n i : (i < n)%nat -> nth_error (seq a n) i = Some (a + i)%nat.
Proof. revert a i; induction n; intros a i H; [lia|]. destruct i; cbn [seq nth_error]; [f_equal; lia|]. rewrite IHn by lia. f_equal. lia. Qed.
Lemma nth_error_map_seq {A} (F : nat -> A) n i : (i < n)%nat -> nth_error (map F (seq 0 n)) i = Some (F i).
Proof. intros H. erewrite map_nth_error; [reflexivity|]. rewrite nth_error_seq by exact H. reflexivity. Qed.

Lemma bf_set_from_nth v s e : forall rows r0 j,
  nth_error (bf_set_from v s e r0 rows) j = option_map (bf_set_row v s e (r0 + N.of_nat j)) (nth_error rows j).
Proof.
  induction rows as [|x rest IH]; intros r0 j; [destruct j; reflexivity|].
  destruct j; cbn [bf_set_from nth_error option_map].
  - rewrite N.add_0_r. reflexivity.
  - rewrite IH. f_equal. f_equal. lia.
Qed.

Section Init.
  Variable g : geom.
  Hypothesis wf : wf_geom g.
  Notation HF := (HF g).
  Notation THUGE := (THUGE g).
  Notation ROWS := (ROWS g).

  Lemma nn_of_nat_lt h n : h < n -> (nn h < nn n)%nat. Proof. unfold nn. lia. Qed.

  (* h < nbf: either a whole bitfield or the partial last one *)
  Lemma nbf_cases fr h : h < nbf g fr -> h < fr / HF \/ (h = fr / HF /\ h * HF < fr).
  Proof.
    intros Hh. pose proof (nbf_lt g fr h Hh) as Hlt. pose proof (HF_pos g) as HP.
    destruct (N.lt_ge_cases h (fr / HF)) as [?|Hge]; [left; assumption|right].
    pose proof (N.div_mod fr HF ltac:(lia)). pose proof (N.mod_lt fr HF ltac:(lia)).
    split; [|exact Hlt]. assert (h * HF < (fr / HF + 1) * HF) by lia. assert (h < fr / HF + 1) by nia. lia.
  Qed.

  (* ----- free_all ----- *)
  Lemma free_all_ent fr h : h < ntab g fr * THUGE -> entv (boot (free_all g fr) [] 0) h = N.min (fr - h * HF) HF.
  Proof.
    intros Hh. unfold entv, rd_ent. cbn [ms_ents boot ents free_all]. unfold free_all_ents.
    rewrite nth_error_map_seq by (apply nn_of_nat_lt; exact Hh). unfold nn. rewrite N2Nat.id. reflexivity.
  Qed.

  Lemma free_all_bit fr h r i : h < nbf g fr -> r < ROWS -> i < 64 ->
    bit (boot (free_all g fr) [] 0) h r i = (fr <=? fidx g h r i).
  Proof.
    intros Hh Hr Hi. pose proof (HF_pos g) as HP. pose proof (HF_64 g wf) as E64.
    unfold bit, rowv, rd_row. cbn [ms_bfs boot bfs free_all]. unfold free_all_bfs.
    rewrite nth_error_map_seq by (apply nn_of_nat_lt; exact Hh). unfold nn at 1. rewrite N2Nat.id.
    assert (Hrn : (nn r < rows_nat g)%nat) by (rewrite (ROWS_nat g wf) in Hr; unfold nn; lia).
    destruct (nbf_cases fr h Hh) as [Hw|[Eh Hlt]].
    - destruct (N.ltb_spec h (fr / HF)); [|lia]. rewrite nth_error_repeat by exact Hrn. rewrite N.bits_0.
      pose proof (N.mul_div_le fr HF ltac:(lia)). pose proof (rowbit_lt g wf r i Hr Hi).
      assert ((h + 1) * HF <= fr / HF * HF) by nia. unfold fidx. lia.
    - destruct (N.ltb_spec h (fr / HF)); [lia|]. unfold bf_set.
      rewrite bf_set_from_nth, bf_set_from_nth, nth_error_repeat by exact Hrn. cbn [option_map].
      rewrite N.add_0_l. unfold nn. rewrite !N2Nat.id.
      set (e := fr - h * HF).
      assert (Einner : bf_set_row false 0 e r 0 = 0) by (unfold bf_set_row; destruct (_ <? _); [apply N.land_0_l|reflexivity]).
      rewrite Einner. unfold bf_set_row.
      destruct (N.ltb_spec (N.max e (64 * r)) (N.min HF (64 * r + 64))) as [Hl|Hl].
      + rewrite N.lor_0_l, testbit_mask64. unfold inb, fidx, e. lia.
      + rewrite N.bits_0. unfold fidx, e. lia.
  Qed.

  Theorem held_init_free_all fr : HeldInit g (free_all g fr) [].
  Proof.
    constructor.
    - constructor.
    - intros h r i Hh Hr Hi. cbn [frames free_all] in *.
      rewrite (free_all_bit fr h r i Hh Hr Hi).
      rewrite free_all_ent by (pose proof (nbf_le_ents g fr); lia).
      pose proof (HF_lt_MARK g wf). unfold isMark, oor, heldc. rewrite sumf_nil.
      destruct (N.eqb_spec (N.min (fr - h * HF) HF) MARK); [lia|]. cbn [b2n]. lia.
    - intros h _. reflexivity.
  Qed.

  (* ----- reserve_all ----- *)
  Lemma reserve_all_ent fr h : h < ntab g fr * THUGE ->
    entv (boot (reserve_all g fr) (alloc_all_held g fr) 0) h = if h <? fr / HF then MARK else 0.
  Proof.
    intros Hh. unfold entv, rd_ent. cbn [ms_ents boot ents reserve_all]. unfold reserve_all_ents.
    rewrite nth_error_map_seq by (apply nn_of_nat_lt; exact Hh). unfold nn. rewrite N2Nat.id. reflexivity.
  Qed.
  Lemma reserve_all_ent_oob fr h : ntab g fr * THUGE <= h -> entv (boot (reserve_all g fr) (alloc_all_held g fr) 0) h = 0.
  Proof.
    intros Hh. unfold entv, rd_ent. cbn [ms_ents boot ents reserve_all]. unfold reserve_all_ents.
    destruct (nth_error _ (nn h)) eqn:E; [|reflexivity]. exfalso.
    apply nth_error_some_lt in E. rewrite map_length, seq_length in E. unfold nn in E. lia.
  Qed.
  Lemma reserve_all_bit fr h r i : h < nbf g fr -> r < ROWS -> i < 64 ->
    bit (boot (reserve_all g fr) (alloc_all_held g fr) 0) h r i = negb (h <? fr / HF).
  Proof.
    intros Hh Hr Hi. unfold bit, rowv, rd_row. cbn [ms_bfs boot bfs reserve_all]. unfold reserve_all_bfs.
    rewrite nth_error_map_seq by (apply nn_of_nat_lt; exact Hh). unfold nn at 1. rewrite N2Nat.id.
    assert (Hrn : (nn r < rows_nat g)%nat) by (rewrite (ROWS_nat g wf) in Hr; unfold nn; lia).
    destruct (h <? fr / HF); rewrite nth_error_repeat by exact Hrn; [apply N.bits_0|].
    rewrite testbit_MAX64. apply N.ltb_lt. exact Hi.
  Qed.

  (* the two parts of alloc_all_held as sums over index ranges *)
  Lemma sumf_map_seq (F : (N * nat) -> N) (G : N -> N * nat) n :
    sumf F (map (fun j => G (N.of_nat j)) (seq 0 (nn n))) = ssum n (fun j => F (G j)).
  Proof. unfold ssum, nseq. rewrite sumf_map, sumf_map. reflexivity. Qed.

  Lemma alloc_all_heldc fr x :
    heldc x (alloc_all_held g fr)
    = ssum (fr / HF) (fun h => b2n (inb (h * HF) HF x)) + ssum (fr mod HF) (fun j => b2n (inb (fr / HF * HF + j) 1 x)).
  Proof.
    unfold heldc, alloc_all_held. rewrite sumf_app.
    rewrite (sumf_map_seq (fun b => b2n (cover b x)) (fun h => (h * HF, hord g))).
    rewrite (sumf_map_seq (fun b => b2n (cover b x)) (fun j => (fr / HF * HF + j, 0%nat))).
    reflexivity.
  Qed.
  Lemma alloc_all_hugec fr h :
    hugec g h (alloc_all_held g fr) = ssum (fr / HF) (fun h' => b2n (inb (h' * HF) HF (h * HF))).
  Proof.
    unfold hugec, alloc_all_held. rewrite sumf_app.
    rewrite (sumf_map_seq (hugeb g h) (fun h => (h * HF, hord g))).
    rewrite (sumf_map_seq (hugeb g h) (fun j => (fr / HF * HF + j, 0%nat))).
    rewrite (ssum_ext _ (fun j => hugeb g h (fr / HF * HF + j, 0%nat)) (fun _ => 0)).
    2:{ intros j _. apply hugeb_small. destruct wf. lia. }
    rewrite ssum_const, N.mul_0_r, N.add_0_r. apply ssum_ext. intros h' _.
    unfold hugeb, cover. cbn [fst snd]. rewrite Nat.leb_refl. reflexivity.
  Qed.

  Theorem held_init_reserve_all fr : HeldInit g (reserve_all g fr) (alloc_all_held g fr).
  Proof.
    pose proof (HF_pos g) as HP. pose proof (N.div_mod fr HF ltac:(lia)) as Edm. pose proof (N.mod_lt fr HF ltac:(lia)) as Lm.
    constructor; cbn [frames reserve_all].
    - unfold alloc_all_held. apply Forall_app. split; apply Forall_forall; intros b Hb; apply in_map_iff in Hb;
        destruct Hb as (j & <- & Hj); apply in_seq in Hj; unfold blk_ok; cbn [fst snd]; apply andb_true_iff; split.
      + apply N.eqb_eq. rewrite <- HF_pow2. apply N.mod_mul. lia.
      + apply N.leb_le. rewrite <- HF_pow2. unfold nn in Hj. assert (N.of_nat j + 1 <= fr / HF) by lia.
        assert ((N.of_nat j + 1) * HF <= fr / HF * HF) by (apply N.mul_le_mono_r; assumption). lia.
      + apply N.eqb_eq. apply N.mod_1_r.
      + apply N.leb_le. change (pow2 0) with 1. unfold nn in Hj. lia.
    - intros h r i Hh Hr Hi.
      rewrite (reserve_all_bit fr h r i Hh Hr Hi), reserve_all_ent by (pose proof (nbf_le_ents g fr); lia).
      rewrite alloc_all_heldc. pose proof (rowbit_lt g wf r i Hr Hi) as Hb. unfold fidx, oor.
      destruct (nbf_cases fr h Hh) as [Hw|[Eh Hlt]].
      + destruct (N.ltb_spec h (fr / HF)); [|lia]. unfold isMark. rewrite N.eqb_refl. cbn [negb b2n].
        rewrite (ssum_ext _ _ (fun h' => b2n (h' =? h))).
        2:{ intros h' _. rewrite <- N.add_assoc. replace (h' * HF) with (h' * HF + 0) by lia.
            rewrite (inb_in_huge g h' 0 HF h (r * 64 + i)) by lia. unfold inb. lia. }
        rewrite ssum_eqb. rewrite (ssum_ext _ (fun j => b2n (inb (fr / HF * HF + j) 1 (h * HF + r * 64 + i))) (fun _ => 0)).
        2:{ intros j _. assert ((h + 1) * HF <= fr / HF * HF) by (apply N.mul_le_mono_r; lia). unfold inb. lia. }
        rewrite ssum_const. assert ((h + 1) * HF <= fr / HF * HF) by (apply N.mul_le_mono_r; lia). lia.
      + destruct (N.ltb_spec h (fr / HF)); [lia|]. unfold isMark, MARK. cbn [negb b2n].
        rewrite (ssum_ext _ (fun h' => b2n (inb (h' * HF) HF (h * HF + r * 64 + i))) (fun _ => 0)).
        2:{ intros h' Hh'. replace (h' * HF) with (h' * HF + 0) by lia. rewrite <- N.add_assoc.
            rewrite (inb_in_huge g h' 0 HF h (r * 64 + i)) by lia. lia. }
        rewrite ssum_const. rewrite <- Eh.
        rewrite (ssum_ext _ _ (fun j => b2n (j =? r * 64 + i))) by (intros j _; unfold inb; lia).
        rewrite ssum_eqb. subst h. lia.
    - intros h He. rewrite alloc_all_hugec.
      assert (Hge : fr / HF <= h).
      { destruct (N.lt_ge_cases h (fr / HF)) as [Hlt|?]; [|assumption]. exfalso. apply He.
        rewrite reserve_all_ent; [destruct (N.ltb_spec h (fr / HF)); [reflexivity|lia]|].
        pose proof (nbf_le_ents g fr). assert (h < nbf g fr); [|lia]. apply (N.lt_le_trans _ (fr / HF)); [exact Hlt|].
        apply (le_nbf g). pose proof (N.mul_div_le fr HF ltac:(lia)). lia. }
      rewrite (ssum_ext _ _ (fun _ => 0)); [rewrite ssum_const; lia|].
      intros h' Hh'. pose proof (inb_in_huge g h' 0 HF h 0 ltac:(lia) HP) as Ei. rewrite !N.add_0_r in Ei. rewrite Ei. lia.
  Qed.
End Init.
