(* Extraction for driver `step`: the small-step machine M1 of the lower allocator (LowerMachine.v),
   its boot states, and the specifications the oracles evaluate on the implementation's own results
   (Spec.v: abs, lower_invb, spec_put_enabled, accounting; Lower.v: recover, stats).
   ExtrOcamlBasic only; N, positive, nat stay Coq's inductives. *)
From LLF Require Import AccessBoundsDef Base Row Bitfield Lower Spec LowerMachine.
Require Import ExtrOcamlBasic.
Extraction Language OCaml.
Set Extraction KeepSingleton.
Extraction "model.ml"
  mstep boot lower_of free_all reserve_all alloc_all_held held_ok panicked
  lower_recover lower_stats
  abs lower_invb spec_put_enabled all_alloc all_free exact_free free_huge_count free_tree_count
  (* C18: the index / lane predicate evaluated on the accesses of the compiled code *)
  row_idx_okb ent_idx_okb
  popcount.
